(** Proofs about the GMP account model (IcaGmp/Gmp.v). *)
From IBC Require Import Lib.Bytes Lib.BytesFacts Lib.Dec Lib.BE64 Lib.BE64Facts IcaGmp.Gmp.
Local Open Scope N_scope.

(** * Preimage injectivity: pure list reasoning with 8-byte big-endian length prefixes *)

Lemma len_prefix_inj (a a' r r' : bytes) :
  lenN a < two64 -> lenN a' < two64 ->
  len_prefix a ++ r = len_prefix a' ++ r' -> a = a' /\ r = r'.
Proof.
  intros Ha Ha' E. unfold len_prefix in E. rewrite <- !app_assoc in E.
  apply app_len_inj in E; [|now rewrite !be64_length].
  destruct E as [E1 E2].
  apply be64_inj in E1; [|assumption|assumption].
  unfold lenN in E1. apply Nat2N.inj in E1.
  now apply app_len_inj in E2.
Qed.

Lemma gmp_key_inj c s x c' s' x' :
  lenN c < two64 -> lenN s < two64 -> lenN x < two64 ->
  lenN c' < two64 -> lenN s' < two64 -> lenN x' < two64 ->
  gmp_key c s x = gmp_key c' s' x' -> (c, s, x) = (c', s', x').
Proof.
  intros Hc Hs Hx Hc' Hs' Hx' E. unfold gmp_key in E.
  apply len_prefix_inj in E; [|assumption|assumption]. destruct E as [-> E].
  apply len_prefix_inj in E; [|assumption|assumption]. destruct E as [-> E].
  rewrite <- (app_nil_r (len_prefix x)), <- (app_nil_r (len_prefix x')) in E.
  apply len_prefix_inj in E; [|assumption|assumption]. destruct E as [-> _].
  reflexivity.
Qed.

(** without the length prefixes the concatenations coincide: ("ab","c") vs ("a","bc") *)
Lemma unprefixed_concat_not_injective :
  exists c s x c' s' x', (c, s, x) <> (c', s', x') /\ (c ++ s ++ x : bytes) = c' ++ s' ++ x'.
Proof.
  exists (B "ab"), (B "c"), [], (B "a"), (B "bc"), []. split; [discriminate|reflexivity].
Qed.

Section Derivation.
  Variable H : bytes -> bytes.
  Hypothesis Hlen : forall x, length (H x) = 32%nat.

  Lemma gmp_address_full c s x : gmp_address H c s x = address_module H accounts_key (gmp_key c s x).
  Proof.
    unfold gmp_address. apply firstn_all2. unfold address_module. rewrite Hlen. apply le_n.
  Qed.

  (** equal addresses: equal triples, or a collision of [H] is exhibited *)
  Lemma gmp_address_inj c s x c' s' x' :
    lenN c < two64 -> lenN s < two64 -> lenN x < two64 ->
    lenN c' < two64 -> lenN s' < two64 -> lenN x' < two64 ->
    gmp_address H c s x = gmp_address H c' s' x' ->
    (c, s, x) = (c', s', x') \/ exists a b : bytes, a <> b /\ H a = H b.
  Proof.
    intros Hc Hs Hx Hc' Hs' Hx' E. rewrite !gmp_address_full in E. unfold address_module in E.
    destruct (bytes_eq_dec (module_preimage H accounts_key (gmp_key c s x))
                           (module_preimage H accounts_key (gmp_key c' s' x'))) as [P|P].
    - left. unfold module_preimage in P.
      apply app_inv_head in P. apply app_inv_head in P.
      assert (P' : gmp_key c s x = gmp_key c' s' x') by congruence.
      apply gmp_key_inj; assumption.
    - right. eauto.
  Qed.

  Lemma build_address_some c s x a : build_address H c s x = Some a -> a = gmp_address H c s x.
  Proof.
    unfold build_address. destruct (negb (client_id_valid c)); [discriminate|].
    destruct (blank s); [discriminate|]. now intros [= <-].
  Qed.
End Derivation.

(** * Keeper *)

Lemma triple_eqb_eq a b : triple_eqb a b = true <-> a = b.
Proof.
  destruct a as [[c s] x], b as [[c' s'] x']. unfold triple_eqb.
  rewrite !andb_true_iff, !bytes_eqb_eq. split.
  - intros [[-> ->] ->]. reflexivity.
  - intros [= -> -> ->]. auto.
Qed.

Lemma triple_eqb_refl a : triple_eqb a a = true.
Proof. now apply triple_eqb_eq. Qed.

Lemma run_msgs_app {S} (l1 l2 : list (Msg S)) s :
  run_msgs (l1 ++ l2) s = match run_msgs l1 s with MOk s' => run_msgs l2 s' | MErr => MErr | MPanic => MPanic end.
Proof.
  revert s; induction l1 as [|m l1 IH]; intros s; simpl; [reflexivity|].
  destruct (m_step m s); auto.
Qed.

(** a failing (or panicking) position anywhere makes the whole list fail *)
Lemma run_msgs_fail_at {S} (l1 l2 : list (Msg S)) (m : Msg S) s s1 :
  run_msgs l1 s = MOk s1 -> m_step m s1 = MErr -> run_msgs (l1 ++ m :: l2) s = MErr.
Proof. intros E1 E2. rewrite run_msgs_app, E1. simpl. now rewrite E2. Qed.

Lemma run_msgs_panic_at {S} (l1 l2 : list (Msg S)) (m : Msg S) s s1 :
  run_msgs l1 s = MOk s1 -> m_step m s1 = MPanic -> run_msgs (l1 ++ m :: l2) s = MPanic.
Proof. intros E1 E2. rewrite run_msgs_app, E1. simpl. now rewrite E2. Qed.

Section Keeper.
  Variable H : bytes -> bytes.
  Variable A : Type.
  Variable ensure_account : bytes -> A -> A.

  Notation GState := (GState A).
  Notation get_or_create := (get_or_create H A ensure_account).
  Notation keeper_recv := (keeper_recv H A ensure_account).
  Notation module_recv := (module_recv H A ensure_account).

  Lemma get_or_create_spec (g g1 : GState) t a :
    get_or_create g t = Some (g1, a) ->
    acc_get (g_accounts g1) t = Some a /\
    (forall t' a', acc_get (g_accounts g) t' = Some a' -> acc_get (g_accounts g1) t' = Some a') /\
    (forall t' a', acc_get (g_accounts g1) t' = Some a' ->
       acc_get (g_accounts g) t' = Some a' \/
       (t' = t /\ a' = a /\ acc_get (g_accounts g) t = None /\
        a = gmp_address H (fst (fst t)) (snd (fst t)) (snd t))) /\
    (g_rest g1 = g_rest g \/ g_rest g1 = ensure_account a (g_rest g)).
  Proof.
    unfold get_or_create. destruct (has_nul _ || has_nul _); [discriminate|].
    destruct (acc_get (g_accounts g) t) as [a0|] eqn:E.
    - intros [= <- <-]. repeat split; auto.
    - destruct t as [[c s] x]. destruct (build_address H c s x) as [a0|] eqn:B; [|discriminate].
      intros [= <- <-]. cbn [g_accounts g_rest acc_get fst snd]. rewrite triple_eqb_refl. repeat split; auto.
      + intros t' a' E'. destruct (triple_eqb (c, s, x) t') eqn:T; [|assumption].
        apply triple_eqb_eq in T. subst t'. congruence.
      + intros t' a'. destruct (triple_eqb (c, s, x) t') eqn:T.
        * apply triple_eqb_eq in T. subst t'. intros [= <-]. right. repeat split; auto.
          now apply build_address_some.
        * auto.
  Qed.

  Lemma keeper_recv_accounts g t p :
    (forall t' a', acc_get (g_accounts g) t' = Some a' ->
                   acc_get (g_accounts (fst (keeper_recv g t p))) t' = Some a') /\
    (forall t' a', acc_get (g_accounts (fst (keeper_recv g t p))) t' = Some a' ->
       acc_get (g_accounts g) t' = Some a' \/
       (t' = t /\ acc_get (g_accounts g) t = None /\
        a' = gmp_address H (fst (fst t)) (snd (fst t)) (snd t))).
  Proof.
    unfold keeper_recv. destruct (get_or_create g t) as [[g1 acct]|] eqn:G; [|simpl; auto].
    apply get_or_create_spec in G. destruct G as (_ & Hmono & Hnew & _).
    assert (E : g_accounts (fst (match p with
       | None => (g1, RErr)
       | Some msgs => if negb (gmp_authenticate A acct msgs) then (g1, RErr)
                      else match run_msgs msgs (g_rest g1) with
                           | MOk r' => (mkG (g_accounts g1) r', ROk)
                           | MErr => (g1, RErr) | MPanic => (g1, RPanic) end
       end)) = g_accounts g1).
    { destruct p as [msgs|]; [|reflexivity].
      destruct (negb (gmp_authenticate A acct msgs)); [reflexivity|].
      destruct (run_msgs msgs (g_rest g1)); reflexivity. }
    rewrite E. split; [exact Hmono|].
    intros t' a' E'. destruct (Hnew t' a' E') as [?|(-> & -> & Hn & Ha)]; auto.
  Qed.

  (** write-once, one step and over any operation list (keeper level: even failing receives keep it) *)
  Lemma keeper_recv_write_once g t p t' a' :
    acc_get (g_accounts g) t' = Some a' -> acc_get (g_accounts (fst (keeper_recv g t p))) t' = Some a'.
  Proof. apply keeper_recv_accounts. Qed.

  Lemma run_keeper_recvs_write_once ops g t a :
    acc_get (g_accounts g) t = Some a ->
    acc_get (g_accounts (run_keeper_recvs H A ensure_account g ops)) t = Some a.
  Proof.
    unfold run_keeper_recvs. revert g; induction ops as [|o ops IH]; intros g E; simpl; [exact E|].
    apply IH. now apply keeper_recv_write_once.
  Qed.

  (** every entry is the derived address of its own triple *)
  Definition derived (g : GState) : Prop :=
    forall t a, acc_get (g_accounts g) t = Some a -> a = gmp_address H (fst (fst t)) (snd (fst t)) (snd t).

  Lemma keeper_recv_derived g t p : derived g -> derived (fst (keeper_recv g t p)).
  Proof.
    intros D t' a' E. apply keeper_recv_accounts in E. destruct E as [E|(-> & _ & ->)]; auto.
  Qed.

  (** authentication *)
  Lemma gmp_auth_msg_spec acct (m : Msg A) : gmp_auth_msg A acct m = true <-> m_signers m = Some [acct].
  Proof.
    unfold gmp_auth_msg. destruct (m_signers m) as [[|sg [|sg2 l]]|]; split; try discriminate.
    - intros E. apply bytes_eqb_eq in E. now subst.
    - intros [= ->]. apply bytes_eqb_refl.
  Qed.

  Lemma gmp_authenticate_spec acct msgs :
    gmp_authenticate A acct msgs = true <-> msgs <> [] /\ Forall (fun m => m_signers m = Some [acct]) msgs.
  Proof.
    unfold gmp_authenticate. destruct msgs as [|m ms].
    - split; [discriminate|]. intros [X _]. now elim X.
    - rewrite forallb_forall, Forall_forall. split.
      + intros F. split; [discriminate|]. intros x Hx. now apply gmp_auth_msg_spec, F.
      + intros [_ F] x Hx. now apply gmp_auth_msg_spec, F.
  Qed.

  (** execution => exactly one signer per message, equal to the account of the triple; the effects are
      exactly the fold of all message steps; anything else leaves [g_rest] unexecuted *)
  Lemma keeper_recv_ok g t p g' :
    keeper_recv g t p = (g', ROk) ->
    exists acct msgs g1,
      p = Some msgs /\ get_or_create g t = Some (g1, acct) /\
      acc_get (g_accounts g') t = Some acct /\
      msgs <> [] /\ Forall (fun m => m_signers m = Some [acct]) msgs /\
      run_msgs msgs (g_rest g1) = MOk (g_rest g').
  Proof.
    unfold keeper_recv. destruct (get_or_create g t) as [[g1 acct]|] eqn:G; [|discriminate].
    destruct p as [msgs|]; [|discriminate].
    destruct (gmp_authenticate A acct msgs) eqn:Au; simpl; [|discriminate].
    destruct (run_msgs msgs (g_rest g1)) as [r'| |] eqn:R; try discriminate.
    intros [= <-]. apply gmp_authenticate_spec in Au. destruct Au as [Hne Hall].
    exists acct, msgs, g1. repeat split; auto.
    simpl. now apply get_or_create_spec in G.
  Qed.

  Lemma keeper_recv_not_ok g t p :
    snd (keeper_recv g t p) <> ROk ->
    g_rest (fst (keeper_recv g t p)) = g_rest g \/
    exists a, g_rest (fst (keeper_recv g t p)) = ensure_account a (g_rest g).
  Proof.
    unfold keeper_recv. destruct (get_or_create g t) as [[g1 acct]|] eqn:G; [|simpl; auto].
    apply get_or_create_spec in G. destruct G as (_ & _ & _ & Hr).
    assert (R1 : g_rest g1 = g_rest g \/ exists a, g_rest g1 = ensure_account a (g_rest g))
      by (destruct Hr; eauto).
    destruct p as [msgs|]; [|simpl; auto].
    destruct (negb (gmp_authenticate A acct msgs)); [simpl; auto|].
    destruct (run_msgs msgs (g_rest g1)); simpl; auto. intros X. now elim X.
  Qed.

  (** module level (what channel-v2 RecvPacket commits): all or nothing *)
  Lemma module_recv_atomic g i :
    snd (module_recv g i) <> ROk -> fst (module_recv g i) = g.
  Proof.
    unfold module_recv.
    destruct (negb _); [reflexivity|]. destruct (negb _); [reflexivity|].
    destruct (ri_data i) as [[[[[sender salt] lr] lp] lm]|]; [|reflexivity].
    destruct (negb _); [reflexivity|].
    destruct (keeper_recv g _ (ri_msgs i)) as [g' r]. destruct r; simpl; auto. intros X. now elim X.
  Qed.

  Lemma module_recv_ok g i g' :
    module_recv g i = (g', ROk) ->
    exists sender salt lr lp lm,
      ri_data i = Some (sender, salt, lr, lp, lm) /\
      keeper_recv g (ri_dest_client i, sender, salt) (ri_msgs i) = (g', ROk).
  Proof.
    unfold module_recv.
    destruct (negb _); [discriminate|]. destruct (negb _); [discriminate|].
    destruct (ri_data i) as [[[[[sender salt] lr] lp] lm]|]; [|discriminate].
    destruct (negb _); [discriminate|].
    destruct (keeper_recv g _ (ri_msgs i)) as [g1 r] eqn:K. destruct r; try discriminate.
    intros [= <-]. exists sender, salt, lr, lp, lm. auto.
  Qed.


  (** module level: a packet executes only if every message has exactly one signer, the account of
      (destination client, sender, salt); the committed effects are the fold of all message steps *)
  Lemma module_recv_ok_full g i g' :
    module_recv g i = (g', ROk) ->
    exists sender salt lr lp lm acct msgs g1,
      ri_data i = Some (sender, salt, lr, lp, lm) /\ ri_msgs i = Some msgs /\
      get_or_create g (ri_dest_client i, sender, salt) = Some (g1, acct) /\
      acc_get (g_accounts g') (ri_dest_client i, sender, salt) = Some acct /\
      msgs <> [] /\ Forall (fun m => m_signers m = Some [acct]) msgs /\
      run_msgs msgs (g_rest g1) = MOk (g_rest g').
  Proof.
    intros M. apply module_recv_ok in M. destruct M as (sender & salt & lr & lp & lm & D & K).
    apply keeper_recv_ok in K. destruct K as (acct & msgs & g1 & P & G & Ac & Ne & F & R).
    exists sender, salt, lr, lp, lm, acct, msgs, g1. repeat split; auto.
  Qed.

  (** all-or-nothing for every failing position: if the k-th message fails after the first k-1
      succeeded, the receive is not ROk and nothing is committed *)
  Lemma module_recv_failing_position g i l1 m l2 :
    ri_msgs i = Some (l1 ++ m :: l2) ->
    (forall s, run_msgs l1 s = MErr \/ run_msgs l1 s = MPanic \/
               exists s1, run_msgs l1 s = MOk s1 /\ m_step m s1 <> MOk s1 /\ forall s2, m_step m s1 <> MOk s2) ->
    fst (module_recv g i) = g /\ snd (module_recv g i) <> ROk.
  Proof.
    intros Hm Hf.
    assert (N : snd (module_recv g i) <> ROk).
    { intros E. destruct (module_recv g i) as [g' r] eqn:M. simpl in E. subst r.
      apply module_recv_ok_full in M.
      destruct M as (sender & salt & lr & lp & lm & acct & msgs & g1 & _ & Hm' & _ & _ & _ & _ & R).
      rewrite Hm in Hm'. injection Hm' as <-. rewrite run_msgs_app in R.
      destruct (Hf (g_rest g1)) as [E|[E|(s1 & E & _ & Hn)]]; rewrite E in R; try discriminate.
      simpl in R. destruct (m_step m s1) as [s2| |] eqn:St; try discriminate. now elim (Hn s2). }
    split; [now apply module_recv_atomic|exact N].
  Qed.

  Lemma module_recv_write_once g i t a :
    acc_get (g_accounts g) t = Some a -> acc_get (g_accounts (fst (module_recv g i))) t = Some a.
  Proof.
    intros E. destruct (module_recv g i) as [g' r] eqn:M. destruct r.
    - apply module_recv_ok in M. destruct M as (sender & salt & lr & lp & lm & _ & K).
      simpl. change g' with (fst (g', ROk)). rewrite <- K. now apply keeper_recv_write_once.
    - pose proof (module_recv_atomic g i) as X. rewrite M in X. simpl in *. rewrite X; [assumption|discriminate].
    - pose proof (module_recv_atomic g i) as X. rewrite M in X. simpl in *. rewrite X; [assumption|discriminate].
  Qed.

  Lemma module_recv_derived g i : derived g -> derived (fst (module_recv g i)).
  Proof.
    intros D. destruct (module_recv g i) as [g' r] eqn:M. destruct r.
    - apply module_recv_ok in M. destruct M as (sender & salt & lr & lp & lm & _ & K).
      simpl. change g' with (fst (g', ROk)). rewrite <- K. now apply keeper_recv_derived.
    - pose proof (module_recv_atomic g i) as X. rewrite M in X. simpl in *. rewrite X; [assumption|discriminate].
    - pose proof (module_recv_atomic g i) as X. rewrite M in X. simpl in *. rewrite X; [assumption|discriminate].
  Qed.

  Lemma run_recvs_write_once ops g t a :
    acc_get (g_accounts g) t = Some a ->
    acc_get (g_accounts (run_recvs H A ensure_account g ops)) t = Some a.
  Proof.
    unfold run_recvs. revert g; induction ops as [|o ops IH]; intros g E; simpl; [exact E|].
    apply IH. now apply module_recv_write_once.
  Qed.

  Lemma run_recvs_derived ops g : derived g -> derived (run_recvs H A ensure_account g ops).
  Proof.
    unfold run_recvs. revert g; induction ops as [|o ops IH]; intros g D; simpl; [exact D|].
    apply IH. now apply module_recv_derived.
  Qed.

  (** distinct triples never share an address in any reachable accounts map (or a collision is exhibited) *)
  Lemma derived_distinct g t t' a :
    (forall x, length (H x) = 32%nat) ->
    derived g ->
    lenN (fst (fst t)) < two64 -> lenN (snd (fst t)) < two64 -> lenN (snd t) < two64 ->
    lenN (fst (fst t')) < two64 -> lenN (snd (fst t')) < two64 -> lenN (snd t') < two64 ->
    acc_get (g_accounts g) t = Some a -> acc_get (g_accounts g) t' = Some a ->
    t = t' \/ exists x y : bytes, x <> y /\ H x = H y.
  Proof.
    intros Hlen D L1 L2 L3 L4 L5 L6 E E'. apply D in E. apply D in E'.
    destruct t as [[c s] x], t' as [[c' s'] x']. simpl in *.
    apply (gmp_address_inj H Hlen c s x c' s' x'); auto. congruence.
  Qed.

  (** OnSendPacket accepted => the packet sender is the transaction signer *)
  Lemma module_send_ok i :
    module_send i = true -> si_sender_addr i = Some (si_signer i) /\
                            bytes_eqb (si_src_port i) gmp_port = true /\ bytes_eqb (si_dst_port i) gmp_port = true.
  Proof.
    unfold module_send. rewrite !andb_true_iff. intros [[[P1 P2] _] D].
    destruct (si_data i) as [[[[[sender salt] lr] lp] lm]|]; [|discriminate].
    apply andb_true_iff in D. destruct D as [_ D].
    destruct (si_sender_addr i) as [a|]; [|discriminate].
    apply bytes_eqb_eq in D. subst. auto.
  Qed.
End Keeper.
