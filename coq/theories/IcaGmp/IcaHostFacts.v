(** Proofs about the ICA host model (IcaGmp/IcaHost.v). *)
From IBC Require Import Lib.Bytes Lib.BytesFacts IcaGmp.Gmp IcaGmp.GmpFacts IcaGmp.IcaHost.
Local Open Scope N_scope.

Lemma existsb_bytes_in url l : existsb (bytes_eqb url) l = true <-> In url l.
Proof.
  rewrite existsb_exists. split.
  - intros (x & Hin & E). apply bytes_eqb_eq in E. now subst.
  - intros Hin. exists url. split; [assumption|apply bytes_eqb_refl].
Qed.

(** the allow-list rule: the wildcard counts only when it is the single entry *)
Lemma contains_msg_type_spec allow url :
  contains_msg_type allow url = true <-> allow = [star] \/ In url allow.
Proof.
  unfold contains_msg_type. destruct allow as [|w [|w2 l]].
  - simpl. split; [discriminate|]. intros [E|[]]. discriminate.
  - destruct (bytes_eqb w star) eqn:E.
    + apply bytes_eqb_eq in E. subst. split; auto.
    + rewrite existsb_bytes_in. split; [auto|]. intros [[= ->]|Hin]; [|assumption].
      rewrite bytes_eqb_refl in E. discriminate.
  - rewrite existsb_bytes_in. split; [auto|]. intros [E|Hin]; [discriminate|assumption].
Qed.

Section Host.
  Variable A : Type.
  Notation HostState := (HostState A).
  Notation Msg := (Msg HostState).

  Lemma ica_auth_msg_spec allow ica (m : Msg) :
    ica_auth_msg A allow ica m = true <->
    (allow = [star] \/ In (m_url m) allow) /\
    exists sgs, m_signers m = Some sgs /\ forall sg, In sg sgs -> sg = ica.
  Proof.
    unfold ica_auth_msg. rewrite andb_true_iff, contains_msg_type_spec.
    destruct (m_signers m) as [sgs|].
    - rewrite forallb_forall. split.
      + intros [Ha Hs]. split; [assumption|]. exists sgs. split; [reflexivity|].
        intros sg Hin. apply Hs in Hin. now apply bytes_eqb_eq in Hin.
      + intros [Ha (sgs' & [= <-] & Hs)]. split; [assumption|].
        intros sg Hin. apply bytes_eqb_eq. now apply Hs.
    - split; [intros [_ X]; discriminate|]. intros [_ (sgs & X & _)]. discriminate.
  Qed.

  (** zero-signer messages: the signer loop is empty, so an allowed type with no signer authenticates *)
  Lemma ica_auth_zero_signers allow ica (m : Msg) :
    m_signers m = Some [] -> ica_auth_msg A allow ica m = contains_msg_type allow (m_url m).
  Proof. intros E. unfold ica_auth_msg. rewrite E. simpl. apply andb_true_r. Qed.

  Definition authorized (h : HostState) (conn port : bytes) (msgs : list Msg) : Prop :=
    exists ica, assoc2 (h_accounts h) conn port = Some ica /\
      Forall (fun m => (h_allow h = [star] \/ In (m_url m) (h_allow h)) /\
                       exists sgs, m_signers m = Some sgs /\ forall sg, In sg sgs -> sg = ica) msgs.

  Lemma ica_authenticate_spec h conn port msgs :
    ica_authenticate A h conn port msgs = true <-> authorized h conn port msgs.
  Proof.
    unfold ica_authenticate, authorized. destruct (assoc2 (h_accounts h) conn port) as [ica|].
    - rewrite forallb_forall. split.
      + intros F. exists ica. split; [reflexivity|]. apply Forall_forall. intros m Hin.
        now apply ica_auth_msg_spec, F.
      + intros (ica' & [= <-] & F) m Hin. rewrite Forall_forall in F. now apply ica_auth_msg_spec, F.
    - split; [discriminate|]. intros (ica & X & _). discriminate.
  Qed.

  (** a successful receive: host enabled, EXECUTE_TX, the channel's first hop and the packet's source
      port name a registered account, every message type allowed, every signer of every message is that
      account, and the new state is exactly the fold of all message steps *)
  Lemma host_recv_ok h p h' :
    host_recv A h p = (h', ROk) ->
    h_enabled h = true /\
    exists msgs conn hops,
      hp_data p = Some (1, Some msgs) /\
      assoc2 (h_channels h) (hp_dst_port p) (hp_dst_chan p) = Some (conn :: hops, true) /\
      authorized h conn (hp_src_port p) msgs /\
      run_msgs msgs h = MOk h'.
  Proof.
    unfold host_recv. destruct (h_enabled h); simpl; [|discriminate]. unfold keeper_recv.
    destruct (hp_data p) as [[ty [msgs|]]|]; try discriminate;
    destruct (assoc2 (h_channels h) (hp_dst_port p) (hp_dst_chan p)) as [[hops vok]|]; try discriminate;
    destruct vok; simpl; try discriminate;
    destruct (N.eqb_spec ty 1) as [->|]; simpl; try discriminate.
    destruct hops as [|conn hops]; [discriminate|].
    destruct (ica_authenticate A h conn (hp_src_port p) msgs) eqn:Au; simpl; [|discriminate].
    destruct (run_msgs msgs h) as [h1| |] eqn:R; try discriminate.
    intros [= <-]. split; [reflexivity|]. exists msgs, conn, hops. repeat split; auto.
    now apply ica_authenticate_spec.
  Qed.

  (** anything else commits nothing *)
  Lemma host_recv_atomic h p : snd (host_recv A h p) <> ROk -> fst (host_recv A h p) = h.
  Proof.
    unfold host_recv. destruct (negb (h_enabled h)); [reflexivity|]. unfold keeper_recv.
    destruct (hp_data p) as [[ty [msgs|]]|]; try reflexivity;
    destruct (assoc2 (h_channels h) (hp_dst_port p) (hp_dst_chan p)) as [[hops vok]|]; try reflexivity;
    destruct (negb vok); try reflexivity; destruct (negb (ty =? 1)); try reflexivity.
    destruct hops as [|conn hops]; [reflexivity|].
    destruct (negb (ica_authenticate A h conn (hp_src_port p) msgs)); [reflexivity|].
    destruct (run_msgs msgs h); simpl; auto. intros X. now elim X.
  Qed.

  (** any state change comes from an authorized, fully executed message list *)
  Lemma host_recv_change h p :
    fst (host_recv A h p) <> h ->
    snd (host_recv A h p) = ROk /\
    exists msgs conn hops,
      hp_data p = Some (1, Some msgs) /\
      assoc2 (h_channels h) (hp_dst_port p) (hp_dst_chan p) = Some (conn :: hops, true) /\
      authorized h conn (hp_src_port p) msgs /\
      run_msgs msgs h = MOk (fst (host_recv A h p)).
  Proof.
    intros Hne. destruct (host_recv A h p) as [h' r] eqn:E. simpl in *.
    destruct r.
    - split; [reflexivity|]. now apply host_recv_ok in E.
    - exfalso. apply Hne. pose proof (host_recv_atomic h p) as X. rewrite E in X. apply X. discriminate.
    - exfalso. apply Hne. pose proof (host_recv_atomic h p) as X. rewrite E in X. apply X. discriminate.
  Qed.

  (** every failing position: if message k fails (or panics) after the first k-1 succeeded, or an
      earlier one already failed, nothing is committed *)
  Lemma host_recv_failing_position h p l1 m l2 ty :
    hp_data p = Some (ty, Some (l1 ++ m :: l2)) ->
    (run_msgs l1 h = MErr \/ run_msgs l1 h = MPanic \/
     exists h1, run_msgs l1 h = MOk h1 /\ forall h2, m_step m h1 <> MOk h2) ->
    fst (host_recv A h p) = h /\ snd (host_recv A h p) <> ROk.
  Proof.
    intros Hd Hf.
    assert (N : snd (host_recv A h p) <> ROk).
    { intros E. destruct (host_recv A h p) as [h' r] eqn:M. simpl in E. subst r.
      apply host_recv_ok in M. destruct M as (_ & msgs & conn & hops & Hd' & _ & _ & R).
      rewrite Hd in Hd'. injection Hd' as _ <-. rewrite run_msgs_app in R.
      destruct Hf as [E|[E|(h1 & E & Hn)]]; rewrite E in R; try discriminate.
      simpl in R. destruct (m_step m h1) as [h2| |] eqn:St; try discriminate. now elim (Hn h2). }
    split; [now apply host_recv_atomic|exact N].
  Qed.

  (** an empty message list is authorized and executes (as a no-op) when the account is registered *)
  Lemma host_recv_empty_list h p conn hops ica :
    h_enabled h = true -> hp_data p = Some (1, Some []) ->
    assoc2 (h_channels h) (hp_dst_port p) (hp_dst_chan p) = Some (conn :: hops, true) ->
    assoc2 (h_accounts h) conn (hp_src_port p) = Some ica ->
    host_recv A h p = (h, ROk).
  Proof.
    intros He Hd Hc Ha. unfold host_recv, keeper_recv, ica_authenticate. rewrite He, Hd, Hc, Ha. reflexivity.
  Qed.
End Host.
