(** ICS-27 interchain-accounts host (modules/apps/27-interchain-accounts/host).  Definitions only.

    Sources modelled, in the order the code checks things:
    - host/ibc_module.go     OnRecvPacket (HostEnabled param, ack from keeper result)
    - host/keeper/relay.go   OnRecvPacket, executeTx, authenticateTx, executeMsg
    - host/types/keys.go     ContainsMsgType ("*" wildcard only when it is the single entry)
    - core/keeper/msg_server.go RecvPacket: the application's cache context is written only for a
      nil/successful acknowledgement (an ICA error ack therefore commits nothing; the keeper itself only
      writes through writeCache()). *)
From IBC Require Import Lib.Bytes IcaGmp.Gmp.
Local Open Scope N_scope.

Definition star : bytes := B "*".

(** ContainsMsgType *)
Definition contains_msg_type (allow : list bytes) (url : bytes) : bool :=
  match allow with
  | [w] => if bytes_eqb w star then true else existsb (bytes_eqb url) allow
  | _ => existsb (bytes_eqb url) allow
  end.

Fixpoint assoc2 {V} (m : list ((bytes * bytes) * V)) (a b : bytes) : option V :=
  match m with
  | [] => None
  | ((x, y), v) :: m' => if bytes_eqb x a && bytes_eqb y b then Some v else assoc2 m' a b
  end.

Section Host.
  Variable A : Type.     (* the rest of the host chain's state: bank, staking, ... *)

  Record HostState := mkH {
    h_enabled : bool;                                   (* params.HostEnabled *)
    h_allow : list bytes;                               (* params.AllowMessages *)
    h_accounts : list ((bytes * bytes) * bytes);        (* (connection, controller port) -> account address *)
    h_channels : list ((bytes * bytes) * (list bytes * bool));
                                                        (* (port, channel) -> (connection hops, version parses as Metadata) *)
    h_app : A }.

  Record HostPacket := mkHP {
    hp_src_port : bytes; hp_dst_port : bytes; hp_dst_chan : bytes;
    (* None: packet data is not InterchainAccountPacketData JSON;
       Some (type, msgs): type 1 = EXECUTE_TX; msgs = None: DeserializeCosmosTx fails *)
    hp_data : option (N * option (list (Msg HostState))) }.

  (** authenticateTx, one message: type allowed, signers obtainable, every signer is the account *)
  Definition ica_auth_msg (allow : list bytes) (ica : bytes) (m : Msg HostState) : bool :=
    contains_msg_type allow (m_url m) &&
    match m_signers m with
    | None => false
    | Some sgs => forallb (fun sg => bytes_eqb sg ica) sgs
    end.

  Definition ica_authenticate (h : HostState) (conn port : bytes) (msgs : list (Msg HostState)) : bool :=
    match assoc2 (h_accounts h) conn port with
    | None => false
    | Some ica => forallb (ica_auth_msg (h_allow h) ica) msgs
    end.

  (** keeper.OnRecvPacket / executeTx *)
  Definition keeper_recv (h : HostState) (p : HostPacket) : HostState * Res :=
    match hp_data p with
    | None => (h, RErr)
    | Some (ty, omsgs) =>
        match assoc2 (h_channels h) (hp_dst_port p) (hp_dst_chan p) with    (* getAppMetadata *)
        | None => (h, RErr)
        | Some (hops, version_ok) =>
            if negb version_ok then (h, RErr)
            else if negb (ty =? 1) then (h, RErr)                               (* ErrUnknownDataType *)
            else match omsgs with
                 | None => (h, RErr)
                 | Some msgs =>
                     match hops with
                     | [] => (h, RPanic)                                        (* channel.ConnectionHops[0] *)
                     | conn :: _ =>
                         if negb (ica_authenticate h conn (hp_src_port p) msgs) then (h, RErr)
                         else match run_msgs msgs h with                        (* on the cache context *)
                              | MOk h' => (h', ROk)                             (* writeCache() *)
                              | MErr => (h, RErr)
                              | MPanic => (h, RPanic)
                              end
                     end
                 end
        end
    end.

  (** IBCModule.OnRecvPacket: the acknowledgement is a success iff the keeper returned no error *)
  Definition host_recv (h : HostState) (p : HostPacket) : HostState * Res :=
    if negb (h_enabled h) then (h, RErr) else keeper_recv h p.
End Host.

Arguments mkH {A}. Arguments h_enabled {A}. Arguments h_allow {A}. Arguments h_accounts {A}.
Arguments h_channels {A}. Arguments h_app {A}.
Arguments mkHP {A}. Arguments hp_src_port {A}. Arguments hp_dst_port {A}. Arguments hp_dst_chan {A}. Arguments hp_data {A}.
