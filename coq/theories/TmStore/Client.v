(** The 07-tendermint client driven through the 02-client keeper:
    02-client/keeper/client.go:UpdateClient/RecoverClient/UpgradeClient,
    07-tendermint/light_client_module.go, update.go, misbehaviour_handle.go, proposal_handle.go, upgrade.go,
    client_state.go:status/initialize.
    Header and misbehaviour *verification* (checkTrustedHeader, validator-set parsing, light.Verify,
    VerifyCommitLightTrusting) and upgrade proof verification are Section variables (arbitrary oracles). *)
From IBC Require Import Lib.Bytes Lib.Dec Lib.BE64 Core.Height TmStore.KV TmStore.Store.
Local Open Scope N_scope.

(** the executing chain's context: ctx.BlockTime() in Unix ns and GetSelfHeight(ctx) *)
Record Ctx := mkCtx { now : Z; self : Height }.

(** uint64(ctx.BlockTime().UnixNano()) *)
Definition ptime_of (c : Ctx) : N := Z.to_N (now c mod 18446744073709551616)%Z.

(** a Header: height (revision from the chain id), TrustedHeight, time, app hash, next validators hash;
    [hd_ext] stands for everything else (commit, validator sets, ...) that only verification reads *)
Record Hdr := mkHdr { hd_height : Height; hd_trusted : Height; hd_ts : Z; hd_root : bytes; hd_nvh : bytes; hd_ext : N }.

(** Header.ConsensusState() *)
Definition hdr_cons (h : Hdr) : ConsState := mkCons (hd_ts h) (hd_root h) (hd_nvh h).

(** a Misbehaviour: the two headers' heights, times, trusted heights; whether both block ids parse and whether
    their hashes differ; [mb_ext] = everything else *)
Record Misb := mkMisb { mb_h1 : Height; mb_h2 : Height; mb_t1 : Z; mb_t2 : Z; mb_trusted1 : Height; mb_trusted2 : Height;
                        mb_blockids_ok : bool; mb_hash_differs : bool; mb_ext : N }.

Inductive Msg := MHeader (h : Hdr) | MMisb (m : Misb).

(** the substitute client as RecoverClient reads it: its client state, the consensus state / processed height /
    processed time stored at its latest height, and IsMatchingClientState(subject, substitute) *)
Record Subst := mkSubst { sb_client : ClientSt; sb_cons : option ConsState; sb_pheight : option Height;
                          sb_ptime : option N; sb_matching : bool }.

(** an upgrade: the committed client's latest height, the upgraded consensus state's time and next validators
    hash, the trusting period after the unbonding-period scaling, and [up_ext] = proofs etc. *)
Record Upg := mkUpg { up_latest : Height; up_ts : Z; up_nvh : bytes; up_tp : Z; up_ext : N }.

Inductive Status := Active | Frozen | Expired | Unknown.

(** LightClientModule.Status / ClientState.status *)
Definition status_of (cl : ClientSt) (latest_cons : option ConsState) (t : Z) : Status :=
  if cl_frozen cl then Frozen
  else match latest_cons with
       | None => Expired
       | Some c => if expired (cl_tp cl) (c_ts c) t then Expired else Active
       end.

Definition status (s : TmStore) (c : Ctx) : Status :=
  match get_client s with
  | None => Unknown
  | Some cl => status_of cl (get_cons s (cl_latest cl)) (now c)
  end.

Definition status_eqb (a b : Status) : bool :=
  match a, b with Active, Active | Frozen, Frozen | Expired, Expired | Unknown, Unknown => true | _, _ => false end.

Inductive Outcome := Ok | Err | Panic.

(** ClientState.initialize (CreateClient): set client state, consensus state at LatestHeight, metadata *)
Definition initialize (s : TmStore) (c : Ctx) (cl : ClientSt) (cst : ConsState) : TmStore :=
  set_meta (set_cons (set_client s cl) (cl_latest cl) cst) (cl_latest cl) (self c) (ptime_of c).

Definition sentinel_root : bytes := B "sentinel_root".

Section Oracles.
(** everything verifyHeader checks apart from "trusted consensus state found", "same revision",
    "height > trusted height": checkTrustedHeader, proto conversions, light.Verify *)
Variable header_ok : ClientSt -> ConsState -> Hdr -> Ctx -> bool.
(** checkMisbehaviourHeader for both headers, given the two trusted consensus states *)
Variable misb_ok : ClientSt -> ConsState -> ConsState -> Misb -> Ctx -> bool.
(** VerifyUpgradeAndUpdateState's checks apart from the height comparison and the consensus-state lookup:
    upgrade path set, proof unmarshalling, both membership proofs against the given root, Validate *)
Variable upgrade_ok : ClientSt -> ConsState -> Upg -> bool.

(** verifyHeader *)
Definition verify_header (s : TmStore) (cl : ClientSt) (h : Hdr) (c : Ctx) : bool :=
  match get_cons s (hd_trusted h) with
  | None => false
  | Some tc =>
      (rev (hd_height h) =? rev (hd_trusted h)) &&
      negb (h_lte (hd_height h) (hd_trusted h)) &&
      header_ok cl tc h c
  end.

(** verifyMisbehaviour *)
Definition verify_misb (s : TmStore) (cl : ClientSt) (m : Misb) (c : Ctx) : bool :=
  match get_cons s (mb_trusted1 m), get_cons s (mb_trusted2 m) with
  | Some c1, Some c2 => misb_ok cl c1 c2 m c
  | _, _ => false
  end.

Definition verify_msg (s : TmStore) (cl : ClientSt) (m : Msg) (c : Ctx) : bool :=
  match m with MHeader h => verify_header s cl h c | MMisb mb => verify_misb s cl mb c end.

(** CheckForMisbehaviour *)
Definition check_misb_header (s : TmStore) (h : Hdr) : bool :=
  match get_cons s (hd_height h) with
  | Some existing => negb (cons_eqb existing (hdr_cons h))      (* reflect.DeepEqual *)
  | None =>
      let prev := get_prev s (hd_height h) in
      let next := get_next s (hd_height h) in
      (* prevOk && !prevCons.Timestamp.Before(ts)  ||  nextOk && !nextCons.Timestamp.After(ts) *)
      match prev with Some p => negb (c_ts p <? hd_ts h)%Z | None => false end ||
      match next with Some n => negb (hd_ts h <? c_ts n)%Z | None => false end
  end.

Definition check_misb_misb (m : Misb) : bool :=
  if h_eq (mb_h1 m) (mb_h2 m) then (if mb_blockids_ok m then mb_hash_differs m else false)
  else negb (mb_t2 m <? mb_t1 m)%Z.                              (* !Header1.Time.After(Header2.Time) *)

Definition check_for_misb (s : TmStore) (m : Msg) : bool :=
  match m with MHeader h => check_misb_header s h | MMisb mb => check_misb_misb mb end.

(** UpdateStateOnMisbehaviour *)
Definition freeze (s : TmStore) (cl : ClientSt) : TmStore :=
  set_client s (mkClient (cl_latest cl) true (cl_tp cl)).

(** UpdateState for a Header (DeliverTx: pruning on) *)
Definition update_state (s : TmStore) (cl : ClientSt) (h : Hdr) (c : Ctx) : Res TmStore :=
  match prune_oldest s (cl_tp cl) (now c) with
  | RPanic => RPanic
  | ROk s1 =>
      match get_cons s1 (hd_height h) with
      | Some _ => ROk s1                                          (* duplicate update: no-op *)
      | None =>
          let cl' := if h_gt (hd_height h) (cl_latest cl)
                     then mkClient (hd_height h) (cl_frozen cl) (cl_tp cl) else cl in
          ROk (set_meta (set_cons (set_client s1 cl') (hd_height h) (hdr_cons h)) (hd_height h) (self c) (ptime_of c))
      end
  end.

(** 02-client keeper UpdateClient *)
Definition update_client (s : TmStore) (c : Ctx) (m : Msg) : Outcome * TmStore :=
  match get_client s with
  | None => (Err, s)
  | Some cl =>
      if negb (status_eqb (status s c) Active) then (Err, s)
      else if negb (verify_msg s cl m c) then (Err, s)
      else if check_for_misb s m then (Ok, freeze s cl)
      else match m with
           | MMisb _ => (Ok, s)                                   (* UpdateState on a non-header: no-op *)
           | MHeader h =>
               match update_state s cl h c with
               | RPanic => (Panic, s)
               | ROk s' => (Ok, s')
               end
           end
  end.

(** 02-client keeper RecoverClient + CheckSubstituteAndUpdateState. The consensus state is written before the
    metadata lookups; on their failure the error is returned with that write in place (second component). *)
Definition recover_client (s : TmStore) (c : Ctx) (sb : Subst) : Outcome * TmStore :=
  match get_client s with
  | None => (Err, s)
  | Some cl =>
      if status_eqb (status s c) Active then (Err, s)
      else if negb (status_eqb (status_of (sb_client sb) (sb_cons sb) (now c)) Active) then (Err, s)
      else if h_gte (cl_latest cl) (cl_latest (sb_client sb)) then (Err, s)
      else if negb (sb_matching sb) then (Err, s)
      else
        let H := cl_latest (sb_client sb) in
        match sb_cons sb with
        | None => (Err, s)
        | Some cst =>
            let s1 := set_cons s H cst in
            match sb_pheight sb with
            | None => (Err, s1)
            | Some ph =>
                match sb_ptime sb with
                | None => (Err, s1)
                | Some pt =>
                    let s2 := set_meta s1 H ph pt in
                    (* unfrozen, LatestHeight and TrustingPeriod from the substitute *)
                    (Ok, set_client s2 (mkClient H false (cl_tp (sb_client sb))))
                end
            end
        end
  end.

(** 02-client keeper UpgradeClient + VerifyUpgradeAndUpdateState *)
Definition upgrade_client (s : TmStore) (c : Ctx) (u : Upg) : Outcome * TmStore :=
  match get_client s with
  | None => (Err, s)
  | Some cl =>
      if negb (status_eqb (status s c) Active) then (Err, s)
      else if negb (h_gt (up_latest u) (cl_latest cl)) then (Err, s)
      else match get_cons s (cl_latest cl) with
           | None => (Err, s)
           | Some lc =>
               if negb (upgrade_ok cl lc u) then (Err, s)
               else
                 let s1 := set_client s (mkClient (up_latest u) false (up_tp u)) in
                 let s2 := set_cons s1 (up_latest u) (mkCons (up_ts u) sentinel_root (up_nvh u)) in
                 (Ok, set_meta s2 (up_latest u) (self c) (ptime_of c))
           end
  end.

(** ** operations of a client history; every operation runs in its own context.
    A message that returns an error or panics leaves no trace (the SDK runs each message on a cache branch
    that is written back only on success). *)
Inductive Op :=
| OUpdate (m : Msg)
| ORecover (sb : Subst)
| OUpgrade (u : Upg)
| OPrune            (* pruneOldestConsensusState alone *)
| OPruneAll.        (* PruneAllExpiredConsensusStates (migration) *)

Definition atomic (s : TmStore) (r : Outcome * TmStore) : Outcome * TmStore :=
  match r with (Ok, s') => (Ok, s') | (o, _) => (o, s) end.

Definition with_client (s : TmStore) (f : ClientSt -> Res TmStore) : Outcome * TmStore :=
  match get_client s with
  | None => (Err, s)
  | Some cl => match f cl with RPanic => (Panic, s) | ROk s' => (Ok, s') end
  end.

Definition step (s : TmStore) (c : Ctx) (o : Op) : Outcome * TmStore :=
  atomic s
    match o with
    | OUpdate m => update_client s c m
    | ORecover sb => recover_client s c sb
    | OUpgrade u => upgrade_client s c u
    | OPrune => with_client s (fun cl => prune_oldest s (cl_tp cl) (now c))
    | OPruneAll => with_client s (fun cl => prune_all s (cl_tp cl) (now c))
    end.

Fixpoint run (s : TmStore) (ops : list (Ctx * Op)) : TmStore :=
  match ops with
  | [] => s
  | (c, o) :: ops' => run (snd (step s c o)) ops'
  end.

End Oracles.

(** ** raw store operations (store-level correspondence only; not operations of a client) *)
Inductive RawOp :=
| RSetClient (cl : ClientSt)
| RSetCons (h : Height) (c : ConsState)
| RDelCons (h : Height)
| RSetMeta (h ph : Height) (pt : N)
| RDelMeta (h : Height)
| RSetRaw (k v : bytes)
| RDelKey (k : bytes).

Definition raw_step (s : TmStore) (o : RawOp) : TmStore :=
  match o with
  | RSetClient cl => set_client s cl
  | RSetCons h c => set_cons s h c
  | RDelCons h => del_cons s h
  | RSetMeta h ph pt => set_meta s h ph pt
  | RDelMeta h => del_meta s h
  | RSetRaw k v => kv_set s k (VRaw v)
  | RDelKey k => kv_del s k
  end.
