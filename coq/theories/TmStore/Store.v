(** Byte-level model of the 07-tendermint client store: modules/light-clients/07-tendermint/store.go,
    update.go:pruneOldestConsensusState, 24-host/client_keys.go. *)
From IBC Require Import Lib.Bytes Lib.Dec Lib.BE64 Core.Height TmStore.KV.
Local Open Scope N_scope.

(** ** values *)

(** ConsensusState{Timestamp, Root, NextValidatorsHash}; the timestamp is Unix nanoseconds *)
Record ConsState := mkCons { c_ts : Z; c_root : bytes; c_nvh : bytes }.

(** the ClientState fields this area reads or writes: LatestHeight, FrozenHeight (zero / non-zero), TrustingPeriod (ns) *)
Record ClientSt := mkClient { cl_latest : Height; cl_frozen : bool; cl_tp : Z }.

(** a stored value: the protobuf encodings of client / consensus states are not modelled (kept structured);
    metadata values are the real bytes *)
Inductive Val := VClient (c : ClientSt) | VCons (c : ConsState) | VRaw (b : bytes).

Definition TmStore := @Store Val.

Definition cons_eqb (a b : ConsState) : bool :=
  (c_ts a =? c_ts b)%Z && bytes_eqb (c_root a) (c_root b) && bytes_eqb (c_nvh a) (c_nvh b).

(** ** keys *)

(** host.ClientStateKey *)
Definition client_key : bytes := B "clientState".
(** host.ConsensusStateKey: "consensusStates/" ++ height.String() *)
Definition cons_prefix : bytes := B "consensusStates/".
Definition cons_key (h : Height) : bytes := cons_prefix ++ h_string h.
(** ProcessedTimeKey / ProcessedHeightKey *)
Definition ptime_suffix : bytes := B "/processedTime".
Definition pheight_suffix : bytes := B "/processedHeight".
Definition ptime_key (h : Height) : bytes := cons_key h ++ ptime_suffix.
Definition pheight_key (h : Height) : bytes := cons_key h ++ pheight_suffix.
(** IterationKey: KeyIterateConsensusStatePrefix ++ bigEndianHeightBytes *)
Definition iter_prefix : bytes := B "iterateConsensusStates".
Definition iter_end : bytes := B "iterateConsensusStatet".     (* PrefixEndBytes / cpIncr of the prefix, see KeysFacts *)
Definition be_height (h : Height) : bytes := be64 (rev h) ++ be64 (ht h).
Definition iter_key (h : Height) : bytes := iter_prefix ++ be_height h.

(** GetHeightFromIterationKey: iterKey[len(prefix):], [0:8], [8:], binary.BigEndian.Uint64 on both.
    None = Go slice-bounds / Uint64 panic (fewer than 16 bytes after the prefix). *)
Definition height_of_iter_key (k : bytes) : option Height :=
  let be := skipn 22 k in
  if (length be <? 16)%nat then None
  else Some (mkH (be_val (firstn 8 be) 0) (be_val (firstn 8 (skipn 8 be)) 0)).

(** ** typed reads and writes *)

(** getClientState: len(bz) == 0 -> not found *)
Definition get_client (s : TmStore) : option ClientSt :=
  match kv_get s client_key with Some (VClient c) => Some c | _ => None end.
Definition set_client (s : TmStore) (c : ClientSt) : TmStore := kv_set s client_key (VClient c).

(** GetConsensusState / getTmConsensusState (by raw key) *)
Definition get_cons_at (s : TmStore) (k : bytes) : option ConsState :=
  match kv_get s k with Some (VCons c) => Some c | _ => None end.
Definition get_cons (s : TmStore) (h : Height) : option ConsState := get_cons_at s (cons_key h).
Definition set_cons (s : TmStore) (h : Height) (c : ConsState) : TmStore := kv_set s (cons_key h) (VCons c).
Definition del_cons (s : TmStore) (h : Height) : TmStore := kv_del s (cons_key h).

(** raw read with the "len(bz) == 0 -> not found" convention *)
Definition get_raw (s : TmStore) (k : bytes) : option bytes :=
  match kv_get s k with
  | Some (VRaw []) => None
  | Some (VRaw b) => Some b
  | _ => None
  end.

(** GetProcessedTime: sdk.BigEndianToUint64 (values are always written with 8 bytes) *)
Definition get_ptime (s : TmStore) (h : Height) : option N := option_map be64_decode (get_raw s (ptime_key h)).
(** GetProcessedHeight: ParseHeight error -> not found *)
Definition get_pheight (s : TmStore) (h : Height) : option Height :=
  match get_raw s (pheight_key h) with Some b => parse_height b | None => None end.
(** GetIterationKey *)
Definition get_iter (s : TmStore) (h : Height) : option bytes := get_raw s (iter_key h).

(** setConsensusMetadataWithValues: SetProcessedTime, SetProcessedHeight, SetIterationKey in this order *)
Definition set_meta (s : TmStore) (h ph : Height) (pt : N) : TmStore :=
  let s1 := kv_set s (ptime_key h) (VRaw (be64 pt)) in
  let s2 := kv_set s1 (pheight_key h) (VRaw (h_string ph)) in
  kv_set s2 (iter_key h) (VRaw (cons_key h)).

(** deleteConsensusMetadata: deleteProcessedTime, deleteProcessedHeight, deleteIterationKey *)
Definition del_meta (s : TmStore) (h : Height) : TmStore :=
  kv_del (kv_del (kv_del s (ptime_key h)) (pheight_key h)) (iter_key h).

(** ** ordered iteration *)

(** IterateConsensusStateAscending's iterator: KVStorePrefixIterator(clientStore, "iterateConsensusStates") *)
Definition iter_entries (s : TmStore) : TmStore := kv_range s iter_prefix (Some iter_end).

Definition raw_of (v : Val) : bytes := match v with VRaw b => b | _ => [] end.

(** GetNextConsensusState: prefix store iterator from bigEndianHeightBytes(height); when the first entry's VALUE is
    this height's consensus key, step once more; then read the consensus state under the entry's value. *)
Definition get_next (s : TmStore) (h : Height) : option ConsState :=
  match kv_range s (iter_prefix ++ be_height h) (Some iter_end) with
  | [] => None
  | (_, v) :: rest =>
      if bytes_eqb (raw_of v) (cons_key h) then
        match rest with
        | [] => None
        | (_, v') :: _ => get_cons_at s (raw_of v')
        end
      else get_cons_at s (raw_of v)
  end.

(** GetPreviousConsensusState: prefix store reverse iterator over [nil, bigEndianHeightBytes(height)) *)
Definition get_prev (s : TmStore) (h : Height) : option ConsState :=
  match kv_range_rev s iter_prefix (Some (iter_prefix ++ be_height h)) with
  | [] => None
  | (_, v) :: _ => get_cons_at s (raw_of v)
  end.

(** ** expiry and pruning *)

(** ClientState.IsExpired: !(latestTimestamp + TrustingPeriod).After(now) *)
Definition expired (tp ts now : Z) : bool := (ts + tp <=? now)%Z.

Inductive Res (A : Type) := RPanic | ROk (a : A).
Arguments RPanic {A}. Arguments ROk {A} a.

(** pruneOldestConsensusState: the callback runs on the first iteration key only (it returns true = stop);
    a missing consensus state for it panics; if that state is expired, delete it and its metadata. *)
Definition prune_oldest (s : TmStore) (tp now : Z) : Res TmStore :=
  match iter_entries s with
  | [] => ROk s
  | (k, _) :: _ =>
      match height_of_iter_key k with
      | None => RPanic
      | Some h =>
          match get_cons s h with
          | None => RPanic
          | Some c => if expired tp (c_ts c) now then ROk (del_meta (del_cons s h) h) else ROk s
          end
      end
  end.

(** PruneAllExpiredConsensusStates: collect the expired heights in ascending iteration (stop at the first
    iteration key without consensus state), then delete each with its metadata. *)
Fixpoint collect_expired (s : TmStore) (tp now : Z) (entries : TmStore) : Res (list Height) :=
  match entries with
  | [] => ROk []
  | (k, _) :: rest =>
      match height_of_iter_key k with
      | None => RPanic
      | Some h =>
          match get_cons s h with
          | None => ROk []
          | Some c =>
              match collect_expired s tp now rest with
              | RPanic => RPanic
              | ROk l => ROk (if expired tp (c_ts c) now then h :: l else l)
              end
          end
      end
  end.

Definition delete_heights (s : TmStore) (hs : list Height) : TmStore :=
  fold_left (fun s h => del_meta (del_cons s h) h) hs s.

Definition prune_all (s : TmStore) (tp now : Z) : Res TmStore :=
  match collect_expired s tp now (iter_entries s) with
  | RPanic => RPanic
  | ROk hs => ROk (delete_heights s hs)
  end.
