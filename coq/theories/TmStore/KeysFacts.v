(** Key spaces of the 07-tendermint client store: injectivity, disjointness, order of iteration keys. *)
From IBC Require Import Lib.Bytes Lib.BytesFacts Lib.Dec Lib.DecFacts Lib.BE64 Lib.BE64Facts
  Core.Height Core.HeightFacts TmStore.KV TmStore.KVFacts TmStore.Store.
Local Open Scope N_scope.

Definition h64 (h : Height) : Prop := rev h < two64 /\ ht h < two64.

(** ** Height.String *)

Lemma h_string_inj a b : h_string a = h_string b -> a = b.
Proof.
  unfold h_string. intros H. apply app_sep_inj in H as [H1 H2]; try apply dec_no_dash.
  apply dec_inj in H1. apply dec_inj in H2. destruct a, b; simpl in *; congruence.
Qed.

Lemma slash_not_digit : is_digit slash = false. Proof. reflexivity. Qed.

Lemma h_string_no_slash h : ~ In slash (h_string h).
Proof.
  unfold h_string. intros H. apply in_app_or in H as [H|[H|H]].
  - revert H. eapply forallb_not_in; [apply dec_digits|apply slash_not_digit].
  - discriminate.
  - revert H. eapply forallb_not_in; [apply dec_digits|apply slash_not_digit].
Qed.

(** ** the four per-height key kinds *)

Inductive Kind := KCons | KPtime | KPheight | KIter.

Definition hkey (K : Kind) (h : Height) : bytes :=
  match K with KCons => cons_key h | KPtime => ptime_key h | KPheight => pheight_key h | KIter => iter_key h end.

(** a slash-free head followed by nothing or by a "/..." suffix determines both *)
Lemma head_suffix_inj (a a' s s' : bytes) :
  ~ In slash a -> ~ In slash a' ->
  (s = [] \/ exists t, s = slash :: t) -> (s' = [] \/ exists t, s' = slash :: t) ->
  a ++ s = a' ++ s' -> a = a' /\ s = s'.
Proof.
  intros Ha Ha' [->|[t ->]] [->|[t' ->]] E.
  - rewrite !app_nil_r in E. auto.
  - exfalso. apply Ha. rewrite app_nil_r in E. rewrite E. apply in_or_app. right. now left.
  - exfalso. apply Ha'. rewrite app_nil_r in E. rewrite <- E. apply in_or_app. right. now left.
  - apply app_sep_inj in E as [-> ->]; auto.
Qed.

Definition ksuffix (K : Kind) : bytes :=
  match K with KCons => [] | KPtime => ptime_suffix | KPheight => pheight_suffix | KIter => [] end.

Lemma hkey_shape K h : K <> KIter -> hkey K h = cons_prefix ++ h_string h ++ ksuffix K.
Proof.
  destruct K; intros NE; try contradiction; unfold hkey, ptime_key, pheight_key, cons_key, ksuffix;
    rewrite <- ?app_assoc, ?app_nil_r; reflexivity.
Qed.

Lemma ksuffix_shape K : ksuffix K = [] \/ exists t, ksuffix K = slash :: t.
Proof. destruct K; simpl; auto; right; eexists; reflexivity. Qed.

Lemma be_height_length h : length (be_height h) = 16%nat.
Proof. unfold be_height. rewrite app_length, !be64_length. reflexivity. Qed.

Lemma be_height_inj a b : h64 a -> h64 b -> be_height a = be_height b -> a = b.
Proof.
  intros [Ha1 Ha2] [Hb1 Hb2] E. unfold be_height in E.
  apply app_len_inj in E as [E1 E2]; [|now rewrite !be64_length].
  apply be64_inj in E1; auto. apply be64_inj in E2; auto. destruct a, b; simpl in *; congruence.
Qed.

Lemma Kind_eq_dec_aux (K : Kind) : {K = KIter} + {K <> KIter}.
Proof. destruct K; [right|right|right|left]; congruence. Qed.

(** keys of different kinds or different heights are different byte strings *)
Lemma hkey_inj K K' h h' : h64 h -> h64 h' -> hkey K h = hkey K' h' -> K = K' /\ h = h'.
Proof.
  intros Hh Hh' E.
  destruct (Kind_eq_dec_aux K) as [EK|NK]; destruct (Kind_eq_dec_aux K') as [EK'|NK']; subst.
  - split; auto. unfold hkey, iter_key in E. apply app_inv_head in E. now apply be_height_inj.
  - exfalso. rewrite (hkey_shape K' h' NK') in E. discriminate.
  - exfalso. rewrite (hkey_shape K h NK) in E. discriminate.
  - rewrite (hkey_shape K h NK), (hkey_shape K' h' NK') in E. apply app_inv_head in E.
    apply head_suffix_inj in E as [E1 E2]; try apply h_string_no_slash; try apply ksuffix_shape.
    apply h_string_inj in E1. split; auto.
    destruct K, K'; try reflexivity; try contradiction; discriminate.
Qed.

Lemma hkey_not_client K h : hkey K h <> client_key.
Proof. destruct K; discriminate. Qed.

(** ** iteration keys: prefix range, order, decoding *)

Lemma iter_range_is_prefix k : in_range iter_prefix (Some iter_end) k = is_prefix iter_prefix k.
Proof. exact (in_range_prefix_last (B "iterateConsensusState") "s"%char k eq_refl). Qed.

Lemma prefix_end_iter : prefix_end iter_prefix = Some iter_end.
Proof. reflexivity. Qed.

Lemma iter_key_has_prefix h : is_prefix iter_prefix (iter_key h) = true.
Proof. apply is_prefix_app. Qed.

Lemma hkey_iter_prefix K h : is_prefix iter_prefix (hkey K h) = true -> K = KIter.
Proof. destruct K; try reflexivity; discriminate. Qed.

Lemma client_key_no_iter_prefix : is_prefix iter_prefix client_key = false.
Proof. reflexivity. Qed.

Definition h_cmp (a b : Height) : comparison :=
  match rev a ?= rev b with Eq => ht a ?= ht b | c => c end.

Lemma h_cmp_lt a b : h_cmp a b = Lt <-> lex_lt a b.
Proof.
  unfold h_cmp, lex_lt. destruct (N.compare_spec (rev a) (rev b)) as [E|L|G].
  - rewrite N.compare_lt_iff. lia.
  - split; auto.
  - split; [discriminate|lia].
Qed.

Lemma h_cmp_eq a b : h_cmp a b = Eq <-> a = b.
Proof.
  unfold h_cmp. destruct (N.compare_spec (rev a) (rev b)) as [E|L|G].
  - rewrite N.compare_eq_iff. destruct a, b; simpl in *; split; [intros ->; congruence|intros [= _ ->]; reflexivity].
  - split; [discriminate|intros ->; lia].
  - split; [discriminate|intros ->; lia].
Qed.

Lemma h_cmp_gt a b : h_cmp a b = Gt <-> lex_lt b a.
Proof.
  unfold h_cmp, lex_lt. destruct (N.compare_spec (rev a) (rev b)) as [E|L|G].
  - rewrite N.compare_gt_iff. lia.
  - split; [discriminate|lia].
  - split; auto.
Qed.

(** the byte order of iteration keys is the (revision, height) order — for all 64-bit values,
    whatever bytes (0x2f, 0x00, 0xff, ...) the encodings contain *)
Lemma be_height_cmp a b : h64 a -> h64 b -> bytes_cmp (be_height a) (be_height b) = h_cmp a b.
Proof.
  intros [Ha1 Ha2] [Hb1 Hb2]. unfold be_height, h_cmp.
  rewrite bytes_cmp_app_len by now rewrite !be64_length.
  rewrite !be64_cmp by assumption. reflexivity.
Qed.

Lemma iter_key_cmp a b : h64 a -> h64 b -> bytes_cmp (iter_key a) (iter_key b) = h_cmp a b.
Proof. intros Ha Hb. unfold iter_key. rewrite bytes_cmp_app_prefix. now apply be_height_cmp. Qed.

Lemma iter_key_lt a b : h64 a -> h64 b -> (key_lt (iter_key a) (iter_key b) <-> lex_lt a b).
Proof. intros Ha Hb. unfold key_lt. rewrite iter_key_cmp by assumption. apply h_cmp_lt. Qed.

Lemma firstn_app_exact {A} (l r : list A) n : length l = n -> firstn n (l ++ r) = l.
Proof. intros <-. rewrite firstn_app, Nat.sub_diag, firstn_all. simpl. apply app_nil_r. Qed.

Lemma skipn_app_exact {A} (l r : list A) n : length l = n -> skipn n (l ++ r) = r.
Proof. intros <-. rewrite skipn_app, Nat.sub_diag, skipn_all. reflexivity. Qed.

(** GetHeightFromIterationKey inverts IterationKey *)
Lemma height_of_iter_key_iter_key h : h64 h -> height_of_iter_key (iter_key h) = Some h.
Proof.
  intros [H1 H2]. unfold height_of_iter_key, iter_key.
  rewrite (skipn_app_exact iter_prefix) by reflexivity.
  rewrite be_height_length. simpl Nat.ltb. cbv iota.
  unfold be_height.
  rewrite (firstn_app_exact (be64 (rev h))) by apply be64_length.
  rewrite (skipn_app_exact (be64 (rev h))) by apply be64_length.
  rewrite firstn_all2 by (rewrite be64_length; lia).
  assert (forall n, n < two64 -> be_val (be64 n) 0 = n) as D.
  { intros n Hn. generalize (be64_decode_encode n Hn). unfold be64_decode.
    rewrite firstn_all2 by (rewrite be64_length; lia). auto. }
  rewrite !D by assumption. now destruct h.
Qed.

Lemma be64_decode_be64 n : n < two64 -> be64_decode (be64 n) = n.
Proof. apply be64_decode_encode. Qed.
