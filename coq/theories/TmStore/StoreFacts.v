(** The metadata invariant of the 07-tendermint client store and what it gives: iteration order,
    neighbour lookups, pruning. *)
From Coq Require Import Sorting.Sorted.
From IBC Require Import Lib.Bytes Lib.BytesFacts Lib.Dec Lib.DecFacts Lib.BE64 Lib.BE64Facts
  Core.Height Core.HeightFacts TmStore.KV TmStore.KVFacts TmStore.Store TmStore.KeysFacts.
Local Open Scope N_scope.

Lemma Height_eq_dec (a b : Height) : {a = b} + {a <> b}.
Proof. decide equality; apply N.eq_dec. Qed.

Arguments iter_key : simpl never.
Arguments cons_key : simpl never.

Lemma iter_key_inj a b : h64 a -> h64 b -> iter_key a = iter_key b -> a = b.
Proof. intros Ha Hb E. unfold iter_key in E. apply app_inv_head in E. now apply be_height_inj. Qed.

Lemma pair_fst_eq {A B} (a a' : A) (b b' : B) : (a, b) = (a', b') -> a = a'.
Proof. intros E. now apply (f_equal fst) in E. Qed.

(** ** the invariant *)

(** every binding is the client state or one of the four per-height entries, with a value of the right shape *)
Definition wf_entry (k : bytes) (v : Val) : Prop :=
  (k = client_key /\ exists cl, v = VClient cl) \/
  exists h, h64 h /\
    ((k = cons_key h /\ exists c, v = VCons c) \/
     (k = ptime_key h /\ exists pt, pt < two64 /\ v = VRaw (be64 pt)) \/
     (k = pheight_key h /\ exists ph, h64 ph /\ v = VRaw (h_string ph)) \/
     (k = iter_key h /\ v = VRaw (cons_key h))).

Definition absent (s : TmStore) (k : bytes) : Prop := kv_get s k = None.
Definition stored (s : TmStore) (h : Height) : Prop := kv_get s (cons_key h) <> None.

Record MetaInv (s : TmStore) : Prop := {
  mi_sorted : sorted s;
  mi_wf : forall k v, In (k, v) s -> wf_entry k v;
  (** consensus state, processed time, processed height and iteration entry exist together *)
  mi_meta : forall h K, h64 h -> (absent s (cons_key h) <-> absent s (hkey K h)) }.

Lemma MetaInv_empty : MetaInv [].
Proof. split; [constructor|intros ? ? []|intros; unfold absent; simpl; tauto]. Qed.

(** typed reads *)
Lemma wf_entry_hkey K h v : h64 h -> wf_entry (hkey K h) v ->
  match K with
  | KCons => exists c, v = VCons c
  | KPtime => exists pt, pt < two64 /\ v = VRaw (be64 pt)
  | KPheight => exists ph, h64 ph /\ v = VRaw (h_string ph)
  | KIter => v = VRaw (cons_key h)
  end.
Proof.
  intros Hh [[E _]|[h' [Hh' W]]]; [exfalso; eapply hkey_not_client; eauto|].
  destruct W as [[E W]|[[E W]|[[E W]|[E W]]]].
  - apply (hkey_inj K KCons h h' Hh Hh') in E as [-> ->]. exact W.
  - apply (hkey_inj K KPtime h h' Hh Hh') in E as [-> ->]. exact W.
  - apply (hkey_inj K KPheight h h' Hh Hh') in E as [-> ->]. exact W.
  - apply (hkey_inj K KIter h h' Hh Hh') in E as [-> ->]. exact W.
Qed.

Lemma inv_get_typed s K h v : MetaInv s -> h64 h -> kv_get s (hkey K h) = Some v ->
  match K with
  | KCons => exists c, v = VCons c
  | KPtime => exists pt, pt < two64 /\ v = VRaw (be64 pt)
  | KPheight => exists ph, h64 ph /\ v = VRaw (h_string ph)
  | KIter => v = VRaw (cons_key h)
  end.
Proof. intros I Hh G. apply kv_get_in in G. apply (mi_wf s I) in G. now apply wf_entry_hkey. Qed.

Lemma stored_get_cons s h : MetaInv s -> h64 h -> (stored s h <-> exists c, get_cons s h = Some c).
Proof.
  intros I Hh. unfold stored, get_cons, get_cons_at. split.
  - intros NE. destruct (kv_get s (cons_key h)) as [v|] eqn:G; [|contradiction].
    destruct (inv_get_typed s KCons h v I Hh G) as [c ->]. eauto.
  - intros [c H]. destruct (kv_get s (cons_key h)); [discriminate|discriminate].
Qed.

Lemma get_cons_stored s h c : get_cons s h = Some c -> stored s h.
Proof. unfold stored, get_cons, get_cons_at. destruct (kv_get s (cons_key h)); [discriminate|discriminate]. Qed.

Lemma stored_present s h K : MetaInv s -> h64 h -> stored s h -> exists v, kv_get s (hkey K h) = Some v.
Proof.
  intros I Hh St. destruct (kv_get s (hkey K h)) as [v|] eqn:G; [eauto|].
  exfalso. apply St. apply (mi_meta s I h K Hh). exact G.
Qed.

Lemma present_stored s h K : MetaInv s -> h64 h -> kv_get s (hkey K h) <> None -> stored s h.
Proof. intros I Hh P A. apply P. now apply (mi_meta s I h K Hh). Qed.

(** every stored consensus state has exactly its processed time, processed height and iteration entry *)
Lemma inv_metadata_complete s h : MetaInv s -> h64 h -> stored s h ->
  (exists pt, get_ptime s h = Some pt) /\ (exists ph, get_pheight s h = Some ph /\ h64 ph) /\
  get_iter s h = Some (cons_key h).
Proof.
  intros I Hh St. repeat split.
  - destruct (stored_present s h KPtime I Hh St) as [v G].
    destruct (inv_get_typed s KPtime h v I Hh G) as [pt [Hpt ->]].
    exists pt. unfold get_ptime, get_raw. simpl in G. rewrite G.
    destruct (be64 pt) eqn:E; [exfalso; apply (f_equal (@length _)) in E; rewrite be64_length in E; discriminate|].
    simpl. rewrite <- E. now rewrite be64_decode_be64.
  - destruct (stored_present s h KPheight I Hh St) as [v G].
    destruct (inv_get_typed s KPheight h v I Hh G) as [ph [Hph ->]].
    exists ph. split; [|exact Hph]. unfold get_pheight, get_raw. simpl in G. rewrite G.
    destruct (h_string ph) eqn:E.
    + exfalso. unfold h_string in E. destruct (dec (rev ph)) eqn:D; [now apply dec_nonempty in D|discriminate].
    + rewrite <- E. apply parse_height_string; apply Hph.
  - destruct (stored_present s h KIter I Hh St) as [v G].
    rewrite (inv_get_typed s KIter h v I Hh G) in G. unfold get_iter, get_raw. simpl in G. rewrite G.
    reflexivity.
Qed.

(** ... and metadata never exists without its consensus state *)
Lemma inv_no_orphan_metadata s h : MetaInv s -> h64 h -> ~ stored s h ->
  get_ptime s h = None /\ get_pheight s h = None /\ get_iter s h = None.
Proof.
  intros I Hh NS.
  assert (forall K, kv_get s (hkey K h) = None) as A.
  { intros K. destruct (kv_get s (hkey K h)) eqn:G; [|reflexivity].
    exfalso. apply NS. apply (present_stored s h K I Hh). congruence. }
  assert (A1 := A KPtime). assert (A2 := A KPheight). assert (A3 := A KIter). cbn [hkey] in A1, A2, A3.
  unfold get_ptime, get_pheight, get_iter, get_raw.
  rewrite A1, A2, A3. auto.
Qed.

(** ** composite writes *)

Definition add_height (s : TmStore) (h : Height) (c : ConsState) (ph : Height) (pt : N) : TmStore :=
  set_meta (set_cons s h c) h ph pt.
Definition remove_height (s : TmStore) (h : Height) : TmStore := del_meta (del_cons s h) h.

Definition hval (K : Kind) (h : Height) (c : ConsState) (ph : Height) (pt : N) : Val :=
  match K with KCons => VCons c | KPtime => VRaw (be64 pt) | KPheight => VRaw (h_string ph) | KIter => VRaw (cons_key h) end.

Lemma hkey_neq K K' h : K <> K' -> hkey K h <> hkey K' h.
Proof.
  intros NE E. destruct K, K'; try contradiction; try discriminate;
  unfold hkey, ptime_key, pheight_key in E.
  all: try (rewrite <- (app_nil_r (cons_key h)) in E at 1; apply app_inv_head in E; discriminate).
  all: try (rewrite <- (app_nil_r (cons_key h)) in E at 2; apply app_inv_head in E; discriminate).
  all: try (apply app_inv_head in E; discriminate).
Qed.

Ltac kneq :=
  first [ exact (hkey_neq KCons KPtime _ ltac:(discriminate)) | exact (hkey_neq KCons KPheight _ ltac:(discriminate))
        | exact (hkey_neq KCons KIter _ ltac:(discriminate)) | exact (hkey_neq KPtime KCons _ ltac:(discriminate))
        | exact (hkey_neq KPtime KPheight _ ltac:(discriminate)) | exact (hkey_neq KPtime KIter _ ltac:(discriminate))
        | exact (hkey_neq KPheight KCons _ ltac:(discriminate)) | exact (hkey_neq KPheight KPtime _ ltac:(discriminate))
        | exact (hkey_neq KPheight KIter _ ltac:(discriminate)) | exact (hkey_neq KIter KCons _ ltac:(discriminate))
        | exact (hkey_neq KIter KPtime _ ltac:(discriminate)) | exact (hkey_neq KIter KPheight _ ltac:(discriminate)) ].

Lemma get_add_height_same s h c ph pt K : kv_get (add_height s h c ph pt) (hkey K h) = Some (hval K h c ph pt).
Proof.
  unfold add_height, set_meta, set_cons.
  destruct K; cbn [hkey hval]; rewrite ?kv_get_set_other by kneq; apply kv_get_set_same.
Qed.

Lemma get_add_height_other s h c ph pt k : (forall K, k <> hkey K h) ->
  kv_get (add_height s h c ph pt) k = kv_get s k.
Proof.
  intros NE. unfold add_height, set_meta, set_cons.
  rewrite !kv_get_set_other; auto; [apply (NE KCons)|apply (NE KPtime)|apply (NE KPheight)|apply (NE KIter)].
Qed.

Lemma get_remove_height_same s h K : kv_get (remove_height s h) (hkey K h) = None.
Proof.
  unfold remove_height, del_meta, del_cons.
  destruct K; cbn [hkey]; rewrite ?kv_get_del_other by kneq; apply kv_get_del_same.
Qed.

Lemma get_remove_height_other s h k : (forall K, k <> hkey K h) -> kv_get (remove_height s h) k = kv_get s k.
Proof.
  intros NE. unfold remove_height, del_meta, del_cons.
  rewrite !kv_get_del_other; auto; [apply (NE KCons)|apply (NE KPtime)|apply (NE KPheight)|apply (NE KIter)].
Qed.

Lemma in_add_height s h c ph pt k v : In (k, v) (add_height s h c ph pt) ->
  (exists K, k = hkey K h /\ v = hval K h c ph pt) \/ In (k, v) s.
Proof.
  unfold add_height, set_meta, set_cons. intros H.
  apply kv_set_in in H as [[-> ->]|H]; [left; exists KIter; auto|].
  apply kv_set_in in H as [[-> ->]|H]; [left; exists KPheight; auto|].
  apply kv_set_in in H as [[-> ->]|H]; [left; exists KPtime; auto|].
  apply kv_set_in in H as [[-> ->]|H]; [left; exists KCons; auto|]. auto.
Qed.

Lemma in_remove_height s h k v : In (k, v) (remove_height s h) -> In (k, v) s.
Proof.
  unfold remove_height, del_meta, del_cons. intros H.
  repeat (apply kv_del_in in H as [H _]). exact H.
Qed.

Lemma sorted_add_height s h c ph pt : sorted s -> sorted (add_height s h c ph pt).
Proof. intros H. unfold add_height, set_meta, set_cons. repeat apply sorted_set. exact H. Qed.

Lemma sorted_remove_height s h : sorted s -> sorted (remove_height s h).
Proof. intros H. unfold remove_height, del_meta, del_cons. repeat apply sorted_del. exact H. Qed.

Lemma hkey_other_height K K' h h' : h64 h -> h64 h' -> h <> h' -> hkey K h' <> hkey K' h.
Proof. intros Hh Hh' NE E. apply hkey_inj in E as [_ E]; auto. Qed.

Lemma MetaInv_add_height s h c ph pt :
  MetaInv s -> h64 h -> h64 ph -> pt < two64 -> MetaInv (add_height s h c ph pt).
Proof.
  intros I Hh Hph Hpt. split.
  - apply sorted_add_height, (mi_sorted s I).
  - intros k v H. apply in_add_height in H as [[K [-> ->]]|H]; [|apply (mi_wf s I); exact H].
    right. exists h. split; [exact Hh|].
    destruct K; cbn [hkey hval]; [left|right; left|right; right; left|right; right; right]; eauto.
  - intros h' K Hh'. unfold absent.
    destruct (Height_eq_dec h' h) as [->|NE].
    + rewrite (get_add_height_same s h c ph pt KCons : kv_get _ (cons_key h) = _), get_add_height_same.
      split; discriminate.
    + rewrite (get_add_height_other s h c ph pt (cons_key h')), get_add_height_other.
      * apply (mi_meta s I h' K Hh').
      * intros K'. apply hkey_other_height; auto.
      * intros K'. apply (hkey_other_height KCons K' h h'); auto.
Qed.

Lemma MetaInv_remove_height s h : MetaInv s -> h64 h -> MetaInv (remove_height s h).
Proof.
  intros I Hh. split.
  - apply sorted_remove_height, (mi_sorted s I).
  - intros k v H. apply in_remove_height in H. now apply (mi_wf s I).
  - intros h' K Hh'. unfold absent.
    destruct (Height_eq_dec h' h) as [->|NE].
    + rewrite (get_remove_height_same s h KCons : kv_get _ (cons_key h) = _), get_remove_height_same. tauto.
    + rewrite (get_remove_height_other s h (cons_key h')), get_remove_height_other.
      * apply (mi_meta s I h' K Hh').
      * intros K'. apply hkey_other_height; auto.
      * intros K'. apply (hkey_other_height KCons K' h h'); auto.
Qed.

Lemma MetaInv_set_client s cl : MetaInv s -> MetaInv (set_client s cl).
Proof.
  intros I. unfold set_client. split.
  - apply sorted_set, (mi_sorted s I).
  - intros k v H. apply kv_set_in in H as [[-> ->]|H]; [left; eauto|now apply (mi_wf s I)].
  - intros h K Hh. unfold absent. rewrite !kv_get_set_other.
    + apply (mi_meta s I h K Hh).
    + apply hkey_not_client.
    + apply (hkey_not_client KCons).
Qed.

(** frames: what the composite writes leave untouched *)
Lemma get_cons_add_height_other s h c ph pt h' : h64 h -> h64 h' -> h' <> h ->
  get_cons (add_height s h c ph pt) h' = get_cons s h'.
Proof.
  intros Hh Hh' NE. unfold get_cons, get_cons_at. rewrite get_add_height_other; [reflexivity|].
  intros K. apply (hkey_other_height KCons K h h'); auto.
Qed.

Lemma get_cons_add_height_same s h c ph pt : get_cons (add_height s h c ph pt) h = Some c.
Proof. unfold get_cons, get_cons_at. now rewrite (get_add_height_same s h c ph pt KCons : kv_get _ (cons_key h) = _). Qed.

Lemma get_cons_remove_height_other s h h' : h64 h -> h64 h' -> h' <> h ->
  get_cons (remove_height s h) h' = get_cons s h'.
Proof.
  intros Hh Hh' NE. unfold get_cons, get_cons_at. rewrite get_remove_height_other; [reflexivity|].
  intros K. apply (hkey_other_height KCons K h h'); auto.
Qed.

Lemma get_cons_remove_height_same s h : get_cons (remove_height s h) h = None.
Proof. unfold get_cons, get_cons_at. now rewrite (get_remove_height_same s h KCons : kv_get _ (cons_key h) = _). Qed.

Lemma get_cons_set_client s cl h : get_cons (set_client s cl) h = get_cons s h.
Proof.
  unfold get_cons, get_cons_at, set_client. rewrite kv_get_set_other; [reflexivity|apply (hkey_not_client KCons)].
Qed.

Lemma get_client_set_client s cl : get_client (set_client s cl) = Some cl.
Proof. unfold get_client, set_client. now rewrite kv_get_set_same. Qed.

Lemma get_client_add_height s h c ph pt : get_client (add_height s h c ph pt) = get_client s.
Proof.
  unfold get_client. rewrite get_add_height_other; [reflexivity|].
  intros K E. symmetry in E. revert E. apply hkey_not_client.
Qed.

Lemma get_client_remove_height s h : get_client (remove_height s h) = get_client s.
Proof.
  unfold get_client. rewrite get_remove_height_other; [reflexivity|].
  intros K E. symmetry in E. revert E. apply hkey_not_client.
Qed.

Lemma hkey_set_client s cl K h : kv_get (set_client s cl) (hkey K h) = kv_get s (hkey K h).
Proof. unfold set_client. apply kv_get_set_other, hkey_not_client. Qed.

(** ** ordered iteration *)

Lemma in_range_split lo hi k :
  in_range lo hi k = negb (match bytes_cmp lo k with Gt => true | _ => false end) &&
                     match hi with None => true | Some h => match bytes_cmp k h with Lt => true | _ => false end end.
Proof. unfold in_range. destruct (bytes_cmp lo k); reflexivity. Qed.

Lemma iter_key_below_end h : bytes_cmp (iter_key h) iter_end = Lt.
Proof.
  generalize (iter_range_is_prefix (iter_key h)). rewrite iter_key_has_prefix, in_range_split.
  intros H. apply andb_true_iff in H as [_ H]. destruct (bytes_cmp (iter_key h) iter_end); congruence.
Qed.

(** the entries the ascending iterator visits are exactly the iteration entries of the stored heights *)
Lemma iter_entries_in s k v : MetaInv s ->
  (In (k, v) (iter_entries s) <-> exists h, h64 h /\ k = iter_key h /\ v = VRaw (cons_key h) /\ stored s h).
Proof.
  intros I. unfold iter_entries. rewrite kv_range_in, iter_range_is_prefix. split.
  - intros [Hin Hp]. destruct (mi_wf s I k v Hin) as [[-> _]|[h [Hh W]]]; [discriminate|].
    assert (k = iter_key h /\ v = VRaw (cons_key h)) as [-> ->].
    { destruct W as [[-> _]|[[-> _]|[[-> _]|W]]]; try discriminate. exact W. }
    exists h. split; [assumption|]. split; [reflexivity|]. split; [reflexivity|].
    apply (present_stored s h KIter I Hh). cbn [hkey].
    rewrite (sorted_in_get s _ _ (mi_sorted s I) Hin). discriminate.
  - intros [h [Hh [-> [-> St]]]]. split; [|apply iter_key_has_prefix].
    destruct (stored_present s h KIter I Hh St) as [v G].
    rewrite (inv_get_typed s KIter h v I Hh G) in G. now apply kv_get_in.
Qed.

Definition is_min (s : TmStore) (h : Height) : Prop :=
  h64 h /\ stored s h /\ forall h', h64 h' -> stored s h' -> h' = h \/ lex_lt h h'.

Lemma iter_entries_head s k v r : MetaInv s -> iter_entries s = (k, v) :: r ->
  exists h, k = iter_key h /\ v = VRaw (cons_key h) /\ is_min s h.
Proof.
  intros I E.
  assert (In (k, v) (iter_entries s)) as Hin by (rewrite E; now left).
  apply (iter_entries_in s k v I) in Hin as [h [Hh [-> [-> St]]]].
  exists h. split; [reflexivity|]. split; [reflexivity|]. split; [exact Hh|]. split; [exact St|].
  intros h' Hh' St'.
  assert (In (iter_key h', VRaw (cons_key h')) (iter_entries s)) as Hin'
    by (apply (iter_entries_in s _ _ I); exists h'; auto).
  rewrite E in Hin'. destruct Hin' as [E1|Hin'].
  - left. apply pair_fst_eq in E1. symmetry. now apply iter_key_inj.
  - right. apply (iter_key_lt h h' Hh Hh').
    assert (sorted (iter_entries s)) as Hs by apply sorted_range, (mi_sorted s I).
    rewrite E in Hs. eapply (sorted_head_least r); eauto.
Qed.

Lemma iter_entries_nil s : MetaInv s -> iter_entries s = [] -> forall h, h64 h -> ~ stored s h.
Proof.
  intros I E h Hh St.
  assert (In (iter_key h, VRaw (cons_key h)) (iter_entries s)) as Hin
    by (apply (iter_entries_in s _ _ I); exists h; auto).
  rewrite E in Hin. destruct Hin.
Qed.

(** ascending iteration visits the stored heights in (revision, height) order *)
Definition iter_heights (s : TmStore) : list (option Height) := map (fun e => height_of_iter_key (fst e)) (iter_entries s).

Lemma sorted_iter_heights (l : TmStore) :
  sorted l -> (forall k v, In (k, v) l -> exists h, h64 h /\ k = iter_key h) ->
  exists hs, map (fun e => height_of_iter_key (fst e)) l = map Some hs /\ StronglySorted lex_lt hs /\
             (forall h, In h hs <-> h64 h /\ In (iter_key h) (keys l)).
Proof.
  induction l as [|[k v] l IH]; intros Hs Hk.
  - exists []. split; [reflexivity|]. split; [constructor|]. intros h. split; [intros []|intros [_ []]].
  - destruct (Hk k v (or_introl eq_refl)) as [h [Hh ->]].
    destruct IH as [hs [E [S M]]]; [eapply sorted_tail; eauto|intros; eapply Hk; right; eauto|].
    exists (h :: hs). split; [|split; [|intros h'; split]].
    + cbn [map fst]. rewrite height_of_iter_key_iter_key by assumption. now rewrite E.
    + constructor; [exact S|]. apply Forall_forall. intros h' Hin. apply M in Hin as [Hh' Hin].
      apply (iter_key_lt h h' Hh Hh').
      apply in_map_iff in Hin as [[k' v'] [E' Hin]]. cbn [fst] in E'. subst k'.
      eapply (sorted_head_least l); eauto.
    + change (keys ((iter_key h, v) :: l)) with (iter_key h :: keys l).
      intros [<-|Hin]; [split; [exact Hh|now left]|].
      apply M in Hin as [Hh' Hin]. split; [exact Hh'|now right].
    + intros [Hh' Hin]. change (keys ((iter_key h, v) :: l)) with (iter_key h :: keys l) in Hin.
      destruct Hin as [E'|Hin].
      * left. now apply iter_key_inj.
      * right. apply M. auto.
Qed.

Lemma iter_heights_sorted s : MetaInv s ->
  exists hs, iter_heights s = map Some hs /\ StronglySorted lex_lt hs /\ forall h, In h hs <-> h64 h /\ stored s h.
Proof.
  intros I.
  destruct (sorted_iter_heights (iter_entries s)) as [hs [E [S M]]].
  - apply sorted_range, (mi_sorted s I).
  - intros k v Hin. apply (iter_entries_in s k v I) in Hin as [h [Hh [-> _]]]. eauto.
  - exists hs. split; [exact E|]. split; [exact S|]. intros h. split.
    + intros H. apply M in H as [Hh Hin]. split; [exact Hh|].
      apply in_map_iff in Hin as [[k v] [E' Hin]]. cbn [fst] in E'. subst k.
      apply (iter_entries_in s _ _ I) in Hin as [h' [Hh' [E' [_ St]]]].
      apply iter_key_inj in E'; auto. now subst.
    + intros [Hh St]. apply M. split; auto.
      apply in_map_iff. exists (iter_key h, VRaw (cons_key h)). split; auto.
      apply (iter_entries_in s _ _ I). exists h. auto.
Qed.

(** ** pruning *)

Inductive prune_spec (s : TmStore) (tp now : Z) : Res TmStore -> Prop :=
| PS_empty : (forall h, h64 h -> ~ stored s h) -> prune_spec s tp now (ROk s)
| PS_keep h c : is_min s h -> get_cons s h = Some c -> expired tp (c_ts c) now = false -> prune_spec s tp now (ROk s)
| PS_prune h c : is_min s h -> get_cons s h = Some c -> expired tp (c_ts c) now = true ->
                 prune_spec s tp now (ROk (remove_height s h)).

(** pruneOldestConsensusState never panics on a consistent store; it removes nothing, or exactly the
    oldest stored height, only when that consensus state is expired, together with all its metadata *)
Lemma prune_oldest_spec s tp now : MetaInv s -> prune_spec s tp now (prune_oldest s tp now).
Proof.
  intros I. unfold prune_oldest.
  destruct (iter_entries s) as [|[k v] r] eqn:E.
  - apply PS_empty. now apply iter_entries_nil.
  - destruct (iter_entries_head s k v r I E) as [h [-> [-> M]]].
    pose proof M as [Hh [St Min]].
    rewrite height_of_iter_key_iter_key by assumption.
    destruct (proj1 (stored_get_cons s h I Hh) St) as [c G]. rewrite G.
    destruct (expired tp (c_ts c) now) eqn:X.
    + eapply PS_prune; eauto.
    + eapply PS_keep; eauto.
Qed.

Lemma prune_oldest_inv s tp now s' : MetaInv s -> prune_oldest s tp now = ROk s' -> MetaInv s'.
Proof.
  intros I E. generalize (prune_oldest_spec s tp now I). rewrite E. intros P.
  inversion P; subst; auto. apply MetaInv_remove_height; auto. apply H0.
Qed.

Lemma prune_oldest_no_panic s tp now : MetaInv s -> prune_oldest s tp now <> RPanic.
Proof. intros I E. generalize (prune_oldest_spec s tp now I). rewrite E. intros P. inversion P. Qed.

(** ** neighbour lookups *)

Lemma raw_of_vraw b : raw_of (VRaw b) = b. Proof. reflexivity. Qed.

Lemma cons_key_inj a b : cons_key a = cons_key b -> a = b.
Proof. unfold cons_key. intros E. apply app_inv_head in E. now apply h_string_inj. Qed.

(** the entries of the range [IterationKey(h), end of the iteration prefix) *)
Lemma range_from_in s h k v : MetaInv s -> h64 h ->
  (In (k, v) (kv_range s (iter_prefix ++ be_height h) (Some iter_end)) <->
   exists h', h64 h' /\ k = iter_key h' /\ v = VRaw (cons_key h') /\ stored s h' /\ (h' = h \/ lex_lt h h')).
Proof.
  intros I Hh. change (iter_prefix ++ be_height h) with (iter_key h).
  rewrite kv_range_in, in_range_split. split.
  - intros [Hin Hr]. apply andb_true_iff in Hr as [Hlo Hhi].
    destruct (mi_wf s I k v Hin) as [[-> _]|[h' [Hh' W]]]; [discriminate|].
    assert (k = iter_key h' /\ v = VRaw (cons_key h')) as [-> ->].
    { destruct W as [[-> _]|[[-> _]|[[-> _]|W]]]; try discriminate. exact W. }
    exists h'. split; [assumption|]. split; [reflexivity|]. split; [reflexivity|]. split.
    + apply (present_stored s h' KIter I Hh'). cbn [hkey].
      rewrite (sorted_in_get s _ _ (mi_sorted s I) Hin). discriminate.
    + rewrite iter_key_cmp in Hlo by assumption.
      destruct (h_cmp h h') eqn:C; try discriminate.
      * left. symmetry. now apply h_cmp_eq.
      * right. now apply h_cmp_lt.
  - intros [h' [Hh' [-> [-> [St Ord]]]]]. split.
    + destruct (stored_present s h' KIter I Hh' St) as [v G].
      rewrite (inv_get_typed s KIter h' v I Hh' G) in G. now apply kv_get_in.
    + rewrite iter_key_below_end, iter_key_cmp by assumption.
      destruct Ord as [->|L].
      * assert (h_cmp h h = Eq) as -> by now apply h_cmp_eq. reflexivity.
      * apply h_cmp_lt in L. rewrite L. reflexivity.
Qed.

(** the entries of the range [iteration prefix, IterationKey(h)) *)
Lemma range_to_in s h k v : MetaInv s -> h64 h ->
  (In (k, v) (kv_range s iter_prefix (Some (iter_prefix ++ be_height h))) <->
   exists h', h64 h' /\ k = iter_key h' /\ v = VRaw (cons_key h') /\ stored s h' /\ lex_lt h' h).
Proof.
  intros I Hh. change (iter_prefix ++ be_height h) with (iter_key h).
  rewrite kv_range_in, in_range_split. split.
  - intros [Hin Hr]. apply andb_true_iff in Hr as [Hlo Hhi].
    destruct (mi_wf s I k v Hin) as [[-> _]|[h' [Hh' W]]]; [discriminate|].
    assert (k = iter_key h' /\ v = VRaw (cons_key h')) as [-> ->].
    { destruct W as [[-> _]|[[-> _]|[[-> _]|W]]]; try discriminate. exact W. }
    exists h'. split; [assumption|]. split; [reflexivity|]. split; [reflexivity|]. split.
    + apply (present_stored s h' KIter I Hh'). cbn [hkey].
      rewrite (sorted_in_get s _ _ (mi_sorted s I) Hin). discriminate.
    + rewrite iter_key_cmp in Hhi by assumption. apply h_cmp_lt.
      destruct (h_cmp h' h); congruence.
  - intros [h' [Hh' [-> [-> [St L]]]]]. split.
    + destruct (stored_present s h' KIter I Hh' St) as [v G].
      rewrite (inv_get_typed s KIter h' v I Hh' G) in G. now apply kv_get_in.
    + rewrite iter_key_cmp by assumption. apply h_cmp_lt in L. rewrite L.
      assert (bytes_cmp iter_prefix (iter_key h') <> Gt) as NG.
      { generalize (iter_range_is_prefix (iter_key h')). rewrite iter_key_has_prefix, in_range_split.
        intros H. apply andb_true_iff in H as [H _]. destruct (bytes_cmp iter_prefix (iter_key h')); try discriminate; congruence. }
      destruct (bytes_cmp iter_prefix (iter_key h')); try reflexivity. contradiction.
Qed.

Definition is_next (s : TmStore) (h h' : Height) : Prop :=
  h64 h' /\ stored s h' /\ lex_lt h h' /\ forall x, h64 x -> stored s x -> lex_lt h x -> x = h' \/ lex_lt h' x.
Definition is_prev (s : TmStore) (h h' : Height) : Prop :=
  h64 h' /\ stored s h' /\ lex_lt h' h /\ forall x, h64 x -> stored s x -> lex_lt x h -> x = h' \/ lex_lt x h'.

Ltac wit x Hx St := exists x; split; [exact Hx|]; split; [reflexivity|]; split; [reflexivity|]; split; [exact St|].

Lemma get_cons_at_cons_key s h : get_cons_at s (cons_key h) = get_cons s h.
Proof. reflexivity. Qed.

(** GetNextConsensusState returns the consensus state of the least stored height above h (whether or not h
    itself is stored: the "iterator lands on itself" case), and nothing iff there is none *)
Lemma get_next_spec s h : MetaInv s -> h64 h ->
  match get_next s h with
  | Some c => exists h', is_next s h h' /\ get_cons s h' = Some c
  | None => forall x, h64 x -> stored s x -> ~ lex_lt h x
  end.
Proof.
  intros I Hh. unfold get_next.
  assert (sorted (kv_range s (iter_prefix ++ be_height h) (Some iter_end))) as Hs by apply sorted_range, (mi_sorted s I).
  assert (R := fun k v => range_from_in s h k v I Hh).
  destruct (kv_range s (iter_prefix ++ be_height h) (Some iter_end)) as [|[k v] rest].
  - intros x Hx St L. apply (R (iter_key x) (VRaw (cons_key x))). wit x Hx St. right. exact L.
  - destruct (proj1 (R k v) (or_introl eq_refl)) as [h1 [Hh1 [-> [-> [St1 Ord1]]]]].
    rewrite raw_of_vraw.
    assert (forall x, h64 x -> stored s x -> x = h \/ lex_lt h x -> x = h1 \/ In (iter_key x, VRaw (cons_key x)) rest) as Cov.
    { intros x Hx St O. assert (In (iter_key x, VRaw (cons_key x)) ((iter_key h1, VRaw (cons_key h1)) :: rest)) as Hin
        by (apply R; wit x Hx St; exact O).
      destruct Hin as [E|Hin]; [left|right; exact Hin].
      apply pair_fst_eq in E. symmetry. now apply iter_key_inj. }
    assert (forall x v', In (iter_key x, v') rest -> h64 x -> lex_lt h1 x) as Above.
    { intros x v' Hin Hx. apply (iter_key_lt h1 x Hh1 Hx). eapply (sorted_head_least rest); eauto. }
    destruct (bytes_eqb (cons_key h1) (cons_key h)) eqn:EQ.
    + apply bytes_eqb_eq, cons_key_inj in EQ. subst h1.
      destruct rest as [|[k2 v2] rest2].
      * intros x Hx St L. destruct (Cov x Hx St (or_intror L)) as [->|[]]. now apply lex_lt_irrefl in L.
      * destruct (proj1 (R k2 v2) (or_intror (or_introl eq_refl))) as [h2 [Hh2 [-> [-> [St2 Ord2]]]]].
        rewrite raw_of_vraw, get_cons_at_cons_key.
        destruct (proj1 (stored_get_cons s h2 I Hh2) St2) as [c G]. rewrite G.
        exists h2. split; [|exact G].
        assert (lex_lt h h2) as L2 by (apply (Above h2 (VRaw (cons_key h2))); [now left|assumption]).
        split; [exact Hh2|]. split; [exact St2|]. split; [exact L2|].
        intros x Hx St L. destruct (Cov x Hx St (or_intror L)) as [->|Hin]; [now apply lex_lt_irrefl in L|].
        destruct Hin as [E|Hin].
        -- left. apply pair_fst_eq in E. symmetry. now apply iter_key_inj.
        -- right. apply (iter_key_lt h2 x Hh2 Hx).
           apply sorted_tail in Hs. eapply (sorted_head_least rest2); eauto.
    + assert (h1 <> h) as NE by (intros ->; rewrite bytes_eqb_refl in EQ; discriminate).
      destruct Ord1 as [E|L1]; [contradiction|].
      rewrite get_cons_at_cons_key.
      destruct (proj1 (stored_get_cons s h1 I Hh1) St1) as [c G]. rewrite G.
      exists h1. split; [|exact G]. split; [exact Hh1|]. split; [exact St1|]. split; [exact L1|].
      intros x Hx St L. destruct (Cov x Hx St (or_intror L)) as [->|Hin]; [now left|].
      right. eapply Above; eauto.
Qed.

(** GetPreviousConsensusState returns the consensus state of the greatest stored height below h *)
Lemma get_prev_spec s h : MetaInv s -> h64 h ->
  match get_prev s h with
  | Some c => exists h', is_prev s h h' /\ get_cons s h' = Some c
  | None => forall x, h64 x -> stored s x -> ~ lex_lt x h
  end.
Proof.
  intros I Hh. unfold get_prev, kv_range_rev.
  assert (sorted (kv_range s iter_prefix (Some (iter_prefix ++ be_height h)))) as Hs by apply sorted_range, (mi_sorted s I).
  assert (R := fun k v => range_to_in s h k v I Hh).
  remember (kv_range s iter_prefix (Some (iter_prefix ++ be_height h))) as L eqn:EL. clear EL.
  destruct (List.rev L) as [|[k v] rest] eqn:ER.
  - assert (L = []) as -> by (apply (f_equal (@List.rev _)) in ER; rewrite rev_involutive in ER; exact ER).
    intros x Hx St L. apply (R (iter_key x) (VRaw (cons_key x))). wit x Hx St. exact L.
  - assert (L = List.rev rest ++ [(k, v)]) as -> by (apply (f_equal (@List.rev _)) in ER; rewrite rev_involutive in ER; exact ER).
    destruct (proj1 (R k v) (in_or_app _ _ _ (or_intror (in_eq _ _)))) as [h1 [Hh1 [-> [-> [St1 L1]]]]].
    rewrite raw_of_vraw, get_cons_at_cons_key.
    destruct (proj1 (stored_get_cons s h1 I Hh1) St1) as [c G]. rewrite G.
    exists h1. split; [|exact G]. split; [exact Hh1|]. split; [exact St1|]. split; [exact L1|].
    intros x Hx St L.
    assert (In (iter_key x, VRaw (cons_key x)) (List.rev rest ++ [(iter_key h1, VRaw (cons_key h1))])) as Hin
      by (apply R; wit x Hx St; exact L).
    apply in_app_or in Hin as [Hin|[E|[]]].
    + right. apply (iter_key_lt x h1 Hx Hh1). eapply (sorted_last_greatest (List.rev rest)); eauto.
    + left. apply pair_fst_eq in E. symmetry. now apply iter_key_inj.
Qed.
