(** Invariants of the 07-tendermint client over all operation lists, and the per-step facts behind C20, C22, C23. *)
From Coq Require Import Sorting.Sorted.
From IBC Require Import Lib.Bytes Lib.BytesFacts Lib.Dec Lib.DecFacts Lib.BE64 Lib.BE64Facts
  Core.Height Core.HeightFacts TmStore.KV TmStore.KVFacts TmStore.Store TmStore.KeysFacts TmStore.StoreFacts
  TmStore.Client.
Local Open Scope N_scope.

Arguments iter_key : simpl never.
Arguments cons_key : simpl never.

(** ** small facts *)

Lemma cons_eqb_eq a b : cons_eqb a b = true <-> a = b.
Proof.
  unfold cons_eqb. rewrite !andb_true_iff, Z.eqb_eq, !bytes_eqb_eq.
  destruct a, b; simpl. split; [intros [[-> ->] ->]; reflexivity|intros [= -> -> ->]; auto].
Qed.

Lemma ptime_of_lt c : ptime_of c < two64.
Proof.
  unfold ptime_of. assert (0 <= now c mod 18446744073709551616 < 18446744073709551616)%Z by (apply Z.mod_pos_bound; lia).
  unfold two64. lia.
Qed.

Lemma h_gt_false_lte a b : h_gt a b = false -> h_lte a b = true.
Proof. unfold h_gt, h_lte. destruct (h_compare_range a b) as [->|[->| ->]]; vm_compute; intros; congruence. Qed.

Lemma h_gte_false_lt a b : h_gte a b = false -> lex_lt a b.
Proof.
  unfold h_gte. destruct (h_compare_spec a b) as [[-> H]|[[-> H]|[-> H]]]; simpl; try discriminate. auto.
Qed.

Lemma h_lte_false_lt a b : h_lte a b = false -> lex_lt b a.
Proof.
  unfold h_lte. destruct (h_compare_spec a b) as [[-> H]|[[-> H]|[-> H]]]; simpl; try discriminate. auto.
Qed.

Lemma lex_lt_neq a b : lex_lt a b -> a <> b.
Proof. intros L ->. now apply lex_lt_irrefl in L. Qed.

Lemma lte_lt_trans a b c : h_lte a b = true -> lex_lt b c -> lex_lt a c.
Proof. rewrite h_lte_iff. intros [L| ->] L'; auto. eapply lex_lt_trans; eauto. Qed.

Lemma stored_h64 s h : MetaInv s -> stored s h -> h64 h.
Proof.
  intros I St. unfold stored in St. destruct (kv_get s (cons_key h)) as [v|] eqn:G; [|contradiction].
  apply kv_get_in in G. destruct (mi_wf s I _ _ G) as [[E _]|[h' [Hh' W]]]; [discriminate|].
  assert (cons_key h = cons_key h') as E.
  { destruct W as [[E _]|[[E _]|[[E _]|[E _]]]]; auto; exfalso.
    - unfold ptime_key in E. rewrite <- (app_nil_r (cons_key h)) in E.
      unfold cons_key in E. rewrite <- !app_assoc in E. apply app_inv_head in E.
      apply head_suffix_inj in E as [_ E]; try apply h_string_no_slash; auto; [discriminate|right; eexists; reflexivity].
    - unfold pheight_key in E. rewrite <- (app_nil_r (cons_key h)) in E.
      unfold cons_key in E. rewrite <- !app_assoc in E. apply app_inv_head in E.
      apply head_suffix_inj in E as [_ E]; try apply h_string_no_slash; auto; [discriminate|right; eexists; reflexivity].
    - discriminate. }
  apply cons_key_inj in E. now subst.
Qed.

(** ** well-formed operations: heights are 64-bit values (Go uint64) *)

Definition ctx_wf (c : Ctx) : Prop := h64 (self c).
Definition op_wf (o : Op) : Prop :=
  match o with
  | OUpdate (MHeader h) => h64 (hd_height h)
  | OUpdate (MMisb _) => True
  | ORecover sb => h64 (cl_latest (sb_client sb)) /\ (forall ph, sb_pheight sb = Some ph -> h64 ph) /\
                   (forall pt, sb_ptime sb = Some pt -> pt < two64)
  | OUpgrade u => h64 (up_latest u)
  | OPrune | OPruneAll => True
  end.

(** ** the client invariant: metadata invariant + every stored height is at most the latest height *)

Definition LatestInv (s : TmStore) : Prop :=
  forall cl, get_client s = Some cl -> forall h, stored s h -> h_lte h (cl_latest cl) = true.

Definition Inv (s : TmStore) : Prop := MetaInv s /\ LatestInv s.

Lemma stored_add_height s h c ph pt x : h64 h -> h64 x ->
  stored (add_height s h c ph pt) x -> x = h \/ stored s x.
Proof.
  intros Hh Hx St. destruct (Height_eq_dec x h) as [->|NE]; [now left|right].
  unfold stored in *. rewrite get_add_height_other in St; [exact St|].
  intros K. apply (hkey_other_height KCons K h x); auto.
Qed.

Lemma stored_remove_height s h x : h64 h -> h64 x -> stored (remove_height s h) x -> stored s x /\ x <> h.
Proof.
  intros Hh Hx St. destruct (Height_eq_dec x h) as [->|NE].
  - exfalso. apply St. apply (get_remove_height_same s h KCons).
  - split; auto. unfold stored in *. rewrite get_remove_height_other in St; [exact St|].
    intros K. apply (hkey_other_height KCons K h x); auto.
Qed.

Lemma stored_set_client s cl x : stored (set_client s cl) x <-> stored s x.
Proof. unfold stored. generalize (hkey_set_client s cl KCons x). cbn [hkey]. now intros ->. Qed.

Lemma Inv_remove_height s h : Inv s -> h64 h -> Inv (remove_height s h).
Proof.
  intros [I L] Hh. split; [now apply MetaInv_remove_height|].
  intros cl G x St. rewrite get_client_remove_height in G.
  assert (h64 x) as Hx by (eapply stored_h64; [apply MetaInv_remove_height; eauto|exact St]).
  apply stored_remove_height in St as [St _]; [|assumption|assumption]. eapply L; eauto.
Qed.

Lemma Inv_freeze s cl : Inv s -> get_client s = Some cl -> Inv (freeze s cl).
Proof.
  intros [I L] G. unfold freeze. split; [now apply MetaInv_set_client|].
  intros cl' G' x St. rewrite get_client_set_client in G'. injection G' as <-. simpl.
  apply stored_set_client in St. eapply L; eauto.
Qed.

(** writing a new latest height above every stored one *)
Lemma Inv_add_latest s H c ph pt cl' :
  Inv s -> h64 H -> h64 ph -> pt < two64 -> cl_latest cl' = H ->
  (forall x, stored s x -> h_lte x H = true) ->
  Inv (set_client (add_height s H c ph pt) cl') /\ Inv (add_height (set_client s cl') H c ph pt).
Proof.
  intros [I L] HH Hph Hpt EL Bound. split; split.
  - apply MetaInv_set_client, MetaInv_add_height; auto.
  - intros cl G x St. rewrite get_client_set_client in G. injection G as <-. rewrite EL.
    apply stored_set_client in St.
    assert (h64 x) as Hx by (eapply stored_h64; [apply (MetaInv_add_height s H c ph pt); assumption|exact St]).
    apply stored_add_height in St as [->|St]; auto. apply h_lte_iff. now right.
  - apply MetaInv_add_height; auto. now apply MetaInv_set_client.
  - intros cl G x St. rewrite get_client_add_height, get_client_set_client in G. injection G as <-. rewrite EL.
    assert (h64 x) as Hx by (eapply stored_h64; [apply (MetaInv_add_height (set_client s cl') H c ph pt); [apply MetaInv_set_client| | |]; assumption|exact St]).
    apply stored_add_height in St as [->|St]; auto; [apply h_lte_iff; now right|].
    apply stored_set_client in St. auto.
Qed.

(** ** PruneAllExpiredConsensusStates *)

Lemma collect_expired_spec s tp t entries hs :
  (forall k v, In (k, v) entries -> exists h, h64 h /\ k = iter_key h) ->
  collect_expired s tp t entries = ROk hs ->
  forall h, In h hs -> h64 h /\ exists c, get_cons s h = Some c /\ expired tp (c_ts c) t = true.
Proof.
  revert hs. induction entries as [|[k v] rest IH]; intros hs Hk E h Hin; simpl in E.
  - injection E as <-. destruct Hin.
  - destruct (Hk k v (or_introl eq_refl)) as [h0 [Hh0 ->]].
    rewrite height_of_iter_key_iter_key in E by assumption.
    destruct (get_cons s h0) as [c|] eqn:G; [|injection E as <-; destruct Hin].
    destruct (collect_expired s tp t rest) as [|l] eqn:C; [discriminate|].
    assert (forall h, In h l -> h64 h /\ exists c, get_cons s h = Some c /\ expired tp (c_ts c) t = true) as IH'
      by (apply IH; [intros; eapply Hk; right; eauto|reflexivity]).
    destruct (expired tp (c_ts c) t) eqn:X; injection E as <-.
    + destruct Hin as [<-|Hin]; [split; eauto|auto].
    + auto.
Qed.

Lemma collect_expired_no_panic s tp t entries :
  (forall k v, In (k, v) entries -> exists h, h64 h /\ k = iter_key h) ->
  collect_expired s tp t entries <> RPanic.
Proof.
  induction entries as [|[k v] rest IH]; intros Hk; simpl; [discriminate|].
  destruct (Hk k v (or_introl eq_refl)) as [h0 [Hh0 ->]].
  rewrite height_of_iter_key_iter_key by assumption.
  destruct (get_cons s h0); [|discriminate].
  destruct (collect_expired s tp t rest) eqn:C; [|discriminate].
  exfalso. apply IH; [intros; eapply Hk; right; eauto|reflexivity].
Qed.

Lemma delete_heights_spec s hs : Inv s -> (forall h, In h hs -> h64 h) ->
  Inv (delete_heights s hs) /\ get_client (delete_heights s hs) = get_client s /\
  forall x, h64 x -> get_cons (delete_heights s hs) x = if in_dec Height_eq_dec x hs then None else get_cons s x.
Proof.
  revert s. induction hs as [|h hs IH]; intros s I Hh; simpl.
  - auto.
  - destruct (IH (remove_height s h)) as [I' [C' G']].
    + apply Inv_remove_height; [exact I|apply Hh; now left].
    + intros; apply Hh; now right.
    + fold (remove_height s h). split; [exact I'|]. split; [now rewrite C', get_client_remove_height|].
      intros x Hx. rewrite (G' x Hx).
      destruct (Height_eq_dec h x) as [->|NE].
      * destruct (in_dec Height_eq_dec x hs); [reflexivity|apply get_cons_remove_height_same].
      * destruct (in_dec Height_eq_dec x hs); [reflexivity|].
        apply get_cons_remove_height_other; auto. apply Hh; now left.
Qed.

Lemma iter_entries_keys s : MetaInv s -> forall k v, In (k, v) (iter_entries s) -> exists h, h64 h /\ k = iter_key h.
Proof. intros I k v Hin. apply (iter_entries_in s k v I) in Hin as [h [Hh [-> _]]]. eauto. Qed.

Lemma prune_all_spec s tp t : Inv s ->
  exists hs, prune_all s tp t = ROk (delete_heights s hs) /\
    (forall h, In h hs -> h64 h /\ exists c, get_cons s h = Some c /\ expired tp (c_ts c) t = true).
Proof.
  intros [I L]. unfold prune_all.
  destruct (collect_expired s tp t (iter_entries s)) as [|hs] eqn:C.
  - exfalso. revert C. apply collect_expired_no_panic, iter_entries_keys, I.
  - exists hs. split; [reflexivity|]. eapply collect_expired_spec; eauto. apply iter_entries_keys, I.
Qed.

Section Oracles.
Variable header_ok : ClientSt -> ConsState -> Hdr -> Ctx -> bool.
Variable misb_ok : ClientSt -> ConsState -> ConsState -> Misb -> Ctx -> bool.
Variable upgrade_ok : ClientSt -> ConsState -> Upg -> bool.

Notation step := (step header_ok misb_ok upgrade_ok).
Notation run := (run header_ok misb_ok upgrade_ok).
Notation update_client := (update_client header_ok misb_ok).
Notation verify_header := (verify_header header_ok).

(** ** what one operation can do to the store: a closed list of shapes *)

(** the flag says whether governance shapes (recovery / upgrade: a new latest height) are allowed *)
Inductive Effect (s : TmStore) (c : Ctx) : bool -> TmStore -> Prop :=
| EfSame b : Effect s c b s
| EfFreeze b cl : get_client s = Some cl -> Effect s c b (freeze s cl)
| EfPrune b cl h cs : get_client s = Some cl -> is_min s h -> get_cons s h = Some cs ->
    expired (cl_tp cl) (c_ts cs) (now c) = true -> Effect s c b (remove_height s h)
| EfPruneAll b cl hs : get_client s = Some cl ->
    (forall h, In h hs -> h64 h /\ exists cs, get_cons s h = Some cs /\ expired (cl_tp cl) (c_ts cs) (now c) = true) ->
    Effect s c b (delete_heights s hs)
(** an accepted header at a height that has no consensus state after pruning *)
| EfUpdate b cl s1 hd cl' : get_client s = Some cl ->
    (s1 = s \/ exists h cs, is_min s h /\ get_cons s h = Some cs /\ expired (cl_tp cl) (c_ts cs) (now c) = true /\ s1 = remove_height s h) ->
    h64 (hd_height hd) -> get_cons s1 (hd_height hd) = None ->
    check_misb_header s hd = false ->
    cl' = (if h_gt (hd_height hd) (cl_latest cl) then mkClient (hd_height hd) (cl_frozen cl) (cl_tp cl) else cl) ->
    Effect s c b (add_height (set_client s1 cl') (hd_height hd) (hdr_cons hd) (self c) (ptime_of c))
(** recovery / upgrade: a new latest height strictly above the old latest height *)
| EfNewLatest cl H cs ph pt cl' : get_client s = Some cl -> h64 H -> h64 ph -> pt < two64 ->
    lex_lt (cl_latest cl) H -> cl_latest cl' = H ->
    Effect s c true (set_client (add_height s H cs ph pt) cl')
| EfNewLatest' cl H cs ph pt cl' : get_client s = Some cl -> h64 H -> h64 ph -> pt < two64 ->
    lex_lt (cl_latest cl) H -> cl_latest cl' = H ->
    Effect s c true (add_height (set_client s cl') H cs ph pt).

Definition is_gov (o : Op) : bool := match o with ORecover _ | OUpgrade _ => true | _ => false end.

Lemma atomic_effect s c b r : (fst r = Ok -> Effect s c b (snd r)) -> Effect s c b (snd (atomic s r)).
Proof. destruct r as [[| |] s']; simpl; intros H; try constructor. now apply H. Qed.

Ltac leaf := simpl; intros ?; first [discriminate | constructor].

Lemma step_effect s c o : Inv s -> ctx_wf c -> op_wf o -> Effect s c (is_gov o) (snd (step s c o)).
Proof.
  intros [I L] Hc Ho. unfold step. apply atomic_effect.
  destruct o as [m|sb|u| |]; cbn [is_gov].
  - (* UpdateClient *)
    unfold Client.update_client. destruct (get_client s) as [cl|] eqn:G; [|leaf].
    destruct (negb (status_eqb (status s c) Active)); [leaf|].
    destruct (negb (verify_msg header_ok misb_ok s cl m c)); [leaf|].
    destruct (check_for_misb s m) eqn:CM; [simpl; intros _; now apply EfFreeze|].
    destruct m as [hd|mb]; [|leaf].
    unfold update_state.
    generalize (prune_oldest_spec s (cl_tp cl) (now c) I). intros P.
    destruct (prune_oldest s (cl_tp cl) (now c)) as [|s1] eqn:EP; [inversion P|].
    destruct (get_cons s1 (hd_height hd)) eqn:G1; simpl; intros _.
    + inversion P; subst; try constructor. eapply EfPrune; eauto.
    + eapply EfUpdate; eauto.
      inversion P; subst; auto. right. eauto 10.
  - (* RecoverClient *)
    unfold recover_client. destruct (get_client s) as [cl|] eqn:G; [|leaf].
    destruct (status_eqb (status s c) Active); [leaf|].
    destruct (negb (status_eqb _ Active)); [leaf|].
    destruct (h_gte (cl_latest cl) (cl_latest (sb_client sb))) eqn:HG; [leaf|].
    destruct (negb (sb_matching sb)); [leaf|].
    destruct (sb_cons sb) as [cs|]; [|leaf].
    destruct Ho as [HH [Hph Hpt]].
    destruct (sb_pheight sb) as [ph|] eqn:E1; [|leaf].
    destruct (sb_ptime sb) as [pt|] eqn:E2; [|leaf].
    simpl. intros _. eapply EfNewLatest; eauto. now apply h_gte_false_lt.
  - (* UpgradeClient *)
    unfold upgrade_client. destruct (get_client s) as [cl|] eqn:G; [|leaf].
    destruct (negb (status_eqb (status s c) Active)); [leaf|].
    destruct (h_gt (up_latest u) (cl_latest cl)) eqn:HG; [|leaf]. cbn [negb].
    destruct (get_cons s (cl_latest cl)) as [lc|]; [|leaf].
    destruct (negb (upgrade_ok cl lc u)); [leaf|].
    simpl. intros _. eapply EfNewLatest'; eauto; [apply ptime_of_lt|apply h_gt_iff; exact HG].
  - (* pruneOldestConsensusState *)
    unfold with_client. destruct (get_client s) as [cl|] eqn:G; [|leaf].
    generalize (prune_oldest_spec s (cl_tp cl) (now c) I). intros P.
    destruct (prune_oldest s (cl_tp cl) (now c)) as [|s1] eqn:EP; [inversion P|].
    simpl. intros _. inversion P; subst; try constructor. eapply EfPrune; eauto.
  - (* PruneAllExpiredConsensusStates *)
    unfold with_client. destruct (get_client s) as [cl|] eqn:G; [|leaf].
    destruct (prune_all_spec s (cl_tp cl) (now c) (conj I L)) as [hs [E Hhs]]. rewrite E. simpl. intros _.
    eapply EfPruneAll; eauto.
Qed.

(** no operation panics on a consistent store *)
Lemma step_no_panic s c o : Inv s -> ctx_wf c -> op_wf o -> fst (step s c o) <> Panic.
Proof.
  intros [I L] Hc Ho. unfold step.
  assert (forall r, fst r <> Panic -> fst (atomic s r) <> Panic) as A by (intros [[| |] ?]; simpl; congruence).
  apply A. destruct o as [m|sb|u| |].
  - unfold Client.update_client. destruct (get_client s) as [cl|]; [|discriminate].
    destruct (negb _); [discriminate|]. destruct (negb _); [discriminate|].
    destruct (check_for_misb s m); [discriminate|]. destruct m; [|discriminate].
    unfold update_state. generalize (prune_oldest_no_panic s (cl_tp cl) (now c) I).
    destruct (prune_oldest s (cl_tp cl) (now c)); [congruence|]. destruct (get_cons _ _); discriminate.
  - unfold recover_client. destruct (get_client s); [|discriminate].
    repeat (match goal with |- context [if ?b then _ else _] => destruct b end; try discriminate).
    destruct (sb_cons sb); [|discriminate]. destruct (sb_pheight sb); [|discriminate]. destruct (sb_ptime sb); discriminate.
  - unfold upgrade_client. destruct (get_client s); [|discriminate].
    repeat (match goal with |- context [if ?b then _ else _] => destruct b end; try discriminate).
    destruct (get_cons s _); [|discriminate]. destruct (negb _); discriminate.
  - unfold with_client. destruct (get_client s) as [cl|]; [|discriminate].
    generalize (prune_oldest_no_panic s (cl_tp cl) (now c) I). destruct (prune_oldest _ _ _); [congruence|discriminate].
  - unfold with_client. destruct (get_client s) as [cl|]; [|discriminate].
    destruct (prune_all_spec s (cl_tp cl) (now c) (conj I L)) as [hs [E _]]. rewrite E. discriminate.
Qed.

(** ** the invariant is inductive *)

Lemma is_min_h64 s h : is_min s h -> h64 h. Proof. intros [H _]. exact H. Qed.

Lemma effect_inv s c b s' : Inv s -> ctx_wf c -> Effect s c b s' -> Inv s'.
Proof.
  intros I Hc E. pose proof I as [MI L]. destruct E.
  - exact I.
  - now apply Inv_freeze.
  - apply Inv_remove_height; auto. eapply is_min_h64; eauto.
  - apply delete_heights_spec; auto. intros h Hin. now apply H0.
  - (* update *)
    assert (Inv s1) as [MI1 L1].
    { destruct H0 as [->|[h [cs [M [_ [_ ->]]]]]]; auto. apply Inv_remove_height; auto. eapply is_min_h64; eauto. }
    assert (get_client s1 = Some cl) as G1.
    { destruct H0 as [->|[h [cs [_ [_ [_ ->]]]]]]; auto. now rewrite get_client_remove_height. }
    split.
    + apply MetaInv_add_height; auto; [now apply MetaInv_set_client|apply ptime_of_lt].
    + intros cl0 G0 x St. rewrite get_client_add_height, get_client_set_client in G0. injection G0 as <-.
      assert (h64 x) as Hx.
      { eapply stored_h64; [|exact St]. apply MetaInv_add_height; auto; [now apply MetaInv_set_client|apply ptime_of_lt]. }
      apply stored_add_height in St as [->|St]; auto.
      * subst cl'. destruct (h_gt (hd_height hd) (cl_latest cl)) eqn:HG; simpl.
        -- apply h_lte_iff. now right.
        -- now apply h_gt_false_lte.
      * apply stored_set_client in St. specialize (L1 cl G1 x St).
        subst cl'. destruct (h_gt (hd_height hd) (cl_latest cl)) eqn:HG; simpl; auto.
        apply h_gt_iff in HG. apply h_lte_iff. left. eapply lte_lt_trans; eauto.
  - eapply (Inv_add_latest s H cs ph pt cl'); eauto.
    intros x St. apply h_lte_iff. left. eapply lte_lt_trans; eauto.
  - eapply (Inv_add_latest s H cs ph pt cl'); eauto.
    intros x St. apply h_lte_iff. left. eapply lte_lt_trans; eauto.
Qed.

Lemma step_inv s c o : Inv s -> ctx_wf c -> op_wf o -> Inv (snd (step s c o)).
Proof. intros I Hc Ho. eapply effect_inv; eauto. now apply step_effect. Qed.

Definition ops_wf (ops : list (Ctx * Op)) : Prop := Forall (fun co => ctx_wf (fst co) /\ op_wf (snd co)) ops.

Lemma run_inv ops : forall s, Inv s -> ops_wf ops -> Inv (run s ops).
Proof.
  induction ops as [|[c o] ops IH]; intros s I W; simpl; [exact I|].
  inversion W as [|? ? [Hc Ho] W']; subst. apply IH; auto. now apply step_inv.
Qed.

Lemma Inv_initialize c cl cs : ctx_wf c -> h64 (cl_latest cl) -> Inv (initialize [] c cl cs).
Proof.
  intros Hc Hl. unfold initialize.
  change (Inv (add_height (set_client [] cl) (cl_latest cl) cs (self c) (ptime_of c))).
  assert (Inv []) as I0.
  { split; [apply MetaInv_empty|]. intros ? G. discriminate. }
  eapply (proj2 (Inv_add_latest [] (cl_latest cl) cs (self c) (ptime_of c) cl I0 Hl Hc (ptime_of_lt c) eq_refl _)).
  Unshelve. intros x St. exfalso. apply St. reflexivity.
Qed.

(** ** C20: a stored consensus state is never changed; it can only disappear, and only when expired *)

Lemma effect_cons_preserved s c b s' h cs :
  Inv s -> Effect s c b s' -> h64 h -> get_cons s h = Some cs ->
  get_cons s' h = Some cs \/
  (get_cons s' h = None /\ exists cl, get_client s = Some cl /\ expired (cl_tp cl) (c_ts cs) (now c) = true).
Proof.
  intros [MI L] E Hh G. destruct E.
  - now left.
  - left. unfold freeze. now rewrite get_cons_set_client.
  - destruct (Height_eq_dec h h0) as [->|NE].
    + right. split; [apply get_cons_remove_height_same|]. exists cl. split; auto. congruence.
    + left. rewrite get_cons_remove_height_other; auto. eapply is_min_h64; eauto.
  - destruct (delete_heights_spec s hs (conj MI L)) as [_ [_ D]]; [intros x Hx; now apply H0|].
    rewrite (D h Hh). destruct (in_dec Height_eq_dec h hs) as [Hin|]; [right|now left].
    split; auto. exists cl. split; auto. destruct (H0 h Hin) as [_ [cs' [G' X]]]. congruence.
  - (* update: the header's height has no consensus state after pruning *)
    assert (get_cons s1 h = Some cs \/ (get_cons s1 h = None /\ expired (cl_tp cl) (c_ts cs) (now c) = true)) as [G1|[G1 X]].
    { destruct H0 as [->|[h0 [cs0 [M [G0 [X ->]]]]]]; [now left|].
      destruct (Height_eq_dec h h0) as [->|NE].
      - right. split; [apply get_cons_remove_height_same|congruence].
      - left. rewrite get_cons_remove_height_other; auto. eapply is_min_h64; eauto. }
    + left. assert (h <> hd_height hd) as NE by (intros ->; congruence).
      rewrite get_cons_add_height_other, get_cons_set_client; auto.
    + destruct (Height_eq_dec h (hd_height hd)) as [->|NE].
      * (* pruned and re-stored in the same step: the header's state equals the stored one *)
        left. rewrite get_cons_add_height_same.
        unfold check_misb_header in H3. rewrite G in H3. apply negb_false_iff, cons_eqb_eq in H3. congruence.
      * right. split; [|eauto]. rewrite get_cons_add_height_other, get_cons_set_client; auto.
  - left. assert (h <> H) as NE.
    { intros ->. specialize (L cl H0 H (get_cons_stored _ _ _ G)).
      eapply lex_lt_irrefl, lte_lt_trans; eauto. }
    rewrite get_cons_set_client, get_cons_add_height_other; auto.
  - left. assert (h <> H) as NE.
    { intros ->. specialize (L cl H0 H (get_cons_stored _ _ _ G)).
      eapply lex_lt_irrefl, lte_lt_trans; eauto. }
    rewrite get_cons_add_height_other, get_cons_set_client; auto.
Qed.

Lemma step_cons_preserved s c o h cs :
  Inv s -> ctx_wf c -> op_wf o -> h64 h -> get_cons s h = Some cs ->
  get_cons (snd (step s c o)) h = Some cs \/
  (get_cons (snd (step s c o)) h = None /\ exists cl, get_client s = Some cl /\ expired (cl_tp cl) (c_ts cs) (now c) = true).
Proof. intros I Hc Ho. apply (effect_cons_preserved s c (is_gov o)); auto. now apply step_effect. Qed.

(** over every operation list: the state stored for a height stays, or there is a step at which it was
    removed, and at that step it was expired *)
Lemma run_cons_preserved ops : forall s h cs,
  Inv s -> ops_wf ops -> h64 h -> get_cons s h = Some cs ->
  get_cons (run s ops) h = Some cs \/
  exists ops1 c o ops2 cl, ops = ops1 ++ (c, o) :: ops2 /\
    get_cons (run s ops1) h = Some cs /\ get_cons (snd (step (run s ops1) c o)) h = None /\
    get_client (run s ops1) = Some cl /\ expired (cl_tp cl) (c_ts cs) (now c) = true.
Proof.
  induction ops as [|[c o] ops IH]; intros s h cs I W Hh G; simpl; [now left|].
  inversion W as [|? ? [Hc Ho] W']; subst. simpl in Hc, Ho.
  destruct (step_cons_preserved s c o h cs I Hc Ho Hh G) as [G'|[G' [cl [GC X]]]].
  - destruct (IH (snd (step s c o)) h cs (step_inv s c o I Hc Ho) W' Hh G') as [R|[ops1 [c' [o' [ops2 [cl [-> [R1 [R2 [R3 R4]]]]]]]]]].
    + now left.
    + right. exists ((c, o) :: ops1), c', o', ops2, cl. simpl. auto.
  - right. exists [], c, o, ops, cl. simpl. auto.
Qed.

(** ** C20: duplicate and conflicting headers *)

Lemma status_eqb_active st : status_eqb st Active = true <-> st = Active.
Proof. destruct st; simpl; split; congruence. Qed.

Lemma verify_header_trusted s cl hd c : verify_header s cl hd c = true ->
  exists tc, get_cons s (hd_trusted hd) = Some tc /\ lex_lt (hd_trusted hd) (hd_height hd).
Proof.
  unfold Client.verify_header. destruct (get_cons s (hd_trusted hd)) as [tc|]; [|discriminate].
  intros V. apply andb_true_iff in V as [V _]. apply andb_true_iff in V as [_ V].
  apply negb_true_iff, h_lte_false_lt in V. eauto.
Qed.

(** an accepted header message: frozen on misbehaviour, otherwise UpdateState *)
Lemma step_update_header s c cl hd :
  get_client s = Some cl -> status s c = Active -> verify_header s cl hd c = true ->
  step s c (OUpdate (MHeader hd)) =
    if check_misb_header s hd then (Ok, freeze s cl)
    else match update_state s cl hd c with RPanic => (Panic, s) | ROk s' => (Ok, s') end.
Proof.
  intros G St V. unfold Client.step, Client.update_client. rewrite G, St. simpl. rewrite V. simpl.
  destruct (check_misb_header s hd); [reflexivity|]. destruct (update_state s cl hd c); reflexivity.
Qed.

(** resubmitting a stored header: the outcome is Ok and the only effect is the pruning step, which does not
    touch this height: its consensus state and all its metadata stay exactly as they were *)
Lemma duplicate_header_noop s c cl hd :
  Inv s -> h64 (hd_height hd) -> get_client s = Some cl -> status s c = Active ->
  verify_header s cl hd c = true ->
  get_cons s (hd_height hd) = Some (hdr_cons hd) ->
  exists s1, prune_oldest s (cl_tp cl) (now c) = ROk s1 /\ step s c (OUpdate (MHeader hd)) = (Ok, s1) /\
    (forall K, kv_get s1 (hkey K (hd_height hd)) = kv_get s (hkey K (hd_height hd))) /\
    get_client s1 = Some cl.
Proof.
  intros [MI L] Hh G St V GC.
  generalize (prune_oldest_spec s (cl_tp cl) (now c) MI). intros P.
  destruct (prune_oldest s (cl_tp cl) (now c)) as [|s1] eqn:EP; [inversion P|].
  exists s1. split; [reflexivity|].
  destruct (verify_header_trusted s cl hd c V) as [tc [GT LT]].
  assert (forall K, kv_get s1 (hkey K (hd_height hd)) = kv_get s (hkey K (hd_height hd))) as Fr.
  { inversion P; subst; auto. intros K. apply get_remove_height_other. intros K'.
    assert (h <> hd_height hd) as NE.
    { destruct H0 as [Hh0 [_ Min]].
      destruct (Min (hd_trusted hd) (stored_h64 s _ MI (get_cons_stored _ _ _ GT)) (get_cons_stored _ _ _ GT)) as [E|Lt].
      - subst h. now apply lex_lt_neq.
      - apply lex_lt_neq. eapply lex_lt_trans; eauto. }
    apply hkey_other_height; auto. eapply is_min_h64; eauto. }
  assert (get_client s1 = Some cl) as G1.
  { inversion P; subst; auto. now rewrite get_client_remove_height. }
  split; [|split; [exact Fr|exact G1]].
  rewrite (step_update_header s c cl hd G St V).
  unfold check_misb_header. rewrite GC.
  assert (cons_eqb (hdr_cons hd) (hdr_cons hd) = true) as -> by now apply cons_eqb_eq. cbn [negb].
  unfold update_state. rewrite EP.
  assert (get_cons s1 (hd_height hd) = Some (hdr_cons hd)) as ->.
  { unfold get_cons, get_cons_at in *. generalize (Fr KCons). cbn [hkey]. intros ->. exact GC. }
  reflexivity.
Qed.

(** a header for a stored height with a different consensus state freezes the client; nothing else changes *)
Lemma conflicting_header_freezes s c cl hd cs :
  get_client s = Some cl -> status s c = Active -> verify_header s cl hd c = true ->
  get_cons s (hd_height hd) = Some cs -> cs <> hdr_cons hd ->
  step s c (OUpdate (MHeader hd)) = (Ok, freeze s cl).
Proof.
  intros G St V GC NE. rewrite (step_update_header s c cl hd G St V).
  unfold check_misb_header. rewrite GC.
  destruct (cons_eqb cs (hdr_cons hd)) eqn:E; [apply cons_eqb_eq in E; contradiction|reflexivity].
Qed.

Lemma freeze_frame s cl :
  get_client (freeze s cl) = Some (mkClient (cl_latest cl) true (cl_tp cl)) /\
  (forall k, k <> client_key -> kv_get (freeze s cl) k = kv_get s k) /\
  (forall h, get_cons (freeze s cl) h = get_cons s h).
Proof.
  unfold freeze. split; [apply get_client_set_client|]. split.
  - intros k NE. unfold set_client. now apply kv_get_set_other.
  - intros h. apply get_cons_set_client.
Qed.

(** valid misbehaviour freezes, anything else leaves the store untouched: a Misbehaviour message never
    writes a consensus state *)
Lemma misbehaviour_msg_effect s c mb :
  snd (step s c (OUpdate (MMisb mb))) = s \/
  exists cl, get_client s = Some cl /\ snd (step s c (OUpdate (MMisb mb))) = freeze s cl.
Proof.
  unfold Client.step, Client.update_client. destruct (get_client s) as [cl|]; [|now left].
  destruct (negb _); [now left|]. destruct (negb _); [now left|].
  destruct (check_for_misb s (MMisb mb)); [right; eauto|now left].
Qed.

(** ** C23: timestamps increase with height *)

Definition TsMono (s : TmStore) : Prop :=
  forall h1 h2 c1 c2, get_cons s h1 = Some c1 -> get_cons s h2 = Some c2 -> lex_lt h1 h2 -> (c_ts c1 < c_ts c2)%Z.

Lemma is_prev_unique s h a b : is_prev s h a -> is_prev s h b -> a = b.
Proof.
  intros [Ha [Sa [La Ma]]] [Hb [Sb [Lb Mb]]].
  destruct (Ma b Hb Sb Lb) as [E|L1]; auto. destruct (Mb a Ha Sa La) as [E|L2]; auto.
  exfalso. eapply lex_lt_asym; eauto.
Qed.

Lemma is_next_unique s h a b : is_next s h a -> is_next s h b -> a = b.
Proof.
  intros [Ha [Sa [La Ma]]] [Hb [Sb [Lb Mb]]].
  destruct (Ma b Hb Sb Lb) as [E|L1]; auto. destruct (Mb a Ha Sa La) as [E|L2]; auto.
  exfalso. eapply lex_lt_asym; eauto.
Qed.

(** for a height without consensus state, CheckForMisbehaviour is exactly the comparison with the true
    stored neighbours *)
Lemma check_misb_header_new_spec s hd :
  MetaInv s -> h64 (hd_height hd) -> get_cons s (hd_height hd) = None ->
  (check_misb_header s hd = false <->
   (forall h' c', is_prev s (hd_height hd) h' -> get_cons s h' = Some c' -> (c_ts c' < hd_ts hd)%Z) /\
   (forall h' c', is_next s (hd_height hd) h' -> get_cons s h' = Some c' -> (hd_ts hd < c_ts c')%Z)).
Proof.
  intros I Hh GN. unfold check_misb_header. rewrite GN.
  generalize (get_prev_spec s (hd_height hd) I Hh), (get_next_spec s (hd_height hd) I Hh).
  destruct (get_prev s (hd_height hd)) as [p|]; destruct (get_next s (hd_height hd)) as [n|]; intros SP SN.
  - destruct SP as [hp [Pp Gp]], SN as [hn [Pn Gn]].
    rewrite orb_false_iff, !negb_false_iff, !Z.ltb_lt. split.
    + intros [A B]. split; intros h' c' P' G'.
      * rewrite (is_prev_unique _ _ _ _ P' Pp) in G'. congruence.
      * rewrite (is_next_unique _ _ _ _ P' Pn) in G'. congruence.
    + intros [A B]. split; eauto.
  - destruct SP as [hp [Pp Gp]].
    rewrite orb_false_r, negb_false_iff, Z.ltb_lt. split.
    + intros A. split; intros h' c' P' G'.
      * rewrite (is_prev_unique _ _ _ _ P' Pp) in G'. congruence.
      * exfalso. destruct P' as [H1 [H2 [H3 _]]]. eapply SN; eauto.
    + intros [A _]. eauto.
  - destruct SN as [hn [Pn Gn]].
    cbn [orb]. rewrite negb_false_iff, Z.ltb_lt. split.
    + intros B. split; intros h' c' P' G'.
      * exfalso. destruct P' as [H1 [H2 [H3 _]]]. eapply SP; eauto.
      * rewrite (is_next_unique _ _ _ _ P' Pn) in G'. congruence.
    + intros [_ B]. eauto.
  - split; [|reflexivity]. intros _. split; intros h' c' P' G'; exfalso; destruct P' as [H1 [H2 [H3 _]]].
    + eapply SP; eauto.
    + eapply SN; eauto.
Qed.

(** a header whose time is not strictly between its stored neighbours' times freezes the client *)
Lemma bad_time_header_freezes s c cl hd :
  Inv s -> h64 (hd_height hd) -> get_client s = Some cl -> status s c = Active -> verify_header s cl hd c = true ->
  get_cons s (hd_height hd) = None ->
  ((exists h' c', is_prev s (hd_height hd) h' /\ get_cons s h' = Some c' /\ (hd_ts hd <= c_ts c')%Z) \/
   (exists h' c', is_next s (hd_height hd) h' /\ get_cons s h' = Some c' /\ (c_ts c' <= hd_ts hd)%Z)) ->
  step s c (OUpdate (MHeader hd)) = (Ok, freeze s cl).
Proof.
  intros [MI L] Hh G St V GN Bad. rewrite (step_update_header s c cl hd G St V).
  destruct (check_misb_header s hd) eqn:CM; [reflexivity|]. exfalso.
  apply (check_misb_header_new_spec s hd MI Hh GN) in CM as [A B].
  destruct Bad as [[h' [c' [P [G' X]]]]|[h' [c' [P [G' X]]]]].
  - specialize (A h' c' P G'). lia.
  - specialize (B h' c' P G'). lia.
Qed.

(** an accepted header for a height without consensus state either freezes the client or has a time strictly
    between the times of the true stored neighbours (and then UpdateState runs) *)
Lemma update_new_height_cases s c cl hd :
  Inv s -> h64 (hd_height hd) -> get_client s = Some cl -> status s c = Active -> verify_header s cl hd c = true ->
  get_cons s (hd_height hd) = None ->
  step s c (OUpdate (MHeader hd)) = (Ok, freeze s cl) \/
  ((forall h' c', is_prev s (hd_height hd) h' -> get_cons s h' = Some c' -> (c_ts c' < hd_ts hd)%Z) /\
   (forall h' c', is_next s (hd_height hd) h' -> get_cons s h' = Some c' -> (hd_ts hd < c_ts c')%Z) /\
   exists s', update_state s cl hd c = ROk s' /\ step s c (OUpdate (MHeader hd)) = (Ok, s') /\
              get_cons s' (hd_height hd) = Some (hdr_cons hd)).
Proof.
  intros [MI L] Hh G St V GN. rewrite (step_update_header s c cl hd G St V).
  destruct (check_misb_header s hd) eqn:CM; [now left|right].
  apply (check_misb_header_new_spec s hd MI Hh GN) in CM as [A B]. split; [exact A|]. split; [exact B|].
  unfold update_state.
  generalize (prune_oldest_spec s (cl_tp cl) (now c) MI). intros P.
  destruct (prune_oldest s (cl_tp cl) (now c)) as [|s1] eqn:EP; [inversion P|].
  assert (get_cons s1 (hd_height hd) = None) as ->.
  { inversion P; subst; auto. destruct (Height_eq_dec (hd_height hd) h) as [<-|NE].
    - apply get_cons_remove_height_same.
    - rewrite get_cons_remove_height_other; auto. eapply is_min_h64; eauto. }
  eexists. split; [reflexivity|]. split; [reflexivity|]. apply get_cons_add_height_same.
Qed.

(** the time of an accepted header compared with every stored consensus state, given monotone timestamps *)
Lemma accepted_header_ts s hd :
  Inv s -> TsMono s -> h64 (hd_height hd) -> check_misb_header s hd = false ->
  forall h2 c2, get_cons s h2 = Some c2 ->
    (lex_lt (hd_height hd) h2 -> (hd_ts hd < c_ts c2)%Z) /\ (lex_lt h2 (hd_height hd) -> (c_ts c2 < hd_ts hd)%Z).
Proof.
  intros [MI L] TM Hh CM h2 c2 G2.
  assert (h64 h2) as Hh2 by (eapply stored_h64; eauto; eapply get_cons_stored; eauto).
  destruct (get_cons s (hd_height hd)) as [cs|] eqn:GC.
  - (* the height is stored: the header carries the same consensus state *)
    unfold check_misb_header in CM. rewrite GC in CM. apply negb_false_iff, cons_eqb_eq in CM. subst cs.
    split; intros Lt; [apply (TM _ _ _ _ GC G2 Lt)|apply (TM _ _ _ _ G2 GC Lt)].
  - apply (check_misb_header_new_spec s hd MI Hh GC) in CM as [A B].
    generalize (get_prev_spec s (hd_height hd) MI Hh), (get_next_spec s (hd_height hd) MI Hh). intros SP SN.
    split; intros Lt.
    + destruct (get_next s (hd_height hd)) as [n|]; [|exfalso; eapply SN; eauto; eapply get_cons_stored; eauto].
      destruct SN as [hn [Pn Gn]]. specialize (B hn n Pn Gn).
      destruct Pn as [_ [_ [_ Mn]]]. destruct (Mn h2 Hh2 (get_cons_stored _ _ _ G2) Lt) as [->|Lt'].
      * congruence.
      * specialize (TM _ _ _ _ Gn G2 Lt'). lia.
    + destruct (get_prev s (hd_height hd)) as [p|]; [|exfalso; eapply SP; eauto; eapply get_cons_stored; eauto].
      destruct SP as [hp [Pp Gp]]. specialize (A hp p Pp Gp).
      destruct Pp as [_ [_ [_ Mp]]]. destruct (Mp h2 Hh2 (get_cons_stored _ _ _ G2) Lt) as [->|Lt'].
      * congruence.
      * specialize (TM _ _ _ _ G2 Gp Lt'). lia.
Qed.

Lemma get_cons_remove_height_some s h x v : get_cons (remove_height s h) x = Some v -> h64 h -> h64 x -> get_cons s x = Some v.
Proof.
  intros G Hh Hx. destruct (Height_eq_dec x h) as [->|NE]; [rewrite get_cons_remove_height_same in G; discriminate|].
  now rewrite get_cons_remove_height_other in G.
Qed.

(** updates, misbehaviour and pruning (everything except recovery and upgrade) keep timestamps monotone *)
Lemma effect_tsmono s c s' : Inv s -> ctx_wf c -> TsMono s -> Effect s c false s' -> TsMono s'.
Proof.
  intros I Hc TM E. pose proof I as [MI L].
  assert (Inv s') as [MI' _] by (eapply effect_inv; eauto).
  assert (H64 : forall x v, get_cons s' x = Some v -> h64 x)
    by (intros; eapply stored_h64; eauto; eapply get_cons_stored; eauto).
  remember false as b eqn:Eb.
  destruct E as [b'|b' cl G|b' cl h cs G M Gc X|b' cl hs G Hhs|b' cl s1 hd cl' G Hs1 Hhh Gn CM Ecl
                |cl H cs ph pt cl' G HH Hph Hpt Lt El|cl H cs ph pt cl' G HH Hph Hpt Lt El]; try discriminate.
  - exact TM.
  - intros h1 h2 c1 c2. unfold freeze. rewrite !get_cons_set_client. apply TM.
  - intros h1 h2 c1 c2 G1 G2. apply TM.
    + eapply get_cons_remove_height_some; eauto. eapply is_min_h64; eauto.
    + eapply get_cons_remove_height_some; eauto. eapply is_min_h64; eauto.
  - destruct (delete_heights_spec s hs I) as [_ [_ D]]; [intros x Hx; now apply Hhs|].
    intros h1 h2 c1 c2 G1 G2.
    assert (Hh1 := H64 _ _ G1). assert (Hh2 := H64 _ _ G2).
    rewrite (D h1 Hh1) in G1. rewrite (D h2 Hh2) in G2.
    destruct (in_dec Height_eq_dec h1 hs); [discriminate|]. destruct (in_dec Height_eq_dec h2 hs); [discriminate|].
    now apply TM.
  - (* update *)
    assert (MetaInv s1) as MI1.
    { destruct Hs1 as [->|[h [cs [M [_ [_ ->]]]]]]; auto. apply MetaInv_remove_height; auto. eapply is_min_h64; eauto. }
    assert (forall x v, get_cons s1 x = Some v -> get_cons s x = Some v) as Sub.
    { intros x v Gx. destruct Hs1 as [->|[h [cs [M [_ [_ ->]]]]]]; auto.
      assert (h64 h) as Hh0 by (eapply is_min_h64; eauto).
      assert (h64 x) as Hx
        by (apply (stored_h64 (remove_height s h) x); [now apply MetaInv_remove_height|eapply get_cons_stored; exact Gx]).
      exact (get_cons_remove_height_some s h x v Gx Hh0 Hx). }
    intros h1 h2 c1 c2 G1 G2 Lt.
    assert (Hh1 := H64 _ _ G1). assert (Hh2 := H64 _ _ G2).
    destruct (Height_eq_dec h1 (hd_height hd)) as [E1|N1]; destruct (Height_eq_dec h2 (hd_height hd)) as [E2|N2].
    + subst. exfalso. eapply lex_lt_irrefl; eauto.
    + subst h1. rewrite get_cons_add_height_same in G1. injection G1 as <-.
      rewrite get_cons_add_height_other, get_cons_set_client in G2 by auto. apply Sub in G2.
      apply (accepted_header_ts s hd I TM Hhh CM h2 c2 G2). exact Lt.
    + subst h2. rewrite get_cons_add_height_same in G2. injection G2 as <-.
      rewrite get_cons_add_height_other, get_cons_set_client in G1 by auto. apply Sub in G1.
      apply (accepted_header_ts s hd I TM Hhh CM h1 c1 G1). exact Lt.
    + rewrite get_cons_add_height_other, get_cons_set_client in G1 by auto.
      rewrite get_cons_add_height_other, get_cons_set_client in G2 by auto.
      apply Sub in G1. apply Sub in G2. eapply TM; eauto.
Qed.

Definition plain_ops (ops : list (Ctx * Op)) : Prop := Forall (fun co => is_gov (snd co) = false) ops.

Lemma step_tsmono s c o : Inv s -> ctx_wf c -> op_wf o -> is_gov o = false -> TsMono s -> TsMono (snd (step s c o)).
Proof.
  intros I Hc Ho Hg TM. eapply effect_tsmono; eauto. rewrite <- Hg. now apply step_effect.
Qed.

Lemma run_tsmono ops : forall s, Inv s -> ops_wf ops -> plain_ops ops -> TsMono s -> TsMono (run s ops).
Proof.
  induction ops as [|[c o] ops IH]; intros s I W P TM; simpl; [exact TM|].
  inversion W as [|? ? [Hc Ho] W']; subst. inversion P as [|? ? Hg P']; subst. simpl in *.
  apply IH; auto; [now apply step_inv|now apply step_tsmono].
Qed.

Lemma TsMono_initialize c cl cs : TsMono (initialize [] c cl cs).
Proof.
  unfold initialize. change (TsMono (add_height (set_client [] cl) (cl_latest cl) cs (self c) (ptime_of c))).
  intros h1 h2 c1 c2 G1 G2 Lt. exfalso.
  assert (forall x v, get_cons (add_height (set_client [] cl) (cl_latest cl) cs (self c) (ptime_of c)) x = Some v -> x = cl_latest cl) as One.
  { intros x v Gx. destruct (Height_eq_dec x (cl_latest cl)) as [->|NE]; [reflexivity|exfalso].
    unfold get_cons, get_cons_at, add_height, set_meta, set_cons, set_client in Gx.
    destruct (bytes_eq_dec (cons_key x) (cons_key (cl_latest cl))) as [E|NK]; [apply cons_key_inj in E; contradiction|].
    assert (forall K, cons_key x <> hkey K (cl_latest cl)) as NKs.
    { intros K E. destruct K; cbn [hkey] in E; [contradiction| | |].
      - unfold ptime_key in E. rewrite <- (app_nil_r (cons_key x)) in E. unfold cons_key in E. rewrite <- !app_assoc in E.
        apply app_inv_head in E. apply head_suffix_inj in E as [_ E]; try apply h_string_no_slash; auto; [discriminate|right; eexists; reflexivity].
      - unfold pheight_key in E. rewrite <- (app_nil_r (cons_key x)) in E. unfold cons_key in E. rewrite <- !app_assoc in E.
        apply app_inv_head in E. apply head_suffix_inj in E as [_ E]; try apply h_string_no_slash; auto; [discriminate|right; eexists; reflexivity].
      - discriminate. }
    rewrite !kv_get_set_other in Gx; [discriminate|discriminate|apply (NKs KCons)|apply (NKs KPtime)|apply (NKs KPheight)|apply (NKs KIter)]. }
  rewrite (One _ _ G1), (One _ _ G2) in Lt. eapply lex_lt_irrefl; eauto.
Qed.

End Oracles.
