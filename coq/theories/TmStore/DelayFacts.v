From Coq Require Import ZifyBool ZifyN.
From IBC Require Import Lib.Bytes Lib.Dec Core.Height Core.HeightFacts TmStore.Delay.
Local Open Scope N_scope.

(** ** getBlockDelay = ceil(d / p), for every pair of 64-bit inputs *)

Lemma block_delay_zero_param d : block_delay d 0 = 0.
Proof. reflexivity. Qed.

(** the [++] never wraps: a non-zero remainder forces p >= 2, hence d / p < 2^63 *)
Lemma block_delay_nowrap d p :
  d < two64 -> p <> 0 ->
  block_delay d p = d / p + (if d mod p =? 0 then 0 else 1).
Proof.
  intros Hd Hp. unfold block_delay.
  destruct (N.eqb_spec p 0) as [E|_]; [contradiction|].
  destruct (N.eqb_spec (d mod p) 0) as [E|NE]; cbn [negb]; [lia|].
  apply N.mod_small.
  assert (p <> 1) as Hp1 by (intros ->; rewrite N.mod_1_r in NE; contradiction).
  assert (Hdm := N.div_mod d p Hp).
  assert (Hlt := N.mod_lt d p Hp).
  generalize dependent (d / p). generalize dependent (d mod p). intros r NE Hr q Hq.
  unfold two64 in *. nia.
Qed.

(** Galois characterisation of the ceiling: it is the least n with n * p >= d *)
Lemma block_delay_least d p n :
  d < two64 -> p <> 0 -> (block_delay d p <= n <-> d <= n * p).
Proof.
  intros Hd Hp. rewrite block_delay_nowrap by assumption.
  assert (Hdm := N.div_mod d p Hp).
  assert (Hlt := N.mod_lt d p Hp).
  destruct (N.eqb_spec (d mod p) 0) as [E|NE];
  generalize dependent (d / p); generalize dependent (d mod p); intros r; intros; split; intros; nia.
Qed.

Lemma block_delay_formula d p :
  d < two64 -> p <> 0 -> block_delay d p = (d + p - 1) / p.
Proof.
  intros Hd Hp. rewrite block_delay_nowrap by assumption.
  assert (Hdm := N.div_mod d p Hp).
  assert (Hlt := N.mod_lt d p Hp).
  destruct (N.eqb_spec (d mod p) 0) as [E|NE].
  - apply (N.div_unique _ _ _ (p - 1)); [lia|].
    rewrite E in Hdm. lia.
  - apply (N.div_unique _ _ _ (d mod p - 1)); [lia|].
    generalize dependent (d / p). generalize dependent (d mod p). intros r ? ? q ?. nia.
Qed.

Lemma block_delay_le d p : d < two64 -> block_delay d p <= d.
Proof.
  intros Hd. destruct (N.eq_dec p 0) as [->|Hp]; [rewrite block_delay_zero_param; lia|].
  apply block_delay_least; try assumption. nia.
Qed.

Lemma block_delay_fits d p : d < two64 -> block_delay d p < two64.
Proof. intros Hd. assert (H := block_delay_le d p Hd). lia. Qed.

(** ** verifyDelayPeriodPassed: inclusive bounds over the true integer sums *)

Lemma delay_time_check_ok ptime now dt :
  now < two64 -> dt < two64 -> (forall pt, ptime = Some pt -> pt < two64) ->
  (delay_time_check ptime now dt = DelayOk <->
   dt = 0 \/ exists pt, ptime = Some pt /\ pt + dt <= now).
Proof.
  intros Hn Hd Hp. unfold delay_time_check.
  destruct (N.eqb_spec dt 0) as [->|NE]; cbn [negb]; [tauto|].
  destruct ptime as [pt|].
  - specialize (Hp pt eq_refl).
    assert ((pt + dt) mod two64 = if pt + dt <? two64 then pt + dt else pt + dt - two64) as ->.
    { destruct (N.ltb_spec (pt + dt) two64) as [L|G]; [now apply N.mod_small|].
      symmetry. apply (N.mod_unique _ _ 1); lia. }
    destruct (N.ltb_spec (pt + dt) two64) as [L|G].
    + destruct (N.ltb_spec (pt + dt) pt) as [A|A]; [lia|].
      destruct (N.ltb_spec now (pt + dt)) as [C|C]; cbn [orb]; split; try discriminate; auto.
      * intros [?|[pt' [[= <-] ?]]]; [contradiction|lia].
      * intros _. right. eauto.
    + destruct (N.ltb_spec (pt + dt - two64) pt) as [A|A]; [|lia]. cbn [orb].
      split; [discriminate|]. intros [?|[pt' [[= <-] ?]]]; [contradiction|lia].
  - split; [discriminate|]. intros [?|[pt' [[=] _]]]; contradiction.
Qed.

Lemma delay_block_check_ok pheight self db :
  ht self < two64 -> db < two64 -> (forall ph, pheight = Some ph -> ht ph < two64) ->
  (delay_block_check pheight self db = DelayOk <->
   db = 0 \/ exists ph, pheight = Some ph /\ ht ph + db < two64 /\ h_gte self (mkH (rev ph) (ht ph + db)) = true).
Proof.
  intros Hn Hd Hp. unfold delay_block_check.
  destruct (N.eqb_spec db 0) as [->|NE]; cbn [negb]; [tauto|].
  destruct pheight as [ph|].
  - specialize (Hp ph eq_refl). cbn [ht rev].
    destruct (N.ltb_spec (ht ph + db) two64) as [L|G].
    + rewrite (N.mod_small _ _ L).
      destruct (N.ltb_spec (ht ph + db) (ht ph)) as [A|A]; [lia|]. cbn [orb].
      assert (h_gte self (mkH (rev ph) (ht ph + db)) = negb (h_lt self (mkH (rev ph) (ht ph + db)))) as E.
      { unfold h_gte, h_lt. destruct (h_compare_range self (mkH (rev ph) (ht ph + db))) as [->|[->| ->]]; reflexivity. }
      destruct (h_lt self (mkH (rev ph) (ht ph + db))) eqn:C; cbn [negb] in E; split; try discriminate.
      * intros [?|[ph' [[= <-] [_ ?]]]]; [contradiction|congruence].
      * intros _. right. exists ph. auto.
      * auto.
    + assert ((ht ph + db) mod two64 = ht ph + db - two64) as -> by (symmetry; apply (N.mod_unique _ _ 1); lia).
      destruct (N.ltb_spec (ht ph + db - two64) (ht ph)) as [A|A]; [|lia]. cbn [orb].
      split; [discriminate|]. intros [?|[ph' [[= <-] [? _]]]]; [contradiction|lia].
  - split; [discriminate|]. intros [?|[ph' [[=] _]]]; contradiction.
Qed.

(** acceptance = both delays passed, evaluated over the integers (no wrap-around), both bounds inclusive;
    a needed but missing processed time / height is an error *)
Lemma verify_delay_ok ptime pheight now self dt db :
  now < two64 -> ht self < two64 -> dt < two64 -> db < two64 ->
  (forall pt, ptime = Some pt -> pt < two64) -> (forall ph, pheight = Some ph -> ht ph < two64) ->
  (verify_delay ptime pheight now self dt db = DelayOk <->
   (dt = 0 \/ exists pt, ptime = Some pt /\ pt + dt <= now) /\
   (db = 0 \/ exists ph, pheight = Some ph /\ ht ph + db < two64 /\ h_gte self (mkH (rev ph) (ht ph + db)) = true)).
Proof.
  intros. unfold verify_delay.
  rewrite <- delay_time_check_ok, <- delay_block_check_ok by assumption.
  destruct (delay_time_check ptime now dt); split; try tauto; try (intros [? _]; discriminate); discriminate.
Qed.

(** in the same revision (the normal case) the block condition is the plain inclusive integer comparison *)
Lemma h_gte_same_rev r a b : h_gte (mkH r a) (mkH r b) = (b <=? a).
Proof.
  unfold h_gte, h_compare, cmpZ. cbn [rev ht]. rewrite N.eqb_refl. cbn [negb].
  destruct (N.compare_spec a b), (N.leb_spec b a); try reflexivity; lia.
Qed.

Lemma delay_block_check_same_rev r p s db :
  p < two64 -> s < two64 -> db < two64 -> db <> 0 ->
  (delay_block_check (Some (mkH r p)) (mkH r s) db = DelayOk <-> p + db <= s).
Proof.
  intros Hp Hs Hd NE. rewrite delay_block_check_ok; cbn [ht rev]; try assumption.
  - split.
    + intros [?|[ph [[= <-] [L G]]]]; [contradiction|]. cbn [ht rev] in *. rewrite h_gte_same_rev in G. lia.
    + intros L. right. exists (mkH r p). cbn [ht rev]. rewrite h_gte_same_rev. repeat split; lia.
  - intros ph [= <-]. exact Hp.
Qed.

(** missing metadata that is needed is an error *)
Lemma verify_delay_missing_time pheight now self dt db :
  dt <> 0 -> verify_delay None pheight now self dt db = ErrNoProcessedTime.
Proof. intros NE. unfold verify_delay, delay_time_check. destruct (N.eqb_spec dt 0); [contradiction|reflexivity]. Qed.

Lemma verify_delay_missing_height ptime now self dt db :
  db <> 0 -> delay_time_check ptime now dt = DelayOk ->
  verify_delay ptime None now self dt db = ErrNoProcessedHeight.
Proof.
  intros NE H. unfold verify_delay. rewrite H. unfold delay_block_check.
  destruct (N.eqb_spec db 0); [contradiction|reflexivity].
Qed.
