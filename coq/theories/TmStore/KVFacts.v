From Coq Require Import Sorting.Sorted.
From IBC Require Import Lib.Bytes Lib.BytesFacts Lib.BE64 TmStore.KV.
Local Open Scope N_scope.

(** ** bytes_cmp is a total order *)

Lemma N_of_ascii_inj a b : N_of_ascii a = N_of_ascii b -> a = b.
Proof. intros H. rewrite <- (ascii_N_embedding a), <- (ascii_N_embedding b). now rewrite H. Qed.

Lemma bytes_cmp_eq a b : bytes_cmp a b = Eq <-> a = b.
Proof.
  revert b; induction a as [|x a IH]; destruct b as [|y b]; simpl; split; try discriminate; auto.
  - destruct (N.compare_spec (N_of_ascii x) (N_of_ascii y)) as [E|L|G]; try discriminate.
    intros H. apply IH in H. apply N_of_ascii_inj in E. congruence.
  - intros [= -> ->]. rewrite N.compare_refl. now apply IH.
Qed.

Lemma bytes_cmp_refl a : bytes_cmp a a = Eq.
Proof. now apply bytes_cmp_eq. Qed.

Lemma bytes_cmp_antisym a b : bytes_cmp b a = CompOpp (bytes_cmp a b).
Proof.
  revert b; induction a as [|x a IH]; destruct b as [|y b]; simpl; auto.
  rewrite (N.compare_antisym (N_of_ascii x) (N_of_ascii y)).
  destruct (N_of_ascii x ?= N_of_ascii y); simpl; auto.
Qed.

Lemma bytes_cmp_lt_gt a b : bytes_cmp a b = Lt <-> bytes_cmp b a = Gt.
Proof. rewrite (bytes_cmp_antisym a b). destruct (bytes_cmp a b); simpl; split; congruence. Qed.

Lemma bytes_cmp_lt_trans a b c : bytes_cmp a b = Lt -> bytes_cmp b c = Lt -> bytes_cmp a c = Lt.
Proof.
  revert b c; induction a as [|x a IH]; destruct b as [|y b]; destruct c as [|z c]; simpl; try discriminate; auto.
  destruct (N.compare_spec (N_of_ascii x) (N_of_ascii y)) as [E|L|G]; try discriminate;
  destruct (N.compare_spec (N_of_ascii y) (N_of_ascii z)) as [E'|L'|G']; try discriminate; intros H1 H2.
  - rewrite E, E', N.compare_refl. eauto.
  - rewrite E. now apply N.compare_lt_iff in L' as ->.
  - rewrite <- E'. now apply N.compare_lt_iff in L as ->.
  - assert (N_of_ascii x < N_of_ascii z) as L'' by lia. now apply N.compare_lt_iff in L'' as ->.
Qed.

Lemma bytes_cmp_lt_irrefl a : bytes_cmp a a <> Lt.
Proof. rewrite bytes_cmp_refl. discriminate. Qed.

Lemma bytes_eqb_cmp a b : bytes_eqb a b = match bytes_cmp a b with Eq => true | _ => false end.
Proof.
  destruct (bytes_cmp a b) eqn:E.
  - apply bytes_cmp_eq in E as ->. apply bytes_eqb_refl.
  - apply bytes_eqb_neq. intros ->. rewrite bytes_cmp_refl in E. discriminate.
  - apply bytes_eqb_neq. intros ->. rewrite bytes_cmp_refl in E. discriminate.
Qed.

Lemma bytes_cmp_app_prefix p x y : bytes_cmp (p ++ x) (p ++ y) = bytes_cmp x y.
Proof. induction p as [|c p IH]; simpl; auto. now rewrite N.compare_refl. Qed.

(** lexicographic composition for equal-length heads *)
Lemma bytes_cmp_app_len x x' y y' :
  length x = length x' ->
  bytes_cmp (x ++ y) (x' ++ y') = match bytes_cmp x x' with Eq => bytes_cmp y y' | c => c end.
Proof.
  revert x'; induction x as [|a x IH]; destruct x' as [|a' x']; simpl; try discriminate; auto.
  intros [= L]. destruct (N_of_ascii a ?= N_of_ascii a'); auto.
Qed.

Definition key_lt (a b : bytes) : Prop := bytes_cmp a b = Lt.

Section KVFacts.
Context {V : Type}.
Notation Store := (@Store V).

Definition keys (s : Store) : list bytes := map fst s.
Definition sorted (s : Store) : Prop := StronglySorted key_lt (keys s).

(** ** get / set / delete *)

Lemma kv_get_set_same (s : Store) k v : kv_get (kv_set s k v) k = Some v.
Proof.
  induction s as [|[k' v'] s IH]; simpl.
  - now rewrite bytes_eqb_refl.
  - destruct (bytes_cmp k k') eqn:E; simpl.
    + now rewrite bytes_eqb_refl.
    + now rewrite bytes_eqb_refl.
    + rewrite bytes_eqb_cmp, E. exact IH.
Qed.

Lemma kv_get_set_other (s : Store) k v k2 : k2 <> k -> kv_get (kv_set s k v) k2 = kv_get s k2.
Proof.
  intros NE. induction s as [|[k' v'] s IH]; simpl.
  - apply bytes_eqb_neq in NE. now rewrite NE.
  - destruct (bytes_cmp k k') eqn:E; simpl.
    + apply bytes_cmp_eq in E as <-. apply bytes_eqb_neq in NE. now rewrite NE.
    + apply bytes_eqb_neq in NE. now rewrite NE.
    + now rewrite IH.
Qed.

Lemma kv_get_del_same (s : Store) k : kv_get (kv_del s k) k = None.
Proof.
  unfold kv_del. induction s as [|[k' v'] s IH]; simpl; auto.
  destruct (bytes_eqb k' k) eqn:E; simpl; auto.
  assert (bytes_eqb k k' = false) as -> by (apply bytes_eqb_neq; apply bytes_eqb_neq in E; congruence). exact IH.
Qed.

Lemma kv_get_del_other (s : Store) k k2 : k2 <> k -> kv_get (kv_del s k) k2 = kv_get s k2.
Proof.
  intros NE. unfold kv_del. induction s as [|[k' v'] s IH]; simpl; auto.
  destruct (bytes_eqb k' k) eqn:E; simpl.
  - apply bytes_eqb_eq in E as ->. apply bytes_eqb_neq in NE. now rewrite NE.
  - now rewrite IH.
Qed.

Lemma kv_get_in (s : Store) k v : kv_get s k = Some v -> In (k, v) s.
Proof.
  induction s as [|[k' v'] s IH]; simpl; [discriminate|].
  destruct (bytes_eqb k k') eqn:E.
  - apply bytes_eqb_eq in E as ->. intros [= ->]. now left.
  - intros H. right. auto.
Qed.

Lemma kv_get_none_notin (s : Store) k : kv_get s k = None -> ~ In k (keys s).
Proof.
  induction s as [|[k' v'] s IH]; simpl; [tauto|].
  destruct (bytes_eqb k k') eqn:E; [discriminate|].
  apply bytes_eqb_neq in E. intros H [->|Hin]; [congruence|]. now apply IH.
Qed.

Lemma kv_get_some_in_keys (s : Store) k v : kv_get s k = Some v -> In k (keys s).
Proof. intros H. apply kv_get_in in H. apply (in_map fst) in H. exact H. Qed.

Lemma in_keys_get (s : Store) k : In k (keys s) -> exists v, kv_get s k = Some v.
Proof.
  induction s as [|[k' v'] s IH]; simpl; [tauto|].
  destruct (bytes_eqb k k') eqn:E; [eauto|].
  apply bytes_eqb_neq in E. intros [->|Hin]; [congruence|auto].
Qed.

(** in a sorted store a binding is found by [kv_get] *)
Lemma sorted_in_get (s : Store) k v : sorted s -> In (k, v) s -> kv_get s k = Some v.
Proof.
  unfold sorted, keys. induction s as [|[k' v'] s IH]; simpl; [tauto|].
  intros Hs. apply StronglySorted_inv in Hs as [Hs Hall].
  intros [[= -> ->]|Hin].
  - now rewrite bytes_eqb_refl.
  - destruct (bytes_eqb k k') eqn:E; [|auto].
    apply bytes_eqb_eq in E as ->. exfalso.
    rewrite Forall_forall in Hall. specialize (Hall k' (in_map fst _ _ Hin)).
    now apply bytes_cmp_lt_irrefl in Hall.
Qed.

Lemma kv_set_in (s : Store) k v k2 v2 : In (k2, v2) (kv_set s k v) -> (k2 = k /\ v2 = v) \/ In (k2, v2) s.
Proof.
  induction s as [|[k' v'] s IH]; simpl.
  - intros [[= <- <-]|[]]. auto.
  - destruct (bytes_cmp k k'); simpl.
    + intros [[= <- <-]|H]; auto.
    + intros [[= <- <-]|H]; auto.
    + intros [H|H]; auto. destruct (IH H); auto.
Qed.

Lemma kv_set_keys (s : Store) k v k2 : In k2 (keys (kv_set s k v)) -> k2 = k \/ In k2 (keys s).
Proof.
  unfold keys. intros H. apply in_map_iff in H as [[a b] [<- H]]. apply kv_set_in in H as [[-> _]|H]; auto.
  right. apply (in_map fst) in H. exact H.
Qed.

Lemma kv_del_in (s : Store) k k2 v2 : In (k2, v2) (kv_del s k) <-> In (k2, v2) s /\ k2 <> k.
Proof.
  unfold kv_del. rewrite filter_In. simpl. rewrite negb_true_iff, bytes_eqb_neq. tauto.
Qed.

Lemma sorted_set (s : Store) k v : sorted s -> sorted (kv_set s k v).
Proof.
  unfold sorted, keys. induction s as [|[k' v'] s IH]; simpl; intros Hs.
  - constructor; constructor.
  - destruct (bytes_cmp k k') eqn:E; simpl.
    + apply bytes_cmp_eq in E as ->. exact Hs.
    + constructor; [exact Hs|]. constructor; [exact E|].
      apply StronglySorted_inv in Hs as [_ Hall]. eapply Forall_impl; [|exact Hall].
      intros a Ha. eapply bytes_cmp_lt_trans; eauto.
    + apply StronglySorted_inv in Hs as [Hs Hall]. constructor; [auto|].
      apply Forall_forall. intros x Hx. apply (kv_set_keys s k v) in Hx as [->|Hx].
      * now apply bytes_cmp_lt_gt.
      * rewrite Forall_forall in Hall. auto.
Qed.

Lemma sorted_filter (s : Store) f : sorted s -> sorted (filter f s).
Proof.
  unfold sorted, keys. induction s as [|[k' v'] s IH]; simpl; intros Hs; [constructor|].
  apply StronglySorted_inv in Hs as [Hs Hall].
  destruct (f (k', v')); simpl; [|auto]. constructor; [auto|].
  apply Forall_forall. intros x Hx. apply in_map_iff in Hx as [e [<- He]]. apply filter_In in He as [He _].
  rewrite Forall_forall in Hall. apply Hall. now apply in_map.
Qed.

Lemma sorted_del (s : Store) k : sorted s -> sorted (kv_del s k).
Proof. apply sorted_filter. Qed.

Lemma sorted_range (s : Store) lo hi : sorted s -> sorted (kv_range s lo hi).
Proof. apply sorted_filter. Qed.

Lemma kv_range_in (s : Store) lo hi k v : In (k, v) (kv_range s lo hi) <-> In (k, v) s /\ in_range lo hi k = true.
Proof. unfold kv_range. now rewrite filter_In. Qed.

(** ** the shape of sorted lists *)

Lemma sorted_head_least (s : Store) k v r : sorted ((k, v) :: r) -> forall k' v', In (k', v') r -> key_lt k k'.
Proof.
  unfold sorted, keys. simpl. intros Hs k' v' Hin. apply StronglySorted_inv in Hs as [_ Hall].
  rewrite Forall_forall in Hall. apply Hall. now apply (in_map fst) in Hin.
Qed.

Lemma sorted_tail (e : bytes * V) (r : Store) : sorted (e :: r) -> sorted r.
Proof. unfold sorted, keys. simpl. intros Hs. now apply StronglySorted_inv in Hs. Qed.

Lemma sorted_last_greatest (l : Store) k v : sorted (l ++ [(k, v)]) -> forall k' v', In (k', v') l -> key_lt k' k.
Proof.
  unfold sorted, keys. induction l as [|[a b] l IH]; simpl; [tauto|].
  intros Hs k' v' [[= -> ->]|Hin].
  - apply StronglySorted_inv in Hs as [_ Hall]. rewrite Forall_forall in Hall. apply Hall.
    rewrite map_app. apply in_or_app. right. now left.
  - apply StronglySorted_inv in Hs as [Hs _]. eapply IH; eauto.
Qed.

End KVFacts.

(** ** the prefix range [p, PrefixEndBytes p) is exactly the keys with prefix p (p ending in a byte below 0xff) *)
Lemma in_range_prefix_last q c k :
  N_of_ascii c < 255 ->
  in_range (q ++ [c]) (Some (q ++ [ascii_of_N (N_of_ascii c + 1)])) k = is_prefix (q ++ [c]) k.
Proof.
  intros Hc. unfold in_range. revert k. induction q as [|x q IH]; intros k; simpl.
  - destruct k as [|y k]; simpl; [reflexivity|].
    rewrite N_ascii_embedding by lia.
    destruct (N.compare_spec (N_of_ascii c) (N_of_ascii y)) as [E|L|G].
    + apply N_of_ascii_inj in E as <-. rewrite Ascii.eqb_refl. simpl.
      assert (N_of_ascii c ?= N_of_ascii c + 1 = Lt) as -> by (apply N.compare_lt_iff; lia).
      destruct k; reflexivity.
    + assert (Ascii.eqb c y = false) as -> by (apply Ascii.eqb_neq; intros ->; lia). simpl.
      destruct (N.compare_spec (N_of_ascii y) (N_of_ascii c + 1)) as [E'|L'|G']; try reflexivity; try lia.
      destruct k; reflexivity.
    + assert (Ascii.eqb c y = false) as -> by (apply Ascii.eqb_neq; intros ->; lia). reflexivity.
  - destruct k as [|y k]; simpl; [reflexivity|].
    destruct (N.compare_spec (N_of_ascii x) (N_of_ascii y)) as [E|L|G].
    + apply N_of_ascii_inj in E as <-. rewrite Ascii.eqb_refl, N.compare_refl. simpl. apply IH.
    + assert (Ascii.eqb x y = false) as -> by (apply Ascii.eqb_neq; intros ->; lia). simpl.
      assert (N_of_ascii y ?= N_of_ascii x = Gt) as -> by (apply N.compare_gt_iff; lia). reflexivity.
    + assert (Ascii.eqb x y = false) as -> by (apply Ascii.eqb_neq; intros ->; lia). reflexivity.
Qed.
