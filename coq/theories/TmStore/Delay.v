(** C19 — delay periods.
    modules/core/03-connection/keeper/verify.go:getBlockDelay
    modules/light-clients/07-tendermint/client_state.go:verifyDelayPeriodPassed
    (the code as it is after the two `fix:` commits: integer ceiling division, overflow-safe sums). *)
From IBC Require Import Lib.Bytes Lib.Dec Core.Height.
Local Open Scope N_scope.

(** getBlockDelay: uint64 arithmetic.
      if expectedTimePerBlock == 0 { return 0 }
      blockDelay := timeDelay / expectedTimePerBlock
      if timeDelay%expectedTimePerBlock != 0 { blockDelay++ }       (++ wraps modulo 2^64 in Go) *)
Definition block_delay (d p : N) : N :=
  if p =? 0 then 0
  else let q := d / p in
       if negb (d mod p =? 0) then (q + 1) mod two64 else q.

(** verifyDelayPeriodPassed.  [ptime]/[pheight] are the results of GetProcessedTime / GetProcessedHeight for
    the proof height (None = not found), [now] = uint64(ctx.BlockTime().UnixNano()), [self] = GetSelfHeight(ctx).
    The metadata is looked up only when the corresponding delay is non-zero; the time check comes first. *)
Inductive DelayRes := DelayOk | ErrNoProcessedTime | ErrNoProcessedHeight | ErrDelayNotPassed.

Definition delay_time_check (ptime : option N) (now dt : N) : DelayRes :=
  if negb (dt =? 0) then
    match ptime with
    | None => ErrNoProcessedTime
    | Some pt =>
        let valid := (pt + dt) mod two64 in             (* validTime := processedTime + delayTimePeriod *)
        if (valid <? pt) || (now <? valid) then ErrDelayNotPassed else DelayOk
    end
  else DelayOk.

Definition delay_block_check (pheight : option Height) (self : Height) (db : N) : DelayRes :=
  if negb (db =? 0) then
    match pheight with
    | None => ErrNoProcessedHeight
    | Some ph =>
        let valid := mkH (rev ph) ((ht ph + db) mod two64) in
        if (ht valid <? ht ph) || h_lt self valid then ErrDelayNotPassed else DelayOk
    end
  else DelayOk.

Definition verify_delay (ptime : option N) (pheight : option Height) (now : N) (self : Height) (dt db : N) : DelayRes :=
  match delay_time_check ptime now dt with
  | DelayOk => delay_block_check pheight self db
  | e => e
  end.

Definition delay_ok (r : DelayRes) : bool := match r with DelayOk => true | _ => false end.
