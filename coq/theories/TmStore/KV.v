(** A KV store as the SDK presents it to the light client: a finite map from byte-string keys to values with
    ORDERED iteration (bytes.Compare order).  Representation: association list kept sorted by [bytes_cmp].
    store/types: Get/Set/Delete/Iterator(start,end)/ReverseIterator(start,end), PrefixEndBytes,
    KVStorePrefixIterator; store/prefix: Store.Iterator/ReverseIterator. *)
From IBC Require Import Lib.Bytes Lib.BE64.
Local Open Scope N_scope.

Section KV.
Context {V : Type}.

Definition Store := list (bytes * V).

Fixpoint kv_get (s : Store) (k : bytes) : option V :=
  match s with
  | [] => None
  | (k', v) :: s' => if bytes_eqb k k' then Some v else kv_get s' k
  end.

(** Set: insert at the sorted position, replacing an existing binding *)
Fixpoint kv_set (s : Store) (k : bytes) (v : V) : Store :=
  match s with
  | [] => [(k, v)]
  | (k', v') :: s' =>
      match bytes_cmp k k' with
      | Lt => (k, v) :: (k', v') :: s'
      | Eq => (k, v) :: s'
      | Gt => (k', v') :: kv_set s' k v
      end
  end.

Definition kv_del (s : Store) (k : bytes) : Store :=
  filter (fun e => negb (bytes_eqb (fst e) k)) s.

(** Iterator(start, end): start inclusive, end exclusive; [hi = None] is Go's nil end (unbounded).
    An empty start is below every key, so nil start = []. *)
Definition in_range (lo : bytes) (hi : option bytes) (k : bytes) : bool :=
  match bytes_cmp lo k with
  | Gt => false
  | _ => match hi with
         | None => true
         | Some h => match bytes_cmp k h with Lt => true | _ => false end
         end
  end.

Definition kv_range (s : Store) (lo : bytes) (hi : option bytes) : Store :=
  filter (fun e => in_range lo hi (fst e)) s.

Definition kv_range_rev (s : Store) (lo : bytes) (hi : option bytes) : Store := rev (kv_range s lo hi).

End KV.

(** PrefixEndBytes: drop trailing 0xff bytes, increment the last remaining byte; nil (None) when nothing remains *)
Fixpoint prefix_end_rev (r : bytes) : option bytes :=      (* argument: the prefix reversed *)
  match r with
  | [] => None
  | c :: r' => if (N_of_ascii c =? 255) then prefix_end_rev r'
               else Some (rev (ascii_of_N (N_of_ascii c + 1) :: r'))
  end.
Definition prefix_end (p : bytes) : option bytes := prefix_end_rev (rev p).

(** KVStorePrefixIterator(store, p) = store.Iterator(p, PrefixEndBytes(p)) *)
Definition kv_prefix_iter {V} (s : @Store V) (p : bytes) : Store := kv_range s p (prefix_end p).
(** prefix.NewStore(store, p).Iterator(start, nil) = store.Iterator(p ++ start, cpIncr(p)); keys still carry p here *)
Definition kv_prefix_iter_from {V} (s : @Store V) (p start : bytes) : Store := kv_range s (p ++ start) (prefix_end p).
(** prefix.NewStore(store, p).ReverseIterator(nil, end) = store.ReverseIterator(p, p ++ end) *)
Definition kv_prefix_rev_iter_to {V} (s : @Store V) (p e : bytes) : Store := kv_range_rev s p (Some (p ++ e)).
