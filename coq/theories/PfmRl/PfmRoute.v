(** C43 — whole routes of arbitrary length: all-or-nothing and conservation, by induction over the nesting of the
    forward memo, using the per-chain theorems of PfmFacts.v.  The executable definitions of Pfm.v ([rstep], [relay],
    [route_run]) are untouched; [relay]'s anonymous inner loop is given a name here and proved equal ([relay_cons]). *)
From IBC Require Import Lib.Bytes Lib.CorrLib PfmRl.Pfm PfmRl.PfmFacts.
Local Open Scope Z_scope.

(** * worlds *)
Lemma wupd_same w c cs : wupd w c cs c = cs.
Proof. unfold wupd. rewrite N.eqb_refl. reflexivity. Qed.
Lemma wupd_other w c cs x : x <> c -> wupd w c cs x = w x.
Proof. intros H. unfold wupd. destruct (N.eqb_spec x c); [contradiction|reflexivity]. Qed.

(** * [relay] with its inner loop named *)
Section Loop.
  Variable peer : Peer.
  Variable K : World -> N -> N -> N -> World.     (* relaying of the forwarded packet: [relay peer hs'] *)

  (** the world just before the acknowledgement of (c, ch, seq) is relayed back to [c] *)
  Definition after_deliver (w : World) (c ch seq : N) : World :=
    let d := peer c ch in
    let w1 := fst (rstep peer w (RRecv (fst d) (snd d) seq)) in
    match ackd (w1 (fst d)) (snd d) seq with
    | Some _ => w1
    | None =>
        match com (w c) ch seq with
        | Some p =>
            match k_memo p with
            | MFwd _ fch _ _ => K w1 (fst d) fch (nseq (w (fst d)) fch)
            | MNone => w1
            end
        | None => w1
        end
    end.

  Definition deliver (w : World) (c ch seq : N) : World :=
    let d := peer c ch in
    let w1 := fst (rstep peer w (RRecv (fst d) (snd d) seq)) in
    match ackd (w1 (fst d)) (snd d) seq with
    | Some _ => fst (rstep peer w1 (RAck c ch seq))
    | None =>
        match com (w c) ch seq with
        | Some p =>
            match k_memo p with
            | MFwd _ fch _ _ => fst (rstep peer (K w1 (fst d) fch (nseq (w (fst d)) fch)) (RAck c ch seq))
            | MNone => w1
            end
        | None => w1
        end
    end.

  Fixpoint attempts (c ch : N) (k : nat) (w : World) (seq : N) : World :=
    match k with
    | S k' =>
        let s' := nseq (w c) ch in
        let w1 := fst (rstep peer w (RTimeout c ch seq)) in
        if (nseq (w1 c) ch =? s')%N then w1 else attempts c ch k' w1 s'
    | O => deliver w c ch seq
    end.
End Loop.

Lemma relay_cons peer h hs w c ch seq :
  relay peer (h :: hs) w c ch seq = attempts peer (relay peer hs) c ch (h_timeouts h) w seq.
Proof.
  cbn [relay]. generalize (h_timeouts h) as k. intros k. revert w seq.
  induction k as [|k IH]; intros w seq.
  - reflexivity.
  - cbn [attempts]. cbn zeta. destruct (nseq (fst (rstep peer w (RTimeout c ch seq)) c) ch =? nseq (w c) ch)%N; [reflexivity|]. apply IH.
Qed.

Lemma relay_nil peer w c ch seq : relay peer [] w c ch seq = w.
Proof. reflexivity. Qed.

(** * routes *)
Fixpoint depth (m : Memo) : nat := match m with MNone => O | MFwd _ _ _ next => S (depth next) end.

(** the chains a packet sent from [c] over [ch] with memo [m] visits *)
Fixpoint route_chains (peer : Peer) (c ch : N) (m : Memo) : list N :=
  let dc := fst (peer c ch) in
  dc :: match m with MNone => [] | MFwd _ fch _ next => route_chains peer dc fch next end.

Definition recvd (cs : CS) (ch seq : N) : CS := set_rcpt cs (upd_nn (rcpt cs) ch seq true).

(** What the route needs from the world it runs in.  [up]: the chains already on the route (the line does not come
    back); [lo]: from this sequence on the destination has neither receipt nor acknowledgement (the packet, and its
    retries, are new); on a forwarding chain: forward channel <> incoming channel, the denomination guard
    [denom_ok], non-negative balances, no stale in-flight record.  The final receiver is not the escrow account of
    the last channel. *)
Fixpoint route_pre (peer : Peer) (w : World) (up : list N) (c ch lo : N) (d : Denom) (m : Memo) (recv : option Acct) : Prop :=
  let dc := fst (peer c ch) in
  let dch := snd (peer c ch) in
  ~ In dc up /\ peer dc dch = (c, ch) /\
  (forall s', (lo <= s')%N -> rcpt (w dc) dch s' = false /\ ackd (w dc) dch s' = None) /\
  match m with
  | MNone => match recv with Some a => a <> AEscrow dch | None => True end
  | MFwd r fch retries next =>
      dch <> fch /\ ~ (has_prefix d ch = true /\ has_prefix (drop_hop d) dch = true) /\
      (forall a d', 0 <= bal (w dc) a d') /\
      (forall s', (nseq (w dc) fch <= s')%N -> infl (w dc) fch s' = None) /\
      route_pre peer w (dc :: up) dc fch (nseq (w dc) fch) (recv_denom dch ch d) next r
  end.

(** the packet of one hop, up to its sequence number *)
Definition hop_packet (ch dch seq : N) (d : Denom) (amt : Z) (sender : Acct) (recv : option Acct) (m : Memo) : Packet :=
  mkP ch dch seq d amt sender recv m.

(** the successful outcome downstream of [c]: every forwarding chain's bank state is "ICS-20 receive into the override
    account, ICS-20 send from it" ([fwd_bse]), its override account and in-flight records are as before; the final
    receiver holds [amt] more of the denomination ICS-20 credits there *)
Fixpoint down_ok (peer : Peer) (w w' : World) (c ch : N) (d : Denom) (amt : Z) (sender : Acct) (recv : option Acct) (m : Memo) : Prop :=
  let dc := fst (peer c ch) in
  let dch := snd (peer c ch) in
  (forall c' s, infl (w' dc) c' s = infl (w dc) c' s) /\
  match m with
  | MNone =>
      exists a, recv = Some a /\
        bal (w' dc) a (recv_denom dch ch d) = bal (w dc) a (recv_denom dch ch d) + amt
  | MFwd r fch retries next =>
      (exists css, fwd_bse (w dc) (hop_packet ch dch 0 d amt sender recv m) fch = Some css /\ bse_eq (w' dc) css) /\
      (forall d', bal (w' dc) (AOverride dch sender) d' = bal (w dc) (AOverride dch sender) d') /\
      down_ok peer w w' dc fch (recv_denom dch ch d) amt (AOverride dch sender) r next
  end.

Lemma route_pre_ext peer w w' : forall m up c ch lo d recv,
  (forall x, ~ In x up -> w' x = w x) -> route_pre peer w up c ch lo d m recv -> route_pre peer w' up c ch lo d m recv.
Proof.
  induction m as [|r fch retries next IH]; intros up c ch lo d recv Hext; cbn [route_pre]; intros (H1 & H2 & H3 & H4).
  - rewrite (Hext _ H1). auto.
  - rewrite (Hext _ H1). destruct H4 as (G1 & G2 & G3 & G4 & G5). repeat split; auto; try apply H3; auto.
    apply IH; auto. intros x Hx. apply Hext. intros Hin. apply Hx. right; auto.
Qed.

Lemma route_chains_notin peer w : forall m up c ch lo d recv,
  route_pre peer w up c ch lo d m recv -> forall x, In x (route_chains peer c ch m) -> ~ In x up.
Proof.
  induction m as [|r fch retries next IH]; intros up c ch lo d recv; cbn [route_pre route_chains]; intros (H1 & H2 & H3 & H4) x [Hx|Hx].
  - subst; auto.
  - destruct Hx.
  - subst; auto.
  - destruct H4 as (_ & _ & _ & _ & G5). intros Hin. apply (IH _ _ _ _ _ _ G5 x Hx). right; auto.
Qed.

Lemma down_ok_ext peer w1 w1' w2 w2' : forall m c ch d amt sender recv,
  (forall x, In x (route_chains peer c ch m) -> w2 x = w1 x) ->
  (forall x, In x (route_chains peer c ch m) -> w2' x = w1' x) ->
  down_ok peer w1 w1' c ch d amt sender recv m -> down_ok peer w2 w2' c ch d amt sender recv m.
Proof.
  induction m as [|r fch retries next IH]; intros c ch d amt sender recv E1 E2; cbn [down_ok route_chains] in *.
  - rewrite (E1 _ (or_introl eq_refl)), (E2 _ (or_introl eq_refl)). auto.
  - rewrite (E1 _ (or_introl eq_refl)), (E2 _ (or_introl eq_refl)). intros (A & B & C & D). repeat split; auto.
    apply IH; auto; intros x Hx; [apply E1|apply E2]; right; auto.
Qed.

Lemma down_ok_infl peer w w' : forall m c ch d amt sender recv,
  down_ok peer w w' c ch d amt sender recv m ->
  forall e, In e (route_chains peer c ch m) -> forall c' s, infl (w' e) c' s = infl (w e) c' s.
Proof.
  induction m as [|r fch retries next IH]; intros c ch d amt sender recv; cbn [down_ok route_chains]; intros (A & B) e [He|He].
  - subst. auto.
  - destruct He.
  - subst. auto.
  - destruct B as (_ & _ & D). eapply IH; eauto.
Qed.

(** * single relayer steps *)
Lemma recv_step peer w c ch seq dc dch P :
  peer c ch = (dc, dch) -> peer dc dch = (c, ch) -> com (w c) ch seq = Some P -> rcpt (w dc) dch seq = false ->
  let r := pfm_on_recv (fun ch' => snd (peer dc ch')) (recvd (w dc) dch seq) P in
  fst (rstep peer w (RRecv dc dch seq)) =
    wupd w dc (match snd r with Some b => write_ack (fst r) dch seq b | None => fst r end).
Proof.
  intros Hp Hq Hc Hr. cbn [rstep]. rewrite Hq. cbn [fst snd]. rewrite Hc, Hr. reflexivity.
Qed.

Lemma ack_step peer w c ch seq dc dch P ok cs :
  peer c ch = (dc, dch) -> com (w c) ch seq = Some P -> ackd (w dc) dch seq = Some ok ->
  pfm_on_ack (set_com (w c) (upd_nn (com (w c)) ch seq None)) P ok = Some cs ->
  fst (rstep peer w (RAck c ch seq)) = wupd w c cs.
Proof.
  intros Hp Hc Ha Hk. cbn [rstep]. rewrite Hc, Hp. cbn [fst snd]. rewrite Ha, Hk. reflexivity.
Qed.

Lemma timeout_step peer w c ch seq dc dch P cs :
  peer c ch = (dc, dch) -> com (w c) ch seq = Some P -> rcpt (w dc) dch seq = false ->
  pfm_on_timeout (fun ch' => snd (peer c ch')) (set_com (w c) (upd_nn (com (w c)) ch seq None)) P = Some cs ->
  fst (rstep peer w (RTimeout c ch seq)) = wupd w c cs.
Proof.
  intros Hp Hc Hr Hk. cbn [rstep]. rewrite Hc, Hp. cbn [fst snd]. rewrite Hr, Hk. reflexivity.
Qed.

(** a forward memo never yields a synchronous success *)
Lemma pfm_on_recv_fwd_cases dst_of cs P r fch retries next :
  k_memo P = MFwd r fch retries next ->
  pfm_on_recv dst_of cs P = (cs, Some false) \/ exists cs1, pfm_on_recv dst_of cs P = (cs1, None).
Proof.
  intros Hm. unfold pfm_on_recv. rewrite Hm.
  destruct (ics_recv cs P _); [|left; reflexivity].
  destruct (do_transfer _ _ _ _ _ _ _ _) as [[cs2 s]|]; [right; eexists; reflexivity|left; reflexivity].
Qed.

Lemma ledger_eq_recvd_ack cs ch seq b : ledger_eq (write_ack (recvd cs ch seq) ch seq b) cs.
Proof. repeat split; intros; reflexivity. Qed.
Lemma ledger_eq_recvd cs ch seq cs2 : ledger_eq cs2 (recvd cs ch seq) -> ledger_eq cs2 cs.
Proof. intros (A & B & C & D). repeat split; auto. Qed.

(** * the handlers on a chain that is in the [forwarded] situation *)
Lemma forwarded_infl cs0 pin ch cs1 seq z :
  forwarded cs0 pin ch cs1 seq z -> infl cs1 ch seq = Some (mkI (k_dst_ch pin) (k_seq pin) z).
Proof. intros (css & _ & _ & Hi & _). rewrite Hi, !N.eqb_refl. reflexivity. Qed.

Lemma timeout_giveup dst_of cs0 pin r ch next cs1 seq z f :
  k_dst_ch pin <> ch -> denom_ok pin -> (forall a d, 0 <= bal cs0 a d) -> infl cs0 ch seq = None ->
  forwarded cs0 pin ch cs1 seq z -> z <= 0 ->
  exists cs2, pfm_on_timeout dst_of (set_com cs1 f) (fwd_packet dst_of pin r ch seq next) = Some cs2 /\
    ledger_eq cs2 cs0 /\ ackd cs2 (k_dst_ch pin) (k_seq pin) = Some false /\ nseq cs2 = nseq cs1.
Proof.
  intros Hne Hok Hnn Hinfl Hfw Hz.
  destruct (forwarded_fail cs0 pin ch cs1 seq z f (fwd_packet dst_of pin r ch seq next) z Hne Hok Hnn Hinfl Hfw eq_refl eq_refl eq_refl)
    as (cs2 & E & L & A & Nq & _).
  exists cs2. split; [|auto].
  unfold pfm_on_timeout. cbn [fwd_packet k_src_ch k_seq]. cbn [infl set_com]. rewrite (forwarded_infl _ _ _ _ _ _ Hfw). cbn [i_retries].
  destruct (Z.leb_spec z 0) as [_|]; [|lia]. exact E.
Qed.

Lemma ack_fail_forwarded dst_of cs0 pin r ch next cs1 seq z f :
  k_dst_ch pin <> ch -> denom_ok pin -> (forall a d, 0 <= bal cs0 a d) -> infl cs0 ch seq = None ->
  forwarded cs0 pin ch cs1 seq z ->
  exists cs2, pfm_on_ack (set_com cs1 f) (fwd_packet dst_of pin r ch seq next) false = Some cs2 /\
    ledger_eq cs2 cs0 /\ ackd cs2 (k_dst_ch pin) (k_seq pin) = Some false.
Proof.
  intros Hne Hok Hnn Hinfl Hfw.
  destruct (forwarded_fail cs0 pin ch cs1 seq z f (fwd_packet dst_of pin r ch seq next) z Hne Hok Hnn Hinfl Hfw eq_refl eq_refl eq_refl)
    as (cs2 & E & L & A & _).
  exists cs2. split; [|auto].
  unfold pfm_on_ack. cbn [fwd_packet k_src_ch k_seq]. cbn [infl set_com]. rewrite (forwarded_infl _ _ _ _ _ _ Hfw). exact E.
Qed.

Lemma ack_ok_forwarded dst_of cs0 pin r ch next cs1 seq z f :
  k_dst_ch pin <> ch -> (forall a d, 0 <= bal cs0 a d) -> infl cs0 ch seq = None ->
  forwarded cs0 pin ch cs1 seq z ->
  exists cs2 css, pfm_on_ack (set_com cs1 f) (fwd_packet dst_of pin r ch seq next) true = Some cs2 /\
    fwd_bse cs0 pin ch = Some css /\ bse_eq cs2 css /\
    (forall d, bal cs2 (AOverride (k_dst_ch pin) (k_sender pin)) d = bal cs0 (AOverride (k_dst_ch pin) (k_sender pin)) d) /\
    (forall c s', infl cs2 c s' = infl cs0 c s') /\ ackd cs2 (k_dst_ch pin) (k_seq pin) = Some true.
Proof.
  intros Hne Hnn Hinfl Hfw.
  destruct (forwarded_success cs0 pin ch cs1 seq z f (fwd_packet dst_of pin r ch seq next) Hinfl Hfw eq_refl eq_refl)
    as (css & Hf & E & B & I & A).
  eexists. exists css. split; [exact E|]. split; [exact Hf|]. split; [exact B|]. split; [|split; [exact I|exact A]].
  intros d. rewrite (proj1 B). apply (fwd_bse_override_unchanged cs0 pin ch css Hne Hnn Hf).
Qed.

(** * the timeout/retry loop on a forwarding chain *)
Section InterLoop.
  Variable peer : Peer.
  Variable K : World -> N -> N -> N -> World.
  Variables (c ch dc dch : N) (cs0 : CS) (pin : Packet) (r : option Acct) (next : Memo) (wb : World).
  Let dst_of : N -> N := fun ch' => snd (peer c ch').

  (** chain [c] has forwarded [pin] through [ch]; the forwarded packet is committed under [seq] with [z] retries left;
      every other chain is as in the base world [wb] *)
  Definition SrcI (w : World) (seq : N) (z : Z) : Prop :=
    (forall x, x <> c -> w x = wb x) /\
    forwarded cs0 pin ch (w c) seq z /\
    com (w c) ch seq = Some (fwd_packet dst_of pin r ch seq next) /\
    nseq (w c) ch = N.succ seq /\ (nseq cs0 ch <= seq)%N.

  Hypothesis Hne : k_dst_ch pin <> ch.
  Hypothesis Hok : denom_ok pin.
  Hypothesis Hnn : forall a d, 0 <= bal cs0 a d.
  Hypothesis Hfresh : forall s', (nseq cs0 ch <= s')%N -> infl cs0 ch s' = None.
  Hypothesis Hpeer : peer c ch = (dc, dch).
  Hypothesis Hdc : dc <> c.
  Hypothesis Hdest : forall s', (nseq cs0 ch <= s')%N -> rcpt (wb dc) dch s' = false.

  Variable Q : World -> Prop.
  (** the loop ends either by giving up: [c]'s ledger is back at [cs0], an error acknowledgement is written for [pin] *)
  Hypothesis Hgive : forall w' , (forall x, x <> c -> w' x = wb x) -> ledger_eq (w' c) cs0 ->
                                 ackd (w' c) (k_dst_ch pin) (k_seq pin) = Some false -> Q w'.
  (** or by delivering the (possibly retried) packet *)
  Hypothesis Hdel : forall w' seq' z', SrcI w' seq' z' -> Q (deliver peer K w' c ch seq').

  Lemma attempts_inter : forall k w seq z, SrcI w seq z -> Q (attempts peer K c ch k w seq).
  Proof.
    induction k as [|k IH]; intros w seq z HS.
    - cbn [attempts]. eapply Hdel; eauto.
    - cbn [attempts]. cbn zeta. destruct HS as (Hoth & Hfw & Hcom & Hns & Hle).
      assert (Hr : rcpt (w dc) dch seq = false) by (rewrite (Hoth dc Hdc); apply Hdest; auto).
      destruct (Z_le_gt_dec z 0) as [Hz|Hz].
      + destruct (timeout_giveup dst_of cs0 pin r ch next (w c) seq z (upd_nn (com (w c)) ch seq None) Hne Hok Hnn (Hfresh seq Hle) Hfw Hz)
          as (cs2 & E & L & A & Nq).
        rewrite (timeout_step peer w c ch seq dc dch _ cs2 Hpeer Hcom Hr E).
        rewrite wupd_same, Nq. cbn [nseq set_com]. rewrite N.eqb_refl.
        apply Hgive.
        * intros x Hx. rewrite wupd_other by auto. auto.
        * rewrite wupd_same. auto.
        * rewrite wupd_same. auto.
      + destruct (forwarded_retry dst_of cs0 pin r ch next (w c) seq z (upd_nn (com (w c)) ch seq None) Hne Hnn (Hfresh seq Hle) Hfw ltac:(lia))
          as (cs3 & E & Hfw3 & Hcom3 & _ & Hns3 & _).
        cbn zeta in E, Hfw3, Hcom3, Hns3.
        rewrite (timeout_step peer w c ch seq dc dch _ cs3 Hpeer Hcom Hr E).
        rewrite wupd_same, Hns3.
        destruct (N.eqb_spec (N.succ (nseq (w c) ch)) (nseq (w c) ch)) as [Hbad|_]; [lia|].
        apply (IH _ _ (z - 1)). split; [|split; [|split; [|split]]].
        * intros x Hx. rewrite wupd_other by auto. auto.
        * rewrite wupd_same. exact Hfw3.
        * rewrite wupd_same. exact Hcom3.
        * rewrite wupd_same. exact Hns3.
        * rewrite Hns. lia.
  Qed.
End InterLoop.

(** * delivery *)
Lemma deliver_eq peer K w c ch seq P :
  com (w c) ch seq = Some P ->
  (k_memo P = MNone -> ackd (after_deliver peer K w c ch seq (fst (peer c ch))) (snd (peer c ch)) seq <> None) ->
  deliver peer K w c ch seq = fst (rstep peer (after_deliver peer K w c ch seq) (RAck c ch seq)).
Proof.
  intros Hc Hm. unfold deliver, after_deliver in *. cbn zeta in *.
  destruct (ackd (fst (rstep peer w (RRecv (fst (peer c ch)) (snd (peer c ch)) seq)) (fst (peer c ch))) (snd (peer c ch)) seq) eqn:Ea; [reflexivity|].
  rewrite Hc in *. destruct (k_memo P) eqn:Em; [|reflexivity].
  exfalso. apply Hm; auto.
Qed.

Lemma fwd_bse_recvd cs ch seq P fch css :
  fwd_bse (recvd cs ch seq) P fch = Some css ->
  exists css', fwd_bse cs (hop_packet (k_src_ch P) (k_dst_ch P) 0 (k_denom P) (k_amt P) (k_sender P) (k_recv P) (k_memo P)) fch = Some css' /\
               bse_eq css css'.
Proof.
  unfold fwd_bse, ics_recv, ics_send, send_coins, recvd, hop_packet. cbn [k_src_ch k_dst_ch k_denom k_amt k_sender k_recv k_memo].
  destruct (k_amt P <=? 0); [discriminate|].
  destruct (has_prefix (k_denom P) (k_src_ch P)).
  - cbn [bal set_rcpt]. destruct (bal cs (AEscrow (k_dst_ch P)) (drop_hop (k_denom P)) <? k_amt P); [discriminate|].
    destruct (has_prefix _ fch).
    + cbn [bal add_esc add_bal set_bal set_esc set_rcpt]. destruct (_ <? k_amt P); [discriminate|].
      intros H; inversion H; subst. eexists. split; [reflexivity|]. repeat split; intros; reflexivity.
    + cbn [bal add_esc add_bal set_bal set_esc set_rcpt]. destruct (_ <? k_amt P); [discriminate|].
      intros H; inversion H; subst. eexists. split; [reflexivity|]. repeat split; intros; reflexivity.
  - destruct (has_prefix _ fch).
    + cbn [bal add_sup add_bal set_bal set_sup set_rcpt]. destruct (_ <? k_amt P); [discriminate|].
      intros H; inversion H; subst. eexists. split; [reflexivity|]. repeat split; intros; reflexivity.
    + cbn [bal add_sup add_bal set_bal set_sup set_rcpt]. destruct (_ <? k_amt P); [discriminate|].
      intros H; inversion H; subst. eexists. split; [reflexivity|]. repeat split; intros; reflexivity.
Qed.

Lemma bse_eq_trans a b c : bse_eq a b -> bse_eq b c -> bse_eq a c.
Proof. intros (A1 & A2 & A3) (B1 & B2 & B3). repeat split; intros; congruence. Qed.

(** what holds once the packet (c, ch, seq) has been delivered and everything downstream has come to rest, just before
    its acknowledgement is relayed back to [c]: chains off the downstream route are untouched; the destination holds
    an acknowledgement [b]; [b = false]: every downstream ledger is as before; [b = true]: [down_ok] *)
Definition DeliverSpec (peer : Peer) (w wd : World) (c ch seq : N) (d : Denom) (amt : Z) (sender : Acct)
           (recv : option Acct) (m : Memo) : Prop :=
  (forall x, ~ In x (route_chains peer c ch m) -> wd x = w x) /\
  exists b, ackd (wd (fst (peer c ch))) (snd (peer c ch)) seq = Some b /\
    (b = false -> forall e, In e (route_chains peer c ch m) -> ledger_eq (wd e) (w e)) /\
    (b = true -> down_ok peer w wd c ch d amt sender recv m).

Lemma route_pre_head peer w m up c ch lo d recv :
  route_pre peer w up c ch lo d m recv ->
  ~ In (fst (peer c ch)) up /\ peer (fst (peer c ch)) (snd (peer c ch)) = (c, ch) /\
  (forall s', (lo <= s')%N -> rcpt (w (fst (peer c ch))) (snd (peer c ch)) s' = false /\ ackd (w (fst (peer c ch))) (snd (peer c ch)) s' = None).
Proof. destruct m; cbn [route_pre]; tauto. Qed.

Lemma ackd_write_ack cs ch seq b : ackd (write_ack cs ch seq b) ch seq = Some b.
Proof. cbn [ackd write_ack set_ackd]. unfold upd_nn. rewrite !N.eqb_refl. reflexivity. Qed.

Lemma deliver_last peer K w up c ch lo seq d amt sender recv :
  In c up ->
  com (w c) ch seq = Some (hop_packet ch (snd (peer c ch)) seq d amt sender recv MNone) ->
  route_pre peer w up c ch lo d MNone recv -> (lo <= seq)%N ->
  DeliverSpec peer w (after_deliver peer K w c ch seq) c ch seq d amt sender recv MNone.
Proof.
  intros Hup Hcom Hpre Hlo.
  cbn [route_pre] in Hpre. destruct (peer c ch) as [dc dch] eqn:Hp. cbn [fst snd] in *.
  destruct Hpre as (Hnin & Hq & Hfr & Hrecv). destruct (Hfr seq Hlo) as [Hr Ha].
  assert (Hdc : dc <> c) by (intros ->; auto).
  set (P := hop_packet ch dch seq d amt sender recv MNone) in *.
  assert (Hw1 : exists b cs', fst (rstep peer w (RRecv dc dch seq)) = wupd w dc (write_ack cs' dch seq b) /\
             ((b = false /\ cs' = recvd (w dc) dch seq) \/
              (b = true /\ ics_recv (recvd (w dc) dch seq) P recv = Some cs'))).
  { rewrite (recv_step peer w c ch seq dc dch _ Hp Hq Hcom Hr). cbn zeta. unfold pfm_on_recv. cbn [k_memo k_recv P hop_packet]. fold P.
    destruct (ics_recv (recvd (w dc) dch seq) P recv) as [cs'|] eqn:Er; cbn [fst snd]; [exists true, cs'|exists false, (recvd (w dc) dch seq)]; auto. }
  destruct Hw1 as (b & cs' & Hw1 & Hcase).
  assert (Had : after_deliver peer K w c ch seq = wupd w dc (write_ack cs' dch seq b)).
  { unfold after_deliver. rewrite Hp. cbn [fst snd]. cbn zeta. rewrite Hw1, wupd_same, ackd_write_ack. reflexivity. }
  rewrite Had. unfold DeliverSpec. cbn [route_chains]. rewrite Hp. cbn [fst snd]. split.
  - intros x Hx. apply wupd_other. intros ->. apply Hx. left; auto.
  - exists b. rewrite wupd_same, ackd_write_ack. split; [reflexivity|]. destruct Hcase as [[-> ->]|[-> Er]].
    + split; [|discriminate]. intros _ e [<-|[]]. rewrite wupd_same. apply ledger_eq_recvd_ack.
    + split; [discriminate|]. intros _. cbn [down_ok]. rewrite Hp. cbn [fst snd]. rewrite wupd_same.
      destruct (ics_recv_keeps _ _ _ _ Er) as (I1 & _).
      split; [intros c' s; cbn [infl write_ack set_ackd]; rewrite I1; reflexivity|].
      destruct recv as [a|]; [|discriminate Er]. exists a. split; auto.
      destruct (final_receive_credits (fun ch' => snd (peer dc ch')) (recvd (w dc) dch seq) P a cs' eq_refl eq_refl) as [Hc|[Hpf Hc]].
      { unfold pfm_on_recv. cbn [k_memo k_recv P hop_packet]. fold P. rewrite Er. reflexivity. }
      { cbn [k_dst_ch k_src_ch k_denom k_amt P hop_packet] in Hc. cbn [bal write_ack set_ackd]. rewrite Hc.
        destruct (acct_eqb_spec a (AEscrow dch)); [contradiction|]. reflexivity. }
      { cbn [k_dst_ch k_src_ch k_denom k_amt P hop_packet] in Hc, Hpf. unfold recv_denom. rewrite Hpf. cbn [bal write_ack set_ackd]. exact Hc. }
Qed.

Lemma deliver_fwd peer r fch retries next
  (IH : forall hs w up c ch lo seq d amt sender recv,
      In c up ->
      com (w c) ch seq = Some (hop_packet ch (snd (peer c ch)) seq d amt sender recv next) ->
      route_pre peer w up c ch lo d next recv -> (lo <= seq)%N -> (depth next <= length hs)%nat ->
      DeliverSpec peer w (after_deliver peer (relay peer hs) w c ch seq) c ch seq d amt sender recv next) :
  forall hs w up c ch lo seq d amt sender recv,
    In c up ->
    com (w c) ch seq = Some (hop_packet ch (snd (peer c ch)) seq d amt sender recv (MFwd r fch retries next)) ->
    route_pre peer w up c ch lo d (MFwd r fch retries next) recv -> (lo <= seq)%N ->
    (depth (MFwd r fch retries next) <= length hs)%nat ->
    DeliverSpec peer w (after_deliver peer (relay peer hs) w c ch seq) c ch seq d amt sender recv (MFwd r fch retries next).
Proof.
  intros hs w up c ch lo seq d amt sender recv Hup Hcom Hpre Hlo Hlen.
  cbn [route_pre] in Hpre. destruct (peer c ch) as [dc dch] eqn:Hp. cbn [fst snd] in *.
  destruct Hpre as (Hnin & Hq & Hfr & Hne & Hdok & Hnn & Hfresh & Hpre').
  destruct (Hfr seq Hlo) as [Hr Ha].
  assert (Hdc : dc <> c) by (intros ->; auto).
  set (P := hop_packet ch dch seq d amt sender recv (MFwd r fch retries next)) in *.
  set (cs0 := recvd (w dc) dch seq).
  set (dst_of := fun ch' : N => snd (peer dc ch')).
  pose proof (route_chains_notin peer w next (dc :: up) dc fch _ _ _ Hpre') as Hrc.
  destruct (route_pre_head _ _ _ _ _ _ _ _ _ Hpre') as (Hnin' & Hq' & Hfr').
  destruct (peer dc fch) as [e ech] eqn:Hpe. cbn [fst snd] in *.
  assert (Hedc : e <> dc) by (intros ->; apply Hnin'; left; auto).
  assert (Hw1 : fst (rstep peer w (RRecv dc dch seq)) =
                wupd w dc (match snd (pfm_on_recv dst_of cs0 P) with Some b => write_ack (fst (pfm_on_recv dst_of cs0 P)) dch seq b
                                                                | None => fst (pfm_on_recv dst_of cs0 P) end)).
  { apply (recv_step peer w c ch seq dc dch P Hp Hq Hcom Hr). }
  unfold DeliverSpec. cbn [route_chains]. rewrite Hp. cbn [fst snd].
  destruct (pfm_on_recv_fwd_cases dst_of cs0 P r fch retries next eq_refl) as [Hfail|[cs1 Hasync]].
  - (* the chain answers an error acknowledgement: nothing happened on it *)
    rewrite Hfail in Hw1. cbn [fst snd] in Hw1.
    assert (Had : after_deliver peer (relay peer hs) w c ch seq = wupd w dc (write_ack cs0 dch seq false)).
    { unfold after_deliver. rewrite Hp. cbn [fst snd]. cbn zeta. rewrite Hw1, wupd_same, ackd_write_ack. reflexivity. }
    rewrite Had. split.
    + intros x Hx. apply wupd_other. intros ->. apply Hx. left; auto.
    + exists false. rewrite wupd_same, ackd_write_ack. split; [reflexivity|]. split; [|discriminate]. intros _ x [<-|He].
      * rewrite wupd_same. apply ledger_eq_recvd_ack.
      * rewrite wupd_other; [apply ledger_eq_refl|]. intros ->. apply (Hrc _ He). left; auto.
  - (* forwarded *)
    rewrite Hasync in Hw1. cbn [fst snd] in Hw1.
    destruct (forward_establishes dst_of cs0 P r fch retries next cs1 eq_refl Hasync) as (Hfw & Hcom1 & Hns1 & _ & _ & Hackd1 & _).
    cbn zeta in Hfw, Hcom1, Hns1.
    destruct hs as [|h' hs'']; [cbn in Hlen; lia|]. cbn [depth length] in Hlen.
    assert (Had : after_deliver peer (relay peer (h' :: hs'')) w c ch seq =
                  attempts peer (relay peer hs'') dc fch (h_timeouts h') (wupd w dc cs1) (nseq (w dc) fch)).
    { unfold after_deliver. rewrite Hp. cbn [fst snd]. cbn zeta. rewrite Hw1, wupd_same, Hackd1.
      change (ackd cs0 dch seq) with (ackd (w dc) dch seq). rewrite Ha, Hcom. cbn [k_memo P hop_packet]. apply relay_cons. }
    rewrite Had.
    apply (attempts_inter peer (relay peer hs'') dc fch e ech cs0 P r next (wupd w dc cs1)) with (z := Z.of_N retries).
    + exact Hne.
    + unfold denom_ok. exact Hdok.
    + exact Hnn.
    + exact Hfresh.
    + exact Hpe.
    + exact Hedc.
    + intros s' Hs'. rewrite wupd_other by exact Hedc. apply (Hfr' s' Hs').
    + (* gave up *)
      intros w' Hoth Hled Hack. split.
      * intros x Hx. rewrite Hoth; [apply wupd_other|]; intros ->; apply Hx; left; auto.
      * exists false. split; [exact Hack|]. split; [|discriminate]. intros _ x [<-|He].
        -- apply (ledger_eq_recvd _ dch seq). exact Hled.
        -- assert (x <> dc) by (intros ->; apply (Hrc _ He); left; auto).
           rewrite Hoth, wupd_other by auto. apply ledger_eq_refl.
    + (* delivered further *)
      intros w' seq' z' (Hoth & Hfw' & Hcom' & Hns' & Hle').
      assert (Hw'x : forall x, x <> dc -> w' x = w x) by (intros x Hx; rewrite Hoth, wupd_other by auto; reflexivity).
      assert (HIH : DeliverSpec peer w' (after_deliver peer (relay peer hs'') w' dc fch seq') dc fch seq'
                      (recv_denom dch ch d) amt (AOverride dch sender) r next).
      { apply (IH hs'' w' (dc :: up) dc fch (nseq (w dc) fch) seq').
        - left; auto.
        - rewrite Hcom'. unfold fwd_packet, hop_packet, P. cbn [k_dst_ch k_src_ch k_denom k_amt k_sender hop_packet]. reflexivity.
        - apply (route_pre_ext peer w w'); [|exact Hpre']. intros x Hx. apply Hw'x. intros ->. apply Hx. left; auto.
        - exact Hle'.
        - lia. }
      set (wd2 := after_deliver peer (relay peer hs'') w' dc fch seq') in *.
      destruct HIH as (Hoff & b' & Hb' & Hbf & Hbt). rewrite Hpe in Hb'. cbn [fst snd] in Hb'.
      assert (Hwd2dc : wd2 dc = w' dc).
      { apply Hoff. intros Hin. apply (Hrc _ Hin). left; auto. }
      rewrite (deliver_eq peer (relay peer hs'') w' dc fch seq' _ Hcom').
      2:{ intros _. fold wd2. rewrite Hpe. cbn [fst snd]. rewrite Hb'. discriminate. }
      fold wd2.
      assert (Hcomd : com (wd2 dc) fch seq' = Some (fwd_packet dst_of P r fch seq' next)) by (rewrite Hwd2dc; exact Hcom').
      destruct b'.
      * (* success downstream *)
        destruct (ack_ok_forwarded dst_of cs0 P r fch next (w' dc) seq' z' (upd_nn (com (w' dc)) fch seq' None) Hne Hnn (Hfresh seq' Hle') Hfw')
          as (cs2 & css & E & Hf & Hbse & Hov & Hinf & Hak).
        rewrite <- Hwd2dc in E.
        rewrite (ack_step peer wd2 dc fch seq' e ech _ true cs2 Hpe Hcomd Hb' E).
        split.
        -- intros x Hx. assert (x <> dc) by (intros ->; apply Hx; left; auto).
           rewrite wupd_other, Hoff by (auto; intros Hin; apply Hx; right; auto). apply Hw'x; auto.
        -- exists true. rewrite wupd_same. split; [exact Hak|]. split; [discriminate|]. intros _.
           cbn [down_ok]. rewrite Hp. cbn [fst snd]. rewrite wupd_same.
           split; [exact Hinf|]. split; [|split].
           ++ destruct (fwd_bse_recvd (w dc) dch seq P fch css Hf) as (css' & Hf' & Hb2).
              exists css'. split; [exact Hf'|]. eapply bse_eq_trans; eauto.
           ++ exact Hov.
           ++ apply (down_ok_ext peer w' wd2); [| |apply Hbt; reflexivity].
              ** intros x Hx. symmetry. apply Hw'x. intros ->. apply (Hrc _ Hx). left; auto.
              ** intros x Hx. apply wupd_other. intros ->. apply (Hrc _ Hx). left; auto.
      * (* failure downstream *)
        destruct (ack_fail_forwarded dst_of cs0 P r fch next (w' dc) seq' z' (upd_nn (com (w' dc)) fch seq' None) Hne Hdok Hnn (Hfresh seq' Hle') Hfw')
          as (cs2 & E & Hled & Hak).
        rewrite <- Hwd2dc in E.
        rewrite (ack_step peer wd2 dc fch seq' e ech _ false cs2 Hpe Hcomd Hb' E).
        split.
        -- intros x Hx. assert (x <> dc) by (intros ->; apply Hx; left; auto).
           rewrite wupd_other, Hoff by (auto; intros Hin; apply Hx; right; auto). apply Hw'x; auto.
        -- exists false. rewrite wupd_same. split; [exact Hak|]. split; [|discriminate]. intros _ x [<-|He].
           ++ rewrite wupd_same. apply (ledger_eq_recvd _ dch seq). exact Hled.
           ++ assert (x <> dc) by (intros ->; apply (Hrc _ He); left; auto).
              rewrite wupd_other by auto. rewrite <- (Hw'x x) by auto. apply Hbf; auto.
    + (* the loop starts in the forwarded situation *)
      split; [reflexivity|]. rewrite wupd_same. split; [exact Hfw|]. split; [exact Hcom1|]. split; [exact Hns1|]. apply N.le_refl.
Qed.

Lemma deliver_spec peer : forall m hs w up c ch lo seq d amt sender recv,
  In c up ->
  com (w c) ch seq = Some (hop_packet ch (snd (peer c ch)) seq d amt sender recv m) ->
  route_pre peer w up c ch lo d m recv -> (lo <= seq)%N -> (depth m <= length hs)%nat ->
  DeliverSpec peer w (after_deliver peer (relay peer hs) w c ch seq) c ch seq d amt sender recv m.
Proof.
  induction m as [|r fch retries next IH]; intros hs w up c ch lo seq d amt sender recv Hup Hcom Hpre Hlo Hlen.
  - eapply deliver_last; eauto.
  - eapply deliver_fwd; eauto.
Qed.

(** * the whole route *)
Lemma do_transfer_shape cs dst_ch sender ch d x recv memo cs1 s :
  do_transfer cs dst_ch sender ch d x recv memo = Some (cs1, s) ->
  exists css, ics_send cs sender ch d x = Some css /\ bse_eq cs1 css /\ infl cs1 = infl cs /\
              rcpt cs1 = rcpt cs /\ ackd cs1 = ackd cs.
Proof.
  unfold do_transfer. destruct (negb _); [discriminate|].
  destruct (ics_send cs sender ch d x) as [css|] eqn:E; [|discriminate].
  intros H; inversion H; subst; clear H. exists css. split; auto.
  destruct (ics_send_keeps _ _ _ _ _ _ E) as (I & _).
  split; [repeat split; intros; reflexivity|]. split; [exact I|].
  unfold ics_send, send_coins in E. repeat match type of E with context [if ?c then _ else _] => destruct c end; try discriminate; inversion E; subst; auto.
Qed.

Lemma ics_refund_keeps cs p cs2 : ics_refund cs p = Some cs2 -> nseq cs2 = nseq cs /\ infl cs2 = infl cs.
Proof.
  unfold ics_refund, send_coins. repeat match goal with |- context [if ?c then _ else _] => destruct c end; intros H; try discriminate; inversion H; subst; auto.
Qed.

Lemma pfm_on_timeout_origin d1 d2 cs p : infl cs (k_src_ch p) (k_seq p) = None -> pfm_on_timeout d1 cs p = pfm_on_timeout d2 cs p.
Proof. intros H. unfold pfm_on_timeout. rewrite H. reflexivity. Qed.

Theorem route_all_or_nothing peer w c sender ch d amt recv memo hs :
  (forall a d', 0 <= bal (w c) a d') -> infl (w c) ch (nseq (w c) ch) = None -> sender <> AEscrow ch ->
  route_pre peer w [c] c ch (nseq (w c) ch) d memo recv ->
  (S (depth memo) <= length hs)%nat ->
  let w' := route_run peer w c sender ch d amt recv memo hs in
  let rc := route_chains peer c ch memo in
  (forall x, x <> c -> ~ In x rc -> w' x = w x) /\
  (forall e c' s, infl (w' e) c' s = infl (w e) c' s) /\
  ((forall e, e = c \/ In e rc -> ledger_eq (w' e) (w e))
   \/ ((exists css, ics_send (w c) sender ch d amt = Some css /\ bse_eq (w' c) css) /\
       bal (w' c) sender d = bal (w c) sender d - amt /\
       down_ok peer w w' c ch d amt sender recv memo)).
Proof.
  intros Hnn Hinfl Hsender Hpre Hlen w' rc. subst w' rc.
  unfold route_run. cbn [rstep]. cbn zeta.
  destruct (do_transfer (w c) (snd (peer c ch)) sender ch d amt recv memo) as [[cs1 s]|] eqn:Et; cbn [fst snd].
  2:{ cbn. split; [auto|]. split; [auto|]. left. intros; apply ledger_eq_refl. }
  change (0 =? 0)%N with true. cbn iota.
  destruct (origin_refund_restores (w c) (snd (peer c ch)) sender ch d amt recv memo cs1 s Hnn Hinfl Et)
    as (Hs & Hcom1 & (cf & Hackf & Hledf) & (ct & Htim & Hledt) & Hackt & Hdebit).
  cbn zeta in *. subst s.
  destruct (do_transfer_shape _ _ _ _ _ _ _ _ _ _ Et) as (css & Hsend & Hbse1 & Hinfl1 & Hrcpt1 & Hackd1).
  set (s := nseq (w c) ch) in *.
  set (w0 := wupd w c cs1).
  set (pkt := mkP ch (snd (peer c ch)) s d amt sender recv memo) in *.
  pose proof (route_chains_notin peer w memo [c] c ch _ _ _ Hpre) as Hrc.
  destruct (route_pre_head _ _ _ _ _ _ _ _ _ Hpre) as (Hnin & Hq & Hfr).
  destruct (peer c ch) as [dc dch] eqn:Hp. cbn [fst snd] in *.
  assert (Hdc : dc <> c) by (intros ->; apply Hnin; left; auto).
  assert (Hcom0 : com (w0 c) ch s = Some pkt) by (unfold w0; rewrite wupd_same; exact Hcom1).
  destruct hs as [|h hs']; [cbn in Hlen; lia|]. cbn [length] in Hlen.
  rewrite relay_cons.
  destruct (h_timeouts h) as [|k].
  - (* delivered *)
    cbn [attempts].
    assert (HD : DeliverSpec peer w0 (after_deliver peer (relay peer hs') w0 c ch s) c ch s d amt sender recv memo).
    { apply (deliver_spec peer memo hs' w0 [c] c ch s s).
      - left; auto.
      - rewrite Hp. exact Hcom0.
      - apply (route_pre_ext peer w w0); [|exact Hpre]. intros x Hx. unfold w0. apply wupd_other. intros ->. apply Hx. left; auto.
      - apply N.le_refl.
      - lia. }
    set (wd := after_deliver peer (relay peer hs') w0 c ch s) in *.
    destruct HD as (Hoff & b & Hb & Hbf & Hbt). rewrite Hp in Hb. cbn [fst snd] in Hb.
    assert (Hwdc : wd c = w0 c) by (apply Hoff; intros Hin; apply (Hrc _ Hin); left; auto).
    rewrite (deliver_eq peer (relay peer hs') w0 c ch s pkt Hcom0).
    2:{ intros _. fold wd. rewrite Hp. cbn [fst snd]. rewrite Hb. discriminate. }
    fold wd.
    assert (Hcomd : com (wd c) ch s = Some pkt) by (rewrite Hwdc; exact Hcom0).
    assert (Hw0x : forall x, x <> c -> w0 x = w x) by (intros x Hx; unfold w0; apply wupd_other; auto).
    assert (Hcsd : set_com (wd c) (upd_nn (com (wd c)) ch s None) = set_com cs1 (upd_nn (com cs1) ch s None)).
    { rewrite Hwdc. unfold w0. rewrite wupd_same. reflexivity. }
    destruct b.
    + (* success *)
      assert (E : pfm_on_ack (set_com (wd c) (upd_nn (com (wd c)) ch s None)) pkt true = Some (set_com cs1 (upd_nn (com cs1) ch s None)))
        by (rewrite Hcsd; exact Hackt).
      rewrite (ack_step peer wd c ch s dc dch pkt true _ Hp Hcomd Hb E).
      split; [|split].
      * intros x Hx Hnx. rewrite wupd_other, Hoff by auto. apply Hw0x; auto.
      * intros e c' s'. destruct (N.eq_dec e c) as [->|Hec].
        -- rewrite wupd_same. cbn [infl set_com]. rewrite Hinfl1. reflexivity.
        -- rewrite wupd_other by auto. destruct (in_dec N.eq_dec e (route_chains peer c ch memo)) as [Hin|Hnin'].
           ++ rewrite (down_ok_infl peer w0 wd memo c ch d amt sender recv (Hbt eq_refl) e Hin). rewrite Hw0x by auto. reflexivity.
           ++ rewrite Hoff, Hw0x by auto. reflexivity.
      * right. rewrite wupd_same. split; [|split].
        -- exists css. split; [exact Hsend|]. destruct Hbse1 as (B1 & B2 & B3). repeat split; intros; cbn [bal sup esc set_com]; auto.
        -- apply Hdebit. exact Hsender.
        -- apply (down_ok_ext peer w0 wd); [| |apply Hbt; reflexivity].
           ++ intros x Hx. symmetry. apply Hw0x. intros ->. apply (Hrc _ Hx). left; auto.
           ++ intros x Hx. apply wupd_other. intros ->. apply (Hrc _ Hx). left; auto.
    + (* failure: the origin refunds *)
      assert (E : pfm_on_ack (set_com (wd c) (upd_nn (com (wd c)) ch s None)) pkt false = Some cf) by (rewrite Hcsd; exact Hackf).
      rewrite (ack_step peer wd c ch s dc dch pkt false _ Hp Hcomd Hb E).
      assert (Hall : forall e, e = c \/ In e (route_chains peer c ch memo) -> ledger_eq (wupd wd c cf e) (w e)).
      { intros e [->|He].
        - rewrite wupd_same. exact Hledf.
        - assert (e <> c) by (intros ->; apply (Hrc _ He); left; auto).
          rewrite wupd_other by auto. rewrite <- (Hw0x e) by auto. apply Hbf; auto. }
      split; [|split].
      * intros x Hx Hnx. rewrite wupd_other, Hoff by auto. apply Hw0x; auto.
      * intros e c' s'. destruct (N.eq_dec e c) as [->|Hec].
        -- apply (Hall c (or_introl eq_refl)).
        -- destruct (in_dec N.eq_dec e (route_chains peer c ch memo)) as [Hin|Hnin'].
           ++ apply (Hall e (or_intror Hin)).
           ++ rewrite wupd_other, Hoff, Hw0x by auto. reflexivity.
      * left. exact Hall.
  - (* the origin packet times out: plain ICS-20 refund *)
    cbn [attempts]. cbn zeta.
    assert (Hr : rcpt (w0 dc) dch s = false).
    { unfold w0. rewrite wupd_other by auto. apply (Hfr s). apply N.le_refl. }
    assert (Hinfd : infl (set_com (w0 c) (upd_nn (com (w0 c)) ch s None)) (k_src_ch pkt) (k_seq pkt) = None).
    { unfold w0. rewrite wupd_same. cbn [infl set_com k_src_ch k_seq pkt]. rewrite Hinfl1. exact Hinfl. }
    assert (E : pfm_on_timeout (fun ch' => snd (peer c ch')) (set_com (w0 c) (upd_nn (com (w0 c)) ch s None)) pkt = Some ct).
    { rewrite (pfm_on_timeout_origin _ (fun _ => dch) _ _ Hinfd). unfold w0. rewrite wupd_same. exact Htim. }
    rewrite (timeout_step peer w0 c ch s dc dch pkt ct Hp Hcom0 Hr E).
    assert (Hnq : nseq ct = nseq cs1).
    { unfold pfm_on_timeout in E. rewrite Hinfd in E. apply ics_refund_keeps in E. destruct E as [E _]. rewrite E. unfold w0. rewrite wupd_same. reflexivity. }
    rewrite !wupd_same. rewrite Hnq. replace (nseq (w0 c) ch) with (nseq cs1 ch) by (unfold w0; rewrite wupd_same; reflexivity). rewrite N.eqb_refl.
    assert (Hall : forall e, e = c \/ In e (route_chains peer c ch memo) -> ledger_eq (wupd w0 c ct e) (w e)).
    { intros e [->|He].
      - rewrite wupd_same. exact Hledt.
      - assert (e <> c) by (intros ->; apply (Hrc _ He); left; auto).
        rewrite wupd_other by auto. unfold w0. rewrite wupd_other by auto. apply ledger_eq_refl. }
    split; [|split].
    + intros x Hx Hnx. rewrite wupd_other by auto. unfold w0. apply wupd_other; auto.
    + intros e c' s'. destruct (N.eq_dec e c) as [->|Hec].
      * apply (Hall c (or_introl eq_refl)).
      * rewrite wupd_other by auto. unfold w0. rewrite wupd_other by auto. reflexivity.
    + left. exact Hall.
Qed.

(** no in-flight record anywhere at quiescence, if there was none before *)
Corollary route_leaves_no_inflight peer w c sender ch d amt recv memo hs :
  (forall a d', 0 <= bal (w c) a d') -> infl (w c) ch (nseq (w c) ch) = None -> sender <> AEscrow ch ->
  route_pre peer w [c] c ch (nseq (w c) ch) d memo recv -> (S (depth memo) <= length hs)%nat ->
  (forall e c' s, infl (w e) c' s = None) ->
  forall e c' s, infl (route_run peer w c sender ch d amt recv memo hs e) c' s = None.
Proof.
  intros H1 H2 H3 H4 H5 Hnone e c' s.
  destruct (route_all_or_nothing peer w c sender ch d amt recv memo hs H1 H2 H3 H4 H5) as (_ & Hi & _).
  rewrite Hi. apply Hnone.
Qed.

(** * non-vacuity: the hypotheses hold on the four-chain line of PfmFacts.v *)
Definition line_memo : Memo := MFwd None 2 1 (MFwd (Some (AUser 2)) 4 0 MNone).

Lemma line_cs_nonneg chs a d : 0 <= bal (line_cs chs) a d.
Proof. cbn [bal line_cs]. destruct a; try lia. destruct (denom_eqb d native); lia. Qed.

Example line_route_pre : route_pre line_peer line_world [0%N] 0%N 0%N 1%N native line_memo None.
Proof.
  unfold line_memo. cbn [route_pre line_peer fst snd].
  split; [intros [H|[]]; discriminate|]. split; [reflexivity|]. split; [intros; split; reflexivity|].
  split; [discriminate|]. split; [intros [H _]; discriminate|]. split; [intros; apply line_cs_nonneg|]. split; [reflexivity|].
  split; [intros [H|[H|[]]]; discriminate|]. split; [reflexivity|]. split; [intros; split; reflexivity|].
  split; [discriminate|]. split; [intros [H _]; discriminate|]. split; [intros; apply line_cs_nonneg|]. split; [reflexivity|].
  split; [intros [H|[H|[H|[]]]]; discriminate|]. split; [reflexivity|]. split; [intros; split; reflexivity|].
  discriminate.
Qed.

Example line_route_instance :
  (forall a d', 0 <= bal (line_world 0%N) a d') /\
  infl (line_world 0%N) 0%N (nseq (line_world 0%N) 0%N) = None /\
  AUser 1 <> AEscrow 0 /\
  route_pre line_peer line_world [0%N] 0%N 0%N (nseq (line_world 0%N) 0%N) native line_memo None /\
  (S (depth line_memo) <= length [mkH 0; mkH 1; mkH 0])%nat.
Proof.
  split; [intros; apply line_cs_nonneg|]. split; [reflexivity|]. split; [discriminate|]. split; [exact line_route_pre|]. cbn. lia.
Qed.
