(** C43 — executable model of packet-forward-middleware on top of a compact bank + ICS-20 (v1) model.

    Private to this area (another area models ICS-20 conservation in general).  Conventions:
    - port is always "transfer"; a hop of a denomination trace is the channel identifier (a numeral);
    - denominations are structured: trace (list of hops, newest first) and base.  The bank is keyed by the
      structured denomination: for [denom_safe] tokens the coin denom ("ibc/"+SHA-256 of the path, or the base)
      determines (trace, base) uniquely and the path string parses back to it (properties C34/C42 — assumed here);
    - accounts: users, the escrow account of a channel, and the PFM override receiver, which the code derives
      as address.Hash("packetfowardmiddleware", channel+"/"+sender)[:20] — modelled as an injective constructor;
    - stores are total functions. sdkmath.Int = Z.
    Source: modules/apps/packet-forward-middleware/{ibc_middleware.go,keeper/keeper.go},
            modules/apps/transfer/keeper/relay.go, modules/core/keeper/msg_server.go. *)
From IBC Require Import Lib.Bytes Lib.CorrLib.
Local Open Scope Z_scope.

Record Denom := mkD { d_trace : list N; d_base : N }.
Definition denom_eqb (a b : Denom) : bool := list_eqb N.eqb (d_trace a) (d_trace b) && (d_base a =? d_base b)%N.

(** types.Denom.HasPrefix(port, channel) *)
Definition has_prefix (d : Denom) (ch : N) : bool :=
  match d_trace d with h :: _ => (h =? ch)%N | [] => false end.
Definition drop_hop (d : Denom) : Denom := mkD (tl (d_trace d)) (d_base d).
Definition add_hop (ch : N) (d : Denom) : Denom := mkD (ch :: d_trace d) (d_base d).

Inductive Acct := AUser (n : N) | AEscrow (ch : N) | AOverride (ch : N) (sender : Acct).
Fixpoint acct_eqb (a b : Acct) : bool :=
  match a, b with
  | AUser n, AUser m => (n =? m)%N
  | AEscrow c, AEscrow c' => (c =? c')%N
  | AOverride c s, AOverride c' s' => (c =? c')%N && acct_eqb s s'
  | _, _ => false
  end.

(** the "forward" memo: receiver (None = a string that is not a valid address), channel, retries, nested next *)
Inductive Memo := MNone | MFwd (recv : option Acct) (ch : N) (retries : N) (next : Memo).

Record Packet := mkP {
  k_src_ch : N; k_dst_ch : N; k_seq : N; k_denom : Denom; k_amt : Z;
  k_sender : Acct; k_recv : option Acct; k_memo : Memo }.

(** types.InFlightPacket: where the original packet arrived (refund channel, its sequence), retries left *)
Record InFl := mkI { i_ch : N; i_seq : N; i_retries : Z }.

Record CS := mkCS {
  bal : Acct -> Denom -> Z;             (* bank balances *)
  sup : Denom -> Z;                     (* bank supply *)
  esc : Denom -> Z;                     (* transfer keeper: total escrow per denom *)
  infl : N -> N -> option InFl;         (* PFM in-flight records, key (channel, sequence) of the forwarded packet *)
  nseq : N -> N;                        (* next sequence send per channel *)
  com : N -> N -> option Packet;        (* packet commitments (sent, no terminal event yet) *)
  rcpt : N -> N -> bool;                (* receipts of received packets (dst channel, sequence) *)
  ackd : N -> N -> option bool;         (* acknowledgements written for received packets: true = success *)
  chans : list N }.                     (* open transfer channels of this chain *)

Definition set_bal cs f := mkCS f (sup cs) (esc cs) (infl cs) (nseq cs) (com cs) (rcpt cs) (ackd cs) (chans cs).
Definition set_sup cs f := mkCS (bal cs) f (esc cs) (infl cs) (nseq cs) (com cs) (rcpt cs) (ackd cs) (chans cs).
Definition set_esc cs f := mkCS (bal cs) (sup cs) f (infl cs) (nseq cs) (com cs) (rcpt cs) (ackd cs) (chans cs).
Definition set_infl cs f := mkCS (bal cs) (sup cs) (esc cs) f (nseq cs) (com cs) (rcpt cs) (ackd cs) (chans cs).
Definition set_nseq cs f := mkCS (bal cs) (sup cs) (esc cs) (infl cs) f (com cs) (rcpt cs) (ackd cs) (chans cs).
Definition set_com cs f := mkCS (bal cs) (sup cs) (esc cs) (infl cs) (nseq cs) f (rcpt cs) (ackd cs) (chans cs).
Definition set_rcpt cs f := mkCS (bal cs) (sup cs) (esc cs) (infl cs) (nseq cs) (com cs) f (ackd cs) (chans cs).
Definition set_ackd cs f := mkCS (bal cs) (sup cs) (esc cs) (infl cs) (nseq cs) (com cs) (rcpt cs) f (chans cs).

Definition add_bal cs (a : Acct) (d : Denom) (x : Z) : CS :=
  set_bal cs (fun a' d' => if acct_eqb a' a && denom_eqb d' d then bal cs a' d' + x else bal cs a' d').
Definition add_sup cs (d : Denom) (x : Z) : CS :=
  set_sup cs (fun d' => if denom_eqb d' d then sup cs d' + x else sup cs d').
Definition add_esc cs (d : Denom) (x : Z) : CS :=
  set_esc cs (fun d' => if denom_eqb d' d then esc cs d' + x else esc cs d').
Definition upd_nn {A} (f : N -> N -> A) (c s : N) (v : A) : N -> N -> A :=
  fun c' s' => if (c' =? c)%N && (s' =? s)%N then v else f c' s'.

(** bank.SendCoins: fails when the balance is insufficient *)
Definition send_coins cs (from to : Acct) (d : Denom) (x : Z) : option CS :=
  if bal cs from d <? x then None else Some (add_bal (add_bal cs from d (- x)) to d x).

(** transfer/keeper/relay.go:SendTransfer — voucher going back through its channel: burn; otherwise escrow *)
Definition ics_send cs (sender : Acct) (ch : N) (d : Denom) (x : Z) : option CS :=
  if x <=? 0 then None
  else if has_prefix d ch then
    if bal cs sender d <? x then None else Some (add_sup (add_bal cs sender d (- x)) d (- x))
  else match send_coins cs sender (AEscrow ch) d x with
       | None => None
       | Some cs' => Some (add_esc cs' d x)
       end.

(** the denomination ICS-20 credits on the receiving chain (relay.go:OnRecvPacket) *)
Definition recv_denom (dst_ch src_ch : N) (d : Denom) : Denom :=
  if has_prefix d src_ch then drop_hop d else add_hop dst_ch d.

(** packet-forward-middleware/ibc_middleware.go:getDenomForThisChain *)
Definition pfm_denom (dst_ch src_ch : N) (d : Denom) : Denom :=
  if has_prefix d src_ch then
    let d' := mkD (tl (d_trace d)) (d_base d) in
    match d_trace d' with [] => d' (* native again: denom.Path() *) | _ => d' (* still an IBC denom: IBCDenom() *) end
  else mkD (dst_ch :: d_trace d) (d_base d).

(** relay.go:OnRecvPacket with an explicit receiver (PFM overrides it) — None = error *)
Definition ics_recv cs (p : Packet) (r : option Acct) : option CS :=
  match r with
  | None => None                                           (* receiver does not decode *)
  | Some a =>
      if k_amt p <=? 0 then None
      else if has_prefix (k_denom p) (k_src_ch p) then
        let d' := drop_hop (k_denom p) in
        match send_coins cs (AEscrow (k_dst_ch p)) a d' (k_amt p) with   (* UnescrowCoin *)
        | None => None
        | Some cs' => Some (add_esc cs' d' (- k_amt p))
        end
      else
        let d' := add_hop (k_dst_ch p) (k_denom p) in
        Some (add_bal (add_sup cs d' (k_amt p)) a d' (k_amt p))            (* mint, send to receiver *)
  end.

(** relay.go:refundPacketTokens *)
Definition ics_refund cs (p : Packet) : option CS :=
  if has_prefix (k_denom p) (k_src_ch p) then
    Some (add_bal (add_sup cs (k_denom p) (k_amt p)) (k_sender p) (k_denom p) (k_amt p))
  else match send_coins cs (AEscrow (k_src_ch p)) (k_sender p) (k_denom p) (k_amt p) with
       | None => None
       | Some cs' => Some (add_esc cs' (k_denom p) (- k_amt p))
       end.

(** keeper.Transfer (msg server) as PFM and users call it: debit, allocate the sequence, commit the packet *)
Definition do_transfer cs (dst_ch : N) (sender : Acct) (ch : N) (d : Denom) (x : Z) (recv : option Acct) (memo : Memo)
  : option (CS * N) :=
  if negb (existsb (N.eqb ch) (chans cs)) then None
  else match ics_send cs sender ch d x with
       | None => None
       | Some cs1 =>
           let s := nseq cs1 ch in
           let p := mkP ch dst_ch s d x sender recv memo in
           Some (set_com (set_nseq cs1 (fun c => if (c =? ch)%N then N.succ s else nseq cs1 c)) (upd_nn (com cs1) ch s (Some p)), s)
       end.

(** keeper.go:WriteAcknowledgementForForwardedPacket, the failure part: the three refund branches.
    [p] is the forwarded packet (source channel = the forward channel), [i] its in-flight record. *)
Definition refund_forward cs (p : Packet) (i : InFl) : option CS :=
  let d := k_denom p in
  let x := k_amt p in
  if negb (has_prefix d (k_src_ch p)) then
    if negb (has_prefix d (i_ch i)) then
      (* escrow of the forward channel -> escrow of the refund channel *)
      send_coins cs (AEscrow (k_src_ch p)) (AEscrow (i_ch i)) d x
    else
      (* burn from the forward channel's escrow; total escrow decreases *)
      if bal cs (AEscrow (k_src_ch p)) d <? x then None
      else Some (add_esc (add_sup (add_bal cs (AEscrow (k_src_ch p)) d (- x)) d (- x)) d (- x))
  else
    (* the forward burned the voucher: mint it back into the refund channel's escrow; total escrow increases *)
    Some (add_esc (add_bal (add_sup cs d x) (AEscrow (i_ch i)) d x) d x).

Definition write_ack cs (ch seq : N) (b : bool) : CS := set_ackd cs (upd_nn (ackd cs) ch seq (Some b)).
Definition del_infl cs (ch seq : N) : CS := set_infl cs (upd_nn (infl cs) ch seq None).

(** peer channel id of a channel of this chain is an input ([dst_of]) *)

(** ibc_middleware.go:OnRecvPacket (PFM above transfer). Returns the new state and the acknowledgement
    (Some true / Some false / None = async). On an error ack the state is the input state (core discards). *)
Definition pfm_on_recv (dst_of : N -> N) cs (p : Packet) : CS * option bool :=
  match k_memo p with
  | MNone =>
      match ics_recv cs p (k_recv p) with
      | Some cs' => (cs', Some true)
      | None => (cs, Some false)
      end
  | MFwd r ch retries next =>
      let ov := AOverride (k_dst_ch p) (k_sender p) in
      match ics_recv cs p (Some ov) with                                  (* receiveFunds *)
      | None => (cs, Some false)
      | Some cs1 =>
          let d := pfm_denom (k_dst_ch p) (k_src_ch p) (k_denom p) in
          match do_transfer cs1 (dst_of ch) ov ch d (k_amt p) r next with  (* ForwardTransferPacket *)
          | None => (cs, Some false)
          | Some (cs2, s) =>
              (set_infl cs2 (upd_nn (infl cs2) ch s (Some (mkI (k_dst_ch p) (k_seq p) (Z.of_N retries)))), None)
          end
      end
  end.

(** WriteAcknowledgementForForwardedPacket *)
Definition write_forwarded cs (p : Packet) (i : InFl) (ok : bool) : option CS :=
  if ok then Some (write_ack cs (i_ch i) (i_seq i) true)
  else match refund_forward cs p i with
       | None => None
       | Some cs' => Some (write_ack cs' (i_ch i) (i_seq i) false)
       end.

(** ibc_middleware.go:OnAcknowledgementPacket — None = the transaction fails *)
Definition pfm_on_ack cs (p : Packet) (ok : bool) : option CS :=
  match infl cs (k_src_ch p) (k_seq p) with
  | Some i => write_forwarded (del_infl cs (k_src_ch p) (k_seq p)) p i ok
  | None => if ok then Some cs else ics_refund cs p
  end.

(** ibc_middleware.go:OnTimeoutPacket with keeper.TimeoutShouldRetry / RetryTimeout *)
Definition pfm_on_timeout (dst_of : N -> N) cs (p : Packet) : option CS :=
  match infl cs (k_src_ch p) (k_seq p) with
  | Some i =>
      let cs1 := del_infl cs (k_src_ch p) (k_seq p) in
      if i_retries i <=? 0 then write_forwarded cs1 p i false
      else match ics_refund cs1 p with
           | None => None
           | Some cs2 =>
               match do_transfer cs2 (dst_of (k_src_ch p)) (k_sender p) (k_src_ch p) (k_denom p) (k_amt p) (k_recv p) (k_memo p) with
               | None => None
               | Some (cs3, s) =>
                   Some (set_infl cs3 (upd_nn (infl cs3) (k_src_ch p) s (Some (mkI (i_ch i) (i_seq i) (i_retries i - 1)))))
               end
           end
  | None => ics_refund cs p
  end.

(** ---------------------------------------------------------------------------------------------
    Worlds: chains indexed by numerals, channel topology [peer chain channel = (peer chain, peer channel)]. *)
Definition World := N -> CS.
Definition Peer := N -> N -> (N * N).
Definition wupd (w : World) (c : N) (cs : CS) : World := fun c' => if (c' =? c)%N then cs else w c'.

Inductive ROp :=
| RTransfer (c : N) (sender : Acct) (ch : N) (d : Denom) (amt : Z) (recv : option Acct) (memo : Memo)
| RRecv (c ch seq : N)      (* c, ch: destination chain and channel *)
| RAck (c ch seq : N)       (* c, ch: source chain and channel *)
| RTimeout (c ch seq : N).  (* c, ch: source chain and channel; the relayer proved non-receipt *)

(** outcome classes: 0 ok, 1 error (transaction failed, nothing changed), 2 no-op *)
Definition rstep (peer : Peer) (w : World) (o : ROp) : World * N :=
  match o with
  | RTransfer c sender ch d amt recv memo =>
      match do_transfer (w c) (snd (peer c ch)) sender ch d amt recv memo with
      | None => (w, 1%N)
      | Some (cs, _) => (wupd w c cs, 0%N)
      end
  | RRecv c ch seq =>
      let sc := peer c ch in
      match com (w (fst sc)) (snd sc) seq with
      | None => (w, 1%N)
      | Some p =>
          if rcpt (w c) ch seq then (w, 2%N)
          else
            let cs0 := set_rcpt (w c) (upd_nn (rcpt (w c)) ch seq true) in
            let r := pfm_on_recv (fun ch' => snd (peer c ch')) cs0 p in
            (wupd w c (match snd r with Some b => write_ack (fst r) ch seq b | None => fst r end), 0%N)
      end
  | RAck c ch seq =>
      match com (w c) ch seq with
      | None => (w, 2%N)
      | Some p =>
          let dc := peer c ch in
          match ackd (w (fst dc)) (snd dc) seq with
          | None => (w, 1%N)
          | Some ok =>
              match pfm_on_ack (set_com (w c) (upd_nn (com (w c)) ch seq None)) p ok with
              | None => (w, 1%N)
              | Some cs => (wupd w c cs, 0%N)
              end
          end
      end
  | RTimeout c ch seq =>
      match com (w c) ch seq with
      | None => (w, 2%N)
      | Some p =>
          let dc := peer c ch in
          if rcpt (w (fst dc)) (snd dc) seq then (w, 1%N)
          else match pfm_on_timeout (fun ch' => snd (peer c ch')) (set_com (w c) (upd_nn (com (w c)) ch seq None)) p with
               | None => (w, 1%N)
               | Some cs => (wupd w c cs, 0%N)
               end
      end
  end.

Definition rrun (peer : Peer) (w : World) (ops : list ROp) : World := fold_left (fun w o => fst (rstep peer w o)) ops w.

(** ---------------------------------------------------------------------------------------------
    Relaying one route depth-first.  A hop outcome says how many times the packet of that hop times out before it
    is delivered ([h_timeouts]); whether delivery succeeds is decided by the receiving chain's own code. *)
Record HopOut := mkH { h_timeouts : nat }.

Inductive Result := ROk | RFail.

(** [relay hs w c ch seq]: the packet committed on chain [c] under (ch, seq) is relayed according to the outcome
    of its hop (head of [hs]) and, if it is forwarded further, of the following hops (tail).  Returns the world
    once the acknowledgement/timeout of that packet has been processed on [c]. *)
Fixpoint relay (peer : Peer) (hs : list HopOut) (w : World) (c ch seq : N) {struct hs} : World :=
  match hs with
  | [] => w
  | h :: hs' =>
      (fix attempts (k : nat) (w : World) (seq : N) {struct k} : World :=
         match k with
         | S k' =>
             (* this attempt times out; a retry (if PFM makes one) gets the next sequence of the channel *)
             let s' := nseq (w c) ch in
             let w1 := fst (rstep peer w (RTimeout c ch seq)) in
             if (nseq (w1 c) ch =? s')%N then w1 else attempts k' w1 s'
         | O =>
             let d := peer c ch in
             let w1 := fst (rstep peer w (RRecv (fst d) (snd d) seq)) in
             match ackd (w1 (fst d)) (snd d) seq with
             | Some _ => fst (rstep peer w1 (RAck c ch seq))
             | None =>
                 (* forwarded: the next packet is the newest commitment of the forward channel named by the memo *)
                 match com (w c) ch seq with
                 | Some p =>
                     match k_memo p with
                     | MFwd _ fch _ _ =>
                         let fs := nseq (w (fst d)) fch in
                         let w2 := relay peer hs' w1 (fst d) fch fs in
                         fst (rstep peer w2 (RAck c ch seq))
                     | MNone => w1
                     end
                 | None => w1
                 end
             end
         end) (h_timeouts h) w seq
  end.

(** a whole route: the origin transfer, then the relay of its packet *)
Definition route_run (peer : Peer) (w : World) (c : N) (sender : Acct) (ch : N) (d : Denom) (amt : Z)
           (recv : option Acct) (memo : Memo) (hs : list HopOut) : World :=
  let s := nseq (w c) ch in
  let r := rstep peer w (RTransfer c sender ch d amt recv memo) in
  if (snd r =? 0)%N then relay peer hs (fst r) c ch s else fst r.

(** ---------------------------------------------------------------------------------------------
    getDenomForThisChain at the level of strings, for an arbitrary hash function [H] (SHA-256 in the
    correspondence): hops are (port, channel) byte strings. *)
Definition SHop := (bytes * bytes)%type.
Definition spath (tr : list SHop) (base : bytes) : bytes :=
  concat (map (fun h => (fst h ++ slash :: snd h ++ [slash])%list) tr) ++ base.
(** types.Denom.IBCDenom: the base when native, otherwise "ibc/" + upper-case hex of H(path) *)
Definition s_ibc_denom (H : bytes -> bytes) (tr : list SHop) (base : bytes) : bytes :=
  match tr with [] => base | _ => (B "ibc/" ++ hex_upper (H (spath tr base)))%list end.
Definition s_has_prefix (tr : list SHop) (port ch : bytes) : bool :=
  match tr with h :: _ => bytes_eqb (fst h) port && bytes_eqb (snd h) ch | [] => false end.
(** ibc_middleware.go:getDenomForThisChain *)
Definition s_pfm_denom (H : bytes -> bytes) (port ch cport cch : bytes) (tr : list SHop) (base : bytes) : bytes :=
  if s_has_prefix tr cport cch then
    match tl tr with
    | [] => spath [] base                    (* denom.Path() of the unwound native denom *)
    | tr' => s_ibc_denom H tr' base
    end
  else s_ibc_denom H ((port, ch) :: tr) base.
(** the coin denom transfer/keeper/relay.go:OnRecvPacket credits (voucher or unescrowed token) *)
Definition s_recv_denom (H : bytes -> bytes) (port ch cport cch : bytes) (tr : list SHop) (base : bytes) : bytes :=
  if s_has_prefix tr cport cch then s_ibc_denom H (tl tr) base else s_ibc_denom H ((port, ch) :: tr) base.
