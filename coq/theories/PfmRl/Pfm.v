(** C43 — placeholder, model follows. *)
From IBC Require Import Lib.Bytes.
