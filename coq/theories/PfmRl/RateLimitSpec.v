(** C41 — the specification side: a ghost log folded over the same history.

    For every rate-limited path and direction the ghost keeps, for the *current window* only,
      g_acc    = sum of the amounts of the packets accepted (and counted) in this window,
      g_undone = sum of the amounts of those among them that were later refunded in this window,
      g_live   = the packets (sequence, amount) accepted in this window and not yet finalised
                 (acknowledged, timed out, or answered by the application).
    A window starts when the rate limit is added, updated, reset by the admin, or reset by the hourly epoch,
    and ends when it is removed.  The ghost reads only the *administered configuration* of the model state
    (which limits exist, their duration, the whitelist) and the observable outcome of the operation; it
    never reads the flows or the pending-packet sets — those are what the refinement theorem is about. *)
From IBC Require Import Lib.Bytes PfmRl.RateLimit.
Local Open Scope Z_scope.

Record GSide := mkGS { g_acc : Z; g_undone : Z; g_live : list (N * Z) }.
Definition gs0 : GSide := mkGS 0 0 [].

Record Ghost := mkG { g_send : Path -> GSide; g_recv : Path -> GSide }.
Definition ghost0 : Ghost := mkG (fun _ => gs0) (fun _ => gs0).

Definition g_side (g : Ghost) (d : Dir) : Path -> GSide := match d with DSend => g_send g | DRecv => g_recv g end.
Definition g_set (g : Ghost) (d : Dir) (p : Path) (s : GSide) : Ghost :=
  match d with
  | DSend => mkG (upd (g_send g) p s) (g_recv g)
  | DRecv => mkG (g_send g) (upd (g_recv g) p s)
  end.

Fixpoint live_remove (seq : N) (l : list (N * Z)) : list (N * Z) :=
  match l with
  | [] => []
  | (s, a) :: l' => if (s =? seq)%N then live_remove seq l' else (s, a) :: live_remove seq l'
  end.
Fixpoint live_find (seq : N) (l : list (N * Z)) : option Z :=
  match l with
  | [] => None
  | (s, a) :: l' => if (s =? seq)%N then Some a else live_find seq l'
  end.
Fixpoint live_sum (l : list (N * Z)) : Z :=
  match l with [] => 0 | (_, a) :: l' => a + live_sum l' end.

(** a packet counts against the quota iff its path has a rate limit and the address pair is not whitelisted *)
Definition counted (st : State) (pk : Pkt) : bool :=
  match limits st (pk_path pk) with
  | Some _ => negb (white st (pk_from pk) (pk_to pk))
  | None => false
  end.

(** the packet was accepted and counted: log (packet, direction, amount) in the current window *)
Definition gs_accept (s : GSide) (seq : N) (amt : Z) : GSide :=
  mkGS (g_acc s + amt) (g_undone s) ((seq, amt) :: live_remove seq (g_live s)).
(** the packet was refunded (error ack / timeout / failed forward): it is undone iff it was accepted in the
    current window and has not been finalised — hence at most once — and it is undone with the amount it
    was accepted with *)
Definition gs_refund (s : GSide) (seq : N) : GSide :=
  match live_find seq (g_live s) with
  | Some a => mkGS (g_acc s) (g_undone s + a) (live_remove seq (g_live s))
  | None => s
  end.
(** the packet completed successfully: it stays counted and can no longer be undone *)
Definition gs_final (s : GSide) (seq : N) : GSide := mkGS (g_acc s) (g_undone s) (live_remove seq (g_live s)).

Definition g_accept (st : State) (g : Ghost) (d : Dir) (pk : Pkt) : Ghost :=
  if counted st pk then g_set g d (pk_path pk) (gs_accept (g_side g d (pk_path pk)) (pk_seq pk) (pk_amt pk)) else g.
Definition g_refund (g : Ghost) (d : Dir) (pk : Pkt) : Ghost :=
  g_set g d (pk_path pk) (gs_refund (g_side g d (pk_path pk)) (pk_seq pk)).
Definition g_final (g : Ghost) (d : Dir) (pk : Pkt) : Ghost :=
  g_set g d (pk_path pk) (gs_final (g_side g d (pk_path pk)) (pk_seq pk)).
(** a new window of path [p] (or its end) *)
Definition g_window (g : Ghost) (p : Path) : Ghost := mkG (upd (g_send g) p gs0) (upd (g_recv g) p gs0).

(** does the hourly epoch start at block time [t] (keeper/epoch.go), and which paths does it reset *)
Definition epoch_starts (st : State) (t : Z) : bool := negb (ep_dur st =? 0) && (t >? ep_start st + ep_dur st).
Definition epoch_hits (st : State) (p : Path) : bool :=
  match limits st p with Some rl => epoch_resets (N.succ (ep_num st)) rl | None => false end.

Definition is_ok (c : N) : bool := (c =? cls_ok)%N.

(** one ghost step: [st] is the state *before* the operation, [c] the observable outcome class of the operation *)
Definition gstep (st : State) (g : Ghost) (o : Op) (c : N) : Ghost :=
  match o with
  | OBeginBlock t _ =>
      if epoch_starts st t then
        mkG (fun p => if epoch_hits st p then gs0 else g_send g p) (fun p => if epoch_hits st p then gs0 else g_recv g p)
      else g
  | OSend pk _ => if is_ok c then g_accept st g DSend pk else g
  | ORecv pk _ =>
      if (c =? cls_ok)%N then g_final (g_accept st g DRecv pk) DRecv pk          (* answered at once: final *)
      else if (c =? cls_async)%N then g_accept st g DRecv pk
      else g                                                                   (* error ack: nothing happened *)
  | ORecvFwd pk pk2 _ =>
      if (c =? cls_async)%N then g_accept st (g_accept st g DRecv pk) DSend pk2 else g
  | OTimeoutRetry pk pk2 _ =>
      if is_ok c then g_accept st (g_refund g DSend pk) DSend pk2 else g
  | OWriteAck pk success => if success then g_final g DRecv pk else g_refund g DRecv pk
  | OAck pk success => if success then g_final g DSend pk else g_refund g DSend pk
  | OTimeout pk => g_refund g DSend pk
  | OAdd p _ _ _ _ | OUpdate p _ _ _ | ORemove p _ | OReset p _ _ => if is_ok c then g_window g p else g
  | OBlacklist _ _ | OWhitelist _ _ _ => g
  end.

Fixpoint grun (st : State) (g : Ghost) (ops : list Op) : State * Ghost :=
  match ops with
  | [] => (st, g)
  | o :: ops' => let r := step st o in grun (fst r) (gstep st g o (snd r)) ops'
  end.

(** the packets an operation mentions, with the direction in which they count *)
Definition mentions (o : Op) : list (Dir * Pkt) :=
  match o with
  | OSend pk _ | OAck pk _ | OTimeout pk => [(DSend, pk)]
  | ORecv pk _ | OWriteAck pk _ => [(DRecv, pk)]
  | ORecvFwd pk pk2 _ => [(DRecv, pk); (DSend, pk2)]
  | OTimeoutRetry pk pk2 _ => [(DSend, pk); (DSend, pk2)]
  | _ => []
  end.

(** What core IBC guarantees to the middleware (properties C05/C06/C08): an acknowledgement, timeout or
    asynchronous acknowledgement carries the very packet that was sent / received under that (channel,
    sequence), so the amount is a function [A] of (direction, path, sequence); ICS-20 amounts are positive. *)
Definition wf_ops (A : Dir -> Path -> N -> Z) (ops : list Op) : Prop :=
  forall o d pk, In o ops -> In (d, pk) (mentions o) -> 0 <= pk_amt pk /\ pk_amt pk = A d (pk_path pk) (pk_seq pk).
