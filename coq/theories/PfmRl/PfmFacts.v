(** C43 — proofs about the packet-forward model. *)
From IBC Require Import Lib.Bytes Lib.CorrLib PfmRl.Pfm.
Local Open Scope Z_scope.

(** * keys *)
Lemma acct_eqb_eq a : forall b, acct_eqb a b = true <-> a = b.
Proof.
  induction a as [n|c|c s IH]; intros [m|c'|c' s']; cbn [acct_eqb]; try (split; [discriminate|intros H; inversion H]).
  - rewrite N.eqb_eq. split; [intros ->; auto|intros H; inversion H; auto].
  - rewrite N.eqb_eq. split; [intros ->; auto|intros H; inversion H; auto].
  - rewrite andb_true_iff, N.eqb_eq, IH. split; [intros [-> ->]; auto|intros H; inversion H; auto].
Qed.
Lemma acct_eqb_refl a : acct_eqb a a = true.
Proof. apply acct_eqb_eq. reflexivity. Qed.
Lemma acct_eqb_spec a b : reflect (a = b) (acct_eqb a b).
Proof. destruct (acct_eqb a b) eqn:E; constructor; [apply acct_eqb_eq; auto| intros H; apply acct_eqb_eq in H; congruence]. Qed.

Lemma list_N_eqb_eq (a : list N) : forall b, list_eqb N.eqb a b = true <-> a = b.
Proof.
  induction a as [|x a IH]; intros [|y b]; cbn [list_eqb]; try (split; [discriminate|intros H; inversion H]); [tauto|].
  rewrite andb_true_iff, N.eqb_eq, IH. split; [intros [-> ->]; auto|intros H; inversion H; auto].
Qed.
Lemma denom_eqb_eq a b : denom_eqb a b = true <-> a = b.
Proof.
  destruct a as [ta ba], b as [tb bb]. unfold denom_eqb. cbn [d_trace d_base].
  rewrite andb_true_iff, list_N_eqb_eq, N.eqb_eq. split; [intros [-> ->]; auto|intros H; inversion H; auto].
Qed.
Lemma denom_eqb_refl a : denom_eqb a a = true.
Proof. apply denom_eqb_eq. reflexivity. Qed.
Lemma denom_eqb_spec a b : reflect (a = b) (denom_eqb a b).
Proof. destruct (denom_eqb a b) eqn:E; constructor; [apply denom_eqb_eq; auto| intros H; apply denom_eqb_eq in H; congruence]. Qed.

(** * the denomination PFM forwards is the one ICS-20 credited *)
Theorem pfm_denom_is_credited dst_ch src_ch d : pfm_denom dst_ch src_ch d = recv_denom dst_ch src_ch d.
Proof.
  unfold pfm_denom, recv_denom, drop_hop, add_hop. destruct (has_prefix d src_ch); auto.
  destruct (d_trace (mkD (tl (d_trace d)) (d_base d))); reflexivity.
Qed.

Theorem s_pfm_denom_is_credited (H : bytes -> bytes) port ch cport cch tr base :
  s_pfm_denom H port ch cport cch tr base = s_recv_denom H port ch cport cch tr base.
Proof.
  unfold s_pfm_denom, s_recv_denom. destruct (s_has_prefix tr cport cch); auto.
  destruct (tl tr) eqn:E; reflexivity.
Qed.

(** * ledgers *)
Definition ledger_eq (a b : CS) : Prop :=
  (forall x d, bal a x d = bal b x d) /\ (forall d, sup a d = sup b d) /\ (forall d, esc a d = esc b d) /\
  (forall c s, infl a c s = infl b c s).

Lemma ledger_eq_refl a : ledger_eq a a.
Proof. repeat split; auto. Qed.
Lemma ledger_eq_sym a b : ledger_eq a b -> ledger_eq b a.
Proof. intros (H1 & H2 & H3 & H4). repeat split; auto. Qed.
Lemma ledger_eq_trans a b c : ledger_eq a b -> ledger_eq b c -> ledger_eq a c.
Proof. intros (H1 & H2 & H3 & H4) (G1 & G2 & G3 & G4). repeat split; intros; congruence. Qed.

(** case analysis on every account / denomination / key test in the goal *)
Ltac keys :=
  repeat match goal with
  | |- context [acct_eqb ?a ?b] => destruct (acct_eqb_spec a b); subst; cbn [andb orb negb]
  | |- context [denom_eqb ?a ?b] => destruct (denom_eqb_spec a b); subst; cbn [andb orb negb]
  | |- context [N.eqb ?a ?b] => destruct (N.eqb_spec a b); subst; cbn [andb orb negb]
  end.

Ltac fields := cbn [bal sup esc infl nseq com rcpt ackd chans add_bal add_sup add_esc set_bal set_sup set_esc set_infl set_nseq set_com
                    set_rcpt set_ackd write_ack del_infl].

(** * an intermediate chain: forward, then failure of the forwarded packet *)

(** the guard on the denomination: not (unwinding at this chain AND what remains starts with the very channel the
    packet came in on) — such a token cannot sit in that channel's escrow in a world produced by ICS-20, see
    [forward_refund_refuted_without_guard] *)
Definition denom_ok (p : Packet) : Prop :=
  ~ (has_prefix (k_denom p) (k_src_ch p) = true /\ has_prefix (drop_hop (k_denom p)) (k_dst_ch p) = true).

Definition fwd_packet (dst_of : N -> N) (p : Packet) (r : option Acct) (ch s : N) (next : Memo) : Packet :=
  mkP ch (dst_of ch) s (recv_denom (k_dst_ch p) (k_src_ch p) (k_denom p)) (k_amt p) (AOverride (k_dst_ch p) (k_sender p)) r next.

Lemma has_prefix_add_hop c d c' : has_prefix (add_hop c d) c' = (c =? c')%N.
Proof. reflexivity. Qed.

Lemma forward_shape dst_of cs p r ch retries next cs1 :
  k_memo p = MFwd r ch retries next ->
  pfm_on_recv dst_of cs p = (cs1, None) ->
  exists csr css,
    ics_recv cs p (Some (AOverride (k_dst_ch p) (k_sender p))) = Some csr /\
    ics_send csr (AOverride (k_dst_ch p) (k_sender p)) ch (recv_denom (k_dst_ch p) (k_src_ch p) (k_denom p)) (k_amt p) = Some css /\
    In ch (chans cs) /\
    let s := nseq css ch in
    cs1 = set_infl (set_com (set_nseq css (fun c => if (c =? ch)%N then N.succ s else nseq css c))
                            (upd_nn (com css) ch s (Some (fwd_packet dst_of p r ch s next))))
                   (upd_nn (infl css) ch s (Some (mkI (k_dst_ch p) (k_seq p) (Z.of_N retries)))).
Proof.
  intros Hm. unfold pfm_on_recv. rewrite Hm.
  destruct (ics_recv cs p (Some (AOverride (k_dst_ch p) (k_sender p)))) as [csr|] eqn:Er; [|discriminate].
  rewrite pfm_denom_is_credited. unfold do_transfer.
  destruct (existsb (N.eqb ch) (chans csr)) eqn:Ec; cbn [negb]; [|discriminate].
  destruct (ics_send csr _ ch _ (k_amt p)) as [css|] eqn:Es; [|discriminate].
  intros H. inversion H; subst; clear H. exists csr, css. repeat split; auto.
  apply existsb_exists in Ec. destruct Ec as (x & Hin & Hx). apply N.eqb_eq in Hx. subst x.
  revert Hin. clear -Er. unfold ics_recv in Er.
  destruct (k_amt p <=? 0); [discriminate|].
  destruct (has_prefix (k_denom p) (k_src_ch p)).
  - unfold send_coins in Er. destruct (bal cs _ _ <? k_amt p); [discriminate|]. inversion Er; subst. auto.
  - inversion Er; subst. auto.
Qed.

Ltac simp_keys :=
  fields; cbn [acct_eqb andb]; rewrite ?acct_eqb_refl, ?denom_eqb_refl, ?N.eqb_refl; cbn [andb negb].

Ltac ledger :=
  unfold ledger_eq, upd_nn; simp_keys; split; [|split; [|split]]; intros; unfold upd_nn; keys; try lia; try congruence; auto.

Ltac case_ltb H :=
  match goal with |- context [?a <? ?b] => destruct (Z.ltb_spec a b) as [H|_] end.

(** balances, supplies, total escrows agree pointwise *)
Definition bse_eq (a b : CS) : Prop :=
  (forall x d, bal a x d = bal b x d) /\ (forall d, sup a d = sup b d) /\ (forall d, esc a d = esc b d).

(** the bank/escrow effect of "receive into the override account, send on through [ch]" *)
Definition fwd_bse (cs : CS) (p : Packet) (ch : N) : option CS :=
  let ov := AOverride (k_dst_ch p) (k_sender p) in
  match ics_recv cs p (Some ov) with
  | None => None
  | Some csr => ics_send csr ov ch (recv_denom (k_dst_ch p) (k_src_ch p) (k_denom p)) (k_amt p)
  end.

Inductive FwdCase (cs : CS) (p : Packet) (ch : N) (css : CS) : Prop :=
| FC_unwind_burn :
    has_prefix (k_denom p) (k_src_ch p) = true -> has_prefix (drop_hop (k_denom p)) ch = true ->
    k_amt p <= bal cs (AEscrow (k_dst_ch p)) (drop_hop (k_denom p)) ->
    css = add_sup (add_bal (add_esc (add_bal (add_bal cs (AEscrow (k_dst_ch p)) (drop_hop (k_denom p)) (- k_amt p))
                                              (AOverride (k_dst_ch p) (k_sender p)) (drop_hop (k_denom p)) (k_amt p))
                                     (drop_hop (k_denom p)) (- k_amt p))
                            (AOverride (k_dst_ch p) (k_sender p)) (drop_hop (k_denom p)) (- k_amt p))
                  (drop_hop (k_denom p)) (- k_amt p) ->
    FwdCase cs p ch css
| FC_unwind_escrow :
    has_prefix (k_denom p) (k_src_ch p) = true -> has_prefix (drop_hop (k_denom p)) ch = false ->
    k_amt p <= bal cs (AEscrow (k_dst_ch p)) (drop_hop (k_denom p)) ->
    css = add_esc (add_bal (add_bal (add_esc (add_bal (add_bal cs (AEscrow (k_dst_ch p)) (drop_hop (k_denom p)) (- k_amt p))
                                                       (AOverride (k_dst_ch p) (k_sender p)) (drop_hop (k_denom p)) (k_amt p))
                                              (drop_hop (k_denom p)) (- k_amt p))
                                     (AOverride (k_dst_ch p) (k_sender p)) (drop_hop (k_denom p)) (- k_amt p))
                            (AEscrow ch) (drop_hop (k_denom p)) (k_amt p))
                  (drop_hop (k_denom p)) (k_amt p) ->
    FwdCase cs p ch css
| FC_mint_escrow :
    has_prefix (k_denom p) (k_src_ch p) = false ->
    css = add_esc (add_bal (add_bal (add_bal (add_sup cs (add_hop (k_dst_ch p) (k_denom p)) (k_amt p))
                                              (AOverride (k_dst_ch p) (k_sender p)) (add_hop (k_dst_ch p) (k_denom p)) (k_amt p))
                                     (AOverride (k_dst_ch p) (k_sender p)) (add_hop (k_dst_ch p) (k_denom p)) (- k_amt p))
                            (AEscrow ch) (add_hop (k_dst_ch p) (k_denom p)) (k_amt p))
                  (add_hop (k_dst_ch p) (k_denom p)) (k_amt p) ->
    FwdCase cs p ch css.

Lemma fwd_bse_cases cs p ch css :
  k_dst_ch p <> ch -> (forall a d, 0 <= bal cs a d) ->
  fwd_bse cs p ch = Some css -> 0 < k_amt p /\ FwdCase cs p ch css.
Proof.
  intros Hne Hnn. unfold fwd_bse, ics_recv.
  assert (Hne' : (k_dst_ch p =? ch)%N = false) by (apply N.eqb_neq; auto).
  destruct (Z.leb_spec (k_amt p) 0) as [Hle|Hpos]; [discriminate|].
  unfold recv_denom, ics_send. destruct (Z.leb_spec (k_amt p) 0) as [Hle|_]; [lia|].
  destruct (has_prefix (k_denom p) (k_src_ch p)) eqn:Hp.
  - unfold send_coins at 1.
    destruct (Z.ltb_spec (bal cs (AEscrow (k_dst_ch p)) (drop_hop (k_denom p))) (k_amt p)) as [|Hge]; [discriminate|].
    destruct (has_prefix (drop_hop (k_denom p)) ch) eqn:Hp2.
    + simp_keys. case_ltb Hlt; [pose proof (Hnn (AOverride (k_dst_ch p) (k_sender p)) (drop_hop (k_denom p))); lia|].
      intros H. inversion H. split; auto. apply FC_unwind_burn; auto.
    + unfold send_coins. simp_keys. case_ltb Hlt; [pose proof (Hnn (AOverride (k_dst_ch p) (k_sender p)) (drop_hop (k_denom p))); lia|].
      intros H. inversion H. split; auto. apply FC_unwind_escrow; auto.
  - rewrite has_prefix_add_hop, Hne'. unfold send_coins. simp_keys.
    case_ltb Hlt; [pose proof (Hnn (AOverride (k_dst_ch p) (k_sender p)) (add_hop (k_dst_ch p) (k_denom p))); lia|].
    intros H. inversion H. split; auto. apply FC_mint_escrow; auto.
Qed.

(** [cs1] is chain state [cs] after forwarding [p] through [ch]: the forwarded packet is committed under sequence [s],
    its in-flight record has [z] retries left *)
Definition forwarded (cs : CS) (p : Packet) (ch : N) (cs1 : CS) (s : N) (z : Z) : Prop :=
  exists css, fwd_bse cs p ch = Some css /\ bse_eq cs1 css /\
    (forall c s', infl cs1 c s' = if (c =? ch)%N && (s' =? s)%N then Some (mkI (k_dst_ch p) (k_seq p) z) else infl cs c s') /\
    In ch (chans cs1).

Lemma ics_recv_keeps cs p r csr : ics_recv cs p r = Some csr -> infl csr = infl cs /\ chans csr = chans cs /\ nseq csr = nseq cs /\ com csr = com cs.
Proof.
  unfold ics_recv. destruct r; [|discriminate]. destruct (k_amt p <=? 0); [discriminate|].
  destruct (has_prefix _ _).
  - unfold send_coins. destruct (_ <? _); [discriminate|]. intros H; inversion H; auto.
  - intros H; inversion H; auto.
Qed.
Lemma ics_send_keeps cs a ch d x css : ics_send cs a ch d x = Some css -> infl css = infl cs /\ chans css = chans cs /\ nseq css = nseq cs /\ com css = com cs.
Proof.
  unfold ics_send. destruct (x <=? 0); [discriminate|]. destruct (has_prefix _ _).
  - destruct (_ <? _); [discriminate|]. intros H; inversion H; auto.
  - unfold send_coins. destruct (_ <? _); [discriminate|]. intros H; inversion H; auto.
Qed.

(** F0: a successful forward *)
Lemma forward_establishes dst_of cs p r ch retries next cs1 :
  k_memo p = MFwd r ch retries next ->
  pfm_on_recv dst_of cs p = (cs1, None) ->
  let s := nseq cs ch in
  forwarded cs p ch cs1 s (Z.of_N retries) /\
  com cs1 ch s = Some (fwd_packet dst_of p r ch s next) /\ nseq cs1 ch = N.succ s /\
  (forall c, c <> ch -> nseq cs1 c = nseq cs c) /\ rcpt cs1 = rcpt cs /\ ackd cs1 = ackd cs /\ chans cs1 = chans cs.
Proof.
  intros Hm Hr s.
  destruct (forward_shape _ _ _ _ _ _ _ _ Hm Hr) as (csr & css & Er & Es & Hin & Hcs1).
  destruct (ics_recv_keeps _ _ _ _ Er) as (I1 & C1 & N1 & M1).
  destruct (ics_send_keeps _ _ _ _ _ _ Es) as (I2 & C2 & N2 & M2).
  assert (Hs : nseq css ch = s) by (rewrite N2, N1; reflexivity).
  cbn zeta in Hcs1. rewrite Hs in Hcs1. subst cs1. fields. unfold upd_nn. rewrite !N.eqb_refl. cbn [andb].
  split; [|split; [reflexivity|split; [reflexivity|split; [|split; [|split]]]]].
  - exists css. split; [unfold fwd_bse; rewrite Er; exact Es|]. split; [repeat split; auto|]. split.
    + intros c s'. fields. rewrite I2, I1. reflexivity.
    + fields. rewrite C2, C1. auto.
  - intros c Hc. destruct (N.eqb_spec c ch); [contradiction|]. rewrite N2, N1. reflexivity.
  - unfold ics_recv in Er. destruct (k_amt p <=? 0); [discriminate|]. unfold ics_send in Es. destruct (k_amt p <=? 0); [discriminate|].
    revert Er Es. unfold send_coins. repeat match goal with |- context [if ?c then _ else _] => destruct c end; intros; try discriminate;
      inversion Er; subst; inversion Es; subst; reflexivity.
  - unfold ics_recv in Er. destruct (k_amt p <=? 0); [discriminate|]. unfold ics_send in Es. destruct (k_amt p <=? 0); [discriminate|].
    revert Er Es. unfold send_coins. repeat match goal with |- context [if ?c then _ else _] => destruct c end; intros; try discriminate;
      inversion Er; subst; inversion Es; subst; reflexivity.
  - rewrite C2, C1. reflexivity.
Qed.

(** F1: the forwarded packet fails (error acknowledgement, or timeout with no retry left): the three refund branches
    of WriteAcknowledgementForForwardedPacket put every balance, supply and total escrow of this chain back, the
    in-flight record is gone, and an error acknowledgement is written for the previous hop. *)
Lemma forwarded_fail cs p ch cs1 s z f fp z' :
  k_dst_ch p <> ch -> denom_ok p -> (forall a d, 0 <= bal cs a d) -> infl cs ch s = None ->
  forwarded cs p ch cs1 s z ->
  k_denom fp = recv_denom (k_dst_ch p) (k_src_ch p) (k_denom p) -> k_amt fp = k_amt p -> k_src_ch fp = ch ->
  exists cs2, write_forwarded (del_infl (set_com cs1 f) ch s) fp (mkI (k_dst_ch p) (k_seq p) z') false = Some cs2 /\
    ledger_eq cs2 cs /\ ackd cs2 (k_dst_ch p) (k_seq p) = Some false /\
    nseq cs2 = nseq cs1 /\ com cs2 = f /\ rcpt cs2 = rcpt cs1 /\ chans cs2 = chans cs1.
Proof.
  intros Hne Hok Hnn Hinfl (css & Hf & (Hb1 & Hb2 & Hb3) & Hi & Hin) Hd Ha Hc.
  assert (Hne' : (k_dst_ch p =? ch)%N = false) by (apply N.eqb_neq; auto).
  assert (Hne'' : (ch =? k_dst_ch p)%N = false) by (apply N.eqb_neq; auto).
  destruct (fwd_bse_cases _ _ _ _ Hne Hnn Hf) as [Hpos Hcase].
  unfold write_forwarded, refund_forward. rewrite Hd, Ha, Hc. cbn [i_ch i_seq]. unfold recv_denom.
  destruct Hcase as [Hp Hp2 Hge Hcss|Hp Hp2 Hge Hcss|Hp Hcss]; rewrite Hp.
  - rewrite Hp2. cbn [negb]. eexists. split; [reflexivity|]. split; [|split; [|repeat split]].
    + unfold ledger_eq. fields. split; [|split; [|split]]; intros; rewrite ?Hb1, ?Hb2, ?Hb3, ?Hi; subst css; simp_keys; unfold upd_nn; keys; rewrite ?Hi; keys; try lia; try congruence; auto.
    + simp_keys. unfold upd_nn. rewrite !N.eqb_refl. reflexivity.
  - assert (Hp3 : has_prefix (drop_hop (k_denom p)) (k_dst_ch p) = false).
    { destruct (has_prefix (drop_hop (k_denom p)) (k_dst_ch p)) eqn:E; auto. exfalso. apply Hok. auto. }
    rewrite Hp2, Hp3. cbn [negb]. unfold send_coins. fields. rewrite Hb1. subst css. simp_keys. rewrite Hne''. cbn [andb].
    case_ltb Hlt; [pose proof (Hnn (AEscrow ch) (drop_hop (k_denom p))); lia|].
    eexists. split; [reflexivity|]. split; [|split; [|repeat split]].
    + unfold ledger_eq. fields. split; [|split; [|split]]; intros; rewrite ?Hb1, ?Hb2, ?Hb3, ?Hi; simp_keys; unfold upd_nn; keys; rewrite ?Hi; keys; try lia; try congruence; auto.
    + simp_keys. unfold upd_nn. rewrite !N.eqb_refl. reflexivity.
  - rewrite !has_prefix_add_hop, Hne', N.eqb_refl. cbn [negb]. fields. rewrite Hb1. subst css. simp_keys.
    case_ltb Hlt; [pose proof (Hnn (AEscrow ch) (add_hop (k_dst_ch p) (k_denom p))); lia|].
    eexists. split; [reflexivity|]. split; [|split; [|repeat split]].
    + unfold ledger_eq. fields. split; [|split; [|split]]; intros; rewrite ?Hb1, ?Hb2, ?Hb3, ?Hi; simp_keys; unfold upd_nn; keys; rewrite ?Hi; keys; try lia; try congruence; auto.
    + simp_keys. unfold upd_nn. rewrite !N.eqb_refl. reflexivity.
Qed.

(** F3: the forwarded packet is acknowledged successfully *)
Lemma forwarded_success cs p ch cs1 s z f fp :
  infl cs ch s = None -> forwarded cs p ch cs1 s z -> k_src_ch fp = ch -> k_seq fp = s ->
  exists css, fwd_bse cs p ch = Some css /\
    let cs2 := write_ack (del_infl (set_com cs1 f) ch s) (k_dst_ch p) (k_seq p) true in
    pfm_on_ack (set_com cs1 f) fp true = Some cs2 /\ bse_eq cs2 css /\
    (forall c s', infl cs2 c s' = infl cs c s') /\ ackd cs2 (k_dst_ch p) (k_seq p) = Some true.
Proof.
  intros Hinfl (css & Hf & (Hb1 & Hb2 & Hb3) & Hi & Hin) Hc Hs. exists css. split; auto. cbn zeta.
  unfold pfm_on_ack. rewrite Hc, Hs. fields. rewrite Hi, !N.eqb_refl. cbn [andb]. unfold write_forwarded. cbn [i_ch i_seq].
  split; [reflexivity|]. split; [|split].
  - repeat split; intros; fields; auto.
  - intros c s'. fields. unfold upd_nn. keys; rewrite ?Hi; keys; congruence.
  - fields. unfold upd_nn. rewrite !N.eqb_refl. reflexivity.
Qed.

Lemma existsb_in ch l : In ch l -> existsb (N.eqb ch) l = true.
Proof. intros H. apply existsb_exists. exists ch. split; auto. apply N.eqb_refl. Qed.

(** F2: the forwarded packet times out with retries left: refund to the override account, send again; the chain is in
    the same forwarded situation, one retry less, under the next sequence number *)
Lemma forwarded_retry dst_of cs p r ch next cs1 s z f :
  k_dst_ch p <> ch -> (forall a d, 0 <= bal cs a d) -> infl cs ch s = None ->
  forwarded cs p ch cs1 s z -> 0 < z ->
  let fp := fwd_packet dst_of p r ch s next in
  let s2 := nseq cs1 ch in
  exists cs3, pfm_on_timeout dst_of (set_com cs1 f) fp = Some cs3 /\
    forwarded cs p ch cs3 s2 (z - 1) /\
    com cs3 ch s2 = Some (fwd_packet dst_of p r ch s2 next) /\
    (forall c s', (c, s') <> (ch, s2) -> com cs3 c s' = f c s') /\
    nseq cs3 ch = N.succ s2 /\ (forall c, c <> ch -> nseq cs3 c = nseq cs1 c) /\
    rcpt cs3 = rcpt cs1 /\ ackd cs3 = ackd cs1 /\ chans cs3 = chans cs1.
Proof.
  intros Hne Hnn Hinfl (css & Hf & (Hb1 & Hb2 & Hb3) & Hi & Hin) Hz fp s2. subst s2.
  assert (Hne' : (k_dst_ch p =? ch)%N = false) by (apply N.eqb_neq; auto).
  assert (Hne'' : (ch =? k_dst_ch p)%N = false) by (apply N.eqb_neq; auto).
  destruct (fwd_bse_cases _ _ _ _ Hne Hnn Hf) as [Hpos Hcase].
  unfold pfm_on_timeout, fp, fwd_packet. cbn [k_src_ch k_seq k_denom k_amt k_sender k_recv k_memo]. fields.
  rewrite Hi, !N.eqb_refl. cbn [andb i_retries i_ch i_seq].
  destruct (Z.leb_spec z 0) as [|_]; [lia|].
  unfold ics_refund. cbn [k_src_ch k_seq k_denom k_amt k_sender k_recv k_memo]. unfold recv_denom.
  destruct Hcase as [Hp Hp2 Hge Hcss|Hp Hp2 Hge Hcss|Hp Hcss]; rewrite Hp.
  - rewrite Hp2. unfold do_transfer. fields. rewrite (existsb_in _ _ Hin). cbn [negb].
    unfold ics_send. destruct (Z.leb_spec (k_amt p) 0) as [|_]; [lia|]. rewrite Hp2. simp_keys. rewrite Hb1. subst css. simp_keys.
    case_ltb Hlt; [pose proof (Hnn (AOverride (k_dst_ch p) (k_sender p)) (drop_hop (k_denom p))); lia|].
    eexists. split; [reflexivity|]. fields. unfold upd_nn. rewrite !N.eqb_refl. cbn [andb].
    split; [|split; [reflexivity|split; [|split; [reflexivity|split; [|auto]]]]].
    + eexists. split; [exact Hf|]. split; [|split].
      * repeat split; intros; fields; rewrite ?Hb1, ?Hb2, ?Hb3; simp_keys; keys; try lia; auto.
      * intros c s'. fields. unfold upd_nn. keys; rewrite ?Hi; keys; try congruence; auto.
      * fields. auto.
    + intros c s' Hcs. keys; auto. congruence.
    + intros c Hc. keys; auto. congruence.
  - rewrite Hp2. unfold send_coins at 1. fields. rewrite Hb1. subst css. simp_keys. rewrite ?Hne', ?Hne''. cbn [andb].
    case_ltb Hlt; [pose proof (Hnn (AEscrow ch) (drop_hop (k_denom p))); lia|].
    unfold do_transfer. fields. rewrite (existsb_in _ _ Hin). cbn [negb].
    unfold ics_send. destruct (Z.leb_spec (k_amt p) 0) as [|_]; [lia|]. rewrite Hp2. unfold send_coins. simp_keys. rewrite Hb1. simp_keys. rewrite ?Hne', ?Hne''. cbn [andb].
    case_ltb Hlt; [pose proof (Hnn (AOverride (k_dst_ch p) (k_sender p)) (drop_hop (k_denom p))); lia|].
    eexists. split; [reflexivity|]. fields. unfold upd_nn. rewrite !N.eqb_refl. cbn [andb].
    split; [|split; [reflexivity|split; [|split; [reflexivity|split; [|auto]]]]].
    + eexists. split; [exact Hf|]. split; [|split].
      * repeat split; intros; fields; rewrite ?Hb1, ?Hb2, ?Hb3; simp_keys; keys; try lia; auto.
      * intros c s'. fields. unfold upd_nn. keys; rewrite ?Hi; keys; try congruence; auto.
      * fields. auto.
    + intros c s' Hcs. keys; auto. congruence.
    + intros c Hc. keys; auto. congruence.
  - rewrite has_prefix_add_hop, Hne'. unfold send_coins at 1. fields. rewrite Hb1. subst css. simp_keys. rewrite ?Hne', ?Hne''. cbn [andb].
    case_ltb Hlt; [pose proof (Hnn (AEscrow ch) (add_hop (k_dst_ch p) (k_denom p))); lia|].
    unfold do_transfer. fields. rewrite (existsb_in _ _ Hin). cbn [negb].
    unfold ics_send. destruct (Z.leb_spec (k_amt p) 0) as [|_]; [lia|]. rewrite has_prefix_add_hop, Hne'. unfold send_coins. simp_keys. rewrite Hb1. simp_keys. rewrite ?Hne', ?Hne''. cbn [andb].
    case_ltb Hlt; [pose proof (Hnn (AOverride (k_dst_ch p) (k_sender p)) (add_hop (k_dst_ch p) (k_denom p))); lia|].
    eexists. split; [reflexivity|]. fields. unfold upd_nn. rewrite !N.eqb_refl. cbn [andb].
    split; [|split; [reflexivity|split; [|split; [reflexivity|split; [|auto]]]]].
    + eexists. split; [exact Hf|]. split; [|split].
      * repeat split; intros; fields; rewrite ?Hb1, ?Hb2, ?Hb3; simp_keys; keys; try lia; auto.
      * intros c s'. fields. unfold upd_nn. keys; rewrite ?Hi; keys; try congruence; auto.
      * fields. auto.
    + intros c s' Hcs. keys; auto. congruence.
    + intros c Hc. keys; auto. congruence.
Qed.

(** * the whole life of one forward on an intermediate chain *)

(** [j] timeouts of the forwarded packet, each answered by a retry (what rstep does on RTimeout: delete the commitment,
    run the timeout callback; the retried packet is the commitment under the channel's next sequence) *)
Fixpoint retries_then (dst_of : N -> N) (j : nat) (cs1 : CS) (fp : Packet) : option (CS * Packet) :=
  match j with
  | O => Some (cs1, fp)
  | S j' =>
      let ch := k_src_ch fp in
      match pfm_on_timeout dst_of (set_com cs1 (upd_nn (com cs1) ch (k_seq fp) None)) fp with
      | None => None
      | Some cs2 =>
          match com cs2 ch (nseq cs1 ch) with
          | Some fp2 => retries_then dst_of j' cs2 fp2
          | None => None
          end
      end
  end.

Lemma retries_chain dst_of cs p r ch next :
  k_dst_ch p <> ch -> (forall a d, 0 <= bal cs a d) -> (forall s', (nseq cs ch <= s')%N -> infl cs ch s' = None) ->
  forall j cs1 s z,
    forwarded cs p ch cs1 s z -> com cs1 ch s = Some (fwd_packet dst_of p r ch s next) -> nseq cs1 ch = N.succ s ->
    (nseq cs ch <= s)%N -> Z.of_nat j <= z ->
    exists csj sj,
      retries_then dst_of j cs1 (fwd_packet dst_of p r ch s next) = Some (csj, fwd_packet dst_of p r ch sj next) /\
      forwarded cs p ch csj sj (z - Z.of_nat j) /\ com csj ch sj = Some (fwd_packet dst_of p r ch sj next) /\
      nseq csj ch = N.succ sj /\ (nseq cs ch <= sj)%N.
Proof.
  intros Hne Hnn Hfresh. induction j as [|j IH]; intros cs1 s z Hfw Hcom Hns Hle Hj.
  - exists cs1, s. cbn [retries_then]. replace (z - Z.of_nat 0) with z by lia. auto.
  - cbn [retries_then]. change (k_src_ch (fwd_packet dst_of p r ch s next)) with ch.
    change (k_seq (fwd_packet dst_of p r ch s next)) with s.
    destruct (forwarded_retry dst_of cs p r ch next cs1 s z (upd_nn (com cs1) ch s None) Hne Hnn (Hfresh s Hle) Hfw ltac:(lia))
      as (cs3 & Ht & Hfw3 & Hcom3 & _ & Hns3 & _).
    cbn zeta in Ht, Hfw3, Hcom3, Hns3. rewrite Ht, Hcom3.
    destruct (IH cs3 (nseq cs1 ch) (z - 1) Hfw3 Hcom3 Hns3 ltac:(lia) ltac:(lia)) as (csj & sj & H1 & H2 & H3 & H4 & H5).
    exists csj, sj. split; [exact H1|]. split; [|auto]. replace (z - Z.of_nat (S j)) with (z - 1 - Z.of_nat j) by lia. auto.
Qed.

Lemma fwd_bse_override_unchanged cs p ch css :
  k_dst_ch p <> ch -> (forall a d, 0 <= bal cs a d) -> fwd_bse cs p ch = Some css ->
  forall d, bal css (AOverride (k_dst_ch p) (k_sender p)) d = bal cs (AOverride (k_dst_ch p) (k_sender p)) d.
Proof.
  intros Hne Hnn Hf d. destruct (fwd_bse_cases _ _ _ _ Hne Hnn Hf) as [_ [Hp Hp2 Hge ->|Hp Hp2 Hge ->|Hp ->]]; simp_keys; keys; lia.
Qed.

(** Theorem (intermediate chain, every failure position and retry count). A chain in state [cs] receives a packet
    [p] carrying a forward memo and forwards it (async acknowledgement).  Then, after any number [j <= retries] of
    timeouts answered by retries:
    - if the forwarded packet is acknowledged with an error, or times out when no retry is left, every balance,
      voucher supply, total escrow and in-flight record of this chain is back to its value in [cs], and an error
      acknowledgement is written for [p];
    - if it is acknowledged successfully, the override account holds what it held in [cs], no in-flight record is
      left, the bank/escrow state is exactly "ICS-20 receive into the override account, ICS-20 send from it", and a
      success acknowledgement is written for [p]. *)
Theorem intermediate_chain dst_of cs p r ch retries next cs1 :
  k_memo p = MFwd r ch retries next -> k_dst_ch p <> ch -> denom_ok p ->
  (forall a d, 0 <= bal cs a d) -> (forall s', (nseq cs ch <= s')%N -> infl cs ch s' = None) ->
  pfm_on_recv dst_of cs p = (cs1, None) ->
  forall j, Z.of_nat j <= Z.of_N retries ->
  exists csj sj,
    let fpj := fwd_packet dst_of p r ch sj next in
    let csd := set_com csj (upd_nn (com csj) ch sj None) in
    retries_then dst_of j cs1 (fwd_packet dst_of p r ch (nseq cs ch) next) = Some (csj, fpj) /\
    com csj ch sj = Some fpj /\
    (* error acknowledgement *)
    (exists cs2, pfm_on_ack csd fpj false = Some cs2 /\ ledger_eq cs2 cs /\ ackd cs2 (k_dst_ch p) (k_seq p) = Some false) /\
    (* timeout with no retry left *)
    (Z.of_N retries - Z.of_nat j <= 0 ->
     exists cs2, pfm_on_timeout dst_of csd fpj = Some cs2 /\ ledger_eq cs2 cs /\ ackd cs2 (k_dst_ch p) (k_seq p) = Some false) /\
    (* success *)
    (exists cs2 css, pfm_on_ack csd fpj true = Some cs2 /\ fwd_bse cs p ch = Some css /\ bse_eq cs2 css /\
       (forall d, bal cs2 (AOverride (k_dst_ch p) (k_sender p)) d = bal cs (AOverride (k_dst_ch p) (k_sender p)) d) /\
       (forall c s', infl cs2 c s' = infl cs c s') /\ ackd cs2 (k_dst_ch p) (k_seq p) = Some true).
Proof.
  intros Hm Hne Hok Hnn Hfresh Hr j Hj.
  destruct (forward_establishes _ _ _ _ _ _ _ _ Hm Hr) as (Hfw & Hcom & Hns & _).
  destruct (retries_chain dst_of cs p r ch next Hne Hnn Hfresh j cs1 (nseq cs ch) (Z.of_N retries) Hfw Hcom Hns ltac:(lia) Hj)
    as (csj & sj & H1 & H2 & H3 & H4 & H5).
  exists csj, sj. cbn zeta. split; [exact H1|]. split; [exact H3|].
  pose proof H2 as (css & Hf & Hb & Hi & Hin).
  split; [|split].
  - unfold pfm_on_ack. cbn [fwd_packet k_src_ch k_seq]. fields. rewrite Hi, !N.eqb_refl. cbn [andb].
    destruct (forwarded_fail cs p ch csj sj _ (upd_nn (com csj) ch sj None) (fwd_packet dst_of p r ch sj next) (Z.of_N retries - Z.of_nat j)
                Hne Hok Hnn (Hfresh sj H5) H2 eq_refl eq_refl eq_refl) as (cs2 & E & L & A & _).
    exists cs2. auto.
  - intros Hz. unfold pfm_on_timeout. cbn [fwd_packet k_src_ch k_seq]. fields. rewrite Hi, !N.eqb_refl. cbn [andb i_retries].
    destruct (Z.leb_spec (Z.of_N retries - Z.of_nat j) 0) as [_|]; [|lia].
    destruct (forwarded_fail cs p ch csj sj _ (upd_nn (com csj) ch sj None) (fwd_packet dst_of p r ch sj next) (Z.of_N retries - Z.of_nat j)
                Hne Hok Hnn (Hfresh sj H5) H2 eq_refl eq_refl eq_refl) as (cs2 & E & L & A & _).
    exists cs2. auto.
  - destruct (forwarded_success cs p ch csj sj _ (upd_nn (com csj) ch sj None) (fwd_packet dst_of p r ch sj next) (Hfresh sj H5) H2 eq_refl eq_refl)
      as (css' & Hf' & E & B & I & A).
    eexists. exists css'. split; [exact E|]. split; [exact Hf'|]. split; [exact B|]. split; [|split; [exact I|exact A]].
    intros d. rewrite (proj1 B). apply (fwd_bse_override_unchanged cs p ch css' Hne Hnn Hf').
Qed.

(** * the origin chain: a refund (error acknowledgement or timeout) puts everything back; success debits the sender *)
Theorem origin_refund_restores cs dst_ch sender ch d x recv memo cs1 s :
  (forall a d, 0 <= bal cs a d) -> infl cs ch (nseq cs ch) = None ->
  do_transfer cs dst_ch sender ch d x recv memo = Some (cs1, s) ->
  let pkt := mkP ch dst_ch s d x sender recv memo in
  let csd := set_com cs1 (upd_nn (com cs1) ch s None) in
  s = nseq cs ch /\ com cs1 ch s = Some pkt /\
  (exists cs2, pfm_on_ack csd pkt false = Some cs2 /\ ledger_eq cs2 cs) /\
  (exists cs2, pfm_on_timeout (fun _ => dst_ch) csd pkt = Some cs2 /\ ledger_eq cs2 cs) /\
  pfm_on_ack csd pkt true = Some csd /\
  (sender <> AEscrow ch -> bal csd sender d = bal cs sender d - x).
Proof.
  intros Hnn Hinfl. unfold do_transfer. destruct (existsb (N.eqb ch) (chans cs)); cbn [negb]; [|discriminate].
  unfold ics_send. destruct (Z.leb_spec x 0) as [|Hpos]; [discriminate|].
  destruct (has_prefix d ch) eqn:Hp.
  - destruct (Z.ltb_spec (bal cs sender d) x) as [|Hge]; [discriminate|].
    intros H; inversion H; subst; clear H. cbn zeta. fields. unfold upd_nn. rewrite !N.eqb_refl. cbn [andb].
    split; [reflexivity|]. split; [reflexivity|].
    unfold pfm_on_ack, pfm_on_timeout, ics_refund. cbn [k_src_ch k_seq k_denom k_amt k_sender]. fields. unfold upd_nn.
    rewrite ?N.eqb_refl; cbn [andb]; rewrite ?Hinfl, ?Hp; cbn [andb].
    split; [|split; [|split]].
    + eexists. split; [reflexivity|]. ledger.
    + eexists. split; [reflexivity|]. ledger.
    + reflexivity.
    + intros _. simp_keys. lia.
  - unfold send_coins. destruct (Z.ltb_spec (bal cs sender d) x) as [|Hge]; [discriminate|].
    intros H; inversion H; subst; clear H. cbn zeta. fields. unfold upd_nn. rewrite !N.eqb_refl. cbn [andb].
    split; [reflexivity|]. split; [reflexivity|].
    unfold pfm_on_ack, pfm_on_timeout, ics_refund, send_coins. cbn [k_src_ch k_seq k_denom k_amt k_sender]. fields. unfold upd_nn.
    rewrite ?N.eqb_refl; cbn [andb]; rewrite ?Hinfl, ?Hp; cbn [andb]. fields. rewrite ?acct_eqb_refl, ?denom_eqb_refl. cbn [andb].
    repeat match goal with |- context [?a <? x] =>
      let Hb := fresh "Hb" in
      assert (Hb : a <? x = false) by (apply Z.ltb_ge; pose proof (Hnn (AEscrow ch) d); keys; lia); rewrite Hb; clear Hb end.
    split; [|split; [|split]].
    + eexists. split; [reflexivity|]. ledger.
    + eexists. split; [reflexivity|]. ledger.
    + reflexivity.
    + intros Hs. fields. rewrite ?acct_eqb_refl, ?denom_eqb_refl. cbn [andb]. keys; try lia; congruence.
Qed.

(** * the final chain: a successful plain receive credits the receiver with the full amount *)
Theorem final_receive_credits dst_of cs p a cs1 :
  k_memo p = MNone -> k_recv p = Some a -> pfm_on_recv dst_of cs p = (cs1, Some true) ->
  bal cs1 a (recv_denom (k_dst_ch p) (k_src_ch p) (k_denom p)) =
    bal cs a (recv_denom (k_dst_ch p) (k_src_ch p) (k_denom p)) + (if acct_eqb a (AEscrow (k_dst_ch p)) then 0 else k_amt p)
  \/ has_prefix (k_denom p) (k_src_ch p) = false /\
     bal cs1 a (add_hop (k_dst_ch p) (k_denom p)) = bal cs a (add_hop (k_dst_ch p) (k_denom p)) + k_amt p.
Proof.
  intros Hm Hr. unfold pfm_on_recv. rewrite Hm, Hr. unfold ics_recv, recv_denom.
  destruct (k_amt p <=? 0); [discriminate|].
  destruct (has_prefix (k_denom p) (k_src_ch p)) eqn:Hp.
  - unfold send_coins. destruct (_ <? _); [discriminate|]. intros H; inversion H; subst; clear H. left. simp_keys.
    destruct (acct_eqb_spec a (AEscrow (k_dst_ch p))); cbn [andb]; lia.
  - intros H; inversion H; subst; clear H. right. split; auto. simp_keys. lia.
Qed.

(** and an error acknowledgement on receive leaves the receiving chain's state untouched (core discards the callback) *)
Theorem receive_error_unchanged dst_of cs p cs1 : pfm_on_recv dst_of cs p = (cs1, Some false) -> cs1 = cs.
Proof.
  unfold pfm_on_recv. destruct (k_memo p).
  - destruct (ics_recv cs p (k_recv p)); intros H; inversion H; auto.
  - destruct (ics_recv cs p _); [|intros H; inversion H; auto].
    destruct (do_transfer _ _ _ _ _ _ _ _) as [[? ?]|]; intros H; inversion H; auto.
Qed.

(** * the guard [denom_ok] is needed: a token that unwinds at this chain and whose remaining trace starts with the
    channel it came in on is "refunded" by burning it, and the refund escrow stays short *)
Definition bad_world_cs : CS :=
  mkCS (fun a d => if acct_eqb a (AEscrow 1) && denom_eqb d (mkD [1%N] 1%N) then 100 else 0)
       (fun d => if denom_eqb d (mkD [1%N] 1%N) then 100 else 0) (fun d => if denom_eqb d (mkD [1%N] 1%N) then 100 else 0)
       (fun _ _ => None) (fun _ => 1%N) (fun _ _ => None) (fun _ _ => false) (fun _ _ => None) [1%N; 2%N].
Definition bad_packet : Packet := mkP 7 1 1 (mkD [7%N; 1%N] 1%N) 10 (AUser 1) None (MFwd (Some (AUser 2)) 2 0 MNone).

Theorem forward_refund_refuted_without_guard :
  exists cs p cs1 fp cs2,
    ~ denom_ok p /\ k_dst_ch p <> 2%N /\
    pfm_on_recv (fun _ => 9%N) cs p = (cs1, None) /\ com cs1 2 1 = Some fp /\
    pfm_on_ack (set_com cs1 (upd_nn (com cs1) 2 1 None)) fp false = Some cs2 /\
    bal cs (AEscrow 1) (mkD [1%N] 1%N) = 100 /\ bal cs2 (AEscrow 1) (mkD [1%N] 1%N) = 90 /\
    sup cs (mkD [1%N] 1%N) = 100 /\ sup cs2 (mkD [1%N] 1%N) = 90.
Proof.
  exists bad_world_cs, bad_packet. eexists. eexists. eexists.
  split; [intros H; apply H; vm_compute; auto|]. split; [discriminate|].
  split; [vm_compute; reflexivity|]. split; [vm_compute; reflexivity|]. split; [vm_compute; reflexivity|].
  vm_compute. auto.
Qed.

(** * whole routes, bounded: a line of four chains, every outcome vector *)
Definition line_peer : Peer := fun c ch =>
  match c, ch with
  | 0%N, 0%N => (1%N, 1%N) | 1%N, 1%N => (0%N, 0%N)
  | 1%N, 2%N => (2%N, 3%N) | 2%N, 3%N => (1%N, 2%N)
  | 2%N, 4%N => (3%N, 5%N) | 3%N, 5%N => (2%N, 4%N)
  | _, _ => (9%N, 9%N)
  end.
Definition native : Denom := mkD [] 1.
Definition line_cs (chs : list N) : CS :=
  mkCS (fun a d => match a with AUser _ => if denom_eqb d native then 1000 else 0 | _ => 0 end)
       (fun d => if denom_eqb d native then 5000 else 0) (fun _ => 0) (fun _ _ => None) (fun _ => 1%N) (fun _ _ => None)
       (fun _ _ => false) (fun _ _ => None) chs.
Definition line_world : World := fun c =>
  match c with 0%N => line_cs [0%N] | 1%N => line_cs [1%N; 2%N] | 2%N => line_cs [3%N; 4%N] | _ => line_cs [5%N] end.

Definition ov1 (u : N) : Acct := AOverride 1 (AUser u).
Definition ov2 (u : N) : Acct := AOverride 3 (ov1 u).
Definition rov1 (u : N) : Acct := AOverride 4 (AUser u).
Definition rov2 (u : N) : Acct := AOverride 2 (rov1 u).
Definition line_accts : list Acct :=
  [AUser 1; AUser 2; AEscrow 0; AEscrow 1; AEscrow 2; AEscrow 3; AEscrow 4; AEscrow 5; ov1 1; ov2 1; rov1 1; rov2 1].
Definition line_denoms : list Denom :=
  [native; mkD [1%N] 1; mkD [3%N; 1%N] 1; mkD [5%N; 3%N; 1%N] 1; mkD [4%N] 1; mkD [2%N; 4%N] 1; mkD [0%N; 2%N; 4%N] 1].
Definition line_chains : list N := [0%N; 1%N; 2%N; 3%N].

Definition no_inflight (cs : CS) : bool :=
  forallb (fun ch => forallb (fun s => match infl cs ch s with None => true | Some _ => false end) [1%N; 2%N; 3%N; 4%N; 5%N; 6%N]) (chans cs).
Definition same_ledger (a b : CS) : bool :=
  forallb (fun d => (sup a d =? sup b d) && (esc a d =? esc b d) && forallb (fun x => bal a x d =? bal b x d) line_accts) line_denoms.
Definition overrides_empty (a b : CS) : bool :=
  forallb (fun d => forallb (fun x => match x with AOverride _ _ => bal a x d =? bal b x d | _ => true end) line_accts) line_denoms.

(** all-or-nothing at quiescence: either every chain's ledger is exactly what it was, or the sender paid [amt] and the
    receiver got [amt] (of the denomination [dfin] on the last chain) while no override account changed; never an
    in-flight record left *)
Definition all_or_nothing (w w' : World) (c0 cn : N) (sender recv : Acct) (d dfin : Denom) (amt : Z) : bool :=
  forallb (fun c => no_inflight (w' c)) line_chains &&
  (forallb (fun c => same_ledger (w' c) (w c)) line_chains
   || ((bal (w' c0) sender d =? bal (w c0) sender d - amt) && (bal (w' cn) recv dfin =? bal (w cn) recv dfin + amt) &&
       forallb (fun c => overrides_empty (w' c) (w c)) line_chains)).

Definition three : list nat := [0%nat; 1%nat; 2%nat].
Definition threeN : list N := [0%N; 1%N; 2%N].

(** forward 0 -> 1 -> 2 -> 3 of chain 0's native token (every hop escrows and mints), for all timeouts per hop in
    {0,1,2}, retries per forward hop in {0,1,2}, valid and invalid final receiver, existing and missing forward channel *)
Definition forward_cases_ok : bool :=
  forallb (fun t0 => forallb (fun t1 => forallb (fun t2 => forallb (fun r1 => forallb (fun r2 =>
  forallb (fun recv => forallb (fun ch2 =>
    let memo := MFwd None 2 r1 (MFwd recv ch2 r2 MNone) in
    let w' := route_run line_peer line_world 0 (AUser 1) 0 native 100 None memo [mkH t0; mkH t1; mkH t2] in
    all_or_nothing line_world w' 0 3 (AUser 1) (AUser 2) native (mkD [5%N; 3%N; 1%N] 1) 100)
  [4%N; 77%N]) [Some (AUser 2); None]) threeN) threeN) three) three) three.

(** the way back 3 -> 2 -> 1 -> 0 of that voucher (every hop burns and unescrows: unwinding), same outcome space *)
Definition line_world_back : World :=
  route_run line_peer line_world 0 (AUser 1) 0 native 300 None (MFwd None 2 0 (MFwd (Some (AUser 1)) 4 0 MNone)) [mkH 0; mkH 0; mkH 0].
Definition unwind_cases_ok : bool :=
  forallb (fun t0 => forallb (fun t1 => forallb (fun t2 => forallb (fun r1 => forallb (fun r2 =>
  forallb (fun recv => forallb (fun ch2 =>
    let memo := MFwd None 3 r1 (MFwd recv ch2 r2 MNone) in
    let w' := route_run line_peer line_world_back 3 (AUser 1) 5 (mkD [5%N; 3%N; 1%N] 1) 100 None memo [mkH t0; mkH t1; mkH t2] in
    all_or_nothing line_world_back w' 3 0 (AUser 1) (AUser 2) (mkD [5%N; 3%N; 1%N] 1) native 100)
  [1%N; 77%N]) [Some (AUser 2); None]) threeN) threeN) three) three) three.

(** a token native to chain 2, first moved to chain 0, then forwarded 0 -> 1 -> 2 -> 3: unwinds twice, then winds *)
Definition line_world_mid : World :=
  route_run line_peer line_world 2 (AUser 1) 3 native 300 None (MFwd (Some (AUser 1)) 1 0 MNone) [mkH 0; mkH 0].
Definition mixed_cases_ok : bool :=
  forallb (fun t0 => forallb (fun t1 => forallb (fun t2 => forallb (fun r1 => forallb (fun r2 =>
  forallb (fun recv =>
    let memo := MFwd None 2 r1 (MFwd recv 4 r2 MNone) in
    let w' := route_run line_peer line_world_mid 0 (AUser 1) 0 (mkD [0%N; 2%N] 1) 100 None memo [mkH t0; mkH t1; mkH t2] in
    all_or_nothing line_world_mid w' 0 3 (AUser 1) (AUser 2) (mkD [0%N; 2%N] 1) (mkD [5%N] 1) 100)
  [Some (AUser 2); None]) threeN) threeN) three) three) three.

Theorem routes_bounded_all_or_nothing : forward_cases_ok = true /\ unwind_cases_ok = true /\ mixed_cases_ok = true.
Proof. vm_compute. auto. Qed.

(** and the positive outcomes really occur (the disjunction above is not satisfied by refunds alone) *)
Example route_success_delivers :
  let w' := route_run line_peer line_world 0 (AUser 1) 0 native 100 None (MFwd None 2 0 (MFwd (Some (AUser 2)) 4 0 MNone)) [mkH 0; mkH 0; mkH 0] in
  bal (w' 3%N) (AUser 2) (mkD [5%N; 3%N; 1%N] 1) = 100 /\ bal (w' 0%N) (AUser 1) native = 900 /\
  bal (w' 1%N) (AEscrow 2) (mkD [1%N] 1) = 100 /\ sup (w' 2%N) (mkD [3%N; 1%N] 1) = 100.
Proof. vm_compute. auto. Qed.
