(** C41 — proofs about the rate-limit model: refinement of the ghost log, quota rule, undo at most once,
    error-ack receives, window resets. *)
From IBC Require Import Lib.Bytes PfmRl.RateLimit PfmRl.RateLimitSpec.
Local Open Scope Z_scope.

(** * keys *)
Lemma path_eqb_eq a b : path_eqb a b = true <-> a = b.
Proof.
  destruct a as [a1 a2], b as [b1 b2]. unfold path_eqb. cbn [fst snd].
  rewrite andb_true_iff, !N.eqb_eq. split.
  - intros [H1 H2]. subst. reflexivity.
  - intros H. inversion H. auto.
Qed.
Lemma path_eqb_refl a : path_eqb a a = true.
Proof. apply path_eqb_eq. reflexivity. Qed.
Lemma path_eqb_neq a b : a <> b -> path_eqb a b = false.
Proof. intros H. destruct (path_eqb a b) eqn:E; auto. apply path_eqb_eq in E. contradiction. Qed.
Lemma path_dec (a b : Path) : {a = b} + {a <> b}.
Proof. destruct (path_eqb a b) eqn:E. left. apply path_eqb_eq. auto. right. intros H. subst. rewrite path_eqb_refl in E. discriminate. Qed.

Lemma upd_same {A} (f : Path -> A) p v : upd f p v p = v.
Proof. unfold upd. rewrite path_eqb_refl. reflexivity. Qed.
Lemma upd_other {A} (f : Path -> A) p v p' : p' <> p -> upd f p v p' = f p'.
Proof. intros H. unfold upd. rewrite path_eqb_neq; auto. Qed.
Lemma upd2_same f p s v : upd2 f p s v p s = v.
Proof. unfold upd2. rewrite path_eqb_refl, N.eqb_refl. reflexivity. Qed.
Lemma upd2_path f p s v s' : upd2 f p s v p s' = if (s' =? s)%N then v else f p s'.
Proof. unfold upd2. rewrite path_eqb_refl. reflexivity. Qed.
Lemma upd2_other f p s v p' s' : p' <> p -> upd2 f p s v p' s' = f p' s'.
Proof. intros H. unfold upd2. rewrite path_eqb_neq; auto. Qed.

(** * live lists *)
Lemma live_remove_in seq l s a : In (s, a) (live_remove seq l) -> In (s, a) l /\ s <> seq.
Proof.
  induction l as [|[s0 a0] l IH]; cbn [live_remove]; [intros []|].
  destruct (N.eqb_spec s0 seq) as [E|E].
  - intros H. apply IH in H. destruct H. split; [right|]; auto.
  - intros [H|H].
    + inversion H; subst. split; [left|]; auto.
    + apply IH in H. destruct H. split; [right|]; auto.
Qed.
Lemma live_remove_keys seq l s : In s (map fst (live_remove seq l)) <-> In s (map fst l) /\ s <> seq.
Proof.
  induction l as [|[s0 a0] l IH]; cbn [live_remove map fst]; [tauto|].
  destruct (N.eqb_spec s0 seq) as [E|E]; cbn [map fst In].
  - rewrite IH. subst. split; [intros [H1 H2]; auto| intros [[H|H] H2]; [congruence|auto]].
  - rewrite IH. split.
    + intros [H|[H1 H2]]; [subst; auto|auto].
    + intros [[H|H] H2]; auto.
Qed.
Lemma live_remove_nodup seq l : NoDup (map fst l) -> NoDup (map fst (live_remove seq l)).
Proof.
  induction l as [|[s0 a0] l IH]; cbn [live_remove map fst]; [auto|].
  intros H. inversion H as [|x y Hn Hd]; subst.
  destruct (N.eqb_spec s0 seq); auto.
  cbn [map fst]. constructor; auto. rewrite live_remove_keys. tauto.
Qed.
Lemma live_sum_remove_le seq l : (forall s a, In (s, a) l -> 0 <= a) -> live_sum (live_remove seq l) <= live_sum l.
Proof.
  induction l as [|[s0 a0] l IH]; cbn [live_remove live_sum]; intros H; [lia|].
  assert (0 <= a0) by (apply (H s0); left; auto).
  assert (live_sum (live_remove seq l) <= live_sum l) by (apply IH; intros; eapply H; right; eauto).
  destruct (s0 =? seq)%N; cbn [live_sum]; lia.
Qed.
Lemma live_sum_nonneg l : (forall s a, In (s, a) l -> 0 <= a) -> 0 <= live_sum l.
Proof.
  induction l as [|[s0 a0] l IH]; cbn [live_sum]; intros H; [lia|].
  assert (0 <= a0) by (apply (H s0); left; auto).
  assert (0 <= live_sum l) by (apply IH; intros; eapply H; right; eauto). lia.
Qed.
Lemma live_find_some seq l a : live_find seq l = Some a -> In (seq, a) l.
Proof.
  induction l as [|[s0 a0] l IH]; cbn [live_find]; [discriminate|].
  destruct (N.eqb_spec s0 seq); intros H; [inversion H; subst; left; auto| right; auto].
Qed.
Lemma live_find_none seq l : live_find seq l = None <-> ~ In seq (map fst l).
Proof.
  induction l as [|[s0 a0] l IH]; cbn [live_find map fst In]; [tauto|].
  destruct (N.eqb_spec s0 seq); [split; [discriminate|intros H; exfalso; apply H; auto]|].
  rewrite IH. tauto.
Qed.
Lemma live_sum_remove_found seq l a :
  NoDup (map fst l) -> live_find seq l = Some a -> live_sum (live_remove seq l) = live_sum l - a.
Proof.
  induction l as [|[s0 a0] l IH]; cbn [live_find live_remove live_sum map fst]; [discriminate|].
  intros Hn Hf. inversion Hn as [|x y Hni Hd]; subst.
  destruct (N.eqb_spec s0 seq) as [E|E].
  - inversion Hf; subst.
    assert (Hnone : live_find seq l = None) by (apply live_find_none; auto).
    clear IH Hf Hn. revert Hnone. clear. induction l as [|[s1 a1] l IH]; cbn [live_find live_remove live_sum]; intros H; [lia|].
    destruct (N.eqb_spec s1 seq); [discriminate|]. cbn [live_sum]. specialize (IH H). lia.
  - cbn [live_sum]. rewrite IH; auto. lia.
Qed.

(** * the invariant of one direction of one path *)
Definition side_ok (A : N -> Z) (f : Z) (pend : N -> bool) (gs : GSide) : Prop :=
  f = g_acc gs - g_undone gs /\ 0 <= g_undone gs /\ live_sum (g_live gs) <= f /\
  (forall s a, In (s, a) (g_live gs) -> 0 <= a /\ a = A s) /\
  NoDup (map fst (g_live gs)) /\
  (forall s, pend s = true <-> In s (map fst (g_live gs))).

Lemma side_ok_new A : side_ok A 0 (fun _ => false) gs0.
Proof.
  unfold side_ok, gs0; cbn. split; [lia|]. split; [lia|]. split; [lia|]. split; [tauto|]. split; [constructor|].
  intros s. split; [discriminate|tauto].
Qed.

Lemma side_ok_ext A f pend pend' gs :
  (forall s, pend' s = pend s) -> side_ok A f pend gs -> side_ok A f pend' gs.
Proof.
  intros He (H1 & H2 & H3 & H4 & H5 & H6).
  split; [auto|]. split; [auto|]. split; [auto|]. split; [auto|]. split; [auto|].
  intros s. rewrite He. apply H6.
Qed.

Lemma live_nonneg_of (A : N -> Z) (l : list (N * Z)) : (forall s a, In (s, a) l -> 0 <= a /\ a = A s) -> forall s a, In (s, a) l -> 0 <= a.
Proof. intros H s a Hin. apply (H s a Hin). Qed.

Lemma live_remove_keeps (A : N -> Z) seq (l : list (N * Z)) :
  (forall s a, In (s, a) l -> 0 <= a /\ a = A s) -> forall s a, In (s, a) (live_remove seq l) -> 0 <= a /\ a = A s.
Proof. intros H s a Hin. apply live_remove_in in Hin. apply H. tauto. Qed.

Lemma pend_after_remove (pend : N -> bool) l seq :
  (forall s, pend s = true <-> In s (map fst l)) ->
  forall s, (if (s =? seq)%N then false else pend s) = true <-> In s (map fst (live_remove seq l)).
Proof.
  intros H6 s. rewrite live_remove_keys. destruct (N.eqb_spec s seq) as [E|E].
  - split; [discriminate|tauto].
  - rewrite H6. tauto.
Qed.

Lemma side_ok_accept A f pend gs seq a :
  side_ok A f pend gs -> 0 <= a -> a = A seq ->
  side_ok A (f + a) (fun s => if (s =? seq)%N then true else pend s) (gs_accept gs seq a).
Proof.
  intros (H1 & H2 & H3 & H4 & H5 & H6) Ha HA. unfold side_ok, gs_accept. cbn [g_acc g_undone g_live].
  assert (Hle := live_sum_remove_le seq (g_live gs) (live_nonneg_of _ _ H4)).
  split; [lia|]. split; [lia|]. split; [cbn [live_sum]; lia|]. split; [|split].
  - intros s a0 [Hin|Hin]; [inversion Hin; subst; auto| eapply live_remove_keeps; eauto].
  - cbn [map fst]. constructor; [rewrite live_remove_keys; tauto| apply live_remove_nodup; auto].
  - intros s. cbn [map fst In]. rewrite live_remove_keys. destruct (N.eqb_spec s seq) as [E|E].
    + split; auto.
    + rewrite H6. split; [intros Hin; right; auto| intros [Hq|Hq]; [congruence|tauto]].
Qed.

Lemma side_ok_final A f pend gs seq :
  side_ok A f pend gs -> side_ok A f (fun s => if (s =? seq)%N then false else pend s) (gs_final gs seq).
Proof.
  intros (H1 & H2 & H3 & H4 & H5 & H6). unfold side_ok, gs_final. cbn [g_acc g_undone g_live].
  assert (Hle := live_sum_remove_le seq (g_live gs) (live_nonneg_of _ _ H4)).
  split; [lia|]. split; [lia|]. split; [lia|]. split; [|split].
  - eapply live_remove_keeps; eauto.
  - apply live_remove_nodup; auto.
  - apply pend_after_remove; auto.
Qed.

(** the implementation's undo (flow - amt, clamped at 0, marker dropped) against the ghost refund *)
Lemma side_ok_refund A f pend gs seq a :
  side_ok A f pend gs -> a = A seq -> pend seq = true ->
  side_ok A (if f - a <? 0 then 0 else f - a) (fun s => if (s =? seq)%N then false else pend s) (gs_refund gs seq).
Proof.
  intros Hs HA Hp. pose proof Hs as (H1 & H2 & H3 & H4 & H5 & H6).
  apply H6 in Hp. unfold gs_refund.
  destruct (live_find seq (g_live gs)) as [a0|] eqn:Hf; [|apply live_find_none in Hf; contradiction].
  pose proof (live_find_some _ _ _ Hf) as Hin. destruct (H4 _ _ Hin) as [Ha0 Heq].
  assert (a0 = a) by congruence. subst a0.
  pose proof (live_sum_remove_found _ _ _ H5 Hf) as Hsum.
  assert (Hle := live_sum_remove_le seq (g_live gs) (live_nonneg_of _ _ H4)).
  assert (Hnn : 0 <= live_sum (live_remove seq (g_live gs))).
  { apply live_sum_nonneg. intros s a0 Hi. apply live_remove_in in Hi. apply (H4 s a0). tauto. }
  assert (Hge : 0 <= f - a) by lia.
  destruct (Z.ltb_spec (f - a) 0); [lia|].
  unfold side_ok. cbn [g_acc g_undone g_live].
  split; [lia|]. split; [lia|]. split; [lia|]. split; [|split].
  - eapply live_remove_keeps; eauto.
  - apply live_remove_nodup; auto.
  - apply pend_after_remove; auto.
Qed.

Lemma side_ok_refund_absent A f pend gs seq :
  side_ok A f pend gs -> pend seq = false -> gs_refund gs seq = gs.
Proof.
  intros (H1 & H2 & H3 & H4 & H5 & H6) Hp. unfold gs_refund.
  destruct (live_find seq (g_live gs)) as [a0|] eqn:Hf; auto.
  apply live_find_some in Hf. assert (In seq (map fst (g_live gs))) by (apply (in_map fst) in Hf; auto).
  apply H6 in H. congruence.
Qed.

(** * the invariant of a state/ghost pair *)
Definition Inv (A : Dir -> Path -> N -> Z) (st : State) (g : Ghost) : Prop :=
  forall p rl, limits st p = Some rl ->
    side_ok (A DSend p) (f_out (rl_flow rl)) (psend st p) (g_send g p) /\
    side_ok (A DRecv p) (f_in (rl_flow rl)) (precv st p) (g_recv g p).

Lemma Inv_init A num start dur : Inv A (init_state num start dur) ghost0.
Proof. intros p rl H. discriminate. Qed.

Definition same_config (st st' : State) : Prop :=
  (forall p, limits st p = None <-> limits st' p = None) /\ (forall a b, white st a b = white st' a b).

Lemma counted_same st st' pk : same_config st st' -> counted st pk = counted st' pk.
Proof.
  intros [H1 H2]. unfold counted. rewrite H2.
  destruct (limits st (pk_path pk)) eqn:E, (limits st' (pk_path pk)) eqn:E'; auto.
  - apply H1 in E'. congruence.
  - apply H1 in E. congruence.
Qed.

Lemma same_config_refl st : same_config st st.
Proof. split; tauto. Qed.

(** ** accepting a packet *)
Lemma check_and_update_spec st d pk :
  match check_and_update st d pk with
  | CkErr => True
  | CkNoUpdate => counted st pk = false
  | CkUpdated st' =>
      counted st pk = true /\
      exists rl rl', limits st (pk_path pk) = Some rl /\ update_flow rl d (pk_amt pk) = Some rl' /\
                     st' = set_limit st (pk_path pk) rl'
  end.
Proof.
  unfold check_and_update, counted.
  destruct (black st (fst (pk_path pk))); auto.
  destruct (limits st (pk_path pk)) as [rl|] eqn:El; auto.
  destruct (white st (pk_from pk) (pk_to pk)); auto.
  destruct (update_flow rl d (pk_amt pk)) as [rl'|] eqn:Eu; auto.
  split; auto. exists rl, rl'. auto.
Qed.

Lemma update_flow_send rl amt rl' :
  update_flow rl DSend amt = Some rl' ->
  f_out (rl_flow rl') = f_out (rl_flow rl) + amt /\ f_in (rl_flow rl') = f_in (rl_flow rl).
Proof.
  unfold update_flow, add_outflow. destruct (check_exceeds_quota _ _ _ _); cbn; [discriminate|].
  intros H. inversion H. cbn. auto.
Qed.
Lemma update_flow_recv rl amt rl' :
  update_flow rl DRecv amt = Some rl' ->
  f_in (rl_flow rl') = f_in (rl_flow rl) + amt /\ f_out (rl_flow rl') = f_out (rl_flow rl).
Proof.
  unfold update_flow, add_inflow. destruct (check_exceeds_quota _ _ _ _); cbn; [discriminate|].
  intros H. inversion H. cbn. auto.
Qed.

Lemma Inv_send A st g pk st' :
  Inv A st g -> 0 <= pk_amt pk -> pk_amt pk = A DSend (pk_path pk) (pk_seq pk) ->
  send_rate_limited st pk = Some st' ->
  Inv A st' (g_accept st g DSend pk) /\ same_config st st'.
Proof.
  intros HI Ha HA. unfold send_rate_limited, g_accept.
  pose proof (check_and_update_spec st DSend pk) as Hc.
  destruct (check_and_update st DSend pk) as [| |st1]; [discriminate| |].
  - intros H. inversion H; subst. rewrite Hc. split; [auto|apply same_config_refl].
  - destruct Hc as (Hcnt & rl & rl' & Hl & Hu & ->). rewrite Hcnt.
    intros H. inversion H; subst; clear H.
    apply update_flow_send in Hu. destruct Hu as [Ho Hi].
    split.
    + intros p rl0. cbn [limits set_psend set_limit psend precv g_set g_send g_recv g_side].
      destruct (path_dec p (pk_path pk)) as [->|Hne].
      * rewrite !upd_same. intros H; inversion H; subst rl0; clear H.
        destruct (HI _ _ Hl) as [Hs Hr]. split.
        -- rewrite Ho. eapply side_ok_ext; [|apply side_ok_accept; eauto].
           intros s. rewrite upd2_path. reflexivity.
        -- rewrite Hi. auto.
      * rewrite !upd_other by auto. intros H. destruct (HI _ _ H) as [Hs Hr]. split; auto.
        eapply side_ok_ext; [|eauto]. intros s. rewrite upd2_other; auto.
    + split; cbn [limits set_psend set_limit white].
      * intros p. destruct (path_dec p (pk_path pk)) as [->|Hne]; [rewrite upd_same, Hl; split; discriminate| rewrite upd_other; tauto].
      * auto.
Qed.

Lemma Inv_recv A st g pk st' :
  Inv A st g -> 0 <= pk_amt pk -> pk_amt pk = A DRecv (pk_path pk) (pk_seq pk) ->
  receive_rate_limited st pk = Some st' ->
  Inv A st' (g_accept st g DRecv pk) /\ same_config st st'.
Proof.
  intros HI Ha HA. unfold receive_rate_limited, g_accept.
  pose proof (check_and_update_spec st DRecv pk) as Hc.
  destruct (check_and_update st DRecv pk) as [| |st1]; [discriminate| |].
  - intros H. inversion H; subst. rewrite Hc. split; [auto|apply same_config_refl].
  - destruct Hc as (Hcnt & rl & rl' & Hl & Hu & ->). rewrite Hcnt.
    intros H. inversion H; subst; clear H.
    apply update_flow_recv in Hu. destruct Hu as [Hi Ho].
    split.
    + intros p rl0. cbn [limits set_precv set_limit psend precv g_set g_send g_recv g_side].
      destruct (path_dec p (pk_path pk)) as [->|Hne].
      * rewrite !upd_same. intros H; inversion H; subst rl0; clear H.
        destruct (HI _ _ Hl) as [Hs Hr]. split.
        -- rewrite Ho. auto.
        -- rewrite Hi. eapply side_ok_ext; [|apply side_ok_accept; eauto].
           intros s. rewrite upd2_path. reflexivity.
      * rewrite !upd_other by auto. intros H. destruct (HI _ _ H) as [Hs Hr]. split; auto.
        eapply side_ok_ext; [|eauto]. intros s. rewrite upd2_other; auto.
    + split; cbn [limits set_precv set_limit white].
      * intros p. destruct (path_dec p (pk_path pk)) as [->|Hne]; [rewrite upd_same, Hl; split; discriminate| rewrite upd_other; tauto].
      * auto.
Qed.

(** ** refunds and finalisations *)
Lemma Inv_undo_send A st g pk :
  Inv A st g -> pk_amt pk = A DSend (pk_path pk) (pk_seq pk) ->
  Inv A (undo_send st (pk_path pk) (pk_seq pk) (pk_amt pk)) (g_refund g DSend pk) /\
  same_config st (undo_send st (pk_path pk) (pk_seq pk) (pk_amt pk)).
Proof.
  intros HI HA. unfold undo_send, g_refund. cbn [g_side].
  destruct (limits st (pk_path pk)) as [rl|] eqn:El.
  - destruct (HI _ _ El) as [Hs Hr].
    destruct (psend st (pk_path pk) (pk_seq pk)) eqn:Ep.
    + split.
      * intros p rl0. cbn [limits set_psend set_limit psend precv g_set g_send g_recv].
        destruct (path_dec p (pk_path pk)) as [->|Hne].
        -- rewrite !upd_same. intros H; inversion H; subst rl0; clear H. cbn [rl_flow f_out f_in]. split; auto.
           eapply side_ok_ext; [|apply side_ok_refund; eauto]. intros s. rewrite upd2_path. reflexivity.
        -- rewrite !upd_other by auto. intros H. destruct (HI _ _ H). split; auto.
           eapply side_ok_ext; [|eauto]. intros s. rewrite upd2_other; auto.
      * split; cbn [limits set_psend set_limit white]; auto.
        intros p. destruct (path_dec p (pk_path pk)) as [->|Hne]; [rewrite upd_same, El; split; discriminate| rewrite upd_other; tauto].
    + rewrite (side_ok_refund_absent _ _ _ _ _ Hs Ep). split; [|apply same_config_refl].
      intros p rl0 H. destruct (HI _ _ H). cbn [g_set g_send g_recv].
      destruct (path_dec p (pk_path pk)) as [->|Hne]; [rewrite upd_same| rewrite upd_other by auto]; split; auto.
  - split; [|split; cbn; tauto].
    intros p rl0. cbn [limits set_psend psend precv g_set g_send g_recv].
    destruct (path_dec p (pk_path pk)) as [->|Hne]; [rewrite El; discriminate|].
    rewrite upd_other by auto. intros H. destruct (HI _ _ H). split; auto.
    eapply side_ok_ext; [|eauto]. intros s. rewrite upd2_other; auto.
Qed.

Lemma Inv_undo_recv A st g pk :
  Inv A st g -> pk_amt pk = A DRecv (pk_path pk) (pk_seq pk) ->
  Inv A (undo_receive st (pk_path pk) (pk_seq pk) (pk_amt pk)) (g_refund g DRecv pk) /\
  same_config st (undo_receive st (pk_path pk) (pk_seq pk) (pk_amt pk)).
Proof.
  intros HI HA. unfold undo_receive, g_refund. cbn [g_side].
  destruct (limits st (pk_path pk)) as [rl|] eqn:El.
  - destruct (HI _ _ El) as [Hs Hr].
    destruct (precv st (pk_path pk) (pk_seq pk)) eqn:Ep.
    + split.
      * intros p rl0. cbn [limits set_precv set_limit psend precv g_set g_send g_recv].
        destruct (path_dec p (pk_path pk)) as [->|Hne].
        -- rewrite !upd_same. intros H; inversion H; subst rl0; clear H. cbn [rl_flow f_out f_in]. split; auto.
           eapply side_ok_ext; [|apply side_ok_refund; eauto]. intros s. rewrite upd2_path. reflexivity.
        -- rewrite !upd_other by auto. intros H. destruct (HI _ _ H). split; auto.
           eapply side_ok_ext; [|eauto]. intros s. rewrite upd2_other; auto.
      * split; cbn [limits set_precv set_limit white]; auto.
        intros p. destruct (path_dec p (pk_path pk)) as [->|Hne]; [rewrite upd_same, El; split; discriminate| rewrite upd_other; tauto].
    + rewrite (side_ok_refund_absent _ _ _ _ _ Hr Ep). split; [|apply same_config_refl].
      intros p rl0 H. destruct (HI _ _ H). cbn [g_set g_send g_recv].
      destruct (path_dec p (pk_path pk)) as [->|Hne]; [rewrite upd_same| rewrite upd_other by auto]; split; auto.
  - split; [|split; cbn; tauto].
    intros p rl0. cbn [limits set_precv psend precv g_set g_send g_recv].
    destruct (path_dec p (pk_path pk)) as [->|Hne]; [rewrite El; discriminate|].
    rewrite upd_other by auto. intros H. destruct (HI _ _ H). split; auto.
    eapply side_ok_ext; [|eauto]. intros s. rewrite upd2_other; auto.
Qed.

Lemma Inv_final_send A st g pk :
  Inv A st g -> Inv A (set_psend st (pk_path pk) (pk_seq pk) false) (g_final g DSend pk).
Proof.
  intros HI p rl0. unfold g_final. cbn [limits set_psend psend precv g_set g_send g_recv g_side].
  intros H. destruct (HI _ _ H) as [Hs Hr].
  destruct (path_dec p (pk_path pk)) as [->|Hne].
  - rewrite upd_same. split; auto. eapply side_ok_ext; [|apply side_ok_final; eauto]. intros s. rewrite upd2_path. reflexivity.
  - rewrite upd_other by auto. split; auto. eapply side_ok_ext; [|eauto]. intros s. rewrite upd2_other; auto.
Qed.

Lemma Inv_final_recv A st g pk :
  Inv A st g -> Inv A (set_precv st (pk_path pk) (pk_seq pk) false) (g_final g DRecv pk).
Proof.
  intros HI p rl0. unfold g_final. cbn [limits set_precv psend precv g_set g_send g_recv g_side].
  intros H. destruct (HI _ _ H) as [Hs Hr].
  destruct (path_dec p (pk_path pk)) as [->|Hne].
  - rewrite upd_same. split; auto. eapply side_ok_ext; [|apply side_ok_final; eauto]. intros s. rewrite upd2_path. reflexivity.
  - rewrite upd_other by auto. split; auto. eapply side_ok_ext; [|eauto]. intros s. rewrite upd2_other; auto.
Qed.

(** ** windows *)
Lemma Inv_window A st g p rl :
  Inv A st g -> rl_flow rl = zero_flow (f_cv (rl_flow rl)) ->
  Inv A (clear_pending (set_limit st p rl) p) (g_window g p).
Proof.
  intros HI Hz p' rl0. unfold g_window. cbn [limits clear_pending set_limit psend precv g_send g_recv].
  destruct (path_dec p' p) as [->|Hne].
  - rewrite !upd_same. intros H; inversion H; subst rl0; clear H. rewrite Hz. cbn [zero_flow f_in f_out].
    split; (eapply side_ok_ext; [|apply side_ok_new]); intros s; unfold clear_path; rewrite path_eqb_refl; reflexivity.
  - rewrite !upd_other by auto. intros H. destruct (HI _ _ H). split.
    + eapply side_ok_ext; [|eauto]. intros s. unfold clear_path. rewrite path_eqb_neq; auto.
    + eapply side_ok_ext; [|eauto]. intros s. unfold clear_path. rewrite path_eqb_neq; auto.
Qed.

Lemma Inv_remove A st g p : Inv A st g -> Inv A (del_limit st p) (g_window g p).
Proof.
  intros HI p' rl0. unfold g_window. cbn [limits del_limit psend precv g_send g_recv].
  destruct (path_dec p' p) as [->|Hne]; [rewrite upd_same; discriminate|].
  rewrite !upd_other by auto. intros H. apply (HI _ _ H).
Qed.

Lemma Inv_begin_block A st g t sup c :
  Inv A st g -> Inv A (begin_block st t (sup_of sup)) (gstep st g (OBeginBlock t sup) c).
Proof.
  intros HI. unfold begin_block, gstep, epoch_starts.
  destruct (ep_dur st =? 0); cbn [negb andb]; auto.
  destruct (t >? ep_start st + ep_dur st); auto.
  intros p rl0. cbn [limits psend precv g_send g_recv]. unfold epoch_hits.
  destruct (limits st p) as [rl|] eqn:El; [|discriminate].
  destruct (epoch_resets (N.succ (ep_num st)) rl).
  - intros H; inversion H; subst; clear H. cbn [rl_flow zero_flow f_in f_out]. split; apply side_ok_new.
  - intros H; inversion H; subst; clear H. apply (HI _ _ El).
Qed.

Lemma Inv_config A st st' g :
  (forall p, limits st' p = limits st p) -> (forall p s, psend st' p s = psend st p s) ->
  (forall p s, precv st' p s = precv st p s) -> Inv A st g -> Inv A st' g.
Proof.
  intros H1 H2 H3 HI p rl H. rewrite H1 in H. destruct (HI _ _ H). split; eapply side_ok_ext; eauto.
Qed.

(** * one step *)
Definition wf_op (A : Dir -> Path -> N -> Z) (o : Op) : Prop :=
  forall d pk, In (d, pk) (mentions o) -> 0 <= pk_amt pk /\ pk_amt pk = A d (pk_path pk) (pk_seq pk).

Lemma of_opt_admin st auth o :
  (admin st auth o = (st, cls_err) /\ (auth = false \/ o = None)) \/ (exists st', o = Some st' /\ auth = true /\ admin st auth o = (st', cls_ok)).
Proof.
  unfold admin, of_opt. destruct auth; [|left; auto]. destruct o; [right; eauto|left; auto].
Qed.

Lemma Inv_step A st g o :
  Inv A st g -> wf_op A o -> Inv A (fst (step st o)) (gstep st g o (snd (step st o))).
Proof.
  intros HI Hwf. destruct o; cbn [step].
  - (* begin block *) cbn [fst snd]. apply Inv_begin_block; auto.
  - (* send *)
    destruct (Hwf DSend pk) as [Ha HA]; [cbn; auto|].
    destruct (send_rate_limited st pk) as [st'|] eqn:E; cbn [fst snd gstep]; auto.
    destruct env_ok; cbn [fst snd is_ok]; auto. cbn. eapply Inv_send; eauto.
  - (* recv *)
    destruct (Hwf DRecv pk) as [Ha HA]; [cbn; auto|].
    unfold core_recv, mw_on_recv.
    destruct (receive_rate_limited st pk) as [st1|] eqn:E; cbn [fst snd gstep]; auto.
    destruct (Inv_recv _ _ _ _ _ HI Ha HA E) as [HI1 Hc].
    destruct app; cbn [fst snd]; cbn; auto.
    apply Inv_final_recv; auto.
  - (* recv + forward *)
    destruct (Hwf DRecv pk) as [Ha HA]; [cbn; auto|].
    destruct (Hwf DSend pk2) as [Ha2 HA2]; [cbn; auto|].
    destruct (receive_rate_limited st pk) as [st1|] eqn:E; cbn [fst snd gstep]; auto.
    destruct (Inv_recv _ _ _ _ _ HI Ha HA E) as [HI1 Hc].
    destruct (send_rate_limited st1 pk2) as [st2|] eqn:E2; cbn [fst snd]; auto.
    destruct env_ok; cbn [fst snd]; cbn; auto.
    destruct (Inv_send _ _ _ _ _ HI1 Ha2 HA2 E2) as [HI2 Hc2].
    unfold g_accept at 1. rewrite (counted_same _ _ pk2 Hc). apply HI2.
  - (* timeout + retry *)
    destruct (Hwf DSend pk) as [Ha HA]; [cbn; auto|].
    destruct (Hwf DSend pk2) as [Ha2 HA2]; [cbn; auto|].
    unfold timeout.
    destruct (Inv_undo_send _ _ _ pk HI HA) as [HI1 Hc].
    destruct (send_rate_limited _ pk2) as [st2|] eqn:E2; cbn [fst snd gstep]; auto.
    destruct env_ok; cbn [fst snd]; cbn; auto.
    destruct (Inv_send _ _ _ _ _ HI1 Ha2 HA2 E2) as [HI2 Hc2].
    unfold g_accept at 1. rewrite (counted_same _ _ pk2 Hc). apply HI2.
  - (* write ack *)
    destruct (Hwf DRecv pk) as [Ha HA]; [cbn; auto|].
    cbn [fst snd gstep]. unfold mw_write_ack. destruct success.
    + apply Inv_final_recv; auto.
    + apply Inv_undo_recv; auto.
  - (* ack *)
    destruct (Hwf DSend pk) as [Ha HA]; [cbn; auto|].
    cbn [fst snd gstep]. unfold acknowledge. destruct success.
    + apply Inv_final_send; auto.
    + apply Inv_undo_send; auto.
  - (* timeout *)
    destruct (Hwf DSend pk) as [Ha HA]; [cbn; auto|].
    cbn [fst snd gstep]. unfold timeout. apply Inv_undo_send; auto.
  - (* add *)
    destruct (of_opt_admin st auth (add_rate_limit st p q cv chan_exists)) as [[-> _]|(st' & Ho & _ & ->)]; cbn [fst snd gstep is_ok]; auto.
    cbn. unfold add_rate_limit in Ho. destruct (cv =? 0); [discriminate|].
    destruct (limits st p); [discriminate|]. destruct chan_exists; [|discriminate].
    inversion Ho; subst. apply Inv_window; auto.
  - (* update *)
    destruct (of_opt_admin st auth (update_rate_limit st p q cv)) as [[-> _]|(st' & Ho & _ & ->)]; cbn [fst snd gstep is_ok]; auto.
    cbn. unfold update_rate_limit in Ho. destruct (limits st p); [|discriminate].
    inversion Ho; subst. apply Inv_window; auto.
  - (* remove *)
    destruct (of_opt_admin st auth (remove_rate_limit st p)) as [[-> _]|(st' & Ho & _ & ->)]; cbn [fst snd gstep is_ok]; auto.
    cbn. unfold remove_rate_limit in Ho. destruct (limits st p); [|discriminate].
    inversion Ho; subst. apply Inv_remove; auto.
  - (* reset *)
    destruct (of_opt_admin st auth (reset_rate_limit st p cv)) as [[-> _]|(st' & Ho & _ & ->)]; cbn [fst snd gstep is_ok]; auto.
    cbn. unfold reset_rate_limit in Ho. destruct (limits st p); [|discriminate].
    inversion Ho; subst. apply Inv_window; auto.
  - (* blacklist *) cbn [fst snd gstep]. eapply Inv_config; eauto.
  - (* whitelist *) cbn [fst snd gstep]. eapply Inv_config; eauto.
Qed.

Lemma Inv_grun A ops : forall st g,
  Inv A st g -> (forall o, In o ops -> wf_op A o) -> Inv A (fst (grun st g ops)) (snd (grun st g ops)).
Proof.
  induction ops as [|o ops IH]; intros st g HI Hwf; cbn [grun]; auto.
  apply IH.
  - apply Inv_step; auto. apply Hwf. left; auto.
  - intros o' Hin. apply Hwf. right; auto.
Qed.

Lemma grun_fst ops : forall st g, fst (grun st g ops) = run st ops.
Proof.
  induction ops as [|o ops IH]; intros st g; cbn [grun run fold_left]; auto.
  rewrite IH. reflexivity.
Qed.

(** * the refinement theorem *)
Theorem flows_refine_ghost A num start dur ops p rl :
  wf_ops A ops ->
  limits (run (init_state num start dur) ops) p = Some rl ->
  let g := snd (grun (init_state num start dur) ghost0 ops) in
  f_out (rl_flow rl) = g_acc (g_send g p) - g_undone (g_send g p) /\
  f_in (rl_flow rl) = g_acc (g_recv g p) - g_undone (g_recv g p) /\
  0 <= g_undone (g_send g p) <= g_acc (g_send g p) /\
  0 <= g_undone (g_recv g p) <= g_acc (g_recv g p) /\
  0 <= f_out (rl_flow rl) /\ 0 <= f_in (rl_flow rl) /\
  (forall s, psend (run (init_state num start dur) ops) p s = true <-> In s (map fst (g_live (g_send g p)))) /\
  (forall s, precv (run (init_state num start dur) ops) p s = true <-> In s (map fst (g_live (g_recv g p)))).
Proof.
  intros Hwf Hl g.
  assert (HI : Inv A (fst (grun (init_state num start dur) ghost0 ops)) g).
  { apply Inv_grun; [apply Inv_init|]. intros o Hin d pk Hm. eapply Hwf; eauto. }
  rewrite grun_fst in HI. destruct (HI _ _ Hl) as [(S1 & S2 & S3 & S4 & S5 & S6) (R1 & R2 & R3 & R4 & R5 & R6)].
  assert (0 <= live_sum (g_live (g_send g p))).
  { clear -S4. induction (g_live (g_send g p)) as [|[s a] l IH]; cbn [live_sum]; [lia|].
    assert (0 <= a) by (apply (S4 s a); left; auto). assert (0 <= live_sum l) by (apply IH; intros; apply (S4 s0 a0); right; auto). lia. }
  assert (0 <= live_sum (g_live (g_recv g p))).
  { clear -R4. induction (g_live (g_recv g p)) as [|[s a] l IH]; cbn [live_sum]; [lia|].
    assert (0 <= a) by (apply (R4 s a); left; auto). assert (0 <= live_sum l) by (apply IH; intros; apply (R4 s0 a0); right; auto). lia. }
  repeat split; auto; try lia; try apply S6; try apply R6.
Qed.

(** * each packet is undone at most once *)
Lemma undo_send_marker_gone st p seq amt : psend (undo_send st p seq amt) p seq = false \/ (limits st p <> None /\ psend st p seq = false).
Proof.
  unfold undo_send. destruct (limits st p) eqn:E.
  - destruct (psend st p seq) eqn:Ep.
    + left. cbn [psend set_psend set_limit]. apply upd2_same.
    + right. split; [discriminate|auto].
  - left. cbn [psend set_psend]. apply upd2_same.
Qed.

Lemma undo_send_not_pending st p seq amt : psend st p seq = false -> limits st p <> None -> undo_send st p seq amt = st.
Proof.
  intros Hp Hl. unfold undo_send. destruct (limits st p); [|contradiction]. rewrite Hp. reflexivity.
Qed.
Lemma undo_receive_not_pending st p seq amt : precv st p seq = false -> limits st p <> None -> undo_receive st p seq amt = st.
Proof.
  intros Hp Hl. unfold undo_receive. destruct (limits st p); [|contradiction]. rewrite Hp. reflexivity.
Qed.

Lemma undo_send_twice st p seq amt amt' :
  limits (undo_send (undo_send st p seq amt) p seq amt') p = limits (undo_send st p seq amt) p.
Proof.
  destruct (undo_send_marker_gone st p seq amt) as [H|[Hl Hp]].
  - unfold undo_send at 1. destruct (limits (undo_send st p seq amt) p) eqn:E; [rewrite H; auto| cbn; auto].
  - rewrite (undo_send_not_pending st p seq amt Hp Hl). rewrite (undo_send_not_pending st p seq amt' Hp Hl). reflexivity.
Qed.

Lemma undo_receive_twice st p seq amt amt' :
  limits (undo_receive (undo_receive st p seq amt) p seq amt') p = limits (undo_receive st p seq amt) p.
Proof.
  assert (Hm : precv (undo_receive st p seq amt) p seq = false \/ (limits st p <> None /\ precv st p seq = false)).
  { unfold undo_receive. destruct (limits st p) eqn:E.
    - destruct (precv st p seq) eqn:Ep; [left; cbn [precv set_precv set_limit]; apply upd2_same| right; split; [discriminate|auto]].
    - left. cbn [precv set_precv]. apply upd2_same. }
  destruct Hm as [H|[Hl Hp]].
  - unfold undo_receive at 1. destruct (limits (undo_receive st p seq amt) p) eqn:E; [rewrite H; auto| cbn; auto].
  - rewrite (undo_receive_not_pending st p seq amt Hp Hl). rewrite (undo_receive_not_pending st p seq amt' Hp Hl). reflexivity.
Qed.

(** * the quota rule *)
Definition within_quota (d : Dir) (rl : RateLimit) (amt : Z) : Prop :=
  let f := rl_flow rl in
  f_cv f = 0 \/
  match d with
  | DSend => f_out f - f_in f + amt <= Z.quot (f_cv f * q_send (rl_quota rl)) 100
  | DRecv => f_in f - f_out f + amt <= Z.quot (f_cv f * q_recv (rl_quota rl)) 100
  end.

Lemma update_flow_iff rl d amt : (exists rl', update_flow rl d amt = Some rl') <-> within_quota d rl amt.
Proof.
  unfold update_flow, add_outflow, add_inflow, check_exceeds_quota, within_quota.
  destruct d; destruct (Z.eqb_spec (f_cv (rl_flow rl)) 0) as [E|E]; cbn.
  - split; eauto.
  - destruct (Z.gtb_spec (f_out (rl_flow rl) - f_in (rl_flow rl) + amt) (Z.quot (f_cv (rl_flow rl) * q_send (rl_quota rl)) 100)); cbn.
    + split; [intros [? H0]; discriminate| intros [H0|H0]; [contradiction|lia]].
    + split; eauto.
  - split; eauto.
  - destruct (Z.gtb_spec (f_in (rl_flow rl) - f_out (rl_flow rl) + amt) (Z.quot (f_cv (rl_flow rl) * q_recv (rl_quota rl)) 100)); cbn.
    + split; [intros [? H0]; discriminate| intros [H0|H0]; [contradiction|lia]].
    + split; eauto.
Qed.

(** the rate limiter lets a packet through iff its denom is not blacklisted and (there is no rate limit on the
    path, or the address pair is whitelisted, or the net flow in its direction stays within the quota) *)
Definition rl_allows (st : State) (d : Dir) (pk : Pkt) : Prop :=
  black st (fst (pk_path pk)) = false /\
  match limits st (pk_path pk) with
  | None => True
  | Some rl => white st (pk_from pk) (pk_to pk) = true \/ within_quota d rl (pk_amt pk)
  end.

Lemma check_allows st d pk : check_and_update st d pk <> CkErr <-> rl_allows st d pk.
Proof.
  unfold check_and_update, rl_allows.
  destruct (black st (fst (pk_path pk))); [split; [congruence|intros [H _]; discriminate]|].
  destruct (limits st (pk_path pk)) as [rl|]; [|split; [auto|discriminate]].
  destruct (white st (pk_from pk) (pk_to pk)); [split; [auto|discriminate]|].
  pose proof (update_flow_iff rl d (pk_amt pk)) as Hu.
  destruct (update_flow rl d (pk_amt pk)) as [rl'|].
  - split; [intros _; split; auto; right; apply Hu; eauto|discriminate].
  - split; [congruence|]. intros [_ [H|H]]; [discriminate|]. apply Hu in H. destruct H; discriminate.
Qed.

Theorem send_accepted_iff st pk env_ok :
  snd (step st (OSend pk env_ok)) = cls_ok <-> rl_allows st DSend pk /\ env_ok = true.
Proof.
  cbn [step]. rewrite <- check_allows. unfold send_rate_limited.
  destruct (check_and_update st DSend pk); cbn [snd].
  - split; [discriminate|intros [H _]; contradiction].
  - destruct env_ok; cbn; split; auto; try discriminate; try (intros [_ H]; discriminate). intros _; split; [discriminate|auto].
  - destruct env_ok; cbn; split; auto; try discriminate; try (intros [_ H]; discriminate). intros _; split; [discriminate|auto].
Qed.

Theorem recv_ack_class st pk app :
  snd (step st (ORecv pk app)) =
  match app with AppErr => cls_err | AppOk => cls_ok | AppAsync => cls_async end \/
  (snd (step st (ORecv pk app)) = cls_err /\ ~ rl_allows st DRecv pk).
Proof.
  cbn [step]. unfold core_recv, mw_on_recv, receive_rate_limited. rewrite <- check_allows.
  destruct (check_and_update st DRecv pk); cbn [snd fst].
  - right. split; auto.
  - left. destruct app; reflexivity.
  - left. destruct app; reflexivity.
Qed.

Theorem recv_accepted_iff st pk app :
  snd (step st (ORecv pk app)) <> cls_err <-> rl_allows st DRecv pk /\ app <> AppErr.
Proof.
  cbn [step]. unfold core_recv, mw_on_recv, receive_rate_limited. rewrite <- check_allows.
  destruct (check_and_update st DRecv pk); cbn [snd fst].
  - split; [intros H; exfalso; apply H; reflexivity| intros [H _]; contradiction].
  - destruct app; cbn; split; try discriminate; try (intros H; exfalso; apply H; reflexivity); try (intros [_ H]; contradiction);
      intros _; split; discriminate.
  - destruct app; cbn; split; try discriminate; try (intros H; exfalso; apply H; reflexivity); try (intros [_ H]; contradiction);
      intros _; split; discriminate.
Qed.

(** * a receive answered by an error acknowledgement changes nothing *)
Theorem recv_error_ack_unchanged st pk app :
  snd (step st (ORecv pk app)) = cls_err -> fst (step st (ORecv pk app)) = st.
Proof.
  cbn [step]. unfold core_recv, cls_ok, cls_err, cls_async. destruct (mw_on_recv st pk app) as [st1 a]; cbn [fst snd].
  destruct a; cbn [fst snd]; auto; discriminate.
Qed.
Theorem recvfwd_error_ack_unchanged st pk pk2 env_ok :
  snd (step st (ORecvFwd pk pk2 env_ok)) = cls_err -> fst (step st (ORecvFwd pk pk2 env_ok)) = st.
Proof.
  cbn [step]. unfold cls_ok, cls_err, cls_async. destruct (receive_rate_limited st pk); cbn [fst snd]; auto.
  destruct (send_rate_limited s pk2); cbn [fst snd]; auto. destruct env_ok; cbn [fst snd]; auto; discriminate.
Qed.
(** ... while the middleware alone (without core's cache context) would have kept the inflow: *)
Lemma mw_on_recv_app_error_keeps_inflow :
  exists st pk, snd (mw_on_recv st pk AppErr) = AckErr /\
                option_map (fun rl => f_in (rl_flow rl)) (limits (fst (mw_on_recv st pk AppErr)) (pk_path pk)) = Some 7 /\
                option_map (fun rl => f_in (rl_flow rl)) (limits st (pk_path pk)) = Some 0.
Proof.
  exists (set_limit (init_state 0 0 3600) (1%N, 1%N) (mkRL (mkQ 10 10 1) (zero_flow 1000))), (mkPkt (1%N, 1%N) 1 7 1 2).
  vm_compute. auto.
Qed.

(** * window starts *)
Theorem window_start_zeroes st o p :
  (match o with
   | OAdd p' _ _ _ _ | OUpdate p' _ _ _ | OReset p' _ _ => p' = p
   | _ => False
   end) ->
  snd (step st o) = cls_ok ->
  let st' := fst (step st o) in
  exists rl, limits st' p = Some rl /\ f_in (rl_flow rl) = 0 /\ f_out (rl_flow rl) = 0 /\
             f_cv (rl_flow rl) = (match o with OAdd _ _ cv _ _ | OUpdate _ _ cv _ | OReset _ cv _ => cv | _ => 0 end) /\
             (forall s, psend st' p s = false) /\ (forall s, precv st' p s = false).
Proof.
  destruct o; try contradiction; intros -> Hc; cbn [step] in *.
  - destruct (of_opt_admin st auth (add_rate_limit st p q cv chan_exists)) as [[E _]|(st' & Ho & _ & E)]; rewrite E in *; [discriminate|].
    cbn [fst]. unfold add_rate_limit in Ho. destruct (cv =? 0); [discriminate|]. destruct (limits st p); [discriminate|].
    destruct chan_exists; [|discriminate]. inversion Ho; subst.
    eexists. cbn [limits clear_pending set_limit psend precv]. rewrite upd_same. split; [reflexivity|].
    cbn [rl_flow zero_flow f_in f_out f_cv]. unfold clear_path. rewrite path_eqb_refl. auto.
  - destruct (of_opt_admin st auth (update_rate_limit st p q cv)) as [[E _]|(st' & Ho & _ & E)]; rewrite E in *; [discriminate|].
    cbn [fst]. unfold update_rate_limit in Ho. destruct (limits st p); [|discriminate]. inversion Ho; subst.
    eexists. cbn [limits clear_pending set_limit psend precv]. rewrite upd_same. split; [reflexivity|].
    cbn [rl_flow zero_flow f_in f_out f_cv]. unfold clear_path. rewrite path_eqb_refl. auto.
  - destruct (of_opt_admin st auth (reset_rate_limit st p cv)) as [[E _]|(st' & Ho & _ & E)]; rewrite E in *; [discriminate|].
    cbn [fst]. unfold reset_rate_limit in Ho. destruct (limits st p); [|discriminate]. inversion Ho; subst.
    eexists. cbn [limits clear_pending set_limit psend precv]. rewrite upd_same. split; [reflexivity|].
    cbn [rl_flow zero_flow f_in f_out f_cv]. unfold clear_path. rewrite path_eqb_refl. auto.
Qed.

Theorem epoch_reset_zeroes st t sup p rl :
  limits st p = Some rl -> epoch_starts st t = true -> epoch_hits st p = true ->
  let st' := begin_block st t (sup_of sup) in
  limits st' p = Some (mkRL (rl_quota rl) (zero_flow (sup_of sup (fst p)))) /\
  (forall s, psend st' p s = false) /\ (forall s, precv st' p s = false) /\ ep_num st' = N.succ (ep_num st).
Proof.
  unfold epoch_starts, epoch_hits, begin_block. intros Hl He Hh. rewrite Hl in Hh.
  apply andb_true_iff in He. destruct He as [Hd Ht]. apply negb_true_iff in Hd. rewrite Hd, Ht.
  cbn [limits psend precv ep_num]. rewrite Hl, Hh. auto.
Qed.

(** * the F4 history (fixed by 395272a): add; send 10; update; send 5; timeout of the first packet *)
Definition f4_path : Path := (1%N, 1%N).
Definition f4_ops : list Op :=
  [ OAdd f4_path (mkQ 1 1 1) 100000 true true;
    OSend (mkPkt f4_path 1 10 1 2) true;
    OUpdate f4_path (mkQ 2 1 1) 100000 true;
    OSend (mkPkt f4_path 2 5 1 2) true;
    OTimeout (mkPkt f4_path 1 10 1 2) ].
Definition f4_amounts (d : Dir) (p : Path) (s : N) : Z := if (s =? 1)%N then 10 else 5.

Lemma f4_wf : wf_ops f4_amounts f4_ops.
Proof.
  intros o d pk Hin Hm. unfold f4_ops in Hin. cbn [In] in Hin.
  repeat (destruct Hin as [<-|Hin]; [cbn [mentions In] in Hm; repeat (destruct Hm as [Hm|Hm]; [inversion Hm; subst; cbn; split; [lia|reflexivity]|]); try contradiction|]).
  contradiction.
Qed.

Example f4_outflow_stays_5 :
  option_map (fun rl => (f_in (rl_flow rl), f_out (rl_flow rl))) (limits (run (init_state 0 0 3600) f4_ops) f4_path) = Some (0, 5) /\
  psend (run (init_state 0 0 3600) f4_ops) f4_path 1 = false /\
  psend (run (init_state 0 0 3600) f4_ops) f4_path 2 = true.
Proof. vm_compute. auto. Qed.
