(** C41 — executable model of modules/apps/rate-limiting (keeper + v1/v2 middleware).

    Identifiers (denominations, channel/client ids, addresses) are numerals assigned per history by the
    trace encoder; the rate-limit key is the pair (denom, channelOrClientId) exactly as
    types.RateLimitItemKey, the pending-packet key is (channel, denom, sequence) as pendingPacketKey.
    sdkmath.Int = Z, uint64 = N, time.Time / time.Duration = Z nanoseconds.

    Stores are total functions (a key that was never written reads as None / false): every store access
    of the Go code is a point read, a point write, or a prefix deletion/iteration whose effect is pointwise
    (RemoveAllChannelPending*Packets, BeginBlocker's loop over GetAllRateLimits), so nothing is lost. *)
From IBC Require Import Lib.Bytes.
Local Open Scope Z_scope.

Definition Path := (N * N)%type.             (* (denom, channelOrClientId) *)
Definition path_eqb (a b : Path) : bool := (fst a =? fst b)%N && (snd a =? snd b)%N.

Record Quota := mkQ { q_send : Z; q_recv : Z; q_hours : N }.
Record Flow := mkF { f_in : Z; f_out : Z; f_cv : Z }.
Record RateLimit := mkRL { rl_quota : Quota; rl_flow : Flow }.

Inductive Dir := DSend | DRecv.

(** what ParsePacketInfo extracts from a packet (keeper/packet.go:ParsePacketInfo); the denom is the one
    ParseDenomFromSendPacket / ParseDenomFromRecvPacket computed (property C42 is about those) *)
Record Pkt := mkPkt { pk_path : Path; pk_seq : N; pk_amt : Z; pk_from : N; pk_to : N }.

Record State := mkSt {
  limits : Path -> option RateLimit;
  psend : Path -> N -> bool;               (* keeper.PendingSendPackets *)
  precv : Path -> N -> bool;               (* keeper.PendingReceivePackets *)
  black : N -> bool;                       (* denom blacklist *)
  white : N -> N -> bool;                  (* (sender, receiver) whitelist *)
  ep_num : N; ep_start : Z; ep_dur : Z     (* types.HourEpoch *)
}.

Definition init_state (num : N) (start dur : Z) : State :=
  mkSt (fun _ => None) (fun _ _ => false) (fun _ _ => false) (fun _ => false) (fun _ _ => false) num start dur.

(** point updates *)
Definition upd {A} (f : Path -> A) (p : Path) (v : A) : Path -> A :=
  fun p' => if path_eqb p' p then v else f p'.
Definition upd2 (f : Path -> N -> bool) (p : Path) (s : N) (v : bool) : Path -> N -> bool :=
  fun p' s' => if path_eqb p' p && (s' =? s)%N then v else f p' s'.
(** RemoveAllChannelPending{Send,Receive}Packets: every key with prefix (channel, denom) *)
Definition clear_path (f : Path -> N -> bool) (p : Path) : Path -> N -> bool :=
  fun p' s' => if path_eqb p' p then false else f p' s'.

Definition set_limit st p rl := mkSt (upd (limits st) p (Some rl)) (psend st) (precv st) (black st) (white st) (ep_num st) (ep_start st) (ep_dur st).
Definition del_limit st p := mkSt (upd (limits st) p None) (psend st) (precv st) (black st) (white st) (ep_num st) (ep_start st) (ep_dur st).
Definition set_psend st p s v := mkSt (limits st) (upd2 (psend st) p s v) (precv st) (black st) (white st) (ep_num st) (ep_start st) (ep_dur st).
Definition set_precv st p s v := mkSt (limits st) (psend st) (upd2 (precv st) p s v) (black st) (white st) (ep_num st) (ep_start st) (ep_dur st).
(** keeper/rate_limit.go:removeAllChannelPendingPackets *)
Definition clear_pending st p := mkSt (limits st) (clear_path (psend st) p) (clear_path (precv st) p) (black st) (white st) (ep_num st) (ep_start st) (ep_dur st).
Definition set_black st d v := mkSt (limits st) (psend st) (precv st) (fun d' => if (d' =? d)%N then v else black st d') (white st) (ep_num st) (ep_start st) (ep_dur st).
Definition set_white st a b v := mkSt (limits st) (psend st) (precv st) (black st) (fun a' b' => if (a' =? a)%N && (b' =? b)%N then v else white st a' b') (ep_num st) (ep_start st) (ep_dur st).

(** types/quota.go:CheckExceedsQuota — zero channel value never blocks; threshold is
    totalValue * pct / 100 with sdkmath.Int.Quo (truncating); strict GT *)
Definition check_exceeds_quota (d : Dir) (q : Quota) (amount total : Z) : bool :=
  if total =? 0 then false
  else let pct := match d with DRecv => q_recv q | DSend => q_send q end in
       amount >? Z.quot (total * pct) 100.

(** types/flow.go:AddInflow — net inflow = inflow - outflow + amount *)
Definition add_inflow (f : Flow) (amt : Z) (q : Quota) : option Flow :=
  let net := f_in f - f_out f + amt in
  if check_exceeds_quota DRecv q net (f_cv f) then None else Some (mkF (f_in f + amt) (f_out f) (f_cv f)).
(** types/flow.go:AddOutflow — net outflow = outflow - inflow + amount *)
Definition add_outflow (f : Flow) (amt : Z) (q : Quota) : option Flow :=
  let net := f_out f - f_in f + amt in
  if check_exceeds_quota DSend q net (f_cv f) then None else Some (mkF (f_in f) (f_out f + amt) (f_cv f)).
(** types/ratelimit.go:UpdateFlow *)
Definition update_flow (rl : RateLimit) (d : Dir) (amt : Z) : option RateLimit :=
  match d with
  | DSend => option_map (mkRL (rl_quota rl)) (add_outflow (rl_flow rl) amt (rl_quota rl))
  | DRecv => option_map (mkRL (rl_quota rl)) (add_inflow (rl_flow rl) amt (rl_quota rl))
  end.

Inductive CheckRes := CkErr | CkNoUpdate | CkUpdated (st : State).

(** keeper/flow.go:CheckRateLimitAndUpdateFlow, in the order of the code:
    blacklist, rate limit lookup, whitelist, UpdateFlow, SetRateLimit *)
Definition check_and_update (st : State) (d : Dir) (pk : Pkt) : CheckRes :=
  let p := pk_path pk in
  if black st (fst p) then CkErr
  else match limits st p with
       | None => CkNoUpdate
       | Some rl =>
           if white st (pk_from pk) (pk_to pk) then CkNoUpdate
           else match update_flow rl d (pk_amt pk) with
                | None => CkErr
                | Some rl' => CkUpdated (set_limit st p rl')
                end
       end.

(** keeper/packet.go:SendRateLimitedPacketWithSequence (None = error returned = send denied) *)
Definition send_rate_limited (st : State) (pk : Pkt) : option State :=
  match check_and_update st DSend pk with
  | CkErr => None
  | CkNoUpdate => Some st
  | CkUpdated st' => Some (set_psend st' (pk_path pk) (pk_seq pk) true)
  end.

(** keeper/packet.go:ReceiveRateLimitedPacket *)
Definition receive_rate_limited (st : State) (pk : Pkt) : option State :=
  match check_and_update st DRecv pk with
  | CkErr => None
  | CkNoUpdate => Some st
  | CkUpdated st' => Some (set_precv st' (pk_path pk) (pk_seq pk) true)
  end.

(** keeper/flow.go:UndoSendPacket — no rate limit: just drop the marker; marker present: decrement the
    outflow (clamped at 0) and drop the marker; marker absent: nothing *)
Definition undo_send (st : State) (p : Path) (seq : N) (amt : Z) : State :=
  match limits st p with
  | None => set_psend st p seq false
  | Some rl =>
      if psend st p seq then
        let f := rl_flow rl in
        let o := f_out f - amt in
        let o := if o <? 0 then 0 else o in
        set_psend (set_limit st p (mkRL (rl_quota rl) (mkF (f_in f) o (f_cv f)))) p seq false
      else st
  end.

(** keeper/packet.go:UndoReceivePacket *)
Definition undo_receive (st : State) (p : Path) (seq : N) (amt : Z) : State :=
  match limits st p with
  | None => set_precv st p seq false
  | Some rl =>
      if precv st p seq then
        let f := rl_flow rl in
        let i := f_in f - amt in
        let i := if i <? 0 then 0 else i in
        set_precv (set_limit st p (mkRL (rl_quota rl) (mkF i (f_out f) (f_cv f)))) p seq false
      else st
  end.

(** keeper/packet.go:AcknowledgeRateLimitedPacket (ack already classified by CheckAcknowledgementSucceeded) *)
Definition acknowledge (st : State) (pk : Pkt) (success : bool) : State :=
  if success then set_psend st (pk_path pk) (pk_seq pk) false
  else undo_send st (pk_path pk) (pk_seq pk) (pk_amt pk).
(** keeper/packet.go:TimeoutRateLimitedPacket *)
Definition timeout (st : State) (pk : Pkt) : State := undo_send st (pk_path pk) (pk_seq pk) (pk_amt pk).

(** what the application below the middleware answers to OnRecvPacket *)
Inductive AppRes := AppOk | AppErr | AppAsync.
Inductive AckClass := AckOk | AckErr | AckAsync.

(** ibc_middleware.go:OnRecvPacket (v1) and v2/ibc_middleware.go:OnRecvPacket: rate-limit first (error ack
    when denied), then the application; a non-nil ack removes the pending receive marker *)
Definition mw_on_recv (st : State) (pk : Pkt) (app : AppRes) : State * AckClass :=
  match receive_rate_limited st pk with
  | None => (st, AckErr)
  | Some st1 =>
      match app with
      | AppAsync => (st1, AckAsync)
      | AppOk => (set_precv st1 (pk_path pk) (pk_seq pk) false, AckOk)
      | AppErr => (set_precv st1 (pk_path pk) (pk_seq pk) false, AckErr)
      end
  end.

(** core/keeper/msg_server.go:RecvPacket (and channel/v2 RecvPacket): the callback runs in a cache context
    that is written only if the acknowledgement is nil (async) or successful *)
Definition core_recv (st : State) (pk : Pkt) (app : AppRes) : State * AckClass :=
  let r := mw_on_recv st pk app in
  match snd r with
  | AckErr => (st, AckErr)
  | _ => r
  end.

(** ibc_middleware.go:WriteAcknowledgement / v2 WriteAcknowledgement: async ack written later (PFM) *)
Definition mw_write_ack (st : State) (pk : Pkt) (success : bool) : State :=
  if success then set_precv st (pk_path pk) (pk_seq pk) false
  else undo_receive st (pk_path pk) (pk_seq pk) (pk_amt pk).

Definition zero_flow (cv : Z) : Flow := mkF 0 0 cv.

(** keeper/rate_limit.go:AddRateLimit — zero channel value, already exists, channel/client lookup, store,
    then (fix 395272a) clear both pending sets of the path *)
Definition add_rate_limit (st : State) (p : Path) (q : Quota) (cv : Z) (chan_exists : bool) : option State :=
  if cv =? 0 then None
  else match limits st p with
       | Some _ => None
       | None => if chan_exists then Some (clear_pending (set_limit st p (mkRL q (zero_flow cv))) p) else None
       end.

(** keeper/rate_limit.go:UpdateRateLimit *)
Definition update_rate_limit (st : State) (p : Path) (q : Quota) (cv : Z) : option State :=
  match limits st p with
  | None => None
  | Some _ => Some (clear_pending (set_limit st p (mkRL q (zero_flow cv))) p)
  end.

(** keeper/msg_server.go:RemoveRateLimit + keeper.RemoveRateLimit: the pending markers stay *)
Definition remove_rate_limit (st : State) (p : Path) : option State :=
  match limits st p with
  | None => None
  | Some _ => Some (del_limit st p)
  end.

(** keeper/rate_limit.go:ResetRateLimit: quota kept, flow zeroed with the fresh channel value *)
Definition reset_rate_limit (st : State) (p : Path) (cv : Z) : option State :=
  match limits st p with
  | None => None
  | Some rl => Some (clear_pending (set_limit st p (mkRL (rl_quota rl) (zero_flow cv))) p)
  end.

(** keeper/abci.go:BeginBlocker's test on one rate limit *)
Definition epoch_resets (n : N) (rl : RateLimit) : bool :=
  negb (q_hours (rl_quota rl) =? 0)%N && (n mod q_hours (rl_quota rl) =? 0)%N.

(** keeper/epoch.go:CheckHourEpochStarting + keeper/abci.go:BeginBlocker.  [sup d] is the bank supply of [d]
    at the beginning of the block (GetChannelValue). The loop over GetAllRateLimits resets every rate limit
    whose duration divides the new epoch number; resets of different paths commute. *)
Definition begin_block (st : State) (t : Z) (sup : N -> Z) : State :=
  if ep_dur st =? 0 then st
  else
    let e := ep_start st + ep_dur st in
    if t >? e then
      let n := N.succ (ep_num st) in
      let hit p := match limits st p with Some rl => epoch_resets n rl | None => false end in
      mkSt (fun p => match limits st p with
                     | Some rl => if epoch_resets n rl then Some (mkRL (rl_quota rl) (zero_flow (sup (fst p)))) else Some rl
                     | None => None
                     end)
           (fun p s => if hit p then false else psend st p s)
           (fun p s => if hit p then false else precv st p s)
           (black st) (white st) n e (ep_dur st)
    else st.

(** ---------------------------------------------------------------------------------------------
    Histories.  Every op is one transaction (or one BeginBlocker) on the rate-limited chain; inputs that
    come from the rest of the system are explicit: [env_ok] (everything else in the MsgTransfer succeeds:
    balance, channel, timeout), [app] (what PFM/transfer answered), the bank supply at window start. *)
Inductive Op :=
| OBeginBlock (t : Z) (sup : list (N * Z))
| OSend (pk : Pkt) (env_ok : bool)
| ORecv (pk : Pkt) (app : AppRes)
| ORecvFwd (pk pk2 : Pkt) (env_ok : bool)      (* PFM forward: receive [pk], send [pk2] inside the same callback *)
| OTimeoutRetry (pk pk2 : Pkt) (env_ok : bool) (* PFM retry: timeout of [pk], re-send as [pk2] in the same transaction *)
| OWriteAck (pk : Pkt) (success : bool)
| OAck (pk : Pkt) (success : bool)
| OTimeout (pk : Pkt)
| OAdd (p : Path) (q : Quota) (cv : Z) (chan_exists auth : bool)
| OUpdate (p : Path) (q : Quota) (cv : Z) (auth : bool)
| ORemove (p : Path) (auth : bool)
| OReset (p : Path) (cv : Z) (auth : bool)
| OBlacklist (d : N) (v : bool)
| OWhitelist (a b : N) (v : bool).

(** outcome classes: 0 ok / success ack, 1 err / error ack, 2 async *)
Definition cls_ok : N := 0%N.
Definition cls_err : N := 1%N.
Definition cls_async : N := 2%N.

Fixpoint sup_of (l : list (N * Z)) (d : N) : Z :=
  match l with
  | [] => 0
  | (d', v) :: l' => if (d' =? d)%N then v else sup_of l' d
  end.

Definition of_opt (st : State) (o : option State) : State * N :=
  match o with Some st' => (st', cls_ok) | None => (st, cls_err) end.

(** keeper/msg_server.go: sdk.ValidateAuthority first *)
Definition admin (st : State) (auth : bool) (o : option State) : State * N :=
  if auth then of_opt st o else (st, cls_err).

Definition step (st : State) (o : Op) : State * N :=
  match o with
  | OBeginBlock t sup => (begin_block st t (sup_of sup), cls_ok)
  | OSend pk env_ok =>
      (* ibc_middleware.go:SendPacket: SendRateLimitedPacket, then the ICS4 wrapper below; an error anywhere
         in the transaction discards all of its writes *)
      match send_rate_limited st pk with
      | None => (st, cls_err)
      | Some st' => if env_ok then (st', cls_ok) else (st, cls_err)
      end
  | ORecv pk app =>
      let r := core_recv st pk app in
      (fst r, match snd r with AckOk => cls_ok | AckErr => cls_err | AckAsync => cls_async end)
  | ORecvFwd pk pk2 env_ok =>
      (* rate-limiting OnRecvPacket -> PFM OnRecvPacket -> ForwardTransferPacket -> transfer -> PFM.SendPacket ->
         rate-limiting SendPacket (testing/simapp/app.go stack order). A denied forward makes PFM answer an error
         acknowledgement, and core discards the callback's cache context; success leaves the ack async. *)
      match receive_rate_limited st pk with
      | None => (st, cls_err)
      | Some st1 =>
          match send_rate_limited st1 pk2 with
          | None => (st, cls_err)
          | Some st2 => if env_ok then (st2, cls_async) else (st, cls_err)
          end
      end
  | OTimeoutRetry pk pk2 env_ok =>
      (* rate-limiting OnTimeoutPacket: TimeoutRateLimitedPacket, then PFM OnTimeoutPacket: refund + RetryTimeout,
         whose transfer goes through rate-limiting SendPacket; an error there fails the MsgTimeout transaction *)
      match send_rate_limited (timeout st pk) pk2 with
      | None => (st, cls_err)
      | Some st2 => if env_ok then (st2, cls_ok) else (st, cls_err)
      end
  | OWriteAck pk success => (mw_write_ack st pk success, cls_ok)
  | OAck pk success => (acknowledge st pk success, cls_ok)
  | OTimeout pk => (timeout st pk, cls_ok)
  | OAdd p q cv ce auth => admin st auth (add_rate_limit st p q cv ce)
  | OUpdate p q cv auth => admin st auth (update_rate_limit st p q cv)
  | ORemove p auth => admin st auth (remove_rate_limit st p)
  | OReset p cv auth => admin st auth (reset_rate_limit st p cv)
  | OBlacklist d v => (set_black st d v, cls_ok)
  | OWhitelist a b v => (set_white st a b v, cls_ok)
  end.

Definition run (st : State) (ops : list Op) : State := fold_left (fun s o => fst (step s o)) ops st.
