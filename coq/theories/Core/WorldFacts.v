(** What verification through an honest light client (Core/World.v) means. *)
From IBC Require Import Lib.Bytes Lib.Dec Core.Height Core.HeightFacts Core.Chain Core.World.
Local Open Scope N_scope.

Lemma pkey_eqb_eq a b : pkey_eqb a b = true -> a = b.
Proof.
  destruct a, b; cbn; intros H; try discriminate;
    repeat (apply andb_true_iff in H as [H ?]);
    repeat match goal with X : (_ =? _) = true |- _ => apply N.eqb_eq in X; subst end; reflexivity.
Qed.

Lemma honest_membership other me pf lh id ph k v :
  id <> lh -> honest_vmem other me pf lh id ph k v = true ->
  exists t ver snap v',
    consulted me id ph = Some (t, ver) /\ pf = PHonest ver k /\
    assocN ver (w_vers other) = Some snap /\ lookup snap k = Some v' /\ pval_eqb v v' = true.
Proof.
  unfold honest_vmem. intros Hne H. apply N.eqb_neq in Hne. rewrite Hne in H.
  destruct (consulted me id ph) as [[t ver]|] eqn:Ec; [|discriminate].
  destruct pf as [pv pk| |]; [|discriminate|discriminate].
  apply andb_true_iff in H as [H H3]. apply andb_true_iff in H as [H1 H2].
  apply N.eqb_eq in H1. subst pv. apply pkey_eqb_eq in H2. subst pk.
  destruct (assocN ver (w_vers other)) as [snap|] eqn:Es; [|discriminate].
  destruct (lookup snap k) as [v'|] eqn:El; [|discriminate].
  exists t, ver, snap, v'. auto.
Qed.

Lemma honest_nonmembership other me pf lh id ph k :
  id <> lh -> honest_vnon other me pf lh id ph k = true ->
  exists t ver snap,
    consulted me id ph = Some (t, ver) /\ pf = PHonest ver k /\
    assocN ver (w_vers other) = Some snap /\ lookup snap k = None.
Proof.
  unfold honest_vnon. intros Hne H. apply N.eqb_neq in Hne. rewrite Hne in H.
  destruct (consulted me id ph) as [[t ver]|] eqn:Ec; [|discriminate].
  destruct pf as [pv pk| |]; [|discriminate|discriminate].
  apply andb_true_iff in H as [H H3]. apply andb_true_iff in H as [H1 H2].
  apply N.eqb_eq in H1. subst pv. apply pkey_eqb_eq in H2. subst pk.
  destruct (assocN ver (w_vers other)) as [snap|] eqn:Es; [|discriminate].
  destruct (lookup snap k) as [v'|] eqn:El; [discriminate|].
  exists t, ver, snap. auto.
Qed.

(** the consulted consensus state exists only for an Active client, at a height not above its latest *)
Lemma consulted_spec me id ph t ver :
  consulted me id ph = Some (t, ver) ->
  exists cl, find_client me id = Some cl /\ client_active (self_t (w_chain me)) cl = true /\
    h_lt (cl_latest cl) ph = false /\ assocH ph (cl_cons cl) = Some (t, ver).
Proof.
  unfold consulted. intros H. destruct (find_client me id) as [cl|]; [|discriminate].
  destruct (client_active _ cl) eqn:Ea; cbn [negb] in H; [|discriminate].
  destruct (h_lt (cl_latest cl) ph) eqn:El; [discriminate|]. exists cl. auto.
Qed.

(** the localhost client of Core/World.v is a loopback environment in the sense of C04 *)
Lemma world_loopback other me pf lh sc nc :
  let e := honest_env other me pf lh sc nc in
  (forall ph k, e_vnon e lh ph k = true -> h_lte ph (self_h (w_chain me)) = true) /\
  (forall ph k v, e_vmem e lh ph k v = true -> h_lte ph (self_h (w_chain me)) = true) /\
  (forall ph t, e_ts e lh ph = Some t -> t = self_t (w_chain me)).
Proof.
  cbn. unfold honest_vnon, honest_vmem, loop_vnon, loop_vmem. rewrite N.eqb_refl. repeat split.
  - intros ph k H. destruct pf; try discriminate. now apply andb_true_iff in H as [H _].
  - intros ph k v H. destruct pf; try discriminate. now apply andb_true_iff in H as [H _].
  - intros ph t [= <-]. reflexivity.
Qed.
