(** C10: the IBC v2 multi-payload receive is all-or-nothing. *)
From IBC Require Import Lib.Bytes Lib.Dec Core.Height Core.Chain Core.ChainFacts Core.ChainInv.
Local Open Scope N_scope.

Section V2.
Context {A : Type}.
Notation Chain := (Chain A).
Notation Env := (Env A).
Implicit Types (c : Chain) (e : Env).

(** what the applications return, payload by payload, threading the application state *)
Fixpoint thread_payloads (e : Env) (q : Packet2) (r : N) (a : A) (pay : list Payload) : A * list (Recv2Status * Data) :=
  match pay with
  | [] => (a, [])
  | y :: rest =>
      let '(a', res) := e_recv2 e a (q_src q) (q_dst q) (q_seq q) y r in
      let '(a'', l) := thread_payloads e q r a' rest in (a'', res :: l)
  end.

Definition is_failure (s : Recv2Status) : bool := match s with R2Failure => true | _ => false end.
Definition is_async (s : Recv2Status) : bool := match s with R2Async => true | _ => false end.
Definition any_failure (res : list (Recv2Status * Data)) : bool := existsb (fun x => is_failure (fst x)) res.
Definition any_async (res : list (Recv2Status * Data)) : bool := existsb (fun x => is_async (fst x)) res.

Lemma recv2_loop_async_mono e q r n idx pay st st' :
  recv2_loop e q r n idx pay st = Some st' -> l_async st = true -> l_async st' = true.
Proof.
  revert idx st; induction pay as [|y pay IH]; intros idx st H Ha; cbn [recv2_loop] in *.
  - inversion H; subst. exact Ha.
  - destruct (e_recv2 e (l_app st) (q_src q) (q_dst q) (q_seq q) y r) as [a' [status ackb]].
    destruct status.
    + destruct (ackb =? sentinel); [discriminate|]. eapply IH; eauto.
    + inversion H; subst. exact Ha.
    + destruct (ackb =? sentinel); [discriminate|]. destruct (Nat.ltb 1 n); [discriminate|]. eapply IH; eauto.
Qed.

Lemma recv2_loop_spec e q r n idx pay st st' :
  recv2_loop e q r n idx pay st = Some st' ->
  let res := snd (thread_payloads e q r (l_app st) pay) in
  (l_async st' = true -> l_async st = true \/ (n <= 1)%nat) /\
  if any_failure res
  then l_success st' = false /\ l_acks st' = [sentinel]
  else l_success st' = l_success st /\ l_app st' = fst (thread_payloads e q r (l_app st) pay) /\
       l_acks st' = l_acks st ++ map snd res /\ Forall (fun x => snd x <> sentinel) res /\
       (l_async st' = false -> any_async res = false) /\
       (l_async st = false -> l_async st' = true -> any_async res = true).
Proof.
  revert idx st; induction pay as [|y pay IH]; intros idx st H; cbn [recv2_loop thread_payloads] in *.
  - inversion H; subst. cbn. rewrite app_nil_r. split; [auto|]. split; [reflexivity|]. split; [reflexivity|].
    split; [reflexivity|]. split; [constructor|]. split; [reflexivity|]. congruence.
  - destruct (e_recv2 e (l_app st) (q_src q) (q_dst q) (q_seq q) y r) as [a' [status ackb]] eqn:Er.
    destruct (thread_payloads e q r a' pay) as [a'' l] eqn:Et. cbn [snd fst].
    unfold any_failure, any_async. cbn [existsb fst snd].
    destruct status; cbn [is_failure is_async orb].
    + destruct (ackb =? sentinel) eqn:Es; [discriminate|]. apply N.eqb_neq in Es.
      apply IH in H. cbn [l_app l_acks l_success l_async] in H. rewrite Et in H. cbn [snd fst] in H.
      destruct H as [Ha H]. split; [exact Ha|].
      fold (any_failure l) in *. fold (any_async l) in *. destruct (any_failure l); [exact H|].
      destruct H as [H1 [H2 [H3 [H4 [H5 H6]]]]].
      split; [exact H1|]. split; [exact H2|]. split; [rewrite H3, <- app_assoc; reflexivity|].
      split; [constructor; auto|]. split; [exact H5|exact H6].
    + inversion H; subst. cbn. split; [auto|]. split; reflexivity.
    + destruct (ackb =? sentinel) eqn:Es; [discriminate|]. apply N.eqb_neq in Es.
      destruct (Nat.ltb 1 n) eqn:En; [discriminate|]. apply Nat.ltb_ge in En.
      pose proof (recv2_loop_async_mono _ _ _ _ _ _ _ _ H eq_refl) as Hmono.
      apply IH in H. cbn [l_app l_acks l_success l_async] in H. rewrite Et in H. cbn [snd fst] in H.
      destruct H as [Ha H]. split; [intros _; right; exact En|].
      fold (any_failure l) in *. fold (any_async l) in *. destruct (any_failure l); [exact H|].
      destruct H as [H1 [H2 [H3 [H4 [H5 H6]]]]].
      split; [exact H1|]. split; [exact H2|]. split; [rewrite H3, <- app_assoc; reflexivity|].
      split; [constructor; auto|]. split; [|reflexivity].
      intros Hf. congruence.
Qed.

(** the single-payload receive, computed *)
Lemma recv2_loop_single e q r n y st :
  recv2_loop e q r n 0 [y] st =
  let '(a', (status, ackb)) := e_recv2 e (l_app st) (q_src q) (q_dst q) (q_seq q) y r in
  let evs := l_evs st ++ [EvRecv2 (q_dst q) (q_seq q) 0] in
  match status with
  | R2Failure => Some (mkLoop a' [sentinel] false (l_async st) evs)
  | R2Success => if ackb =? sentinel then None else Some (mkLoop a' (l_acks st ++ [ackb]) (l_success st) (l_async st) evs)
  | R2Async => if ackb =? sentinel then None else if Nat.ltb 1 n then None else Some (mkLoop a' (l_acks st ++ [ackb]) (l_success st) true evs)
  end.
Proof.
  cbn [recv2_loop]. destruct (e_recv2 e (l_app st) (q_src q) (q_dst q) (q_seq q) y r) as [a' [status ackb]].
  destruct status; reflexivity.
Qed.

(** C10.  For a received v2 packet: the receipt is written; if some payload fails, no application state
    persists and the acknowledgement is exactly [sentinel]; otherwise all payloads' state changes persist,
    no app acknowledgement is the sentinel, and either the single payload went async (packet stored, no
    acknowledgement written) or the acknowledgement is one app acknowledgement per payload in payload order. *)
Theorem recv2_all_or_nothing e c q ph r c' :
  msg_recv2 e c q ph r = (c', Ok) ->
  let res := snd (thread_payloads e q r (app c) (q_pay q)) in
  rcpt2 c' (q_dst q, q_seq q) = true /\
  if any_failure res
  then app c' = app c /\ ackc2 c' (q_dst q, q_seq q) = Some [sentinel] /\ asyn2 c' (q_dst q, q_seq q) = asyn2 c (q_dst q, q_seq q)
  else app c' = fst (thread_payloads e q r (app c) (q_pay q)) /\ Forall (fun x => snd x <> sentinel) res /\
       if any_async res
       then (length (q_pay q) <= 1)%nat /\ asyn2 c' (q_dst q, q_seq q) = Some q /\
            ackc2 c' (q_dst q, q_seq q) = ackc2 c (q_dst q, q_seq q)
       else ackc2 c' (q_dst q, q_seq q) = Some (map snd res) /\ length (map snd res) = length (q_pay q).
Proof.
  intros H. cbn zeta.
  unfold msg_recv2 in H. destruct (packet2_valid q) eqn:Ev; cbn [negb] in H; [|discriminate].
  destruct (recv2_tao e c q ph) as [c1 o1] eqn:Et. destruct o1; try discriminate.
  apply recv2_tao_ok in Et. destruct Et as [_ [_ [_ [_ ->]]]].
  destruct (recv2_loop _ _ _ _ _ _ _) as [st|] eqn:El; [|discriminate].
  pose proof (recv2_loop_spec _ _ _ _ _ _ _ _ El) as Sp.
  cbn [l_app l_acks l_success l_async set_rcpt2 app] in Sp. cbn zeta in Sp. destruct Sp as [Hasync Sp].
  assert (l_async st = true -> (length (q_pay q) <= 1)%nat) as Hsingle by (intros X; destruct (Hasync X); [discriminate|assumption]).
  set (key := (q_dst q, q_seq q)) in *.
  set (c1 := set_rcpt2 c (upd ks_eqb (rcpt2 c) key true)) in *.
  assert (forall c2, rcpt2 c2 = rcpt2 c1 -> rcpt2 c2 key = true) as Hrc by (intros c2 ->; subst c1; cbn; apply upd_same, ks_eqb_refl).
  destruct (any_failure _) eqn:Ef.
  - destruct Sp as [Hs Ha]. rewrite Hs in H. cbn beta iota in H.
    destruct (l_async st) eqn:Eas.
    + (* async together with a failure needs a single payload; compute it *)
      exfalso. specialize (Hsingle eq_refl).
      destruct (q_pay q) as [|y [|y2 rest]] eqn:Ep; [unfold packet2_valid in Ev; rewrite Ep in Ev; discriminate| |cbn in Hsingle; lia].
      rewrite recv2_loop_single in El. cbn [l_app l_acks l_success l_async l_evs] in El.
      cbn [thread_payloads] in Ef. subst c1. cbn [app set_rcpt2] in El, Ef.
      destruct (e_recv2 e (app c) (q_src q) (q_dst q) (q_seq q) y r) as [a' [status ackb]].
      destruct status; cbn in Ef; try discriminate.
      injection El as <-. cbn in Eas. discriminate.
    + rewrite Ha in H. replace (negb (Bool.eqb (ack2_success [sentinel]) false)) with false in H by reflexivity.
      destruct (write_ack2 _ q [sentinel]) as [c3 o3] eqn:Ew. destruct o3; try discriminate.
      inversion H; subst c'. apply write_ack2_ok in Ew. destruct Ew as [_ [_ [_ [_ [_ ->]]]]].
      split; [apply Hrc; reflexivity|]. cbn. split; [reflexivity|]. split; [apply upd_same, ks_eqb_refl|reflexivity].
  - destruct Sp as [Hs [Happ [Hacks [Hns [Hna Hya]]]]]. rewrite Hs in H. cbn [app] in Happ.
    destruct (l_async st) eqn:Eas.
    + inversion H; subst c'. split; [apply Hrc; reflexivity|]. cbn. split; [subst c1; exact Happ|]. split; [exact Hns|].
      rewrite (Hya eq_refl eq_refl). split; [auto|]. split; [apply upd_same, ks_eqb_refl|reflexivity].
    + cbn [negb Bool.eqb] in H. destruct (negb (Bool.eqb (ack2_success (l_acks st)) true)) eqn:Eb; [discriminate|].
      destruct (write_ack2 _ q (l_acks st)) as [c3 o3] eqn:Ew. destruct o3; try discriminate.
      inversion H; subst c'. apply write_ack2_ok in Ew. destruct Ew as [_ [_ [_ [_ [_ ->]]]]].
      split; [apply Hrc; reflexivity|]. cbn. split; [subst c1; exact Happ|]. split; [exact Hns|].
      rewrite (Hna eq_refl). cbn in Hacks. subst c1. cbn [app set_rcpt2] in *.
      split; [rewrite upd_same by apply ks_eqb_refl; now rewrite Hacks|].
      rewrite map_length. clear. generalize (app c). induction (q_pay q) as [|y l IH]; intros a; cbn; [reflexivity|].
      destruct (e_recv2 e a (q_src q) (q_dst q) (q_seq q) y r) as [a' res]. specialize (IH a').
      destruct (thread_payloads e q r a' l) as [a'' l']. cbn in *. now rewrite IH.
Qed.

End V2.
