(** C04 "never early", end to end: every MsgTimeout accepted over a remote client is for a packet whose timeout the
    destination chain has reached — at the time of acceptance and ever after. Corollaries of [WI] / [WI2]. *)
From IBC Require Import Lib.Bytes Lib.Dec Core.Height Core.HeightFacts Core.Chain Core.ChainFacts Core.ChainInv
  Core.ChainThms Core.World Core.WorldFacts Core.WorldInv Core.WorldInv2 Core.WorldInv3 Core.WorldThm Core.WorldV2.
Local Open Scope N_scope.

(** v1: the destination chain's own height and block time have reached the timeout of every packet that was timed out
    on the other chain (so [C04_no_receive_after_elapsed] applies to it from then on) *)
Theorem timeout_never_early x l :
  WI x -> good_steps x l ->
  let y := irun x l in
  (forall e, In e (g_tlog (ga y)) -> t_client e <> w_lh (iw y) ->
     elapsed (Tmo (t_com e)) (self_h (w_chain (wb (iw y)))) (self_t (w_chain (wb (iw y)))) = true) /\
  (forall e, In e (g_tlog (gb y)) -> t_client e <> w_lh (iw y) ->
     elapsed (Tmo (t_com e)) (self_h (w_chain (wa (iw y)))) (self_t (w_chain (wa (iw y)))) = true).
Proof.
  intros I G y. pose proof (wi_run _ _ I G) as [La Lb Kab Kba]. fold y in Kab, Kba. split.
  - intros e He Hc. destruct (k_tlog _ _ _ _ _ Kab e He Hc) as [t [T1 [T2 [T3 T4]]]].
    eapply elapsed_mono; [exact T1| |exact T4]. apply h_lte_of; [exact T2|exact T3].
  - intros e He Hc. destruct (k_tlog _ _ _ _ _ Kba e He Hc) as [t [T1 [T2 [T3 T4]]]].
    eapply elapsed_mono; [exact T1| |exact T4]. apply h_lte_of; [exact T2|exact T3].
Qed.

(** v2 (timeouts in seconds against nanosecond block time) *)
Theorem timeout2_never_early x l :
  WI2 x -> good_steps2 x l ->
  let y := irun2 x l in
  (forall e, In e (h_tlog (ha y)) -> t2_client e <> w_lh (iw (iw1 y)) ->
     Tmo2 (t2_com e) <= ns_to_s (self_t (w_chain (wb (iw (iw1 y)))))) /\
  (forall e, In e (h_tlog (hb y)) -> t2_client e <> w_lh (iw (iw1 y)) ->
     Tmo2 (t2_com e) <= ns_to_s (self_t (w_chain (wa (iw (iw1 y)))))).
Proof.
  intros I G y. pose proof (wi2_run _ _ I G) as [_ La Lb Kab Kba]. fold y in Kab, Kba. split.
  - intros e He Hc. destruct (k2_tlog _ _ _ _ _ Kab e He Hc) as [t [T1 T2]].
    pose proof (ns_to_s_mono _ _ T2). lia.
  - intros e He Hc. destruct (k2_tlog _ _ _ _ _ Kba e He Hc) as [t [T1 T2]].
    pose proof (ns_to_s_mono _ _ T2). lia.
Qed.
