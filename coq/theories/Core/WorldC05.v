(** End-to-end provenance of received packets (C05) in the two-chain world: corollaries of [WI] / [WI2]. *)
From IBC Require Import Lib.Bytes Core.Height Core.HeightFacts Core.Chain Core.World Core.WorldFacts Core.ChainFacts Core.ChainInv
  Core.ChainThms Core.WorldInv Core.WorldInv2 Core.WorldInv3 Core.WorldThm Core.WorldV2.
Local Open Scope N_scope.

(** v1: every MsgRecvPacket accepted over a remote client carries exactly the commitment that a MsgTransfer-level
    send once stored on the other chain under the packet's source key, and the packet had not expired at the
    receiving block (height and time of that block). *)
Theorem recv_only_sent x l :
  WI x -> good_steps x l ->
  let y := irun x l in
  (forall r, In r (g_rlog (gb y)) -> r_client r <> w_lh (iw y) ->
     g_ever (ga y) (r_src r) = Some (r_com r) /\ elapsed (Tmo (r_com r)) (r_h r) (r_t r) = false) /\
  (forall r, In r (g_rlog (ga y)) -> r_client r <> w_lh (iw y) ->
     g_ever (gb y) (r_src r) = Some (r_com r) /\ elapsed (Tmo (r_com r)) (r_h r) (r_t r) = false).
Proof.
  intros I G y. pose proof (wi_run _ _ I G) as [La Lb Kab Kba]. fold y in La, Lb, Kab, Kba. split.
  - intros r Hr Hc. split; [exact (k_prov _ _ _ _ _ Kab r Hr Hc)|exact (proj1 (l_rlog _ _ Lb r Hr))].
  - intros r Hr Hc. split; [exact (k_prov _ _ _ _ _ Kba r Hr Hc)|exact (proj1 (l_rlog _ _ La r Hr))].
Qed.

(** v2 *)
Theorem recv2_only_sent x l :
  WI2 x -> good_steps2 x l ->
  let y := irun2 x l in
  (forall r, In r (h_rlog (hb y)) -> r2_client r <> w_lh (iw (iw1 y)) ->
     h_ever (ha y) (r2_src r) = Some (r2_com r) /\ ns_to_s (r2_t r) < Tmo2 (r2_com r)) /\
  (forall r, In r (h_rlog (ha y)) -> r2_client r <> w_lh (iw (iw1 y)) ->
     h_ever (hb y) (r2_src r) = Some (r2_com r) /\ ns_to_s (r2_t r) < Tmo2 (r2_com r)).
Proof.
  intros I G y. pose proof (wi2_run _ _ I G) as [_ La Lb Kab Kba]. fold y in La, Lb, Kab, Kba. split.
  - intros r Hr Hc. split; [exact (k2_prov _ _ _ _ _ Kab r Hr Hc)|exact (proj1 (l2_rlog _ _ Lb r Hr))].
  - intros r Hr Hc. split; [exact (k2_prov _ _ _ _ _ Kba r Hr Hc)|exact (proj1 (l2_rlog _ _ La r Hr))].
Qed.

(** ** non-vacuity: a receive over a remote client is accepted and logged *)
Definition exr_packet : Packet1 := mkP1 1 1 10 1 20 2 (mkH 1 20) 0.
Definition exr_steps : list WStep :=
  [ mkWS SA (mkH 1 11) 1100 (WPacket (OSend1 1 10 (mkH 1 20) 0 2) PGarbage);
    mkWS SA (mkH 1 12) 1200 WEmpty;
    mkWS SB (mkH 1 11) 1300 (WUpdateClient 8 12);
    mkWS SB (mkH 1 12) 1400 (WPacket (ORecv1 exr_packet (mkH 1 12) 0) (PHonest 11 (KCommit1 1 10 1))) ].

Example exr_good : good_steps (mkIW exw ghost0 ghost0) exr_steps.
Proof. vm_compute. repeat split; first [reflexivity | discriminate | exact I | (intro HH; discriminate HH)]. Qed.

Example exr_received :
  map r_dst (g_rlog (gb (irun (mkIW exw ghost0 ghost0) exr_steps))) = [(1, 20, 1)] /\
  map r_client (g_rlog (gb (irun (mkIW exw ghost0 ghost0) exr_steps))) = [8].
Proof. vm_compute. split; reflexivity. Qed.
