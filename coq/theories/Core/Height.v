(** 02-client/types/height.go and 04-channel/types/timeout.go *)
From IBC Require Import Lib.Bytes Lib.Dec.
Local Open Scope N_scope.

Record Height := mkH { rev : N; ht : N }.

Definition cmpZ (a b : N) : Z :=
  match N.compare a b with Lt => (-1)%Z | Eq => 0%Z | Gt => 1%Z end.

(** Height.Compare: revision numbers first (big.Int.Cmp), then revision heights *)
Definition h_compare (a b : Height) : Z :=
  if negb (rev a =? rev b) then cmpZ (rev a) (rev b) else cmpZ (ht a) (ht b).

Definition h_lt a b := (h_compare a b =? -1)%Z.
Definition h_lte a b := (h_compare a b <=? 0)%Z.
Definition h_gt a b := (h_compare a b =? 1)%Z.
Definition h_gte a b := (h_compare a b >=? 0)%Z.
Definition h_eq a b := (h_compare a b =? 0)%Z.
Definition h_is_zero a := (rev a =? 0) && (ht a =? 0).

(** Height.String: "%d-%d" *)
Definition h_string (h : Height) : bytes := dec (rev h) ++ dash :: dec (ht h).

(** ParseHeight: strings.Split(s,"-") must give exactly two parts, each strconv.ParseUint(_,10,64) *)
Definition parse_height (s : bytes) : option Height :=
  match split_on dash s with
  | [a; b] =>
      match parse_uint64 a, parse_uint64 b with
      | Some r, Some h => Some (mkH r h)
      | _, _ => None
      end
  | _ => None
  end.

(** Decrement / Increment (uint64 arithmetic: increment wraps) *)
Definition h_decrement (h : Height) : option Height :=
  if ht h =? 0 then None else Some (mkH (rev h) (ht h - 1)).
Definition h_increment (h : Height) : Height := mkH (rev h) ((ht h + 1) mod two64).

Record Timeout := mkT { t_height : Height; t_ts : N }.

Definition height_elapsed (t : Timeout) (h : Height) : bool :=
  negb (h_is_zero (t_height t)) && h_gte h (t_height t).
Definition timestamp_elapsed (t : Timeout) (ts : N) : bool :=
  negb (t_ts t =? 0) && (t_ts t <=? ts).
Definition elapsed (t : Timeout) (h : Height) (ts : N) : bool :=
  height_elapsed t h || timestamp_elapsed t ts.
Definition timeout_is_valid (t : Timeout) : bool :=
  negb (h_is_zero (t_height t)) || negb (t_ts t =? 0).
