(** Packet life cycle of one chain: IBC v1 (04-channel/keeper/packet.go, timeout.go, core/keeper/msg_server.go)
    and IBC v2 (04-channel/v2/keeper/packet.go, msg_server.go), guard by guard in the order of the Go code.

    Everything outside core IBC is an explicit per-step environment [Env]: what the light clients answer
    (status, latest height, consensus timestamps, membership / non-membership verification) and what the
    application callbacks do.  A history is a list of (environment, operation) pairs, so theorems quantified
    over all histories hold for every light-client behaviour and every application, changing at every step.
    Core/World.v instantiates the environment with honest Tendermint-like clients of a second chain. *)
From IBC Require Import Lib.Bytes Lib.Dec Core.Height.
Local Open Scope N_scope.

Definition Id := N.      (* interned identifier: port, channel, connection, client *)
Definition Data := N.    (* interned byte string (packet data, ack bytes); 0 is the empty byte string *)

Inductive Order := ORDERED | UNORDERED.
Inductive CState := ST_INIT | ST_TRYOPEN | ST_OPEN | ST_CLOSED.
Inductive Outcome := Ok | Noop | Err | Panic.

Definition order_eqb (a b : Order) : bool :=
  match a, b with ORDERED, ORDERED | UNORDERED, UNORDERED => true | _, _ => false end.
Definition cstate_eqb (a b : CState) : bool :=
  match a, b with ST_INIT, ST_INIT | ST_TRYOPEN, ST_TRYOPEN | ST_OPEN, ST_OPEN | ST_CLOSED, ST_CLOSED => true | _, _ => false end.
Definition is_open (s : CState) : bool := cstate_eqb s ST_OPEN.

Record ChanEnd := mkChan {
  c_state : CState; c_ord : Order; c_cp_port : Id; c_cp_chan : Id; c_conn : Id; c_version : Id }.
Record ConnEnd := mkConn { k_open : bool; k_client : Id; k_cp_conn : Id }.

(** ** Packets and commitments.  A commitment is kept as the tuple of committed fields: by C07 equal
    commitment bytes mean equal tuples (or an exhibited SHA-256 collision). *)
Record Packet1 := mkP1 {
  p_seq : N; p_sp : Id; p_sc : Id; p_dp : Id; p_dc : Id; p_data : Data; p_th : Height; p_tt : N }.
Definition Commit1 := (Data * (N * N) * N)%type.
Definition commit1 (p : Packet1) : Commit1 := (p_data p, (rev (p_th p), ht (p_th p)), p_tt p).
Definition commit1_eqb (a b : Commit1) : bool :=
  let '(d, (r, h), t) := a in let '(d', (r', h'), t') := b in
  (d =? d') && (r =? r') && (h =? h') && (t =? t').

Record Payload := mkPay { y_sp : Id; y_dp : Id; y_ver : Id; y_enc : Id; y_val : Data }.
Record Packet2 := mkP2 { q_seq : N; q_src : Id; q_dst : Id; q_tt : N; q_pay : list Payload }.
Definition payload_eqb (a b : Payload) : bool :=
  (y_sp a =? y_sp b) && (y_dp a =? y_dp b) && (y_ver a =? y_ver b) && (y_enc a =? y_enc b) && (y_val a =? y_val b).
Fixpoint payloads_eqb (a b : list Payload) : bool :=
  match a, b with
  | [], [] => true
  | x :: a', y :: b' => payload_eqb x y && payloads_eqb a' b'
  | _, _ => false
  end.
Definition Commit2 := (Id * N * list Payload)%type.
Definition commit2 (q : Packet2) : Commit2 := (q_dst q, q_tt q, q_pay q).
Definition commit2_eqb (a b : Commit2) : bool :=
  let '(d, t, l) := a in let '(d', t', l') := b in (d =? d') && (t =? t') && payloads_eqb l l'.

Fixpoint datas_eqb (a b : list Data) : bool :=
  match a, b with
  | [], [] => true
  | x :: a', y :: b' => (x =? y) && datas_eqb a' b'
  | _, _ => false
  end.

(** the v2 universal error acknowledgement, as an interned constant *)
Definition sentinel : Data := 1.

(** ** What a light client is asked to verify (ICS-24 paths with their values) *)
Inductive PKey :=
| KCommit1 (port chan : Id) (seq : N) | KAck1 (port chan : Id) (seq : N) | KReceipt1 (port chan : Id) (seq : N)
| KNextRecv (port chan : Id) | KChan (port chan : Id)
| KCommit2 (id : Id) (seq : N) | KAck2 (id : Id) (seq : N) | KReceipt2 (id : Id) (seq : N).
Inductive PVal :=
| VCommit1 (c : Commit1) | VAck1 (a : Data) | VSeq (n : N) | VChan (e : ChanEnd)
| VCommit2 (c : Commit2) | VAck2 (a : list Data).

(** ** Application callback results *)
Inductive Recv2Status := R2Success | R2Failure | R2Async.

(** ** Per-step environment *)
Record Env (A : Type) := mkEnv {
  e_active : Id -> bool;                                   (* GetClientStatus(client) == Active *)
  e_latest : Id -> Height;                                 (* GetClientLatestHeight *)
  e_ts : Id -> Height -> option N;                         (* GetClientTimestampAtHeight, ns *)
  e_vmem : Id -> Height -> PKey -> PVal -> bool;           (* ClientKeeper.VerifyMembership succeeded *)
  e_vnon : Id -> Height -> PKey -> bool;                   (* ClientKeeper.VerifyNonMembership succeeded *)
  e_noncanon : Data -> bool;                               (* v1 ack bytes that unmarshal but re-marshal differently *)
  (* v1 callbacks; [None] ack = asynchronous; (success, bytes) otherwise *)
  e_recv1 : A -> Packet1 -> N -> A * option (bool * Data);
  e_ack1 : A -> Packet1 -> Data -> N -> option A;          (* None = callback returned an error *)
  e_timeout1 : A -> Packet1 -> N -> option A;
  (* v2 callbacks, per payload *)
  e_send2 : A -> Id -> Id -> N -> Payload -> N -> option A;
  e_recv2 : A -> Id -> Id -> N -> Payload -> N -> A * (Recv2Status * Data);
  e_ack2 : A -> Id -> Id -> N -> Data -> Payload -> N -> option A;
  e_timeout2 : A -> Id -> Id -> N -> Payload -> N -> option A }.
Arguments e_active {A}. Arguments e_latest {A}. Arguments e_ts {A}. Arguments e_vmem {A}. Arguments e_vnon {A}.
Arguments e_noncanon {A}. Arguments e_recv1 {A}. Arguments e_ack1 {A}. Arguments e_timeout1 {A}.
Arguments e_send2 {A}. Arguments e_recv2 {A}. Arguments e_ack2 {A}. Arguments e_timeout2 {A}.

(** ** Application callback log (what the property texts observe) *)
Inductive Event :=
| EvRecv1 (port chan : Id) (seq : N)
| EvAck1 (port chan : Id) (seq : N) (ack : Data)
| EvTimeout1 (port chan : Id) (seq : N)
| EvRecv2 (id : Id) (seq : N) (idx : N)
| EvAck2 (id : Id) (seq : N) (idx : N) (ack : Data)
| EvTimeout2 (id : Id) (seq : N) (idx : N)
| EvSend2 (id : Id) (seq : N) (idx : N).

(** ** Chain state.  Stores are total functions key -> option value (the IBC store restricted to one key kind). *)
Definition K2 := (Id * Id)%type.
Definition K3 := (Id * Id * N)%type.
Definition KS := (Id * N)%type.
Definition k2_eqb (a b : K2) := (fst a =? fst b) && (snd a =? snd b).
Definition k3_eqb (a b : K3) := k2_eqb (fst a) (fst b) && (snd a =? snd b).
Definition ks_eqb (a b : KS) := (fst a =? fst b) && (snd a =? snd b).

Definition upd {K V} (eqb : K -> K -> bool) (m : K -> V) (k : K) (v : V) : K -> V :=
  fun k' => if eqb k k' then v else m k'.

Record Chain (A : Type) := mkChain {
  chans : K2 -> option ChanEnd;
  conns : Id -> option ConnEnd;
  ports : Id -> bool;                    (* port router has a route *)
  nsend : Id -> option N;                (* hostv2.NextSequenceSendKey(id): shared by v1 channels and v2 ids *)
  nrecv : K2 -> option N;
  nack : K2 -> option N;
  com1 : K3 -> option Commit1;
  rcpt1 : K3 -> bool;
  ackc1 : K3 -> option Data;
  com2 : KS -> option Commit2;
  rcpt2 : KS -> bool;
  ackc2 : KS -> option (list Data);
  asyn2 : KS -> option Packet2;
  cparty : Id -> option Id;              (* v2 counterparty (client v2 keeper), also set for channel aliases *)
  alias : Id -> option Id;               (* channel id -> underlying light client id *)
  app : A;
  self_h : Height;
  self_t : N;                            (* block time, ns *)
  events : list Event }.
Arguments chans {A}. Arguments conns {A}. Arguments ports {A}. Arguments nsend {A}. Arguments nrecv {A}.
Arguments nack {A}. Arguments com1 {A}. Arguments rcpt1 {A}. Arguments ackc1 {A}. Arguments com2 {A}.
Arguments rcpt2 {A}. Arguments ackc2 {A}. Arguments asyn2 {A}. Arguments cparty {A}. Arguments alias {A}.
Arguments app {A}. Arguments self_h {A}. Arguments self_t {A}. Arguments events {A}.

Section Handlers.
Context {A : Type}.
Notation Chain := (Chain A).
Notation Env := (Env A).

(** record update helpers *)
Definition set_chans (c : Chain) v := mkChain A v (conns c) (ports c) (nsend c) (nrecv c) (nack c) (com1 c) (rcpt1 c) (ackc1 c) (com2 c) (rcpt2 c) (ackc2 c) (asyn2 c) (cparty c) (alias c) (app c) (self_h c) (self_t c) (events c).
Definition set_nsend (c : Chain) v := mkChain A (chans c) (conns c) (ports c) v (nrecv c) (nack c) (com1 c) (rcpt1 c) (ackc1 c) (com2 c) (rcpt2 c) (ackc2 c) (asyn2 c) (cparty c) (alias c) (app c) (self_h c) (self_t c) (events c).
Definition set_nrecv (c : Chain) v := mkChain A (chans c) (conns c) (ports c) (nsend c) v (nack c) (com1 c) (rcpt1 c) (ackc1 c) (com2 c) (rcpt2 c) (ackc2 c) (asyn2 c) (cparty c) (alias c) (app c) (self_h c) (self_t c) (events c).
Definition set_nack (c : Chain) v := mkChain A (chans c) (conns c) (ports c) (nsend c) (nrecv c) v (com1 c) (rcpt1 c) (ackc1 c) (com2 c) (rcpt2 c) (ackc2 c) (asyn2 c) (cparty c) (alias c) (app c) (self_h c) (self_t c) (events c).
Definition set_com1 (c : Chain) v := mkChain A (chans c) (conns c) (ports c) (nsend c) (nrecv c) (nack c) v (rcpt1 c) (ackc1 c) (com2 c) (rcpt2 c) (ackc2 c) (asyn2 c) (cparty c) (alias c) (app c) (self_h c) (self_t c) (events c).
Definition set_rcpt1 (c : Chain) v := mkChain A (chans c) (conns c) (ports c) (nsend c) (nrecv c) (nack c) (com1 c) v (ackc1 c) (com2 c) (rcpt2 c) (ackc2 c) (asyn2 c) (cparty c) (alias c) (app c) (self_h c) (self_t c) (events c).
Definition set_ackc1 (c : Chain) v := mkChain A (chans c) (conns c) (ports c) (nsend c) (nrecv c) (nack c) (com1 c) (rcpt1 c) v (com2 c) (rcpt2 c) (ackc2 c) (asyn2 c) (cparty c) (alias c) (app c) (self_h c) (self_t c) (events c).
Definition set_com2 (c : Chain) v := mkChain A (chans c) (conns c) (ports c) (nsend c) (nrecv c) (nack c) (com1 c) (rcpt1 c) (ackc1 c) v (rcpt2 c) (ackc2 c) (asyn2 c) (cparty c) (alias c) (app c) (self_h c) (self_t c) (events c).
Definition set_rcpt2 (c : Chain) v := mkChain A (chans c) (conns c) (ports c) (nsend c) (nrecv c) (nack c) (com1 c) (rcpt1 c) (ackc1 c) (com2 c) v (ackc2 c) (asyn2 c) (cparty c) (alias c) (app c) (self_h c) (self_t c) (events c).
Definition set_ackc2 (c : Chain) v := mkChain A (chans c) (conns c) (ports c) (nsend c) (nrecv c) (nack c) (com1 c) (rcpt1 c) (ackc1 c) (com2 c) (rcpt2 c) v (asyn2 c) (cparty c) (alias c) (app c) (self_h c) (self_t c) (events c).
Definition set_asyn2 (c : Chain) v := mkChain A (chans c) (conns c) (ports c) (nsend c) (nrecv c) (nack c) (com1 c) (rcpt1 c) (ackc1 c) (com2 c) (rcpt2 c) (ackc2 c) v (cparty c) (alias c) (app c) (self_h c) (self_t c) (events c).
Definition set_app (c : Chain) v := mkChain A (chans c) (conns c) (ports c) (nsend c) (nrecv c) (nack c) (com1 c) (rcpt1 c) (ackc1 c) (com2 c) (rcpt2 c) (ackc2 c) (asyn2 c) (cparty c) (alias c) v (self_h c) (self_t c) (events c).
Definition add_events (c : Chain) evs := mkChain A (chans c) (conns c) (ports c) (nsend c) (nrecv c) (nack c) (com1 c) (rcpt1 c) (ackc1 c) (com2 c) (rcpt2 c) (ackc2 c) (asyn2 c) (cparty c) (alias c) (app c) (self_h c) (self_t c) (events c ++ evs).
Definition set_block (c : Chain) h t := mkChain A (chans c) (conns c) (ports c) (nsend c) (nrecv c) (nack c) (com1 c) (rcpt1 c) (ackc1 c) (com2 c) (rcpt2 c) (ackc2 c) (asyn2 c) (cparty c) (alias c) (app c) h t (events c).

Definition timeout1 (p : Packet1) : Timeout := mkT (p_th p) (p_tt p).

(** types.Packet.ValidateBasic (identifier validity is by construction of interned ids) *)
Definition packet1_valid (p : Packet1) : bool :=
  negb (p_seq p =? 0) && timeout_is_valid (timeout1 p) && negb (p_data p =? 0).

(** *** v1 SendPacket (keeper/packet.go:SendPacket) *)
Definition send1 (e : Env) (c : Chain) (port chan : Id) (th : Height) (tmo : N) (data : Data) : Chain * Outcome * N :=
  match chans c (port, chan) with
  | None => (c, Err, 0)
  | Some ch =>
    if negb (is_open (c_state ch)) then (c, Err, 0) else
    match nsend c chan with
    | None => (c, Err, 0)
    | Some seq =>
      let p := mkP1 seq port chan (c_cp_port ch) (c_cp_chan ch) data th tmo in
      if negb (packet1_valid p) then (c, Err, 0) else
      match conns c (c_conn ch) with
      | None => (c, Err, 0)
      | Some k =>
        if negb (e_active e (k_client k)) then (c, Err, 0) else
        let latest := e_latest e (k_client k) in
        if h_is_zero latest then (c, Err, 0) else
        match e_ts e (k_client k) latest with
        | None => (c, Err, 0)
        | Some lts =>
          if elapsed (timeout1 p) latest lts then (c, Err, 0) else
          let c1 := set_nsend c (upd N.eqb (nsend c) chan (Some (seq + 1))) in
          let c2 := set_com1 c1 (upd k3_eqb (com1 c1) (port, chan, seq) (Some (commit1 p))) in
          (c2, Ok, seq)
        end
      end
    end
  end.

(** *** keeper/packet.go:RecvPacket (TAO part), returns the new state or the reason class *)
Definition recv1_tao (e : Env) (c : Chain) (p : Packet1) (ph : Height) : Chain * Outcome :=
  match chans c (p_dp p, p_dc p) with
  | None => (c, Err)
  | Some ch =>
    if negb (is_open (c_state ch)) then (c, Err) else
    if negb (p_sp p =? c_cp_port ch) then (c, Err) else
    if negb (p_sc p =? c_cp_chan ch) then (c, Err) else
    match conns c (c_conn ch) with
    | None => (c, Err)
    | Some k =>
      if negb (k_open k) then (c, Err) else
      if elapsed (timeout1 p) (self_h c) (self_t c) then (c, Err) else
      if negb (e_vmem e (k_client k) ph (KCommit1 (p_sp p) (p_sc p) (p_seq p)) (VCommit1 (commit1 p))) then (c, Err) else
      (* applyReplayProtection *)
      match c_ord ch with
      | UNORDERED =>
          if rcpt1 c (p_dp p, p_dc p, p_seq p) then (c, Noop)
          else (set_rcpt1 c (upd k3_eqb (rcpt1 c) (p_dp p, p_dc p, p_seq p) true), Ok)
      | ORDERED =>
          match nrecv c (p_dp p, p_dc p) with
          | None => (c, Err)
          | Some nr =>
              if p_seq p <? nr then (c, Noop)
              else if negb (p_seq p =? nr) then (c, Err)
              else (set_nrecv c (upd k2_eqb (nrecv c) (p_dp p, p_dc p) (Some (nr + 1))), Ok)
          end
      end
    end
  end.

(** keeper/packet.go:WriteAcknowledgement with a non-nil acknowledgement whose bytes are [bz] *)
Definition write_ack1 (c : Chain) (p : Packet1) (bz : Data) : Chain * Outcome :=
  match chans c (p_dp p, p_dc p) with
  | None => (c, Err)
  | Some ch =>
    if negb (is_open (c_state ch)) then (c, Err) else
    match ackc1 c (p_dp p, p_dc p, p_seq p) with
    | Some _ => (c, Err)
    | None =>
      if bz =? 0 then (c, Err)
      else (set_ackc1 c (upd k3_eqb (ackc1 c) (p_dp p, p_dc p, p_seq p) (Some bz)), Ok)
    end
  end.

(** *** core/keeper/msg_server.go:RecvPacket *)
Definition msg_recv1 (e : Env) (c : Chain) (p : Packet1) (ph : Height) (relayer : N) : Chain * Outcome :=
  if negb (packet1_valid p) then (c, Err) else          (* MsgRecvPacket.ValidateBasic *)
  if negb (ports c (p_dp p)) then (c, Err) else         (* PortKeeper.Route *)
  match recv1_tao e c p ph with
  | (c1, Ok) =>
      let '(a', ack) := e_recv1 e (app c1) p relayer in
      let c2 := add_events c1 [EvRecv1 (p_dp p) (p_dc p) (p_seq p)] in
      match ack with
      | None => (set_app c2 a', Ok)                                         (* asynchronous: writeFn() *)
      | Some (success, bz) =>
          let c3 := if success then set_app c2 a' else c2 in                (* writeFn only on success *)
          match write_ack1 c3 p bz with
          | (c4, Ok) => (c4, Ok)
          | (_, _) => (c, Err)                                              (* the whole transaction reverts *)
          end
      end
  | (_, Noop) => (c, Noop)
  | (_, _) => (c, Err)
  end.

(** *** keeper/packet.go:AcknowledgePacket + msg_server.go:Acknowledgement *)
Definition ack1_tao (e : Env) (c : Chain) (p : Packet1) (ack : Data) (ph : Height) : Chain * Outcome :=
  match chans c (p_sp p, p_sc p) with
  | None => (c, Err)
  | Some ch =>
    if negb (is_open (c_state ch)) then (c, Err) else
    if negb (p_dp p =? c_cp_port ch) then (c, Err) else
    if negb (p_dc p =? c_cp_chan ch) then (c, Err) else
    match conns c (c_conn ch) with
    | None => (c, Err)
    | Some k =>
      if negb (k_open k) then (c, Err) else
      match com1 c (p_sp p, p_sc p, p_seq p) with
      | None => (c, Noop)
      | Some cm =>
        if e_noncanon e ack then (c, Err) else
        if negb (commit1_eqb cm (commit1 p)) then (c, Err) else
        if negb (e_vmem e (k_client k) ph (KAck1 (p_dp p) (p_dc p) (p_seq p)) (VAck1 ack)) then (c, Err) else
        let del c' := set_com1 c' (upd k3_eqb (com1 c') (p_sp p, p_sc p, p_seq p) None) in
        match c_ord ch with
        | UNORDERED => (del c, Ok)
        | ORDERED =>
            match nack c (p_sp p, p_sc p) with
            | None => (c, Err)
            | Some na =>
                if negb (p_seq p =? na) then (c, Err)
                else (del (set_nack c (upd k2_eqb (nack c) (p_sp p, p_sc p) (Some (na + 1)))), Ok)
            end
        end
      end
    end
  end.

Definition msg_ack1 (e : Env) (c : Chain) (p : Packet1) (ack : Data) (ph : Height) (relayer : N) : Chain * Outcome :=
  if negb (packet1_valid p) then (c, Err) else
  if ack =? 0 then (c, Err) else                       (* MsgAcknowledgement.ValidateBasic: non-empty ack *)
  if negb (ports c (p_sp p)) then (c, Err) else
  match ack1_tao e c p ack ph with
  | (c1, Ok) =>
      match e_ack1 e (app c1) p ack relayer with
      | None => (c, Err)                                (* callback error: transaction reverts *)
      | Some a' => (add_events (set_app c1 a') [EvAck1 (p_sp p) (p_sc p) (p_seq p) ack], Ok)
      end
  | (_, Noop) => (c, Noop)
  | (_, _) => (c, Err)
  end.

(** *** keeper/timeout.go *)
Definition timeout_executed (c : Chain) (ch : ChanEnd) (p : Packet1) : Chain :=
  let c1 := set_com1 c (upd k3_eqb (com1 c) (p_sp p, p_sc p, p_seq p) None) in
  match c_ord ch with
  | ORDERED =>
      set_chans c1 (upd k2_eqb (chans c1) (p_sp p, p_sc p)
        (Some (mkChan ST_CLOSED (c_ord ch) (c_cp_port ch) (c_cp_chan ch) (c_conn ch) (c_version ch))))
  | UNORDERED => c1
  end.

Definition verify_unreceived (e : Env) (k : ConnEnd) (ch : ChanEnd) (p : Packet1) (ph : Height) (nsr : N) : bool :=
  match c_ord ch with
  | ORDERED =>
      if p_seq p <? nsr then false
      else e_vmem e (k_client k) ph (KNextRecv (p_dp p) (p_dc p)) (VSeq nsr)
  | UNORDERED => e_vnon e (k_client k) ph (KReceipt1 (p_dp p) (p_dc p) (p_seq p))
  end.

Definition timeout1_tao (e : Env) (c : Chain) (p : Packet1) (ph : Height) (nsr : N) : Chain * Outcome :=
  match chans c (p_sp p, p_sc p) with
  | None => (c, Err)
  | Some ch =>
    if negb (p_dp p =? c_cp_port ch) then (c, Err) else
    if negb (p_dc p =? c_cp_chan ch) then (c, Err) else
    match conns c (c_conn ch) with
    | None => (c, Err)
    | Some k =>
      match e_ts e (k_client k) ph with
      | None => (c, Err)
      | Some pts =>
        if negb (elapsed (timeout1 p) ph pts) then (c, Err) else
        match com1 c (p_sp p, p_sc p, p_seq p) with
        | None => (c, Noop)
        | Some cm =>
          if negb (commit1_eqb cm (commit1 p)) then (c, Err) else
          if negb (verify_unreceived e k ch p ph nsr) then (c, Err) else
          (timeout_executed c ch p, Ok)
        end
      end
    end
  end.

Definition closed_counterparty (k : ConnEnd) (ch : ChanEnd) (p : Packet1) : ChanEnd :=
  mkChan ST_CLOSED (c_ord ch) (p_sp p) (p_sc p) (k_cp_conn k) (c_version ch).

Definition timeout_on_close1_tao (e : Env) (c : Chain) (p : Packet1) (ph : Height) (nsr : N) : Chain * Outcome :=
  match chans c (p_sp p, p_sc p) with
  | None => (c, Err)
  | Some ch =>
    if negb (p_dp p =? c_cp_port ch) then (c, Err) else
    if negb (p_dc p =? c_cp_chan ch) then (c, Err) else
    match conns c (c_conn ch) with
    | None => (c, Err)
    | Some k =>
      match com1 c (p_sp p, p_sc p, p_seq p) with
      | None => (c, Noop)
      | Some cm =>
        if negb (commit1_eqb cm (commit1 p)) then (c, Err) else
        if negb (e_vmem e (k_client k) ph (KChan (c_cp_port ch) (c_cp_chan ch)) (VChan (closed_counterparty k ch p))) then (c, Err) else
        if negb (verify_unreceived e k ch p ph nsr) then (c, Err) else
        (timeout_executed c ch p, Ok)
      end
    end
  end.

Definition msg_timeout1_gen (tao : Chain * Outcome) (e : Env) (c : Chain) (p : Packet1) (nsr : N) (relayer : N) : Chain * Outcome :=
  if negb (packet1_valid p) then (c, Err) else
  if nsr =? 0 then (c, Err) else                       (* MsgTimeout.ValidateBasic *)
  if negb (ports c (p_sp p)) then (c, Err) else
  match tao with
  | (c1, Ok) =>
      match e_timeout1 e (app c1) p relayer with
      | None => (c, Err)
      | Some a' => (add_events (set_app c1 a') [EvTimeout1 (p_sp p) (p_sc p) (p_seq p)], Ok)
      end
  | (_, Noop) => (c, Noop)
  | (_, _) => (c, Err)
  end.

Definition msg_timeout1 e c p ph nsr relayer := msg_timeout1_gen (timeout1_tao e c p ph nsr) e c p nsr relayer.
Definition msg_timeout_on_close1 e c p ph nsr relayer := msg_timeout1_gen (timeout_on_close1_tao e c p ph nsr) e c p nsr relayer.

(** asynchronous WriteAcknowledgement called by an application (v1: no receipt check) *)
Definition async_ack1 (c : Chain) (p : Packet1) (bz : Data) : Chain * Outcome := write_ack1 c p bz.

(** ** IBC v2 *)

Definition two63 : N := 9223372036854775808.
Definition nano : N := 1000000000.
(** int64(x) for a uint64 x, as a mathematical integer *)
Definition to_int64 (x : N) : Z := if x <? two63 then Z.of_N x else (Z.of_N x - Z.of_N two64)%Z.
(** uint64(time.Unix(0, int64(ns)).Unix()) for ns < 2^63: whole seconds *)
Definition ns_to_s (ns : N) : N := ns / nano.
Definition max_timeout_delta_ns : Z := (24 * 3600 * 1000000000)%Z.

Definition payload_valid (y : Payload) : bool :=
  negb (y_ver y =? 0) && negb (y_enc y =? 0) && negb (y_val y =? 0).
Definition packet2_valid (q : Packet2) : bool :=
  match q_pay q with [] => false | _ => true end &&
  forallb payload_valid (q_pay q) && negb (q_seq q =? 0) && negb (q_tt q =? 0).

Definition base_client (c : Chain) (id : Id) : Id :=
  match alias c id with Some u => u | None => id end.

(** v2/keeper/packet.go:sendPacket *)
Definition send2_tao (e : Env) (c : Chain) (src : Id) (tmo : N) (pay : list Payload) : Chain * Outcome * N * Id :=
  match cparty c src with
  | None => (c, Err, 0, 0)
  | Some dst =>
    let tns := (to_int64 tmo * 1000000000)%Z in
    if negb (Z.of_N (self_t c) <? tns)%Z then (c, Err, 0, 0) else                    (* !timeout.After(blockTime) *)
    if (Z.of_N (self_t c) + max_timeout_delta_ns <? tns)%Z then (c, Err, 0, 0) else   (* beyond MaxTimeoutDelta *)
    match nsend c src with
    | None => (c, Err, 0, 0)
    | Some seq =>
      let q := mkP2 seq src dst tmo pay in
      if negb (packet2_valid q) then (c, Err, 0, 0) else
      let cl := base_client c src in
      if negb (e_active e cl) then (c, Err, 0, 0) else
      let latest := e_latest e cl in
      if h_is_zero latest then (c, Err, 0, 0) else
      match e_ts e cl latest with
      | None => (c, Err, 0, 0)
      | Some lts =>
        if tmo <=? ns_to_s lts then (c, Err, 0, 0) else
        let c1 := set_nsend c (upd N.eqb (nsend c) src (Some (seq + 1))) in
        let c2 := set_com2 c1 (upd ks_eqb (com2 c1) (src, seq) (Some (commit2 q))) in
        (c2, Ok, seq, dst)
      end
    end
  end.

Fixpoint send2_callbacks (e : Env) (a : A) (src dst : Id) (seq : N) (signer : N) (idx : N) (pay : list Payload) : option (A * list Event) :=
  match pay with
  | [] => Some (a, [])
  | y :: rest =>
      match e_send2 e a src dst seq y signer with
      | None => None
      | Some a' =>
          match send2_callbacks e a' src dst seq signer (idx + 1) rest with
          | None => None
          | Some (a'', evs) => Some (a'', EvSend2 src seq idx :: evs)
          end
      end
  end.

Definition msg_send2 (e : Env) (c : Chain) (src : Id) (tmo : N) (pay : list Payload) (signer : N) : Chain * Outcome * N :=
  (* MsgSendPacket.ValidateBasic *)
  if (tmo =? 0) || match pay with [] => true | _ => false end || negb (forallb payload_valid pay) then (c, Err, 0) else
  match send2_tao e c src tmo pay with
  | (c1, Ok, seq, dst) =>
      match send2_callbacks e (app c1) src dst seq signer 0 pay with
      | None => (c, Err, 0)
      | Some (a', evs) => (add_events (set_app c1 a') evs, Ok, seq)
      end
  | _ => (c, Err, 0)
  end.

(** v2/keeper/packet.go:recvPacket *)
Definition recv2_tao (e : Env) (c : Chain) (q : Packet2) (ph : Height) : Chain * Outcome :=
  match cparty c (q_dst q) with
  | None => (c, Err)
  | Some cp =>
    if negb (cp =? q_src q) then (c, Err) else
    if q_tt q <=? ns_to_s (self_t c) then (c, Err) else
    if rcpt2 c (q_dst q, q_seq q) then (c, Noop) else
    if negb (e_vmem e (base_client c (q_dst q)) ph (KCommit2 (q_src q) (q_seq q)) (VCommit2 (commit2 q))) then (c, Err) else
    (set_rcpt2 c (upd ks_eqb (rcpt2 c) (q_dst q, q_seq q) true), Ok)
  end.

(** Acknowledgement.Validate *)
Definition ack2_valid (acks : list Data) : bool :=
  match acks with
  | [] => false
  | [a] => negb (a =? 0)
  | _ => forallb (fun a => negb (a =? 0) && negb (a =? sentinel)) acks
  end.
Definition ack2_success (acks : list Data) : bool :=
  match acks with a :: _ => negb (a =? sentinel) | [] => false end.

(** v2/keeper/packet.go:writeAcknowledgement *)
Definition write_ack2 (c : Chain) (q : Packet2) (acks : list Data) : Chain * Outcome :=
  if negb (ack2_valid acks) then (c, Err) else
  if ack2_success acks && negb (Nat.eqb (length acks) (length (q_pay q))) then (c, Err) else
  match cparty c (q_dst q) with
  | None => (c, Err)
  | Some cp =>
    if negb (cp =? q_src q) then (c, Err) else
    match ackc2 c (q_dst q, q_seq q) with
    | Some _ => (c, Err)
    | None =>
      if negb (rcpt2 c (q_dst q, q_seq q)) then (c, Err) else
      (set_ackc2 c (upd ks_eqb (ackc2 c) (q_dst q, q_seq q) (Some acks)), Ok)
    end
  end.

(** the payload loop of msg_server.go:RecvPacket.  Result: application state reached, acks collected,
    flags, callback log; [None] when the handler returns an error (sentinel as success ack, async with >1 payloads) *)
Record Loop2 := mkLoop { l_app : A; l_acks : list Data; l_success : bool; l_async : bool; l_evs : list Event }.

Fixpoint recv2_loop (e : Env) (q : Packet2) (relayer : N) (n : nat) (idx : N) (pay : list Payload) (st : Loop2) : option Loop2 :=
  match pay with
  | [] => Some st
  | y :: rest =>
      let '(a', (status, ackb)) := e_recv2 e (l_app st) (q_src q) (q_dst q) (q_seq q) y relayer in
      let evs := l_evs st ++ [EvRecv2 (q_dst q) (q_seq q) idx] in
      match status with
      | R2Failure => Some (mkLoop a' [sentinel] false (l_async st) evs)           (* break *)
      | _ =>
          if ackb =? sentinel then None else
          let acks := l_acks st ++ [ackb] in
          match status with
          | R2Async =>
              if Nat.ltb 1 n then None
              else recv2_loop e q relayer n (idx + 1) rest (mkLoop a' acks (l_success st) true evs)
          | _ => recv2_loop e q relayer n (idx + 1) rest (mkLoop a' acks (l_success st) (l_async st) evs)
          end
      end
  end.

Definition msg_recv2 (e : Env) (c : Chain) (q : Packet2) (ph : Height) (relayer : N) : Chain * Outcome :=
  if negb (packet2_valid q) then (c, Err) else
  match recv2_tao e c q ph with
  | (c1, Ok) =>
      match recv2_loop e q relayer (length (q_pay q)) 0 (q_pay q) (mkLoop (app c1) [] true false []) with
      | None => (c, Err)
      | Some st =>
          let c2 := add_events (if l_success st then set_app c1 (l_app st) else c1) (l_evs st) in
          if l_async st then
            (set_asyn2 c2 (upd ks_eqb (asyn2 c2) (q_dst q, q_seq q) (Some q)), Ok)
          else if negb (Bool.eqb (ack2_success (l_acks st)) (l_success st)) then (c, Panic)
          else match write_ack2 c2 q (l_acks st) with
               | (c3, Ok) => (c3, Ok)
               | (_, _) => (c, Err)
               end
      end
  | (_, Noop) => (c, Noop)
  | (_, _) => (c, Err)
  end.

(** v2 WriteAcknowledgement (asynchronous path) *)
Definition async_ack2 (c : Chain) (id : Id) (seq : N) (acks : list Data) : Chain * Outcome :=
  match asyn2 c (id, seq) with
  | None => (c, Err)
  | Some q =>
      match write_ack2 c q acks with
      | (c1, Ok) => (set_asyn2 c1 (upd ks_eqb (asyn2 c1) (id, seq) None), Ok)
      | (_, _) => (c, Err)
      end
  end.

(** v2/keeper/packet.go:acknowledgePacket *)
Definition ack2_tao (e : Env) (c : Chain) (q : Packet2) (acks : list Data) (ph : Height) : Chain * Outcome :=
  match cparty c (q_src q) with
  | None => (c, Err)
  | Some cp =>
    if negb (cp =? q_dst q) then (c, Err) else
    match com2 c (q_src q, q_seq q) with
    | None => (c, Noop)
    | Some cm =>
      if negb (commit2_eqb cm (commit2 q)) then (c, Err) else
      if negb (e_vmem e (base_client c (q_src q)) ph (KAck2 (q_dst q) (q_seq q)) (VAck2 acks)) then (c, Err) else
      (set_com2 c (upd ks_eqb (com2 c) (q_src q, q_seq q) None), Ok)
    end
  end.

(** callbacks of msg_server.go:Acknowledgement; [Panic] models AppAcknowledgements[i] out of range *)
Fixpoint ack2_callbacks (e : Env) (a : A) (q : Packet2) (acks : list Data) (success : bool) (relayer : N) (idx : N) (pay : list Payload) (evs : list Event)
  : Outcome * A * list Event :=
  match pay with
  | [] => (Ok, a, evs)
  | y :: rest =>
      let ackopt := if success then nth_error acks (N.to_nat idx) else Some sentinel in
      match ackopt with
      | None => (Panic, a, evs)
      | Some ab =>
          match e_ack2 e a (q_src q) (q_dst q) (q_seq q) ab y relayer with
          | None => (Err, a, evs)
          | Some a' => ack2_callbacks e a' q acks success relayer (idx + 1) rest (evs ++ [EvAck2 (q_src q) (q_seq q) idx ab])
          end
      end
  end.

Definition msg_ack2 (e : Env) (c : Chain) (q : Packet2) (acks : list Data) (ph : Height) (relayer : N) : Chain * Outcome :=
  if negb (ack2_valid acks) then (c, Err) else              (* MsgAcknowledgement.ValidateBasic *)
  if negb (packet2_valid q) then (c, Err) else
  match ack2_tao e c q acks ph with
  | (c1, Ok) =>
      match ack2_callbacks e (app c1) q acks (ack2_success acks) relayer 0 (q_pay q) [] with
      | (Ok, a', evs) => (add_events (set_app c1 a') evs, Ok)
      | (Panic, _, _) => (c, Panic)
      | (_, _, _) => (c, Err)
      end
  | (_, Noop) => (c, Noop)
  | (_, _) => (c, Err)
  end.

(** v2/keeper/packet.go:timeoutPacket *)
Definition timeout2_tao (e : Env) (c : Chain) (q : Packet2) (ph : Height) : Chain * Outcome :=
  match cparty c (q_src q) with
  | None => (c, Err)
  | Some cp =>
    if negb (cp =? q_dst q) then (c, Err) else
    let cl := base_client c (q_src q) in
    match e_ts e cl ph with
    | None => (c, Err)
    | Some pts =>
      if ns_to_s pts <? q_tt q then (c, Err) else
      match com2 c (q_src q, q_seq q) with
      | None => (c, Noop)
      | Some cm =>
        if negb (commit2_eqb cm (commit2 q)) then (c, Err) else
        if negb (e_vnon e cl ph (KReceipt2 (q_dst q) (q_seq q))) then (c, Err) else
        (set_com2 c (upd ks_eqb (com2 c) (q_src q, q_seq q) None), Ok)
      end
    end
  end.

Fixpoint timeout2_callbacks (e : Env) (a : A) (q : Packet2) (relayer : N) (idx : N) (pay : list Payload) (evs : list Event) : option (A * list Event) :=
  match pay with
  | [] => Some (a, evs)
  | y :: rest =>
      match e_timeout2 e a (q_src q) (q_dst q) (q_seq q) y relayer with
      | None => None
      | Some a' => timeout2_callbacks e a' q relayer (idx + 1) rest (evs ++ [EvTimeout2 (q_src q) (q_seq q) idx])
      end
  end.

Definition msg_timeout2 (e : Env) (c : Chain) (q : Packet2) (ph : Height) (relayer : N) : Chain * Outcome :=
  if negb (packet2_valid q) then (c, Err) else
  match timeout2_tao e c q ph with
  | (c1, Ok) =>
      match timeout2_callbacks e (app c1) q relayer 0 (q_pay q) [] with
      | None => (c, Err)
      | Some (a', evs) => (add_events (set_app c1 a') evs, Ok)
      end
  | (_, Noop) => (c, Noop)
  | (_, _) => (c, Err)
  end.

(** ** Operations and histories *)
Inductive Op :=
| OSend1 (port chan : Id) (th : Height) (tmo : N) (data : Data)
| ORecv1 (p : Packet1) (ph : Height) (relayer : N)
| OAck1 (p : Packet1) (ack : Data) (ph : Height) (relayer : N)
| OTimeout1 (p : Packet1) (ph : Height) (nsr : N) (relayer : N)
| OTimeoutOnClose1 (p : Packet1) (ph : Height) (nsr : N) (relayer : N)
| OAsyncAck1 (p : Packet1) (ack : Data)
| OSend2 (src : Id) (tmo : N) (pay : list Payload) (signer : N)
| ORecv2 (q : Packet2) (ph : Height) (relayer : N)
| OAck2 (q : Packet2) (acks : list Data) (ph : Height) (relayer : N)
| OTimeout2 (q : Packet2) (ph : Height) (relayer : N)
| OAsyncAck2 (id : Id) (seq : N) (acks : list Data)
(* environment: block production and channel closing by handshake messages (not packet handlers) *)
| OBlock (h : Height) (t : N)
| OCloseChan (port chan : Id).

(** ChanCloseInit / ChanCloseConfirm as seen by the packet handlers: an existing non-CLOSED end becomes CLOSED *)
Definition close_chan (c : Chain) (port chan : Id) : Chain * Outcome :=
  match chans c (port, chan) with
  | None => (c, Err)
  | Some ch =>
      if cstate_eqb (c_state ch) ST_CLOSED then (c, Err)
      else (set_chans c (upd k2_eqb (chans c) (port, chan)
              (Some (mkChan ST_CLOSED (c_ord ch) (c_cp_port ch) (c_cp_chan ch) (c_conn ch) (c_version ch)))), Ok)
  end.

Definition step (e : Env) (c : Chain) (o : Op) : Chain * Outcome :=
  match o with
  | OSend1 port chan th tmo data => let '(c', out, _) := send1 e c port chan th tmo data in (c', out)
  | ORecv1 p ph r => msg_recv1 e c p ph r
  | OAck1 p a ph r => msg_ack1 e c p a ph r
  | OTimeout1 p ph nsr r => msg_timeout1 e c p ph nsr r
  | OTimeoutOnClose1 p ph nsr r => msg_timeout_on_close1 e c p ph nsr r
  | OAsyncAck1 p a => async_ack1 c p a
  | OSend2 src tmo pay s => let '(c', out, _) := msg_send2 e c src tmo pay s in (c', out)
  | ORecv2 q ph r => msg_recv2 e c q ph r
  | OAck2 q acks ph r => msg_ack2 e c q acks ph r
  | OTimeout2 q ph r => msg_timeout2 e c q ph r
  | OAsyncAck2 id seq acks => async_ack2 c id seq acks
  | OBlock h t => (set_block c h t, Ok)
  | OCloseChan port chan => close_chan c port chan
  end.

Definition run (c : Chain) (hist : list (Env * Op)) : Chain :=
  fold_left (fun c eo => fst (step (fst eo) c (snd eo))) hist c.

End Handlers.
