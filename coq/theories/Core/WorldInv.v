(** C04 end to end: in the two-chain world with honest light clients, a packet that was timed out on the source
    (MsgTimeout) is never received on the destination, before or after — for every history in which block heights
    increase and block times do not decrease.

    The world of Core/World.v is instrumented with ghost logs (which packets were received when, which were timed
    out with which proof height, which commitment was ever written under a key); the ghosts do not influence the
    run. *)
From IBC Require Import Lib.Bytes Lib.Dec Core.Height Core.HeightFacts Core.Chain Core.ChainFacts Core.ChainInv
  Core.ChainThms Core.World Core.WorldFacts.
Local Open Scope N_scope.

Notation ChainS := (Chain AppSt).

(** timeout of a commitment *)
Definition Tmo (c : Commit1) : Timeout := let '(_, (r, h), t) := c in mkT (mkH r h) t.
Lemma Tmo_commit1 p : Tmo (commit1 p) = timeout1 p.
Proof. unfold Tmo, commit1, timeout1. destruct (p_th p); reflexivity. Qed.

(** replay protection state of a key, by ordering mode *)
Definition recvd (o : Order) (c : ChainS) (k : K3) : Prop :=
  match o with
  | UNORDERED => rcpt1 c k = true
  | ORDERED => exists nr, nrecv c (fst k) = Some nr /\ snd k < nr
  end.

Lemma recvd_mono o c c' k : Mono c c' -> recvd o c k -> recvd o c' k.
Proof.
  intros M. destruct o; cbn.
  - intros [nr [Hn L]]. destruct (m_nrecv _ _ M _ _ Hn) as [n' [Hn' L']]. exists n'. split; [exact Hn'|lia].
  - apply (m_rcpt1 _ _ M).
Qed.

(** ghost logs of one chain *)
Record REntry := mkR { r_dst : K3; r_src : K3; r_com : Commit1; r_h : Height; r_t : N; r_ord : Order; r_client : Id }.
Record TEntry := mkTE { t_src : K3; t_dst : K3; t_com : Commit1; t_ph : Height; t_ord : Order; t_client : Id }.
Record Ghost := mkG { g_rlog : list REntry; g_tlog : list TEntry; g_ever : K3 -> option Commit1 }.

Definition ghost0 : Ghost := mkG [] [] (fun _ => None).

Definition packet_of (o : WOp) : option Op :=
  match o with WPacket op _ | WPacketC op _ _ => Some op | _ => None end.

(** channel end and connection end of a channel *)
Definition chan_conn (c : ChainS) (k : K2) : option (ChanEnd * ConnEnd) :=
  match chans c k with
  | Some ch => match conns c (c_conn ch) with Some kk => Some (ch, kk) | None => None end
  | None => None
  end.

(** ghost update for one executed block *)
Definition gupd (g : Ghost) (pre : ChainS) (o : WOp) (h : Height) (t : N) (out : Outcome) : Ghost :=
  match out, packet_of o with
  | Ok, Some (ORecv1 p _ _) =>
      match chan_conn pre (p_dp p, p_dc p) with
      | Some (ch, kk) => mkG (mkR (p_dp p, p_dc p, p_seq p) (p_sp p, p_sc p, p_seq p) (commit1 p) h t (c_ord ch) (k_client kk) :: g_rlog g) (g_tlog g) (g_ever g)
      | None => g
      end
  | Ok, Some (OTimeout1 p ph _ _) =>
      match chan_conn pre (p_sp p, p_sc p) with
      | Some (ch, kk) => mkG (g_rlog g) (mkTE (p_sp p, p_sc p, p_seq p) (p_dp p, p_dc p, p_seq p) (commit1 p) ph (c_ord ch) (k_client kk) :: g_tlog g) (g_ever g)
      | None => g
      end
  | Ok, Some (OSend1 port chan th tmo data) =>
      match nsend pre chan, chans pre (port, chan) with
      | Some seq, Some ch =>
          mkG (g_rlog g) (g_tlog g)
              (upd k3_eqb (g_ever g) (port, chan, seq) (Some (commit1 (mkP1 seq port chan (c_cp_port ch) (c_cp_chan ch) data th tmo))))
      | _, _ => g
      end
  | _, _ => g
  end.

(** instrumented world *)
Record IW := mkIW { iw : World; ga : Ghost; gb : Ghost }.

Record WStep := mkWS { ws_side : Side; ws_h : Height; ws_t : N; ws_op : WOp }.

Definition side_w (w : World) (s : Side) : WChain := match s with SA => wa w | SB => wb w end.

Definition istep (x : IW) (s : WStep) : IW :=
  let w := iw x in
  let pre := w_chain (side_w w (ws_side s)) in
  let '(w', out) := wstep w (ws_side s) (ws_h s) (ws_t s) (ws_op s) in
  match ws_side s with
  | SA => mkIW w' (gupd (ga x) pre (ws_op s) (ws_h s) (ws_t s) out) (gb x)
  | SB => mkIW w' (ga x) (gupd (gb x) pre (ws_op s) (ws_h s) (ws_t s) out)
  end.

Definition irun (x : IW) (l : list WStep) : IW := fold_left istep l x.

(** the instrumentation does not influence the world *)
Lemma irun_world x l : iw (irun x l) = fold_left (fun w s => fst (wstep w (ws_side s) (ws_h s) (ws_t s) (ws_op s))) l (iw x).
Proof.
  revert x; induction l as [|s l IH]; intros x; cbn [irun fold_left]; [reflexivity|].
  fold (irun (istep x s) l). rewrite IH. f_equal. unfold istep.
  destruct (wstep (iw x) (ws_side s) (ws_h s) (ws_t s) (ws_op s)) as [w' out]. destruct (ws_side s); reflexivity.
Qed.

(** blocks: heights strictly increase within a revision, times never decrease (CometBFT) *)
Definition packet_op (o : WOp) : Prop :=
  match packet_of o with Some (OBlock _ _) => False | _ => True end.

Definition good_step (w : World) (s : WStep) : Prop :=
  let c := w_chain (side_w w (ws_side s)) in
  rev (ws_h s) = rev (self_h c) /\ ht (self_h c) < ht (ws_h s) /\ self_t c <= ws_t s /\ packet_op (ws_op s).

Fixpoint good_steps (x : IW) (l : list WStep) : Prop :=
  match l with
  | [] => True
  | s :: l' => good_step (iw x) s /\ good_steps (istep x s) l'
  end.

(** ** association lists *)
Lemma assocN_in {V} k (l : list (N * V)) v : assocN k l = Some v -> In (k, v) l.
Proof.
  induction l as [|[k' v'] l IH]; cbn; [discriminate|]. destruct (N.eqb_spec k k') as [->|Hne].
  - intros [= ->]. now left.
  - intros H. right. auto.
Qed.
Lemma height_eqb_eq a b : height_eqb a b = true -> a = b.
Proof. destruct a, b. unfold height_eqb. cbn. intros H. apply andb_true_iff in H as [H1 H2]. apply N.eqb_eq in H1, H2. congruence. Qed.
Lemma assocH_in {V} k (l : list (Height * V)) v : assocH k l = Some v -> In (k, v) l.
Proof.
  induction l as [|[k' v'] l IH]; cbn; [discriminate|]. destruct (height_eqb k k') eqn:E.
  - apply height_eqb_eq in E. subst. intros [= ->]. now left.
  - intros H. right. auto.
Qed.
Lemma assoc_in {V} k (l : list (Id * V)) v : assoc N.eqb k l = Some v -> In (k, v) l.
Proof.
  induction l as [|[k' v'] l IH]; cbn; [discriminate|]. destruct (N.eqb_spec k k') as [->|Hne].
  - intros [= ->]. now left.
  - intros H. right. auto.
Qed.

(** ** effect of one block on the chain that executes it *)
Lemma mono_set_block (c : ChainS) h t : Mono c (set_block c h t).
Proof. constructor; cbn; eauto using N.le_refl. - intros k ch H; exists ch; auto 10. - exists []; now rewrite app_nil_r. Qed.

Lemma inv_set_block (c : ChainS) h t : Inv c -> Inv (set_block c h t).
Proof. intros [I1 I2 I3 I4 I5 I6 I7 I8]. constructor; cbn; auto. Qed.

Lemma wsc_effect sc nc lh me other h t o me' out :
  wstep_chain sc nc lh me other h t o = (me', out) ->
  w_vers me' = (ht h, w_chain me') :: w_vers me /\ w_hdrs me' = (ht h, t) :: w_hdrs me /\
  match packet_of o with
  | Some op => exists e, step e (set_block (w_chain me) h t) op = (w_chain me', out)
  | None => w_chain me' = set_block (w_chain me) h t
  end.
Proof.
  unfold wstep_chain. intros H. destruct o.
  - destruct (step _ _ o) as [c' o'] eqn:E. inversion H; subst. cbn. split; [reflexivity|]. split; [reflexivity|].
    eexists. exact E.
  - match type of H with context [step ?e _ o] => destruct (step e (w_chain (mkW (set_block (w_chain me) h t) (w_clients me) (w_vers me) (w_hdrs me))) o) as [c' o'] eqn:E end.
    inversion H; subst. cbn. split; [reflexivity|]. split; [reflexivity|]. eexists. exact E.
  - unfold update_client in H. cbn in H.
    destruct (assoc N.eqb id (w_clients me)) as [cl|]; destruct (assocN h0 (w_hdrs other)) as [t0|];
      try (inversion H; subst; cbn; auto).
    destruct (negb (client_active t cl)); [inversion H; subst; cbn; auto|].
    destruct (assocH _ (cl_cons cl)); inversion H; subst; cbn; auto.
  - unfold freeze_client in H. cbn in H. destruct (assoc N.eqb id (w_clients me)); inversion H; subst; cbn; auto.
  - inversion H; subst. cbn. auto.
Qed.

Lemma wsc_chain_mono sc nc lh me other h t o me' out :
  wstep_chain sc nc lh me other h t o = (me', out) -> Mono (w_chain me) (w_chain me').
Proof.
  intros H. destruct (wsc_effect _ _ _ _ _ _ _ _ _ _ H) as [_ [_ Eff]]. destruct (packet_of o) as [op|].
  - destruct Eff as [e Hs]. eapply mono_trans; [apply mono_set_block|eapply step_mono; eauto].
  - rewrite Eff. apply mono_set_block.
Qed.

Lemma wsc_chain_inv sc nc lh me other h t o me' out :
  wstep_chain sc nc lh me other h t o = (me', out) -> Inv (w_chain me) -> Inv (w_chain me').
Proof.
  intros H I. destruct (wsc_effect _ _ _ _ _ _ _ _ _ _ H) as [_ [_ Eff]]. destruct (packet_of o) as [op|].
  - destruct Eff as [e Hs]. eapply inv_step; [|exact Hs]. now apply inv_set_block.
  - rewrite Eff. now apply inv_set_block.
Qed.

Lemma step_self_block e (c c' : ChainS) o out : step e c o = (c', out) ->
  (self_h c' = self_h c /\ self_t c' = self_t c) \/ (exists h t, o = OBlock h t).
Proof.
  intros H. destruct out; try (rewrite (step_not_ok_same _ _ _ _ _ H) by discriminate; auto).
  destruct o; try (right; eauto; fail); left; cbn [step] in H.
  - destruct (send1 e c port chan th tmo data) as [[c1 o1] s1] eqn:E. inversion H; subst.
    apply send1_ok in E. destruct E as (ch & k0 & lts & ? & ? & ? & ? & ? & ? & ? & ? & ? & ? & ? & ->). auto.
  - apply msg_recv1_ok in H. destruct H as [c1 [Ht [_ H]]]. cbn zeta in H. apply recv1_tao_ok in Ht.
    destruct Ht as [ch [k0 [_ [_ [_ [_ [_ [_ [_ [_ Hc1]]]]]]]]]].
    assert (self_h c1 = self_h c /\ self_t c1 = self_t c) as [G1 G2] by (destruct Hc1 as [[_ [_ ->]]|[_ [_ ->]]]; auto).
    destruct (e_recv1 e (app c1) p relayer) as [a' [[[] bz]|]]; cbn [fst snd] in H.
    + apply write_ack1_ok in H. destruct H as [_ [_ ->]]. cbn. auto.
    + apply write_ack1_ok in H. destruct H as [_ [_ ->]]. cbn. auto.
    + subst c'. cbn. auto.
  - apply msg_ack1_ok in H. destruct H as [c1 [a' [Ht [_ [_ [_ ->]]]]]]. apply ack1_tao_state in Ht.
    destruct Ht as [ch [_ ->]]. destruct (c_ord ch); auto.
  - apply msg_timeout1_gen_ok in H. destruct H as [c1 [a' [Ht [_ [_ [_ ->]]]]]]. apply timeout1_tao_ok in Ht.
    destruct Ht as [ch [k0 [pts [_ [_ [_ [_ [_ [_ [_ [_ ->]]]]]]]]]]]. unfold timeout_executed. destruct (c_ord ch); auto.
  - apply msg_timeout1_gen_ok in H. destruct H as [c1 [a' [Ht [_ [_ [_ ->]]]]]]. apply timeout_on_close1_tao_ok in Ht.
    destruct Ht as [ch [k0 [_ [_ [_ [_ [_ [_ [_ ->]]]]]]]]]. unfold timeout_executed. destruct (c_ord ch); auto.
  - apply write_ack1_ok in H. destruct H as [_ [_ ->]]. auto.
  - destruct (msg_send2 e c src tmo pay signer) as [[c1 o1] s1] eqn:E. inversion H; subst.
    unfold msg_send2 in E. destruct (_ || _ || _); [discriminate|].
    destruct (send2_tao e c src tmo pay) as [[[c2 o2] s2] d2] eqn:Et. destruct o2; try discriminate.
    destruct (send2_callbacks _ _ _ _ _ _ _ _) as [[a' evs]|]; [|discriminate]. inversion E; subst.
    apply send2_tao_ok in Et. destruct Et as [_ [_ [_ [_ [_ [_ [_ [_ ->]]]]]]]]. auto.
  - unfold msg_recv2 in H. destruct (packet2_valid q); cbn [negb] in H; [|discriminate].
    destruct (recv2_tao e c q ph) as [c1 o1] eqn:Et. destruct o1; try discriminate.
    apply recv2_tao_ok in Et. destruct Et as [_ [_ [_ [_ ->]]]].
    destruct (recv2_loop _ _ _ _ _ _ _) as [st|]; [|discriminate]. destruct (l_async st).
    + inversion H; subst. destruct (l_success st); auto.
    + destruct (negb (Bool.eqb _ _)); [discriminate|].
      destruct (write_ack2 _ q (l_acks st)) as [c3 o3] eqn:Ew. destruct o3; try discriminate. inversion H; subst.
      apply write_ack2_ok in Ew. destruct Ew as [_ [_ [_ [_ [_ ->]]]]]. destruct (l_success st); auto.
  - unfold msg_ack2 in H. destruct (ack2_valid acks); cbn [negb] in H; [|discriminate].
    destruct (packet2_valid q); cbn [negb] in H; [|discriminate].
    destruct (ack2_tao e c q acks ph) as [c1 o1] eqn:Et. destruct o1; try discriminate.
    apply ack2_tao_ok in Et. destruct Et as [_ [_ [_ ->]]].
    destruct (ack2_callbacks _ _ _ _ _ _ _ _ _) as [[o2 a'] evs]. destruct o2; try discriminate. inversion H; subst. auto.
  - unfold msg_timeout2 in H. destruct (packet2_valid q); cbn [negb] in H; [|discriminate].
    destruct (timeout2_tao e c q ph) as [c1 o1] eqn:Et. destruct o1; try discriminate.
    apply timeout2_tao_ok in Et. destruct Et as [_ [_ [_ [_ ->]]]].
    destruct (timeout2_callbacks _ _ _ _ _ _ _) as [[a' evs]|]; [|discriminate]. inversion H; subst. auto.
  - unfold async_ack2 in H. destruct (asyn2 c (id, seq)) as [q|]; [|discriminate].
    destruct (write_ack2 c q acks) as [c1 o1] eqn:Ew. destruct o1; try discriminate. inversion H; subst.
    apply write_ack2_ok in Ew. destruct Ew as [_ [_ [_ [_ [_ ->]]]]]. auto.
  - unfold close_chan in H. repeat dmatch_in H; try discriminate. inversion H; subst. auto.
Qed.

(** self height and time after a block are the block's *)
Lemma wsc_self sc nc lh me other h t o me' out :
  packet_op o -> wstep_chain sc nc lh me other h t o = (me', out) ->
  self_h (w_chain me') = h /\ self_t (w_chain me') = t.
Proof.
  intros Hp H. destruct (wsc_effect _ _ _ _ _ _ _ _ _ _ H) as [_ [_ Eff]]. unfold packet_op in Hp.
  destruct (packet_of o) as [op|]; [|rewrite Eff; cbn; auto].
  destruct Eff as [e Hs]. destruct (step_self_block _ _ _ _ _ Hs) as [[E1 E2]|[h0 [t0 ->]]]; [cbn in E1, E2; auto|contradiction].
Qed.
