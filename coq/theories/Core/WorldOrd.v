(** The ordering hypothesis of the C04 end-to-end theorem ([t_ord e = r_ord r]) discharged inside the two-chain model:
    packet handlers never create channel ends nor change their ordering or counterparty ([step_chb]), so if the channel
    ends of the two chains agree on the ordering at the start (the conclusion of the channel handshake, C12), every logged
    timeout and every logged receive under the same destination key carry the same ordering. *)
From IBC Require Import Lib.Bytes Lib.Dec Core.Height Core.HeightFacts Core.Chain Core.ChainFacts Core.ChainInv
  Core.ChainThms Core.ChainBack Core.World Core.WorldFacts Core.WorldInv Core.WorldInv2 Core.WorldInv3 Core.WorldThm.
Local Open Scope N_scope.

(** the end that X's channel end names as its counterparty has, on Y, the same ordering *)
Definition Agree (X Y : WChain) : Prop :=
  forall kx chx chy, chans (w_chain X) kx = Some chx ->
    chans (w_chain Y) (c_cp_port chx, c_cp_chan chx) = Some chy -> c_ord chx = c_ord chy.

(** the logged orderings are those of channel ends that still exist *)
Definition TL (X : WChain) (g : Ghost) : Prop :=
  forall e, In e (g_tlog g) ->
    exists ch, chans (w_chain X) (fst (t_src e)) = Some ch /\ c_ord ch = t_ord e /\ (c_cp_port ch, c_cp_chan ch) = fst (t_dst e).
Definition RL (Y : WChain) (g : Ghost) : Prop :=
  forall r, In r (g_rlog g) -> exists ch, chans (w_chain Y) (fst (r_dst r)) = Some ch /\ c_ord ch = r_ord r.

Lemma wsc_chb sc nc lh me other h t o me' out :
  wstep_chain sc nc lh me other h t o = (me', out) -> ChB (w_chain me) (w_chain me').
Proof.
  intros H. destruct (wsc_effect _ _ _ _ _ _ _ _ _ _ H) as [_ [_ Eff]]. destruct (packet_of o) as [op|].
  - destruct Eff as [e Hs]. apply step_chb in Hs. intros k ch' Hk. exact (Hs k ch' Hk).
  - rewrite Eff. apply chb_eq. reflexivity.
Qed.

Lemma agree_step_x sc nc lh X Y h t o X' out :
  Agree X Y -> wstep_chain sc nc lh X Y h t o = (X', out) -> Agree X' Y.
Proof.
  intros Ag H kx chx chy Hx Hy. destruct (wsc_chb _ _ _ _ _ _ _ _ _ _ H kx chx Hx) as [ch0 [H0 [O [P Q]]]].
  rewrite <- O. rewrite <- P, <- Q in Hy. exact (Ag _ _ _ H0 Hy).
Qed.

Lemma agree_step_y sc nc lh X Y h t o Y' out :
  Agree X Y -> wstep_chain sc nc lh Y X h t o = (Y', out) -> Agree X Y'.
Proof.
  intros Ag H kx chx chy Hx Hy. destruct (wsc_chb _ _ _ _ _ _ _ _ _ _ H _ chy Hy) as [ch0 [H0 [O _]]].
  rewrite <- O. exact (Ag _ _ _ Hx H0).
Qed.

Lemma tl_step sc nc lh X Y g h t o X' out :
  TL X g -> wstep_chain sc nc lh X Y h t o = (X', out) -> TL X' (gupd g (w_chain X) o h t out).
Proof.
  intros T H. pose proof (wsc_chain_mono _ _ _ _ _ _ _ _ _ _ H) as M.
  intros e He. apply gupd_tlog in He. destruct He as [Hold|(p & ph & nsr & rl & ch & kk & -> & Hop & Hcc & ->)].
  - destruct (T _ Hold) as [ch [Hc [O P]]]. destruct (m_chans _ _ M _ _ Hc) as [ch' [Hc' [O' [P1 [P2 _]]]]].
    exists ch'. split; [exact Hc'|]. split; [congruence|]. rewrite P1, P2. exact P.
  - cbn [t_src t_dst t_ord fst].
    destruct (wsc_effect _ _ _ _ _ _ _ _ _ _ H) as [_ [_ Eff]]. rewrite Hop in Eff. destruct Eff as [e Hs].
    cbn [step] in Hs. unfold msg_timeout1 in Hs. apply msg_timeout1_gen_ok in Hs. destruct Hs as [c1 [a' [Ht _]]].
    apply timeout1_tao_ok in Ht. destruct Ht as [ch0 [k0 [pts [Hch0 [Hdp [Hdc _]]]]]]. cbn in Hch0.
    unfold chan_conn in Hcc. rewrite Hch0 in Hcc. destruct (conns (w_chain X) (c_conn ch0)); [|discriminate]. injection Hcc as <- _.
    destruct (m_chans _ _ M _ _ Hch0) as [ch' [Hc' [O' [P1 [P2 _]]]]].
    exists ch'. split; [exact Hc'|]. split; [exact O'|]. rewrite P1, P2, <- Hdp, <- Hdc. reflexivity.
Qed.

Lemma rl_step sc nc lh X Y g h t o Y' out :
  RL Y g -> wstep_chain sc nc lh Y X h t o = (Y', out) -> RL Y' (gupd g (w_chain Y) o h t out).
Proof.
  intros R H. pose proof (wsc_chain_mono _ _ _ _ _ _ _ _ _ _ H) as M.
  intros r Hr. apply gupd_rlog in Hr. destruct Hr as [Hold|(p & ph & rl & ch & kk & -> & Hop & Hcc & ->)].
  - destruct (R _ Hold) as [ch [Hc O]]. destruct (m_chans _ _ M _ _ Hc) as [ch' [Hc' [O' _]]].
    exists ch'. split; [exact Hc'|congruence].
  - cbn [r_dst r_ord fst]. unfold chan_conn in Hcc.
    destruct (chans (w_chain Y) (p_dp p, p_dc p)) as [ch0|] eqn:Hch0; [|discriminate].
    destruct (conns (w_chain Y) (c_conn ch0)); [|discriminate]. injection Hcc as <- _.
    destruct (m_chans _ _ M _ _ Hch0) as [ch' [Hc' [O' _]]]. exists ch'. split; [exact Hc'|exact O'].
Qed.

Record WIO (x : IW) : Prop := mkWIO {
  wio_wi : WI x;
  wio_ab : Agree (wa (iw x)) (wb (iw x));
  wio_ba : Agree (wb (iw x)) (wa (iw x));
  wio_ta : TL (wa (iw x)) (ga x);
  wio_tb : TL (wb (iw x)) (gb x);
  wio_ra : RL (wa (iw x)) (ga x);
  wio_rb : RL (wb (iw x)) (gb x) }.

Lemma tl_other X g g' : TL X g -> g_tlog g' = g_tlog g -> TL X g'.
Proof. intros T E e He. rewrite E in He. exact (T e He). Qed.
Lemma rl_other X g g' : RL X g -> g_rlog g' = g_rlog g -> RL X g'.
Proof. intros T E e He. rewrite E in He. exact (T e He). Qed.

(** a block only adds to one of the two logs of its chain; the other log's facts are carried by Mono *)
Lemma tl_keep sc nc lh X Y g h t o X' out :
  TL X g -> wstep_chain sc nc lh X Y h t o = (X', out) -> TL X' g.
Proof.
  intros T H. pose proof (wsc_chain_mono _ _ _ _ _ _ _ _ _ _ H) as M. intros e He.
  destruct (T _ He) as [ch [Hc [O P]]]. destruct (m_chans _ _ M _ _ Hc) as [ch' [Hc' [O' [P1 [P2 _]]]]].
  exists ch'. split; [exact Hc'|]. split; [congruence|]. rewrite P1, P2. exact P.
Qed.

Theorem wio_step x s : WIO x -> good_step (iw x) s -> WIO (istep x s).
Proof.
  intros [I Aab Aba Ta Tb Ra Rb] G. pose proof (wi_step _ _ I G) as I'.
  unfold istep in *. destruct s as [side h t o]. cbn [ws_side ws_h ws_t ws_op] in *.
  destruct side; cbn [side_w] in *; unfold wstep in *.
  - destruct (wstep_chain (w_script (iw x)) (w_noncanon (iw x)) (w_lh (iw x)) (wa (iw x)) (wb (iw x)) h t o) as [a' out] eqn:E.
    cbn in *. constructor; cbn; auto.
    + eapply agree_step_x; eauto.
    + eapply agree_step_y; eauto.
    + eapply tl_step; eauto.
    + eapply rl_step; eauto.
  - destruct (wstep_chain (w_script (iw x)) (w_noncanon (iw x)) (w_lh (iw x)) (wb (iw x)) (wa (iw x)) h t o) as [b' out] eqn:E.
    cbn in *. constructor; cbn; auto.
    + eapply agree_step_y; eauto.
    + eapply agree_step_x; eauto.
    + eapply tl_step; eauto.
    + eapply rl_step; eauto.
Qed.

Theorem wio_run x l : WIO x -> good_steps x l -> WIO (irun x l).
Proof.
  revert x; induction l as [|s l IH]; intros x I G; cbn [irun fold_left]; [exact I|].
  destruct G as [G1 G2]. apply IH; [now apply wio_step|exact G2].
Qed.

(** C04 end to end without the ordering hypothesis *)
Theorem timeout_excludes_receive_ord x l :
  WIO x -> good_steps x l ->
  let y := irun x l in
  (forall e r, In e (g_tlog (ga y)) -> In r (g_rlog (gb y)) ->
     t_client e <> w_lh (iw y) -> r_client r <> w_lh (iw y) -> t_dst e = r_dst r -> t_src e = r_src r -> False) /\
  (forall e r, In e (g_tlog (gb y)) -> In r (g_rlog (ga y)) ->
     t_client e <> w_lh (iw y) -> r_client r <> w_lh (iw y) -> t_dst e = r_dst r -> t_src e = r_src r -> False).
Proof.
  intros I G y. pose proof (wio_run _ _ I G) as [Iw Aab Aba Ta Tb Ra Rb]. fold y in Iw, Aab, Aba, Ta, Tb, Ra, Rb.
  pose proof (timeout_excludes_receive x l (wio_wi _ I) G) as [E1 E2]. fold y in E1, E2. split.
  - intros e r He Hr Hce Hcr Ed Es. refine (E1 e r He Hr Hce Hcr Ed Es _).
    destruct (Ta _ He) as [cha [Ha [Oa Pa]]]. destruct (Rb _ Hr) as [chb [Hb Ob]].
    rewrite <- Oa, <- Ob. apply (Aab _ _ _ Ha). rewrite Pa, Ed. exact Hb.
  - intros e r He Hr Hce Hcr Ed Es. refine (E2 e r He Hr Hce Hcr Ed Es _).
    destruct (Tb _ He) as [chb [Hb [Ob Pb]]]. destruct (Ra _ Hr) as [cha [Ha Oa]].
    rewrite <- Ob, <- Oa. apply (Aba _ _ _ Hb). rewrite Pb, Ed. exact Ha.
Qed.

Theorem wio_base w :
  base_chain (wa w) -> base_chain (wb w) -> base_clients (wa w) (wb w) -> base_clients (wb w) (wa w) ->
  Agree (wa w) (wb w) -> Agree (wb w) (wa w) ->
  WIO (mkIW w ghost0 ghost0).
Proof.
  intros Fa Fb Ca Cb A1 A2. constructor; cbn; auto using wi_base; intros e [].
Qed.

(** non-vacuity: the example world of Core/WorldThm.v meets the strengthened invariant, and the accepted timeout of
    [exw_steps] is in the log *)
Lemma exw_agree_ab : Agree (wa exw) (wb exw).
Proof.
  intros kx chx chy Hx Hy. unfold exw, exw_chain in *. cbn [wa wb w_chain chans] in *.
  match type of Hx with context [if ?b then _ else _] => destruct b end; [|discriminate Hx]. injection Hx as <-.
  cbn in Hy. injection Hy as <-. reflexivity.
Qed.
Lemma exw_agree_ba : Agree (wb exw) (wa exw).
Proof.
  intros kx chx chy Hx Hy. unfold exw, exw_chain in *. cbn [wa wb w_chain chans] in *.
  match type of Hx with context [if ?b then _ else _] => destruct b end; [|discriminate Hx]. injection Hx as <-.
  cbn in Hy. injection Hy as <-. reflexivity.
Qed.

Example exw_wio : WIO (mkIW exw ghost0 ghost0).
Proof.
  apply wio_base; [apply exw_base_chain|apply exw_base_chain| | |exact exw_agree_ab|exact exw_agree_ba].
  - intros id cl [E|[]]. inversion E; subst. cbn. split; [reflexivity|]. intros hh t ver [E'|[]]. inversion E'; subst. cbn. auto.
  - intros id cl [E|[]]. inversion E; subst. cbn. split; [reflexivity|]. intros hh t ver [E'|[]]. inversion E'; subst. cbn. auto.
Qed.
