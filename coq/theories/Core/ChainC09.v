(** C09: the outcome of a failed receive does not depend on what the application wrote before failing. *)
From IBC Require Import Lib.Bytes Core.Height Core.Chain Core.ChainFacts Core.ChainInv Core.ChainThms.
Local Open Scope N_scope.

(** the same environment with another receive callback *)
Definition with_recv1 {A} (e : Env A) (f : A -> Packet1 -> N -> A * option (bool * Data)) : Env A :=
  mkEnv A (e_active e) (e_latest e) (e_ts e) (e_vmem e) (e_vnon e) (e_noncanon e) f (e_ack1 e) (e_timeout1 e)
        (e_send2 e) (e_recv2 e) (e_ack2 e) (e_timeout2 e).

Lemma recv1_tao_with {A} (e : Env A) f c p ph : recv1_tao (with_recv1 e f) c p ph = recv1_tao e c p ph.
Proof. reflexivity. Qed.

Lemma recv1_tao_app {A} (e : Env A) c p ph c1 : recv1_tao e c p ph = (c1, Ok) -> app c1 = app c.
Proof.
  intros H. apply recv1_tao_ok in H. destruct H as [ch [k [_ [_ [_ [_ [_ [_ [_ [_ H]]]]]]]]]].
  destruct H as [[_ [_ ->]]|[_ [_ ->]]]; reflexivity.
Qed.

(** two applications that both fail with the same error acknowledgement — whatever state each of them reached
    before failing — leave the chain in exactly the same state, and that state has the application state of
    before the message *)
Theorem recv1_failure_independent {A} (e : Env A) f c p ph r a1 a2 bz :
  e_recv1 e (app c) p r = (a1, Some (false, bz)) ->
  f (app c) p r = (a2, Some (false, bz)) ->
  msg_recv1 (with_recv1 e f) c p ph r = msg_recv1 e c p ph r /\
  (forall c', msg_recv1 e c p ph r = (c', Ok) -> app c' = app c).
Proof.
  intros He Hf. split.
  - unfold msg_recv1. rewrite recv1_tao_with.
    destruct (negb (packet1_valid p)); [reflexivity|]. destruct (negb (ports c (p_dp p))); [reflexivity|].
    destruct (recv1_tao e c p ph) as [c1 o1] eqn:Et. destruct o1; try reflexivity.
    rewrite (recv1_tao_app _ _ _ _ _ Et). cbn [e_recv1 with_recv1]. rewrite He, Hf. reflexivity.
  - intros c' H. pose proof (recv1_app_state e c p ph r c' H) as [_ S]. cbn zeta in S. rewrite He in S. cbn in S. exact (proj1 S).
Qed.
