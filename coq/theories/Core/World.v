(** Two chains joined by honest Tendermint-like light clients.  Instantiates the environment of Core/Chain.v:
    membership verification succeeds exactly when the relayer's proof was taken from the counterparty's
    committed state version that the consulted consensus state commits to, for exactly the requested key,
    and that version holds exactly the claimed value (resp. nothing).  This is the contract C18/C20-C24
    establish for 23-commitment and 07-tendermint; here it is the *definition* of an honest client.

    CometBFT's off-by-one is explicit: the header of height H carries the time of block H and the root of
    the state committed after block H-1 (state version H-1). *)
From IBC Require Import Lib.Bytes Lib.Dec Core.Height Core.Chain.
Local Open Scope N_scope.

(** application state of the scripted mock applications: one counter (the harness uses a bank balance) *)
Definition AppSt := N.

(** what a scripted application does with a packet, chosen by the packet data / payload value *)
Inductive RecvBeh := RSuccess | RError | RAsync | RSentinelSuccess (* v2: success status with the sentinel as ack *).
Record Script := mkScript {
  s_writes : Data -> N;               (* how much the receive callback adds to the counter before returning *)
  s_recv : Data -> RecvBeh;
  s_ackdata : Data -> Data;           (* acknowledgement bytes returned for that data *)
  s_cb_fails : Data -> bool }.        (* ack / timeout / send callbacks return an error for that data *)

(** proofs a relayer can submit *)
Inductive Proof :=
| PHonest (version : N) (key : PKey)   (* real proof of the counterparty's state version for that key *)
| PSentinel                            (* the 09-localhost sentinel proof *)
| PGarbage.

Record Client := mkClient {
  cl_frozen : bool; cl_latest : Height; cl_trusting : N;
  cl_cons : list (Height * (N * N)) }.   (* consensus state: height -> (timestamp ns, committed state version) *)

Record WChain := mkW {
  w_chain : Chain AppSt;
  w_clients : list (Id * Client);
  w_vers : list (N * Chain AppSt);       (* committed versions, newest first *)
  w_hdrs : list (N * N) }.               (* header height -> block time, newest first *)

Definition height_eqb (a b : Height) : bool := (rev a =? rev b) && (ht a =? ht b).

Fixpoint assoc {V} (eqb : Id -> Id -> bool) (k : Id) (l : list (Id * V)) : option V :=
  match l with [] => None | (k', v) :: r => if eqb k k' then Some v else assoc eqb k r end.
Fixpoint assocN {V} (k : N) (l : list (N * V)) : option V :=
  match l with [] => None | (k', v) :: r => if k =? k' then Some v else assocN k r end.
Fixpoint assocH {V} (k : Height) (l : list (Height * V)) : option V :=
  match l with [] => None | (k', v) :: r => if height_eqb k k' then Some v else assocH k r end.

Definition chanend_eqb (a b : ChanEnd) : bool :=
  cstate_eqb (c_state a) (c_state b) && order_eqb (c_ord a) (c_ord b) && (c_cp_port a =? c_cp_port b) &&
  (c_cp_chan a =? c_cp_chan b) && (c_conn a =? c_conn b) && (c_version a =? c_version b).

Definition pkey_eqb (a b : PKey) : bool :=
  match a, b with
  | KCommit1 p c s, KCommit1 p' c' s' | KAck1 p c s, KAck1 p' c' s' | KReceipt1 p c s, KReceipt1 p' c' s' =>
      (p =? p') && (c =? c') && (s =? s')
  | KNextRecv p c, KNextRecv p' c' | KChan p c, KChan p' c' => (p =? p') && (c =? c')
  | KCommit2 i s, KCommit2 i' s' | KAck2 i s, KAck2 i' s' | KReceipt2 i s, KReceipt2 i' s' => (i =? i') && (s =? s')
  | _, _ => false
  end.

Definition pval_eqb (a b : PVal) : bool :=
  match a, b with
  | VCommit1 x, VCommit1 y => commit1_eqb x y
  | VAck1 x, VAck1 y => x =? y
  | VSeq x, VSeq y => x =? y
  | VChan x, VChan y => chanend_eqb x y
  | VCommit2 x, VCommit2 y => commit2_eqb x y
  | VAck2 x, VAck2 y => datas_eqb x y
  | _, _ => false
  end.

(** the value the IBC store of a chain holds under an ICS-24 key *)
Definition lookup {A} (c : Chain A) (k : PKey) : option PVal :=
  match k with
  | KCommit1 p ch s => option_map VCommit1 (com1 c (p, ch, s))
  | KAck1 p ch s => option_map VAck1 (ackc1 c (p, ch, s))
  | KReceipt1 p ch s => if rcpt1 c (p, ch, s) then Some (VSeq 1) else None
  | KNextRecv p ch => option_map VSeq (nrecv c (p, ch))
  | KChan p ch => option_map VChan (chans c (p, ch))
  | KCommit2 i s => option_map VCommit2 (com2 c (i, s))
  | KAck2 i s => option_map VAck2 (ackc2 c (i, s))
  | KReceipt2 i s => if rcpt2 c (i, s) then Some (VSeq 2) else None
  end.

(** 07-tendermint status(): frozen, else expired when latest consensus time + trusting period <= now *)
Definition client_active (now : N) (cl : Client) : bool :=
  negb (cl_frozen cl) &&
  match assocH (cl_latest cl) (cl_cons cl) with
  | None => false
  | Some (t, _) => now <? t + cl_trusting cl
  end.

Section Honest.
Variable other : WChain.      (* the counterparty chain as it is now (its committed versions) *)
Variable me : WChain.
Variable proof : Proof.       (* the proof attached to the message being processed *)
Variable lh : Id.             (* identifier of the 09-localhost client *)

(** 09-localhost (light_client_module.go, after the repair of F2): sentinel proof, proof height not above the
    chain's own height, and the chain's own IBC store holds exactly the value (resp. nothing) *)
Definition loop_vmem (ph : Height) (k : PKey) (v : PVal) : bool :=
  match proof with
  | PSentinel =>
      h_lte ph (self_h (w_chain me)) &&
      match lookup (w_chain me) k with Some v' => pval_eqb v v' | None => false end
  | _ => false
  end.
Definition loop_vnon (ph : Height) (k : PKey) : bool :=
  match proof with
  | PSentinel =>
      h_lte ph (self_h (w_chain me)) &&
      match lookup (w_chain me) k with Some _ => false | None => true end
  | _ => false
  end.

Definition find_client (id : Id) : option Client := assoc N.eqb id (w_clients me).

(** the root consulted: client active, proof height <= latest, consensus state stored at the proof height *)
Definition consulted (id : Id) (ph : Height) : option (N * N) :=
  match find_client id with
  | None => None
  | Some cl =>
      if negb (client_active (self_t (w_chain me)) cl) then None
      else if h_lt (cl_latest cl) ph then None
      else assocH ph (cl_cons cl)
  end.

Definition honest_vmem (id : Id) (ph : Height) (k : PKey) (v : PVal) : bool :=
  if id =? lh then loop_vmem ph k v else
  match consulted id ph, proof with
  | Some (_, ver), PHonest pv pk =>
      (pv =? ver) && pkey_eqb pk k &&
      match assocN ver (w_vers other) with
      | Some snap => match lookup snap k with Some v' => pval_eqb v v' | None => false end
      | None => false
      end
  | _, _ => false
  end.

Definition honest_vnon (id : Id) (ph : Height) (k : PKey) : bool :=
  if id =? lh then loop_vnon ph k else
  match consulted id ph, proof with
  | Some (_, ver), PHonest pv pk =>
      (pv =? ver) && pkey_eqb pk k &&
      match assocN ver (w_vers other) with
      | Some snap => match lookup snap k with Some _ => false | None => true end
      | None => false
      end
  | _, _ => false
  end.

Variable sc : Script.
Variable noncanon : Data -> bool.

Definition honest_env : Env AppSt :=
  mkEnv AppSt
    (fun id => if id =? lh then true else
               match find_client id with Some cl => client_active (self_t (w_chain me)) cl | None => false end)
    (fun id => if id =? lh then self_h (w_chain me) else
               match find_client id with Some cl => cl_latest cl | None => mkH 0 0 end)
    (fun id h => if id =? lh then Some (self_t (w_chain me)) else
                 match find_client id with
                 | Some cl => option_map fst (assocH h (cl_cons cl))
                 | None => None end)
    honest_vmem honest_vnon noncanon
    (* v1 callbacks *)
    (fun a p _ =>
       let d := p_data p in
       (a + s_writes sc d,
        match s_recv sc d with
        | RSuccess | RSentinelSuccess => Some (true, s_ackdata sc d)
        | RError => Some (false, s_ackdata sc d)
        | RAsync => None
        end))
    (fun a p _ _ => if s_cb_fails sc (p_data p) then None else Some (a + 1))
    (fun a p _ => if s_cb_fails sc (p_data p) then None else Some (a + 1))
    (* v2 callbacks *)
    (fun a _ _ _ y _ => if s_cb_fails sc (y_val y) then None else Some a)
    (fun a _ _ _ y _ =>
       let d := y_val y in
       (a + s_writes sc d,
        match s_recv sc d with
        | RSuccess => (R2Success, s_ackdata sc d)
        | RSentinelSuccess => (R2Success, sentinel)
        | RError => (R2Failure, 0)
        | RAsync => (R2Async, 0)      (* async results carry no acknowledgement; 0 = empty *)
        end))
    (fun a _ _ _ _ y _ => if s_cb_fails sc (y_val y) then None else Some (a + 1))
    (fun a _ _ _ y _ => if s_cb_fails sc (y_val y) then None else Some (a + 1)).
End Honest.

(** ** World operations *)
Inductive WOp :=
| WPacket (o : Op) (pf : Proof)                 (* a packet-handler operation of Core/Chain.v with its proof *)
| WPacketC (o : Op) (pf pfc : Proof)            (* MsgTimeoutOnClose: unreceived proof and closed-channel proof *)
| WUpdateClient (id : Id) (h : N)               (* MsgUpdateClient with the counterparty's committed header h *)
| WFreeze (id : Id)
| WEmpty.                                       (* empty block *)

Record World := mkWorld { wa : WChain; wb : WChain; w_script : Script; w_noncanon : Data -> bool; w_lh : Id }.

Definition set_client (w : WChain) (id : Id) (cl : Client) : WChain :=
  mkW (w_chain w) ((id, cl) :: w_clients w) (w_vers w) (w_hdrs w).

Definition max_height (a b : Height) : Height := if h_lt a b then b else a.

(** MsgUpdateClient with an honestly produced header of height [h] of the counterparty: stores the
    consensus state (time of block h, state version h-1), moves latest forward; refused unless Active *)
Definition update_client (me other : WChain) (id : Id) (h : N) : WChain * Outcome :=
  match assoc N.eqb id (w_clients me), assocN h (w_hdrs other) with
  | Some cl, Some t =>
      if negb (client_active (self_t (w_chain me)) cl) then (me, Err) else
      let hh := mkH (rev (cl_latest cl)) h in
      match assocH hh (cl_cons cl) with
      | Some _ => (me, Ok)                               (* duplicate header: no-op update *)
      | None =>
          (set_client me id (mkClient (cl_frozen cl) (max_height (cl_latest cl) hh) (cl_trusting cl)
                               ((hh, (t, h - 1)) :: cl_cons cl)), Ok)
      end
  | _, _ => (me, Err)
  end.

Definition freeze_client (me : WChain) (id : Id) : WChain * Outcome :=
  match assoc N.eqb id (w_clients me) with
  | Some cl => (set_client me id (mkClient true (cl_latest cl) (cl_trusting cl) (cl_cons cl)), Ok)
  | None => (me, Err)
  end.

(** one block on chain [me]: executes at (h, t), then commits: the state becomes version h *)
Definition wstep_chain (sc : Script) (nc : Data -> bool) (lh : Id) (me other : WChain) (h : Height) (t : N) (o : WOp) : WChain * Outcome :=
  let me0 := mkW (set_block (w_chain me) h t) (w_clients me) (w_vers me) (w_hdrs me) in
  let '(me1, out) :=
    match o with
    | WPacket op pf =>
        let '(c', out) := step (honest_env other me0 pf lh sc nc) (w_chain me0) op in
        (mkW c' (w_clients me0) (w_vers me0) (w_hdrs me0), out)
    | WPacketC op pf pfc =>
        let e1 := honest_env other me0 pf lh sc nc in
        let e2 := honest_env other me0 pfc lh sc nc in
        (* the channel-state key is verified with the closed-channel proof, everything else with the other *)
        let e := mkEnv AppSt (e_active e1) (e_latest e1) (e_ts e1)
                   (fun id ph k v => match k with KChan _ _ => e_vmem e2 id ph k v | _ => e_vmem e1 id ph k v end)
                   (e_vnon e1) (e_noncanon e1) (e_recv1 e1) (e_ack1 e1) (e_timeout1 e1)
                   (e_send2 e1) (e_recv2 e1) (e_ack2 e1) (e_timeout2 e1) in
        let '(c', out) := step e (w_chain me0) op in
        (mkW c' (w_clients me0) (w_vers me0) (w_hdrs me0), out)
    | WUpdateClient id hh => update_client me0 other id hh
    | WFreeze id => freeze_client me0 id
    | WEmpty => (me0, Ok)
    end in
  (mkW (w_chain me1) (w_clients me1) ((ht h, w_chain me1) :: w_vers me1) ((ht h, t) :: w_hdrs me1), out).

Inductive Side := SA | SB.

Definition wstep (w : World) (s : Side) (h : Height) (t : N) (o : WOp) : World * Outcome :=
  match s with
  | SA => let '(a', out) := wstep_chain (w_script w) (w_noncanon w) (w_lh w) (wa w) (wb w) h t o in
          (mkWorld a' (wb w) (w_script w) (w_noncanon w) (w_lh w), out)
  | SB => let '(b', out) := wstep_chain (w_script w) (w_noncanon w) (w_lh w) (wb w) (wa w) h t o in
          (mkWorld (wa w) b' (w_script w) (w_noncanon w) (w_lh w), out)
  end.
