(** C04 end to end, part 2: the chain-local invariant of the instrumented world. *)
From IBC Require Import Lib.Bytes Lib.Dec Core.Height Core.HeightFacts Core.Chain Core.ChainFacts Core.ChainInv
  Core.ChainThms Core.World Core.WorldFacts Core.WorldInv.
Local Open Scope N_scope.

(** what is known about one chain Z and its ghost *)
Record Local (Z : WChain) (g : Ghost) : Prop := mkLocal {
  l_inv : Inv (w_chain Z);
  l_vers : forall h snap, In (h, snap) (w_vers Z) -> Mono snap (w_chain Z) /\ h <= ht (self_h (w_chain Z));
  l_hdrs : forall h t, In (h, t) (w_hdrs Z) -> h <= ht (self_h (w_chain Z)) /\ t <= self_t (w_chain Z);
  l_hdrs_mono : forall h1 t1 h2 t2, In (h1, t1) (w_hdrs Z) -> In (h2, t2) (w_hdrs Z) -> h1 <= h2 -> t1 <= t2;
  l_hdrs_pos : forall h t, In (h, t) (w_hdrs Z) -> 1 <= h;
  l_rlog : forall r, In r (g_rlog g) ->
      elapsed (Tmo (r_com r)) (r_h r) (r_t r) = false /\ rev (r_h r) = rev (self_h (w_chain Z)) /\
      In (ht (r_h r), r_t r) (w_hdrs Z) /\ recvd (r_ord r) (w_chain Z) (r_dst r) /\
      (forall h snap, In (h, snap) (w_vers Z) -> ht (r_h r) <= h -> recvd (r_ord r) snap (r_dst r));
  l_ever_cur : forall k v, com1 (w_chain Z) k = Some v -> g_ever g k = Some v;
  l_ever_snap : forall h snap k v, In (h, snap) (w_vers Z) -> com1 snap k = Some v -> g_ever g k = Some v;
  l_ever_lt : forall p ch s v, g_ever g (p, ch, s) = Some v -> exists n, nsend (w_chain Z) ch = Some n /\ s < n;
  l_tlog : forall e, In e (g_tlog g) -> g_ever g (t_src e) = Some (t_com e) }.

Definition good_block (Z : WChain) (h : Height) (t : N) (o : WOp) : Prop :=
  rev h = rev (self_h (w_chain Z)) /\ ht (self_h (w_chain Z)) < ht h /\ self_t (w_chain Z) <= t /\ packet_op o.

(** non-send operations never create a v1 commitment; a send creates exactly the one the ghost records *)
Lemma step_com1_new e (c c' : ChainS) o k v :
  step e c o = (c', Ok) -> com1 c' k = Some v ->
  com1 c k = Some v \/
  (exists port chan th tmo data seq ch,
     o = OSend1 port chan th tmo data /\ nsend c chan = Some seq /\ chans c (port, chan) = Some ch /\
     k = (port, chan, seq) /\ v = commit1 (mkP1 seq port chan (c_cp_port ch) (c_cp_chan ch) data th tmo)).
Proof.
  intros H Hc.
  destruct o;
    try (left; pose proof (step_nsend_other _ _ _ _ _ H) as G; cbn in G;
         destruct k as [[kp kch] ks]; destruct (step_frame _ _ _ _ H) as [new F];
         destruct (f_com1 _ _ _ F _ _ _ _ Hc) as [Ho|[H1 H2]]; [exact Ho|];
         rewrite G in H2; rewrite H1 in H2; inversion H2; lia).
  - cbn [step] in H. destruct (send1 e c port chan th tmo data) as [[c1 o1] s1] eqn:E. inversion H; subst.
    apply send1_ok in E. destruct E as (ch & k0 & lts & Hch & ? & Hns & ? & ? & ? & ? & ? & ? & ? & ? & ->).
    cbn in Hc. unfold upd in Hc. destruct (k3_eqb (port, chan, s1) k) eqn:Ek.
    + apply k3_eqb_eq in Ek. subst k. inversion Hc; subst. right. exists port, chan, th, tmo, data, s1, ch. auto 10.
    + left. exact Hc.
  - (* OSend2: v1 commitments untouched *)
    left. cbn [step] in H. destruct (msg_send2 e c src tmo pay signer) as [[c1 o1] s1] eqn:E. inversion H; subst.
    unfold msg_send2 in E. destruct (_ || _ || _); [discriminate|].
    destruct (send2_tao e c src tmo pay) as [[[c2 o2] s2] d2] eqn:Et. destruct o2; try discriminate.
    destruct (send2_callbacks _ _ _ _ _ _ _ _) as [[a' evs]|]; [|discriminate]. inversion E; subst.
    apply send2_tao_ok in Et. destruct Et as [_ [_ [_ [_ [_ [_ [_ [_ ->]]]]]]]]. exact Hc.
Qed.

(** ** how the ghost changes *)
Lemma gupd_rlog g pre o h t out r :
  In r (g_rlog (gupd g pre o h t out)) ->
  In r (g_rlog g) \/
  (exists p ph rl ch kk, out = Ok /\ packet_of o = Some (ORecv1 p ph rl) /\ chan_conn pre (p_dp p, p_dc p) = Some (ch, kk) /\
     r = mkR (p_dp p, p_dc p, p_seq p) (p_sp p, p_sc p, p_seq p) (commit1 p) h t (c_ord ch) (k_client kk)).
Proof.
  unfold gupd. destruct out; auto. destruct (packet_of o) as [op|]; auto. destruct op; auto.
  - destruct (nsend pre chan); auto. destruct (chans pre (port, chan)); auto.
  - destruct (chan_conn pre (p_dp p, p_dc p)) as [[ch kk]|] eqn:E; auto. cbn. intros [<-|H]; auto.
    right. exists p, ph, relayer, ch, kk. auto.
  - destruct (chan_conn pre (p_sp p, p_sc p)) as [[? ?]|]; auto.
Qed.

Lemma gupd_tlog g pre o h t out e :
  In e (g_tlog (gupd g pre o h t out)) ->
  In e (g_tlog g) \/
  (exists p ph nsr rl ch kk, out = Ok /\ packet_of o = Some (OTimeout1 p ph nsr rl) /\ chan_conn pre (p_sp p, p_sc p) = Some (ch, kk) /\
     e = mkTE (p_sp p, p_sc p, p_seq p) (p_dp p, p_dc p, p_seq p) (commit1 p) ph (c_ord ch) (k_client kk)).
Proof.
  unfold gupd. destruct out; auto. destruct (packet_of o) as [op|]; auto. destruct op; auto.
  - destruct (nsend pre chan); auto. destruct (chans pre (port, chan)); auto.
  - destruct (chan_conn pre (p_dp p, p_dc p)) as [[? ?]|]; auto.
  - destruct (chan_conn pre (p_sp p, p_sc p)) as [[ch kk]|] eqn:E; auto. cbn. intros [<-|H]; auto.
    right. exists p, ph, nsr, relayer, ch, kk. auto.
Qed.

Lemma gupd_ever g pre o h t out k v :
  g_ever (gupd g pre o h t out) k = Some v ->
  g_ever g k = Some v \/
  (exists port chan th tmo data seq ch, out = Ok /\ packet_of o = Some (OSend1 port chan th tmo data) /\
     nsend pre chan = Some seq /\ chans pre (port, chan) = Some ch /\ k = (port, chan, seq) /\
     v = commit1 (mkP1 seq port chan (c_cp_port ch) (c_cp_chan ch) data th tmo)).
Proof.
  unfold gupd. destruct out; auto. destruct (packet_of o) as [op|]; auto. destruct op; auto.
  - destruct (nsend pre chan) as [seq|] eqn:En; auto. destruct (chans pre (port, chan)) as [ch|] eqn:Ec; auto.
    cbn. unfold upd. destruct (k3_eqb (port, chan, seq) k) eqn:Ek; auto.
    apply k3_eqb_eq in Ek. subst k. intros [= <-]. right. exists port, chan, th, tmo, data, seq, ch. auto 10.
  - destruct (chan_conn pre (p_dp p, p_dc p)) as [[? ?]|]; auto.
  - destruct (chan_conn pre (p_sp p, p_sc p)) as [[? ?]|]; auto.
Qed.

Lemma gupd_ever_ext g pre o h t out k v :
  (forall p ch s v', g_ever g (p, ch, s) = Some v' -> exists n, nsend pre ch = Some n /\ s < n) ->
  g_ever g k = Some v -> g_ever (gupd g pre o h t out) k = Some v.
Proof.
  intros Hlt Hk. unfold gupd. destruct out; auto. destruct (packet_of o) as [op|]; auto. destruct op; auto.
  - destruct (nsend pre chan) as [seq|] eqn:En; auto. destruct (chans pre (port, chan)) as [ch|] eqn:Ec; auto.
    cbn. unfold upd. destruct (k3_eqb (port, chan, seq) k) eqn:Ek; auto.
    apply k3_eqb_eq in Ek. subst k. destruct (Hlt _ _ _ _ Hk) as [n [Hn L]]. rewrite En in Hn. inversion Hn; subst. lia.
  - destruct (chan_conn pre (p_dp p, p_dc p)) as [[? ?]|]; auto.
  - destruct (chan_conn pre (p_sp p, p_sc p)) as [[? ?]|]; auto.
Qed.

Lemma received_recvd (c : ChainS) p ch s en :
  received c (R1 p ch s) -> chans c (p, ch) = Some en -> recvd (c_ord en) c (p, ch, s).
Proof. intros [en' [He H]] He'. rewrite He in He'. inversion He'; subst. destruct (c_ord en); exact H. Qed.

(** ** the local invariant is preserved by a block of its own chain *)
Theorem local_step sc nc lh Z other g h t o Z' out :
  Local Z g -> good_block Z h t o -> wstep_chain sc nc lh Z other h t o = (Z', out) ->
  Local Z' (gupd g (w_chain Z) o h t out).
Proof.
  intros L [Hrev [Hht [Htime Hpo]]] H.
  pose proof (wsc_chain_mono _ _ _ _ _ _ _ _ _ _ H) as M.
  pose proof (wsc_chain_inv _ _ _ _ _ _ _ _ _ _ H (l_inv _ _ L)) as I'.
  destruct (wsc_self _ _ _ _ _ _ _ _ _ _ Hpo H) as [Sh St].
  destruct (wsc_effect _ _ _ _ _ _ _ _ _ _ H) as [Ev [Eh Eff]].
  set (c := w_chain Z) in *. set (c' := w_chain Z') in *.
  assert (forall k v, g_ever g k = Some v -> g_ever (gupd g c o h t out) k = Some v) as Hext.
  { intros k v. apply gupd_ever_ext. intros p ch s v' Hv. exact (l_ever_lt _ _ L _ _ _ _ Hv). }
  assert (forall k v, com1 c' k = Some v -> g_ever (gupd g c o h t out) k = Some v) as Hcur.
  { intros k v Hc. destruct (packet_of o) as [op|] eqn:Hop.
    - destruct Eff as [e Hs].
      destruct out; try (rewrite (step_not_ok_same _ _ _ _ _ Hs) in Hc by discriminate; cbn in Hc; apply Hext, (l_ever_cur _ _ L); exact Hc).
      destruct (step_com1_new _ _ _ _ _ _ Hs Hc) as [Ho|(port & chan & th & tmo & data & seq & ch & -> & Hn & Hch & -> & ->)].
      + cbn in Ho. apply Hext, (l_ever_cur _ _ L). exact Ho.
      + cbn in Hn, Hch. unfold gupd. rewrite Hop. fold c in Hn, Hch. rewrite Hn, Hch. cbn. apply upd_same, k3_eqb_refl.
    - rewrite Eff in Hc. cbn in Hc. apply Hext, (l_ever_cur _ _ L). exact Hc. }
  constructor.
  - exact I'.
  - rewrite Ev. intros h0 snap [E|Hin].
    + injection E as <- <-. split; [apply mono_refl|]. fold c'. rewrite Sh. lia.
    + destruct (l_vers _ _ L _ _ Hin) as [Ms Hle]. split; [eapply mono_trans; eauto|]. fold c'. rewrite Sh. fold c in Hle. lia.
  - rewrite Eh. intros h0 t0 [E|Hin].
    + injection E as <- <-. fold c'. rewrite Sh, St. lia.
    + destruct (l_hdrs _ _ L _ _ Hin) as [H1 H2]. fold c'. fold c in H1, H2. rewrite Sh, St. lia.
  - rewrite Eh. intros h1 t1 h2 t2 [E1|Hin1] [E2|Hin2] Hle.
    + injection E1 as <- <-. injection E2 as <- <-. lia.
    + injection E1 as <- <-. destruct (l_hdrs _ _ L _ _ Hin2) as [H1 H2]. fold c in H1. lia.
    + injection E2 as <- <-. destruct (l_hdrs _ _ L _ _ Hin1) as [H1 H2]. fold c in H2. lia.
    + eapply (l_hdrs_mono _ _ L); eauto.
  - rewrite Eh. intros h0 t0 [E|Hin].
    + injection E as <- <-. lia.
    + eapply (l_hdrs_pos _ _ L); eauto.
  - intros r Hr. apply gupd_rlog in Hr. destruct Hr as [Hold|(p & ph & rl & ch & kk & -> & Hop & Hcc & ->)].
    + destruct (l_rlog _ _ L _ Hold) as [R1 [R2 [R3 [R4 R5]]]].
      split; [exact R1|]. split; [fold c'; rewrite Sh; fold c in R2; congruence|].
      split; [rewrite Eh; now right|]. split; [eapply recvd_mono; eauto|].
      rewrite Ev. intros h0 snap [E|Hin] Hle.
      * injection E as <- <-. eapply recvd_mono; eauto.
      * eapply R5; eauto.
    + cbn [r_com r_h r_t r_ord r_dst r_src].
      assert (chans c (p_dp p, p_dc p) = Some ch) as Hch.
      { unfold chan_conn in Hcc. destruct (chans c (p_dp p, p_dc p)) as [ch0|]; [|discriminate].
        destruct (conns c (c_conn ch0)); [|discriminate]. now inversion Hcc. }
      rewrite Hop in Eff. destruct Eff as [e Hs]. cbn [step] in Hs.
      pose proof (msg_recv1_frame _ _ _ _ _ _ Hs) as F.
      destruct (f_rnew _ _ _ F (R1 (p_dp p) (p_dc p) (p_seq p))) as [_ Hrc]; [cbn; auto|].
      apply msg_recv1_ok in Hs. destruct Hs as [c1 [Ht _]]. apply recv1_tao_ok in Ht.
      destruct Ht as [ch0 [k0 [Ech0 [_ [_ [_ [_ [_ [Hel _]]]]]]]]]. cbn in Hel, Ech0.
      rewrite Hch in Ech0. injection Ech0 as <-.
      destruct (m_chans _ _ M _ _ Hch) as [en' [Hen' [Hord' _]]].
      assert (recvd (c_ord ch) c' (p_dp p, p_dc p, p_seq p)) as Hrv.
      { rewrite <- Hord'. apply received_recvd; assumption. }
      split; [rewrite Tmo_commit1; exact Hel|]. split; [fold c'; now rewrite Sh|].
      split; [rewrite Eh; now left|]. split; [exact Hrv|].
      rewrite Ev. intros h0 snap [E|Hin] Hle.
      * injection E as <- <-. exact Hrv.
      * destruct (l_vers _ _ L _ _ Hin) as [_ Hle0]. fold c in Hle0. lia.
  - exact Hcur.
  - rewrite Ev. intros h0 snap k v [E|Hin] Hc.
    + injection E as <- <-. apply Hcur. exact Hc.
    + apply Hext. eapply (l_ever_snap _ _ L); eauto.
  - intros p ch s v Hv. apply gupd_ever in Hv.
    destruct Hv as [Hold|(port & chan & th & tmo & data & seq & ch0 & -> & Hop & Hn & Hch & Hk & ->)].
    + destruct (l_ever_lt _ _ L _ _ _ _ Hold) as [n [Hn L']]. destruct (m_nsend _ _ M _ _ Hn) as [n' [Hn' L'']].
      exists n'. split; [exact Hn'|lia].
    + injection Hk as -> -> ->. rewrite Hop in Eff. destruct Eff as [e Hs]. cbn [step] in Hs.
      destruct (send1 e (set_block c h t) port chan th tmo data) as [[c1 o1] s1] eqn:E.
      injection Hs as E1 E2. subst c1 o1.
      apply send1_ok in E. destruct E as (ch1 & k0 & lts & ? & ? & Hns & ? & ? & ? & ? & ? & ? & ? & ? & Hc').
      cbn in Hns. fold c in Hn. rewrite Hn in Hns. injection Hns as <-.
      exists (seq + 1). split; [|lia]. fold c'. rewrite Hc'. cbn. apply upd_same, N.eqb_refl.
  - intros e He. apply gupd_tlog in He. destruct He as [Hold|(p & ph & nsr & rl & ch & kk & -> & Hop & Hcc & ->)].
    + apply Hext. eapply (l_tlog _ _ L); eauto.
    + cbn [t_src t_com]. rewrite Hop in Eff. destruct Eff as [e Hs]. cbn [step] in Hs.
      unfold msg_timeout1 in Hs. apply msg_timeout1_gen_ok in Hs. destruct Hs as [c1 [a' [Ht _]]].
      apply timeout1_tao_ok in Ht. destruct Ht as [ch0 [k0 [pts [_ [_ [_ [_ [_ [_ [Hcm _]]]]]]]]]]. cbn in Hcm.
      apply Hext, (l_ever_cur _ _ L). exact Hcm.
Qed.
