(** C04 end to end, part 3: the invariant linking the two chains, and the theorem. *)
From IBC Require Import Lib.Bytes Lib.Dec Core.Height Core.HeightFacts Core.Chain Core.ChainFacts Core.ChainInv
  Core.ChainThms Core.World Core.WorldFacts Core.WorldInv Core.WorldInv2.
Local Open Scope N_scope.

Section Link.
Variable lh : Id.

(** X in the source role, Y in the destination role *)
Record Link (X Y : WChain) (gX gY : Ghost) : Prop := mkLink {
  k_cons : forall id cl, In (id, cl) (w_clients X) ->
      rev (cl_latest cl) = rev (self_h (w_chain Y)) /\
      forall hh t ver, In (hh, (t, ver)) (cl_cons cl) ->
        rev hh = rev (self_h (w_chain Y)) /\ ht hh = ver + 1 /\ In (ht hh, t) (w_hdrs Y);
  k_prov : forall r, In r (g_rlog gY) -> r_client r <> lh -> g_ever gX (r_src r) = Some (r_com r);
  k_tlog : forall e, In e (g_tlog gX) -> t_client e <> lh ->
      exists t, elapsed (Tmo (t_com e)) (t_ph e) t = true /\ rev (t_ph e) = rev (self_h (w_chain Y)) /\
                ht (t_ph e) <= ht (self_h (w_chain Y)) /\ t <= self_t (w_chain Y);
  k_excl : forall e r, In e (g_tlog gX) -> In r (g_rlog gY) -> t_client e <> lh -> r_client r <> lh ->
      t_dst e = r_dst r -> t_src e = r_src r -> t_ord e = r_ord r -> False }.

(** the consensus state a client of [me] holds at a height *)
Definition cons_at (me : WChain) (id : Id) (ph : Height) : option (N * N) :=
  match find_client me id with Some cl => assocH ph (cl_cons cl) | None => None end.

Lemma cons_at_in me id ph t ver :
  cons_at me id ph = Some (t, ver) -> exists cl, In (id, cl) (w_clients me) /\ In (ph, (t, ver)) (cl_cons cl).
Proof.
  unfold cons_at, find_client. destruct (assoc N.eqb id (w_clients me)) as [cl|] eqn:Ea; [|discriminate].
  intros H. exists cl. split; [now apply assoc_in|now apply assocH_in].
Qed.

Lemma honest_ts other me pf sc nc id ph t :
  id <> lh -> e_ts (honest_env other me pf lh sc nc) id ph = Some t -> exists ver, cons_at me id ph = Some (t, ver).
Proof.
  intros Hne. cbn. apply N.eqb_neq in Hne. rewrite Hne. unfold cons_at.
  destruct (find_client me id) as [cl|]; [|discriminate].
  destruct (assocH ph (cl_cons cl)) as [[t0 ver]|]; [|discriminate]. cbn. intros [= <-]. eauto.
Qed.

Lemma consulted_cons_at me id ph t ver : consulted me id ph = Some (t, ver) -> cons_at me id ph = Some (t, ver).
Proof.
  unfold consulted, cons_at. destruct (find_client me id) as [cl|]; [|discriminate].
  destruct (negb _); [discriminate|]. destruct (h_lt _ _); [discriminate|]. auto.
Qed.

Lemma h_lte_of a b : rev a = rev b -> ht a <= ht b -> h_lte a b = true.
Proof.
  intros Hr Hh. apply h_lte_iff. destruct (N.eq_dec (ht a) (ht b)) as [E|Ne].
  - right. destruct a, b; cbn in *; congruence.
  - left. unfold lex_lt. right. split; [exact Hr|lia].
Qed.

(** the honest meaning of "unreceived verified", for a remote (non-loopback) client *)
Lemma honest_unreceived other me pf sc nc k ch p ph nsr :
  k_client k <> lh ->
  verify_unreceived (honest_env other me pf lh sc nc) k ch p ph nsr = true ->
  exists t ver snap, cons_at me (k_client k) ph = Some (t, ver) /\
    In (ver, snap) (w_vers other) /\ ~ recvd (c_ord ch) snap (p_dp p, p_dc p, p_seq p).
Proof.
  intros Hne. unfold verify_unreceived. destruct (c_ord ch).
  - destruct (p_seq p <? nsr) eqn:El; [discriminate|]. apply N.ltb_ge in El. intros H. cbn in H.
    apply honest_membership in H; [|exact Hne]. destruct H as [t [ver [snap [v' [Hc [_ [Hs [Hl Hv]]]]]]]].
    exists t, ver, snap. split; [now apply consulted_cons_at|]. split; [now apply assocN_in|].
    cbn in Hl. destruct (nrecv snap (p_dp p, p_dc p)) as [n|] eqn:En; [|discriminate]. cbn in Hl. inversion Hl; subst v'.
    cbn in Hv. apply N.eqb_eq in Hv. subst n. intros [nr [Hn L]]. cbn in Hn, L. rewrite En in Hn. inversion Hn; subst. lia.
  - intros H. cbn in H. apply honest_nonmembership in H; [|exact Hne]. destruct H as [t [ver [snap [Hc [_ [Hs Hl]]]]]].
    exists t, ver, snap. split; [now apply consulted_cons_at|]. split; [now apply assocN_in|].
    cbn in Hl. destruct (rcpt1 snap (p_dp p, p_dc p, p_seq p)) eqn:Er; [discriminate|]. cbn. congruence.
Qed.

(** how a block changes the executing chain's light clients *)
Lemma wsc_clients sc nc me other h t o me' out id cl' :
  wstep_chain sc nc lh me other h t o = (me', out) -> In (id, cl') (w_clients me') ->
  In (id, cl') (w_clients me) \/
  (exists cl, In (id, cl) (w_clients me) /\ cl_latest cl' = cl_latest cl /\ cl_cons cl' = cl_cons cl) \/
  (exists cl h0 t0, In (id, cl) (w_clients me) /\ In (h0, t0) (w_hdrs other) /\
     let hh := mkH (rev (cl_latest cl)) h0 in
     cl_latest cl' = max_height (cl_latest cl) hh /\ cl_cons cl' = (hh, (t0, h0 - 1)) :: cl_cons cl).
Proof.
  unfold wstep_chain. intros H Hin. destruct o.
  - destruct (step _ _ o) as [c' o'] eqn:E. inversion H; subst. cbn in Hin. auto.
  - match type of H with context [step ?e ?c o] => destruct (step e c o) as [c' o'] eqn:E end.
    inversion H; subst. cbn in Hin. auto.
  - unfold update_client in H. cbn in H.
    destruct (assoc N.eqb id0 (w_clients me)) as [cl|] eqn:Ea; [|inversion H; subst; cbn in Hin; auto].
    destruct (assocN h0 (w_hdrs other)) as [t0|] eqn:Eh; [|inversion H; subst; cbn in Hin; auto].
    destruct (negb (client_active t cl)); [inversion H; subst; cbn in Hin; auto|].
    destruct (assocH _ (cl_cons cl)); [inversion H; subst; cbn in Hin; auto|].
    inversion H; subst. cbn in Hin. destruct Hin as [E|Hin]; [|auto].
    inversion E; subst. right. right. exists cl, h0, t0. cbn. split; [now apply assoc_in|]. split; [now apply assocN_in|auto].
  - unfold freeze_client in H. cbn in H.
    destruct (assoc N.eqb id0 (w_clients me)) as [cl|] eqn:Ea; [|inversion H; subst; cbn in Hin; auto].
    inversion H; subst. cbn in Hin. destruct Hin as [E|Hin]; [|auto].
    inversion E; subst. right. left. exists cl. cbn. split; [now apply assoc_in|auto].
  - inversion H; subst. cbn in Hin. auto.
Qed.

Lemma max_height_rev a b : rev a = rev b -> rev (max_height a b) = rev a.
Proof. unfold max_height. destruct (h_lt a b); congruence. Qed.

Definition not_chan (k : PKey) : Prop := match k with KChan _ _ => False | _ => True end.

(** the environment of a packet operation agrees with the honest one of its (first) proof on timestamps,
    non-membership and every membership query except channel-state queries *)
Lemma wsc_effect_h sc nc me other h t o me' out op :
  wstep_chain sc nc lh me other h t o = (me', out) -> packet_of o = Some op ->
  exists e pf,
    let me0 := mkW (set_block (w_chain me) h t) (w_clients me) (w_vers me) (w_hdrs me) in
    let H := honest_env other me0 pf lh sc nc in
    step e (set_block (w_chain me) h t) op = (w_chain me', out) /\
    e_ts e = e_ts H /\ e_vnon e = e_vnon H /\
    (forall id ph k v, not_chan k -> e_vmem e id ph k v = e_vmem H id ph k v).
Proof.
  unfold wstep_chain. intros H Hop. destruct o; cbn in Hop; try discriminate; injection Hop as <-.
  - destruct (step _ _ o) as [c' o'] eqn:E. inversion H; subst. cbn.
    eexists. exists pf. split; [exact E|]. auto.
  - match type of H with context [step ?e ?c o] => destruct (step e c o) as [c' o'] eqn:E end.
    inversion H; subst. cbn. eexists. exists pf. split; [exact E|]. cbn. repeat split; auto.
    intros id ph k v Hk. destruct k; cbn in Hk; try contradiction; reflexivity.
Qed.

(** ** a block of the source-role chain X *)
Theorem link_step_src sc nc X Y gX gY h t o X' out :
  Local X gX -> Local Y gY -> Link X Y gX gY -> good_block X h t o ->
  wstep_chain sc nc lh X Y h t o = (X', out) ->
  Link X' Y (gupd gX (w_chain X) o h t out) gY.
Proof.
  intros LX LY K GB H.
  pose proof (local_step _ _ _ _ _ _ _ _ _ _ _ LX GB H) as LX'.
  destruct GB as [Hrev [Hht [Htime Hpo]]].
  assert (forall k v, g_ever gX k = Some v -> g_ever (gupd gX (w_chain X) o h t out) k = Some v) as Hext.
  { intros k v. apply gupd_ever_ext. intros p ch s v' Hv. exact (l_ever_lt _ _ LX _ _ _ _ Hv). }
  (* facts about a timeout accepted in this block *)
  assert (forall p ph nsr rl ch kk,
            out = Ok -> packet_of o = Some (OTimeout1 p ph nsr rl) -> chan_conn (w_chain X) (p_sp p, p_sc p) = Some (ch, kk) ->
            k_client kk <> lh ->
            com1 (w_chain X) (p_sp p, p_sc p, p_seq p) = Some (commit1 p) /\
            exists t0 ver snap cl,
              elapsed (timeout1 p) ph t0 = true /\ In (k_client kk, cl) (w_clients X) /\ In (ph, (t0, ver)) (cl_cons cl) /\
              In (ver, snap) (w_vers Y) /\ ~ recvd (c_ord ch) snap (p_dp p, p_dc p, p_seq p)) as Htimeout.
  { intros p ph nsr rl ch kk -> Hop Hcc Hne.
    destruct (wsc_effect_h _ _ _ _ _ _ _ _ _ _ H Hop) as [e [pf [Hs [Ets [Evn Evm]]]]]. cbn zeta in *.
    cbn [step] in Hs. unfold msg_timeout1 in Hs. apply msg_timeout1_gen_ok in Hs. destruct Hs as [c1 [a' [Ht _]]].
    apply timeout1_tao_ok in Ht. destruct Ht as [ch0 [k0 [pts [Hch0 [_ [_ [Hk0 [Hts [Hel [Hcm [Hun _]]]]]]]]]]]. cbn in Hch0, Hk0, Hcm.
    unfold chan_conn in Hcc. rewrite Hch0 in Hcc. rewrite Hk0 in Hcc. injection Hcc as <- <-.
    split; [exact Hcm|].
    set (me0 := mkW (set_block (w_chain X) h t) (w_clients X) (w_vers X) (w_hdrs X)) in *.
    assert (verify_unreceived (honest_env Y me0 pf lh sc nc) k0 ch0 p ph nsr = true) as Hun'.
    { unfold verify_unreceived in *. destruct (c_ord ch0).
      - destruct (p_seq p <? nsr); [discriminate|]. rewrite <- Evm; [exact Hun|exact I].
      - rewrite <- Evn. exact Hun. }
    destruct (honest_unreceived _ _ _ _ _ _ _ _ _ _ Hne Hun') as [t0 [ver [snap [Hca [Hv Hnr]]]]].
    rewrite Ets in Hts. destruct (honest_ts _ _ _ _ _ _ _ _ Hne Hts) as [ver2 Hca2].
    rewrite Hca in Hca2. injection Hca2 as -> ->.
    destruct (cons_at_in _ _ _ _ _ Hca) as [cl [Hc1 Hc2]]. cbn in Hc1.
    exists pts, ver2, snap, cl. auto 10. }
  constructor.
  - (* light clients of X *)
    intros id cl' Hin. destruct (wsc_clients _ _ _ _ _ _ _ _ _ _ _ H Hin) as [Hold|[(cl & Hc & E1 & E2)|(cl & h0 & t0 & Hc & Hh & E1 & E2)]].
    + exact (k_cons _ _ _ _ K _ _ Hold).
    + destruct (k_cons _ _ _ _ K _ _ Hc) as [R C]. rewrite E1, E2. auto.
    + destruct (k_cons _ _ _ _ K _ _ Hc) as [R C]. cbn zeta in E1, E2. rewrite E1, E2. split.
      * rewrite max_height_rev; auto.
      * intros hh t1 ver [E|Hin'].
        -- inversion E; subst. cbn. pose proof (l_hdrs_pos _ _ LY _ _ Hh). repeat split; auto. lia.
        -- exact (C _ _ _ Hin').
  - (* provenance of Y's receives in X: the ever-map only grows *)
    intros r Hr Hc. apply Hext. exact (k_prov _ _ _ _ K _ Hr Hc).
  - (* timeouts recorded on X *)
    intros e He Hc. apply gupd_tlog in He. destruct He as [Hold|(p & ph & nsr & rl & ch & kk & Ho & Hop & Hcc & ->)].
    + exact (k_tlog _ _ _ _ K _ Hold Hc).
    + cbn [t_com t_ph t_client] in *.
      destruct (Htimeout _ _ _ _ _ _ Ho Hop Hcc Hc) as [_ [t0 [ver [snap [cl [Hel [Hc1 [Hc2 _]]]]]]]].
      destruct (k_cons _ _ _ _ K _ _ Hc1) as [_ C]. destruct (C _ _ _ Hc2) as [R1 [R2 R3]].
      destruct (l_hdrs _ _ LY _ _ R3) as [B1 B2].
      exists t0. rewrite Tmo_commit1. auto.
  - (* a new timeout against the receives already recorded on Y *)
    intros e r He Hr Hce Hcr Ed Es Eo. apply gupd_tlog in He.
    destruct He as [Hold|(p & ph & nsr & rl & ch & kk & Ho & Hop & Hcc & ->)].
    + exact (k_excl _ _ _ _ K _ _ Hold Hr Hce Hcr Ed Es Eo).
    + cbn [t_com t_ph t_client t_src t_dst t_ord] in *.
      destruct (Htimeout _ _ _ _ _ _ Ho Hop Hcc Hce) as [Hcm [t0 [ver [snap [cl [Hel [Hc1 [Hc2 [Hv Hnr]]]]]]]]].
      destruct (k_cons _ _ _ _ K _ _ Hc1) as [_ C]. destruct (C _ _ _ Hc2) as [R1 [R2 R3]].
      destruct (l_rlog _ _ LY _ Hr) as [Q1 [Q2 [Q3 [Q4 Q5]]]].
      (* same commitment *)
      pose proof (k_prov _ _ _ _ K _ Hr Hcr) as Hp. rewrite <- Es in Hp.
      pose proof (l_ever_cur _ _ LX _ _ Hcm) as Hp'. rewrite Hp in Hp'. injection Hp' as Ecom.
      (* the receive happened after the proven version *)
      assert (ver < ht (r_h r)) as Hlt.
      { destruct (N.lt_ge_cases ver (ht (r_h r))) as [L|L]; [exact L|]. exfalso. apply Hnr.
        rewrite Eo, Ed. eapply Q5; eauto. }
      assert (t0 <= r_t r) as Htt by (eapply (l_hdrs_mono _ _ LY); eauto; lia).
      assert (h_lte ph (r_h r) = true) as Hhh by (apply h_lte_of; [congruence|lia]).
      rewrite Ecom, Tmo_commit1 in Q1.
      rewrite (elapsed_mono _ _ _ _ _ Hel Hhh Htt) in Q1. discriminate.
Qed.

(** ** a block of the destination-role chain Y *)
Theorem link_step_dst sc nc X Y gX gY h t o Y' out :
  Local X gX -> Local Y gY -> Link X Y gX gY -> good_block Y h t o ->
  wstep_chain sc nc lh Y X h t o = (Y', out) ->
  Link X Y' gX (gupd gY (w_chain Y) o h t out).
Proof.
  intros LX LY K GB H.
  pose proof (local_step _ _ _ _ _ _ _ _ _ _ _ LY GB H) as LY'.
  destruct GB as [Hrev [Hht [Htime Hpo]]].
  destruct (wsc_self _ _ _ _ _ _ _ _ _ _ Hpo H) as [Sh St].
  destruct (wsc_effect _ _ _ _ _ _ _ _ _ _ H) as [Ev [Eh _]].
  (* facts about a receive accepted in this block *)
  assert (forall p ph rl ch kk,
            out = Ok -> packet_of o = Some (ORecv1 p ph rl) -> chan_conn (w_chain Y) (p_dp p, p_dc p) = Some (ch, kk) ->
            k_client kk <> lh ->
            elapsed (timeout1 p) h t = false /\ g_ever gX (p_sp p, p_sc p, p_seq p) = Some (commit1 p)) as Hrecv.
  { intros p ph rl ch kk -> Hop Hcc Hne.
    destruct (wsc_effect_h _ _ _ _ _ _ _ _ _ _ H Hop) as [e [pf [Hs [Ets [Evn Evm]]]]]. cbn zeta in *.
    cbn [step] in Hs. apply msg_recv1_ok in Hs. destruct Hs as [c1 [Ht _]]. apply recv1_tao_ok in Ht.
    destruct Ht as [ch0 [k0 [Hch0 [_ [_ [_ [Hk0 [_ [Hel [Hvm _]]]]]]]]]]. cbn in Hch0, Hk0, Hel.
    unfold chan_conn in Hcc. rewrite Hch0 in Hcc. rewrite Hk0 in Hcc. injection Hcc as <- <-.
    split; [exact Hel|].
    rewrite Evm in Hvm by exact I. cbn in Hvm.
    apply honest_membership in Hvm; [|exact Hne]. destruct Hvm as [t0 [ver [snap [v' [_ [_ [Hsn [Hl Hv]]]]]]]].
    cbn in Hl. destruct (com1 snap (p_sp p, p_sc p, p_seq p)) as [cm|] eqn:Ec; [|discriminate]. cbn in Hl. inversion Hl; subst v'.
    change (commit1_eqb (commit1 p) cm = true) in Hv. apply commit1_eqb_eq in Hv. subst cm.
    eapply (l_ever_snap _ _ LX); [apply assocN_in; exact Hsn|exact Ec]. }
  constructor.
  - intros id cl Hin. destruct (k_cons _ _ _ _ K _ _ Hin) as [R C]. rewrite Sh. split; [congruence|].
    intros hh t1 ver Hc. destruct (C _ _ _ Hc) as [C1 [C2 C3]]. rewrite Eh. repeat split; auto; [congruence|now right].
  - intros r Hr Hc. apply gupd_rlog in Hr. destruct Hr as [Hold|(p & ph & rl & ch & kk & Ho & Hop & Hcc & ->)].
    + exact (k_prov _ _ _ _ K _ Hold Hc).
    + cbn [r_src r_com r_client] in *. exact (proj2 (Hrecv _ _ _ _ _ Ho Hop Hcc Hc)).
  - intros e He Hc. destruct (k_tlog _ _ _ _ K _ He Hc) as [t0 [T1 [T2 [T3 T4]]]].
    exists t0. rewrite Sh, St. repeat split; auto; [congruence|lia|lia].
  - intros e r He Hr Hce Hcr Ed Es Eo. apply gupd_rlog in Hr.
    destruct Hr as [Hold|(p & ph & rl & ch & kk & Ho & Hop & Hcc & ->)].
    + exact (k_excl _ _ _ _ K _ _ He Hold Hce Hcr Ed Es Eo).
    + cbn [r_src r_dst r_com r_client r_ord] in *.
      destruct (Hrecv _ _ _ _ _ Ho Hop Hcc Hcr) as [Hne Hp].
      destruct (k_tlog _ _ _ _ K _ He Hce) as [t0 [T1 [T2 [T3 T4]]]].
      pose proof (l_tlog _ _ LX _ He) as Hq. rewrite Es in Hq. rewrite Hp in Hq. injection Hq as Ecom.
      rewrite <- Ecom, Tmo_commit1 in T1.
      assert (h_lte (t_ph e) h = true) as Hhh by (apply h_lte_of; [congruence|lia]).
      assert (t0 <= t) as Htt by lia.
      rewrite (elapsed_mono _ _ _ _ _ T1 Hhh Htt) in Hne. discriminate.
Qed.

End Link.
