(** The ordering hypothesis of the MsgTimeoutOnClose end-to-end theorem discharged like in Core/WorldOrd.v. *)
From IBC Require Import Lib.Bytes Lib.Dec Core.Height Core.HeightFacts Core.Chain Core.ChainFacts Core.ChainInv
  Core.ChainThms Core.ChainBack Core.World Core.WorldFacts Core.WorldInv Core.WorldInv2 Core.WorldInv3 Core.WorldThm
  Core.WorldV2 Core.WorldClose Core.WorldOrd.
Local Open Scope N_scope.

(** the logged timeout-on-close orderings are those of channel ends that still exist *)
Definition CL (X : WChain) (cl : list CEntry) : Prop :=
  forall e, In e cl ->
    exists ch, chans (w_chain X) (fst (ce_src e)) = Some ch /\ c_ord ch = ce_ord e /\ (c_cp_port ch, c_cp_chan ch) = fst (ce_dst e).

Lemma cl_step sc nc lh X Y cl h t o X' out :
  CL X cl -> wstep_chain sc nc lh X Y h t o = (X', out) -> CL X' (gupd3 cl (w_chain X) o out).
Proof.
  intros T H. pose proof (wsc_chain_mono _ _ _ _ _ _ _ _ _ _ H) as M.
  intros e He. apply gupd3_in in He. destruct He as [Hold|(p & ph & nsr & rl & ch & kk & -> & Hop & Hcc & ->)].
  - destruct (T _ Hold) as [ch [Hc [O P]]]. destruct (m_chans _ _ M _ _ Hc) as [ch' [Hc' [O' [P1 [P2 _]]]]].
    exists ch'. split; [exact Hc'|]. split; [congruence|]. rewrite P1, P2. exact P.
  - cbn [ce_src ce_dst ce_ord fst].
    destruct (wsc_effect _ _ _ _ _ _ _ _ _ _ H) as [_ [_ Eff]]. rewrite Hop in Eff. destruct Eff as [e Hs].
    cbn [step] in Hs. unfold msg_timeout_on_close1 in Hs. apply msg_timeout1_gen_ok in Hs. destruct Hs as [c1 [a' [Ht _]]].
    apply timeout_on_close1_tao_ok in Ht. destruct Ht as [ch0 [k0 [Hch0 [Hdp [Hdc _]]]]]. cbn in Hch0.
    unfold chan_conn in Hcc. rewrite Hch0 in Hcc.
    match type of Hcc with context [match ?b with _ => _ end] => destruct b end; [|discriminate Hcc]. injection Hcc as <- _.
    destruct (m_chans _ _ M _ _ Hch0) as [ch' [Hc' [O' [P1 [P2 _]]]]].
    exists ch'. split; [exact Hc'|]. split; [exact O'|]. rewrite P1, P2, <- Hdp, <- Hdc. reflexivity.
Qed.

Lemma cl_keep sc nc lh X Y cl h t o X' out :
  CL X cl -> wstep_chain sc nc lh X Y h t o = (X', out) -> CL X' cl.
Proof.
  intros T H. pose proof (wsc_chain_mono _ _ _ _ _ _ _ _ _ _ H) as M. intros e He.
  destruct (T _ He) as [ch [Hc [O P]]]. destruct (m_chans _ _ M _ _ Hc) as [ch' [Hc' [O' [P1 [P2 _]]]]].
  exists ch'. split; [exact Hc'|]. split; [congruence|]. rewrite P1, P2. exact P.
Qed.

Definition w3 (x : IW3) : World := iw (iw1 (iw2 x)).

Record WI3O (x : IW3) : Prop := mkWI3O {
  w3o_wi : WI3 x;
  w3o_o : WIO (iw1 (iw2 x));
  w3o_ca : CL (wa (w3 x)) (ca x);
  w3o_cb : CL (wb (w3 x)) (cb x) }.

Lemma istep3_iw1 x s : iw1 (iw2 (istep3 x s)) = istep (iw1 (iw2 x)) s.
Proof. unfold istep3, istep2. destruct (ws_side s); reflexivity. Qed.

Theorem wi3o_step x s : WI3O x -> good_step (w3 x) s -> WI3O (istep3 x s).
Proof.
  intros [I O Ca Cb] G. unfold w3 in *.
  constructor.
  - exact (wi3_step _ _ I G).
  - rewrite istep3_iw1. exact (wio_step _ _ O G).
  - unfold w3. rewrite istep3_iw1. unfold istep3, istep. destruct s as [side h t o]. cbn [ws_side ws_h ws_t ws_op] in *.
    set (w := iw (iw1 (iw2 x))) in *. destruct side; cbn [side_w ca cb]; unfold wstep;
      [destruct (wstep_chain (w_script w) (w_noncanon w) (w_lh w) (wa w) (wb w) h t o) as [a' out] eqn:E
      |destruct (wstep_chain (w_script w) (w_noncanon w) (w_lh w) (wb w) (wa w) h t o) as [b' out] eqn:E]; cbn.
    + eapply cl_step; eauto.
    + exact Ca.
  - unfold w3. rewrite istep3_iw1. unfold istep3, istep. destruct s as [side h t o]. cbn [ws_side ws_h ws_t ws_op] in *.
    set (w := iw (iw1 (iw2 x))) in *. destruct side; cbn [side_w ca cb]; unfold wstep;
      [destruct (wstep_chain (w_script w) (w_noncanon w) (w_lh w) (wa w) (wb w) h t o) as [a' out] eqn:E
      |destruct (wstep_chain (w_script w) (w_noncanon w) (w_lh w) (wb w) (wa w) h t o) as [b' out] eqn:E]; cbn.
    + exact Cb.
    + eapply cl_step; eauto.
Qed.

Theorem wi3o_run x l : WI3O x -> good_steps3 x l -> WI3O (irun3 x l).
Proof.
  revert x; induction l as [|s l IH]; intros x I G; cbn [irun3 fold_left]; [exact I|].
  destruct G as [G1 G2]. apply IH; [now apply wi3o_step|exact G2].
Qed.

(** MsgTimeoutOnClose end to end without the ordering hypothesis *)
Theorem timeout_on_close_excludes_receive_ord x l :
  WI3O x -> good_steps3 x l ->
  let y := irun3 x l in
  let lh := w_lh (w3 y) in
  (forall e r, In e (ca y) -> In r (g_rlog (gb (iw1 (iw2 y)))) ->
     ce_client e <> lh -> r_client r <> lh -> ce_dst e = r_dst r -> False) /\
  (forall e r, In e (cb y) -> In r (g_rlog (ga (iw1 (iw2 y)))) ->
     ce_client e <> lh -> r_client r <> lh -> ce_dst e = r_dst r -> False).
Proof.
  intros I G y lh. pose proof (wi3o_run _ _ I G) as [I3 [Iw Aab Aba Ta Tb Ra Rb] Ca Cb].
  fold y in I3, Aab, Aba, Ra, Rb, Ca, Cb.
  pose proof (timeout_on_close_excludes_receive x l (w3o_wi _ I) G) as [E1 E2]. fold y in E1, E2. unfold w3 in *. split.
  - intros e r He Hr Hce Hcr Ed. refine (E1 e r He Hr Hce Hcr Ed _).
    destruct (Ca _ He) as [cha [Ha [Oa Pa]]]. destruct (Rb _ Hr) as [chb [Hb Ob]].
    rewrite <- Oa, <- Ob. apply (Aab _ _ _ Ha). rewrite Pa, Ed. exact Hb.
  - intros e r He Hr Hce Hcr Ed. refine (E2 e r He Hr Hce Hcr Ed _).
    destruct (Cb _ He) as [chb [Hb [Ob Pb]]]. destruct (Ra _ Hr) as [cha [Ha Oa]].
    rewrite <- Ob, <- Oa. apply (Aba _ _ _ Hb). rewrite Pb, Ed. exact Ha.
Qed.

Theorem wi3o_base w :
  base_chain (wa w) -> base_chain (wb w) -> base_clients (wa w) (wb w) -> base_clients (wb w) (wa w) ->
  Agree (wa w) (wb w) -> Agree (wb w) (wa w) ->
  WI3O (mkIW3 (mkIW2 (mkIW w ghost0 ghost0) ghost20 ghost20) [] []).
Proof.
  intros Fa Fb Ca Cb A1 A2. constructor; cbn; auto using wi3_base, wio_base; intros e [].
Qed.

Example exc_wi3o : WI3O exc0.
Proof.
  apply wi3o_base; [apply exw_base_chain|apply exw_base_chain| | |exact exw_agree_ab|exact exw_agree_ba].
  - intros id cl [E|[]]. inversion E; subst. cbn. split; [reflexivity|]. intros hh t ver [E'|[]]. inversion E'; subst. cbn. auto.
  - intros id cl [E|[]]. inversion E; subst. cbn. split; [reflexivity|]. intros hh t ver [E'|[]]. inversion E'; subst. cbn. auto.
Qed.
