(** Non-vacuity: a concrete chain, environment and history exercising the hypotheses of the C01-C14 theorems. *)
From IBC Require Import Lib.Bytes Core.Height Core.Chain Core.ChainFacts Core.ChainInv Core.ChainThms Core.ChainV2Thms.
Local Open Scope N_scope.

Definition ex_chan_u := mkChan ST_OPEN UNORDERED 1 11 5 7.
Definition ex_chan_o := mkChan ST_OPEN ORDERED 1 12 5 7.
Definition ex_chain : Chain N :=
  mkChain N (fun k => if k2_eqb k (1, 10) then Some ex_chan_u else if k2_eqb k (1, 20) then Some ex_chan_o else None)
    (fun k => if k =? 5 then Some (mkConn true 9 6) else None) (fun p => p =? 1)
    (fun i => if (i =? 10) || (i =? 20) || (i =? 30) then Some 1 else None)
    (fun k => if k2_eqb k (1, 20) then Some 1 else None) (fun k => if k2_eqb k (1, 20) then Some 1 else None)
    (fun _ => None) (fun _ => false) (fun _ => None) (fun _ => None) (fun _ => false) (fun _ => None) (fun _ => None)
    (fun i => if i =? 30 then Some 31 else if i =? 10 then Some 11 else None) (fun i => if i =? 10 then Some 9 else None)
    0 (mkH 1 100) 1000000000000 [].

(** an environment whose light client accepts everything and whose applications succeed, fail or go async by data *)
Definition ex_env : Env N :=
  mkEnv N (fun _ => true) (fun _ => mkH 1 50) (fun _ _ => Some 2000000000000) (fun _ _ _ _ => true) (fun _ _ _ => true) (fun _ => false)
    (fun a p _ => (a + 7, if p_data p =? 3 then Some (false, 4) else if p_data p =? 5 then None else Some (true, 4)))
    (fun a _ _ _ => Some (a + 1)) (fun a _ _ => Some (a + 1))
    (fun a _ _ _ _ _ => Some a)
    (fun a _ _ _ y _ => (a + 7, if y_val y =? 3 then (R2Failure, 0) else (R2Success, 4)))
    (fun a _ _ _ _ _ _ => Some (a + 1)) (fun a _ _ _ _ _ => Some (a + 1)).

Definition ex_in (s d : N) := mkP1 s 1 11 1 10 d (mkH 1 500) 0.      (* incoming on the UNORDERED channel *)
Definition ex_out_o (s : N) := mkP1 s 1 20 1 12 2 (mkH 1 60) 0.       (* outgoing on the ORDERED channel, times out at 1-60 *)
Definition ex_q (s : N) (vals : list N) := mkP2 s 31 30 3000 (map (fun v => mkPay 1 1 1 1 v) vals).

Definition ex_hist : list (Env N * Op) :=
  map (fun o => (ex_env, o))
    [ ORecv1 (ex_in 1 2) (mkH 1 50) 0; ORecv1 (ex_in 1 2) (mkH 1 50) 0; ORecv1 (ex_in 2 3) (mkH 1 50) 0;
      OSend1 1 20 (mkH 1 60) 0 2; OSend1 1 20 (mkH 1 60) 0 2; OTimeout1 (ex_out_o 1) (mkH 1 70) 1 0;
      OTimeout1 (ex_out_o 1) (mkH 1 70) 1 0; OSend1 1 20 (mkH 1 60) 0 2;
      ORecv2 (ex_q 1 [2; 2]) (mkH 1 50) 0; ORecv2 (ex_q 2 [2; 3]) (mkH 1 50) 0; ORecv2 (ex_q 1 [2; 2]) (mkH 1 50) 0;
      OSend2 30 3000 [mkPay 1 1 1 1 2] 0; OAck2 (mkP2 1 30 31 3000 [mkPay 1 1 1 1 2]) [4] (mkH 1 50) 0 ].

Example ex_inv : Inv ex_chain.
Proof. apply inv_fresh; reflexivity. Qed.

(** the history really runs callbacks, refuses replays, closes the ORDERED channel and discards failed state *)
Example ex_run :
  let c := run ex_chain ex_hist in
  rkeys (events c) = [R1 1 10 1; R1 1 10 2; R2 30 1 0; R2 30 1 1; R2 30 2 0; R2 30 2 1] /\
  tkeys (events c) = [T1 1 20 1; T2 30 1 0] /\
  map (fun eo => snd (step ex_env ex_chain (snd eo))) (firstn 1 ex_hist) = [Ok] /\
  option_map c_state (chans c (1, 20)) = Some ST_CLOSED /\
  com1 c (1, 20, 2) <> None /\ nsend c 20 = Some 3 /\
  ackc2 c (30, 2) = Some [sentinel] /\ ackc2 c (30, 1) = Some [4; 4] /\
  app c = 23.
Proof. vm_compute. repeat split; discriminate. Qed.

Example ex_nonempty : rkeys (events (run ex_chain ex_hist)) <> [] /\ tkeys (events (run ex_chain ex_hist)) <> [].
Proof. vm_compute. split; discriminate. Qed.
