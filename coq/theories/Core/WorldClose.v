(** C04 end to end for MsgTimeoutOnClose (IBC v1): the packet is timed out because the counterparty's channel end was
    proven CLOSED together with the proof that the packet was not received.  Same construction as Core/WorldInv*.v:
    a third ghost log of accepted MsgTimeoutOnClose messages, run alongside the v1 and v2 instrumentation. *)
From IBC Require Import Lib.Bytes Lib.Dec Core.Height Core.HeightFacts Core.Chain Core.ChainFacts Core.ChainInv
  Core.ChainThms Core.World Core.WorldFacts Core.WorldInv Core.WorldInv2 Core.WorldInv3 Core.WorldThm Core.WorldV2.
Local Open Scope N_scope.

Record CEntry := mkCE { ce_src : K3; ce_dst : K3; ce_ord : Order; ce_client : Id }.

Definition gupd3 (g : list CEntry) (pre : ChainS) (o : WOp) (out : Outcome) : list CEntry :=
  match out, packet_of o with
  | Ok, Some (OTimeoutOnClose1 p _ _ _) =>
      match chan_conn pre (p_sp p, p_sc p) with
      | Some (ch, kk) => mkCE (p_sp p, p_sc p, p_seq p) (p_dp p, p_dc p, p_seq p) (c_ord ch) (k_client kk) :: g
      | None => g
      end
  | _, _ => g
  end.

Lemma gupd3_in g pre o out e :
  In e (gupd3 g pre o out) ->
  In e g \/
  (exists p ph nsr rl ch kk, out = Ok /\ packet_of o = Some (OTimeoutOnClose1 p ph nsr rl) /\
     chan_conn pre (p_sp p, p_sc p) = Some (ch, kk) /\
     e = mkCE (p_sp p, p_sc p, p_seq p) (p_dp p, p_dc p, p_seq p) (c_ord ch) (k_client kk)).
Proof.
  unfold gupd3. destruct out; auto. destruct (packet_of o) as [op|]; auto. destruct op; auto.
  destruct (chan_conn pre (p_sp p, p_sc p)) as [[ch kk]|] eqn:Ec; auto.
  cbn. intros [<-|H]; auto. right. exists p, ph, nsr, relayer, ch, kk. auto.
Qed.

Lemma chanend_eqb_closed a b : chanend_eqb a b = true -> c_state a = ST_CLOSED -> c_state b = ST_CLOSED.
Proof.
  unfold chanend_eqb. intros H Ha. repeat (apply andb_prop in H; destruct H as [H ?]).
  rewrite Ha in H. destruct (c_state b); cbn in H; try discriminate; reflexivity.
Qed.

(** a receive is only accepted on an OPEN channel: no committed version strictly before the receiving block shows the
    receiving channel end CLOSED (CLOSED is final) *)
Definition Local3 (Z : WChain) (g : Ghost) : Prop :=
  forall r, In r (g_rlog g) ->
  forall h snap ch, In (h, snap) (w_vers Z) -> h < ht (r_h r) -> chans snap (fst (r_dst r)) = Some ch -> c_state ch <> ST_CLOSED.

Theorem local3_step sc nc lh Z other g h t o Z' out :
  Local Z g -> Local3 Z g -> good_block Z h t o -> wstep_chain sc nc lh Z other h t o = (Z', out) ->
  Local3 Z' (gupd g (w_chain Z) o h t out).
Proof.
  intros L L3 [Hrev [Hht [Htime Hpo]]] H.
  destruct (wsc_effect _ _ _ _ _ _ _ _ _ _ H) as [Ev [Eh Eff]].
  intros r Hr h0 snap ch0 Hin Hlt Hch. rewrite Ev in Hin.
  apply gupd_rlog in Hr. destruct Hr as [Hold|(p & ph & rl & ch & kk & -> & Hop & Hcc & ->)].
  - destruct Hin as [E|Hin].
    + injection E as <- <-. destruct (l_rlog _ _ L _ Hold) as [_ [_ [Q3 _]]].
      destruct (l_hdrs _ _ L _ _ Q3) as [B1 _]. lia.
    + exact (L3 _ Hold _ _ _ Hin Hlt Hch).
  - cbn [r_h r_dst fst] in *. destruct Hin as [E|Hin]; [injection E as <- <-; lia|].
    destruct (l_vers _ _ L _ _ Hin) as [M _].
    destruct (m_chans _ _ M _ _ Hch) as [ch' [Hch' [_ [_ [_ [_ Hcl]]]]]].
    rewrite Hop in Eff. destruct Eff as [e Hs]. cbn [step] in Hs.
    apply msg_recv1_ok in Hs. destruct Hs as [c1 [Ht _]]. apply recv1_tao_ok in Ht.
    destruct Ht as [ch1 [k1 [Hch1 [Hopen _]]]]. cbn in Hch1. rewrite Hch' in Hch1. injection Hch1 as <-.
    intros Hc. rewrite (Hcl Hc) in Hopen. discriminate.
Qed.

Section Link3.
Variable lh : Id.

Record Link3 (X Y : WChain) (cX : list CEntry) (gY : Ghost) : Prop := mkLink3 {
  k3_clog : forall e, In e cX -> ce_client e <> lh ->
      exists ver snap ch, In (ver, snap) (w_vers Y) /\ chans snap (fst (ce_dst e)) = Some ch /\ c_state ch = ST_CLOSED /\
                          ~ recvd (ce_ord e) snap (ce_dst e);
  k3_excl : forall e r, In e cX -> In r (g_rlog gY) -> ce_client e <> lh -> r_client r <> lh ->
      ce_dst e = r_dst r -> ce_ord e = r_ord r -> False }.

(** the honest meaning of "unreceived verified", with the version looked up functionally *)
Lemma honest_unreceived_at other me pf sc nc k ch p ph nsr :
  k_client k <> lh ->
  verify_unreceived (honest_env other me pf lh sc nc) k ch p ph nsr = true ->
  exists t ver snap, cons_at me (k_client k) ph = Some (t, ver) /\
    assocN ver (w_vers other) = Some snap /\ ~ recvd (c_ord ch) snap (p_dp p, p_dc p, p_seq p).
Proof.
  intros Hne. unfold verify_unreceived. destruct (c_ord ch).
  - destruct (p_seq p <? nsr) eqn:El; [discriminate|]. apply N.ltb_ge in El. intros H. cbn in H.
    apply honest_membership in H; [|exact Hne]. destruct H as [t [ver [snap [v' [Hc [_ [Hs [Hl Hv]]]]]]]].
    exists t, ver, snap. split; [now apply consulted_cons_at|]. split; [exact Hs|].
    cbn in Hl. destruct (nrecv snap (p_dp p, p_dc p)) as [n|] eqn:En; [|discriminate]. cbn in Hl. inversion Hl; subst v'.
    cbn in Hv. apply N.eqb_eq in Hv. subst n. intros [nr [Hn L]]. cbn in Hn, L. rewrite En in Hn. inversion Hn; subst. lia.
  - intros H. cbn in H. apply honest_nonmembership in H; [|exact Hne]. destruct H as [t [ver [snap [Hc [_ [Hs Hl]]]]]].
    exists t, ver, snap. split; [now apply consulted_cons_at|]. split; [exact Hs|].
    cbn in Hl. destruct (rcpt1 snap (p_dp p, p_dc p, p_seq p)) eqn:Er; [discriminate|]. cbn. congruence.
Qed.

(** the environment of a packet operation: as [wsc_effect_h], and channel-state membership queries are answered
    honestly for the closed-channel proof *)
Lemma wsc_effect_c sc nc me other h t o me' out op :
  wstep_chain sc nc lh me other h t o = (me', out) -> packet_of o = Some op ->
  exists e pf pfc,
    let me0 := mkW (set_block (w_chain me) h t) (w_clients me) (w_vers me) (w_hdrs me) in
    let H := honest_env other me0 pf lh sc nc in
    let Hc := honest_env other me0 pfc lh sc nc in
    step e (set_block (w_chain me) h t) op = (w_chain me', out) /\
    e_ts e = e_ts H /\ e_vnon e = e_vnon H /\
    (forall id ph k v, not_chan k -> e_vmem e id ph k v = e_vmem H id ph k v) /\
    (forall id ph p c v, e_vmem e id ph (KChan p c) v = e_vmem Hc id ph (KChan p c) v).
Proof.
  unfold wstep_chain. intros H Hop. destruct o; cbn in Hop; try discriminate; injection Hop as <-.
  - destruct (step _ _ o) as [c' o'] eqn:E. inversion H; subst. cbn.
    eexists. exists pf, pf. split; [exact E|]. auto.
  - match type of H with context [step ?e ?c o] => destruct (step e c o) as [c' o'] eqn:E end.
    inversion H; subst. cbn. eexists. exists pf, pfc. split; [exact E|]. cbn. repeat split; auto.
    intros id ph k v Hk. destruct k; cbn in Hk; try contradiction; reflexivity.
Qed.

Theorem link3_step_src sc nc X Y gX gY cX h t o X' out :
  Local X gX -> Local Y gY -> Local3 Y gY -> Link3 X Y cX gY ->
  good_block X h t o -> wstep_chain sc nc lh X Y h t o = (X', out) ->
  Link3 X' Y (gupd3 cX (w_chain X) o out) gY.
Proof.
  intros LX LY L3Y K3 GB H.
  assert (forall p ph nsr rl ch kk,
            out = Ok -> packet_of o = Some (OTimeoutOnClose1 p ph nsr rl) -> chan_conn (w_chain X) (p_sp p, p_sc p) = Some (ch, kk) ->
            k_client kk <> lh ->
            exists ver snap chd,
              In (ver, snap) (w_vers Y) /\ chans snap (p_dp p, p_dc p) = Some chd /\ c_state chd = ST_CLOSED /\
              ~ recvd (c_ord ch) snap (p_dp p, p_dc p, p_seq p)) as Htoc.
  { intros p ph nsr rl ch kk -> Hop Hcc Hne.
    destruct (wsc_effect_c _ _ _ _ _ _ _ _ _ _ H Hop) as [e [pf [pfc [Hs [Ets [Evn [Evm Evc]]]]]]]. cbn zeta in *.
    cbn [step] in Hs. unfold msg_timeout_on_close1 in Hs. apply msg_timeout1_gen_ok in Hs. destruct Hs as [c1 [a' [Ht _]]].
    apply timeout_on_close1_tao_ok in Ht. destruct Ht as [ch0 [k0 [Hch0 [Hdp [Hdc [Hk0 [_ [Hcl [Hun _]]]]]]]]]. cbn in Hch0, Hk0.
    unfold chan_conn in Hcc. rewrite Hch0 in Hcc. rewrite Hk0 in Hcc. injection Hcc as <- <-.
    set (me0 := mkW (set_block (w_chain X) h t) (w_clients X) (w_vers X) (w_hdrs X)) in *.
    assert (verify_unreceived (honest_env Y me0 pf lh sc nc) k0 ch0 p ph nsr = true) as Hun'.
    { unfold verify_unreceived in *. destruct (c_ord ch0).
      - destruct (p_seq p <? nsr); [discriminate|]. rewrite <- Evm; [exact Hun|exact I].
      - rewrite <- Evn. exact Hun. }
    destruct (honest_unreceived_at _ _ _ _ _ _ _ _ _ _ Hne Hun') as [t0 [ver [snap [Hca [Hv Hnr]]]]].
    rewrite Evc in Hcl. cbn in Hcl. apply honest_membership in Hcl; [|exact Hne].
    destruct Hcl as [t1 [ver1 [snap1 [v' [Hc1 [_ [Hs1 [Hl Hpv]]]]]]]].
    apply consulted_cons_at in Hc1. rewrite Hca in Hc1. injection Hc1 as <- <-.
    rewrite Hv in Hs1. injection Hs1 as <-.
    cbn in Hl. rewrite <- Hdp, <- Hdc in Hl.
    destruct (chans snap (p_dp p, p_dc p)) as [chd|] eqn:Ecd; [|discriminate]. cbn in Hl. injection Hl as <-.
    cbn in Hpv. exists ver, snap, chd. split; [now apply assocN_in|]. split; [exact Ecd|]. split; [|exact Hnr].
    eapply chanend_eqb_closed; [exact Hpv|reflexivity]. }
  constructor.
  - intros e He Hc. apply gupd3_in in He. destruct He as [Hold|(p & ph & nsr & rl & ch & kk & Ho & Hop & Hcc & ->)].
    + exact (k3_clog _ _ _ _ K3 _ Hold Hc).
    + cbn [ce_dst ce_ord ce_client fst] in *. destruct (Htoc _ _ _ _ _ _ Ho Hop Hcc Hc) as [ver [snap [chd [A [B [C D]]]]]].
      exists ver, snap, chd. auto.
  - intros e r He Hr Hce Hcr Ed Eo. apply gupd3_in in He.
    destruct He as [Hold|(p & ph & nsr & rl & ch & kk & Ho & Hop & Hcc & ->)].
    + exact (k3_excl _ _ _ _ K3 _ _ Hold Hr Hce Hcr Ed Eo).
    + cbn [ce_dst ce_ord ce_client] in *. destruct (Htoc _ _ _ _ _ _ Ho Hop Hcc Hce) as [ver [snap [chd [Hv [Hcd [Hcl Hnr]]]]]].
      destruct (l_rlog _ _ LY _ Hr) as [_ [_ [_ [_ Q5]]]].
      destruct (N.lt_ge_cases ver (ht (r_h r))) as [L|L].
      * refine (L3Y _ Hr _ _ _ Hv L _ Hcl). rewrite <- Ed. exact Hcd.
      * apply Hnr. rewrite Eo, Ed. eapply Q5; eauto.
Qed.

Theorem link3_step_dst sc nc X Y gY cX h t o Y' out :
  Local Y gY -> Link3 X Y cX gY ->
  good_block Y h t o -> wstep_chain sc nc lh Y X h t o = (Y', out) ->
  Link3 X Y' cX (gupd gY (w_chain Y) o h t out).
Proof.
  intros LY K3 GB H.
  destruct GB as [Hrev [Hht [Htime Hpo]]].
  destruct (wsc_effect _ _ _ _ _ _ _ _ _ _ H) as [Ev [Eh Eff]].
  constructor.
  - intros e He Hc. destruct (k3_clog _ _ _ _ K3 _ He Hc) as [ver [snap [ch [A B]]]].
    exists ver, snap, ch. split; [rewrite Ev; now right|exact B].
  - intros e r He Hr Hce Hcr Ed Eo. apply gupd_rlog in Hr.
    destruct Hr as [Hold|(p & ph & rl & ch & kk & Ho & Hop & Hcc & ->)].
    + exact (k3_excl _ _ _ _ K3 _ _ He Hold Hce Hcr Ed Eo).
    + cbn [r_dst r_ord r_client] in *. subst out.
      destruct (k3_clog _ _ _ _ K3 _ He Hce) as [ver [snap [chd [Hv [Hcd [Hcl _]]]]]].
      destruct (l_vers _ _ LY _ _ Hv) as [M _].
      destruct (m_chans _ _ M _ _ Hcd) as [ch' [Hch' [_ [_ [_ [_ Hc']]]]]].
      rewrite Hop in Eff. destruct Eff as [e0 Hs]. cbn [step] in Hs.
      apply msg_recv1_ok in Hs. destruct Hs as [c1 [Ht _]]. apply recv1_tao_ok in Ht.
      destruct Ht as [ch1 [k1 [Hch1 [Hopen _]]]]. cbn in Hch1. rewrite Ed in Hch'. cbn [fst] in Hch'.
      rewrite Hch' in Hch1. injection Hch1 as <-. rewrite (Hc' Hcl) in Hopen. discriminate.
Qed.

End Link3.

(** ** all three instrumentations together *)
Record IW3 := mkIW3 { iw2 : IW2; ca : list CEntry; cb : list CEntry }.

Definition istep3 (x : IW3) (s : WStep) : IW3 :=
  let w := iw (iw1 (iw2 x)) in
  let pre := w_chain (side_w w (ws_side s)) in
  let out := snd (wstep w (ws_side s) (ws_h s) (ws_t s) (ws_op s)) in
  match ws_side s with
  | SA => mkIW3 (istep2 (iw2 x) s) (gupd3 (ca x) pre (ws_op s) out) (cb x)
  | SB => mkIW3 (istep2 (iw2 x) s) (ca x) (gupd3 (cb x) pre (ws_op s) out)
  end.

Definition irun3 (x : IW3) (l : list WStep) : IW3 := fold_left istep3 l x.

Fixpoint good_steps3 (x : IW3) (l : list WStep) : Prop :=
  match l with [] => True | s :: l' => good_step (iw (iw1 (iw2 x))) s /\ good_steps3 (istep3 x s) l' end.

Record WI3 (x : IW3) : Prop := mkWI3 {
  wi3_v : WI2 (iw2 x);
  wi3_la : Local3 (wa (iw (iw1 (iw2 x)))) (ga (iw1 (iw2 x)));
  wi3_lb : Local3 (wb (iw (iw1 (iw2 x)))) (gb (iw1 (iw2 x)));
  wi3_ab : Link3 (w_lh (iw (iw1 (iw2 x)))) (wa (iw (iw1 (iw2 x)))) (wb (iw (iw1 (iw2 x)))) (ca x) (gb (iw1 (iw2 x)));
  wi3_ba : Link3 (w_lh (iw (iw1 (iw2 x)))) (wb (iw (iw1 (iw2 x)))) (wa (iw (iw1 (iw2 x)))) (cb x) (ga (iw1 (iw2 x))) }.

Theorem wi3_step x s : WI3 x -> good_step (iw (iw1 (iw2 x))) s -> WI3 (istep3 x s).
Proof.
  intros [I La Lb Kab Kba] G. pose proof (wi2_step _ _ I G) as I'.
  destruct I as [[L1a L1b K1ab K1ba] _ _ _ _].
  unfold istep3. destruct s as [side h t o]. cbn [ws_side ws_h ws_t ws_op] in *.
  unfold good_step in G. cbn [ws_side ws_h ws_t ws_op] in G.
  set (w := iw (iw1 (iw2 x))) in *.
  destruct side; cbn [side_w] in *.
  - constructor; cbn [iw2 ca cb]; [exact I'| | | |]; unfold istep2, istep; cbn [ws_side ws_h ws_t ws_op side_w iw1]; fold w; unfold wstep;
      destruct (wstep_chain (w_script w) (w_noncanon w) (w_lh w) (wa w) (wb w) h t o) as [a' out] eqn:E; cbn.
    + eapply local3_step; eauto.
    + exact Lb.
    + eapply link3_step_src; eauto.
    + eapply link3_step_dst; eauto.
  - constructor; cbn [iw2 ca cb]; [exact I'| | | |]; unfold istep2, istep; cbn [ws_side ws_h ws_t ws_op side_w iw1]; fold w; unfold wstep;
      destruct (wstep_chain (w_script w) (w_noncanon w) (w_lh w) (wb w) (wa w) h t o) as [b' out] eqn:E; cbn.
    + exact La.
    + eapply local3_step; eauto.
    + eapply link3_step_dst; eauto.
    + eapply link3_step_src; eauto.
Qed.

Theorem wi3_run x l : WI3 x -> good_steps3 x l -> WI3 (irun3 x l).
Proof.
  revert x; induction l as [|s l IH]; intros x I G; cbn [irun3 fold_left]; [exact I|].
  destruct G as [G1 G2]. apply IH; [now apply wi3_step|exact G2].
Qed.

(** an accepted MsgTimeoutOnClose for a packet on one chain and an accepted MsgRecvPacket under the packet's destination
    key (port, channel, sequence) on the other chain never both occur, in either order *)
Theorem timeout_on_close_excludes_receive x l :
  WI3 x -> good_steps3 x l ->
  let y := irun3 x l in
  let lh := w_lh (iw (iw1 (iw2 y))) in
  (forall e r, In e (ca y) -> In r (g_rlog (gb (iw1 (iw2 y)))) ->
     ce_client e <> lh -> r_client r <> lh -> ce_dst e = r_dst r -> ce_ord e = r_ord r -> False) /\
  (forall e r, In e (cb y) -> In r (g_rlog (ga (iw1 (iw2 y)))) ->
     ce_client e <> lh -> r_client r <> lh -> ce_dst e = r_dst r -> ce_ord e = r_ord r -> False).
Proof.
  intros I G y lh. pose proof (wi3_run _ _ I G) as [_ La Lb Kab Kba]. fold y in Kab, Kba. split.
  - intros e r He Hr. exact (k3_excl _ _ _ _ _ Kab e r He Hr).
  - intros e r He Hr. exact (k3_excl _ _ _ _ _ Kba e r He Hr).
Qed.

Theorem wi3_base w :
  base_chain (wa w) -> base_chain (wb w) -> base_clients (wa w) (wb w) -> base_clients (wb w) (wa w) ->
  WI3 (mkIW3 (mkIW2 (mkIW w ghost0 ghost0) ghost20 ghost20) [] []).
Proof.
  intros Fa Fb Ca Cb.
  constructor; cbn; auto using wi2_base.
  - intros r [].
  - intros r [].
  - constructor; cbn; tauto.
  - constructor; cbn; tauto.
Qed.

Lemma irun3_iw2 x l : iw2 (irun3 x l) = irun2 (iw2 x) l.
Proof.
  revert x; induction l as [|s l IH]; intros x; cbn [irun3 irun2 fold_left]; [reflexivity|].
  fold (irun3 (istep3 x s) l). fold (irun2 (istep2 (iw2 x) s) l). rewrite IH. f_equal.
  unfold istep3. destruct (ws_side s); reflexivity.
Qed.

(** ** non-vacuity: a run in which MsgTimeoutOnClose is accepted *)
Definition exc_packet : Packet1 := mkP1 1 1 10 1 20 2 (mkH 1 50) 0.
Definition exc_steps : list WStep :=
  [ mkWS SA (mkH 1 11) 1100 (WPacket (OSend1 1 10 (mkH 1 50) 0 2) PGarbage);
    mkWS SB (mkH 1 11) 1100 (WPacket (OCloseChan 1 20) PGarbage);
    mkWS SB (mkH 1 12) 1200 WEmpty;
    mkWS SA (mkH 1 12) 1300 (WUpdateClient 9 12);
    mkWS SA (mkH 1 13) 1400 (WPacketC (OTimeoutOnClose1 exc_packet (mkH 1 12) 1 0)
                               (PHonest 11 (KReceipt1 1 20 1)) (PHonest 11 (KChan 1 20))) ].

Definition exc0 : IW3 := mkIW3 (mkIW2 (mkIW exw ghost0 ghost0) ghost20 ghost20) [] [].

Example exc_wi : WI3 exc0.
Proof.
  apply wi3_base.
  - apply exw_base_chain.
  - apply exw_base_chain.
  - intros id cl [E|[]]. inversion E; subst. cbn. split; [reflexivity|]. intros hh t ver [E'|[]]. inversion E'; subst. cbn. auto.
  - intros id cl [E|[]]. inversion E; subst. cbn. split; [reflexivity|]. intros hh t ver [E'|[]]. inversion E'; subst. cbn. auto.
Qed.

Example exc_good : good_steps3 exc0 exc_steps.
Proof. vm_compute. repeat split; first [reflexivity | discriminate | exact I | (intro HH; discriminate HH)]. Qed.

Example exc_accepted : map ce_dst (ca (irun3 exc0 exc_steps)) = [(1, 20, 1)] /\ map ce_client (ca (irun3 exc0 exc_steps)) = [9].
Proof. vm_compute. split; reflexivity. Qed.
