(** The history invariant of the one-chain packet model and its consequences (C01, C03, C11, C14). *)
From IBC Require Import Lib.Bytes Lib.Dec Core.Height Core.HeightFacts Core.Chain Core.ChainFacts.
Local Open Scope N_scope.

Section Inv.
Context {A : Type}.
Notation Chain := (Chain A).
Notation Env := (Env A).
Implicit Types (c : Chain) (e : Env).

(** what one step adds, beyond the monotone facts of [Mono] *)
Record Frame c c' (new : list Event) : Prop := mkFrame {
  f_events : events c' = events c ++ new;
  f_com1 : forall p ch s v, com1 c' (p, ch, s) = Some v ->
             com1 c (p, ch, s) = Some v \/ (nsend c ch = Some s /\ nsend c' ch = Some (s + 1));
  f_com2 : forall id s v, com2 c' (id, s) = Some v ->
             com2 c (id, s) = Some v \/ (nsend c id = Some s /\ nsend c' id = Some (s + 1));
  f_ackc2 : forall k a, ackc2 c' k = Some a -> ackc2 c k = Some a \/ rcpt2 c' k = true;
  f_rnew : forall k, In k (rkeys new) -> ~ received c k /\ received c' k;
  f_tnew : forall k, In k (tkeys new) -> pending c k /\
             match k with T1 p ch s => com1 c' (p, ch, s) = None | T2 id s _ => com2 c' (id, s) = None end;
  f_rnodup : NoDup (rkeys new);
  f_tnodup : NoDup (tkeys new);
  f_closed : forall p ch s, In (EvTimeout1 p ch s) new ->
             exists en, chans c' (p, ch) = Some en /\ (c_ord en = ORDERED -> c_state en = ST_CLOSED) }.

(** a step that touches neither events nor commitments nor v2 acknowledgements *)
Lemma frame_quiet c c' :
  events c' = events c -> com1 c' = com1 c -> com2 c' = com2 c -> ackc2 c' = ackc2 c -> Frame c c' [].
Proof.
  intros He H1 H2 H3. constructor.
  - now rewrite He, app_nil_r.
  - intros. left. congruence.
  - intros. left. congruence.
  - intros. left. congruence.
  - cbn. tauto.
  - cbn. tauto.
  - constructor.
  - constructor.
  - cbn. tauto.
Qed.

Ltac upd_cases :=
  unfold upd in *;
  repeat match goal with
         | H : context [if ?b then _ else _] |- _ => let E := fresh "E" in destruct b eqn:E
         | |- context [if ?b then _ else _] => let E := fresh "E" in destruct b eqn:E
         end;
  repeat match goal with
         | H : k2_eqb _ _ = true |- _ => apply k2_eqb_eq in H
         | H : k3_eqb _ _ = true |- _ => apply k3_eqb_eq in H
         | H : ks_eqb _ _ = true |- _ => apply ks_eqb_eq in H
         | H : N.eqb _ _ = true |- _ => apply N.eqb_eq in H
         end.

Lemma send1_frame e c port chan th tmo data c' s : send1 e c port chan th tmo data = (c', Ok, s) -> Frame c c' [].
Proof.
  intros H. unfold send1 in H. repeat dmatch_in H; try discriminate. inversion H; subst; clear H.
  constructor.
  - cbn. now rewrite app_nil_r.
  - cbn. intros p ch s0 v Hc. upd_cases; auto.
    all: match goal with E : (_, _, _) = (_, _, _) |- _ => inversion E; subst end.
    all: try (right; split; [assumption|reflexivity]).
    all: match goal with E : (?x =? ?x) = false |- _ => rewrite N.eqb_refl in E; discriminate end.
  - cbn. auto.
  - cbn. auto.
  - cbn. tauto.
  - cbn. tauto.
  - constructor.
  - constructor.
  - cbn. tauto.
Qed.


(** generic closers for the fields a step leaves alone or only deletes from *)
Ltac frame_keep :=
  cbn; intros; upd_cases; subst; try discriminate; try congruence; auto.

Lemma not_received1_unordered c p ch s en :
  chans c (p, ch) = Some en -> c_ord en = UNORDERED -> rcpt1 c (p, ch, s) = false -> ~ received c (R1 p ch s).
Proof. intros He Ho Hr [en' [He' H]]. rewrite He in He'. inversion He'; subst. rewrite Ho in H. congruence. Qed.

Lemma not_received1_ordered c p ch s en :
  chans c (p, ch) = Some en -> c_ord en = ORDERED -> nrecv c (p, ch) = Some s -> ~ received c (R1 p ch s).
Proof.
  intros He Ho Hr [en' [He' H]]. rewrite He in He'. inversion He'; subst. rewrite Ho in H.
  destruct H as [nr [Hn L]]. rewrite Hr in Hn. inversion Hn; subst. lia.
Qed.

Lemma msg_recv1_frame e c p ph r c' :
  msg_recv1 e c p ph r = (c', Ok) -> Frame c c' [EvRecv1 (p_dp p) (p_dc p) (p_seq p)].
Proof.
  intros H. apply msg_recv1_ok in H. destruct H as [c1 [Ht [_ H]]]. cbn zeta in H.
  apply recv1_tao_ok in Ht. destruct Ht as [ch [k [Ech [Hst [_ [_ [_ [_ [_ [_ Hc1]]]]]]]]]].
  assert (exists c2, c' = c2 /\ events c2 = events c1 ++ [EvRecv1 (p_dp p) (p_dc p) (p_seq p)] /\
            com1 c2 = com1 c1 /\ com2 c2 = com2 c1 /\ ackc2 c2 = ackc2 c1 /\ chans c2 = chans c1 /\
            rcpt1 c2 = rcpt1 c1 /\ nrecv c2 = nrecv c1) as [c2 [-> [Hev [H1 [H2 [H3 [H4 [H5 H6]]]]]]]].
  { destruct (e_recv1 e (app c1) p r) as [a' [[[] bz]|]]; cbn [fst snd] in H.
    - apply write_ack1_ok in H. destruct H as [_ [_ ->]]. eexists; split; [reflexivity|]. cbn. auto 10.
    - apply write_ack1_ok in H. destruct H as [_ [_ ->]]. eexists; split; [reflexivity|]. cbn. auto 10.
    - subst c'. eexists; split; [reflexivity|]. cbn. auto 10. }
  assert (events c1 = events c /\ com1 c1 = com1 c /\ com2 c1 = com2 c /\ ackc2 c1 = ackc2 c /\ chans c1 = chans c) as [G0 [G1 [G2 [G3 G4]]]].
  { destruct Hc1 as [[_ [_ ->]]|[_ [_ ->]]]; cbn; auto. }
  constructor.
  - now rewrite Hev, G0.
  - intros. left. congruence.
  - intros. left. congruence.
  - intros. left. congruence.
  - cbn. intros k0 [<-|[]].
    destruct Hc1 as [[Ho [Hr ->]]|[Ho [Hn ->]]].
    + split; [eapply not_received1_unordered; eauto|].
      cbn. exists ch. rewrite H4. cbn. split; [exact Ech|]. rewrite Ho, H5. cbn. apply upd_same, k3_eqb_refl.
    + split; [eapply not_received1_ordered; eauto|].
      cbn. exists ch. rewrite H4. cbn. split; [exact Ech|]. rewrite Ho, H6. cbn.
      exists (p_seq p + 1). split; [apply upd_same, k2_eqb_refl|lia].
  - cbn. tauto.
  - cbn. constructor; [cbn; tauto|constructor].
  - constructor.
  - cbn. intros p0 ch0 s0 [E|[]]. discriminate.
Qed.

Lemma write_ack1_frame c p bz c' : write_ack1 c p bz = (c', Ok) -> Frame c c' [].
Proof. intros H. apply write_ack1_ok in H. destruct H as [_ [_ ->]]. apply frame_quiet; reflexivity. Qed.

Lemma msg_ack1_frame e c p ack ph r c' :
  msg_ack1 e c p ack ph r = (c', Ok) -> Frame c c' [EvAck1 (p_sp p) (p_sc p) (p_seq p) ack].
Proof.
  intros H. apply msg_ack1_ok in H. destruct H as [c1 [a' [Ht [_ [_ [_ ->]]]]]].
  pose proof (ack1_tao_ok _ _ _ _ _ _ Ht) as [ch [k [Ech [_ [_ [_ [_ [_ [Hcm _]]]]]]]]].
  apply ack1_tao_state in Ht. destruct Ht as [ch' [Ech' ->]]. rewrite Ech in Ech'. inversion Ech'; subst ch'.
  constructor.
  - destruct (c_ord ch); reflexivity.
  - destruct (c_ord ch); frame_keep.
  - destruct (c_ord ch); frame_keep.
  - destruct (c_ord ch); frame_keep.
  - cbn. tauto.
  - cbn. intros k0 [<-|[]]. split; [cbn; congruence|]. destruct (c_ord ch); cbn; apply upd_same, k3_eqb_refl.
  - constructor.
  - cbn. constructor; [cbn; tauto|constructor].
  - cbn. intros p0 ch0 s0 [E|[]]. discriminate.
Qed.

Lemma msg_timeout1_gen_frame tao e c p nsr r c' ch :
  (exists c1, tao = (c1, Ok) /\ c1 = timeout_executed c ch p) ->
  chans c (p_sp p, p_sc p) = Some ch -> com1 c (p_sp p, p_sc p, p_seq p) = Some (commit1 p) ->
  msg_timeout1_gen tao e c p nsr r = (c', Ok) -> Frame c c' [EvTimeout1 (p_sp p) (p_sc p) (p_seq p)].
Proof.
  intros [c1 [-> ->]] Ech Hcm H. apply msg_timeout1_gen_ok in H.
  destruct H as [c1' [a' [E [_ [_ [_ ->]]]]]]. inversion E; subst c1'. clear E.
  unfold timeout_executed.
  constructor.
  - destruct (c_ord ch); reflexivity.
  - destruct (c_ord ch); frame_keep.
  - destruct (c_ord ch); frame_keep.
  - destruct (c_ord ch); frame_keep.
  - cbn. tauto.
  - cbn. intros k0 [<-|[]]. split; [cbn; congruence|]. destruct (c_ord ch); cbn; apply upd_same, k3_eqb_refl.
  - constructor.
  - cbn. constructor; [cbn; tauto|constructor].
  - cbn. intros p0 ch0 s0 [E|[]]. inversion E; subst.
    destruct (c_ord ch) eqn:Eo; cbn.
    + rewrite upd_same by apply k2_eqb_refl. eexists. split; [reflexivity|]. cbn. auto.
    + exists ch. split; [exact Ech|]. congruence.
Qed.

Lemma msg_timeout1_frame e c p ph nsr r c' :
  msg_timeout1 e c p ph nsr r = (c', Ok) -> Frame c c' [EvTimeout1 (p_sp p) (p_sc p) (p_seq p)].
Proof.
  unfold msg_timeout1. intros H.
  destruct (msg_timeout1_gen_ok _ _ _ _ _ _ _ H) as [c1 [a' [Ht _]]].
  apply timeout1_tao_ok in Ht as Hk. destruct Hk as [ch [k [pts [Ech [_ [_ [_ [_ [_ [Hcm [_ Hc1]]]]]]]]]]].
  eapply msg_timeout1_gen_frame; eauto.
Qed.

Lemma msg_timeout_on_close1_frame e c p ph nsr r c' :
  msg_timeout_on_close1 e c p ph nsr r = (c', Ok) -> Frame c c' [EvTimeout1 (p_sp p) (p_sc p) (p_seq p)].
Proof.
  unfold msg_timeout_on_close1. intros H.
  destruct (msg_timeout1_gen_ok _ _ _ _ _ _ _ H) as [c1 [a' [Ht _]]].
  apply timeout_on_close1_tao_ok in Ht as Hk. destruct Hk as [ch [k [Ech [_ [_ [_ [Hcm [_ [_ Hc1]]]]]]]]].
  eapply msg_timeout1_gen_frame; eauto.
Qed.


Lemma msg_send2_frame e c src tmo pay sg c' s :
  msg_send2 e c src tmo pay sg = (c', Ok, s) -> exists new, Frame c c' new /\ rkeys new = [] /\ tkeys new = [].
Proof.
  unfold msg_send2. intros H.
  destruct ((tmo =? 0) || _ || _); [discriminate|].
  destruct (send2_tao e c src tmo pay) as [[[c1 o1] s1] d1] eqn:Et. destruct o1; try discriminate.
  destruct (send2_callbacks e (app c1) src d1 s1 sg 0 pay) as [[a' evs]|] eqn:Ecb; [|discriminate].
  inversion H; subst. apply send2_callbacks_keys in Ecb. destruct Ecb as [Kt Kr].
  apply send2_tao_ok in Et. destruct Et as [_ [Hns [_ [_ [_ [_ [_ [_ ->]]]]]]]].
  exists evs. split; [|auto]. constructor.
  - reflexivity.
  - frame_keep.
  - cbn. intros id s0 v Hc. upd_cases; auto.
    all: match goal with E : (_, _) = (_, _) |- _ => inversion E; subst end.
    all: try (right; split; [assumption|reflexivity]).
    all: match goal with E : (?x =? ?x) = false |- _ => rewrite N.eqb_refl in E; discriminate end.
  - frame_keep.
  - rewrite Kr. cbn. tauto.
  - rewrite Kt. cbn. tauto.
  - rewrite Kr. constructor.
  - rewrite Kt. constructor.
  - intros p ch s0 Hin. exfalso. assert (In (T1 p ch s0) (tkeys evs)) as Hk.
    { unfold tkeys. apply in_flat_map. exists (EvTimeout1 p ch s0). split; [exact Hin|cbn; auto]. }
    rewrite Kt in Hk. exact Hk.
Qed.

Lemma in_map_R2 id s k m idx : In k (map (R2 id s) (seqN idx m)) -> exists i, k = R2 id s i.
Proof. intros H. apply in_map_iff in H as [i [<- _]]. eauto. Qed.
Lemma in_map_T2 id s k m idx : In k (map (T2 id s) (seqN idx m)) -> exists i, k = T2 id s i.
Proof. intros H. apply in_map_iff in H as [i [<- _]]. eauto. Qed.

Lemma no_timeout1_in evs p ch s : (forall k, In k (tkeys evs) -> exists id s' i, k = T2 id s' i) -> ~ In (EvTimeout1 p ch s) evs.
Proof.
  intros Hk Hin. assert (In (T1 p ch s) (tkeys evs)) as H.
  { unfold tkeys. apply in_flat_map. exists (EvTimeout1 p ch s). split; [exact Hin|cbn; auto]. }
  apply Hk in H. destruct H as [? [? [? H]]]. discriminate.
Qed.

Lemma msg_recv2_frame e c q ph r c' :
  msg_recv2 e c q ph r = (c', Ok) -> exists new, Frame c c' new.
Proof.
  unfold msg_recv2. intros H.
  destruct (packet2_valid q); cbn [negb] in H; [|discriminate].
  destruct (recv2_tao e c q ph) as [c1 o1] eqn:Et. destruct o1; try discriminate.
  apply recv2_tao_ok in Et. destruct Et as [_ [_ [Hr [_ ->]]]].
  destruct (recv2_loop _ _ _ _ _ _ _) as [st|] eqn:El; [|discriminate].
  apply recv2_loop_keys in El. destruct El as [m [_ [Kr Kt]]]. cbn [l_evs rkeys tkeys flat_map app] in Kr, Kt.
  exists (l_evs st).
  set (c1 := set_rcpt2 c (upd ks_eqb (rcpt2 c) (q_dst q, q_seq q) true)) in *.
  set (c2 := add_events (if l_success st then set_app c1 (l_app st) else c1) (l_evs st)) in *.
  assert (events c2 = events c ++ l_evs st /\ com1 c2 = com1 c /\ com2 c2 = com2 c /\ ackc2 c2 = ackc2 c /\
          rcpt2 c2 = upd ks_eqb (rcpt2 c) (q_dst q, q_seq q) true /\ chans c2 = chans c) as [G0 [G1 [G2 [G3 [G4 G5]]]]].
  { subst c2 c1. destruct (l_success st); cbn; auto 10. }
  assert (exists c3, c' = c3 /\ events c3 = events c2 /\ com1 c3 = com1 c2 /\ com2 c3 = com2 c2 /\ rcpt2 c3 = rcpt2 c2 /\
            chans c3 = chans c2 /\
            (forall k a, ackc2 c3 k = Some a -> ackc2 c2 k = Some a \/ k = (q_dst q, q_seq q))) as [c3 [-> [J0 [J1 [J2 [J4 [J5 J3]]]]]]].
  { destruct (l_async st).
    - inversion H; subst. eexists; split; [reflexivity|]. cbn. auto 10.
    - destruct (negb (Bool.eqb _ _)); [discriminate|].
      destruct (write_ack2 c2 q (l_acks st)) as [c4 o4] eqn:Ew. destruct o4; try discriminate. inversion H; subst.
      apply write_ack2_ok in Ew. destruct Ew as [_ [_ [_ [_ [_ ->]]]]].
      eexists; split; [reflexivity|]. cbn. repeat split; auto. intros k a Hk. upd_cases; auto. }
  constructor.
  - now rewrite J0, G0.
  - intros. left. congruence.
  - intros. left. congruence.
  - intros k a Hk. destruct (J3 _ _ Hk) as [Ho| ->]; [left; congruence|].
    right. rewrite J4, G4. apply upd_same, ks_eqb_refl.
  - rewrite Kr. intros k Hin. apply in_map_R2 in Hin. destruct Hin as [i ->]. cbn. split; [congruence|].
    rewrite J4, G4. apply upd_same, ks_eqb_refl.
  - rewrite Kt. cbn. tauto.
  - rewrite Kr. apply nodup_map_inj; [intros a b E; now inversion E|apply seqN_nodup].
  - rewrite Kt. constructor.
  - intros p ch s Hin. exfalso. eapply no_timeout1_in; [|exact Hin]. rewrite Kt. cbn. tauto.
Qed.

Lemma async_ack2_frame c id seq acks c' : async_ack2 c id seq acks = (c', Ok) -> Frame c c' [].
Proof.
  unfold async_ack2. intros H.
  destruct (asyn2 c (id, seq)) as [q|]; [|discriminate].
  destruct (write_ack2 c q acks) as [c1 o1] eqn:Ew. destruct o1; try discriminate. inversion H; subst.
  apply write_ack2_ok in Ew. destruct Ew as [_ [_ [_ [_ [Hr ->]]]]].
  constructor.
  - cbn. now rewrite app_nil_r.
  - frame_keep.
  - frame_keep.
  - cbn. intros k a Hk. upd_cases; auto. subst. auto.
  - cbn. tauto.
  - cbn. tauto.
  - constructor.
  - constructor.
  - cbn. tauto.
Qed.

Lemma term2_frame c q a' evs :
  com2 c (q_src q, q_seq q) = Some (commit2 q) ->
  tkeys evs = map (T2 (q_src q) (q_seq q)) (seqN 0 (length (q_pay q))) -> rkeys evs = [] ->
  Frame c (add_events (set_app (set_com2 c (upd ks_eqb (com2 c) (q_src q, q_seq q) None)) a') evs) evs.
Proof.
  intros Hcm Kt Kr. constructor.
  - reflexivity.
  - frame_keep.
  - frame_keep.
  - frame_keep.
  - rewrite Kr. cbn. tauto.
  - rewrite Kt. intros k Hin. apply in_map_T2 in Hin. destruct Hin as [i ->]. cbn. split; [congruence|].
    apply upd_same, ks_eqb_refl.
  - rewrite Kr. constructor.
  - rewrite Kt. apply nodup_map_inj; [intros x y E; now inversion E|apply seqN_nodup].
  - intros p ch s Hin. exfalso. eapply no_timeout1_in; [|exact Hin]. rewrite Kt. intros k Hk.
    apply in_map_T2 in Hk. destruct Hk as [i ->]. eauto.
Qed.

Lemma msg_ack2_frame e c q acks ph r c' : msg_ack2 e c q acks ph r = (c', Ok) -> exists new, Frame c c' new.
Proof.
  unfold msg_ack2. intros H.
  destruct (ack2_valid acks); cbn [negb] in H; [|discriminate].
  destruct (packet2_valid q); cbn [negb] in H; [|discriminate].
  destruct (ack2_tao e c q acks ph) as [c1 o1] eqn:Et. destruct o1; try discriminate.
  apply ack2_tao_ok in Et. destruct Et as [_ [Hcm [_ ->]]].
  destruct (ack2_callbacks _ _ _ _ _ _ _ _ _) as [[o2 a'] evs] eqn:Ecb. destruct o2; try discriminate.
  inversion H; subst. apply ack2_callbacks_keys in Ecb. destruct Ecb as [Kt Kr]. cbn in Kt, Kr.
  exists evs. now apply term2_frame.
Qed.

Lemma msg_timeout2_frame e c q ph r c' : msg_timeout2 e c q ph r = (c', Ok) -> exists new, Frame c c' new.
Proof.
  unfold msg_timeout2. intros H.
  destruct (packet2_valid q); cbn [negb] in H; [|discriminate].
  destruct (timeout2_tao e c q ph) as [c1 o1] eqn:Et. destruct o1; try discriminate.
  apply timeout2_tao_ok in Et. destruct Et as [_ [_ [Hcm [_ ->]]]].
  destruct (timeout2_callbacks _ _ _ _ _ _ _) as [[a' evs]|] eqn:Ecb; [|discriminate].
  inversion H; subst. apply timeout2_callbacks_keys in Ecb. destruct Ecb as [Kt Kr]. cbn in Kt, Kr.
  exists evs. now apply term2_frame.
Qed.

Lemma close_chan_frame c port chan c' : close_chan c port chan = (c', Ok) -> Frame c c' [].
Proof.
  unfold close_chan. intros H. repeat dmatch_in H; try discriminate. inversion H; subst.
  apply frame_quiet; reflexivity.
Qed.

Theorem step_frame e c o c' : step e c o = (c', Ok) -> exists new, Frame c c' new.
Proof.
  destruct o; cbn [step]; intros H.
  - destruct (send1 e c port chan th tmo data) as [[c1 o1] s1] eqn:E. inversion H; subst. eexists. eapply send1_frame; eauto.
  - eexists. eapply msg_recv1_frame; eauto.
  - eexists. eapply msg_ack1_frame; eauto.
  - eexists. eapply msg_timeout1_frame; eauto.
  - eexists. eapply msg_timeout_on_close1_frame; eauto.
  - eexists. eapply write_ack1_frame; eauto.
  - destruct (msg_send2 e c src tmo pay signer) as [[c1 o1] s1] eqn:E. inversion H; subst.
    apply msg_send2_frame in E. destruct E as [new [F _]]. eauto.
  - eapply msg_recv2_frame; eauto.
  - eapply msg_ack2_frame; eauto.
  - eapply msg_timeout2_frame; eauto.
  - eexists. eapply async_ack2_frame; eauto.
  - inversion H; subst. eexists. apply frame_quiet; reflexivity.
  - eexists. eapply close_chan_frame; eauto.
Qed.


(** ** The history invariant *)
Record Inv c : Prop := mkInv {
  i_recv : forall k, In k (rkeys (events c)) -> received c k;
  i_rnodup : NoDup (rkeys (events c));
  i_term : forall k, In k (tkeys (events c)) -> finished c k;
  i_tnodup : NoDup (tkeys (events c));
  i_com1 : forall p ch s v, com1 c (p, ch, s) = Some v -> exists n, nsend c ch = Some n /\ s < n;
  i_com2 : forall id s v, com2 c (id, s) = Some v -> exists n, nsend c id = Some n /\ s < n;
  i_ack2 : forall k a, ackc2 c k = Some a -> rcpt2 c k = true;
  i_closed : forall p ch s, In (EvTimeout1 p ch s) (events c) ->
             exists en, chans c (p, ch) = Some en /\ (c_ord en = ORDERED -> c_state en = ST_CLOSED) }.

(** every state without callback history and without commitments and v2 acknowledgements satisfies it:
    in particular a chain right after genesis or after channel handshakes *)
Lemma inv_fresh c :
  events c = [] -> (forall k, com1 c k = None) -> (forall k, com2 c k = None) -> (forall k, ackc2 c k = None) -> Inv c.
Proof.
  intros He H1 H2 H3. constructor; rewrite ?He; cbn; try tauto; try constructor; intros; congruence.
Qed.

Lemma nodup_app {X} (a b : list X) : NoDup a -> NoDup b -> (forall x, In x a -> In x b -> False) -> NoDup (a ++ b).
Proof.
  induction 1 as [|x a Hn Hd IH]; cbn; intros Hb Hdis; [exact Hb|].
  constructor.
  - rewrite in_app_iff. intros [H|H]; [contradiction|]. eapply Hdis; [left; reflexivity|exact H].
  - apply IH; [exact Hb|]. intros y Ha Hy. eapply Hdis; [right; exact Ha|exact Hy].
Qed.

Lemma finished_step c c' new k : Mono c c' -> Frame c c' new -> finished c k -> finished c' k.
Proof.
  intros M F. destruct k as [p ch s|id s i]; cbn; intros [Hn [n [Hs L]]].
  - destruct (m_nsend _ _ M _ _ Hs) as [n' [Hs' L']]. split; [|exists n'; split; [exact Hs'|lia]].
    destruct (com1 c' (p, ch, s)) as [v|] eqn:E; [|reflexivity].
    destruct (f_com1 _ _ _ F _ _ _ _ E) as [Ho|[Hf _]]; [congruence|]. rewrite Hs in Hf. inversion Hf; subst. lia.
  - destruct (m_nsend _ _ M _ _ Hs) as [n' [Hs' L']]. split; [|exists n'; split; [exact Hs'|lia]].
    destruct (com2 c' (id, s)) as [v|] eqn:E; [|reflexivity].
    destruct (f_com2 _ _ _ F _ _ _ E) as [Ho|[Hf _]]; [congruence|]. rewrite Hs in Hf. inversion Hf; subst. lia.
Qed.

Lemma pending_finished c k : Inv c -> pending c k -> finished c k -> False.
Proof. destruct k; cbn; intros _ Hp [Hn _]; congruence. Qed.

Lemma in_tkeys_timeout1 p ch s evs : In (EvTimeout1 p ch s) evs -> In (T1 p ch s) (tkeys evs).
Proof. intros H. unfold tkeys. apply in_flat_map. exists (EvTimeout1 p ch s). split; [exact H|cbn; auto]. Qed.

Theorem inv_step e c o c' out : Inv c -> step e c o = (c', out) -> Inv c'.
Proof.
  intros I H. destruct out; try (rewrite (step_not_ok_same _ _ _ _ _ H) by discriminate; exact I).
  pose proof (step_mono _ _ _ _ _ H) as M. apply step_frame in H. destruct H as [new F].
  destruct I as [I1 I2 I3 I4 I5 I6 I7 I8].
  constructor.
  - rewrite (f_events _ _ _ F), rkeys_app. intros k Hin. apply in_app_iff in Hin as [Ho|Hn].
    + eapply received_mono; eauto.
    + apply (f_rnew _ _ _ F _ Hn).
  - rewrite (f_events _ _ _ F), rkeys_app. apply nodup_app; [exact I2|apply (f_rnodup _ _ _ F)|].
    intros k Ho Hn. destruct (f_rnew _ _ _ F _ Hn) as [Hnot _]. apply Hnot. auto.
  - rewrite (f_events _ _ _ F), tkeys_app. intros k Hin. apply in_app_iff in Hin as [Ho|Hn].
    + eapply finished_step; eauto.
    + destruct (f_tnew _ _ _ F _ Hn) as [Hp Hc]. destruct k as [p ch s|id s i]; cbn in *.
      * destruct (com1 c (p, ch, s)) as [v|] eqn:E; [|congruence].
        destruct (I5 _ _ _ _ E) as [n [Hs L]]. destruct (m_nsend _ _ M _ _ Hs) as [n' [Hs' L']].
        split; [exact Hc|exists n'; split; [exact Hs'|lia]].
      * destruct (com2 c (id, s)) as [v|] eqn:E; [|congruence].
        destruct (I6 _ _ _ E) as [n [Hs L]]. destruct (m_nsend _ _ M _ _ Hs) as [n' [Hs' L']].
        split; [exact Hc|exists n'; split; [exact Hs'|lia]].
  - rewrite (f_events _ _ _ F), tkeys_app. apply nodup_app; [exact I4|apply (f_tnodup _ _ _ F)|].
    intros k Ho Hn. destruct (f_tnew _ _ _ F _ Hn) as [Hp _]. apply I3 in Ho.
    destruct k; cbn in *; destruct Ho; congruence.
  - intros p ch s v Hc. destruct (f_com1 _ _ _ F _ _ _ _ Hc) as [Ho|[Hf Hf']].
    + destruct (I5 _ _ _ _ Ho) as [n [Hs L]]. destruct (m_nsend _ _ M _ _ Hs) as [n' [Hs' L']]. exists n'. split; [exact Hs'|lia].
    + exists (s + 1). split; [exact Hf'|lia].
  - intros id s v Hc. destruct (f_com2 _ _ _ F _ _ _ Hc) as [Ho|[Hf Hf']].
    + destruct (I6 _ _ _ Ho) as [n [Hs L]]. destruct (m_nsend _ _ M _ _ Hs) as [n' [Hs' L']]. exists n'. split; [exact Hs'|lia].
    + exists (s + 1). split; [exact Hf'|lia].
  - intros k a Hk. destruct (f_ackc2 _ _ _ F _ _ Hk) as [Ho|Hr]; [|exact Hr].
    apply (m_rcpt2 _ _ M). eapply I7; eauto.
  - rewrite (f_events _ _ _ F). intros p ch s Hin. apply in_app_iff in Hin as [Ho|Hn].
    + destruct (I8 _ _ _ Ho) as [en [He Hcl]]. destruct (m_chans _ _ M _ _ He) as [en' [He' [Ho' [_ [_ [_ Hst]]]]]].
      exists en'. split; [exact He'|]. intros Hord. apply Hst, Hcl. congruence.
    + apply (f_closed _ _ _ F _ _ _ Hn).
Qed.

Theorem inv_run c hist : Inv c -> Inv (run c hist).
Proof.
  revert c; induction hist as [|[e o] hist IH]; intros c I; cbn [run fold_left]; [exact I|].
  apply IH. destruct (step e c o) as [c1 o1] eqn:E. cbn [fst snd]. rewrite E. cbn [fst]. eapply inv_step; eauto.
Qed.

End Inv.
