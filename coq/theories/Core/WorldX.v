(** C01, cross-version clause: a (channel, sequence) of the sending chain is delivered at most once across IBC v1 and
    IBC v2 over the channel's alias.  The two receipt key spaces on the destination are disjoint, so the argument is on
    the sending side: v1 and v2 sends share one nextSequenceSend counter per identifier, hence at most one of the two
    commitments (v1 under (port, channel, seq), v2 under (channel-as-client, seq)) is ever written, and every accepted
    receive proves one of them ([k_prov], [k2_prov]). *)
From IBC Require Import Lib.Bytes Lib.Dec Core.Height Core.HeightFacts Core.Chain Core.ChainFacts Core.ChainInv
  Core.ChainThms Core.World Core.WorldFacts Core.WorldInv Core.WorldInv2 Core.WorldInv3 Core.WorldThm Core.WorldV2.
Local Open Scope N_scope.

(** of the two commitments that could carry (identifier, sequence), at most one was ever written *)
Definition Excl (g : Ghost) (h : Ghost2) : Prop :=
  forall p ch s v w, g_ever g (p, ch, s) = Some v -> h_ever h (ch, s) = Some w -> False.

Theorem excl_step sc nc lh Z other g h2 h t o Z' out :
  Local Z g -> Local2 Z h2 -> Excl g h2 -> wstep_chain sc nc lh Z other h t o = (Z', out) ->
  Excl (gupd g (w_chain Z) o h t out) (gupd2 h2 (w_chain Z) o h t out).
Proof.
  intros L L2 X H p ch s v w Hg Hh.
  apply gupd_ever in Hg. apply gupd2_ever in Hh.
  destruct Hg as [Hg|(port & chan & th & tmo & data & seq & che & Ho & Hop & Hn & Hc & Hk & Hv)];
  destruct Hh as [Hh|(src & tmo2 & pay & sg & seq2 & dst & Ho2 & Hop2 & Hn2 & Hcp & Hk2 & Hv2)].
  - exact (X _ _ _ _ _ Hg Hh).
  - (* a v2 send now, a v1 commitment earlier under the same (identifier, sequence): the counter was already past it *)
    injection Hk2 as -> ->. destruct (l_ever_lt _ _ L _ _ _ _ Hg) as [n [Hn L']]. rewrite Hn2 in Hn. injection Hn as <-. lia.
  - injection Hk as -> -> ->. destruct (l2_ever_lt _ _ L2 _ _ _ Hh) as [n [Hn' L']]. rewrite Hn in Hn'. injection Hn' as <-. lia.
  - (* one operation is either a v1 send or a v2 send *)
    rewrite Hop in Hop2. discriminate.
Qed.

Record WIX (x : IW2) : Prop := mkWIX {
  wix_v : WI2 x;
  wix_a : Excl (ga (iw1 x)) (ha x);
  wix_b : Excl (gb (iw1 x)) (hb x) }.

Theorem wix_step x s : WIX x -> good_step (iw (iw1 x)) s -> WIX (istep2 x s).
Proof.
  intros [I Xa Xb] G. pose proof (wi2_step _ _ I G) as I'.
  destruct I as [[L1a L1b _ _] L2a L2b _ _].
  constructor; [exact I'| |];
    unfold istep2, istep; destruct s as [side h t o]; cbn [ws_side ws_h ws_t ws_op] in *;
    set (w := iw (iw1 x)) in *; destruct side; cbn [side_w iw1 ha hb]; unfold wstep.
  - destruct (wstep_chain (w_script w) (w_noncanon w) (w_lh w) (wa w) (wb w) h t o) as [a' out] eqn:E. cbn.
    eapply excl_step; eauto.
  - destruct (wstep_chain (w_script w) (w_noncanon w) (w_lh w) (wb w) (wa w) h t o) as [b' out] eqn:E. cbn. exact Xa.
  - destruct (wstep_chain (w_script w) (w_noncanon w) (w_lh w) (wa w) (wb w) h t o) as [a' out] eqn:E. cbn. exact Xb.
  - destruct (wstep_chain (w_script w) (w_noncanon w) (w_lh w) (wb w) (wa w) h t o) as [b' out] eqn:E. cbn.
    eapply excl_step; eauto.
Qed.

Theorem wix_run x l : WIX x -> good_steps2 x l -> WIX (irun2 x l).
Proof.
  revert x; induction l as [|s l IH]; intros x I G; cbn [irun2 fold_left]; [exact I|].
  destruct G as [G1 G2]. apply IH; [now apply wix_step|exact G2].
Qed.

(** a v1 receive and a v2 receive (over remote clients) never both deliver the same (source channel, sequence) *)
Theorem one_delivery_across_versions x l :
  WIX x -> good_steps2 x l ->
  let y := irun2 x l in
  let lh := w_lh (iw (iw1 y)) in
  (forall r r2, In r (g_rlog (gb (iw1 y))) -> In r2 (h_rlog (hb y)) -> r_client r <> lh -> r2_client r2 <> lh ->
     snd (fst (r_src r)) = fst (r2_src r2) -> snd (r_src r) = snd (r2_src r2) -> False) /\
  (forall r r2, In r (g_rlog (ga (iw1 y))) -> In r2 (h_rlog (ha y)) -> r_client r <> lh -> r2_client r2 <> lh ->
     snd (fst (r_src r)) = fst (r2_src r2) -> snd (r_src r) = snd (r2_src r2) -> False).
Proof.
  intros I G y lh. pose proof (wix_run _ _ I G) as [[[_ _ K1ab K1ba] _ _ K2ab K2ba] Xa Xb].
  fold y in K1ab, K1ba, K2ab, K2ba, Xa, Xb. split.
  - intros r r2 Hr Hr2 Hc Hc2 E1 E2.
    pose proof (k_prov _ _ _ _ _ K1ab r Hr Hc) as P1. pose proof (k2_prov _ _ _ _ _ K2ab r2 Hr2 Hc2) as P2.
    destruct (r_src r) as [[p ch] s]. destruct (r2_src r2) as [id s2]. cbn in E1, E2. subst id s2.
    exact (Xa _ _ _ _ _ P1 P2).
  - intros r r2 Hr Hr2 Hc Hc2 E1 E2.
    pose proof (k_prov _ _ _ _ _ K1ba r Hr Hc) as P1. pose proof (k2_prov _ _ _ _ _ K2ba r2 Hr2 Hc2) as P2.
    destruct (r_src r) as [[p ch] s]. destruct (r2_src r2) as [id s2]. cbn in E1, E2. subst id s2.
    exact (Xb _ _ _ _ _ P1 P2).
Qed.

Theorem wix_base w :
  base_chain (wa w) -> base_chain (wb w) -> base_clients (wa w) (wb w) -> base_clients (wb w) (wa w) ->
  WIX (mkIW2 (mkIW w ghost0 ghost0) ghost20 ghost20).
Proof.
  intros Fa Fb Ca Cb. constructor; [now apply wi2_base| |]; intros p ch s v w0 H; discriminate H.
Qed.

(** ** non-vacuity: v1 and v2-over-alias traffic on one channel, both delivered, with different sequences *)
Definition exx_chain (cp : Id) (me_chan cp_chan conn client : Id) : ChainS :=
  mkChain AppSt (fun k => if k2_eqb k (1, me_chan) then Some (mkChan ST_OPEN UNORDERED 1 cp_chan conn 7) else None)
    (fun k => if k =? conn then Some (mkConn true client cp) else None) (fun p => p =? 1)
    (fun i => if i =? me_chan then Some 1 else None) (fun _ => None) (fun _ => None)
    (fun _ => None) (fun _ => false) (fun _ => None) (fun _ => None) (fun _ => false) (fun _ => None) (fun _ => None)
    (fun i => if i =? me_chan then Some cp_chan else None) (fun i => if i =? me_chan then Some client else None)
    0 (mkH 1 10) 1000 [].

Definition exx : World :=
  mkWorld (mkW (exx_chain 6 10 20 5 9) [(9, exv_client)] [] [(10, 1000)])
          (mkW (exx_chain 5 20 10 6 8) [(8, exv_client)] [] [(10, 1000)])
          (mkScript (fun _ => 0) (fun _ => RSuccess) (fun _ => 2) (fun _ => false)) (fun _ => false) 99.

Definition exx_p1 : Packet1 := mkP1 1 1 10 1 20 2 (mkH 1 50) 0.
Definition exx_q2 : Packet2 := mkP2 2 10 20 1 [exv_pay].

Definition exx_steps : list WStep :=
  [ mkWS SA (mkH 1 11) 1100 (WPacket (OSend1 1 10 (mkH 1 50) 0 2) PGarbage);
    mkWS SA (mkH 1 12) 1200 (WPacket (OSend2 10 1 [exv_pay] 0) PGarbage);
    mkWS SA (mkH 1 13) 1300 WEmpty;
    mkWS SB (mkH 1 11) 1400 (WUpdateClient 8 13);
    mkWS SB (mkH 1 12) 1500 (WPacket (ORecv1 exx_p1 (mkH 1 13) 0) (PHonest 12 (KCommit1 1 10 1)));
    mkWS SB (mkH 1 13) 1600 (WPacket (ORecv2 exx_q2 (mkH 1 13) 0) (PHonest 12 (KCommit2 10 2))) ].

Definition exx0 : IW2 := mkIW2 (mkIW exx ghost0 ghost0) ghost20 ghost20.

Lemma exx_base_chain cp a b c d : base_chain (mkW (exx_chain cp a b c d) [(d, exv_client)] [] [(10, 1000)]).
Proof.
  unfold base_chain. cbn. repeat split; try reflexivity.
  - destruct H as [E|[]]. inversion E; subst. lia.
  - destruct H as [E|[]]. inversion E; subst. lia.
  - destruct H as [E|[]]. inversion E; subst. lia.
  - intros h1 t1 h2 t2 [E1|[]] [E2|[]] _. inversion E1; inversion E2; subst. lia.
Qed.

Example exx_wi : WIX exx0.
Proof.
  apply wix_base.
  - apply exx_base_chain.
  - apply exx_base_chain.
  - intros id cl [E|[]]. inversion E; subst. cbn. split; [reflexivity|]. intros hh t ver [E'|[]]. inversion E'; subst. cbn. auto.
  - intros id cl [E|[]]. inversion E; subst. cbn. split; [reflexivity|]. intros hh t ver [E'|[]]. inversion E'; subst. cbn. auto.
Qed.

Example exx_good : good_steps2 exx0 exx_steps.
Proof. vm_compute. repeat split; first [reflexivity | discriminate | exact I | (intro HH; discriminate HH)]. Qed.

Example exx_delivered :
  map r_src (g_rlog (gb (iw1 (irun2 exx0 exx_steps)))) = [(1, 10, 1)] /\ map r2_src (h_rlog (hb (irun2 exx0 exx_steps))) = [(10, 2)].
Proof. vm_compute. split; reflexivity. Qed.
