(** Channel ends are never created by packet handlers, and their ordering and counterparty never change: every
    channel end of the state after a step existed before it with the same ordering and counterparty identifiers. *)
From IBC Require Import Lib.Bytes Core.Height Core.Chain Core.ChainFacts.
Local Open Scope N_scope.

Section Back.
Context {A : Type}.
Notation Chain := (Chain A).
Notation Env := (Env A).
Implicit Types (c : Chain) (e : Env).

Definition ChB c c' : Prop :=
  forall k ch', chans c' k = Some ch' ->
    exists ch, chans c k = Some ch /\ c_ord ch = c_ord ch' /\ c_cp_port ch = c_cp_port ch' /\ c_cp_chan ch = c_cp_chan ch'.

Lemma chb_eq c c' : chans c' = chans c -> ChB c c'.
Proof. intros E k ch' H. rewrite E in H. exists ch'. auto. Qed.

Lemma chb_refl c : ChB c c.
Proof. now apply chb_eq. Qed.

Lemma chb_trans a b c : ChB a b -> ChB b c -> ChB a c.
Proof.
  intros H1 H2 k ch' H. destruct (H2 _ _ H) as [ch1 [Hb [O1 [P1 Q1]]]]. destruct (H1 _ _ Hb) as [ch0 [Ha [O0 [P0 Q0]]]].
  exists ch0. repeat split; congruence.
Qed.

Ltac chb_handler H :=
  repeat dmatch_in H; try discriminate; inversion H; subst; clear H; try (apply chb_refl); try (apply chb_eq; reflexivity).

Lemma send1_chb e c port chan th tmo data c' out s : send1 e c port chan th tmo data = (c', out, s) -> ChB c c'.
Proof. unfold send1. intros H. chb_handler H. Qed.

Lemma recv1_tao_chb e c p ph c' out : recv1_tao e c p ph = (c', out) -> ChB c c'.
Proof. unfold recv1_tao. intros H. chb_handler H. Qed.

Lemma write_ack1_chb c p bz c' out : write_ack1 c p bz = (c', out) -> ChB c c'.
Proof. unfold write_ack1. intros H. chb_handler H. Qed.

Lemma msg_recv1_chb e c p ph r c' out : msg_recv1 e c p ph r = (c', out) -> ChB c c'.
Proof.
  unfold msg_recv1. intros H.
  destruct (negb (packet1_valid p)); [inversion H; apply chb_refl|].
  destruct (negb (ports c (p_dp p))); [inversion H; apply chb_refl|].
  destruct (recv1_tao e c p ph) as [c1 o1] eqn:Et. pose proof (recv1_tao_chb _ _ _ _ _ _ Et) as B1.
  destruct o1; try (inversion H; apply chb_refl).
  destruct (e_recv1 e (app c1) p r) as [a' ack]. destruct ack as [[succ bz]|].
  - destruct (write_ack1 _ p bz) as [c4 o4] eqn:Ew. pose proof (write_ack1_chb _ _ _ _ _ Ew) as B2.
    destruct o4; try (inversion H; apply chb_refl). inversion H; subst.
    eapply chb_trans; [exact B1|]. eapply chb_trans; [|exact B2]. destruct succ; apply chb_eq; reflexivity.
  - inversion H; subst. eapply chb_trans; [exact B1|]. apply chb_eq. reflexivity.
Qed.

(** closing a channel end keeps its ordering and counterparty *)
Lemma chb_close c c1 k ch st :
  chans c1 = chans c -> chans c k = Some ch ->
  ChB c (set_chans c1 (upd k2_eqb (chans c1) k (Some (mkChan st (c_ord ch) (c_cp_port ch) (c_cp_chan ch) (c_conn ch) (c_version ch))))).
Proof.
  intros E Hk k' ch' H. cbn in H. unfold upd in H. destruct (k2_eqb k k') eqn:Ek.
  - apply k2_eqb_eq in Ek. subst k'. inversion H; subst. exists ch. cbn. auto.
  - rewrite E in H. exists ch'. auto.
Qed.

Ltac chb_done :=
  first [ apply chb_refl
        | apply chb_eq; reflexivity
        | match goal with
          | Hk : chans ?c ?k = Some ?ch |- ChB ?c _ =>
              cbn; unfold timeout_executed; cbn;
              first [ apply chb_eq; reflexivity
                    | (eapply chb_trans; [eapply (chb_close c _ k ch); [reflexivity|exact Hk]|apply chb_eq; reflexivity]) ]
          end ].

Ltac chb_all H := repeat dmatch_in H; try discriminate; inversion H; subst; clear H; chb_done.


Ltac comp H B :=
  repeat dmatch_in H; try discriminate; inversion H; subst; clear H;
  first [ apply chb_refl | exact B | (eapply chb_trans; [exact B|apply chb_eq; reflexivity]) ].

Lemma ack1_tao_chb e c p a ph c' out : ack1_tao e c p a ph = (c', out) -> ChB c c'.
Proof. unfold ack1_tao. intros H. chb_handler H. Qed.

Lemma msg_ack1_chb e c p a ph r c' out : msg_ack1 e c p a ph r = (c', out) -> ChB c c'.
Proof.
  unfold msg_ack1. intros H. destruct (ack1_tao e c p a ph) as [c1 o1] eqn:Et.
  pose proof (ack1_tao_chb _ _ _ _ _ _ _ Et) as B. comp H B.
Qed.

Lemma async_ack1_chb c p a c' out : async_ack1 c p a = (c', out) -> ChB c c'.
Proof. unfold async_ack1. apply write_ack1_chb. Qed.

Lemma timeout_executed_chb c ch p : chans c (p_sp p, p_sc p) = Some ch -> ChB c (timeout_executed c ch p).
Proof.
  intros Hk. unfold timeout_executed. destruct (c_ord ch) eqn:Eo.
  - rewrite <- Eo. apply chb_close; [reflexivity|exact Hk].
  - apply chb_eq. reflexivity.
Qed.

Lemma timeout1_tao_chb e c p ph nsr c' out : timeout1_tao e c p ph nsr = (c', out) -> ChB c c'.
Proof.
  unfold timeout1_tao. intros H.
  destruct (chans c (p_sp p, p_sc p)) as [ch|] eqn:Ech; [|inversion H; apply chb_refl].
  repeat dmatch_in H; try discriminate; inversion H; subst; clear H; first [apply chb_refl | now apply timeout_executed_chb].
Qed.

Lemma timeout_on_close1_tao_chb e c p ph nsr c' out : timeout_on_close1_tao e c p ph nsr = (c', out) -> ChB c c'.
Proof.
  unfold timeout_on_close1_tao. intros H.
  destruct (chans c (p_sp p, p_sc p)) as [ch|] eqn:Ech; [|inversion H; apply chb_refl].
  repeat dmatch_in H; try discriminate; inversion H; subst; clear H; first [apply chb_refl | now apply timeout_executed_chb].
Qed.

Lemma msg_timeout1_gen_chb tao e c p nsr r c' out :
  ChB c (fst tao) -> msg_timeout1_gen tao e c p nsr r = (c', out) -> ChB c c'.
Proof.
  unfold msg_timeout1_gen. intros B H. destruct tao as [c1 o1]. cbn in B. comp H B.
Qed.

Lemma send2_tao_chb e c src tmo pay c' out s d : send2_tao e c src tmo pay = (c', out, s, d) -> ChB c c'.
Proof. unfold send2_tao. intros H. chb_handler H. Qed.

Lemma msg_send2_chb e c src tmo pay sg c' out s : msg_send2 e c src tmo pay sg = (c', out, s) -> ChB c c'.
Proof.
  unfold msg_send2. intros H. destruct (send2_tao e c src tmo pay) as [[[c1 o1] s1] d1] eqn:Et.
  pose proof (send2_tao_chb _ _ _ _ _ _ _ _ _ Et) as B. comp H B.
Qed.

Lemma recv2_tao_chb e c q ph c' out : recv2_tao e c q ph = (c', out) -> ChB c c'.
Proof. unfold recv2_tao. intros H. chb_handler H. Qed.

Lemma write_ack2_chb c q acks c' out : write_ack2 c q acks = (c', out) -> ChB c c'.
Proof. unfold write_ack2. intros H. chb_handler H. Qed.

Lemma msg_recv2_chb e c q ph r c' out : msg_recv2 e c q ph r = (c', out) -> ChB c c'.
Proof.
  unfold msg_recv2. intros H.
  destruct (negb (packet2_valid q)); [inversion H; apply chb_refl|].
  destruct (recv2_tao e c q ph) as [c1 o1] eqn:Et. pose proof (recv2_tao_chb _ _ _ _ _ _ Et) as B.
  destruct o1; try (inversion H; apply chb_refl).
  destruct (recv2_loop _ _ _ _ _ _ _) as [st|]; [|inversion H; apply chb_refl].
  destruct (l_async st).
  - inversion H; subst. eapply chb_trans; [exact B|]. destruct (l_success st); apply chb_eq; reflexivity.
  - destruct (negb (Bool.eqb _ _)); [inversion H; apply chb_refl|].
    destruct (write_ack2 _ q (l_acks st)) as [c3 o3] eqn:Ew. pose proof (write_ack2_chb _ _ _ _ _ Ew) as B2.
    destruct o3; try (inversion H; apply chb_refl). inversion H; subst.
    eapply chb_trans; [exact B|]. eapply chb_trans; [|exact B2]. destruct (l_success st); apply chb_eq; reflexivity.
Qed.

Lemma async_ack2_chb c id seq acks c' out : async_ack2 c id seq acks = (c', out) -> ChB c c'.
Proof.
  unfold async_ack2. intros H. destruct (asyn2 c (id, seq)) as [q|]; [|inversion H; apply chb_refl].
  destruct (write_ack2 c q acks) as [c1 o1] eqn:Ew. pose proof (write_ack2_chb _ _ _ _ _ Ew) as B. comp H B.
Qed.

Lemma ack2_tao_chb e c q acks ph c' out : ack2_tao e c q acks ph = (c', out) -> ChB c c'.
Proof. unfold ack2_tao. intros H. chb_handler H. Qed.

Lemma msg_ack2_chb e c q acks ph r c' out : msg_ack2 e c q acks ph r = (c', out) -> ChB c c'.
Proof.
  unfold msg_ack2. intros H. destruct (ack2_tao e c q acks ph) as [c1 o1] eqn:Et.
  pose proof (ack2_tao_chb _ _ _ _ _ _ _ Et) as B.
  destruct (ack2_callbacks _ _ _ _ _ _ _ _ _) as [[o2 a2] evs2]. comp H B.
Qed.

Lemma timeout2_tao_chb e c q ph c' out : timeout2_tao e c q ph = (c', out) -> ChB c c'.
Proof. unfold timeout2_tao. intros H. chb_handler H. Qed.

Lemma msg_timeout2_chb e c q ph r c' out : msg_timeout2 e c q ph r = (c', out) -> ChB c c'.
Proof.
  unfold msg_timeout2. intros H. destruct (timeout2_tao e c q ph) as [c1 o1] eqn:Et.
  pose proof (timeout2_tao_chb _ _ _ _ _ _ Et) as B. comp H B.
Qed.

Lemma close_chan_chb c port chan c' out : close_chan c port chan = (c', out) -> ChB c c'.
Proof.
  unfold close_chan. intros H. destruct (chans c (port, chan)) as [ch|] eqn:Ech; [|inversion H; apply chb_refl].
  destruct (cstate_eqb _ _); inversion H; subst; [apply chb_refl|]. apply chb_close; [reflexivity|exact Ech].
Qed.

Theorem step_chb e c o c' out : step e c o = (c', out) -> ChB c c'.
Proof.
  destruct o; cbn [step]; intros H.
  - destruct (send1 e c port chan th tmo data) as [[c1 o1] s1] eqn:E. inversion H; subst. eapply send1_chb; eauto.
  - eapply msg_recv1_chb; eauto.
  - eapply msg_ack1_chb; eauto.
  - unfold msg_timeout1 in H. eapply msg_timeout1_gen_chb; [|exact H].
    destruct (timeout1_tao e c p ph nsr) as [c1 o1] eqn:Et. cbn. eapply timeout1_tao_chb; eauto.
  - unfold msg_timeout_on_close1 in H. eapply msg_timeout1_gen_chb; [|exact H].
    destruct (timeout_on_close1_tao e c p ph nsr) as [c1 o1] eqn:Et. cbn. eapply timeout_on_close1_tao_chb; eauto.
  - eapply async_ack1_chb; eauto.
  - destruct (msg_send2 e c src tmo pay signer) as [[c1 o1] s1] eqn:E. inversion H; subst. eapply msg_send2_chb; eauto.
  - eapply msg_recv2_chb; eauto.
  - eapply msg_ack2_chb; eauto.
  - eapply msg_timeout2_chb; eauto.
  - eapply async_ack2_chb; eauto.
  - inversion H; subst. apply chb_eq. reflexivity.
  - eapply close_chan_chb; eauto.
Qed.
End Back.
