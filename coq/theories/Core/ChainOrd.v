(** C02: ORDERED channels deliver and acknowledge strictly in sequence. *)
From IBC Require Import Lib.Bytes Lib.Dec Core.Height Core.Chain Core.ChainFacts Core.ChainInv Core.ChainThms.
Local Open Scope N_scope.

Section Ord.
Context {A : Type}.
Notation Chain := (Chain A).
Notation Env := (Env A).
Implicit Types (c : Chain) (e : Env).

(** sequences of the receive / acknowledgement callbacks of one channel, in the order they ran *)
Definition rseq1 (k : K2) (ev : Event) : list N :=
  match ev with EvRecv1 p ch s => if k2_eqb (p, ch) k then [s] else [] | _ => [] end.
Definition aseq1 (k : K2) (ev : Event) : list N :=
  match ev with EvAck1 p ch s _ => if k2_eqb (p, ch) k then [s] else [] | _ => [] end.
Definition oseq (k : K2) (evs : list Event) : list N := flat_map (rseq1 k) evs.
Definition aseq (k : K2) (evs : list Event) : list N := flat_map (aseq1 k) evs.

Lemma oseq_app k a b : oseq k (a ++ b) = oseq k a ++ oseq k b.
Proof. unfold oseq. now rewrite flat_map_app. Qed.
Lemma aseq_app k a b : aseq k (a ++ b) = aseq k a ++ aseq k b.
Proof. unfold aseq. now rewrite flat_map_app. Qed.

Definition v2_event (ev : Event) : bool :=
  match ev with EvRecv1 _ _ _ | EvAck1 _ _ _ _ | EvTimeout1 _ _ _ => false | _ => true end.

Lemma v2_events_no_seq k evs : forallb v2_event evs = true -> oseq k evs = [] /\ aseq k evs = [].
Proof.
  induction evs as [|ev evs IH]; cbn; [auto|]. intros H. apply andb_true_iff in H as [Hv H].
  destruct (IH H) as [I1 I2]. unfold oseq, aseq in *. cbn. rewrite I1, I2. destruct ev; cbn in *; try discriminate; auto.
Qed.

Lemma forallb_app {X} (f : X -> bool) a b : forallb f (a ++ b) = forallb f a && forallb f b.
Proof. induction a; cbn; auto. rewrite IHa. now rewrite andb_assoc. Qed.

Lemma recv2_loop_v2 e q r n idx pay st st' :
  recv2_loop e q r n idx pay st = Some st' -> forallb v2_event (l_evs st) = true -> forallb v2_event (l_evs st') = true.
Proof.
  revert idx st; induction pay as [|y pay IH]; intros idx st H Hv; cbn [recv2_loop] in H.
  - inversion H; subst. exact Hv.
  - destruct (e_recv2 e (l_app st) (q_src q) (q_dst q) (q_seq q) y r) as [a' [status ackb]].
    assert (forallb v2_event (l_evs st ++ [EvRecv2 (q_dst q) (q_seq q) idx]) = true) as Hv' by (rewrite forallb_app, Hv; reflexivity).
    destruct status.
    + destruct (ackb =? sentinel); [discriminate|]. eapply IH; eauto.
    + inversion H; subst. exact Hv'.
    + destruct (ackb =? sentinel); [discriminate|]. destruct (Nat.ltb 1 n); [discriminate|]. eapply IH; eauto.
Qed.

Lemma ack2_callbacks_v2 e a q acks success r idx pay evs a' evs' :
  ack2_callbacks e a q acks success r idx pay evs = (Ok, a', evs') -> forallb v2_event evs = true -> forallb v2_event evs' = true.
Proof.
  revert a idx evs; induction pay as [|y pay IH]; intros a idx evs H Hv; cbn [ack2_callbacks] in H.
  - inversion H; subst. exact Hv.
  - destruct (if success then nth_error acks (N.to_nat idx) else Some sentinel) as [ab|]; [|discriminate].
    destruct (e_ack2 e a (q_src q) (q_dst q) (q_seq q) ab y r) as [a1|]; [|discriminate].
    eapply IH; eauto. rewrite forallb_app, Hv. reflexivity.
Qed.

Lemma timeout2_callbacks_v2 e a q r idx pay evs a' evs' :
  timeout2_callbacks e a q r idx pay evs = Some (a', evs') -> forallb v2_event evs = true -> forallb v2_event evs' = true.
Proof.
  revert a idx evs; induction pay as [|y pay IH]; intros a idx evs H Hv; cbn [timeout2_callbacks] in H.
  - inversion H; subst. exact Hv.
  - destruct (e_timeout2 e a (q_src q) (q_dst q) (q_seq q) y r) as [a1|]; [|discriminate].
    eapply IH; eauto. rewrite forallb_app, Hv. reflexivity.
Qed.

Lemma send2_callbacks_v2 e a src dst seq sg idx pay a' evs :
  send2_callbacks e a src dst seq sg idx pay = Some (a', evs) -> forallb v2_event evs = true.
Proof.
  revert a idx a' evs; induction pay as [|y pay IH]; intros a idx a' evs H; cbn [send2_callbacks] in H.
  - inversion H; subst. reflexivity.
  - destruct (e_send2 e a src dst seq y sg) as [a1|]; [|discriminate].
    destruct (send2_callbacks e a1 src dst seq sg (idx + 1) pay) as [[a2 evs2]|] eqn:E; [|discriminate].
    inversion H; subst. cbn. eapply IH; eauto.
Qed.

(** what one successful step does to the ordered counters and callback sequences of channel k *)
Definition ord_step c c' (k : K2) : Prop :=
  exists new, events c' = events c ++ new /\
    ((oseq k new = [] /\ nrecv c' k = nrecv c k) \/
     (exists n, oseq k new = [n] /\ nrecv c k = Some n /\ nrecv c' k = Some (n + 1))) /\
    ((aseq k new = [] /\ nack c' k = nack c k) \/
     (exists n, aseq k new = [n] /\ nack c k = Some n /\ nack c' k = Some (n + 1))).

Lemma ord_quiet c c' k new :
  events c' = events c ++ new -> oseq k new = [] -> aseq k new = [] -> nrecv c' = nrecv c -> nack c' = nack c -> ord_step c c' k.
Proof. intros He Ho Ha Hr Hk. exists new. rewrite Hr, Hk. auto. Qed.

Theorem step_ord e c o c' k en :
  chans c k = Some en -> c_ord en = ORDERED -> step e c o = (c', Ok) -> ord_step c c' k.
Proof.
  intros Hen Hord H. destruct o; cbn [step] in H.
  - destruct (send1 e c port chan th tmo data) as [[c1 o1] s1] eqn:E. inversion H; subst.
    apply send1_ok in E. destruct E as (ch & k0 & lts & ? & ? & ? & ? & ? & ? & ? & ? & ? & ? & ? & ->).
    apply (ord_quiet _ _ _ []); cbn; auto. now rewrite app_nil_r.
  - apply msg_recv1_ok in H. destruct H as [c1 [Ht [_ H]]]. cbn zeta in H. apply recv1_tao_ok in Ht.
    destruct Ht as [ch [k0 [Ech [_ [_ [_ [_ [_ [_ [_ Hc1]]]]]]]]]].
    assert (exists c2, c' = c2 /\ events c2 = events c1 ++ [EvRecv1 (p_dp p) (p_dc p) (p_seq p)] /\ nrecv c2 = nrecv c1 /\ nack c2 = nack c1)
      as [c2 [-> [Hev [H1 H2]]]].
    { destruct (e_recv1 e (app c1) p relayer) as [a' [[[] bz]|]]; cbn [fst snd] in H.
      - apply write_ack1_ok in H. destruct H as [_ [_ ->]]. eexists; split; [reflexivity|]. cbn. auto.
      - apply write_ack1_ok in H. destruct H as [_ [_ ->]]. eexists; split; [reflexivity|]. cbn. auto.
      - subst c'. eexists; split; [reflexivity|]. cbn. auto. }
    exists [EvRecv1 (p_dp p) (p_dc p) (p_seq p)].
    destruct Hc1 as [[Ho [Hr ->]]|[Ho [Hn ->]]]; cbn in Hev, H1, H2.
    + (* UNORDERED channel: it is a different channel than k *)
      split; [exact Hev|]. unfold oseq, aseq. cbn.
      destruct (k2_eqb (p_dp p, p_dc p) k) eqn:Ek.
      * apply k2_eqb_eq in Ek. subst k. rewrite Ech in Hen. inversion Hen; subst. congruence.
      * rewrite H1, H2. cbn. auto.
    + split; [exact Hev|]. unfold oseq, aseq. cbn.
      destruct (k2_eqb (p_dp p, p_dc p) k) eqn:Ek.
      * apply k2_eqb_eq in Ek. subst k. split; [|rewrite H2; auto].
        right. exists (p_seq p). cbn. split; [reflexivity|]. split; [exact Hn|]. rewrite H1. cbn. apply upd_same, k2_eqb_refl.
      * split; [|rewrite H2; auto]. left. split; [reflexivity|]. rewrite H1. cbn. now apply upd_other.
  - apply msg_ack1_ok in H. destruct H as [c1 [a' [Ht [_ [_ [_ ->]]]]]].
    pose proof (ack1_tao_ok _ _ _ _ _ _ Ht) as (ch & k0 & Ech & ? & ? & ? & ? & ? & ? & ? & ? & ? & ? & Hna & ?).
    apply ack1_tao_state in Ht. destruct Ht as [ch' [Ech' ->]]. rewrite Ech in Ech'. inversion Ech'; subst ch'.
    exists [EvAck1 (p_sp p) (p_sc p) (p_seq p) ack]. unfold oseq, aseq. cbn.
    destruct (k2_eqb (p_sp p, p_sc p) k) eqn:Ek.
    + apply k2_eqb_eq in Ek. subst k. rewrite Ech in Hen. inversion Hen; subst en. rewrite Hord in *.
      destruct (Hna eq_refl) as [Hn1 _]. cbn. split; [reflexivity|]. split; [auto|].
      right. exists (p_seq p). split; [reflexivity|]. split; [exact Hn1|]. apply upd_same, k2_eqb_refl.
    + destruct (c_ord ch); cbn; (split; [reflexivity|]); (split; [auto|]); left; (split; [reflexivity|]); try reflexivity.
      now apply upd_other.
  - apply msg_timeout1_gen_ok in H. destruct H as [c1 [a' [Ht [_ [_ [_ ->]]]]]]. apply timeout1_tao_ok in Ht.
    destruct Ht as [ch [k0 [pts [_ [_ [_ [_ [_ [_ [_ [_ ->]]]]]]]]]]].
    apply (ord_quiet _ _ _ [EvTimeout1 (p_sp p) (p_sc p) (p_seq p)]); unfold timeout_executed; destruct (c_ord ch); reflexivity.
  - apply msg_timeout1_gen_ok in H. destruct H as [c1 [a' [Ht [_ [_ [_ ->]]]]]]. apply timeout_on_close1_tao_ok in Ht.
    destruct Ht as [ch [k0 [_ [_ [_ [_ [_ [_ [_ ->]]]]]]]]].
    apply (ord_quiet _ _ _ [EvTimeout1 (p_sp p) (p_sc p) (p_seq p)]); unfold timeout_executed; destruct (c_ord ch); reflexivity.
  - apply write_ack1_ok in H. destruct H as [_ [_ ->]]. apply (ord_quiet _ _ _ []); cbn; auto. now rewrite app_nil_r.
  - destruct (msg_send2 e c src tmo pay signer) as [[c1 o1] s1] eqn:E. inversion H; subst.
    unfold msg_send2 in E. destruct (_ || _ || _); [discriminate|].
    destruct (send2_tao e c src tmo pay) as [[[c2 o2] s2] d2] eqn:Et. destruct o2; try discriminate.
    destruct (send2_callbacks _ _ _ _ _ _ _ _) as [[a' evs]|] eqn:Ecb; [|discriminate]. inversion E; subst.
    apply send2_tao_ok in Et. destruct Et as [_ [_ [_ [_ [_ [_ [_ [_ ->]]]]]]]].
    apply send2_callbacks_v2 in Ecb. destruct (v2_events_no_seq k _ Ecb).
    apply (ord_quiet _ _ _ evs); auto.
  - unfold msg_recv2 in H. destruct (packet2_valid q); cbn [negb] in H; [|discriminate].
    destruct (recv2_tao e c q ph) as [c1 o1] eqn:Et. destruct o1; try discriminate.
    apply recv2_tao_ok in Et. destruct Et as [_ [_ [_ [_ ->]]]].
    destruct (recv2_loop _ _ _ _ _ _ _) as [st|] eqn:El; [|discriminate].
    apply recv2_loop_v2 in El; [|reflexivity]. destruct (v2_events_no_seq k _ El).
    destruct (l_async st).
    + inversion H; subst. apply (ord_quiet _ _ _ (l_evs st)); auto; destruct (l_success st); reflexivity.
    + destruct (negb (Bool.eqb _ _)); [discriminate|].
      destruct (write_ack2 _ q (l_acks st)) as [c3 o3] eqn:Ew. destruct o3; try discriminate. inversion H; subst.
      apply write_ack2_ok in Ew. destruct Ew as [_ [_ [_ [_ [_ ->]]]]].
      apply (ord_quiet _ _ _ (l_evs st)); auto; destruct (l_success st); reflexivity.
  - unfold msg_ack2 in H. destruct (ack2_valid acks); cbn [negb] in H; [|discriminate].
    destruct (packet2_valid q); cbn [negb] in H; [|discriminate].
    destruct (ack2_tao e c q acks ph) as [c1 o1] eqn:Et. destruct o1; try discriminate.
    apply ack2_tao_ok in Et. destruct Et as [_ [_ [_ ->]]].
    destruct (ack2_callbacks _ _ _ _ _ _ _ _ _) as [[o2 a'] evs] eqn:Ecb. destruct o2; try discriminate. inversion H; subst.
    apply ack2_callbacks_v2 in Ecb; [|reflexivity]. destruct (v2_events_no_seq k _ Ecb).
    apply (ord_quiet _ _ _ evs); auto.
  - unfold msg_timeout2 in H. destruct (packet2_valid q); cbn [negb] in H; [|discriminate].
    destruct (timeout2_tao e c q ph) as [c1 o1] eqn:Et. destruct o1; try discriminate.
    apply timeout2_tao_ok in Et. destruct Et as [_ [_ [_ [_ ->]]]].
    destruct (timeout2_callbacks _ _ _ _ _ _ _) as [[a' evs]|] eqn:Ecb; [|discriminate]. inversion H; subst.
    apply timeout2_callbacks_v2 in Ecb; [|reflexivity]. destruct (v2_events_no_seq k _ Ecb).
    apply (ord_quiet _ _ _ evs); auto.
  - unfold async_ack2 in H. destruct (asyn2 c (id, seq)) as [q|]; [|discriminate].
    destruct (write_ack2 c q acks) as [c1 o1] eqn:Ew. destruct o1; try discriminate. inversion H; subst.
    apply write_ack2_ok in Ew. destruct Ew as [_ [_ [_ [_ [_ ->]]]]].
    apply (ord_quiet _ _ _ []); cbn; auto. now rewrite app_nil_r.
  - inversion H; subst. apply (ord_quiet _ _ _ []); cbn; auto. now rewrite app_nil_r.
  - unfold close_chan in H. repeat dmatch_in H; try discriminate. inversion H; subst.
    apply (ord_quiet _ _ _ []); cbn; auto. now rewrite app_nil_r.
Qed.

(** Over any history, on an ORDERED channel the receive callbacks that ran are exactly the sequences
    nr, nr+1, nr+2, ... (nr = nextSequenceRecv at the start) in this order with no gap and no repeat, and
    nextSequenceRecv has advanced by exactly their number; likewise acknowledgement callbacks and nextSequenceAck. *)
Theorem ordered_in_sequence c hist k en nr na :
  chans c k = Some en -> c_ord en = ORDERED -> nrecv c k = Some nr -> nack c k = Some na ->
  exists mr ma,
    oseq k (events (run c hist)) = oseq k (events c) ++ seqN nr mr /\ nrecv (run c hist) k = Some (nr + N.of_nat mr) /\
    aseq k (events (run c hist)) = aseq k (events c) ++ seqN na ma /\ nack (run c hist) k = Some (na + N.of_nat ma).
Proof.
  revert c en nr na; induction hist as [|[e o] hist IH]; intros c en nr na Hen Hord Hr Ha.
  - exists 0%nat, 0%nat. cbn. rewrite !app_nil_r, !N.add_0_r. auto.
  - change (run c ((e, o) :: hist)) with (run (fst (step e c o)) hist).
    destruct (step e c o) as [c1 out] eqn:E. cbn [fst].
    destruct out; try (rewrite (step_not_ok_same _ _ _ _ _ E) by discriminate; eapply IH; eauto).
    destruct (m_chans _ _ (step_mono _ _ _ _ _ E) _ _ Hen) as [en1 [Hen1 [Ho1 _]]].
    destruct (step_ord _ _ _ _ _ _ Hen Hord E) as [new [Hev [Hrr Haa]]].
    assert (c_ord en1 = ORDERED) as Hord1 by congruence.
    assert (exists dr nr1, oseq k (events c1) = oseq k (events c) ++ seqN nr dr /\ nrecv c1 k = Some nr1 /\ nr1 = nr + N.of_nat dr) as [dr [nr1 [Er [Hr1 Enr]]]].
    { rewrite Hev, oseq_app. destruct Hrr as [[-> ->]|[n [-> [Hn1 Hn2]]]].
      - exists 0%nat, nr. cbn. rewrite N.add_0_r. auto.
      - rewrite Hr in Hn1. inversion Hn1; subst n. exists 1%nat, (nr + 1). cbn. auto. }
    assert (exists da na1, aseq k (events c1) = aseq k (events c) ++ seqN na da /\ nack c1 k = Some na1 /\ na1 = na + N.of_nat da) as [da [na1 [Ea [Ha1 Ena]]]].
    { rewrite Hev, aseq_app. destruct Haa as [[-> ->]|[n [-> [Hn1 Hn2]]]].
      - exists 0%nat, na. cbn. rewrite N.add_0_r. auto.
      - rewrite Ha in Hn1. inversion Hn1; subst n. exists 1%nat, (na + 1). cbn. auto. }
    destruct (IH c1 en1 nr1 na1 Hen1 Hord1 Hr1 Ha1) as [mr [ma [I1 [I2 [I3 I4]]]]].
    exists (dr + mr)%nat, (da + ma)%nat. rewrite I1, I2, I3, I4, Er, Ea, <- !app_assoc. subst nr1 na1.
    assert (forall x a b, seqN x a ++ seqN (x + N.of_nat a) b = seqN x (a + b)) as Happ.
    { intros x a; revert x; induction a as [|a IHa]; intros x b; cbn; [now rewrite N.add_0_r|].
      f_equal. rewrite <- IHa. do 2 f_equal. lia. }
    rewrite !Happ. repeat split; f_equal; lia.
Qed.

(** a packet beyond the next expected sequence is refused, and leaves the state unchanged *)
Theorem ordered_gap_refused e c p ph r en nr :
  chans c (p_dp p, p_dc p) = Some en -> c_ord en = ORDERED -> nrecv c (p_dp p, p_dc p) = Some nr -> p_seq p <> nr ->
  snd (msg_recv1 e c p ph r) <> Ok /\ (nr < p_seq p -> fst (msg_recv1 e c p ph r) = c).
Proof.
  intros Hen Hord Hr Hne. assert (snd (msg_recv1 e c p ph r) <> Ok) as Hn.
  { intros Hok. destruct (msg_recv1 e c p ph r) as [c' o] eqn:E. cbn in Hok. subst o.
    apply msg_recv1_ok in E. destruct E as [c1 [Ht _]]. apply recv1_tao_ok in Ht.
    destruct Ht as [ch [k0 [Ech [_ [_ [_ [_ [_ [_ [_ [[Ho _]|[_ [Hn _]]]]]]]]]]]]]; rewrite Hen in Ech; inversion Ech; subst; congruence. }
  split; [exact Hn|]. intros _. destruct (msg_recv1 e c p ph r) as [c' o] eqn:E. cbn in *. eapply msg_recv1_same; eauto.
Qed.

End Ord.
