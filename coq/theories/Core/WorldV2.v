(** C04 end to end for IBC v2 (timeouts in seconds against nanosecond consensus time): the same construction as
    Core/WorldInv*.v with v2 ghost logs, run alongside the v1 instrumentation. *)
From IBC Require Import Lib.Bytes Lib.Dec Core.Height Core.HeightFacts Core.Chain Core.ChainFacts Core.ChainInv
  Core.ChainThms Core.World Core.WorldFacts Core.WorldInv Core.WorldInv2 Core.WorldInv3 Core.WorldThm.
Local Open Scope N_scope.

Definition Tmo2 (c : Commit2) : N := let '(_, t, _) := c in t.
Lemma Tmo2_commit2 q : Tmo2 (commit2 q) = q_tt q.
Proof. reflexivity. Qed.

Record R2Entry := mkR2 { r2_dst : KS; r2_src : KS; r2_com : Commit2; r2_h : N; r2_t : N; r2_client : Id }.
Record T2Entry := mkT2 { t2_src : KS; t2_dst : KS; t2_com : Commit2; t2_ph : Height; t2_client : Id }.
Record Ghost2 := mkG2 { h_rlog : list R2Entry; h_tlog : list T2Entry; h_ever : KS -> option Commit2 }.
Definition ghost20 : Ghost2 := mkG2 [] [] (fun _ => None).

Definition gupd2 (g : Ghost2) (pre : ChainS) (o : WOp) (h : Height) (t : N) (out : Outcome) : Ghost2 :=
  match out, packet_of o with
  | Ok, Some (ORecv2 q _ _) =>
      mkG2 (mkR2 (q_dst q, q_seq q) (q_src q, q_seq q) (commit2 q) (ht h) t (base_client pre (q_dst q)) :: h_rlog g) (h_tlog g) (h_ever g)
  | Ok, Some (OTimeout2 q ph _) =>
      mkG2 (h_rlog g) (mkT2 (q_src q, q_seq q) (q_dst q, q_seq q) (commit2 q) ph (base_client pre (q_src q)) :: h_tlog g) (h_ever g)
  | Ok, Some (OSend2 src tmo pay _) =>
      match nsend pre src, cparty pre src with
      | Some seq, Some dst => mkG2 (h_rlog g) (h_tlog g) (upd ks_eqb (h_ever g) (src, seq) (Some (commit2 (mkP2 seq src dst tmo pay))))
      | _, _ => g
      end
  | _, _ => g
  end.

Lemma gupd2_rlog g pre o h t out r :
  In r (h_rlog (gupd2 g pre o h t out)) ->
  In r (h_rlog g) \/
  (exists q ph rl, out = Ok /\ packet_of o = Some (ORecv2 q ph rl) /\
     r = mkR2 (q_dst q, q_seq q) (q_src q, q_seq q) (commit2 q) (ht h) t (base_client pre (q_dst q))).
Proof.
  unfold gupd2. destruct out; auto. destruct (packet_of o) as [op|]; auto. destruct op; auto.
  - destruct (nsend pre src); auto. destruct (cparty pre src); auto.
  - cbn. intros [<-|H]; auto. right. exists q, ph, relayer. auto.
Qed.

Lemma gupd2_tlog g pre o h t out e :
  In e (h_tlog (gupd2 g pre o h t out)) ->
  In e (h_tlog g) \/
  (exists q ph rl, out = Ok /\ packet_of o = Some (OTimeout2 q ph rl) /\
     e = mkT2 (q_src q, q_seq q) (q_dst q, q_seq q) (commit2 q) ph (base_client pre (q_src q))).
Proof.
  unfold gupd2. destruct out; auto. destruct (packet_of o) as [op|]; auto. destruct op; auto.
  - destruct (nsend pre src); auto. destruct (cparty pre src); auto.
  - cbn. intros [<-|H]; auto. right. exists q, ph, relayer. auto.
Qed.

Lemma gupd2_ever g pre o h t out k v :
  h_ever (gupd2 g pre o h t out) k = Some v ->
  h_ever g k = Some v \/
  (exists src tmo pay sg seq dst, out = Ok /\ packet_of o = Some (OSend2 src tmo pay sg) /\
     nsend pre src = Some seq /\ cparty pre src = Some dst /\ k = (src, seq) /\ v = commit2 (mkP2 seq src dst tmo pay)).
Proof.
  unfold gupd2. destruct out; auto. destruct (packet_of o) as [op|]; auto. destruct op; auto.
  destruct (nsend pre src) as [seq|] eqn:En; auto. destruct (cparty pre src) as [dst|] eqn:Ec; auto.
  cbn. unfold upd. destruct (ks_eqb (src, seq) k) eqn:Ek; auto.
  apply ks_eqb_eq in Ek. subst k. intros [= <-]. right. exists src, tmo, pay, signer, seq, dst. auto 10.
Qed.

Lemma gupd2_ever_ext g pre o h t out k v :
  (forall id s v', h_ever g (id, s) = Some v' -> exists n, nsend pre id = Some n /\ s < n) ->
  h_ever g k = Some v -> h_ever (gupd2 g pre o h t out) k = Some v.
Proof.
  intros Hlt Hk. unfold gupd2. destruct out; auto. destruct (packet_of o) as [op|]; auto. destruct op; auto.
  destruct (nsend pre src) as [seq|] eqn:En; auto. destruct (cparty pre src) as [dst|] eqn:Ec; auto.
  cbn. unfold upd. destruct (ks_eqb (src, seq) k) eqn:Ek; auto.
  apply ks_eqb_eq in Ek. subst k. destruct (Hlt _ _ _ Hk) as [n [Hn L]]. rewrite En in Hn. inversion Hn; subst. lia.
Qed.

(** non-send operations never create a v2 commitment; a v2 send creates exactly the one the ghost records *)
Lemma step_com2_new e (c c' : ChainS) o k v :
  step e c o = (c', Ok) -> com2 c' k = Some v ->
  com2 c k = Some v \/
  (exists src tmo pay sg seq dst,
     o = OSend2 src tmo pay sg /\ nsend c src = Some seq /\ cparty c src = Some dst /\
     k = (src, seq) /\ v = commit2 (mkP2 seq src dst tmo pay)).
Proof.
  intros H Hc.
  destruct o;
    try (left; pose proof (step_nsend_other _ _ _ _ _ H) as G; cbn in G;
         destruct k as [kid ks]; destruct (step_frame _ _ _ _ H) as [new F];
         destruct (f_com2 _ _ _ F _ _ _ Hc) as [Ho|[H1 H2]]; [exact Ho|];
         rewrite G in H2; rewrite H1 in H2; inversion H2; lia).
  - (* OSend1: v2 commitments untouched *)
    left. cbn [step] in H. destruct (send1 e c port chan th tmo data) as [[c1 o1] s1] eqn:E. inversion H; subst.
    apply send1_ok in E. destruct E as (ch & k0 & lts & ? & ? & ? & ? & ? & ? & ? & ? & ? & ? & ? & ->). exact Hc.
  - cbn [step] in H. destruct (msg_send2 e c src tmo pay signer) as [[c1 o1] s1] eqn:E. inversion H; subst.
    unfold msg_send2 in E. destruct (_ || _ || _); [discriminate|].
    destruct (send2_tao e c src tmo pay) as [[[c2 o2] s2] d2] eqn:Et. destruct o2; try discriminate.
    destruct (send2_callbacks _ _ _ _ _ _ _ _) as [[a' evs]|]; [|discriminate]. inversion E; subst.
    apply send2_tao_ok in Et. destruct Et as [Hcp [Hns [_ [_ [_ [_ [_ [_ ->]]]]]]]].
    cbn in Hc. unfold upd in Hc. destruct (ks_eqb (src, s1) k) eqn:Ek.
    + apply ks_eqb_eq in Ek. subst k. inversion Hc; subst. right. exists src, tmo, pay, signer, s1, d2. auto 10.
    + left. exact Hc.
Qed.

(** v2 part of what is known about one chain *)
Record Local2 (Z : WChain) (g : Ghost2) : Prop := mkLocal2 {
  l2_rlog : forall r, In r (h_rlog g) ->
      ns_to_s (r2_t r) < Tmo2 (r2_com r) /\ In (r2_h r, r2_t r) (w_hdrs Z) /\ rcpt2 (w_chain Z) (r2_dst r) = true /\
      (forall h snap, In (h, snap) (w_vers Z) -> r2_h r <= h -> rcpt2 snap (r2_dst r) = true);
  l2_ever_cur : forall k v, com2 (w_chain Z) k = Some v -> h_ever g k = Some v;
  l2_ever_snap : forall h snap k v, In (h, snap) (w_vers Z) -> com2 snap k = Some v -> h_ever g k = Some v;
  l2_ever_lt : forall id s v, h_ever g (id, s) = Some v -> exists n, nsend (w_chain Z) id = Some n /\ s < n;
  l2_tlog : forall e, In e (h_tlog g) -> h_ever g (t2_src e) = Some (t2_com e) }.

Theorem local2_step sc nc lh Z other g g2 h t o Z' out :
  Local Z g -> Local2 Z g2 -> good_block Z h t o -> wstep_chain sc nc lh Z other h t o = (Z', out) ->
  Local2 Z' (gupd2 g2 (w_chain Z) o h t out).
Proof.
  intros L L2 [Hrev [Hht [Htime Hpo]]] H.
  pose proof (wsc_chain_mono _ _ _ _ _ _ _ _ _ _ H) as M.
  destruct (wsc_self _ _ _ _ _ _ _ _ _ _ Hpo H) as [Sh St].
  destruct (wsc_effect _ _ _ _ _ _ _ _ _ _ H) as [Ev [Eh Eff]].
  set (c := w_chain Z) in *. set (c' := w_chain Z') in *.
  assert (forall k v, h_ever g2 k = Some v -> h_ever (gupd2 g2 c o h t out) k = Some v) as Hext.
  { intros k v. apply gupd2_ever_ext. intros id s v' Hv. exact (l2_ever_lt _ _ L2 _ _ _ Hv). }
  assert (forall k v, com2 c' k = Some v -> h_ever (gupd2 g2 c o h t out) k = Some v) as Hcur.
  { intros k v Hc. destruct (packet_of o) as [op|] eqn:Hop.
    - destruct Eff as [e Hs].
      destruct out; try (rewrite (step_not_ok_same _ _ _ _ _ Hs) in Hc by discriminate; cbn in Hc; apply Hext, (l2_ever_cur _ _ L2); exact Hc).
      destruct (step_com2_new _ _ _ _ _ _ Hs Hc) as [Ho|(src & tmo & pay & sg & seq & dst & -> & Hn & Hcp & -> & ->)].
      + cbn in Ho. apply Hext, (l2_ever_cur _ _ L2). exact Ho.
      + cbn in Hn, Hcp. unfold gupd2. rewrite Hop. fold c in Hn, Hcp. rewrite Hn, Hcp. cbn. apply upd_same, ks_eqb_refl.
    - rewrite Eff in Hc. cbn in Hc. apply Hext, (l2_ever_cur _ _ L2). exact Hc. }
  constructor.
  - intros r Hr. apply gupd2_rlog in Hr. destruct Hr as [Hold|(q & ph & rl & -> & Hop & ->)].
    + destruct (l2_rlog _ _ L2 _ Hold) as [R1 [R2 [R3 R4]]].
      split; [exact R1|]. split; [rewrite Eh; now right|]. split; [apply (m_rcpt2 _ _ M); exact R3|].
      rewrite Ev. intros h0 snap [E|Hin] Hle.
      * injection E as <- <-. apply (m_rcpt2 _ _ M). exact R3.
      * eapply R4; eauto.
    + cbn [r2_com r2_h r2_t r2_dst]. rewrite Hop in Eff. destruct Eff as [e Hs]. cbn [step] in Hs.
      pose proof (msg_recv2_mono _ _ _ _ _ _ Hs) as M2.
      unfold msg_recv2 in Hs. destruct (packet2_valid q); cbn [negb] in Hs; [|discriminate].
      destruct (recv2_tao e (set_block c h t) q ph) as [c1 o1] eqn:Et. destruct o1; try discriminate.
      pose proof (recv2_tao_mono _ _ _ _ _ _ Et) as M1.
      apply recv2_tao_ok in Et. destruct Et as [_ [Hlt [_ [_ Hc1]]]]. cbn in Hlt.
      assert (rcpt2 c' (q_dst q, q_seq q) = true) as Hrc.
      { assert (rcpt2 c1 (q_dst q, q_seq q) = true) as R1 by (subst c1; cbn; apply upd_same, ks_eqb_refl).
        (* the rest of the message only adds to the state reached by the TAO part *)
        destruct (recv2_loop _ _ _ _ _ _ _) as [st|]; [|discriminate]. destruct (l_async st).
        - injection Hs as <-. cbn. destruct (l_success st); exact R1.
        - destruct (negb (Bool.eqb _ _)); [discriminate|].
          destruct (write_ack2 _ q (l_acks st)) as [c3 o3] eqn:Ew. destruct o3; try discriminate. injection Hs as <-.
          apply write_ack2_ok in Ew. destruct Ew as [_ [_ [_ [_ [_ ->]]]]]. cbn. destruct (l_success st); exact R1. }
      split; [rewrite Tmo2_commit2; exact Hlt|]. split; [rewrite Eh; now left|]. split; [exact Hrc|].
      rewrite Ev. intros h0 snap [E|Hin] Hle.
      * injection E as <- <-. exact Hrc.
      * destruct (l_vers _ _ L _ _ Hin) as [_ Hle0]. fold c in Hle0. lia.
  - exact Hcur.
  - rewrite Ev. intros h0 snap k v [E|Hin] Hc.
    + injection E as <- <-. apply Hcur. exact Hc.
    + apply Hext. eapply (l2_ever_snap _ _ L2); eauto.
  - intros id s v Hv. apply gupd2_ever in Hv.
    destruct Hv as [Hold|(src & tmo & pay & sg & seq & dst & -> & Hop & Hn & Hcp & Hk & ->)].
    + destruct (l2_ever_lt _ _ L2 _ _ _ Hold) as [n [Hn L']]. destruct (m_nsend _ _ M _ _ Hn) as [n' [Hn' L'']].
      exists n'. split; [exact Hn'|lia].
    + injection Hk as -> ->. rewrite Hop in Eff. destruct Eff as [e Hs]. cbn [step] in Hs.
      destruct (msg_send2 e (set_block c h t) src tmo pay sg) as [[c1 o1] s1] eqn:E.
      injection Hs as E1 E2. subst c1 o1.
      unfold msg_send2 in E. destruct (_ || _ || _); [discriminate|].
      destruct (send2_tao e (set_block c h t) src tmo pay) as [[[c2 o2] s2] d2] eqn:Et. destruct o2; try discriminate.
      destruct (send2_callbacks _ _ _ _ _ _ _ _) as [[a' evs]|]; [|discriminate]. injection E as Ec' Es1.
      apply send2_tao_ok in Et. destruct Et as [_ [Hns [_ [_ [_ [_ [_ [_ Hc2]]]]]]]]. cbn in Hns.
      fold c in Hn. rewrite Hn in Hns. injection Hns as <-.
      exists (seq + 1). split; [|lia]. fold c'. rewrite <- Ec', Hc2. cbn. apply upd_same, N.eqb_refl.
  - intros e He. apply gupd2_tlog in He. destruct He as [Hold|(q & ph & rl & -> & Hop & ->)].
    + apply Hext. eapply (l2_tlog _ _ L2); eauto.
    + cbn [t2_src t2_com]. rewrite Hop in Eff. destruct Eff as [e Hs]. cbn [step] in Hs.
      unfold msg_timeout2 in Hs. destruct (packet2_valid q); cbn [negb] in Hs; [|discriminate].
      destruct (timeout2_tao e (set_block c h t) q ph) as [c1 o1] eqn:Et. destruct o1; try discriminate.
      apply timeout2_tao_ok in Et. destruct Et as [_ [_ [Hcm _]]]. cbn in Hcm.
      apply Hext, (l2_ever_cur _ _ L2). exact Hcm.
Qed.

Section Link2.
Variable lh : Id.

Record Link2 (X Y : WChain) (gX gY : Ghost2) : Prop := mkLink2 {
  k2_prov : forall r, In r (h_rlog gY) -> r2_client r <> lh -> h_ever gX (r2_src r) = Some (r2_com r);
  k2_tlog : forall e, In e (h_tlog gX) -> t2_client e <> lh ->
      exists t, Tmo2 (t2_com e) <= ns_to_s t /\ t <= self_t (w_chain Y);
  k2_excl : forall e r, In e (h_tlog gX) -> In r (h_rlog gY) -> t2_client e <> lh -> r2_client r <> lh ->
      t2_dst e = r2_dst r -> t2_src e = r2_src r -> False }.

Lemma ns_to_s_mono a b : a <= b -> ns_to_s a <= ns_to_s b.
Proof. intros H. unfold ns_to_s. apply N.div_le_mono; [discriminate|exact H]. Qed.

Theorem link2_step_src sc nc X Y gX gY hX hY h t o X' out :
  Local X gX -> Local Y gY -> Link lh X Y gX gY -> Local2 X hX -> Local2 Y hY -> Link2 X Y hX hY ->
  good_block X h t o -> wstep_chain sc nc lh X Y h t o = (X', out) ->
  Link2 X' Y (gupd2 hX (w_chain X) o h t out) hY.
Proof.
  intros LX LY K L2X L2Y K2 GB H.
  assert (forall k v, h_ever hX k = Some v -> h_ever (gupd2 hX (w_chain X) o h t out) k = Some v) as Hext.
  { intros k v. apply gupd2_ever_ext. intros id s v' Hv. exact (l2_ever_lt _ _ L2X _ _ _ Hv). }
  assert (forall q ph rl,
            out = Ok -> packet_of o = Some (OTimeout2 q ph rl) -> base_client (w_chain X) (q_src q) <> lh ->
            com2 (w_chain X) (q_src q, q_seq q) = Some (commit2 q) /\
            exists t0 ver snap cl,
              q_tt q <= ns_to_s t0 /\ In (base_client (w_chain X) (q_src q), cl) (w_clients X) /\ In (ph, (t0, ver)) (cl_cons cl) /\
              In (ver, snap) (w_vers Y) /\ rcpt2 snap (q_dst q, q_seq q) = false) as Htimeout.
  { intros q ph rl -> Hop Hne.
    destruct (wsc_effect_h lh _ _ _ _ _ _ _ _ _ _ H Hop) as [e [pf [Hs [Ets [Evn Evm]]]]]. cbn zeta in *.
    cbn [step] in Hs. unfold msg_timeout2 in Hs. destruct (packet2_valid q); cbn [negb] in Hs; [|discriminate].
    destruct (timeout2_tao e (set_block (w_chain X) h t) q ph) as [c1 o1] eqn:Et. destruct o1; try discriminate.
    apply timeout2_tao_ok in Et. destruct Et as [_ [[pts [Hts Hle]] [Hcm [Hvn _]]]]. cbn in Hts, Hcm, Hvn.
    change (base_client (set_block (w_chain X) h t) (q_src q)) with (base_client (w_chain X) (q_src q)) in *.
    split; [exact Hcm|].
    rewrite Evn in Hvn. cbn in Hvn. apply honest_nonmembership in Hvn; [|exact Hne].
    destruct Hvn as [t0 [ver [snap [Hc [_ [Hsn Hl]]]]]].
    rewrite Ets in Hts. destruct (honest_ts lh _ _ _ _ _ _ _ _ Hne Hts) as [ver2 Hca2].
    apply consulted_cons_at in Hc. rewrite Hc in Hca2. injection Hca2 as -> ->.
    destruct (cons_at_in _ _ _ _ _ Hc) as [cl [Hc1 Hc2]]. cbn in Hc1.
    exists pts, ver2, snap, cl. repeat split; auto; [now apply assocN_in|].
    cbn in Hl. destruct (rcpt2 snap (q_dst q, q_seq q)); [discriminate|reflexivity]. }
  constructor.
  - intros r Hr Hc. apply Hext. exact (k2_prov _ _ _ _ K2 _ Hr Hc).
  - intros e He Hc. apply gupd2_tlog in He. destruct He as [Hold|(q & ph & rl & Ho & Hop & ->)].
    + exact (k2_tlog _ _ _ _ K2 _ Hold Hc).
    + cbn [t2_com t2_client] in *.
      destruct (Htimeout _ _ _ Ho Hop Hc) as [_ [t0 [ver [snap [cl [Hle [Hc1 [Hc2 _]]]]]]]].
      destruct (k_cons _ _ _ _ _ K _ _ Hc1) as [_ C]. destruct (C _ _ _ Hc2) as [R1 [R2 R3]].
      destruct (l_hdrs _ _ LY _ _ R3) as [B1 B2]. exists t0. rewrite Tmo2_commit2. auto.
  - intros e r He Hr Hce Hcr Ed Es. apply gupd2_tlog in He. destruct He as [Hold|(q & ph & rl & Ho & Hop & ->)].
    + exact (k2_excl _ _ _ _ K2 _ _ Hold Hr Hce Hcr Ed Es).
    + cbn [t2_com t2_client t2_src t2_dst] in *.
      destruct (Htimeout _ _ _ Ho Hop Hce) as [Hcm [t0 [ver [snap [cl [Hle [Hc1 [Hc2 [Hv Hnr]]]]]]]]].
      destruct (k_cons _ _ _ _ _ K _ _ Hc1) as [_ C]. destruct (C _ _ _ Hc2) as [R1 [R2 R3]].
      destruct (l2_rlog _ _ L2Y _ Hr) as [Q1 [Q2 [Q3 Q4]]].
      pose proof (k2_prov _ _ _ _ K2 _ Hr Hcr) as Hp. rewrite <- Es in Hp.
      pose proof (l2_ever_cur _ _ L2X _ _ Hcm) as Hp'. rewrite Hp in Hp'. injection Hp' as Ecom.
      assert (ver < r2_h r) as Hlt.
      { destruct (N.lt_ge_cases ver (r2_h r)) as [L|L]; [exact L|]. exfalso.
        rewrite Ed in Hnr. rewrite (Q4 _ _ Hv L) in Hnr. discriminate. }
      assert (t0 <= r2_t r) as Htt by (eapply (l_hdrs_mono _ _ LY); eauto; lia).
      rewrite Ecom, Tmo2_commit2 in Q1. pose proof (ns_to_s_mono _ _ Htt). lia.
Qed.

Theorem link2_step_dst sc nc X Y gX gY hX hY h t o Y' out :
  Local X gX -> Local Y gY -> Local2 X hX -> Local2 Y hY -> Link2 X Y hX hY ->
  good_block Y h t o -> wstep_chain sc nc lh Y X h t o = (Y', out) ->
  Link2 X Y' hX (gupd2 hY (w_chain Y) o h t out).
Proof.
  intros LX LY L2X L2Y K2 GB H.
  destruct GB as [Hrev [Hht [Htime Hpo]]].
  destruct (wsc_self _ _ _ _ _ _ _ _ _ _ Hpo H) as [Sh St].
  assert (forall q ph rl,
            out = Ok -> packet_of o = Some (ORecv2 q ph rl) -> base_client (w_chain Y) (q_dst q) <> lh ->
            ns_to_s t < q_tt q /\ h_ever hX (q_src q, q_seq q) = Some (commit2 q)) as Hrecv.
  { intros q ph rl -> Hop Hne.
    destruct (wsc_effect_h lh _ _ _ _ _ _ _ _ _ _ H Hop) as [e [pf [Hs [Ets [Evn Evm]]]]]. cbn zeta in *.
    cbn [step] in Hs. unfold msg_recv2 in Hs. destruct (packet2_valid q); cbn [negb] in Hs; [|discriminate].
    destruct (recv2_tao e (set_block (w_chain Y) h t) q ph) as [c1 o1] eqn:Et. destruct o1; try discriminate.
    apply recv2_tao_ok in Et. destruct Et as [_ [Hlt [_ [Hvm _]]]]. cbn in Hlt, Hvm.
    change (base_client (set_block (w_chain Y) h t) (q_dst q)) with (base_client (w_chain Y) (q_dst q)) in *.
    split; [exact Hlt|].
    rewrite Evm in Hvm by exact I. cbn in Hvm. apply honest_membership in Hvm; [|exact Hne].
    destruct Hvm as [t0 [ver [snap [v' [_ [_ [Hsn [Hl Hv]]]]]]]].
    cbn in Hl. destruct (com2 snap (q_src q, q_seq q)) as [cm|] eqn:Ec; [|discriminate]. cbn in Hl. inversion Hl; subst v'.
    change (commit2_eqb (commit2 q) cm = true) in Hv. apply commit2_eqb_eq in Hv. subst cm.
    eapply (l2_ever_snap _ _ L2X); [apply assocN_in; exact Hsn|exact Ec]. }
  constructor.
  - intros r Hr Hc. apply gupd2_rlog in Hr. destruct Hr as [Hold|(q & ph & rl & Ho & Hop & ->)].
    + exact (k2_prov _ _ _ _ K2 _ Hold Hc).
    + cbn [r2_src r2_com r2_client] in *. exact (proj2 (Hrecv _ _ _ Ho Hop Hc)).
  - intros e He Hc. destruct (k2_tlog _ _ _ _ K2 _ He Hc) as [t0 [T1 T2]]. exists t0. rewrite St. split; [exact T1|lia].
  - intros e r He Hr Hce Hcr Ed Es. apply gupd2_rlog in Hr. destruct Hr as [Hold|(q & ph & rl & Ho & Hop & ->)].
    + exact (k2_excl _ _ _ _ K2 _ _ He Hold Hce Hcr Ed Es).
    + cbn [r2_src r2_dst r2_com r2_client] in *.
      destruct (Hrecv _ _ _ Ho Hop Hcr) as [Hlt Hp].
      destruct (k2_tlog _ _ _ _ K2 _ He Hce) as [t0 [T1 T2]].
      pose proof (l2_tlog _ _ L2X _ He) as Hq. rewrite Es in Hq. rewrite Hp in Hq. injection Hq as Ecom.
      rewrite <- Ecom, Tmo2_commit2 in T1. assert (t0 <= t) as Htt by lia. pose proof (ns_to_s_mono _ _ Htt). lia.
Qed.

End Link2.

(** ** both instrumentations together *)
Record IW2 := mkIW2 { iw1 : IW; ha : Ghost2; hb : Ghost2 }.

Definition istep2 (x : IW2) (s : WStep) : IW2 :=
  let w := iw (iw1 x) in
  let pre := w_chain (side_w w (ws_side s)) in
  let out := snd (wstep w (ws_side s) (ws_h s) (ws_t s) (ws_op s)) in
  match ws_side s with
  | SA => mkIW2 (istep (iw1 x) s) (gupd2 (ha x) pre (ws_op s) (ws_h s) (ws_t s) out) (hb x)
  | SB => mkIW2 (istep (iw1 x) s) (ha x) (gupd2 (hb x) pre (ws_op s) (ws_h s) (ws_t s) out)
  end.

Definition irun2 (x : IW2) (l : list WStep) : IW2 := fold_left istep2 l x.

Fixpoint good_steps2 (x : IW2) (l : list WStep) : Prop :=
  match l with [] => True | s :: l' => good_step (iw (iw1 x)) s /\ good_steps2 (istep2 x s) l' end.

Record WI2 (x : IW2) : Prop := mkWI2 {
  wi2_v1 : WI (iw1 x);
  wi2_la : Local2 (wa (iw (iw1 x))) (ha x);
  wi2_lb : Local2 (wb (iw (iw1 x))) (hb x);
  wi2_ab : Link2 (w_lh (iw (iw1 x))) (wa (iw (iw1 x))) (wb (iw (iw1 x))) (ha x) (hb x);
  wi2_ba : Link2 (w_lh (iw (iw1 x))) (wb (iw (iw1 x))) (wa (iw (iw1 x))) (hb x) (ha x) }.

Theorem wi2_step x s : WI2 x -> good_step (iw (iw1 x)) s -> WI2 (istep2 x s).
Proof.
  intros [I La Lb Kab Kba] G. pose proof (wi_step _ _ I G) as I'.
  destruct I as [L1a L1b K1ab K1ba].
  unfold istep2. destruct s as [side h t o]. cbn [ws_side ws_h ws_t ws_op] in *.
  unfold good_step in G. cbn [ws_side ws_h ws_t ws_op] in G.
  destruct side; cbn [side_w] in *.
  - constructor; cbn [iw1 ha hb]; [exact I'| | | |]; unfold istep; cbn [ws_side ws_h ws_t ws_op side_w]; unfold wstep;
      destruct (wstep_chain (w_script (iw (iw1 x))) (w_noncanon (iw (iw1 x))) (w_lh (iw (iw1 x))) (wa (iw (iw1 x))) (wb (iw (iw1 x))) h t o) as [a' out] eqn:E; cbn.
    + eapply local2_step; eauto.
    + exact Lb.
    + eapply link2_step_src; eauto.
    + eapply link2_step_dst; eauto.
  - constructor; cbn [iw1 ha hb]; [exact I'| | | |]; unfold istep; cbn [ws_side ws_h ws_t ws_op side_w]; unfold wstep;
      destruct (wstep_chain (w_script (iw (iw1 x))) (w_noncanon (iw (iw1 x))) (w_lh (iw (iw1 x))) (wb (iw (iw1 x))) (wa (iw (iw1 x))) h t o) as [b' out] eqn:E; cbn.
    + exact La.
    + eapply local2_step; eauto.
    + eapply link2_step_dst; eauto.
    + eapply link2_step_src; eauto.
Qed.

Theorem wi2_run x l : WI2 x -> good_steps2 x l -> WI2 (irun2 x l).
Proof.
  revert x; induction l as [|s l IH]; intros x I G; cbn [irun2 fold_left]; [exact I|].
  destruct G as [G1 G2]. apply IH; [now apply wi2_step|exact G2].
Qed.

(** IBC v2: an accepted MsgTimeout and an accepted MsgRecvPacket for the packet with the same source and destination
    (client or alias id, sequence) never both occur, in either order *)
Theorem timeout2_excludes_receive x l :
  WI2 x -> good_steps2 x l ->
  let y := irun2 x l in
  (forall e r, In e (h_tlog (ha y)) -> In r (h_rlog (hb y)) ->
     t2_client e <> w_lh (iw (iw1 y)) -> r2_client r <> w_lh (iw (iw1 y)) -> t2_dst e = r2_dst r -> t2_src e = r2_src r -> False) /\
  (forall e r, In e (h_tlog (hb y)) -> In r (h_rlog (ha y)) ->
     t2_client e <> w_lh (iw (iw1 y)) -> r2_client r <> w_lh (iw (iw1 y)) -> t2_dst e = r2_dst r -> t2_src e = r2_src r -> False).
Proof.
  intros I G y. pose proof (wi2_run _ _ I G) as [_ La Lb Kab Kba]. fold y in Kab, Kba. split.
  - intros e r He Hr. exact (k2_excl _ _ _ _ _ Kab e r He Hr).
  - intros e r He Hr. exact (k2_excl _ _ _ _ _ Kba e r He Hr).
Qed.

Theorem wi2_base w :
  base_chain (wa w) -> base_chain (wb w) -> base_clients (wa w) (wb w) -> base_clients (wb w) (wa w) ->
  WI2 (mkIW2 (mkIW w ghost0 ghost0) ghost20 ghost20).
Proof.
  intros Fa Fb Ca Cb.
  assert (forall Z, base_chain Z -> Local2 Z ghost20) as HL.
  { intros Z [He [H1 [H2 [H3 [Hv _]]]]]. constructor; cbn; rewrite ?Hv; cbn; try tauto; try discriminate.
    all: try (intros k v; rewrite H2; discriminate). }
  constructor; cbn; auto using wi_base; constructor; cbn; tauto.
Qed.

(** ** non-vacuity for v2 *)
Definition exv_chain (me_id cp_id : Id) : ChainS :=
  mkChain AppSt (fun _ => None) (fun _ => None) (fun p => p =? 1)
    (fun i => if i =? me_id then Some 1 else None) (fun _ => None) (fun _ => None)
    (fun _ => None) (fun _ => false) (fun _ => None) (fun _ => None) (fun _ => false) (fun _ => None) (fun _ => None)
    (fun i => if i =? me_id then Some cp_id else None) (fun _ => None) 0 (mkH 1 10) 1000 [].

Definition exv_client : Client := mkClient false (mkH 1 10) 1000000000000 [(mkH 1 10, (1000, 9))].

Definition exv : World :=
  mkWorld (mkW (exv_chain 9 8) [(9, exv_client)] [] [(10, 1000)])
          (mkW (exv_chain 8 9) [(8, exv_client)] [] [(10, 1000)])
          (mkScript (fun _ => 0) (fun _ => RSuccess) (fun _ => 2) (fun _ => false)) (fun _ => false) 99.

Definition exv_pay : Payload := mkPay 1 1 1 1 2.
Definition exv_packet : Packet2 := mkP2 1 9 8 1 [exv_pay].

Definition exv_steps : list WStep :=
  [ mkWS SA (mkH 1 11) 1100 (WPacket (OSend2 9 1 [exv_pay] 0) PGarbage);
    mkWS SB (mkH 1 11) 1100 WEmpty; mkWS SB (mkH 1 12) 2000000000 WEmpty; mkWS SB (mkH 1 13) 2000000100 WEmpty;
    mkWS SA (mkH 1 12) 2000000200 (WUpdateClient 9 13);
    mkWS SA (mkH 1 13) 2000000300 (WPacket (OTimeout2 exv_packet (mkH 1 13) 0) (PHonest 12 (KReceipt2 8 1))) ].

Lemma exv_base_chain a b : base_chain (mkW (exv_chain a b) [(a, exv_client)] [] [(10, 1000)]).
Proof.
  unfold base_chain. cbn. repeat split; try reflexivity.
  - destruct H as [E|[]]. inversion E; subst. lia.
  - destruct H as [E|[]]. inversion E; subst. lia.
  - destruct H as [E|[]]. inversion E; subst. lia.
  - intros h1 t1 h2 t2 [E1|[]] [E2|[]] _. inversion E1; inversion E2; subst. lia.
Qed.

Example exv_wi : WI2 (mkIW2 (mkIW exv ghost0 ghost0) ghost20 ghost20).
Proof.
  apply wi2_base.
  - apply exv_base_chain.
  - apply exv_base_chain.
  - intros id cl [E|[]]. inversion E; subst. cbn. split; [reflexivity|]. intros hh t ver [E'|[]]. inversion E'; subst. cbn. auto.
  - intros id cl [E|[]]. inversion E; subst. cbn. split; [reflexivity|]. intros hh t ver [E'|[]]. inversion E'; subst. cbn. auto.
Qed.

Example exv_good : good_steps2 (mkIW2 (mkIW exv ghost0 ghost0) ghost20 ghost20) exv_steps.
Proof. vm_compute. repeat split; first [reflexivity | discriminate | exact I | (intro HH; discriminate HH)]. Qed.

Example exv_timeout_accepted :
  map t2_src (h_tlog (ha (irun2 (mkIW2 (mkIW exv ghost0 ghost0) ghost20 ghost20) exv_steps))) = [(9, 1)].
Proof. vm_compute. reflexivity. Qed.

Lemma irun2_iw1 x l : iw1 (irun2 x l) = irun (iw1 x) l.
Proof.
  revert x; induction l as [|s l IH]; intros x; cbn [irun2 irun fold_left]; [reflexivity|].
  fold (irun2 (istep2 x s) l). fold (irun (istep (iw1 x) s) l). rewrite IH. f_equal.
  unfold istep2. destruct (ws_side s); reflexivity.
Qed.
