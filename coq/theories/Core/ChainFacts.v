(** Facts about the one-chain packet handlers of Core/Chain.v, for every environment (light client answers and
    application callbacks) and every history. *)
From IBC Require Import Lib.Bytes Lib.Dec Core.Height Core.HeightFacts Core.Chain.
Local Open Scope N_scope.

(** destruct the scrutinee of the first match / if found in the goal *)
Ltac dmatch :=
  match goal with
  | |- context [match ?x with _ => _ end] =>
      match type of x with
      | sumbool _ _ => destruct x
      | _ => let E := fresh "E" in destruct x eqn:E
      end
  end.

Ltac dmatch_in H :=
  match type of H with
  | context [match ?x with _ => _ end] => let E := fresh "E" in destruct x eqn:E
  end.

Section Facts.
Context {A : Type}.
Notation Chain := (Chain A).
Notation Env := (Env A).
Implicit Types (c : Chain) (e : Env).

(** ** A handler that does not return Ok returns the state it was given (NOOP and errors change nothing) *)

Lemma recv1_tao_same e c p ph c' out : recv1_tao e c p ph = (c', out) -> out <> Ok -> c' = c.
Proof. unfold recv1_tao. intros H N. repeat dmatch_in H; inversion H; subst; congruence. Qed.

Lemma write_ack1_same c p bz c' out : write_ack1 c p bz = (c', out) -> out <> Ok -> c' = c.
Proof. unfold write_ack1. intros H N. repeat dmatch_in H; inversion H; subst; congruence. Qed.

Lemma msg_recv1_same e c p ph r c' out : msg_recv1 e c p ph r = (c', out) -> out <> Ok -> c' = c.
Proof. unfold msg_recv1. intros H N. repeat dmatch_in H; inversion H; subst; congruence. Qed.

Lemma msg_ack1_same e c p a ph r c' out : msg_ack1 e c p a ph r = (c', out) -> out <> Ok -> c' = c.
Proof. unfold msg_ack1. intros H N. repeat dmatch_in H; inversion H; subst; congruence. Qed.

Lemma msg_timeout1_gen_same tao e c p nsr r c' out : msg_timeout1_gen tao e c p nsr r = (c', out) -> out <> Ok -> c' = c.
Proof. unfold msg_timeout1_gen. intros H N. repeat dmatch_in H; inversion H; subst; congruence. Qed.

Lemma send1_same e c port chan th tmo data c' out s : send1 e c port chan th tmo data = (c', out, s) -> out <> Ok -> c' = c.
Proof. unfold send1. intros H N. repeat dmatch_in H; inversion H; subst; congruence. Qed.

Lemma msg_send2_same e c src tmo pay sg c' out s : msg_send2 e c src tmo pay sg = (c', out, s) -> out <> Ok -> c' = c.
Proof. unfold msg_send2. intros H N. repeat dmatch_in H; inversion H; subst; congruence. Qed.

Lemma msg_recv2_same e c q ph r c' out : msg_recv2 e c q ph r = (c', out) -> out <> Ok -> c' = c.
Proof. unfold msg_recv2. intros H N. repeat dmatch_in H; inversion H; subst; congruence. Qed.

Lemma msg_ack2_same e c q acks ph r c' out : msg_ack2 e c q acks ph r = (c', out) -> out <> Ok -> c' = c.
Proof. unfold msg_ack2. intros H N. repeat dmatch_in H; inversion H; subst; congruence. Qed.

Lemma msg_timeout2_same e c q ph r c' out : msg_timeout2 e c q ph r = (c', out) -> out <> Ok -> c' = c.
Proof. unfold msg_timeout2. intros H N. repeat dmatch_in H; inversion H; subst; congruence. Qed.

Lemma async_ack2_same c id seq acks c' out : async_ack2 c id seq acks = (c', out) -> out <> Ok -> c' = c.
Proof. unfold async_ack2. intros H N. repeat dmatch_in H; inversion H; subst; congruence. Qed.

Lemma close_chan_same c port chan c' out : close_chan c port chan = (c', out) -> out <> Ok -> c' = c.
Proof. unfold close_chan. intros H N. repeat dmatch_in H; inversion H; subst; congruence. Qed.

Theorem step_not_ok_same e c o c' out : step e c o = (c', out) -> out <> Ok -> c' = c.
Proof.
  destruct o; cbn [step]; intros H N.
  - destruct (send1 e c port chan th tmo data) as [[c1 o1] s1] eqn:E. inversion H; subst. eapply send1_same; eauto.
  - eapply msg_recv1_same; eauto.
  - eapply msg_ack1_same; eauto.
  - eapply msg_timeout1_gen_same; eauto.
  - eapply msg_timeout1_gen_same; eauto.
  - eapply write_ack1_same; eauto.
  - destruct (msg_send2 e c src tmo pay signer) as [[c1 o1] s1] eqn:E. inversion H; subst. eapply msg_send2_same; eauto.
  - eapply msg_recv2_same; eauto.
  - eapply msg_ack2_same; eauto.
  - eapply msg_timeout2_same; eauto.
  - eapply async_ack2_same; eauto.
  - inversion H; subst. congruence.
  - eapply close_chan_same; eauto.
Qed.


(** ** Key equality *)
Lemma k2_eqb_eq (a b : K2) : k2_eqb a b = true <-> a = b.
Proof.
  destruct a as [a1 a2], b as [b1 b2]; unfold k2_eqb; cbn [fst snd].
  rewrite andb_true_iff, !N.eqb_eq. split; [intros [-> ->]; reflexivity|intros [= -> ->]; auto].
Qed.
Lemma k3_eqb_eq (a b : K3) : k3_eqb a b = true <-> a = b.
Proof.
  destruct a as [a1 a2], b as [b1 b2]; unfold k3_eqb; cbn [fst snd].
  rewrite andb_true_iff, k2_eqb_eq, N.eqb_eq. split; [intros [-> ->]; reflexivity|intros [= -> ->]; auto].
Qed.
Lemma ks_eqb_eq (a b : KS) : ks_eqb a b = true <-> a = b.
Proof.
  destruct a as [a1 a2], b as [b1 b2]; unfold ks_eqb; cbn [fst snd].
  rewrite andb_true_iff, !N.eqb_eq. split; [intros [-> ->]; reflexivity|intros [= -> ->]; auto].
Qed.
Lemma k2_eqb_refl a : k2_eqb a a = true. Proof. now apply k2_eqb_eq. Qed.
Lemma k3_eqb_refl a : k3_eqb a a = true. Proof. now apply k3_eqb_eq. Qed.
Lemma ks_eqb_refl a : ks_eqb a a = true. Proof. now apply ks_eqb_eq. Qed.

Lemma upd_same {K V} (eqb : K -> K -> bool) (m : K -> V) k v : eqb k k = true -> upd eqb m k v k = v.
Proof. unfold upd. now intros ->. Qed.
Lemma upd_other {K V} (eqb : K -> K -> bool) (m : K -> V) k v k' : eqb k k' = false -> upd eqb m k v k' = m k'.
Proof. unfold upd. now intros ->. Qed.

Lemma commit1_eqb_eq a b : commit1_eqb a b = true <-> a = b.
Proof.
  destruct a as [[d [r h]] t], b as [[d' [r' h']] t']; unfold commit1_eqb.
  rewrite !andb_true_iff, !N.eqb_eq. split; [intros [[[-> ->] ->] ->]; reflexivity|intros [= -> -> -> ->]; auto].
Qed.

Lemma payload_eqb_eq a b : payload_eqb a b = true <-> a = b.
Proof.
  destruct a, b; unfold payload_eqb; cbn. rewrite !andb_true_iff, !N.eqb_eq.
  split; [intros [[[[-> ->] ->] ->] ->]; reflexivity|intros [= -> -> -> -> ->]; auto].
Qed.
Lemma payloads_eqb_eq a b : payloads_eqb a b = true <-> a = b.
Proof.
  revert b; induction a as [|x a IH]; destruct b as [|y b]; cbn; split; try congruence; auto.
  - rewrite andb_true_iff, payload_eqb_eq, IH. intros [-> ->]; reflexivity.
  - intros [= -> ->]. rewrite andb_true_iff, payload_eqb_eq, IH. auto.
Qed.
Lemma commit2_eqb_eq a b : commit2_eqb a b = true <-> a = b.
Proof.
  destruct a as [[d t] l], b as [[d' t'] l']; unfold commit2_eqb.
  rewrite !andb_true_iff, !N.eqb_eq, payloads_eqb_eq. split; [intros [[-> ->] ->]; reflexivity|intros [= -> -> ->]; auto].
Qed.

(** ** What a successful handler guarantees (inversion lemmas: every guard of the Go code) *)

(** C05, v1: a packet is received only if ... *)
Lemma recv1_tao_ok e c p ph c' :
  recv1_tao e c p ph = (c', Ok) ->
  exists ch k,
    chans c (p_dp p, p_dc p) = Some ch /\ c_state ch = ST_OPEN /\
    p_sp p = c_cp_port ch /\ p_sc p = c_cp_chan ch /\
    conns c (c_conn ch) = Some k /\ k_open k = true /\
    elapsed (timeout1 p) (self_h c) (self_t c) = false /\
    e_vmem e (k_client k) ph (KCommit1 (p_sp p) (p_sc p) (p_seq p)) (VCommit1 (commit1 p)) = true /\
    ((c_ord ch = UNORDERED /\ rcpt1 c (p_dp p, p_dc p, p_seq p) = false /\
      c' = set_rcpt1 c (upd k3_eqb (rcpt1 c) (p_dp p, p_dc p, p_seq p) true)) \/
     (c_ord ch = ORDERED /\ nrecv c (p_dp p, p_dc p) = Some (p_seq p) /\
      c' = set_nrecv c (upd k2_eqb (nrecv c) (p_dp p, p_dc p) (Some (p_seq p + 1))))).
Proof.
  unfold recv1_tao. intros H.
  destruct (chans c (p_dp p, p_dc p)) as [ch|] eqn:Ech; [|discriminate].
  destruct (is_open (c_state ch)) eqn:Eo; cbn [negb] in H; [|discriminate].
  destruct (p_sp p =? c_cp_port ch) eqn:Esp; cbn [negb] in H; [|discriminate].
  destruct (p_sc p =? c_cp_chan ch) eqn:Esc; cbn [negb] in H; [|discriminate].
  destruct (conns c (c_conn ch)) as [k|] eqn:Ek; [|discriminate].
  destruct (k_open k) eqn:Eko; cbn [negb] in H; [|discriminate].
  destruct (elapsed (timeout1 p) (self_h c) (self_t c)) eqn:Eel; [discriminate|].
  destruct (e_vmem e (k_client k) ph _ _) eqn:Ev; cbn [negb] in H; [|discriminate].
  exists ch, k. apply N.eqb_eq in Esp, Esc.
  assert (c_state ch = ST_OPEN) by (unfold is_open in Eo; destruct (c_state ch); cbn in Eo; congruence).
  repeat (split; [first [assumption|reflexivity]|]).
  destruct (c_ord ch).
  - right. destruct (nrecv c (p_dp p, p_dc p)) as [nr|]; [|discriminate].
    destruct (p_seq p <? nr); [discriminate|].
    destruct (p_seq p =? nr) eqn:En; cbn [negb] in H; [|discriminate].
    apply N.eqb_eq in En. subst nr. inversion H. auto.
  - left. destruct (rcpt1 c (p_dp p, p_dc p, p_seq p)); [discriminate|]. inversion H. auto.
Qed.

Lemma write_ack1_ok c p bz c' :
  write_ack1 c p bz = (c', Ok) ->
  ackc1 c (p_dp p, p_dc p, p_seq p) = None /\ bz <> 0 /\
  c' = set_ackc1 c (upd k3_eqb (ackc1 c) (p_dp p, p_dc p, p_seq p) (Some bz)).
Proof.
  unfold write_ack1. intros H. repeat dmatch_in H; try discriminate. inversion H.
  repeat split; auto. now apply N.eqb_neq.
Qed.

(** shape of the result of msg_recv1 (C09): what persists depends only on the kind of acknowledgement *)
Lemma msg_recv1_ok e c p ph r c' :
  msg_recv1 e c p ph r = (c', Ok) ->
  exists c1, recv1_tao e c p ph = (c1, Ok) /\ packet1_valid p = true /\
    let res := e_recv1 e (app c1) p r in
    let c2 := add_events c1 [EvRecv1 (p_dp p) (p_dc p) (p_seq p)] in
    match snd res with
    | None => c' = set_app c2 (fst res)
    | Some (true, bz) => write_ack1 (set_app c2 (fst res)) p bz = (c', Ok)
    | Some (false, bz) => write_ack1 c2 p bz = (c', Ok)
    end.
Proof.
  unfold msg_recv1. intros H.
  destruct (packet1_valid p) eqn:Ev; cbn [negb] in H; [|discriminate].
  destruct (ports c (p_dp p)); cbn [negb] in H; [|discriminate].
  destruct (recv1_tao e c p ph) as [c1 o1] eqn:Et. destruct o1; try discriminate.
  exists c1. split; [reflexivity|]. split; [reflexivity|]. cbn zeta.
  destruct (e_recv1 e (app c1) p r) as [a' ack]. cbn [fst snd].
  destruct ack as [[[] bz]|].
  - destruct (write_ack1 _ p bz) as [c4 o4] eqn:Ew. destruct o4; try discriminate. inversion H; subst. reflexivity.
  - destruct (write_ack1 _ p bz) as [c4 o4] eqn:Ew. destruct o4; try discriminate. inversion H; subst. reflexivity.
  - inversion H. reflexivity.
Qed.

(** C06, v1 *)
Lemma ack1_tao_ok e c p ack ph c' :
  ack1_tao e c p ack ph = (c', Ok) ->
  exists ch k,
    chans c (p_sp p, p_sc p) = Some ch /\ c_state ch = ST_OPEN /\
    p_dp p = c_cp_port ch /\ p_dc p = c_cp_chan ch /\
    conns c (c_conn ch) = Some k /\ k_open k = true /\
    com1 c (p_sp p, p_sc p, p_seq p) = Some (commit1 p) /\
    e_noncanon e ack = false /\
    e_vmem e (k_client k) ph (KAck1 (p_dp p) (p_dc p) (p_seq p)) (VAck1 ack) = true /\
    com1 c' (p_sp p, p_sc p, p_seq p) = None /\
    (forall k', k' <> (p_sp p, p_sc p, p_seq p) -> com1 c' k' = com1 c k') /\
    (c_ord ch = ORDERED -> nack c (p_sp p, p_sc p) = Some (p_seq p) /\ nack c' (p_sp p, p_sc p) = Some (p_seq p + 1)) /\
    chans c' = chans c /\ nsend c' = nsend c /\ events c' = events c /\ app c' = app c /\
    rcpt1 c' = rcpt1 c /\ ackc1 c' = ackc1 c /\ nrecv c' = nrecv c /\
    com2 c' = com2 c /\ rcpt2 c' = rcpt2 c /\ ackc2 c' = ackc2 c /\ asyn2 c' = asyn2 c.
Proof.
  unfold ack1_tao. intros H.
  destruct (chans c (p_sp p, p_sc p)) as [ch|] eqn:Ech; [|discriminate].
  destruct (is_open (c_state ch)) eqn:Eo; cbn [negb] in H; [|discriminate].
  destruct (p_dp p =? c_cp_port ch) eqn:Esp; cbn [negb] in H; [|discriminate].
  destruct (p_dc p =? c_cp_chan ch) eqn:Esc; cbn [negb] in H; [|discriminate].
  destruct (conns c (c_conn ch)) as [k|] eqn:Ek; [|discriminate].
  destruct (k_open k) eqn:Eko; cbn [negb] in H; [|discriminate].
  destruct (com1 c (p_sp p, p_sc p, p_seq p)) as [cm|] eqn:Ecm; [|discriminate].
  destruct (e_noncanon e ack) eqn:Enc; [discriminate|].
  destruct (commit1_eqb cm (commit1 p)) eqn:Eeq; cbn [negb] in H; [|discriminate].
  destruct (e_vmem e (k_client k) ph _ _) eqn:Ev; cbn [negb] in H; [|discriminate].
  apply commit1_eqb_eq in Eeq. subst cm. apply N.eqb_eq in Esp, Esc.
  assert (c_state ch = ST_OPEN) by (unfold is_open in Eo; destruct (c_state ch); cbn in Eo; congruence).
  exists ch, k. repeat (split; [first [assumption|reflexivity]|]).
  destruct (c_ord ch) eqn:Eord.
  - destruct (nack c (p_sp p, p_sc p)) as [na|] eqn:Ena; [|discriminate].
    destruct (p_seq p =? na) eqn:En; cbn [negb] in H; [|discriminate].
    apply N.eqb_eq in En. subst na. inversion H; subst c'; cbn.
    split; [apply upd_same, k3_eqb_refl|].
    split; [intros k' Hk; apply upd_other; destruct (k3_eqb _ k') eqn:E; [apply k3_eqb_eq in E; congruence|reflexivity]|].
    split; [intros _; split; [reflexivity|apply upd_same, k2_eqb_refl]|].
    repeat split.
  - inversion H; subst c'; cbn.
    split; [apply upd_same, k3_eqb_refl|].
    split; [intros k' Hk; apply upd_other; destruct (k3_eqb _ k') eqn:E; [apply k3_eqb_eq in E; congruence|reflexivity]|].
    split; [discriminate|]. repeat split.
Qed.


(** ** Monotone parts of the state: what no packet handler ever undoes *)
Record Mono (c c' : Chain) : Prop := mkMono {
  m_rcpt1 : forall k, rcpt1 c k = true -> rcpt1 c' k = true;
  m_rcpt2 : forall k, rcpt2 c k = true -> rcpt2 c' k = true;
  m_ackc1 : forall k a, ackc1 c k = Some a -> ackc1 c' k = Some a;
  m_ackc2 : forall k a, ackc2 c k = Some a -> ackc2 c' k = Some a;
  m_nsend : forall i n, nsend c i = Some n -> exists n', nsend c' i = Some n' /\ n <= n';
  m_nrecv : forall k n, nrecv c k = Some n -> exists n', nrecv c' k = Some n' /\ n <= n';
  m_nack : forall k n, nack c k = Some n -> exists n', nack c' k = Some n' /\ n <= n';
  m_chans : forall k ch, chans c k = Some ch -> exists ch', chans c' k = Some ch' /\ c_ord ch' = c_ord ch /\
              c_cp_port ch' = c_cp_port ch /\ c_cp_chan ch' = c_cp_chan ch /\ c_conn ch' = c_conn ch /\
              (c_state ch = ST_CLOSED -> c_state ch' = ST_CLOSED);
  m_events : exists new, events c' = events c ++ new }.

Lemma mono_refl c : Mono c c.
Proof. constructor; eauto using N.le_refl. - intros k ch H; exists ch; auto 10. - exists []; now rewrite app_nil_r. Qed.

Lemma mono_trans a b c : Mono a b -> Mono b c -> Mono a c.
Proof.
  intros [A1 A2 A3 A4 A5 A6 A7 A8 [n1 A9]] [B1 B2 B3 B4 B5 B6 B7 B8 [n2 B9]]. constructor; auto.
  - intros i n H. destruct (A5 _ _ H) as [n' [H1 L1]]. destruct (B5 _ _ H1) as [n'' [H2 L2]]. exists n''; split; [auto|lia].
  - intros i n H. destruct (A6 _ _ H) as [n' [H1 L1]]. destruct (B6 _ _ H1) as [n'' [H2 L2]]. exists n''; split; [auto|lia].
  - intros i n H. destruct (A7 _ _ H) as [n' [H1 L1]]. destruct (B7 _ _ H1) as [n'' [H2 L2]]. exists n''; split; [auto|lia].
  - intros k ch H. destruct (A8 _ _ H) as [ch1 [H1 [O1 [P1 [Q1 [R1 S1]]]]]]. destruct (B8 _ _ H1) as [ch2 [H2 [O2 [P2 [Q2 [R2 S2]]]]]].
    exists ch2. repeat split; try congruence. auto.
  - exists (n1 ++ n2). now rewrite B9, A9, app_assoc.
Qed.

(** solve the goals produced by unfolding a handler completely *)
Ltac same_key :=
  repeat match goal with
         | H1 : ?f ?k = Some ?a, H2 : ?f ?k = Some ?b |- _ =>
             lazymatch a with
             | b => fail
             | _ => rewrite H1 in H2; inversion H2; subst
             end
         end.

Ltac mono_field :=
  cbn; unfold upd; intros;
  repeat match goal with
         | |- context [if ?b then _ else _] => let E := fresh "E" in destruct b eqn:E
         | H : k2_eqb _ _ = true |- _ => apply k2_eqb_eq in H; subst
         | H : k3_eqb _ _ = true |- _ => apply k3_eqb_eq in H; subst
         | H : ks_eqb _ _ = true |- _ => apply ks_eqb_eq in H; subst
         | H : N.eqb _ _ = true |- _ => apply N.eqb_eq in H; subst
         end;
  same_key;
  try congruence;
  try solve [eauto using N.le_refl];
  try solve [eexists; split; [reflexivity|lia]];
  try solve [eexists; split; [reflexivity|cbn; auto 10]];
  try solve [eexists; split; [eassumption|cbn; auto 10]];
  try solve [exists []; cbn; now rewrite app_nil_r];
  try solve [eexists; cbn; reflexivity].

Lemma send1_mono e c port chan th tmo data c' out s : send1 e c port chan th tmo data = (c', out, s) -> Mono c c'.
Proof.
  intros H. destruct out; try (erewrite (send1_same _ _ _ _ _ _ _ _ _ _ H) by discriminate; apply mono_refl).
  unfold send1 in H. repeat dmatch_in H; try discriminate. inversion H; subst. clear H.
  constructor; mono_field.
Qed.


Ltac mono_handler H :=
  repeat dmatch_in H; try discriminate;
  first [ inversion H; subst; clear H; constructor; mono_field | idtac ].

Lemma mono_add_events c evs : Mono c (add_events c evs).
Proof. constructor; mono_field. Qed.
Lemma mono_set_app c a : Mono c (set_app c a).
Proof. constructor; mono_field. Qed.
Lemma mono_set_asyn2 c v : Mono c (set_asyn2 c v).
Proof. constructor; mono_field. Qed.

Lemma recv1_tao_mono e c p ph c' out : recv1_tao e c p ph = (c', out) -> Mono c c'.
Proof.
  intros H. destruct out; try (erewrite (recv1_tao_same _ _ _ _ _ _ H) by discriminate; apply mono_refl).
  unfold recv1_tao in H. mono_handler H.
Qed.

Lemma write_ack1_mono c p bz c' out : write_ack1 c p bz = (c', out) -> Mono c c'.
Proof.
  intros H. destruct out; try (erewrite (write_ack1_same _ _ _ _ _ H) by discriminate; apply mono_refl).
  unfold write_ack1 in H. mono_handler H.
Qed.

Lemma msg_recv1_mono e c p ph r c' : msg_recv1 e c p ph r = (c', Ok) -> Mono c c'.
Proof.
  intros H. apply msg_recv1_ok in H. destruct H as [c1 [Ht [_ H]]]. cbn zeta in H.
  apply recv1_tao_mono in Ht.
  destruct (e_recv1 e (app c1) p r) as [a' [[[] bz]|]]; cbn [fst snd] in H.
  - apply write_ack1_mono in H. eapply mono_trans; [exact Ht|]. eapply mono_trans; [apply mono_add_events|].
    eapply mono_trans; [apply mono_set_app|exact H].
  - apply write_ack1_mono in H. eapply mono_trans; [exact Ht|]. eapply mono_trans; [apply mono_add_events|exact H].
  - subst c'. eapply mono_trans; [exact Ht|]. eapply mono_trans; [apply mono_add_events|apply mono_set_app].
Qed.

Lemma ack1_tao_mono e c p a ph c' out : ack1_tao e c p a ph = (c', out) -> Mono c c'.
Proof.
  intros H. unfold ack1_tao in H. repeat dmatch_in H; try discriminate; inversion H; subst; clear H;
    try apply mono_refl; constructor; mono_field.
Qed.

Lemma msg_ack1_mono e c p a ph r c' : msg_ack1 e c p a ph r = (c', Ok) -> Mono c c'.
Proof.
  unfold msg_ack1. intros H.
  destruct (ack1_tao e c p a ph) as [c1 o1] eqn:Et. apply ack1_tao_mono in Et.
  repeat dmatch_in H; try discriminate. inversion H; subst.
  eapply mono_trans; [exact Et|]. eapply mono_trans; [apply mono_set_app|apply mono_add_events].
Qed.

Lemma timeout_executed_mono c ch p : chans c (p_sp p, p_sc p) = Some ch -> Mono c (timeout_executed c ch p).
Proof. intros H. unfold timeout_executed. destruct (c_ord ch) eqn:E; constructor; mono_field. Qed.

Lemma timeout1_tao_mono e c p ph nsr c' out : timeout1_tao e c p ph nsr = (c', out) -> Mono c c'.
Proof.
  intros H. unfold timeout1_tao in H.
  destruct (chans c (p_sp p, p_sc p)) as [ch|] eqn:Ech; [|inversion H; apply mono_refl].
  repeat dmatch_in H; try discriminate; inversion H; subst; clear H; try apply mono_refl.
  now apply timeout_executed_mono.
Qed.

Lemma timeout_on_close1_tao_mono e c p ph nsr c' out : timeout_on_close1_tao e c p ph nsr = (c', out) -> Mono c c'.
Proof.
  intros H. unfold timeout_on_close1_tao in H.
  destruct (chans c (p_sp p, p_sc p)) as [ch|] eqn:Ech; [|inversion H; apply mono_refl].
  repeat dmatch_in H; try discriminate; inversion H; subst; clear H; try apply mono_refl.
  now apply timeout_executed_mono.
Qed.

Lemma msg_timeout1_gen_mono tao e c p nsr r c' :
  Mono c (fst tao) -> msg_timeout1_gen tao e c p nsr r = (c', Ok) -> Mono c c'.
Proof.
  unfold msg_timeout1_gen. intros Ht H. destruct tao as [c1 o1]. cbn [fst] in Ht.
  repeat dmatch_in H; try discriminate. inversion H; subst.
  eapply mono_trans; [exact Ht|]. eapply mono_trans; [apply mono_set_app|apply mono_add_events].
Qed.


Lemma send2_tao_mono e c src tmo pay c' out s d : send2_tao e c src tmo pay = (c', out, s, d) -> Mono c c'.
Proof.
  intros H. unfold send2_tao in H. repeat dmatch_in H; try discriminate; inversion H; subst; clear H;
    try apply mono_refl; constructor; mono_field.
Qed.

Lemma msg_send2_mono e c src tmo pay sg c' s : msg_send2 e c src tmo pay sg = (c', Ok, s) -> Mono c c'.
Proof.
  unfold msg_send2. intros H.
  destruct (send2_tao e c src tmo pay) as [[[c1 o1] s1] d1] eqn:Et. apply send2_tao_mono in Et.
  repeat dmatch_in H; try discriminate. inversion H; subst.
  eapply mono_trans; [exact Et|]. eapply mono_trans; [apply mono_set_app|apply mono_add_events].
Qed.

Lemma recv2_tao_mono e c q ph c' out : recv2_tao e c q ph = (c', out) -> Mono c c'.
Proof.
  intros H. unfold recv2_tao in H. repeat dmatch_in H; try discriminate; inversion H; subst; clear H;
    try apply mono_refl; constructor; mono_field.
Qed.

Lemma write_ack2_mono c q acks c' out : write_ack2 c q acks = (c', out) -> Mono c c'.
Proof.
  intros H. unfold write_ack2 in H. repeat dmatch_in H; try discriminate; inversion H; subst; clear H;
    try apply mono_refl; constructor; mono_field.
Qed.

Lemma msg_recv2_mono e c q ph r c' : msg_recv2 e c q ph r = (c', Ok) -> Mono c c'.
Proof.
  unfold msg_recv2. intros H.
  destruct (packet2_valid q); cbn [negb] in H; [|discriminate].
  destruct (recv2_tao e c q ph) as [c1 o1] eqn:Et. apply recv2_tao_mono in Et.
  destruct o1; try discriminate.
  destruct (recv2_loop _ _ _ _ _ _ _) as [st|]; [|discriminate].
  assert (Mono c (add_events (if l_success st then set_app c1 (l_app st) else c1) (l_evs st))) as M2.
  { eapply mono_trans; [exact Et|]. destruct (l_success st).
    - eapply mono_trans; [apply mono_set_app|apply mono_add_events].
    - apply mono_add_events. }
  destruct (l_async st).
  - inversion H; subst. eapply mono_trans; [exact M2|apply mono_set_asyn2].
  - destruct (negb (Bool.eqb _ _)); [discriminate|].
    destruct (write_ack2 _ q (l_acks st)) as [c3 o3] eqn:Ew. destruct o3; try discriminate.
    inversion H; subst. eapply mono_trans; [exact M2|]. eapply write_ack2_mono; eauto.
Qed.

Lemma ack2_tao_mono e c q acks ph c' out : ack2_tao e c q acks ph = (c', out) -> Mono c c'.
Proof.
  intros H. unfold ack2_tao in H. repeat dmatch_in H; try discriminate; inversion H; subst; clear H;
    try apply mono_refl; constructor; mono_field.
Qed.

Lemma msg_ack2_mono e c q acks ph r c' : msg_ack2 e c q acks ph r = (c', Ok) -> Mono c c'.
Proof.
  unfold msg_ack2. intros H.
  destruct (ack2_tao e c q acks ph) as [c1 o1] eqn:Et. apply ack2_tao_mono in Et.
  repeat dmatch_in H; try discriminate. inversion H; subst.
  eapply mono_trans; [exact Et|]. eapply mono_trans; [apply mono_set_app|apply mono_add_events].
Qed.

Lemma timeout2_tao_mono e c q ph c' out : timeout2_tao e c q ph = (c', out) -> Mono c c'.
Proof.
  intros H. unfold timeout2_tao in H. repeat dmatch_in H; try discriminate; inversion H; subst; clear H;
    try apply mono_refl; constructor; mono_field.
Qed.

Lemma msg_timeout2_mono e c q ph r c' : msg_timeout2 e c q ph r = (c', Ok) -> Mono c c'.
Proof.
  unfold msg_timeout2. intros H.
  destruct (timeout2_tao e c q ph) as [c1 o1] eqn:Et. apply timeout2_tao_mono in Et.
  repeat dmatch_in H; try discriminate. inversion H; subst.
  eapply mono_trans; [exact Et|]. eapply mono_trans; [apply mono_set_app|apply mono_add_events].
Qed.

Lemma async_ack2_mono c id seq acks c' : async_ack2 c id seq acks = (c', Ok) -> Mono c c'.
Proof.
  unfold async_ack2. intros H.
  destruct (asyn2 c (id, seq)) as [q|]; [|discriminate].
  destruct (write_ack2 c q acks) as [c1 o1] eqn:Ew. destruct o1; try discriminate. inversion H; subst.
  eapply mono_trans; [eapply write_ack2_mono; eauto|apply mono_set_asyn2].
Qed.

Lemma close_chan_mono c port chan c' out : close_chan c port chan = (c', out) -> Mono c c'.
Proof.
  intros H. destruct out; try (erewrite (close_chan_same _ _ _ _ _ H) by discriminate; apply mono_refl).
  unfold close_chan in H. mono_handler H.
Qed.

Theorem step_mono e c o c' out : step e c o = (c', out) -> Mono c c'.
Proof.
  intros H. destruct out; try (rewrite (step_not_ok_same _ _ _ _ _ H) by discriminate; apply mono_refl).
  destruct o; cbn [step] in H.
  - destruct (send1 e c port chan th tmo data) as [[c1 o1] s1] eqn:E. inversion H; subst. eapply send1_mono; eauto.
  - eapply msg_recv1_mono; eauto.
  - eapply msg_ack1_mono; eauto.
  - eapply msg_timeout1_gen_mono; [|exact H]. destruct (timeout1_tao e c p ph nsr) eqn:E. eapply timeout1_tao_mono; eauto.
  - eapply msg_timeout1_gen_mono; [|exact H]. destruct (timeout_on_close1_tao e c p ph nsr) eqn:E. eapply timeout_on_close1_tao_mono; eauto.
  - eapply write_ack1_mono; eauto.
  - destruct (msg_send2 e c src tmo pay signer) as [[c1 o1] s1] eqn:E. inversion H; subst. eapply msg_send2_mono; eauto.
  - eapply msg_recv2_mono; eauto.
  - eapply msg_ack2_mono; eauto.
  - eapply msg_timeout2_mono; eauto.
  - eapply async_ack2_mono; eauto.
  - inversion H; subst. constructor; mono_field.
  - eapply close_chan_mono; eauto.
Qed.

Lemma run_mono c hist : Mono c (run c hist).
Proof.
  revert c; induction hist as [|[e o] hist IH]; intros c; cbn [run fold_left].
  - apply mono_refl.
  - destruct (step e c o) as [c1 o1] eqn:E. cbn [fst snd]. rewrite E. cbn [fst].
    eapply mono_trans; [eapply step_mono; eauto|apply IH].
Qed.


(** ** Events: which application callbacks ran.  Keys identify "the receive of packet k" and
    "the terminal outcome (acknowledgement or timeout) of packet k". *)
Inductive RKey := R1 (p ch : Id) (s : N) | R2 (id : Id) (s i : N).
Inductive TKey := T1 (p ch : Id) (s : N) | T2 (id : Id) (s i : N).
Definition rkey (ev : Event) : list RKey :=
  match ev with EvRecv1 p c s => [R1 p c s] | EvRecv2 i s x => [R2 i s x] | _ => [] end.
Definition tkey (ev : Event) : list TKey :=
  match ev with
  | EvAck1 p c s _ | EvTimeout1 p c s => [T1 p c s]
  | EvAck2 i s x _ | EvTimeout2 i s x => [T2 i s x]
  | _ => []
  end.
Definition rkeys (evs : list Event) : list RKey := flat_map rkey evs.
Definition tkeys (evs : list Event) : list TKey := flat_map tkey evs.

Lemma rkeys_app a b : rkeys (a ++ b) = rkeys a ++ rkeys b.
Proof. unfold rkeys. now rewrite flat_map_app. Qed.
Lemma tkeys_app a b : tkeys (a ++ b) = tkeys a ++ tkeys b.
Proof. unfold tkeys. now rewrite flat_map_app. Qed.

Definition received c (k : RKey) : Prop :=
  match k with
  | R1 p ch s => exists en, chans c (p, ch) = Some en /\
                   match c_ord en with
                   | UNORDERED => rcpt1 c (p, ch, s) = true
                   | ORDERED => exists nr, nrecv c (p, ch) = Some nr /\ s < nr
                   end
  | R2 id s _ => rcpt2 c (id, s) = true
  end.

Definition finished c (k : TKey) : Prop :=
  match k with
  | T1 p ch s => com1 c (p, ch, s) = None /\ exists n, nsend c ch = Some n /\ s < n
  | T2 id s _ => com2 c (id, s) = None /\ exists n, nsend c id = Some n /\ s < n
  end.

Definition pending c (k : TKey) : Prop :=
  match k with
  | T1 p ch s => com1 c (p, ch, s) <> None
  | T2 id s _ => com2 c (id, s) <> None
  end.

Lemma received_mono c c' k : Mono c c' -> received c k -> received c' k.
Proof.
  intros M. destruct k as [p ch s|id s i]; cbn.
  - intros [en [He Hr]]. destruct (m_chans _ _ M _ _ He) as [en' [He' [Ho _]]].
    exists en'. split; [exact He'|]. rewrite Ho. destruct (c_ord en).
    + destruct Hr as [nr [Hn L]]. destruct (m_nrecv _ _ M _ _ Hn) as [n' [Hn' L']]. exists n'. split; [exact Hn'|lia].
    + now apply (m_rcpt1 _ _ M).
  - apply (m_rcpt2 _ _ M).
Qed.

(** sequences [idx; idx+1; ...] of a given length *)
Fixpoint seqN (idx : N) (m : nat) : list N :=
  match m with O => [] | S m' => idx :: seqN (idx + 1) m' end.

Lemma seqN_ge idx m x : In x (seqN idx m) -> idx <= x.
Proof. revert idx; induction m as [|m IH]; cbn; intros idx H; [contradiction|]. destruct H as [<-|H]; [lia|]. apply IH in H. lia. Qed.
Lemma seqN_nodup idx m : NoDup (seqN idx m).
Proof.
  revert idx; induction m as [|m IH]; cbn; intros idx; constructor; [|apply IH].
  intros H. apply seqN_ge in H. lia.
Qed.
Lemma nodup_map_inj {X Y} (f : X -> Y) l : (forall a b, f a = f b -> a = b) -> NoDup l -> NoDup (map f l).
Proof.
  intros Hi. induction 1 as [|x l Hn Hd IH]; cbn; constructor; auto.
  intros H. apply in_map_iff in H as [y [E Hy]]. apply Hi in E. subst. contradiction.
Qed.

(** the v2 payload loops emit one event per payload with consecutive payload indices *)
Lemma recv2_loop_keys e q r n idx pay st st' :
  recv2_loop e q r n idx pay st = Some st' ->
  exists m, (m <= length pay)%nat /\
    rkeys (l_evs st') = rkeys (l_evs st) ++ map (R2 (q_dst q) (q_seq q)) (seqN idx m) /\
    tkeys (l_evs st') = tkeys (l_evs st).
Proof.
  revert idx st; induction pay as [|y pay IH]; intros idx st H; cbn [recv2_loop] in H.
  - inversion H; subst. exists 0%nat. cbn. rewrite app_nil_r. auto.
  - destruct (e_recv2 e (l_app st) (q_src q) (q_dst q) (q_seq q) y r) as [a' [status ackb]].
    assert (forall b0 s0 d0, let st1 := mkLoop a' b0 s0 d0 (l_evs st ++ [EvRecv2 (q_dst q) (q_seq q) idx]) in
            recv2_loop e q r n (idx + 1) pay st1 = Some st' ->
            exists m, (m <= length (y :: pay))%nat /\
              rkeys (l_evs st') = rkeys (l_evs st) ++ map (R2 (q_dst q) (q_seq q)) (seqN idx m) /\
              tkeys (l_evs st') = tkeys (l_evs st)) as Step.
    { intros b0 s0 d0 st1 H1. apply IH in H1. destruct H1 as [m [Lm [Hr Ht]]]. exists (S m). cbn [length]. split; [lia|].
      subst st1. cbn [l_evs] in *. rewrite rkeys_app, tkeys_app in *. cbn in *. rewrite app_nil_r in Ht.
      split; [rewrite Hr, <- app_assoc; reflexivity|exact Ht]. }
    destruct status.
    + destruct (ackb =? sentinel); [discriminate|]. eapply Step; eauto.
    + inversion H; subst. exists 1%nat. cbn [length l_evs seqN map]. split; [lia|].
      rewrite rkeys_app, tkeys_app. cbn. rewrite app_nil_r. auto.
    + destruct (ackb =? sentinel); [discriminate|]. destruct (Nat.ltb 1 n); [discriminate|]. eapply Step; eauto.
Qed.

Lemma ack2_callbacks_keys e a q acks success r idx pay evs a' evs' :
  ack2_callbacks e a q acks success r idx pay evs = (Ok, a', evs') ->
  tkeys evs' = tkeys evs ++ map (T2 (q_src q) (q_seq q)) (seqN idx (length pay)) /\ rkeys evs' = rkeys evs.
Proof.
  revert a idx evs; induction pay as [|y pay IH]; intros a idx evs H; cbn [ack2_callbacks] in H.
  - inversion H; subst. cbn. rewrite app_nil_r. auto.
  - destruct (if success then nth_error acks (N.to_nat idx) else Some sentinel) as [ab|]; [|discriminate].
    destruct (e_ack2 e a (q_src q) (q_dst q) (q_seq q) ab y r) as [a1|]; [|discriminate].
    apply IH in H. destruct H as [Ht Hr]. rewrite tkeys_app, rkeys_app in *. cbn in *. rewrite app_nil_r in Hr.
    split; [rewrite Ht, <- app_assoc; reflexivity|exact Hr].
Qed.

Lemma timeout2_callbacks_keys e a q r idx pay evs a' evs' :
  timeout2_callbacks e a q r idx pay evs = Some (a', evs') ->
  tkeys evs' = tkeys evs ++ map (T2 (q_src q) (q_seq q)) (seqN idx (length pay)) /\ rkeys evs' = rkeys evs.
Proof.
  revert a idx evs; induction pay as [|y pay IH]; intros a idx evs H; cbn [timeout2_callbacks] in H.
  - inversion H; subst. cbn. rewrite app_nil_r. auto.
  - destruct (e_timeout2 e a (q_src q) (q_dst q) (q_seq q) y r) as [a1|]; [|discriminate].
    apply IH in H. destruct H as [Ht Hr]. rewrite tkeys_app, rkeys_app in *. cbn in *. rewrite app_nil_r in Hr.
    split; [rewrite Ht, <- app_assoc; reflexivity|exact Hr].
Qed.

Lemma send2_callbacks_keys e a src dst seq sg idx pay a' evs :
  send2_callbacks e a src dst seq sg idx pay = Some (a', evs) -> tkeys evs = [] /\ rkeys evs = [].
Proof.
  revert a idx a' evs; induction pay as [|y pay IH]; intros a idx a' evs H; cbn [send2_callbacks] in H.
  - inversion H; subst. auto.
  - destruct (e_send2 e a src dst seq y sg) as [a1|]; [|discriminate].
    destruct (send2_callbacks e a1 src dst seq sg (idx + 1) pay) as [[a2 evs2]|] eqn:E; [|discriminate].
    inversion H; subst. apply IH in E. cbn. tauto.
Qed.


(** ** More inversion lemmas: every guard a successful handler has passed, and the exact new state *)

Lemma open_state ch : is_open (c_state ch) = true -> c_state ch = ST_OPEN.
Proof. unfold is_open. destruct (c_state ch); cbn; congruence. Qed.

Definition del_com1 c (p : Packet1) : Chain := set_com1 c (upd k3_eqb (com1 c) (p_sp p, p_sc p, p_seq p) None).

(** C04 (one chain): a v1 timeout is accepted only if ... *)
Lemma timeout1_tao_ok e c p ph nsr c' :
  timeout1_tao e c p ph nsr = (c', Ok) ->
  exists ch k pts,
    chans c (p_sp p, p_sc p) = Some ch /\ p_dp p = c_cp_port ch /\ p_dc p = c_cp_chan ch /\
    conns c (c_conn ch) = Some k /\
    e_ts e (k_client k) ph = Some pts /\ elapsed (timeout1 p) ph pts = true /\
    com1 c (p_sp p, p_sc p, p_seq p) = Some (commit1 p) /\
    verify_unreceived e k ch p ph nsr = true /\
    c' = timeout_executed c ch p.
Proof.
  unfold timeout1_tao. intros H.
  destruct (chans c (p_sp p, p_sc p)) as [ch|] eqn:Ech; [|discriminate].
  destruct (p_dp p =? c_cp_port ch) eqn:Esp; cbn [negb] in H; [|discriminate].
  destruct (p_dc p =? c_cp_chan ch) eqn:Esc; cbn [negb] in H; [|discriminate].
  destruct (conns c (c_conn ch)) as [k|] eqn:Ek; [|discriminate].
  destruct (e_ts e (k_client k) ph) as [pts|] eqn:Ets; [|discriminate].
  destruct (elapsed (timeout1 p) ph pts) eqn:Eel; cbn [negb] in H; [|discriminate].
  destruct (com1 c (p_sp p, p_sc p, p_seq p)) as [cm|] eqn:Ecm; [|discriminate].
  destruct (commit1_eqb cm (commit1 p)) eqn:Eeq; cbn [negb] in H; [|discriminate].
  destruct (verify_unreceived e k ch p ph nsr) eqn:Ev; cbn [negb] in H; [|discriminate].
  apply commit1_eqb_eq in Eeq. subst cm. apply N.eqb_eq in Esp, Esc. inversion H.
  exists ch, k, pts. repeat (split; [first [assumption|reflexivity]|]). reflexivity.
Qed.

Lemma timeout_on_close1_tao_ok e c p ph nsr c' :
  timeout_on_close1_tao e c p ph nsr = (c', Ok) ->
  exists ch k,
    chans c (p_sp p, p_sc p) = Some ch /\ p_dp p = c_cp_port ch /\ p_dc p = c_cp_chan ch /\
    conns c (c_conn ch) = Some k /\
    com1 c (p_sp p, p_sc p, p_seq p) = Some (commit1 p) /\
    e_vmem e (k_client k) ph (KChan (c_cp_port ch) (c_cp_chan ch)) (VChan (closed_counterparty k ch p)) = true /\
    verify_unreceived e k ch p ph nsr = true /\
    c' = timeout_executed c ch p.
Proof.
  unfold timeout_on_close1_tao. intros H.
  destruct (chans c (p_sp p, p_sc p)) as [ch|] eqn:Ech; [|discriminate].
  destruct (p_dp p =? c_cp_port ch) eqn:Esp; cbn [negb] in H; [|discriminate].
  destruct (p_dc p =? c_cp_chan ch) eqn:Esc; cbn [negb] in H; [|discriminate].
  destruct (conns c (c_conn ch)) as [k|] eqn:Ek; [|discriminate].
  destruct (com1 c (p_sp p, p_sc p, p_seq p)) as [cm|] eqn:Ecm; [|discriminate].
  destruct (commit1_eqb cm (commit1 p)) eqn:Eeq; cbn [negb] in H; [|discriminate].
  destruct (e_vmem e (k_client k) ph _ _) eqn:Evc; cbn [negb] in H; [|discriminate].
  destruct (verify_unreceived e k ch p ph nsr) eqn:Ev; cbn [negb] in H; [|discriminate].
  apply commit1_eqb_eq in Eeq. subst cm. apply N.eqb_eq in Esp, Esc. inversion H.
  exists ch, k. repeat (split; [first [assumption|reflexivity]|]). reflexivity.
Qed.

Lemma msg_timeout1_gen_ok tao e c p nsr r c' :
  msg_timeout1_gen tao e c p nsr r = (c', Ok) ->
  exists c1 a', tao = (c1, Ok) /\ packet1_valid p = true /\ nsr <> 0 /\ e_timeout1 e (app c1) p r = Some a' /\
    c' = add_events (set_app c1 a') [EvTimeout1 (p_sp p) (p_sc p) (p_seq p)].
Proof.
  unfold msg_timeout1_gen. intros H.
  destruct (packet1_valid p); cbn [negb] in H; [|discriminate].
  destruct (nsr =? 0) eqn:En; [discriminate|]. apply N.eqb_neq in En.
  destruct (ports c (p_sp p)); cbn [negb] in H; [|discriminate].
  destruct tao as [c1 o1]. destruct o1; try discriminate.
  destruct (e_timeout1 e (app c1) p r) as [a'|] eqn:Ea; [|discriminate]. inversion H.
  exists c1, a'. auto.
Qed.

Lemma msg_ack1_ok e c p ack ph r c' :
  msg_ack1 e c p ack ph r = (c', Ok) ->
  exists c1 a', ack1_tao e c p ack ph = (c1, Ok) /\ packet1_valid p = true /\ ack <> 0 /\
    e_ack1 e (app c1) p ack r = Some a' /\
    c' = add_events (set_app c1 a') [EvAck1 (p_sp p) (p_sc p) (p_seq p) ack].
Proof.
  unfold msg_ack1. intros H.
  destruct (packet1_valid p); cbn [negb] in H; [|discriminate].
  destruct (ack =? 0) eqn:En; [discriminate|]. apply N.eqb_neq in En.
  destruct (ports c (p_sp p)); cbn [negb] in H; [|discriminate].
  destruct (ack1_tao e c p ack ph) as [c1 o1]. destruct o1; try discriminate.
  destruct (e_ack1 e (app c1) p ack r) as [a'|] eqn:Ea; [|discriminate]. inversion H.
  exists c1, a'. auto.
Qed.

(** explicit new state of ack1_tao *)
Lemma ack1_tao_state e c p ack ph c' :
  ack1_tao e c p ack ph = (c', Ok) ->
  exists ch, chans c (p_sp p, p_sc p) = Some ch /\
    c' = match c_ord ch with
         | UNORDERED => del_com1 c p
         | ORDERED => del_com1 (set_nack c (upd k2_eqb (nack c) (p_sp p, p_sc p) (Some (p_seq p + 1)))) p
         end.
Proof.
  unfold ack1_tao. intros H.
  destruct (chans c (p_sp p, p_sc p)) as [ch|] eqn:Ech; [|discriminate]. exists ch. split; [reflexivity|].
  repeat dmatch_in H; try discriminate; inversion H; subst; try reflexivity.
  match goal with E : negb (p_seq p =? _) = false |- _ => apply negb_false_iff, N.eqb_eq in E; rewrite <- E end. reflexivity.
Qed.

(** C08, v2 *)
Lemma send2_tao_ok e c src tmo pay c' seq dst :
  send2_tao e c src tmo pay = (c', Ok, seq, dst) ->
  cparty c src = Some dst /\ nsend c src = Some seq /\
  (Z.of_N (self_t c) < to_int64 tmo * 1000000000)%Z /\
  (to_int64 tmo * 1000000000 <= Z.of_N (self_t c) + max_timeout_delta_ns)%Z /\
  packet2_valid (mkP2 seq src dst tmo pay) = true /\
  e_active e (base_client c src) = true /\ h_is_zero (e_latest e (base_client c src)) = false /\
  (exists lts, e_ts e (base_client c src) (e_latest e (base_client c src)) = Some lts /\ ns_to_s lts < tmo) /\
  c' = set_com2 (set_nsend c (upd N.eqb (nsend c) src (Some (seq + 1))))
         (upd ks_eqb (com2 c) (src, seq) (Some (commit2 (mkP2 seq src dst tmo pay)))).
Proof.
  unfold send2_tao. intros H.
  destruct (cparty c src) as [d|] eqn:Ecp; [|discriminate].
  destruct (Z.of_N (self_t c) <? to_int64 tmo * 1000000000)%Z eqn:E1; cbn [negb] in H; [|discriminate].
  destruct (Z.of_N (self_t c) + max_timeout_delta_ns <? to_int64 tmo * 1000000000)%Z eqn:E2; [discriminate|].
  destruct (nsend c src) as [sq|] eqn:Ens; [|discriminate].
  destruct (packet2_valid (mkP2 sq src d tmo pay)) eqn:Ev; cbn [negb] in H; [|discriminate].
  destruct (e_active e (base_client c src)) eqn:Ea; cbn [negb] in H; [|discriminate].
  destruct (h_is_zero (e_latest e (base_client c src))) eqn:Ez; [discriminate|].
  destruct (e_ts e (base_client c src) (e_latest e (base_client c src))) as [lts|] eqn:Ets; [|discriminate].
  destruct (tmo <=? ns_to_s lts) eqn:El; [discriminate|].
  inversion H; subst. apply Z.ltb_lt in E1. apply Z.ltb_ge in E2. apply N.leb_gt in El.
  repeat (split; [first [assumption|reflexivity]|]). split; [exists lts; auto|reflexivity].
Qed.

(** C05, v2 *)
Lemma recv2_tao_ok e c q ph c' :
  recv2_tao e c q ph = (c', Ok) ->
  cparty c (q_dst q) = Some (q_src q) /\ ns_to_s (self_t c) < q_tt q /\
  rcpt2 c (q_dst q, q_seq q) = false /\
  e_vmem e (base_client c (q_dst q)) ph (KCommit2 (q_src q) (q_seq q)) (VCommit2 (commit2 q)) = true /\
  c' = set_rcpt2 c (upd ks_eqb (rcpt2 c) (q_dst q, q_seq q) true).
Proof.
  unfold recv2_tao. intros H.
  destruct (cparty c (q_dst q)) as [cp|] eqn:Ecp; [|discriminate].
  destruct (cp =? q_src q) eqn:Es; cbn [negb] in H; [|discriminate]. apply N.eqb_eq in Es. subst cp.
  destruct (q_tt q <=? ns_to_s (self_t c)) eqn:El; [discriminate|]. apply N.leb_gt in El.
  destruct (rcpt2 c (q_dst q, q_seq q)) eqn:Er; [discriminate|].
  destruct (e_vmem e _ ph _ _) eqn:Ev; cbn [negb] in H; [|discriminate]. inversion H. auto.
Qed.

Lemma write_ack2_ok c q acks c' :
  write_ack2 c q acks = (c', Ok) ->
  ack2_valid acks = true /\ (ack2_success acks = true -> length acks = length (q_pay q)) /\
  cparty c (q_dst q) = Some (q_src q) /\ ackc2 c (q_dst q, q_seq q) = None /\ rcpt2 c (q_dst q, q_seq q) = true /\
  c' = set_ackc2 c (upd ks_eqb (ackc2 c) (q_dst q, q_seq q) (Some acks)).
Proof.
  unfold write_ack2. intros H.
  destruct (ack2_valid acks) eqn:Ev; cbn [negb] in H; [|discriminate].
  destruct (ack2_success acks && negb (Nat.eqb (length acks) (length (q_pay q)))) eqn:El; [discriminate|].
  destruct (cparty c (q_dst q)) as [cp|] eqn:Ecp; [|discriminate].
  destruct (cp =? q_src q) eqn:Es; cbn [negb] in H; [|discriminate]. apply N.eqb_eq in Es. subst cp.
  destruct (ackc2 c (q_dst q, q_seq q)) eqn:Ea; [discriminate|].
  destruct (rcpt2 c (q_dst q, q_seq q)) eqn:Er; cbn [negb] in H; [|discriminate]. inversion H.
  split; [reflexivity|]. split.
  { intros Hs. rewrite Hs in El. cbn in El. apply negb_false_iff, Nat.eqb_eq in El. exact El. }
  auto.
Qed.

(** C06, v2 *)
Lemma ack2_tao_ok e c q acks ph c' :
  ack2_tao e c q acks ph = (c', Ok) ->
  cparty c (q_src q) = Some (q_dst q) /\ com2 c (q_src q, q_seq q) = Some (commit2 q) /\
  e_vmem e (base_client c (q_src q)) ph (KAck2 (q_dst q) (q_seq q)) (VAck2 acks) = true /\
  c' = set_com2 c (upd ks_eqb (com2 c) (q_src q, q_seq q) None).
Proof.
  unfold ack2_tao. intros H.
  destruct (cparty c (q_src q)) as [cp|] eqn:Ecp; [|discriminate].
  destruct (cp =? q_dst q) eqn:Es; cbn [negb] in H; [|discriminate]. apply N.eqb_eq in Es. subst cp.
  destruct (com2 c (q_src q, q_seq q)) as [cm|] eqn:Ecm; [|discriminate].
  destruct (commit2_eqb cm (commit2 q)) eqn:Eeq; cbn [negb] in H; [|discriminate]. apply commit2_eqb_eq in Eeq. subst cm.
  destruct (e_vmem e _ ph _ _) eqn:Ev; cbn [negb] in H; [|discriminate]. inversion H. auto.
Qed.

(** C04, v2 *)
Lemma timeout2_tao_ok e c q ph c' :
  timeout2_tao e c q ph = (c', Ok) ->
  cparty c (q_src q) = Some (q_dst q) /\
  (exists pts, e_ts e (base_client c (q_src q)) ph = Some pts /\ q_tt q <= ns_to_s pts) /\
  com2 c (q_src q, q_seq q) = Some (commit2 q) /\
  e_vnon e (base_client c (q_src q)) ph (KReceipt2 (q_dst q) (q_seq q)) = true /\
  c' = set_com2 c (upd ks_eqb (com2 c) (q_src q, q_seq q) None).
Proof.
  unfold timeout2_tao. intros H.
  destruct (cparty c (q_src q)) as [cp|] eqn:Ecp; [|discriminate].
  destruct (cp =? q_dst q) eqn:Es; cbn [negb] in H; [|discriminate]. apply N.eqb_eq in Es. subst cp.
  destruct (e_ts e (base_client c (q_src q)) ph) as [pts|] eqn:Ets; [|discriminate].
  destruct (ns_to_s pts <? q_tt q) eqn:El; [discriminate|]. apply N.ltb_ge in El.
  destruct (com2 c (q_src q, q_seq q)) as [cm|] eqn:Ecm; [|discriminate].
  destruct (commit2_eqb cm (commit2 q)) eqn:Eeq; cbn [negb] in H; [|discriminate]. apply commit2_eqb_eq in Eeq. subst cm.
  destruct (e_vnon e _ ph _) eqn:Ev; cbn [negb] in H; [|discriminate]. inversion H.
  split; [reflexivity|]. split; [exists pts; auto|]. auto.
Qed.

End Facts.
