(** Property-level consequences of the invariant and of the inversion lemmas (one chain, any environment). *)
From IBC Require Import Lib.Bytes Lib.Dec Core.Height Core.HeightFacts Core.Chain Core.ChainFacts Core.ChainInv.
Local Open Scope N_scope.

Section Thms.
Context {A : Type}.
Notation Chain := (Chain A).
Notation Env := (Env A).
Implicit Types (c : Chain) (e : Env).

(** *** C01 *)
Theorem recv_at_most_once c hist : Inv c -> NoDup (rkeys (events (run c hist))).
Proof. intros I. apply i_rnodup. now apply inv_run. Qed.

Theorem recv_implies_receipt c hist k : Inv c -> In k (rkeys (events (run c hist))) -> received (run c hist) k.
Proof. intros I. apply i_recv. now apply inv_run. Qed.

(** a packet already received is never handed to the application again: the receive is not Ok *)
Theorem replay_recv1_not_ok e c p ph r :
  received c (R1 (p_dp p) (p_dc p) (p_seq p)) -> snd (msg_recv1 e c p ph r) <> Ok.
Proof.
  intros Hr Hok. destruct (msg_recv1 e c p ph r) as [c' o] eqn:E. cbn in Hok. subst o.
  apply msg_recv1_frame in E. destruct (f_rnew _ _ _ E (R1 (p_dp p) (p_dc p) (p_seq p))) as [Hn _]; [cbn; auto|]. auto.
Qed.

Theorem replay_recv2_not_ok e c q ph r :
  rcpt2 c (q_dst q, q_seq q) = true -> snd (msg_recv2 e c q ph r) <> Ok.
Proof.
  intros Hr Hok. destruct (msg_recv2 e c q ph r) as [c' o] eqn:E. cbn in Hok. subst o.
  unfold msg_recv2 in E. destruct (packet2_valid q); cbn [negb] in E; [|discriminate].
  destruct (recv2_tao e c q ph) as [c1 o1] eqn:Et. destruct o1; try discriminate.
  apply recv2_tao_ok in Et. destruct Et as [_ [_ [Hf _]]]. congruence.
Qed.

(** *** C03 *)
Theorem terminal_at_most_once c hist : Inv c -> NoDup (tkeys (events (run c hist))).
Proof. intros I. apply i_tnodup. now apply inv_run. Qed.

Theorem terminal_implies_finished c hist k : Inv c -> In k (tkeys (events (run c hist))) -> finished (run c hist) k.
Proof. intros I. apply i_term. now apply inv_run. Qed.

(** once the packet's outcome has been processed, any further acknowledgement or timeout relay is not Ok
    (it is a no-op or an error, and by [step_not_ok_same] changes nothing) *)
Theorem after_terminal1_not_ok e c p :
  finished c (T1 (p_sp p) (p_sc p) (p_seq p)) ->
  (forall a ph r, snd (msg_ack1 e c p a ph r) <> Ok) /\
  (forall ph nsr r, snd (msg_timeout1 e c p ph nsr r) <> Ok) /\
  (forall ph nsr r, snd (msg_timeout_on_close1 e c p ph nsr r) <> Ok).
Proof.
  intros [Hn _]. repeat split; intros.
  - intros Hok. destruct (msg_ack1 e c p a ph r) as [c' o] eqn:E. cbn in Hok. subst o.
    apply msg_ack1_frame in E. destruct (f_tnew _ _ _ E (T1 (p_sp p) (p_sc p) (p_seq p))) as [Hp _]; [cbn; auto|]. cbn in Hp. congruence.
  - intros Hok. destruct (msg_timeout1 e c p ph nsr r) as [c' o] eqn:E. cbn in Hok. subst o.
    apply msg_timeout1_frame in E. destruct (f_tnew _ _ _ E (T1 (p_sp p) (p_sc p) (p_seq p))) as [Hp _]; [cbn; auto|]. cbn in Hp. congruence.
  - intros Hok. destruct (msg_timeout_on_close1 e c p ph nsr r) as [c' o] eqn:E. cbn in Hok. subst o.
    apply msg_timeout_on_close1_frame in E. destruct (f_tnew _ _ _ E (T1 (p_sp p) (p_sc p) (p_seq p))) as [Hp _]; [cbn; auto|]. cbn in Hp. congruence.
Qed.

Theorem after_terminal2_not_ok e c q :
  com2 c (q_src q, q_seq q) = None ->
  (forall acks ph r, snd (msg_ack2 e c q acks ph r) <> Ok) /\ (forall ph r, snd (msg_timeout2 e c q ph r) <> Ok).
Proof.
  intros Hn. split; intros.
  - intros Hok. destruct (msg_ack2 e c q acks ph r) as [c' o] eqn:E. cbn in Hok. subst o.
    unfold msg_ack2 in E. repeat dmatch_in E; try discriminate.
    match goal with H : ack2_tao _ _ _ _ _ = (_, Ok) |- _ => apply ack2_tao_ok in H; destruct H as [_ [H _]]; congruence end.
  - intros Hok. destruct (msg_timeout2 e c q ph r) as [c' o] eqn:E. cbn in Hok. subst o.
    unfold msg_timeout2 in E. repeat dmatch_in E; try discriminate.
    match goal with H : timeout2_tao _ _ _ _ = (_, Ok) |- _ => apply timeout2_tao_ok in H; destruct H as [_ [_ [H _]]]; congruence end.
Qed.

(** *** C11 *)
Theorem ack_write_once c hist :
  (forall k a, ackc1 c k = Some a -> ackc1 (run c hist) k = Some a) /\
  (forall k a, ackc2 c k = Some a -> ackc2 (run c hist) k = Some a).
Proof. pose proof (run_mono c hist) as M. split; [apply (m_ackc1 _ _ M)|apply (m_ackc2 _ _ M)]. Qed.

Theorem ack2_needs_receipt c hist k a : Inv c -> ackc2 (run c hist) k = Some a -> rcpt2 (run c hist) k = true.
Proof. intros I. apply i_ack2. now apply inv_run. Qed.

(** asynchronous v2 packets *)
Lemma step_asyn2_other e c o c' out :
  step e c o = (c', out) ->
  match o with ORecv2 _ _ _ | OAsyncAck2 _ _ _ => True | _ => asyn2 c' = asyn2 c end.
Proof.
  intros H. destruct out; try (rewrite (step_not_ok_same _ _ _ _ _ H) by discriminate; destruct o; auto).
  destruct o; cbn [step] in H; auto.
  - destruct (send1 e c port chan th tmo data) as [[c1 o1] s1] eqn:E. inversion H; subst.
    unfold send1 in E. repeat dmatch_in E; try discriminate. inversion E; subst. reflexivity.
  - apply msg_recv1_ok in H. destruct H as [c1 [Ht [_ H]]]. cbn zeta in H. apply recv1_tao_ok in Ht.
    destruct Ht as [ch [k0 [_ [_ [_ [_ [_ [_ [_ [_ Hc1]]]]]]]]]].
    assert (asyn2 c1 = asyn2 c) as G by (destruct Hc1 as [[_ [_ ->]]|[_ [_ ->]]]; reflexivity).
    destruct (e_recv1 e (app c1) p relayer) as [a' [[[] bz]|]]; cbn [fst snd] in H.
    + apply write_ack1_ok in H. destruct H as [_ [_ ->]]. cbn. congruence.
    + apply write_ack1_ok in H. destruct H as [_ [_ ->]]. cbn. congruence.
    + subst c'. cbn. congruence.
  - apply msg_ack1_ok in H. destruct H as [c1 [a' [Ht [_ [_ [_ ->]]]]]]. apply ack1_tao_state in Ht.
    destruct Ht as [ch [_ ->]]. destruct (c_ord ch); reflexivity.
  - apply msg_timeout1_gen_ok in H. destruct H as [c1 [a' [Ht [_ [_ [_ ->]]]]]]. apply timeout1_tao_ok in Ht.
    destruct Ht as [ch [k0 [pts [_ [_ [_ [_ [_ [_ [_ [_ ->]]]]]]]]]]]. unfold timeout_executed. destruct (c_ord ch); reflexivity.
  - apply msg_timeout1_gen_ok in H. destruct H as [c1 [a' [Ht [_ [_ [_ ->]]]]]]. apply timeout_on_close1_tao_ok in Ht.
    destruct Ht as [ch [k0 [_ [_ [_ [_ [_ [_ [_ ->]]]]]]]]]. unfold timeout_executed. destruct (c_ord ch); reflexivity.
  - apply write_ack1_ok in H. destruct H as [_ [_ ->]]. reflexivity.
  - destruct (msg_send2 e c src tmo pay signer) as [[c1 o1] s1] eqn:E. inversion H; subst.
    unfold msg_send2 in E. destruct (_ || _ || _); [discriminate|].
    destruct (send2_tao e c src tmo pay) as [[[c2 o2] s2] d2] eqn:Et. destruct o2; try discriminate.
    destruct (send2_callbacks _ _ _ _ _ _ _ _) as [[a' evs]|]; [|discriminate]. inversion E; subst.
    apply send2_tao_ok in Et. destruct Et as [_ [_ [_ [_ [_ [_ [_ [_ ->]]]]]]]]. reflexivity.
  - unfold msg_ack2 in H. destruct (ack2_valid acks); cbn [negb] in H; [|discriminate].
    destruct (packet2_valid q); cbn [negb] in H; [|discriminate].
    destruct (ack2_tao e c q acks ph) as [c1 o1] eqn:Et. destruct o1; try discriminate.
    apply ack2_tao_ok in Et. destruct Et as [_ [_ [_ ->]]].
    destruct (ack2_callbacks _ _ _ _ _ _ _ _ _) as [[o2 a'] evs]. destruct o2; try discriminate. inversion H; subst. reflexivity.
  - unfold msg_timeout2 in H. destruct (packet2_valid q); cbn [negb] in H; [|discriminate].
    destruct (timeout2_tao e c q ph) as [c1 o1] eqn:Et. destruct o1; try discriminate.
    apply timeout2_tao_ok in Et. destruct Et as [_ [_ [_ [_ ->]]]].
    destruct (timeout2_callbacks _ _ _ _ _ _ _) as [[a' evs]|]; [|discriminate]. inversion H; subst. reflexivity.
  - inversion H; subst. reflexivity.
  - unfold close_chan in H. repeat dmatch_in H; try discriminate. inversion H; subst. reflexivity.
Qed.

(** an async receive stores the packet; it needs a fresh receipt, so it never overwrites a stored one *)
Lemma msg_recv2_asyn2 e c q ph r c' :
  msg_recv2 e c q ph r = (c', Ok) ->
  rcpt2 c (q_dst q, q_seq q) = false /\
  (forall k, k <> (q_dst q, q_seq q) -> asyn2 c' k = asyn2 c k) /\
  (asyn2 c' (q_dst q, q_seq q) = Some q \/ (asyn2 c' (q_dst q, q_seq q) = asyn2 c (q_dst q, q_seq q) /\ ackc2 c' (q_dst q, q_seq q) <> None)).
Proof.
  unfold msg_recv2. intros H. destruct (packet2_valid q); cbn [negb] in H; [|discriminate].
  destruct (recv2_tao e c q ph) as [c1 o1] eqn:Et. destruct o1; try discriminate.
  apply recv2_tao_ok in Et. destruct Et as [_ [_ [Hr [_ ->]]]].
  destruct (recv2_loop _ _ _ _ _ _ _) as [st|]; [|discriminate].
  split; [exact Hr|]. destruct (l_async st).
  - inversion H; subst. split.
    + intros k Hk. cbn. rewrite upd_other; [destruct (l_success st); reflexivity|].
      destruct (ks_eqb (q_dst q, q_seq q) k) eqn:E; [apply ks_eqb_eq in E; congruence|reflexivity].
    + left. cbn. apply upd_same, ks_eqb_refl.
  - destruct (negb (Bool.eqb _ _)); [discriminate|].
    destruct (write_ack2 _ q (l_acks st)) as [c3 o3] eqn:Ew. destruct o3; try discriminate. inversion H; subst.
    apply write_ack2_ok in Ew. destruct Ew as [_ [_ [_ [_ [_ ->]]]]]. split.
    + intros k _. destruct (l_success st); reflexivity.
    + right. split; [destruct (l_success st); reflexivity|]. cbn. rewrite upd_same by apply ks_eqb_refl. discriminate.
Qed.

Lemma async_ack2_ok c id seq acks c' :
  async_ack2 c id seq acks = (c', Ok) ->
  exists q, asyn2 c (id, seq) = Some q /\ asyn2 c' (id, seq) = None /\
    (forall k, k <> (id, seq) -> asyn2 c' k = asyn2 c k) /\
    ackc2 c (q_dst q, q_seq q) = None /\ ackc2 c' (q_dst q, q_seq q) = Some acks /\ rcpt2 c (q_dst q, q_seq q) = true.
Proof.
  unfold async_ack2. intros H. destruct (asyn2 c (id, seq)) as [q|] eqn:Eq; [|discriminate].
  destruct (write_ack2 c q acks) as [c1 o1] eqn:Ew. destruct o1; try discriminate. inversion H; subst.
  apply write_ack2_ok in Ew. destruct Ew as [_ [_ [_ [Hn [Hr ->]]]]].
  exists q. split; [reflexivity|]. split; [cbn; apply upd_same, ks_eqb_refl|]. split.
  - intros k Hk. cbn. apply upd_other. destruct (ks_eqb (id, seq) k) eqn:E; [apply ks_eqb_eq in E; congruence|reflexivity].
  - split; [exact Hn|]. split; [cbn; apply upd_same, ks_eqb_refl|exact Hr].
Qed.

(** a stored async packet survives every step except the asynchronous write of an acknowledgement under its
    key, provided the receipt it came with is there (which the receive that stored it wrote) *)
Theorem async_packet_kept e c o c' out k q :
  step e c o = (c', out) -> asyn2 c k = Some q -> rcpt2 c k = true ->
  asyn2 c' k = Some q \/ (exists acks, o = OAsyncAck2 (fst k) (snd k) acks /\ out = Ok /\ asyn2 c' k = None).
Proof.
  intros H Ha Hr. pose proof (step_asyn2_other _ _ _ _ _ H) as G.
  destruct o; try (left; rewrite G; exact Ha).
  - (* ORecv2 *) left. destruct out; try (rewrite (step_not_ok_same _ _ _ _ _ H) by discriminate; exact Ha).
    cbn [step] in H. apply msg_recv2_asyn2 in H. destruct H as [Hf [Ho _]].
    rewrite Ho; [exact Ha|]. intros ->. congruence.
  - (* OAsyncAck2 *) destruct out; try (left; rewrite (step_not_ok_same _ _ _ _ _ H) by discriminate; exact Ha).
    cbn [step] in H. apply async_ack2_ok in H. destruct H as [q1 [_ [Hn [Ho _]]]].
    destruct k as [ki ks]. destruct (N.eq_dec ki id) as [->|Hne]; [destruct (N.eq_dec ks seq) as [->|Hne]|].
    + right. exists acks. cbn. auto.
    + left. rewrite Ho; [exact Ha|]. congruence.
    + left. rewrite Ho; [exact Ha|]. congruence.
Qed.


(** *** C14 *)
Theorem ordered_timeout_closes c hist p ch s :
  Inv c -> In (EvTimeout1 p ch s) (events (run c hist)) ->
  exists en, chans (run c hist) (p, ch) = Some en /\ (c_ord en = ORDERED -> c_state en = ST_CLOSED).
Proof. intros I. apply i_closed. now apply inv_run. Qed.

Theorem closed_is_forever c hist k en :
  chans c k = Some en -> c_state en = ST_CLOSED ->
  exists en', chans (run c hist) k = Some en' /\ c_state en' = ST_CLOSED /\ c_ord en' = c_ord en.
Proof.
  intros He Hc. destruct (m_chans _ _ (run_mono c hist) _ _ He) as [en' [He' [Ho [_ [_ [_ Hst]]]]]].
  exists en'. auto.
Qed.

Theorem closed_blocks_packet_flow e c p ch en :
  chans c (p, ch) = Some en -> c_state en = ST_CLOSED ->
  (forall th tmo data, snd (fst (send1 e c p ch th tmo data)) <> Ok) /\
  (forall pk ph r, p_dp pk = p -> p_dc pk = ch -> snd (msg_recv1 e c pk ph r) <> Ok) /\
  (forall pk a ph r, p_sp pk = p -> p_sc pk = ch -> snd (msg_ack1 e c pk a ph r) <> Ok) /\
  (forall pk a, p_dp pk = p -> p_dc pk = ch -> snd (async_ack1 c pk a) <> Ok).
Proof.
  intros He Hc. repeat split; intros.
  - unfold send1. rewrite He. unfold is_open. rewrite Hc. cbn. discriminate.
  - subst. intros Hok. destruct (msg_recv1 e c pk ph r) as [c' o] eqn:E. cbn in Hok. subst o.
    apply msg_recv1_ok in E. destruct E as [c1 [Ht _]]. apply recv1_tao_ok in Ht.
    destruct Ht as [ch0 [k0 [Ech [Hst _]]]]. rewrite He in Ech. inversion Ech; subst. congruence.
  - subst. intros Hok. destruct (msg_ack1 e c pk a ph r) as [c' o] eqn:E. cbn in Hok. subst o.
    apply msg_ack1_ok in E. destruct E as [c1 [a' [Ht _]]]. apply ack1_tao_ok in Ht.
    destruct Ht as [ch0 [k0 [Ech [Hst _]]]]. rewrite He in Ech. inversion Ech; subst. congruence.
  - subst. unfold async_ack1, write_ack1. rewrite He. unfold is_open. rewrite Hc. cbn. discriminate.
Qed.

(** *** C08 *)
Lemma send1_ok e c port chan th tmo data c' seq :
  send1 e c port chan th tmo data = (c', Ok, seq) ->
  exists ch k lts,
    chans c (port, chan) = Some ch /\ c_state ch = ST_OPEN /\ nsend c chan = Some seq /\
    seq <> 0 /\ timeout_is_valid (mkT th tmo) = true /\ data <> 0 /\
    conns c (c_conn ch) = Some k /\ e_active e (k_client k) = true /\
    h_is_zero (e_latest e (k_client k)) = false /\
    e_ts e (k_client k) (e_latest e (k_client k)) = Some lts /\
    elapsed (mkT th tmo) (e_latest e (k_client k)) lts = false /\
    c' = set_com1 (set_nsend c (upd N.eqb (nsend c) chan (Some (seq + 1))))
           (upd k3_eqb (com1 c) (port, chan, seq)
              (Some (commit1 (mkP1 seq port chan (c_cp_port ch) (c_cp_chan ch) data th tmo)))).
Proof.
  unfold send1. intros H.
  destruct (chans c (port, chan)) as [ch|] eqn:Ech; [|discriminate].
  destruct (is_open (c_state ch)) eqn:Eo; cbn [negb] in H; [|discriminate].
  destruct (nsend c chan) as [sq|] eqn:Ens; [|discriminate].
  destruct (packet1_valid _) eqn:Ev; cbn [negb] in H; [|discriminate].
  destruct (conns c (c_conn ch)) as [k|] eqn:Ek; [|discriminate].
  destruct (e_active e (k_client k)) eqn:Ea; cbn [negb] in H; [|discriminate].
  destruct (h_is_zero (e_latest e (k_client k))) eqn:Ez; [discriminate|].
  destruct (e_ts e (k_client k) (e_latest e (k_client k))) as [lts|] eqn:Ets; [|discriminate].
  destruct (elapsed _ _ lts) eqn:Eel; [discriminate|].
  inversion H; subst. unfold packet1_valid in Ev. cbn in Ev.
  apply andb_true_iff in Ev as [Ev Hd]. apply andb_true_iff in Ev as [Hs Hv].
  apply negb_true_iff, N.eqb_neq in Hs, Hd.
  exists ch, k, lts. split; [reflexivity|]. split; [now apply open_state|].
  repeat (split; [first [assumption|reflexivity]|]). reflexivity.
Qed.

(** only sends touch the send-sequence counters *)
Lemma step_nsend_other e c o c' out :
  step e c o = (c', out) ->
  match o with OSend1 _ _ _ _ _ | OSend2 _ _ _ _ => True | _ => nsend c' = nsend c end.
Proof.
  intros H. destruct out; try (rewrite (step_not_ok_same _ _ _ _ _ H) by discriminate; destruct o; auto).
  destruct o; cbn [step] in H; auto.
  - apply msg_recv1_ok in H. destruct H as [c1 [Ht [_ H]]]. cbn zeta in H. apply recv1_tao_ok in Ht.
    destruct Ht as [ch [k0 [_ [_ [_ [_ [_ [_ [_ [_ Hc1]]]]]]]]]].
    assert (nsend c1 = nsend c) as G by (destruct Hc1 as [[_ [_ ->]]|[_ [_ ->]]]; reflexivity).
    destruct (e_recv1 e (app c1) p relayer) as [a' [[[] bz]|]]; cbn [fst snd] in H.
    + apply write_ack1_ok in H. destruct H as [_ [_ ->]]. cbn. congruence.
    + apply write_ack1_ok in H. destruct H as [_ [_ ->]]. cbn. congruence.
    + subst c'. cbn. congruence.
  - apply msg_ack1_ok in H. destruct H as [c1 [a' [Ht [_ [_ [_ ->]]]]]]. apply ack1_tao_state in Ht.
    destruct Ht as [ch [_ ->]]. destruct (c_ord ch); reflexivity.
  - apply msg_timeout1_gen_ok in H. destruct H as [c1 [a' [Ht [_ [_ [_ ->]]]]]]. apply timeout1_tao_ok in Ht.
    destruct Ht as [ch [k0 [pts [_ [_ [_ [_ [_ [_ [_ [_ ->]]]]]]]]]]]. unfold timeout_executed. destruct (c_ord ch); reflexivity.
  - apply msg_timeout1_gen_ok in H. destruct H as [c1 [a' [Ht [_ [_ [_ ->]]]]]]. apply timeout_on_close1_tao_ok in Ht.
    destruct Ht as [ch [k0 [_ [_ [_ [_ [_ [_ [_ ->]]]]]]]]]. unfold timeout_executed. destruct (c_ord ch); reflexivity.
  - apply write_ack1_ok in H. destruct H as [_ [_ ->]]. reflexivity.
  - unfold msg_recv2 in H. destruct (packet2_valid q); cbn [negb] in H; [|discriminate].
    destruct (recv2_tao e c q ph) as [c1 o1] eqn:Et. destruct o1; try discriminate.
    apply recv2_tao_ok in Et. destruct Et as [_ [_ [_ [_ ->]]]].
    destruct (recv2_loop _ _ _ _ _ _ _) as [st|]; [|discriminate]. destruct (l_async st).
    + inversion H; subst. destruct (l_success st); reflexivity.
    + destruct (negb (Bool.eqb _ _)); [discriminate|].
      destruct (write_ack2 _ q (l_acks st)) as [c3 o3] eqn:Ew. destruct o3; try discriminate. inversion H; subst.
      apply write_ack2_ok in Ew. destruct Ew as [_ [_ [_ [_ [_ ->]]]]]. destruct (l_success st); reflexivity.
  - unfold msg_ack2 in H. destruct (ack2_valid acks); cbn [negb] in H; [|discriminate].
    destruct (packet2_valid q); cbn [negb] in H; [|discriminate].
    destruct (ack2_tao e c q acks ph) as [c1 o1] eqn:Et. destruct o1; try discriminate.
    apply ack2_tao_ok in Et. destruct Et as [_ [_ [_ ->]]].
    destruct (ack2_callbacks _ _ _ _ _ _ _ _ _) as [[o2 a'] evs]. destruct o2; try discriminate. inversion H; subst. reflexivity.
  - unfold msg_timeout2 in H. destruct (packet2_valid q); cbn [negb] in H; [|discriminate].
    destruct (timeout2_tao e c q ph) as [c1 o1] eqn:Et. destruct o1; try discriminate.
    apply timeout2_tao_ok in Et. destruct Et as [_ [_ [_ [_ ->]]]].
    destruct (timeout2_callbacks _ _ _ _ _ _ _) as [[a' evs]|]; [|discriminate]. inversion H; subst. reflexivity.
  - apply async_ack2_ok in H as Hq. unfold async_ack2 in H. destruct (asyn2 c (id, seq)) as [q|]; [|discriminate].
    destruct (write_ack2 c q acks) as [c1 o1] eqn:Ew. destruct o1; try discriminate. inversion H; subst.
    apply write_ack2_ok in Ew. destruct Ew as [_ [_ [_ [_ [_ ->]]]]]. reflexivity.
  - inversion H; subst. reflexivity.
  - unfold close_chan in H. repeat dmatch_in H; try discriminate. inversion H; subst. reflexivity.
Qed.

(** a send on [id] (v1 on the channel with that id, or v2 on that client/alias id) returns the counter and
    bumps it by exactly one; a send on another id leaves it alone *)
Theorem send_allocates_next e c o c' id n :
  nsend c id = Some n -> step e c o = (c', Ok) ->
  match o with
  | OSend1 port chan th tmo data =>
      if chan =? id then snd (send1 e c port chan th tmo data) = n /\ nsend c' id = Some (n + 1)
      else nsend c' id = Some n
  | OSend2 src tmo pay sg =>
      if src =? id then snd (msg_send2 e c src tmo pay sg) = n /\ nsend c' id = Some (n + 1)
      else nsend c' id = Some n
  | _ => nsend c' id = Some n
  end.
Proof.
  intros Hn H. pose proof (step_nsend_other _ _ _ _ _ H) as G.
  destruct o; try (rewrite G; exact Hn).
  - cbn [step] in H. destruct (send1 e c port chan th tmo data) as [[c1 o1] s1] eqn:E. inversion H; subst.
    apply send1_ok in E. destruct E as [ch [k [lts [_ [_ [Hs [_ [_ [_ [_ [_ [_ [_ [_ ->]]]]]]]]]]]]]].
    destruct (N.eqb_spec chan id) as [->|Hne]; cbn.
    + rewrite Hn in Hs. inversion Hs; subst. split; [reflexivity|]. apply upd_same, N.eqb_refl.
    + rewrite upd_other; [exact Hn|]. now apply N.eqb_neq.
  - cbn [step] in H. destruct (msg_send2 e c src tmo pay signer) as [[c1 o1] s1] eqn:E. inversion H; subst.
    unfold msg_send2 in E. destruct (_ || _ || _); [discriminate|].
    destruct (send2_tao e c src tmo pay) as [[[c2 o2] s2] d2] eqn:Et. destruct o2; try discriminate.
    destruct (send2_callbacks _ _ _ _ _ _ _ _) as [[a' evs]|]; [|discriminate]. inversion E; subst.
    apply send2_tao_ok in Et. destruct Et as [_ [Hs [_ [_ [_ [_ [_ [_ ->]]]]]]]].
    destruct (N.eqb_spec src id) as [->|Hne]; cbn.
    + rewrite Hn in Hs. inversion Hs; subst. split; [reflexivity|]. apply upd_same, N.eqb_refl.
    + rewrite upd_other; [exact Hn|]. now apply N.eqb_neq.
Qed.

(** *** C09 *)
Theorem recv1_app_state e c p ph r c' :
  msg_recv1 e c p ph r = (c', Ok) ->
  let res := e_recv1 e (app c) p r in
  received c' (R1 (p_dp p) (p_dc p) (p_seq p)) /\
  match snd res with
  | Some (false, bz) => app c' = app c /\ ackc1 c' (p_dp p, p_dc p, p_seq p) = Some bz
  | Some (true, bz) => app c' = fst res /\ ackc1 c' (p_dp p, p_dc p, p_seq p) = Some bz
  | None => app c' = fst res /\ ackc1 c' (p_dp p, p_dc p, p_seq p) = ackc1 c (p_dp p, p_dc p, p_seq p)
  end.
Proof.
  intros H. pose proof (msg_recv1_frame _ _ _ _ _ _ H) as F.
  destruct (f_rnew _ _ _ F (R1 (p_dp p) (p_dc p) (p_seq p))) as [_ Hrc]; [cbn; auto|].
  cbn zeta. split; [exact Hrc|].
  apply msg_recv1_ok in H. destruct H as [c1 [Ht [_ H]]]. cbn zeta in H. apply recv1_tao_ok in Ht.
  destruct Ht as [ch [k0 [_ [_ [_ [_ [_ [_ [_ [_ Hc1]]]]]]]]]].
  assert (app c1 = app c /\ ackc1 c1 = ackc1 c) as [Ga Gk] by (destruct Hc1 as [[_ [_ ->]]|[_ [_ ->]]]; auto).
  rewrite Ga in H. destruct (e_recv1 e (app c) p r) as [a' [[[] bz]|]]; cbn [fst snd] in *.
  - apply write_ack1_ok in H. destruct H as [_ [_ ->]]. cbn. split; [reflexivity|apply upd_same, k3_eqb_refl].
  - apply write_ack1_ok in H. destruct H as [_ [_ ->]]. cbn. split; [exact Ga|apply upd_same, k3_eqb_refl].
  - subst c'. cbn. split; [reflexivity|]. now rewrite Gk.
Qed.


(** *** C04 *)
(** once the destination chain has reached a height and time at which the packet's timeout has elapsed,
    the packet can never be received there any more *)
Theorem no_receive_after_elapsed1 e c p h t ph r :
  elapsed (timeout1 p) h t = true -> h_lte h (self_h c) = true -> t <= self_t c ->
  snd (msg_recv1 e c p ph r) <> Ok.
Proof.
  intros Hel Hh Ht Hok. destruct (msg_recv1 e c p ph r) as [c' o] eqn:E. cbn in Hok. subst o.
  apply msg_recv1_ok in E. destruct E as [c1 [Hr _]]. apply recv1_tao_ok in Hr.
  destruct Hr as [ch [k [_ [_ [_ [_ [_ [_ [Hne _]]]]]]]]].
  rewrite (elapsed_mono _ _ _ _ _ Hel Hh Ht) in Hne. discriminate.
Qed.

Theorem no_receive_after_elapsed2 e c q t ph r :
  q_tt q <= ns_to_s t -> t <= self_t c -> snd (msg_recv2 e c q ph r) <> Ok.
Proof.
  intros Hel Ht Hok. destruct (msg_recv2 e c q ph r) as [c' o] eqn:E. cbn in Hok. subst o.
  unfold msg_recv2 in E. destruct (packet2_valid q); cbn [negb] in E; [|discriminate].
  destruct (recv2_tao e c q ph) as [c1 o1] eqn:Et. destruct o1; try discriminate.
  apply recv2_tao_ok in Et. destruct Et as [_ [Hlt _]].
  assert (ns_to_s t <= ns_to_s (self_t c)) by (unfold ns_to_s; apply N.div_le_mono; [discriminate|exact Ht]).
  lia.
Qed.

(** timeouts through a client that only verifies at heights the chain itself has reached and reports the
    chain's own block time (09-localhost after the fix): accepted only when the chain itself has reached
    the packet's timeout *)
Definition loopback_client e c (id : Id) : Prop :=
  (forall ph k, e_vnon e id ph k = true -> h_lte ph (self_h c) = true) /\
  (forall ph k v, e_vmem e id ph k v = true -> h_lte ph (self_h c) = true) /\
  (forall ph t, e_ts e id ph = Some t -> t = self_t c).

Theorem loopback_timeout_not_early e c p ph nsr c' ch k :
  chans c (p_sp p, p_sc p) = Some ch -> conns c (c_conn ch) = Some k -> loopback_client e c (k_client k) ->
  timeout1_tao e c p ph nsr = (c', Ok) -> elapsed (timeout1 p) (self_h c) (self_t c) = true.
Proof.
  intros Hch Hk [Hn [Hm Ht]] H. apply timeout1_tao_ok in H.
  destruct H as [ch' [k' [pts [Hch' [_ [_ [Hk' [Hts [Hel [_ [Hv _]]]]]]]]]]].
  rewrite Hch in Hch'. inversion Hch'; subst ch'. rewrite Hk in Hk'. inversion Hk'; subst k'.
  apply Ht in Hts. subst pts.
  assert (h_lte ph (self_h c) = true) as Hle.
  { unfold verify_unreceived in Hv. destruct (c_ord ch).
    - destruct (p_seq p <? nsr); [discriminate|]. eapply Hm; eauto.
    - eapply Hn; eauto. }
  eapply elapsed_mono; eauto. lia.
Qed.

End Thms.
