(** C04 end to end: the global invariant of the instrumented two-chain world and the theorem. *)
From IBC Require Import Lib.Bytes Lib.Dec Core.Height Core.HeightFacts Core.Chain Core.ChainFacts Core.ChainInv
  Core.ChainThms Core.World Core.WorldFacts Core.WorldInv Core.WorldInv2 Core.WorldInv3.
Local Open Scope N_scope.

Record WI (x : IW) : Prop := mkWI {
  wi_la : Local (wa (iw x)) (ga x);
  wi_lb : Local (wb (iw x)) (gb x);
  wi_ab : Link (w_lh (iw x)) (wa (iw x)) (wb (iw x)) (ga x) (gb x);
  wi_ba : Link (w_lh (iw x)) (wb (iw x)) (wa (iw x)) (gb x) (ga x) }.

Theorem wi_step x s : WI x -> good_step (iw x) s -> WI (istep x s).
Proof.
  intros [La Lb Kab Kba] G. unfold istep. destruct s as [side h t o]. cbn [ws_side ws_h ws_t ws_op] in *.
  unfold good_step in G. cbn [ws_side ws_h ws_t ws_op] in G.
  destruct side; cbn [side_w] in *; unfold wstep.
  - destruct (wstep_chain (w_script (iw x)) (w_noncanon (iw x)) (w_lh (iw x)) (wa (iw x)) (wb (iw x)) h t o) as [a' out] eqn:E.
    constructor; cbn.
    + eapply local_step; eauto.
    + exact Lb.
    + eapply link_step_src; eauto.
    + eapply link_step_dst; eauto.
  - destruct (wstep_chain (w_script (iw x)) (w_noncanon (iw x)) (w_lh (iw x)) (wb (iw x)) (wa (iw x)) h t o) as [b' out] eqn:E.
    constructor; cbn.
    + exact La.
    + eapply local_step; eauto.
    + eapply link_step_dst; eauto.
    + eapply link_step_src; eauto.
Qed.

Theorem wi_run x l : WI x -> good_steps x l -> WI (irun x l).
Proof.
  revert x; induction l as [|s l IH]; intros x I G; cbn [irun fold_left]; [exact I|].
  destruct G as [G1 G2]. apply IH; [now apply wi_step|exact G2].
Qed.

(** In every history of the two-chain world with honest light clients in which block heights increase and block
    times do not decrease: an accepted MsgTimeout for a packet on one chain (ghost log [g_tlog]: source key,
    destination key, ordering of the source end) and an accepted MsgRecvPacket for the packet with the same source
    and destination keys on the other chain (ghost log [g_rlog], ordering of the destination end) never both occur,
    in either order, when both channel ends have the same ordering — on remote (non-loopback) channels, for ORDERED
    and UNORDERED channels, with any proofs, proof heights, client updates and relayer behaviour. *)
Theorem timeout_excludes_receive x l :
  WI x -> good_steps x l ->
  let y := irun x l in
  (forall e r, In e (g_tlog (ga y)) -> In r (g_rlog (gb y)) ->
     t_client e <> w_lh (iw y) -> r_client r <> w_lh (iw y) ->
     t_dst e = r_dst r -> t_src e = r_src r -> t_ord e = r_ord r -> False) /\
  (forall e r, In e (g_tlog (gb y)) -> In r (g_rlog (ga y)) ->
     t_client e <> w_lh (iw y) -> r_client r <> w_lh (iw y) ->
     t_dst e = r_dst r -> t_src e = r_src r -> t_ord e = r_ord r -> False).
Proof.
  intros I G y. pose proof (wi_run _ _ I G) as [La Lb Kab Kba]. fold y in La, Lb, Kab, Kba. split.
  - intros e r He Hr. exact (k_excl _ _ _ _ _ Kab e r He Hr).
  - intros e r He Hr. exact (k_excl _ _ _ _ _ Kba e r He Hr).
Qed.

(** ** the invariant holds initially: no packet state, no callback history, no committed blocks, and light
    clients without consensus states in the counterparty's revision *)
Definition fresh_chain (Z : WChain) : Prop :=
  events (w_chain Z) = [] /\ (forall k, com1 (w_chain Z) k = None) /\ (forall k, com2 (w_chain Z) k = None) /\
  (forall k, ackc2 (w_chain Z) k = None) /\ w_vers Z = [] /\ w_hdrs Z = [].

Definition fresh_clients (X Y : WChain) : Prop :=
  forall id cl, In (id, cl) (w_clients X) -> rev (cl_latest cl) = rev (self_h (w_chain Y)) /\ cl_cons cl = [].

Lemma local_fresh Z : fresh_chain Z -> Local Z ghost0.
Proof.
  intros [He [H1 [H2 [H3 [Hv Hh]]]]]. constructor; cbn; rewrite ?Hv, ?Hh; cbn; try tauto; try discriminate.
  - now apply inv_fresh.
  - intros k v. rewrite H1. discriminate.
Qed.

Lemma link_fresh lh X Y : fresh_clients X Y -> Link lh X Y ghost0 ghost0.
Proof.
  intros Hc. constructor; cbn; try tauto.
  intros id cl Hin. destruct (Hc _ _ Hin) as [R E]. split; [exact R|]. rewrite E. cbn. tauto.
Qed.

Theorem wi_fresh w :
  fresh_chain (wa w) -> fresh_chain (wb w) -> fresh_clients (wa w) (wb w) -> fresh_clients (wb w) (wa w) ->
  WI (mkIW w ghost0 ghost0).
Proof. intros Fa Fb Ca Cb. constructor; cbn; auto using local_fresh, link_fresh. Qed.

(** a starting point with light clients that already hold consensus states (what a chain looks like after the
    handshakes): headers of the counterparty exist for them, no snapshots are known yet, no packet state *)
Definition base_chain (Z : WChain) : Prop :=
  events (w_chain Z) = [] /\ (forall k, com1 (w_chain Z) k = None) /\ (forall k, com2 (w_chain Z) k = None) /\
  (forall k, ackc2 (w_chain Z) k = None) /\ w_vers Z = [] /\
  (forall h t, In (h, t) (w_hdrs Z) -> 1 <= h /\ h <= ht (self_h (w_chain Z)) /\ t <= self_t (w_chain Z)) /\
  (forall h1 t1 h2 t2, In (h1, t1) (w_hdrs Z) -> In (h2, t2) (w_hdrs Z) -> h1 <= h2 -> t1 <= t2).

Definition base_clients (X Y : WChain) : Prop :=
  forall id cl, In (id, cl) (w_clients X) ->
    rev (cl_latest cl) = rev (self_h (w_chain Y)) /\
    forall hh t ver, In (hh, (t, ver)) (cl_cons cl) ->
      rev hh = rev (self_h (w_chain Y)) /\ ht hh = ver + 1 /\ In (ht hh, t) (w_hdrs Y).

Theorem wi_base w :
  base_chain (wa w) -> base_chain (wb w) -> base_clients (wa w) (wb w) -> base_clients (wb w) (wa w) ->
  WI (mkIW w ghost0 ghost0).
Proof.
  assert (forall Z, base_chain Z -> Local Z ghost0) as HL.
  { intros Z [He [H1 [H2 [H3 [Hv [Hh Hm]]]]]]. constructor; cbn; rewrite ?Hv; cbn; try tauto; try discriminate.
    all: try (now apply inv_fresh).
    all: try exact Hm.
    all: try (intros h t Hin; destruct (Hh _ _ Hin) as [? [? ?]]; auto; fail).
    all: try (intros k v; rewrite H1; discriminate). }
  intros Fa Fb Ca Cb. constructor; cbn; auto; constructor; cbn; try tauto; auto.
Qed.

(** ** non-vacuity: a concrete run in which a timeout is accepted *)
Definition exw_chain (cp : Id) (me_chan cp_chan conn client : Id) : ChainS :=
  mkChain AppSt (fun k => if k2_eqb k (1, me_chan) then Some (mkChan ST_OPEN UNORDERED 1 cp_chan conn 7) else None)
    (fun k => if k =? conn then Some (mkConn true client cp) else None) (fun p => p =? 1)
    (fun i => if i =? me_chan then Some 1 else None) (fun _ => None) (fun _ => None)
    (fun _ => None) (fun _ => false) (fun _ => None) (fun _ => None) (fun _ => false) (fun _ => None) (fun _ => None)
    (fun _ => None) (fun _ => None) 0 (mkH 1 10) 1000 [].

Definition exw_client : Client := mkClient false (mkH 1 10) 1000000 [(mkH 1 10, (1000, 9))].

Definition exw : World :=
  mkWorld (mkW (exw_chain 6 10 20 5 9) [(9, exw_client)] [] [(10, 1000)])
          (mkW (exw_chain 5 20 10 6 8) [(8, exw_client)] [] [(10, 1000)])
          (mkScript (fun _ => 0) (fun _ => RSuccess) (fun _ => 2) (fun _ => false)) (fun _ => false) 99.

Definition exw_packet : Packet1 := mkP1 1 1 10 1 20 2 (mkH 1 12) 0.

Definition exw_steps : list WStep :=
  [ mkWS SA (mkH 1 11) 1100 (WPacket (OSend1 1 10 (mkH 1 12) 0 2) PGarbage);
    mkWS SB (mkH 1 11) 1100 WEmpty; mkWS SB (mkH 1 12) 1200 WEmpty; mkWS SB (mkH 1 13) 1300 WEmpty;
    mkWS SA (mkH 1 12) 1400 (WUpdateClient 9 13);
    mkWS SA (mkH 1 13) 1500 (WPacket (OTimeout1 exw_packet (mkH 1 13) 1 0) (PHonest 12 (KReceipt1 1 20 1))) ].

Lemma exw_base_chain cp a b c d : base_chain (mkW (exw_chain cp a b c d) [(9, exw_client)] [] [(10, 1000)]).
Proof.
  unfold base_chain. cbn. repeat split; try reflexivity.
  - destruct H as [E|[]]. inversion E; subst. lia.
  - destruct H as [E|[]]. inversion E; subst. lia.
  - destruct H as [E|[]]. inversion E; subst. lia.
  - intros h1 t1 h2 t2 [E1|[]] [E2|[]] _. inversion E1; inversion E2; subst. lia.
Qed.

Example exw_wi : WI (mkIW exw ghost0 ghost0).
Proof.
  apply wi_base.
  - apply exw_base_chain.
  - unfold exw. cbn [wb]. unfold base_chain. cbn. repeat split; try reflexivity.
    + destruct H as [E|[]]. inversion E; subst. lia.
    + destruct H as [E|[]]. inversion E; subst. lia.
    + destruct H as [E|[]]. inversion E; subst. lia.
    + intros h1 t1 h2 t2 [E1|[]] [E2|[]] _. inversion E1; inversion E2; subst. lia.
  - intros id cl [E|[]]. inversion E; subst. cbn. split; [reflexivity|]. intros hh t ver [E'|[]]. inversion E'; subst. cbn. auto.
  - intros id cl [E|[]]. inversion E; subst. cbn. split; [reflexivity|]. intros hh t ver [E'|[]]. inversion E'; subst. cbn. auto.
Qed.

Example exw_good : good_steps (mkIW exw ghost0 ghost0) exw_steps.
Proof. vm_compute. repeat split; first [reflexivity | discriminate | exact I | (intro HH; discriminate HH)]. Qed.

Example exw_timeout_accepted :
  map t_src (g_tlog (ga (irun (mkIW exw ghost0 ghost0) exw_steps))) = [(1, 10, 1)] /\
  com1 (w_chain (wa (iw (irun (mkIW exw ghost0 ghost0) exw_steps)))) (1, 10, 1) = None.
Proof. vm_compute. split; reflexivity. Qed.
