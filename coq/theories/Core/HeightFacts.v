From IBC Require Import Lib.Bytes Lib.BytesFacts Lib.Dec Lib.DecFacts Core.Height.
Local Open Scope N_scope.

Lemma cmpZ_spec a b :
  (cmpZ a b = (-1)%Z /\ a < b) \/ (cmpZ a b = 0%Z /\ a = b) \/ (cmpZ a b = 1%Z /\ b < a).
Proof. unfold cmpZ. destruct (N.compare_spec a b); auto. Qed.

(** lexicographic order on (revision, height) *)
Definition lex_lt (a b : Height) : Prop := rev a < rev b \/ (rev a = rev b /\ ht a < ht b).

Lemma h_compare_spec a b :
  (h_compare a b = (-1)%Z /\ lex_lt a b) \/ (h_compare a b = 0%Z /\ a = b) \/ (h_compare a b = 1%Z /\ lex_lt b a).
Proof.
  unfold h_compare, lex_lt. destruct a as [ra ha], b as [rb hb]; simpl.
  destruct (N.eqb_spec ra rb) as [->|NE]; simpl.
  - destruct (cmpZ_spec ha hb) as [[-> H]|[[-> H]|[-> H]]]; subst;
      [left|right; left|right; right]; split; auto.
  - destruct (cmpZ_spec ra rb) as [[-> H]|[[-> H]|[-> H]]];
      [left|right; left|right; right]; split; auto. contradiction.
Qed.

Lemma h_compare_range a b : h_compare a b = (-1)%Z \/ h_compare a b = 0%Z \/ h_compare a b = 1%Z.
Proof. destruct (h_compare_spec a b) as [[-> _]|[[-> _]|[-> _]]]; auto. Qed.

Lemma lex_lt_irrefl a : ~ lex_lt a a.
Proof. unfold lex_lt. lia. Qed.
Lemma lex_lt_asym a b : lex_lt a b -> ~ lex_lt b a.
Proof. unfold lex_lt. lia. Qed.
Lemma lex_lt_trans a b c : lex_lt a b -> lex_lt b c -> lex_lt a c.
Proof. unfold lex_lt. lia. Qed.

Lemma h_compare_refl a : h_compare a a = 0%Z.
Proof.
  destruct (h_compare_spec a a) as [[_ H]|[[H _]|[_ H]]]; auto; exfalso; eapply lex_lt_irrefl; eauto.
Qed.

Lemma h_compare_eq a b : h_compare a b = 0%Z -> a = b.
Proof. destruct (h_compare_spec a b) as [[-> _]|[[_ H]|[-> _]]]; auto; discriminate. Qed.

Lemma h_compare_antisym a b : h_compare a b = (- h_compare b a)%Z.
Proof.
  destruct (h_compare_spec a b) as [[-> H]|[[-> H]|[-> H]]],
           (h_compare_spec b a) as [[-> H']|[[-> H']|[-> H']]]; subst; try reflexivity;
    exfalso; try (eapply lex_lt_irrefl; eassumption); eapply lex_lt_asym; eassumption.
Qed.

Lemma h_lt_iff a b : h_lt a b = true <-> lex_lt a b.
Proof.
  unfold h_lt. destruct (h_compare_spec a b) as [[-> H]|[[-> H]|[-> H]]]; simpl; split; auto; try discriminate.
  - subst. intros H. exfalso. eapply lex_lt_irrefl; eauto.
  - intros H'. exfalso. eapply lex_lt_asym; eauto.
Qed.

Lemma h_lte_iff a b : h_lte a b = true <-> (lex_lt a b \/ a = b).
Proof.
  unfold h_lte. destruct (h_compare_spec a b) as [[-> H]|[[-> H]|[-> H]]]; simpl; split; auto; try discriminate.
  intros [H'| ->]; exfalso; [eapply lex_lt_asym|eapply lex_lt_irrefl]; eauto.
Qed.

Lemma h_gte_iff a b : h_gte a b = true <-> (lex_lt b a \/ a = b).
Proof.
  unfold h_gte. destruct (h_compare_spec a b) as [[-> H]|[[-> H]|[-> H]]]; simpl; split; auto; try discriminate.
  intros [H'| ->]; exfalso; [eapply lex_lt_asym|eapply lex_lt_irrefl]; eauto.
Qed.

Lemma h_gt_iff a b : h_gt a b = true <-> lex_lt b a.
Proof.
  unfold h_gt. destruct (h_compare_spec a b) as [[-> H]|[[-> H]|[-> H]]]; simpl; split; auto; try discriminate.
  - intros H'. exfalso. eapply lex_lt_asym; eauto.
  - subst. intros H. exfalso. eapply lex_lt_irrefl; eauto.
Qed.

Lemma h_eq_iff a b : h_eq a b = true <-> a = b.
Proof.
  unfold h_eq. destruct (h_compare_spec a b) as [[-> H]|[[-> H]|[-> H]]]; simpl; split; auto; try discriminate;
  intros ->; exfalso; eapply lex_lt_irrefl; eauto.
Qed.

Lemma h_lte_trans a b c : h_lte a b = true -> h_lte b c = true -> h_lte a c = true.
Proof.
  rewrite !h_lte_iff. intros [H1| ->] [H2| ->]; auto. left. eapply lex_lt_trans; eauto.
Qed.

Lemma h_lte_total a b : h_lte a b = true \/ h_lte b a = true.
Proof.
  rewrite !h_lte_iff. destruct (h_compare_spec a b) as [[_ H]|[[_ H]|[_ H]]]; auto.
Qed.

Lemma h_lte_antisym a b : h_lte a b = true -> h_lte b a = true -> a = b.
Proof.
  rewrite !h_lte_iff. intros [H1| ->] [H2| E]; auto. exfalso. eapply lex_lt_asym; eauto.
Qed.

Lemma h_gte_lte a b : h_gte a b = h_lte b a.
Proof.
  unfold h_gte, h_lte. rewrite (h_compare_antisym b a).
  destruct (h_compare_range a b) as [->|[->| ->]]; reflexivity.
Qed.

(** ** format / parse *)

Lemma dash_not_digit : is_digit dash = false.
Proof. reflexivity. Qed.

Lemma dec_no_dash n : ~ In dash (dec n).
Proof. eapply forallb_not_in; [apply dec_digits|apply dash_not_digit]. Qed.

Lemma parse_height_string h :
  rev h < two64 -> ht h < two64 -> parse_height (h_string h) = Some h.
Proof.
  intros Hr Hh. unfold parse_height, h_string.
  rewrite split_on_app by apply dec_no_dash.
  rewrite split_on_nosep by apply dec_no_dash.
  rewrite !parse_dec by assumption. now destruct h.
Qed.

Lemma parse_height_bound s h : parse_height s = Some h -> rev h < two64 /\ ht h < two64.
Proof.
  unfold parse_height. destruct (split_on dash s) as [|a [|b [|? ?]]]; try discriminate.
  destruct (parse_uint64 a) eqn:Ea; [|discriminate]. destruct (parse_uint64 b) eqn:Eb; [|discriminate].
  intros [= <-]. simpl. split; eapply parse_bound; eauto.
Qed.

(** ** timeouts *)

Lemma height_elapsed_mono t h h' :
  height_elapsed t h = true -> h_lte h h' = true -> height_elapsed t h' = true.
Proof.
  unfold height_elapsed. rewrite !andb_true_iff. intros [Hz Hg] Hle. split; [exact Hz|].
  rewrite h_gte_lte in *. eapply h_lte_trans; eauto.
Qed.

Lemma timestamp_elapsed_mono t ts ts' :
  timestamp_elapsed t ts = true -> ts <= ts' -> timestamp_elapsed t ts' = true.
Proof.
  unfold timestamp_elapsed. rewrite !andb_true_iff, !N.leb_le. intros [Hz Hg] Hle. split; [exact Hz|lia].
Qed.

Lemma elapsed_mono t h ts h' ts' :
  elapsed t h ts = true -> h_lte h h' = true -> ts <= ts' -> elapsed t h' ts' = true.
Proof.
  unfold elapsed. rewrite !orb_true_iff. intros [H|H] Hh Ht.
  - left. eapply height_elapsed_mono; eauto.
  - right. eapply timestamp_elapsed_mono; eauto.
Qed.

Lemma zero_height_never_elapses ts0 h : height_elapsed (mkT (mkH 0 0) ts0) h = false.
Proof. reflexivity. Qed.

Lemma zero_timestamp_never_elapses th ts : timestamp_elapsed (mkT th 0) ts = false.
Proof. reflexivity. Qed.

Lemma zero_timeout_never_elapses h ts : elapsed (mkT (mkH 0 0) 0) h ts = false.
Proof. reflexivity. Qed.

(** elapsed is exactly: (timeout height set and reached) or (timeout timestamp set and reached) *)
Lemma elapsed_iff t h ts :
  elapsed t h ts = true <->
  (t_height t <> mkH 0 0 /\ (lex_lt (t_height t) h \/ h = t_height t)) \/ (t_ts t <> 0 /\ t_ts t <= ts).
Proof.
  unfold elapsed, height_elapsed, timestamp_elapsed, h_is_zero.
  rewrite orb_true_iff, !andb_true_iff, !negb_true_iff, h_gte_iff, N.leb_le, N.eqb_neq.
  rewrite andb_false_iff, !N.eqb_neq.
  destruct (t_height t) as [r x]; simpl.
  split; (intros [[H1 H2]|H]; [left|right; exact H]; split; auto).
  - intros [= -> ->]. destruct H1; contradiction.
  - destruct (N.eq_dec r 0); [|auto]. destruct (N.eq_dec x 0); [|auto]. subst. contradiction.
Qed.
