(** C06 end to end: an acknowledgement processed on the sending chain was written by the receiving chain under the
    packet's destination key — for every history of the two-chain world with honest Tendermint-like clients.
    Same construction as Core/WorldInv*.v with ghost logs of the accepted MsgAcknowledgement messages (v1 and v2). *)
From IBC Require Import Lib.Bytes Lib.Dec Core.Height Core.HeightFacts Core.Chain Core.ChainFacts Core.ChainInv
  Core.ChainThms Core.World Core.WorldFacts Core.WorldInv Core.WorldInv2 Core.WorldInv3 Core.WorldThm Core.WorldV2 Core.WorldClose.
Local Open Scope N_scope.

Record AEntry := mkAE { a_src : K3; a_dst : K3; a_com : Commit1; a_ack : Data; a_client : Id }.
Record A2Entry := mkA2 { a2_src : KS; a2_dst : KS; a2_com : Commit2; a2_acks : list Data; a2_client : Id }.
Record Ghost4 := mkG4 { k_alog : list AEntry; k_alog2 : list A2Entry }.
Definition ghost40 : Ghost4 := mkG4 [] [].

Definition gupd4 (g : Ghost4) (pre : ChainS) (o : WOp) (out : Outcome) : Ghost4 :=
  match out, packet_of o with
  | Ok, Some (OAck1 p ack _ _) =>
      match chan_conn pre (p_sp p, p_sc p) with
      | Some (ch, kk) => mkG4 (mkAE (p_sp p, p_sc p, p_seq p) (p_dp p, p_dc p, p_seq p) (commit1 p) ack (k_client kk) :: k_alog g) (k_alog2 g)
      | None => g
      end
  | Ok, Some (OAck2 q acks _ _) =>
      mkG4 (k_alog g) (mkA2 (q_src q, q_seq q) (q_dst q, q_seq q) (commit2 q) acks (base_client pre (q_src q)) :: k_alog2 g)
  | _, _ => g
  end.

Lemma gupd4_alog g pre o out a :
  In a (k_alog (gupd4 g pre o out)) ->
  In a (k_alog g) \/
  (exists p ack ph rl ch kk, out = Ok /\ packet_of o = Some (OAck1 p ack ph rl) /\
     chan_conn pre (p_sp p, p_sc p) = Some (ch, kk) /\
     a = mkAE (p_sp p, p_sc p, p_seq p) (p_dp p, p_dc p, p_seq p) (commit1 p) ack (k_client kk)).
Proof.
  unfold gupd4. destruct out; auto. destruct (packet_of o) as [op|]; auto. destruct op; auto.
  destruct (chan_conn pre (p_sp p, p_sc p)) as [[ch kk]|] eqn:Ec; auto.
  cbn. intros [<-|H]; auto. right. exists p, ack, ph, relayer, ch, kk. auto.
Qed.

Lemma gupd4_alog2 g pre o out a :
  In a (k_alog2 (gupd4 g pre o out)) ->
  In a (k_alog2 g) \/
  (exists q acks ph rl, out = Ok /\ packet_of o = Some (OAck2 q acks ph rl) /\
     a = mkA2 (q_src q, q_seq q) (q_dst q, q_seq q) (commit2 q) acks (base_client pre (q_src q))).
Proof.
  unfold gupd4. destruct out; auto. destruct (packet_of o) as [op|]; auto. destruct op; auto.
  - destruct (chan_conn pre (p_sp p, p_sc p)) as [[ch kk]|]; auto.
  - cbn. intros [<-|H]; auto. right. exists q, acks, ph, relayer. auto.
Qed.

Lemma datas_eqb_eq a b : datas_eqb a b = true -> a = b.
Proof.
  revert b; induction a as [|x a IH]; intros [|y b]; cbn; try discriminate; auto.
  intros H. apply andb_prop in H. destruct H as [H1 H2]. apply N.eqb_eq in H1. f_equal; auto.
Qed.

Section Link4.
Variable lh : Id.

(** [k4_sent*]: the acknowledged packet's commitment was stored by an accepted send under its source key;
    [k4_ack*]: the counterparty chain holds exactly the acknowledgement that was processed *)
Record Link4 (X Y : WChain) (gX : Ghost) (hX : Ghost2) (aX : Ghost4) : Prop := mkLink4 {
  k4_sent1 : forall a, In a (k_alog aX) -> g_ever gX (a_src a) = Some (a_com a);
  k4_sent2 : forall a, In a (k_alog2 aX) -> h_ever hX (a2_src a) = Some (a2_com a);
  k4_ack1 : forall a, In a (k_alog aX) -> a_client a <> lh -> ackc1 (w_chain Y) (a_dst a) = Some (a_ack a);
  k4_ack2 : forall a, In a (k_alog2 aX) -> a2_client a <> lh -> ackc2 (w_chain Y) (a2_dst a) = Some (a2_acks a) }.

Theorem link4_step_src sc nc X Y gX hX aX gY h t o X' out :
  Local X gX -> Local2 X hX -> Local Y gY -> Link4 X Y gX hX aX ->
  good_block X h t o -> wstep_chain sc nc lh X Y h t o = (X', out) ->
  Link4 X' Y (gupd gX (w_chain X) o h t out) (gupd2 hX (w_chain X) o h t out) (gupd4 aX (w_chain X) o out).
Proof.
  intros LX L2X LY K GB H.
  assert (forall k v, g_ever gX k = Some v -> g_ever (gupd gX (w_chain X) o h t out) k = Some v) as Hext.
  { intros k v. apply gupd_ever_ext. intros p ch s v' Hv. exact (l_ever_lt _ _ LX _ _ _ _ Hv). }
  assert (forall k v, h_ever hX k = Some v -> h_ever (gupd2 hX (w_chain X) o h t out) k = Some v) as Hext2.
  { intros k v. apply gupd2_ever_ext. intros id s v' Hv. exact (l2_ever_lt _ _ L2X _ _ _ Hv). }
  assert (forall p ack ph rl ch kk,
            out = Ok -> packet_of o = Some (OAck1 p ack ph rl) -> chan_conn (w_chain X) (p_sp p, p_sc p) = Some (ch, kk) ->
            com1 (w_chain X) (p_sp p, p_sc p, p_seq p) = Some (commit1 p) /\
            (k_client kk <> lh -> ackc1 (w_chain Y) (p_dp p, p_dc p, p_seq p) = Some ack)) as Hack1.
  { intros p ack ph rl ch kk -> Hop Hcc.
    destruct (wsc_effect_h lh _ _ _ _ _ _ _ _ _ _ H Hop) as [e [pf [Hs [Ets [Evn Evm]]]]]. cbn zeta in *.
    cbn [step] in Hs. apply msg_ack1_ok in Hs. destruct Hs as [c1 [a' [Ht _]]].
    apply ack1_tao_ok in Ht. destruct Ht as [ch0 [k0 [Hch0 [_ [_ [_ [Hk0 [_ [Hcm [_ [Hvm _]]]]]]]]]]]. cbn in Hch0, Hk0, Hcm.
    unfold chan_conn in Hcc. rewrite Hch0 in Hcc. rewrite Hk0 in Hcc. injection Hcc as <- <-.
    split; [exact Hcm|]. intros Hne.
    rewrite Evm in Hvm by exact I. cbn in Hvm. apply honest_membership in Hvm; [|exact Hne].
    destruct Hvm as [t0 [ver [snap [v' [_ [_ [Hsn [Hl Hv]]]]]]]].
    cbn in Hl. destruct (ackc1 snap (p_dp p, p_dc p, p_seq p)) as [bz|] eqn:Ea; [|discriminate]. cbn in Hl. inversion Hl; subst v'.
    cbn in Hv. apply N.eqb_eq in Hv. subst bz.
    destruct (l_vers _ _ LY _ _ (assocN_in _ _ _ Hsn)) as [M _]. exact (m_ackc1 _ _ M _ _ Ea). }
  assert (forall q acks ph rl,
            out = Ok -> packet_of o = Some (OAck2 q acks ph rl) ->
            com2 (w_chain X) (q_src q, q_seq q) = Some (commit2 q) /\
            (base_client (w_chain X) (q_src q) <> lh -> ackc2 (w_chain Y) (q_dst q, q_seq q) = Some acks)) as Hack2.
  { intros q acks ph rl -> Hop.
    destruct (wsc_effect_h lh _ _ _ _ _ _ _ _ _ _ H Hop) as [e [pf [Hs [Ets [Evn Evm]]]]]. cbn zeta in *.
    cbn [step] in Hs. unfold msg_ack2 in Hs.
    destruct (ack2_valid acks); cbn [negb] in Hs; [|discriminate].
    destruct (packet2_valid q); cbn [negb] in Hs; [|discriminate].
    destruct (ack2_tao e (set_block (w_chain X) h t) q acks ph) as [c1 o1] eqn:Et. destruct o1; try discriminate.
    apply ack2_tao_ok in Et. destruct Et as [_ [Hcm [Hvm _]]]. cbn in Hcm.
    change (base_client (set_block (w_chain X) h t) (q_src q)) with (base_client (w_chain X) (q_src q)) in *.
    split; [exact Hcm|]. intros Hne.
    rewrite Evm in Hvm by exact I. cbn in Hvm. apply honest_membership in Hvm; [|exact Hne].
    destruct Hvm as [t0 [ver [snap [v' [_ [_ [Hsn [Hl Hv]]]]]]]].
    cbn in Hl. destruct (ackc2 snap (q_dst q, q_seq q)) as [bz|] eqn:Ea; [|discriminate]. cbn in Hl. inversion Hl; subst v'.
    cbn in Hv. apply datas_eqb_eq in Hv. subst bz.
    destruct (l_vers _ _ LY _ _ (assocN_in _ _ _ Hsn)) as [M _]. exact (m_ackc2 _ _ M _ _ Ea). }
  constructor.
  - intros a Ha. apply gupd4_alog in Ha. destruct Ha as [Hold|(p & ack & ph & rl & ch & kk & Ho & Hop & Hcc & ->)].
    + apply Hext. exact (k4_sent1 _ _ _ _ _ K _ Hold).
    + cbn [a_src a_com]. apply Hext, (l_ever_cur _ _ LX). exact (proj1 (Hack1 _ _ _ _ _ _ Ho Hop Hcc)).
  - intros a Ha. apply gupd4_alog2 in Ha. destruct Ha as [Hold|(q & acks & ph & rl & Ho & Hop & ->)].
    + apply Hext2. exact (k4_sent2 _ _ _ _ _ K _ Hold).
    + cbn [a2_src a2_com]. apply Hext2, (l2_ever_cur _ _ L2X). exact (proj1 (Hack2 _ _ _ _ Ho Hop)).
  - intros a Ha Hc. apply gupd4_alog in Ha. destruct Ha as [Hold|(p & ack & ph & rl & ch & kk & Ho & Hop & Hcc & ->)].
    + exact (k4_ack1 _ _ _ _ _ K _ Hold Hc).
    + cbn [a_dst a_ack a_client] in *. exact (proj2 (Hack1 _ _ _ _ _ _ Ho Hop Hcc) Hc).
  - intros a Ha Hc. apply gupd4_alog2 in Ha. destruct Ha as [Hold|(q & acks & ph & rl & Ho & Hop & ->)].
    + exact (k4_ack2 _ _ _ _ _ K _ Hold Hc).
    + cbn [a2_dst a2_acks a2_client] in *. exact (proj2 (Hack2 _ _ _ _ Ho Hop) Hc).
Qed.

Theorem link4_step_dst sc nc X Y gX hX aX h t o Y' out :
  Link4 X Y gX hX aX -> wstep_chain sc nc lh Y X h t o = (Y', out) -> Link4 X Y' gX hX aX.
Proof.
  intros K H. pose proof (wsc_chain_mono _ _ _ _ _ _ _ _ _ _ H) as M.
  constructor.
  - exact (k4_sent1 _ _ _ _ _ K).
  - exact (k4_sent2 _ _ _ _ _ K).
  - intros a Ha Hc. exact (m_ackc1 _ _ M _ _ (k4_ack1 _ _ _ _ _ K _ Ha Hc)).
  - intros a Ha Hc. exact (m_ackc2 _ _ M _ _ (k4_ack2 _ _ _ _ _ K _ Ha Hc)).
Qed.

End Link4.

(** ** instrumented run *)
Record IW4 := mkIW4 { iw3 : IW3; ka : Ghost4; kb : Ghost4 }.

Definition istep4 (x : IW4) (s : WStep) : IW4 :=
  let w := iw (iw1 (iw2 (iw3 x))) in
  let pre := w_chain (side_w w (ws_side s)) in
  let out := snd (wstep w (ws_side s) (ws_h s) (ws_t s) (ws_op s)) in
  match ws_side s with
  | SA => mkIW4 (istep3 (iw3 x) s) (gupd4 (ka x) pre (ws_op s) out) (kb x)
  | SB => mkIW4 (istep3 (iw3 x) s) (ka x) (gupd4 (kb x) pre (ws_op s) out)
  end.

Definition irun4 (x : IW4) (l : list WStep) : IW4 := fold_left istep4 l x.

Fixpoint good_steps4 (x : IW4) (l : list WStep) : Prop :=
  match l with [] => True | s :: l' => good_step (iw (iw1 (iw2 (iw3 x)))) s /\ good_steps4 (istep4 x s) l' end.

Definition w4 (x : IW4) : World := iw (iw1 (iw2 (iw3 x))).
Definition g4a (x : IW4) : Ghost := ga (iw1 (iw2 (iw3 x))).
Definition g4b (x : IW4) : Ghost := gb (iw1 (iw2 (iw3 x))).
Definition h4a (x : IW4) : Ghost2 := ha (iw2 (iw3 x)).
Definition h4b (x : IW4) : Ghost2 := hb (iw2 (iw3 x)).

Record WI4 (x : IW4) : Prop := mkWI4 {
  wi4_v : WI3 (iw3 x);
  wi4_ab : Link4 (w_lh (w4 x)) (wa (w4 x)) (wb (w4 x)) (g4a x) (h4a x) (ka x);
  wi4_ba : Link4 (w_lh (w4 x)) (wb (w4 x)) (wa (w4 x)) (g4b x) (h4b x) (kb x) }.

Theorem wi4_step x s : WI4 x -> good_step (w4 x) s -> WI4 (istep4 x s).
Proof.
  intros [I Kab Kba] G. pose proof (wi3_step _ _ I G) as I'.
  destruct I as [[[L1a L1b K1ab K1ba] L2a L2b _ _] _ _ _ _].
  unfold istep4. destruct s as [side h t o]. cbn [ws_side ws_h ws_t ws_op] in *.
  unfold good_step in G. cbn [ws_side ws_h ws_t ws_op] in G.
  unfold w4, g4a, g4b, h4a, h4b in *. set (w := iw (iw1 (iw2 (iw3 x)))) in *.
  destruct side; cbn [side_w] in *.
  - constructor; cbn [iw3 ka kb]; [exact I'| |]; unfold w4, g4a, g4b, h4a, h4b; cbn [iw3];
      unfold istep3, istep2, istep; cbn [ws_side ws_h ws_t ws_op side_w iw1 iw2]; fold w; unfold wstep;
      destruct (wstep_chain (w_script w) (w_noncanon w) (w_lh w) (wa w) (wb w) h t o) as [a' out] eqn:E; cbn.
    + eapply link4_step_src; eauto.
    + eapply link4_step_dst; eauto.
  - constructor; cbn [iw3 ka kb]; [exact I'| |]; unfold w4, g4a, g4b, h4a, h4b; cbn [iw3];
      unfold istep3, istep2, istep; cbn [ws_side ws_h ws_t ws_op side_w iw1 iw2]; fold w; unfold wstep;
      destruct (wstep_chain (w_script w) (w_noncanon w) (w_lh w) (wb w) (wa w) h t o) as [b' out] eqn:E; cbn.
    + eapply link4_step_dst; eauto.
    + eapply link4_step_src; eauto.
Qed.

Theorem wi4_run x l : WI4 x -> good_steps4 x l -> WI4 (irun4 x l).
Proof.
  revert x; induction l as [|s l IH]; intros x I G; cbn [irun4 fold_left]; [exact I|].
  destruct G as [G1 G2]. apply IH; [now apply wi4_step|exact G2].
Qed.

(** every MsgAcknowledgement accepted over a remote client is for a packet whose commitment an accepted send stored
    under the packet's source key, and the other chain holds exactly the processed acknowledgement under the packet's
    destination key *)
Theorem ack_only_written x l :
  WI4 x -> good_steps4 x l ->
  let y := irun4 x l in
  (forall a, In a (k_alog (ka y)) ->
     g_ever (g4a y) (a_src a) = Some (a_com a) /\
     (a_client a <> w_lh (w4 y) -> ackc1 (w_chain (wb (w4 y))) (a_dst a) = Some (a_ack a))) /\
  (forall a, In a (k_alog (kb y)) ->
     g_ever (g4b y) (a_src a) = Some (a_com a) /\
     (a_client a <> w_lh (w4 y) -> ackc1 (w_chain (wa (w4 y))) (a_dst a) = Some (a_ack a))) /\
  (forall a, In a (k_alog2 (ka y)) ->
     h_ever (h4a y) (a2_src a) = Some (a2_com a) /\
     (a2_client a <> w_lh (w4 y) -> ackc2 (w_chain (wb (w4 y))) (a2_dst a) = Some (a2_acks a))) /\
  (forall a, In a (k_alog2 (kb y)) ->
     h_ever (h4b y) (a2_src a) = Some (a2_com a) /\
     (a2_client a <> w_lh (w4 y) -> ackc2 (w_chain (wa (w4 y))) (a2_dst a) = Some (a2_acks a))).
Proof.
  intros I G y. pose proof (wi4_run _ _ I G) as [_ Kab Kba]. fold y in Kab, Kba.
  repeat split; intros.
  - eapply k4_sent1; eauto.
  - eapply k4_ack1; eauto.
  - eapply k4_sent1; eauto.
  - eapply k4_ack1; eauto.
  - eapply k4_sent2; eauto.
  - eapply k4_ack2; eauto.
  - eapply k4_sent2; eauto.
  - eapply k4_ack2; eauto.
Qed.

Theorem wi4_base w :
  base_chain (wa w) -> base_chain (wb w) -> base_clients (wa w) (wb w) -> base_clients (wb w) (wa w) ->
  WI4 (mkIW4 (mkIW3 (mkIW2 (mkIW w ghost0 ghost0) ghost20 ghost20) [] []) ghost40 ghost40).
Proof.
  intros Fa Fb Ca Cb. constructor; cbn; auto using wi3_base; constructor; cbn; tauto.
Qed.

Lemma irun4_iw3 x l : iw3 (irun4 x l) = irun3 (iw3 x) l.
Proof.
  revert x; induction l as [|s l IH]; intros x; cbn [irun4 irun3 fold_left]; [reflexivity|].
  fold (irun4 (istep4 x s) l). fold (irun3 (istep3 (iw3 x) s) l). rewrite IH. f_equal.
  unfold istep4. destruct (ws_side s); reflexivity.
Qed.

(** ** non-vacuity: a run in which an acknowledgement is accepted over a remote client *)
Definition exa_steps : list WStep :=
  [ mkWS SA (mkH 1 11) 1100 (WPacket (OSend1 1 10 (mkH 1 50) 0 2) PGarbage);
    mkWS SA (mkH 1 12) 1200 WEmpty;
    mkWS SB (mkH 1 11) 1300 (WUpdateClient 8 12);
    mkWS SB (mkH 1 12) 1400 (WPacket (ORecv1 exc_packet (mkH 1 12) 0) (PHonest 11 (KCommit1 1 10 1)));
    mkWS SB (mkH 1 13) 1500 WEmpty;
    mkWS SA (mkH 1 13) 1600 (WUpdateClient 9 13);
    mkWS SA (mkH 1 14) 1700 (WPacket (OAck1 exc_packet 2 (mkH 1 13) 0) (PHonest 12 (KAck1 1 20 1))) ].

Definition exa0 : IW4 := mkIW4 exc0 ghost40 ghost40.

Example exa_wi : WI4 exa0.
Proof.
  apply wi4_base.
  - apply exw_base_chain.
  - apply exw_base_chain.
  - intros id cl [E|[]]. inversion E; subst. cbn. split; [reflexivity|]. intros hh t ver [E'|[]]. inversion E'; subst. cbn. auto.
  - intros id cl [E|[]]. inversion E; subst. cbn. split; [reflexivity|]. intros hh t ver [E'|[]]. inversion E'; subst. cbn. auto.
Qed.

Example exa_good : good_steps4 exa0 exa_steps.
Proof. vm_compute. repeat split; first [reflexivity | discriminate | exact I | (intro HH; discriminate HH)]. Qed.

Example exa_accepted :
  map a_dst (k_alog (ka (irun4 exa0 exa_steps))) = [(1, 20, 1)] /\ map a_ack (k_alog (ka (irun4 exa0 exa_steps))) = [2] /\
  map a_client (k_alog (ka (irun4 exa0 exa_steps))) = [9].
Proof. vm_compute. repeat split; reflexivity. Qed.
