(** Store keys of the IBC core store (C16): every submodule (02-client, 03-connection, 04-channel v1 and v2, clientv2)
    writes into the one "ibc" KV store, so all of these byte strings share one key space.

    Go sources modelled:
      modules/core/24-host/channel_keys.go      ChannelKey, ChannelPath
      modules/core/24-host/packet_keys.go       NextSequenceRecvKey, NextSequenceAckKey, PacketCommitment[Prefix]Key,
                                                PacketAcknowledgement[Prefix]Key, PacketReceiptKey, RecvStartSequenceKey,
                                                sequencePath
      modules/core/24-host/client_keys.go       FullClientKey, PrefixedClientStoreKey, FullClientStateKey, ClientStateKey,
                                                FullConsensusStateKey, ConsensusStateKey
      modules/core/24-host/connection_keys.go   ClientConnectionsKey, ConnectionKey
      modules/core/24-host/v2/packet_keys.go    Packet{Commitment,Receipt,Acknowledgement}[Prefix]Key, NextSequenceSendKey
      modules/core/04-channel/v2/types/keys.go  AsyncPacketKey, AsyncPacketPrefixKey, AliasKey   (keeper-private kinds)
      modules/core/04-channel/types/keys.go     FilteredPortPrefix, KeyNextChannelSequence
      modules/core/02-client/keeper/keeper.go   ClientStore (prefix "clients/<id>/")
      modules/core/0{2,3}-*/types/keys.go       KeyNextClientSequence, KeyNextConnectionSequence, ParamsKey *)
From IBC Require Import Lib.Bytes Lib.Dec Lib.BE64 Core.Height.
Local Open Scope N_scope.

(** ** 24-host (IBC v1): '/'-joined paths, fmt "%s/%s" *)

(** ChannelPath: fmt.Sprintf("%s/%s/%s/%s", KeyPortPrefix, portID, KeyChannelPrefix, channelID) *)
Definition channel_path (p c : bytes) : bytes :=
  B "ports" ++ slash :: p ++ slash :: B "channels" ++ slash :: c.

Definition channel_key (p c : bytes) : bytes := B "channelEnds" ++ slash :: channel_path p c.
Definition next_sequence_recv_key (p c : bytes) : bytes := B "nextSequenceRecv" ++ slash :: channel_path p c.
Definition next_sequence_ack_key (p c : bytes) : bytes := B "nextSequenceAck" ++ slash :: channel_path p c.
Definition recv_start_sequence_key (p c : bytes) : bytes := B "recvStartSequence" ++ slash :: channel_path p c.

(** PacketCommitmentPrefixKey: "%s/%s/%s" of KeyPacketCommitmentPrefix, ChannelPath, KeySequencePrefix *)
Definition packet_commitment_prefix_key (p c : bytes) : bytes :=
  B "commitments" ++ slash :: channel_path p c ++ slash :: B "sequences".
(** PacketCommitmentKey: "%s/%d" of the prefix key and the sequence *)
Definition packet_commitment_key (p c : bytes) (s : N) : bytes :=
  packet_commitment_prefix_key p c ++ slash :: dec s.

Definition packet_acknowledgement_prefix_key (p c : bytes) : bytes :=
  B "acks" ++ slash :: channel_path p c ++ slash :: B "sequences".
Definition packet_acknowledgement_key (p c : bytes) (s : N) : bytes :=
  packet_acknowledgement_prefix_key p c ++ slash :: dec s.

(** sequencePath: "%s/%d" *)
Definition sequence_path (s : N) : bytes := B "sequences" ++ slash :: dec s.
(** PacketReceiptKey: "%s/%s/%s" of KeyPacketReceiptPrefix, ChannelPath, sequencePath *)
Definition packet_receipt_key (p c : bytes) (s : N) : bytes :=
  B "receipts" ++ slash :: channel_path p c ++ slash :: sequence_path s.

Definition connection_key (id : bytes) : bytes := B "connections" ++ slash :: id.

(** FullClientKey: "%s/%s/%s" of KeyClientStorePrefix, clientID, path (path: arbitrary bytes chosen by the caller or
    by a light client module) *)
Definition full_client_key (id path : bytes) : bytes := B "clients" ++ slash :: id ++ slash :: path.
(** ClientStore / StoreProvider.ClientStore: prefix store under fmt "%s/%s/" — a write of key k through it lands on
    [client_store_prefix id ++ k] *)
Definition client_store_prefix (id : bytes) : bytes := B "clients" ++ slash :: id ++ [slash].
Definition prefixed_client_store_key (pre : bytes) : bytes := B "clients" ++ slash :: pre.
Definition client_state_key : bytes := B "clientState".
Definition full_client_state_key (id : bytes) : bytes := full_client_key id client_state_key.
(** ConsensusStateKey: "%s/%s" of KeyConsensusStatePrefix and height.String() *)
Definition consensus_state_key (h : Height) : bytes := B "consensusStates" ++ slash :: h_string h.
Definition full_consensus_state_key (id : bytes) (h : Height) : bytes := full_client_key id (consensus_state_key h).
Definition client_connections_key (id : bytes) : bytes := full_client_key id (B "connections").
(** the iteration prefix of the consensus states of one client (02-client/keeper/grpc_query.go) *)
Definition consensus_states_prefix (id : bytes) : bytes := full_client_key id (B "consensusStates" ++ [slash]).

(** FilteredPortPrefix: "%s/%s/%s" of KeyChannelEndPrefix, KeyPortPrefix, portPrefix *)
Definition filtered_port_prefix (pp : bytes) : bytes := B "channelEnds" ++ slash :: B "ports" ++ slash :: pp.

(** ** 24-host/v2 (IBC v2): clientID || kind byte || 8-byte big-endian sequence *)

Inductive V2Kind := V2Commitment | V2Receipt | V2Ack.
Definition v2_kind_byte (k : V2Kind) : ascii :=
  match k with V2Commitment => ascii_of_N 1 | V2Receipt => ascii_of_N 2 | V2Ack => ascii_of_N 3 end.

(** Packet*PrefixKey: append([]byte(channelID), base prefix byte) *)
Definition v2_prefix_key (k : V2Kind) (id : bytes) : bytes := id ++ [v2_kind_byte k].
(** Packet*Key: append(prefix key, sdk.Uint64ToBigEndian(sequence)...) *)
Definition v2_packet_key (k : V2Kind) (id : bytes) (s : N) : bytes := v2_prefix_key k id ++ be64 s.

(** NextSequenceSendKey: fmt "%s/%s" with KeyNextSeqSendPrefix = "nextSequenceSend/" (so two slashes); also used by the
    v1 channel keeper with the channel identifier *)
Definition v2_next_sequence_send_key (id : bytes) : bytes := B "nextSequenceSend/" ++ slash :: id.

(** keeper-private kinds of 04-channel/v2 *)
Definition async_packet_prefix_key (id : bytes) : bytes := id ++ B "async_packet".
Definition async_packet_key (id : bytes) (s : N) : bytes := async_packet_prefix_key id ++ be64 s.
Definition alias_key (a : bytes) : bytes := a ++ B "alias".

(** ** single keys *)
Inductive Single := SNextClientSeq | SNextConnectionSeq | SNextChannelSeq | SClientParams | SConnectionParams.
Definition single_key (s : Single) : bytes :=
  match s with
  | SNextClientSeq => B "nextClientSequence"
  | SNextConnectionSeq => B "nextConnectionSequence"
  | SNextChannelSeq => B "nextChannelSequence"
  | SClientParams => B "clientParams"
  | SConnectionParams => B "connectionParams"
  end.

(** ** the key universe: one constructor per kind of protocol object *)
Inductive Key :=
| KChannelEnd (p c : bytes)
| KNextRecv (p c : bytes)
| KNextAck (p c : bytes)
| KRecvStart (p c : bytes)
| KCommit (p c : bytes) (s : N)
| KAck (p c : bytes) (s : N)
| KReceipt (p c : bytes) (s : N)
| KConnEnd (id : bytes)
| KNextSend (id : bytes)                   (* channel identifier (v1) or client identifier (v2) *)
| KSingle (s : Single)
| KClientStore (id path : bytes)           (* any key written through ClientStore(id), or FullClientKey(id, path) *)
| K2 (k : V2Kind) (id : bytes) (s : N)
| KAsync (id : bytes) (s : N)
| KAlias (a : bytes).

Definition encode (k : Key) : bytes :=
  match k with
  | KChannelEnd p c => channel_key p c
  | KNextRecv p c => next_sequence_recv_key p c
  | KNextAck p c => next_sequence_ack_key p c
  | KRecvStart p c => recv_start_sequence_key p c
  | KCommit p c s => packet_commitment_key p c s
  | KAck p c s => packet_acknowledgement_key p c s
  | KReceipt p c s => packet_receipt_key p c s
  | KConnEnd id => connection_key id
  | KNextSend id => v2_next_sequence_send_key id
  | KSingle s => single_key s
  | KClientStore id path => full_client_key id path
  | K2 k id s => v2_packet_key k id s
  | KAsync id s => async_packet_key id s
  | KAlias a => alias_key a
  end.

(** sdk.KVStorePrefixIterator(store, prefix) over a list of stored keys: the keys it visits *)
Definition prefix_iter (pre : bytes) (keys : list bytes) : list bytes := filter (is_prefix pre) keys.

(** 04-channel/v2/keeper/keeper.go:extractSequenceFromKey — bytes.TrimPrefix, panic when more than 8 bytes remain,
    sdk.BigEndianToUint64 (0 for an empty slice; panics on 1..7 bytes: binary.BigEndian.Uint64 index out of range) *)
Inductive Extract := ExtOk (s : N) | ExtPanic.
Definition extract_sequence_from_key (key pre : bytes) : Extract :=
  let sb := match strip_prefix pre key with Some r => r | None => key end in
  if (8 <? N.of_nat (length sb)) then ExtPanic
  else if (N.of_nat (length sb) =? 0) then ExtOk 0
  else if (N.of_nat (length sb) <? 8) then ExtPanic
  else ExtOk (be64_decode sb).

(** ** prefix iteration as the keepers do it

    04-channel/keeper/keeper.go: GetAllPacketCommitmentsAtChannel -> IteratePacketCommitmentAtChannel -> iterateHashes
    (prefix iterator on PacketCommitmentPrefixKey; strings.Split(key, "/"); strconv.ParseUint of the last part, panic on
    error);  04-channel/v2/keeper/keeper.go: GetAll{PacketCommitments,PacketReceipts,PacketAcknowledgements,AsyncPackets}-
    ForClient -> getAllPacketStateForClient (prefix iterator, extractSequenceFromKey). *)
Inductive Query := QCommit1 (p c : bytes) | Q2 (k : V2Kind) (id : bytes) | QAsync (id : bytes).

Definition query_prefix (q : Query) : bytes :=
  match q with
  | QCommit1 p c => packet_commitment_prefix_key p c
  | Q2 k id => v2_prefix_key k id
  | QAsync id => async_packet_prefix_key id
  end.

(** the sequence reported for one visited key; [None] = the keeper panics *)
Definition visit (q : Query) (key : bytes) : option N :=
  match q with
  | QCommit1 _ _ => parse_uint64 (last (split_on slash key) [])
  | _ => match extract_sequence_from_key key (query_prefix q) with ExtOk s => Some s | ExtPanic => None end
  end.

Fixpoint visit_all (q : Query) (keys : list bytes) : option (list N) :=
  match keys with
  | [] => Some []
  | k :: ks => match visit q k, visit_all q ks with
               | Some s, Some l => Some (s :: l)
               | _, _ => None
               end
  end.

(** [store]: the protocol objects present (the store is a map: each key once) *)
Definition iterate (store : list Key) (q : Query) : option (list N) :=
  visit_all q (prefix_iter (query_prefix q) (map encode store)).
