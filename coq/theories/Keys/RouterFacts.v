(** Proofs about Keys/Router.v (C48). *)
From Coq Require Import Permutation Sorted.
From IBC Require Import Lib.Bytes Lib.BytesFacts Lib.BE64 Keys.Ident Keys.Router.
Local Open Scope N_scope.

(** ** prefixes *)
Lemma is_prefix_refl a : is_prefix a a = true.
Proof. induction a; simpl; auto. now rewrite Ascii.eqb_refl. Qed.

(** two prefixes of one string are nested *)
Lemma prefixes_nested p q s :
  is_prefix p s = true -> is_prefix q s = true -> is_prefix p q = true \/ is_prefix q p = true.
Proof.
  revert q s. induction p as [|x p IH]; intros q s Hp Hq; [now left|].
  destruct q as [|y q]; [now right|].
  destruct s as [|z s]; [discriminate|]. simpl in *.
  apply andb_true_iff in Hp as [E1 Hp]. apply andb_true_iff in Hq as [E2 Hq].
  apply Ascii.eqb_eq in E1, E2. subst. rewrite Ascii.eqb_refl. simpl. eauto.
Qed.

(** ** association lists *)
Lemma has_key_in k m : has_key k m = true <-> In k (map fst m).
Proof.
  unfold has_key. rewrite existsb_exists. split.
  - intros ([a v] & Hin & E). apply bytes_eqb_eq in E. simpl in E. subst. apply in_map_iff. exists (k, v). auto.
  - intros Hin. apply in_map_iff in Hin as ([a v] & E & Hin). simpl in E. subst. exists (k, v). split; [assumption|apply bytes_eqb_refl].
Qed.

(** [find] is invariant under permutation when at most one element satisfies the predicate *)
Lemma find_unique_perm {A} (f : A -> bool) l l' :
  Permutation l l' -> (forall x y, In x l -> In y l -> f x = true -> f y = true -> x = y) -> find f l = find f l'.
Proof.
  intros P U.
  destruct (find f l) as [x|] eqn:F.
  - apply find_some in F as [Hin Hx].
    destruct (find f l') as [y|] eqn:F'.
    + apply find_some in F' as [Hin' Hy]. f_equal. apply U; auto. eapply Permutation_in; [symmetry; eassumption|assumption].
    + exfalso. eapply find_none in F'; [|eapply Permutation_in; eassumption]. congruence.
  - destruct (find f l') as [y|] eqn:F'; [|reflexivity].
    apply find_some in F' as [Hin' Hy]. exfalso.
    eapply find_none in F; [|eapply Permutation_in; [symmetry; eassumption|eassumption]]. congruence.
Qed.

Lemma NoDup_keys_unique (m : amap) x y :
  NoDup (map fst m) -> In x m -> In y m -> fst x = fst y -> x = y.
Proof.
  induction m as [|e m IH]; intros ND Hx Hy E; [contradiction|].
  simpl in ND. inversion ND as [|? ? Hn ND']; subst.
  destruct Hx as [->|Hx], Hy as [->|Hy]; auto.
  - exfalso. apply Hn. rewrite E. now apply in_map.
  - exfalso. apply Hn. rewrite <- E. now apply in_map.
Qed.

Lemma lookup_perm k m m' : Permutation m m' -> NoDup (map fst m) -> lookup k m = lookup k m'.
Proof.
  intros P ND. unfold lookup. rewrite (find_unique_perm _ m m' P); [reflexivity|].
  intros x y Hx Hy Ex Ey. apply bytes_eqb_eq in Ex, Ey. apply (NoDup_keys_unique m); congruence.
Qed.

(** ** IBC v2 router: the invariant every accepted registration sequence establishes *)
Record Inv2 (r : Router2) : Prop := {
  inv_routes_nodup : NoDup (map fst (routes r));
  inv_prefix_nodup : NoDup (map fst (prefix_routes r));
  inv_prefix_nonnested :
    forall e1 e2, In e1 (prefix_routes r) -> In e2 (prefix_routes r) -> is_prefix (fst e1) (fst e2) = true -> fst e1 = fst e2;
  inv_route_not_covered :
    forall e p, In e (routes r) -> In p (prefix_routes r) -> is_prefix (fst p) (fst e) = false
}.

Lemma inv_empty2 : Inv2 empty2.
Proof. split; simpl; try constructor; intros; contradiction. Qed.

Lemma existsb_false_forall {A} (f : A -> bool) l : existsb f l = false -> forall x, In x l -> f x = false.
Proof.
  intros H x Hin. destruct (f x) eqn:E; [|reflexivity].
  assert (existsb f l = true) by (apply existsb_exists; eauto). congruence.
Qed.

Lemma add_route_inv r p m r' : Inv2 r -> add_route r p m = Some r' -> Inv2 r'.
Proof.
  intros [I1 I0 I2 I3]. unfold add_route.
  destruct (is_alphanumeric p); [|discriminate]. cbn [negb].
  destruct (has_key p (routes r)) eqn:HK; [discriminate|].
  destruct (existsb _ (prefix_routes r)) eqn:EP; [discriminate|].
  intros [= <-]. split; cbn [routes prefix_routes]; try assumption.
  - simpl. constructor; [|assumption]. intros Hin. apply has_key_in in Hin. congruence.
  - intros e q [<-|He] Hq; [|now apply I3]. simpl. now apply (existsb_false_forall _ _ EP).
Qed.

Lemma add_prefix_route_inv r p m r' : Inv2 r -> add_prefix_route r p m = Some r' -> Inv2 r'.
Proof.
  intros [I1 I0 I2 I3]. unfold add_prefix_route.
  destruct (is_alphanumeric p); [|discriminate]. cbn [negb].
  destruct (existsb _ (routes r)) eqn:ER; [discriminate|].
  destruct (existsb _ (prefix_routes r)) eqn:EP; [discriminate|].
  intros [= <-]. split; cbn [routes prefix_routes]; try assumption.
  - simpl. constructor; [|assumption]. intros Hin. apply in_map_iff in Hin as (e & E & Hin).
    apply (existsb_false_forall _ _ EP) in Hin. rewrite E, is_prefix_refl in Hin. discriminate.
  - intros e1 e2 [<-|H1] [<-|H2] Hp; auto.
    + exfalso. apply (existsb_false_forall _ _ EP) in H2. apply orb_false_iff in H2 as [_ H2]. simpl in Hp. congruence.
    + exfalso. apply (existsb_false_forall _ _ EP) in H1. apply orb_false_iff in H1 as [H1 _]. simpl in Hp. congruence.
  - intros e q He [<-|Hq]; [|now apply I3]. simpl. now apply (existsb_false_forall _ _ ER).
Qed.

Lemma apply2_inv r o r' : Inv2 r -> apply2 (Some r) o = Some r' -> Inv2 r'.
Proof. destruct o; simpl; [apply add_route_inv|apply add_prefix_route_inv]. Qed.

Lemma fold_apply2_none ops : fold_left apply2 ops None = None.
Proof. induction ops; simpl; auto. Qed.

Lemma run2_inv_gen ops r r' : Inv2 r -> fold_left apply2 ops (Some r) = Some r' -> Inv2 r'.
Proof.
  revert r. induction ops as [|o ops IH]; intros r I E; cbn [fold_left] in E; [now injection E as <-|].
  destruct (apply2 (Some r) o) as [r1|] eqn:A; [|rewrite fold_apply2_none in E; discriminate].
  eapply IH; [|exact E]. eapply apply2_inv; eauto.
Qed.

Theorem run2_inv ops r : run2 ops = Some r -> Inv2 r.
Proof. apply run2_inv_gen, inv_empty2. Qed.

Lemma run2_trace_inv ops r : Inv2 r -> Inv2 (snd (run2_trace r ops)).
Proof.
  revert r. induction ops as [|o ops IH]; intros r I; [exact I|].
  cbn [run2_trace]. unfold step2. destruct (apply2 (Some r) o) as [r1|] eqn:A.
  - specialize (IH r1 (apply2_inv _ _ _ I A)). destruct (run2_trace r1 ops). exact IH.
  - specialize (IH r I). destruct (run2_trace r ops). exact IH.
Qed.

(** module [m] is registered for [port]: by an exact route or by a prefix route (no order involved) *)
Definition route_matches (r : Router2) (port : bytes) (m : N) : Prop :=
  In (port, m) (routes r) \/ exists pre, In (pre, m) (prefix_routes r) /\ is_prefix pre port = true.

(** every port resolves to at most one module *)
Theorem unambiguous2 r port m1 m2 :
  Inv2 r -> route_matches r port m1 -> route_matches r port m2 -> m1 = m2.
Proof.
  intros [I1 I0 I2 I3] [H1|(p1 & H1 & P1)] [H2|(p2 & H2 & P2)].
  - assert ((port, m1) = (port, m2)) as E by (apply (NoDup_keys_unique (routes r)); auto). now injection E.
  - exfalso. specialize (I3 _ _ H1 H2). simpl in I3. congruence.
  - exfalso. specialize (I3 _ _ H2 H1). simpl in I3. congruence.
  - assert (p1 = p2) as ->.
    { destruct (prefixes_nested _ _ _ P1 P2) as [N|N].
      - apply (I2 (p1, m1) (p2, m2)); auto.
      - symmetry. apply (I2 (p2, m2) (p1, m1)); auto. }
    assert ((p2, m1) = (p2, m2)) as E by (apply (NoDup_keys_unique (prefix_routes r)); auto). now injection E.
Qed.

Lemma lookup_some k m v : lookup k m = Some v -> In (k, v) m.
Proof.
  unfold lookup. destruct (find _ m) as [[a b]|] eqn:F; [|discriminate]. intros [= <-].
  apply find_some in F as [Hin E]. apply bytes_eqb_eq in E. simpl in E. now subst.
Qed.

Lemma lookup_none k m : lookup k m = None -> forall v, ~ In (k, v) m.
Proof.
  unfold lookup. destruct (find _ m) as [[a b]|] eqn:F; [discriminate|]. intros _ v Hin.
  eapply find_none in F; [|exact Hin]. simpl in F. rewrite bytes_eqb_refl in F. discriminate.
Qed.

(** getRoute returns a registered module, and finds one whenever there is one *)
Lemma get_route_sound r port m : get_route r port = Some m -> route_matches r port m.
Proof.
  unfold get_route. destruct (lookup port (routes r)) as [v|] eqn:L.
  - intros [= <-]. left. now apply lookup_some.
  - destruct (find _ (prefix_routes r)) as [[p v]|] eqn:F; [|discriminate]. intros [= <-].
    apply find_some in F as [Hin P]. right. exists p. auto.
Qed.

Lemma get_route_complete r port m : route_matches r port m -> exists m', get_route r port = Some m'.
Proof.
  unfold get_route. intros [H|(p & H & P)].
  - destruct (lookup port (routes r)) as [v|] eqn:L; [eauto|]. exfalso. eapply lookup_none; eauto.
  - destruct (lookup port (routes r)) as [v|] eqn:L; [eauto|].
    destruct (find _ (prefix_routes r)) as [[q v]|] eqn:F; [eauto|].
    exfalso. eapply find_none in F; [|exact H]. simpl in F. congruence.
Qed.

Theorem get_route_spec r port m : Inv2 r -> (get_route r port = Some m <-> route_matches r port m).
Proof.
  intros I. split; [apply get_route_sound|].
  intros M. destruct (get_route_complete _ _ _ M) as [m' E]. rewrite E. f_equal.
  eapply unambiguous2; eauto. now apply get_route_sound.
Qed.

(** the result does not depend on the map iteration order: any permutation of the two maps gives the same answer *)
Theorem get_route_perm r rs ps port :
  Inv2 r -> Permutation (routes r) rs -> Permutation (prefix_routes r) ps ->
  get_route (mkR2 rs ps) port = get_route r port.
Proof.
  intros I P1 P2.
  assert (forall m, route_matches (mkR2 rs ps) port m <-> route_matches r port m) as EQ.
  { intros m. unfold route_matches. cbn [routes prefix_routes]. split.
    - intros [H|(p & H & P)]; [left|right; exists p; split; auto];
        (eapply Permutation_in; [symmetry; eassumption|assumption]).
    - intros [H|(p & H & P)]; [left|right; exists p; split; auto];
        (eapply Permutation_in; [eassumption|assumption]). }
  destruct (get_route r port) as [m|] eqn:G.
  - apply get_route_sound in G as M. apply EQ in M.
    destruct (get_route_complete _ _ _ M) as [m' E]. rewrite E. f_equal.
    apply get_route_sound in E. apply EQ in E. apply EQ in M. eapply unambiguous2; eauto.
  - destruct (get_route (mkR2 rs ps) port) as [m|] eqn:G'; [|reflexivity].
    apply get_route_sound, EQ, get_route_complete in G' as [m' E]. congruence.
Qed.

(** ambiguous registrations are refused: what makes AddRoute / AddPrefixRoute panic *)
Theorem add_route_rejects r p m :
  add_route r p m = None <->
  is_alphanumeric p = false \/ In p (map fst (routes r)) \/
  (exists e, In e (prefix_routes r) /\ is_prefix (fst e) p = true).
Proof.
  unfold add_route. destruct (is_alphanumeric p); cbn [negb]; [|split; auto].
  destruct (has_key p (routes r)) eqn:HK.
  - apply has_key_in in HK. split; auto.
  - destruct (existsb _ (prefix_routes r)) eqn:EP.
    + apply existsb_exists in EP. split; auto.
    + split; [discriminate|]. intros [H|[H|(e & He & Hp)]]; [discriminate| |].
      * apply has_key_in in H. congruence.
      * apply (existsb_false_forall _ _ EP) in He. congruence.
Qed.

Theorem add_prefix_route_rejects r p m :
  add_prefix_route r p m = None <->
  is_alphanumeric p = false \/
  (exists e, In e (routes r) /\ is_prefix p (fst e) = true) \/
  (exists e, In e (prefix_routes r) /\ (is_prefix (fst e) p = true \/ is_prefix p (fst e) = true)).
Proof.
  unfold add_prefix_route. destruct (is_alphanumeric p); cbn [negb]; [|split; auto].
  destruct (existsb _ (routes r)) eqn:ER.
  - apply existsb_exists in ER. split; auto.
  - destruct (existsb _ (prefix_routes r)) eqn:EP.
    + apply existsb_exists in EP as (e & He & Hp). apply orb_true_iff in Hp. split; eauto 6.
    + split; [discriminate|]. intros [H|[(e & He & Hp)|(e & He & Hp)]]; [discriminate| |].
      * apply (existsb_false_forall _ _ ER) in He. congruence.
      * apply (existsb_false_forall _ _ EP) in He. apply orb_false_iff in He as [? ?]. destruct Hp; congruence.
Qed.

(** ** IBC v2 router: the registration order does not matter *)
Definition op_name (o : Op2) : bytes := match o with AddR p _ | AddP p _ => p end.
Definition compat (o1 o2 : Op2) : bool :=
  match o1, o2 with
  | AddR p _, AddR q _ => negb (bytes_eqb q p)
  | AddR p _, AddP q _ => negb (is_prefix q p)
  | AddP q _, AddR p _ => negb (is_prefix q p)
  | AddP q _, AddP q' _ => negb (is_prefix q' q || is_prefix q q')
  end.

Lemma bytes_eqb_sym a b : bytes_eqb a b = bytes_eqb b a.
Proof.
  destruct (bytes_eqb a b) eqn:E.
  - apply bytes_eqb_eq in E. subst. symmetry. apply bytes_eqb_refl.
  - symmetry. apply bytes_eqb_neq. apply bytes_eqb_neq in E. congruence.
Qed.

Lemma compat_sym a b : compat a b = compat b a.
Proof. destruct a, b; simpl; auto. - now rewrite bytes_eqb_sym. - now rewrite orb_comm. Qed.

(** the router a list of accepted registrations (newest first) builds *)
Definition build (l : list Op2) : Router2 :=
  mkR2 (flat_map (fun o => match o with AddR p m => [(p, m)] | AddP _ _ => [] end) l)
       (flat_map (fun o => match o with AddP p m => [(p, m)] | AddR _ _ => [] end) l).

Fixpoint acceptedb (l : list Op2) : bool :=
  match l with
  | [] => true
  | o :: l' => acceptedb l' && is_alphanumeric (op_name o) && forallb (compat o) l'
  end.

Ltac bool_crush :=
  clear;
  repeat match goal with |- context [existsb ?f ?l] => generalize (existsb f l); intro end;
  repeat match goal with |- context [is_prefix ?a ?b] => generalize (is_prefix a b); intro end;
  repeat match goal with |- context [bytes_eqb ?a ?b] => generalize (bytes_eqb a b); intro end;
  repeat match goal with b : bool |- _ => destruct b end; reflexivity.

Lemma apply2_build l o :
  apply2 (Some (build l)) o =
  if is_alphanumeric (op_name o) && forallb (compat o) l then Some (build (o :: l)) else None.
Proof.
  destruct o as [p m|p m]; cbn [apply2 op_name]; unfold add_route, add_prefix_route;
    destruct (is_alphanumeric p); cbn [negb andb]; try reflexivity.
  - assert (forallb (compat (AddR p m)) l =
            negb (has_key p (routes (build l))) && negb (existsb (fun e => is_prefix (fst e) p) (prefix_routes (build l)))) as ->.
    { induction l as [|[q n|q n] l IH]; [reflexivity| |]; cbn [forallb compat build flat_map routes prefix_routes app] in *;
        unfold has_key in *; cbn [existsb fst] in *; rewrite IH; bool_crush. }
    destruct (has_key p (routes (build l))); cbn [negb andb]; [reflexivity|].
    match goal with |- context [existsb ?f (prefix_routes (build l))] => destruct (existsb f (prefix_routes (build l))) end; reflexivity.
  - assert (forallb (compat (AddP p m)) l =
            negb (existsb (fun e => is_prefix p (fst e)) (routes (build l))) &&
            negb (existsb (fun e => is_prefix (fst e) p || is_prefix p (fst e)) (prefix_routes (build l)))) as ->.
    { induction l as [|[q n|q n] l IH]; [reflexivity| |]; cbn [forallb compat build flat_map routes prefix_routes app] in *;
        cbn [existsb fst] in *; rewrite IH; bool_crush. }
    match goal with |- context [existsb ?f (routes (build l))] => destruct (existsb f (routes (build l))) end; cbn [negb andb]; [reflexivity|].
    match goal with |- context [existsb ?f (prefix_routes (build l))] => destruct (existsb f (prefix_routes (build l))) end; reflexivity.
Qed.

Lemma run_rev_spec l :
  fold_right (fun o r => apply2 r o) (Some empty2) l = if acceptedb l then Some (build l) else None.
Proof.
  induction l as [|o l IH]; [reflexivity|]. cbn [fold_right acceptedb]. rewrite IH.
  destruct (acceptedb l); cbn [andb]; [|reflexivity]. now rewrite apply2_build.
Qed.

Lemma run2_spec ops : run2 ops = if acceptedb (rev ops) then Some (build (rev ops)) else None.
Proof.
  unfold run2.
  assert (fold_left apply2 ops (Some empty2) = fold_right (fun o r => apply2 r o) (Some empty2) (rev ops)) as ->
    by (symmetry; apply (fold_left_rev_right (fun o r => apply2 r o))).
  apply run_rev_spec.
Qed.

Lemma forallb_perm {A} (f : A -> bool) l l' : Permutation l l' -> forallb f l = forallb f l'.
Proof. intros P. induction P; simpl; try congruence. now rewrite !andb_assoc, (andb_comm (f y)). Qed.

Lemma acceptedb_perm l l' : Permutation l l' -> acceptedb l = acceptedb l'.
Proof.
  intros P. induction P as [|x l l' P IH|x y l|l l' l'' P1 IH1 P2 IH2]; cbn [acceptedb forallb]; try congruence.
  - now rewrite IH, (forallb_perm _ _ _ P).
  - rewrite (compat_sym y x).
    destruct (acceptedb l), (is_alphanumeric (op_name x)), (is_alphanumeric (op_name y)), (compat x y),
      (forallb (compat x) l), (forallb (compat y) l); reflexivity.
Qed.

Theorem registration_order_independent ops ops' r :
  run2 ops = Some r -> Permutation ops ops' ->
  exists r', run2 ops' = Some r' /\ forall port, get_route r' port = get_route r port.
Proof.
  intros R P. assert (I := run2_inv _ _ R).
  rewrite run2_spec in R. rewrite run2_spec.
  assert (Permutation (rev ops) (rev ops')) as PR by (rewrite <- !Permutation_rev; exact P).
  rewrite <- (acceptedb_perm _ _ PR).
  destruct (acceptedb (rev ops)); [|discriminate]. injection R as <-.
  eexists. split; [reflexivity|]. intros port.
  change (build (rev ops')) with (mkR2 (routes (build (rev ops'))) (prefix_routes (build (rev ops')))).
  apply get_route_perm; [assumption| |]; unfold build; cbn [routes prefix_routes]; now apply Permutation_flat_map.
Qed.

(** and a rejected sequence is rejected in every order *)
Theorem rejection_order_independent ops ops' : run2 ops = None -> Permutation ops ops' -> run2 ops' = None.
Proof.
  intros R P. rewrite run2_spec in *.
  assert (Permutation (rev ops) (rev ops')) as PR by (rewrite <- !Permutation_rev; exact P).
  rewrite <- (acceptedb_perm _ _ PR). destruct (acceptedb (rev ops)); [discriminate|reflexivity].
Qed.

(** ** byte-wise lexicographic order (slices.Sort on strings) is a total order *)
Lemma N_of_ascii_inj a b : N_of_ascii a = N_of_ascii b -> a = b.
Proof. intros E. rewrite <- (ascii_N_embedding a), <- (ascii_N_embedding b). now rewrite E. Qed.

Lemma bytes_cmp_eq a b : bytes_cmp a b = Eq -> a = b.
Proof.
  revert b. induction a as [|x a IH]; destruct b as [|y b]; simpl; try discriminate; auto.
  destruct (N.compare_spec (N_of_ascii x) (N_of_ascii y)) as [E|L|G]; try discriminate.
  intros H. apply N_of_ascii_inj in E. subst. f_equal. auto.
Qed.

Lemma bytes_cmp_refl a : bytes_cmp a a = Eq.
Proof. induction a; simpl; auto. now rewrite N.compare_refl. Qed.

Lemma bytes_cmp_antisym a b : bytes_cmp b a = CompOpp (bytes_cmp a b).
Proof.
  revert b. induction a as [|x a IH]; destruct b as [|y b]; simpl; auto.
  rewrite (N.compare_antisym (N_of_ascii x) (N_of_ascii y)).
  destruct (N_of_ascii x ?= N_of_ascii y); simpl; auto.
Qed.

Lemma bytes_cmp_lt_trans a b c : bytes_cmp a b = Lt -> bytes_cmp b c = Lt -> bytes_cmp a c = Lt.
Proof.
  revert b c. induction a as [|x a IH]; intros [|y b] [|z c]; simpl; try discriminate; auto.
  destruct (N.compare_spec (N_of_ascii x) (N_of_ascii y)) as [E1|L1|G1]; try discriminate;
  destruct (N.compare_spec (N_of_ascii y) (N_of_ascii z)) as [E2|L2|G2]; try discriminate; intros H1 H2.
  - rewrite E1, E2, N.compare_refl. eauto.
  - rewrite E1. now apply N.compare_lt_iff in L2 as ->.
  - rewrite <- E2. now apply N.compare_lt_iff in L1 as ->.
  - assert (N_of_ascii x < N_of_ascii z) as L by lia. now apply N.compare_lt_iff in L as ->.
Qed.

Definition ble (a b : bytes) : Prop := bytes_leb a b = true.

Lemma ble_total a b : ble a b \/ ble b a.
Proof.
  unfold ble, bytes_leb. rewrite (bytes_cmp_antisym a b). destruct (bytes_cmp a b); simpl; auto.
Qed.

Lemma ble_antisym a b : ble a b -> ble b a -> a = b.
Proof.
  unfold ble, bytes_leb. rewrite (bytes_cmp_antisym a b). destruct (bytes_cmp a b) eqn:E; simpl; try discriminate.
  intros _ _. now apply bytes_cmp_eq.
Qed.

Lemma ble_trans a b c : ble a b -> ble b c -> ble a c.
Proof.
  unfold ble, bytes_leb. intros H1 H2.
  destruct (bytes_cmp a b) eqn:E1; try discriminate; destruct (bytes_cmp b c) eqn:E2; try discriminate.
  - apply bytes_cmp_eq in E1, E2. subst. now rewrite bytes_cmp_refl.
  - apply bytes_cmp_eq in E1. subst. now rewrite E2.
  - apply bytes_cmp_eq in E2. subst. now rewrite E1.
  - now rewrite (bytes_cmp_lt_trans _ _ _ E1 E2).
Qed.

(** insertion sort: a sorted permutation, and the sorted permutation is unique *)
Lemma insert_perm x l : Permutation (insert_sorted x l) (x :: l).
Proof.
  induction l as [|y l IH]; simpl; [reflexivity|].
  destruct (bytes_leb x y); [reflexivity|]. rewrite IH. apply perm_swap.
Qed.

Lemma sort_perm l : Permutation (sort_bytes l) l.
Proof. induction l as [|x l IH]; simpl; [reflexivity|]. rewrite insert_perm. now constructor. Qed.

Lemma insert_sorted_sorted x l : StronglySorted ble l -> StronglySorted ble (insert_sorted x l).
Proof.
  induction l as [|y l IH]; intros S; simpl.
  - constructor; constructor.
  - inversion S as [|? ? S' F]; subst. destruct (bytes_leb x y) eqn:E.
    + constructor; [assumption|]. constructor; [exact E|].
      eapply Forall_impl; [|exact F]. intros z Hz. eapply ble_trans; eauto.
    + constructor; [now apply IH|].
      assert (ble y x) as Hyx by (destruct (ble_total x y) as [H|H]; [unfold ble in H; congruence|assumption]).
      eapply Permutation_Forall; [symmetry; apply insert_perm|]. constructor; assumption.
Qed.

Lemma sort_sorted l : StronglySorted ble (sort_bytes l).
Proof. induction l; simpl; [constructor|]. now apply insert_sorted_sorted. Qed.

Lemma sorted_perm_unique l l' :
  StronglySorted ble l -> StronglySorted ble l' -> Permutation l l' -> l = l'.
Proof.
  revert l'. induction l as [|x l IH]; intros l' S S' P.
  - apply Permutation_nil in P. now subst.
  - destruct l' as [|y l']; [apply Permutation_sym, Permutation_nil in P; discriminate|].
    inversion S as [|? ? Sl Fl]; subst. inversion S' as [|? ? Sl' Fl']; subst.
    assert (x = y) as ->.
    { assert (In x (y :: l')) as Hx by (eapply Permutation_in; [exact P|now left]).
      assert (In y (x :: l)) as Hy by (eapply Permutation_in; [symmetry; exact P|now left]).
      destruct Hx as [->|Hx]; [reflexivity|]. destruct Hy as [->|Hy]; [reflexivity|].
      rewrite Forall_forall in Fl, Fl'. apply ble_antisym; auto. }
    f_equal. apply IH; auto. eapply Permutation_cons_inv; eauto.
Qed.

(** Router.Keys does not depend on the map iteration order *)
Lemma sort_perm_eq l l' : Permutation l l' -> sort_bytes l = sort_bytes l'.
Proof.
  intros P. apply sorted_perm_unique; try apply sort_sorted.
  rewrite sort_perm, P. symmetry. apply sort_perm.
Qed.

(** ** IBC v1 port router *)
Lemma add_route1_nodup r n m r' :
  NoDup (map fst (routes1 r)) -> add_route1 r n m = Some r' -> NoDup (map fst (routes1 r')).
Proof.
  unfold add_route1. intros ND. destruct (sealed r); [discriminate|].
  destruct (is_alphanumeric n); [|discriminate]. cbn [negb].
  destruct (has_key n (routes1 r)) eqn:HK; [discriminate|]. intros [= <-]. simpl.
  constructor; [|assumption]. intros Hin. apply has_key_in in Hin. congruence.
Qed.

Lemma run1_trace_nodup ops r : NoDup (map fst (routes1 r)) -> NoDup (map fst (routes1 (snd (run1_trace r ops)))).
Proof.
  revert r. induction ops as [|[[sl n] m] ops IH]; intros r ND; [exact ND|].
  cbn [run1_trace].
  assert (NoDup (map fst (routes1 (if sl then seal1 r else r)))) as ND' by (destruct sl; exact ND).
  destruct (add_route1 (if sl then seal1 r else r) n m) as [r1|] eqn:A.
  - specialize (IH r1 (add_route1_nodup _ _ _ _ ND' A)). destruct (run1_trace r1 ops). exact IH.
  - specialize (IH _ ND'). destruct (run1_trace _ ops). exact IH.
Qed.

(** Keeper.Route is a function of the *set* of registered routes: same answer for every map iteration order *)
Theorem route1_perm r rs name :
  NoDup (map fst (routes1 r)) -> Permutation (routes1 r) rs ->
  route1 (mkR1 rs (sealed r)) name = route1 r name.
Proof.
  intros ND P. unfold route1, keys1. cbn [routes1].
  rewrite <- (lookup_perm name _ _ P ND).
  rewrite <- (sort_perm_eq (map fst (routes1 r)) (map fst rs)) by (now apply Permutation_map).
  destruct (lookup name (routes1 r)); [reflexivity|].
  destruct (find _ _); [|reflexivity]. symmetry. now apply lookup_perm.
Qed.

(** what Route returns: the exact route if registered, otherwise the module of the least (byte order) registered
    name that is contained in the requested name *)
Theorem route1_spec r name m :
  route1 r name = Some m ->
  In (name, m) (routes1 r) \/
  (lookup name (routes1 r) = None /\
   exists k, In (k, m) (routes1 r) /\ contains k name = true /\
             forall k', In k' (map fst (routes1 r)) -> contains k' name = true -> ble k k').
Proof.
  unfold route1. destruct (lookup name (routes1 r)) as [v|] eqn:L.
  - intros [= <-]. left. now apply lookup_some.
  - destruct (find _ (keys1 r)) as [k|] eqn:F; [|discriminate]. intros Lk. right. split; [reflexivity|].
    exists k. apply find_some in F as F'. destruct F' as [Hin C]. repeat split; auto using lookup_some.
    intros k' Hk' Ck'. unfold keys1 in *.
    assert (In k' (sort_bytes (map fst (routes1 r)))) as Hs by (eapply Permutation_in; [symmetry; apply sort_perm|assumption]).
    assert (S := sort_sorted (map fst (routes1 r))).
    revert F Hs S. generalize (sort_bytes (map fst (routes1 r))). intros l.
    induction l as [|y l IH]; intros F Hs S; [contradiction|].
    simpl in F. inversion S as [|? ? S' Fy]; subst. destruct (contains y name) eqn:Cy.
    + injection F as <-. destruct Hs as [->|Hs]; [unfold ble, bytes_leb; now rewrite bytes_cmp_refl|].
      rewrite Forall_forall in Fy. auto.
    + destruct Hs as [->|Hs]; [congruence|]. auto.
Qed.
