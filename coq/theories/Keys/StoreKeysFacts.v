(** Proofs about Keys/StoreKeys.v (C16): injectivity of every key constructor, disjointness of kinds (v1, v2 and the
    keeper-private kinds against each other), prefix iteration, client store confinement. *)
From IBC Require Import Lib.Bytes Lib.BytesFacts Lib.Dec Lib.DecFacts Lib.BE64 Lib.BE64Facts Core.Height
  Keys.Util Keys.Ident Keys.IdentFacts Keys.StoreKeys.
Local Open Scope N_scope.

(** ** hypotheses on identifiers *)

(** what every host identifier validator enforces on the characters (lengths play no role for key injectivity) *)
Definition idok (x : bytes) : Prop := forallb is_id_char x = true.
Definition underscore : ascii := "_"%char.
(** no '_' — true of every identifier a chain generates ([channel-N], [connection-N], [type-N] for the registered
    client types 07-tendermint, 06-solomachine, 08-wasm, 09-localhost, attestations ...), although the validators
    accept '_' *)
Definition nous (x : bytes) : Prop := ~ In underscore x.

Lemma validator_idok id lo hi : default_identifier_validator id lo hi = true -> idok id.
Proof. intros H. now apply default_identifier_validator_iff in H as (_ & F & _). Qed.

Lemma idok_no_slash x : idok x -> ~ In slash x.
Proof. apply id_chars_no_slash. Qed.

Definition wf (k : Key) : Prop :=
  match k with
  | KChannelEnd p c | KNextRecv p c | KNextAck p c | KRecvStart p c => idok p /\ idok c
  | KCommit p c _ | KAck p c _ | KReceipt p c _ => idok p /\ idok c
  | KConnEnd id | KNextSend id => idok id
  | KSingle _ => True
  | KClientStore id _ => idok id
  | K2 _ id s => idok id /\ s < two64
  | KAsync id s => idok id /\ s < two64
  | KAlias a => idok a
  end.

(** ** the '/'-joined kinds: byte layout = join of '/'-free segments *)

Definition segs (k : Key) : option (list bytes) :=
  match k with
  | KChannelEnd p c => Some [B "channelEnds"; B "ports"; p; B "channels"; c]
  | KNextRecv p c => Some [B "nextSequenceRecv"; B "ports"; p; B "channels"; c]
  | KNextAck p c => Some [B "nextSequenceAck"; B "ports"; p; B "channels"; c]
  | KRecvStart p c => Some [B "recvStartSequence"; B "ports"; p; B "channels"; c]
  | KCommit p c s => Some [B "commitments"; B "ports"; p; B "channels"; c; B "sequences"; dec s]
  | KAck p c s => Some [B "acks"; B "ports"; p; B "channels"; c; B "sequences"; dec s]
  | KReceipt p c s => Some [B "receipts"; B "ports"; p; B "channels"; c; B "sequences"; dec s]
  | KConnEnd id => Some [B "connections"; id]
  | KNextSend id => Some [B "nextSequenceSend"; []; id]
  | KSingle s => Some [single_key s]
  | _ => None
  end.

Ltac norm_app := repeat (progress (rewrite <- ?app_assoc; cbn [app B list_ascii_of_string])).
Ltac unfold_keys :=
  unfold channel_key, next_sequence_recv_key, next_sequence_ack_key, recv_start_sequence_key,
    packet_commitment_key, packet_commitment_prefix_key, packet_acknowledgement_key, packet_acknowledgement_prefix_key,
    packet_receipt_key, sequence_path, channel_path, connection_key, v2_next_sequence_send_key, full_client_key,
    client_store_prefix in *.

(** the specification's path formula: the Go nested Sprintf calls produce exactly the '/'-join of the segments *)
Lemma encode_segs k l : segs k = Some l -> encode k = join_with slash l.
Proof.
  destruct k; cbn [segs]; intros [= <-]; cbn [encode]; unfold_keys; cbn [join_with]; norm_app; reflexivity.
Qed.

Lemma const_no_slash (s : bytes) : forallb (fun c => negb (Ascii.eqb c slash)) s = true -> ~ In slash s.
Proof.
  intros H Hin. rewrite forallb_forall in H. apply H in Hin. now rewrite Ascii.eqb_refl in Hin.
Qed.

Lemma segs_wf k l : wf k -> segs k = Some l -> l <> [] /\ Forall (fun p => ~ In slash p) l.
Proof.
  destruct k; cbn [segs wf]; intros W [= <-]; (split; [discriminate|]);
    repeat (apply Forall_cons); try apply Forall_nil; cbv beta;
    try (apply const_no_slash; reflexivity); try (apply idok_no_slash; tauto); try apply dec_no_slash;
    try (intros Hn; exact Hn).
  destruct s; apply const_no_slash; reflexivity.
Qed.

(** injectivity and pairwise disjointness of all '/'-joined kinds in one statement *)
Lemma slash_keys_inj k1 k2 l1 l2 :
  segs k1 = Some l1 -> segs k2 = Some l2 -> wf k1 -> wf k2 -> encode k1 = encode k2 -> k1 = k2.
Proof.
  intros S1 S2 W1 W2 E.
  rewrite (encode_segs _ _ S1), (encode_segs _ _ S2) in E.
  destruct (segs_wf _ _ W1 S1) as [N1 F1]. destruct (segs_wf _ _ W2 S2) as [N2 F2].
  apply join_inj in E; try assumption. subst l2. clear -S1 S2.
  destruct k1, k2; cbn [segs] in *; try discriminate; injection S1 as <-;
    try (injection S2; intros; subst;
         repeat match goal with H : dec _ = dec _ |- _ => apply dec_inj in H; subst end;
         first [reflexivity | discriminate | congruence]).
  destruct s, s0; try reflexivity; vm_compute in S2; discriminate S2.
Qed.

(** ** first segment (bytes before the first '/') *)

Fixpoint first_seg (s : bytes) : bytes :=
  match s with
  | [] => []
  | c :: r => if Ascii.eqb c slash then [] else c :: first_seg r
  end.

Lemma first_seg_app a b : ~ In slash a -> first_seg (a ++ b) = a ++ first_seg b.
Proof.
  induction a as [|c a IH]; intros H; [reflexivity|]. simpl.
  destruct (Ascii.eqb_spec c slash) as [->|_]; [exfalso; apply H; now left|].
  rewrite IH; [reflexivity|]. intros Hin. apply H. now right.
Qed.

Lemma first_seg_slash a b : ~ In slash a -> first_seg (a ++ slash :: b) = a.
Proof. intros H. rewrite first_seg_app by assumption. simpl. apply app_nil_r. Qed.

Lemma first_seg_join l : Forall (fun p => ~ In slash p) l -> first_seg (join_with slash l) = hd [] l.
Proof.
  intros F. destruct l as [|a l]; [reflexivity|]. inversion F; subst.
  destruct l as [|b l]; simpl.
  - rewrite <- (app_nil_r a) at 1. rewrite first_seg_app by assumption. simpl. apply app_nil_r.
  - now apply first_seg_slash.
Qed.

(** the '/'-joined kinds and the client store keys begin with an alphanumeric word *)
Definition texty (k : Key) : Prop :=
  match k with K2 _ _ _ | KAsync _ _ | KAlias _ => False | _ => True end.

Lemma texty_head_alnum k : wf k -> texty k -> forallb is_alnum (first_seg (encode k)) = true.
Proof.
  intros W T. destruct (segs k) as [l|] eqn:S.
  - rewrite (encode_segs _ _ S). destruct (segs_wf _ _ W S) as [_ F]. rewrite first_seg_join by assumption.
    destruct k; cbn [segs] in S; try discriminate; injection S as <-; try reflexivity.
    destruct s; reflexivity.
  - destruct k; cbn [segs] in S; try discriminate; try contradiction.
    cbn [encode]. unfold full_client_key. rewrite first_seg_slash; [reflexivity|]. apply const_no_slash. reflexivity.
Qed.

Lemma forallb_in_false {A} (f : A -> bool) l x : In x l -> f x = false -> forallb f l = false.
Proof.
  intros Hin Hx. destruct (forallb f l) eqn:E; [|reflexivity]. rewrite forallb_forall in E. apply E in Hin. congruence.
Qed.

(** a v2 packet key's first segment contains the kind byte, an async key's the '_' of "async_packet" *)
Lemma k2_head_not_alnum kd id s : idok id -> forallb is_alnum (first_seg (encode (K2 kd id s))) = false.
Proof.
  intros I. cbn [encode]. unfold v2_packet_key, v2_prefix_key. rewrite <- app_assoc.
  rewrite first_seg_app by (now apply idok_no_slash).
  apply forallb_in_false with (x := v2_kind_byte kd); [|destruct kd; reflexivity].
  apply in_or_app. right. destruct kd; simpl; now left.
Qed.

Lemma async_head_not_alnum id s : idok id -> forallb is_alnum (first_seg (encode (KAsync id s))) = false.
Proof.
  intros I. cbn [encode]. unfold async_packet_key, async_packet_prefix_key. rewrite <- app_assoc.
  rewrite first_seg_app by (now apply idok_no_slash).
  rewrite first_seg_app by (apply const_no_slash; reflexivity).
  apply forallb_in_false with (x := underscore); [|reflexivity].
  apply in_or_app. right. apply in_or_app. left. vm_compute. tauto.
Qed.

Lemma texty_vs_k2 k kd id s : wf k -> texty k -> idok id -> encode k <> encode (K2 kd id s).
Proof. intros W T I E. assert (H := texty_head_alnum k W T). rewrite E, k2_head_not_alnum in H by assumption. discriminate. Qed.

Lemma texty_vs_async k id s : wf k -> texty k -> idok id -> encode k <> encode (KAsync id s).
Proof. intros W T I E. assert (H := texty_head_alnum k W T). rewrite E, async_head_not_alnum in H by assumption. discriminate. Qed.

(** an alias key is '/'-free and ends in "alias" *)
Lemma texty_vs_alias k a : wf k -> texty k -> idok a -> encode k <> encode (KAlias a).
Proof.
  intros W T I E. cbn [encode] in E. unfold alias_key in E.
  assert (~ In slash (a ++ B "alias")) as NS.
  { intros Hin. apply in_app_or in Hin as [Hin|Hin]; [now apply idok_no_slash in Hin|].
    revert Hin. apply const_no_slash. reflexivity. }
  rewrite <- E in NS.
  destruct k; try contradiction; cbn [encode] in *; unfold_keys;
    try (apply NS; apply in_or_app; right; now left).
  destruct s; apply (f_equal (@List.rev ascii)) in E; rewrite rev_app_distr in E; vm_compute in E; discriminate E.
Qed.

(** ** client store keys *)

Lemma client_key_inj a pa b pb :
  idok a -> idok b -> full_client_key a pa = full_client_key b pb -> a = b /\ pa = pb.
Proof.
  unfold full_client_key. intros Ia Ib E. apply app_inv_head in E. injection E as E.
  apply app_sep_inj in E; auto using idok_no_slash.
Qed.

Lemma client_vs_slash_keys id path k l :
  segs k = Some l -> wf k -> idok id -> encode k <> full_client_key id path.
Proof.
  intros S W I E. apply (f_equal first_seg) in E.
  rewrite (encode_segs _ _ S) in E. destruct (segs_wf _ _ W S) as [_ F]. rewrite first_seg_join in E by assumption.
  unfold full_client_key in E. rewrite first_seg_slash in E by (apply const_no_slash; reflexivity).
  destruct k; cbn [segs] in S; try discriminate; injection S as <-; cbn [hd] in E; try (vm_compute in E; discriminate E).
  destruct s; vm_compute in E; discriminate E.
Qed.

(** ** the binary kinds among themselves *)

Lemma v2_kind_byte_inj k k' : v2_kind_byte k = v2_kind_byte k' -> k = k'.
Proof. destruct k, k'; intros H; try reflexivity; vm_compute in H; discriminate H. Qed.

Lemma v2_kind_byte_not_id k : is_id_char (v2_kind_byte k) = false.
Proof. destruct k; reflexivity. Qed.

Lemma k2_inj k id s k' id' s' :
  s < two64 -> s' < two64 -> v2_packet_key k id s = v2_packet_key k' id' s' -> k = k' /\ id = id' /\ s = s'.
Proof.
  unfold v2_packet_key, v2_prefix_key. intros Hs Hs' E.
  assert (length id = length id') as L.
  { apply (f_equal (@length ascii)) in E. rewrite !app_length, !be64_length in E. simpl in E. lia. }
  rewrite <- !app_assoc in E. apply app_len_inj in E as [-> E]; [|assumption].
  apply app_len_inj in E as [Ek Es]; [|reflexivity].
  injection Ek as Ek. apply v2_kind_byte_inj in Ek. apply be64_inj in Es; auto.
Qed.

Lemma async_inj id s id' s' :
  s < two64 -> s' < two64 -> async_packet_key id s = async_packet_key id' s' -> id = id' /\ s = s'.
Proof.
  unfold async_packet_key, async_packet_prefix_key. intros Hs Hs' E.
  assert (length id = length id') as L.
  { apply (f_equal (@length ascii)) in E. rewrite !app_length, !be64_length in E. lia. }
  rewrite <- !app_assoc in E. apply app_len_inj in E as [-> E]; [|assumption].
  apply app_inv_head in E. apply be64_inj in E; auto.
Qed.

Lemma alias_inj a a' : alias_key a = alias_key a' -> a = a'.
Proof. unfold alias_key. apply app_inv_tail. Qed.

(** [firstn]/[skipn] view of a length-determined split *)
Lemma app_eq_split {A} (a b a' b' : list A) :
  a ++ b = a' ++ b' -> (length a <= length a')%nat -> exists m, a' = a ++ m /\ b = m ++ b'.
Proof.
  revert a'. induction a as [|x a IH]; intros a' E L.
  - exists a'. simpl in *. auto.
  - destruct a' as [|y a']; [simpl in L; lia|]. simpl in E. injection E as -> E.
    destruct (IH a' E) as (m & -> & ->); [simpl in L; lia|]. exists m. auto.
Qed.

(** v2 packet key against async key: the kind byte would have to be the final 't' of "async_packet" *)
Lemma k2_vs_async k id s id' s' : v2_packet_key k id s <> async_packet_key id' s'.
Proof.
  unfold v2_packet_key, v2_prefix_key, async_packet_key, async_packet_prefix_key. intros E.
  assert (length id = length id' + 11)%nat as L.
  { apply (f_equal (@length ascii)) in E. rewrite !app_length, !be64_length in E. simpl in E. lia. }
  rewrite <- !app_assoc in E.
  change (B "async_packet" ++ be64 s') with (B "async_packe" ++ "t"%char :: be64 s') in E.
  rewrite (app_assoc id' (B "async_packe")) in E.
  apply app_len_inj in E as [_ E]; [|rewrite app_length; simpl; lia].
  apply (f_equal (hd "x"%char)) in E. cbn [hd app] in E. destruct k; vm_compute in E; discriminate E.
Qed.

(** v2 packet key against alias key: the alias identifier would contain the kind byte *)
Lemma k2_vs_alias k id s a : idok a -> v2_packet_key k id s <> alias_key a.
Proof.
  unfold v2_packet_key, v2_prefix_key, alias_key. intros I E.
  assert (length a = length id + 4)%nat as L.
  { apply (f_equal (@length ascii)) in E. rewrite !app_length, !be64_length in E. simpl in E. lia. }
  rewrite <- app_assoc in E.
  destruct (app_eq_split _ _ _ _ E) as (m & -> & _); [lia|].
  destruct m as [|c m]; [rewrite app_nil_r in L; lia|].
  rewrite <- app_assoc in E. apply app_inv_head in E.
  apply (f_equal (hd "x"%char)) in E. cbn [hd app] in E. subst c.
  unfold idok in I. apply forallb_app_iff in I as [_ I]. simpl in I. rewrite v2_kind_byte_not_id in I. discriminate.
Qed.

(** async key against alias key: only when the alias identifier contains "async_packet" *)
Lemma async_vs_alias id s a : nous a -> async_packet_key id s <> alias_key a.
Proof.
  unfold async_packet_key, async_packet_prefix_key, alias_key. intros NU E.
  assert (length a = length id + 15)%nat as L.
  { apply (f_equal (@length ascii)) in E. rewrite !app_length, !be64_length in E. simpl in E. lia. }
  rewrite <- app_assoc in E.
  destruct (app_eq_split _ _ _ _ E) as (m & -> & E2); [lia|].
  rewrite app_length in L.
  destruct (app_eq_split (B "async_packet") (be64 s) m (B "alias") E2) as (m' & -> & _); [simpl; lia|].
  apply NU. apply in_or_app. right. apply in_or_app. left. vm_compute. tauto.
Qed.

(** the collision the guard excludes: validator-accepted, never generated *)
Lemma async_alias_refuted :
  exists id s a, client_identifier_validator id = true /\ client_identifier_validator a = true /\ s < two64 /\
                 async_packet_key id s = alias_key a.
Proof.
  exists (B "07-tendermint-0"), 7017280439478477171, (B "07-tendermint-0async_packetabc").
  vm_compute. repeat split; reflexivity.
Qed.

(** ** the main theorem: distinct protocol objects never share a store key *)

Definition alias_guard (k : Key) : Prop := match k with KAlias a => nous a | _ => True end.

Ltac texty_tac :=
  match goal with |- texty ?k => destruct k; cbn [segs texty] in *; try discriminate; exact I end.

Theorem key_inj k1 k2 :
  wf k1 -> wf k2 -> alias_guard k1 -> alias_guard k2 -> encode k1 = encode k2 -> k1 = k2.
Proof.
  intros W1 W2 G1 G2 E.
  destruct (segs k1) as [l1|] eqn:S1; destruct (segs k2) as [l2|] eqn:S2.
  - eapply slash_keys_inj; eauto.
  - exfalso. destruct k2; cbn [segs] in S2; try discriminate; cbn [wf] in W2.
    + exact (client_vs_slash_keys _ _ _ _ S1 W1 W2 E).
    + refine (texty_vs_k2 k1 _ _ _ W1 _ _ E); [texty_tac|tauto].
    + refine (texty_vs_async k1 _ _ W1 _ _ E); [texty_tac|tauto].
    + refine (texty_vs_alias k1 _ W1 _ W2 E); texty_tac.
  - exfalso. symmetry in E. destruct k1; cbn [segs] in S1; try discriminate; cbn [wf] in W1.
    + exact (client_vs_slash_keys _ _ _ _ S2 W2 W1 E).
    + refine (texty_vs_k2 k2 _ _ _ W2 _ _ E); [texty_tac|tauto].
    + refine (texty_vs_async k2 _ _ W2 _ _ E); [texty_tac|tauto].
    + refine (texty_vs_alias k2 _ W2 _ W1 E); texty_tac.
  - destruct k1; cbn [segs] in S1; try discriminate; destruct k2; cbn [segs] in S2; try discriminate;
      cbn [wf alias_guard encode] in *.
    + apply client_key_inj in E as [-> ->]; auto.
    + exfalso. refine (texty_vs_k2 (KClientStore id path) _ _ _ W1 I _ E). tauto.
    + exfalso. refine (texty_vs_async (KClientStore id path) _ _ W1 I _ E). tauto.
    + exfalso. exact (texty_vs_alias (KClientStore id path) _ W1 I W2 E).
    + exfalso. symmetry in E. refine (texty_vs_k2 (KClientStore id0 path) _ _ _ W2 I _ E). tauto.
    + apply k2_inj in E as (-> & -> & ->); tauto.
    + exfalso. eapply k2_vs_async; eauto.
    + exfalso. eapply k2_vs_alias; eauto.
    + exfalso. symmetry in E. refine (texty_vs_async (KClientStore id0 path) _ _ W2 I _ E). tauto.
    + exfalso. symmetry in E. eapply k2_vs_async; eauto.
    + apply async_inj in E as (-> & ->); tauto.
    + exfalso. eapply async_vs_alias; eauto.
    + exfalso. symmetry in E. exact (texty_vs_alias (KClientStore id path) _ W2 I W1 E).
    + exfalso. symmetry in E. eapply k2_vs_alias; eauto.
    + exfalso. symmetry in E. eapply async_vs_alias; eauto.
    + apply alias_inj in E. now subst.
Qed.

(** ** prefix iteration *)

(** if a '/'-join extended by arbitrary bytes is again a '/'-join, all segments but the last agree *)
Lemma join_prefix_segments (l l' : list bytes) r :
  l <> [] -> Forall (fun p => ~ In slash p) l -> Forall (fun p => ~ In slash p) l' ->
  join_with slash l ++ r = join_with slash l' -> exists m, l' = removelast l ++ m.
Proof.
  revert l'. induction l as [|a l IH]; intros l' NE F F' E; [contradiction|].
  destruct l as [|b l]; [exists l'; reflexivity|].
  change (join_with slash (a :: b :: l)) with (a ++ slash :: join_with slash (b :: l)) in E.
  rewrite <- app_assoc in E. cbn [app] in E.
  inversion F as [|? ? Fa Fl]; subst.
  destruct l' as [|a' l']; [cbn [join_with] in E; destruct a; discriminate E|].
  inversion F' as [|? ? Fa' Fl']; subst.
  destruct l' as [|b' l'].
  - exfalso. cbn [join_with] in E. apply Fa'. rewrite <- E. apply in_or_app. right. now left.
  - change (join_with slash (a' :: b' :: l')) with (a' ++ slash :: join_with slash (b' :: l')) in E.
    apply app_sep_inj in E as [<- E]; try assumption.
    destruct (IH (b' :: l')) as [m Hm]; try assumption; [discriminate|].
    exists m. change (removelast (a :: b :: l)) with (a :: removelast (b :: l)). cbn [app]. now rewrite Hm.
Qed.

(** a prefix that starts with an alphanumeric word and a '/' only matches '/'-joined kinds or client store keys *)
Lemma word_prefix_texty w rest k :
  forallb is_alnum w = true -> ~ In slash w -> wf k ->
  is_prefix (w ++ slash :: rest) (encode k) = true -> texty k /\ first_seg (encode k) = w.
Proof.
  intros A NS W P. apply is_prefix_spec in P as [r E].
  assert (first_seg (encode k) = w) as FS.
  { rewrite E, <- app_assoc. cbn [app]. now apply first_seg_slash. }
  split; [|assumption].
  destruct k; try exact I; exfalso; cbn [wf] in W.
  - assert (H := k2_head_not_alnum k id s (proj1 W)). rewrite FS in H. congruence.
  - assert (H := async_head_not_alnum id s (proj1 W)). rewrite FS in H. congruence.
  - cbn [encode] in E. unfold alias_key in E.
    assert (In slash (a ++ B "alias")) as Hin by (rewrite E; apply in_or_app; left; apply in_or_app; right; now left).
    apply in_app_or in Hin as [Hin|Hin]; [now apply idok_no_slash in Hin|].
    revert Hin. apply const_no_slash. reflexivity.
Qed.

Lemma idok_alnum_const (w : bytes) : forallb is_alnum w = true -> ~ In slash w.
Proof. intros H. apply (forallb_not_in is_alnum); [assumption|reflexivity]. Qed.

(** v1: iterating PacketCommitmentPrefixKey(port, channel) visits only packet commitments of that channel *)
Theorem commitment_prefix_confined p c k :
  idok p -> idok c -> wf k ->
  is_prefix (packet_commitment_prefix_key p c) (encode k) = true -> exists s, k = KCommit p c s.
Proof.
  intros Ip Ic W P.
  assert (packet_commitment_prefix_key p c =
          join_with slash [B "commitments"; B "ports"; p; B "channels"; c; B "sequences"]) as EP
    by (unfold_keys; cbn [join_with]; norm_app; reflexivity).
  assert (P' := P). unfold packet_commitment_prefix_key in P'.
  apply word_prefix_texty in P' as [T FS]; [|reflexivity|apply idok_alnum_const; reflexivity|assumption].
  rewrite EP in P. apply is_prefix_spec in P as [r E].
  destruct (segs k) as [l|] eqn:S.
  - rewrite (encode_segs _ _ S) in E. destruct (segs_wf _ _ W S) as [_ F]. symmetry in E.
    apply join_prefix_segments in E as [m Hm]; [|discriminate| |assumption].
    + cbn [removelast app] in Hm. subst l.
      destruct k; cbn [segs] in S; try discriminate; injection S; intros; subst;
        try (exists s; reflexivity);
        match goal with H : B _ = B _ |- _ => vm_compute in H; discriminate H | H : single_key ?s = _ |- _ => destruct s; vm_compute in H; discriminate H end.
    + repeat apply Forall_cons; try apply Forall_nil; try (apply const_no_slash; reflexivity); now apply idok_no_slash.
  - destruct k; cbn [segs texty] in *; try discriminate; try contradiction.
Qed.

Theorem acknowledgement_prefix_confined p c k :
  idok p -> idok c -> wf k ->
  is_prefix (packet_acknowledgement_prefix_key p c) (encode k) = true -> exists s, k = KAck p c s.
Proof.
  intros Ip Ic W P.
  assert (packet_acknowledgement_prefix_key p c =
          join_with slash [B "acks"; B "ports"; p; B "channels"; c; B "sequences"]) as EP
    by (unfold_keys; cbn [join_with]; norm_app; reflexivity).
  assert (P' := P). unfold packet_acknowledgement_prefix_key in P'.
  apply word_prefix_texty in P' as [T FS]; [|reflexivity|apply idok_alnum_const; reflexivity|assumption].
  rewrite EP in P. apply is_prefix_spec in P as [r E].
  destruct (segs k) as [l|] eqn:S.
  - rewrite (encode_segs _ _ S) in E. destruct (segs_wf _ _ W S) as [_ F]. symmetry in E.
    apply join_prefix_segments in E as [m Hm]; [|discriminate| |assumption].
    + cbn [removelast app] in Hm. subst l.
      destruct k; cbn [segs] in S; try discriminate; injection S; intros; subst;
        try (exists s; reflexivity);
        match goal with H : B _ = B _ |- _ => vm_compute in H; discriminate H | H : single_key ?s = _ |- _ => destruct s; vm_compute in H; discriminate H end.
    + repeat apply Forall_cons; try apply Forall_nil; try (apply const_no_slash; reflexivity); now apply idok_no_slash.
  - destruct k; cbn [segs texty] in *; try discriminate; try contradiction.
Qed.

(** client store confinement: the prefix "clients/<b>/" matches exactly the keys of client b's store *)
Theorem client_prefix_confined b k :
  idok b -> wf k -> is_prefix (client_store_prefix b) (encode k) = true -> exists path, k = KClientStore b path.
Proof.
  intros Ib W P.
  assert (P' := P). unfold client_store_prefix in P'.
  apply word_prefix_texty in P' as [T FS]; [|reflexivity|apply idok_alnum_const; reflexivity|assumption].
  apply is_prefix_spec in P as [r E].
  destruct (segs k) as [l|] eqn:S.
  - exfalso. rewrite (encode_segs _ _ S) in FS. destruct (segs_wf _ _ W S) as [_ F].
    rewrite first_seg_join in FS by assumption.
    destruct k; cbn [segs] in S; try discriminate; injection S as <-; cbn [hd] in FS; try (vm_compute in FS; discriminate FS).
    destruct s; vm_compute in FS; discriminate FS.
  - destruct k; cbn [segs texty] in *; try discriminate; try contradiction.
    cbn [encode wf] in *. unfold full_client_key, client_store_prefix in E.
    rewrite <- app_assoc in E. apply app_inv_head in E. cbn [app] in E. injection E as E.
    rewrite <- app_assoc in E. cbn [app] in E.
    apply app_sep_inj in E as [-> _]; auto using idok_no_slash. eauto.
Qed.

(** a write through ClientStore(a) lands on FullClientKey(a, k); it is outside every other client's prefix *)
Lemma client_store_write a k : client_store_prefix a ++ k = full_client_key a k.
Proof. unfold client_store_prefix, full_client_key. norm_app. reflexivity. Qed.

Theorem client_namespace_disjoint a b k :
  idok a -> idok b -> is_prefix (client_store_prefix b) (client_store_prefix a ++ k) = true -> a = b.
Proof.
  intros Ia Ib P. rewrite client_store_write in P.
  destruct (client_prefix_confined b (KClientStore a k) Ib Ia P) as [path E]. now injection E.
Qed.

(** first non-identifier byte *)
Lemma app_nonid_inj a a' c c' x x' :
  idok a -> idok a' -> is_id_char c = false -> is_id_char c' = false ->
  a ++ c :: x = a' ++ c' :: x' -> a = a' /\ c = c' /\ x = x'.
Proof.
  unfold idok. revert a'. induction a as [|y a IH]; intros a' Ia Ia' Hc Hc' E.
  - destruct a' as [|y' a']; cbn [app] in E.
    + injection E as -> ->. auto.
    + injection E as -> _. simpl in Ia'. rewrite Hc in Ia'. discriminate.
  - destruct a' as [|y' a']; cbn [app] in E.
    + injection E as -> _. simpl in Ia. rewrite Hc' in Ia. discriminate.
    + injection E as -> E. simpl in Ia, Ia'. apply andb_true_iff in Ia as [_ Ia]. apply andb_true_iff in Ia' as [_ Ia'].
      destruct (IH a' Ia Ia' Hc Hc' E) as (-> & -> & ->). auto.
Qed.

Lemma idok_app a b : idok (a ++ b) <-> idok a /\ idok b.
Proof. unfold idok. apply forallb_app_iff. Qed.

Lemma idok_const (w : bytes) : forallb is_id_char w = true -> idok w.
Proof. auto. Qed.

Definition nous_key (k : Key) : Prop :=
  match k with K2 _ id _ | KAsync id _ | KAlias id => nous id | _ => True end.

(** an identifier-character string followed by a non-identifier byte cannot start inside "async_packet" *)
Lemma nonid_after_async id kb r id' x :
  idok id -> idok id' -> is_id_char kb = false ->
  id ++ kb :: r = (id' ++ B "async_packet") ++ x -> exists m, id = (id' ++ B "async_packet") ++ m.
Proof.
  intros I I' Hk E.
  destruct (Nat.le_gt_cases (length (id' ++ B "async_packet")) (length id)) as [L|L].
  - symmetry in E. destruct (app_eq_split _ _ _ _ E L) as (m & -> & _). eauto.
  - exfalso. destruct (app_eq_split _ _ _ _ E) as (m & Em & Ex); [lia|].
    destruct m as [|c m]; [rewrite app_nil_r in Em; rewrite Em in L; lia|].
    injection Ex as <- _.
    assert (idok (id ++ kb :: m)) as Hm by (rewrite <- Em; apply idok_app; split; [assumption|reflexivity]).
    apply idok_app in Hm as [_ Hm]. unfold idok in Hm. simpl in Hm. rewrite Hk in Hm. discriminate.
Qed.

(** v2: iterating Packet{Commitment,Receipt,Acknowledgement}PrefixKey(id) visits only that kind of that client,
    for identifiers without '_' *)
Theorem v2_prefix_confined kd id k :
  idok id -> nous id -> wf k ->
  is_prefix (v2_prefix_key kd id) (encode k) = true -> exists s, k = K2 kd id s.
Proof.
  intros Iid NU W P. apply is_prefix_spec in P as [r E]. unfold v2_prefix_key in E. rewrite <- app_assoc in E. cbn [app] in E.
  assert (K := v2_kind_byte_not_id kd).
  destruct k; cbn [wf] in W.
  all: try (exfalso;
            match goal with |- False =>
              let T := fresh in
              assert (T : forallb is_alnum (first_seg (id ++ v2_kind_byte kd :: r)) = true)
                by (rewrite <- E; apply texty_head_alnum; [assumption|exact I]);
              rewrite first_seg_app in T by (now apply idok_no_slash);
              rewrite (forallb_in_false is_alnum _ (v2_kind_byte kd)) in T;
                [discriminate T | apply in_or_app; right; destruct kd; simpl; now left | destruct kd; reflexivity]
            end).
  - (* another v2 packet key *)
    cbn [encode] in E. unfold v2_packet_key, v2_prefix_key in E. rewrite <- app_assoc in E. cbn [app] in E.
    apply app_nonid_inj in E as (-> & Ek & _); try tauto; try apply v2_kind_byte_not_id.
    apply v2_kind_byte_inj in Ek. subst. eauto.
  - (* async key: the iterated identifier would contain "async_packet" *)
    exfalso. cbn [encode] in E. unfold async_packet_key, async_packet_prefix_key in E. symmetry in E.
    apply nonid_after_async in E as [m Em]; try tauto.
    apply NU. rewrite Em. apply in_or_app. left. apply in_or_app. right. vm_compute. tauto.
  - (* alias key: identifier characters only *)
    exfalso. cbn [encode] in E. unfold alias_key in E.
    assert (idok (id ++ v2_kind_byte kd :: r)) as H by (rewrite <- E; apply idok_app; split; [assumption|reflexivity]).
    apply idok_app in H as [_ H]. unfold idok in H. simpl in H. rewrite K in H. discriminate.
Qed.

(** without the guard the statement is false: an async packet key of one client lies under the commitment prefix
    of a validator-accepted (never generated) identifier *)
Lemma v2_prefix_refuted :
  exists id id' s, client_identifier_validator id = true /\ client_identifier_validator id' = true /\ s < two64 /\
                   is_prefix (v2_prefix_key V2Commitment id) (encode (KAsync id' s)) = true.
Proof.
  exists (B "07-tendermint-0async_packetA"), (B "07-tendermint-0"), 4684025087442026496.
  vm_compute. repeat split; reflexivity.
Qed.

(** iterating AsyncPacketPrefixKey(id) visits only async packets of that client ('_'-free identifiers) *)
Theorem async_prefix_confined id k :
  idok id -> nous id -> wf k -> nous_key k ->
  is_prefix (async_packet_prefix_key id) (encode k) = true -> exists s, k = KAsync id s.
Proof.
  intros Iid NU W NK P. apply is_prefix_spec in P as [r E]. unfold async_packet_prefix_key in E.
  assert (In underscore (encode k)) as HU.
  { rewrite E. apply in_or_app. left. apply in_or_app. right. vm_compute. tauto. }
  destruct k; cbn [wf nous_key] in *.
  all: try (exfalso;
            match goal with |- False =>
              let T := fresh in
              assert (T : forallb is_alnum (first_seg ((id ++ B "async_packet") ++ r)) = true)
                by (rewrite <- E; apply texty_head_alnum; [assumption|exact I]);
              rewrite <- app_assoc in T;
              rewrite first_seg_app in T by (now apply idok_no_slash);
              rewrite first_seg_app in T by (apply const_no_slash; reflexivity);
              rewrite (forallb_in_false is_alnum _ underscore) in T;
                [discriminate T | apply in_or_app; right; apply in_or_app; left; vm_compute; tauto | reflexivity]
            end).
  - (* v2 packet key *)
    exfalso. cbn [encode] in E. unfold v2_packet_key, v2_prefix_key in E. rewrite <- app_assoc in E. cbn [app] in E.
    apply nonid_after_async in E as [m Em]; try tauto; try apply v2_kind_byte_not_id.
    apply NK. rewrite Em. apply in_or_app. left. apply in_or_app. right. vm_compute. tauto.
  - (* async key of another client: '_' splits both sides at the same place *)
    cbn [encode] in E. unfold async_packet_key, async_packet_prefix_key in E.
    change (B "async_packet") with (B "async" ++ underscore :: B "packet") in E.
    rewrite <- !app_assoc in E. rewrite !(app_assoc _ (B "async")) in E. cbn [app] in E.
    apply app_sep_inj in E as [E _].
    + apply app_inv_tail in E. subst. eauto.
    + intros Hin. apply in_app_or in Hin as [Hin|Hin]; [contradiction|]. vm_compute in Hin. intuition discriminate.
    + intros Hin. apply in_app_or in Hin as [Hin|Hin]; [contradiction|]. vm_compute in Hin. intuition discriminate.
  - (* alias key *)
    exfalso. cbn [encode] in HU. unfold alias_key in HU. apply in_app_or in HU as [HU|HU]; [contradiction|].
    vm_compute in HU. intuition discriminate.
Qed.

(** the iterator view: [sdk.KVStorePrefixIterator] over any store content made of well-formed keys *)
Lemma prefix_iter_only pre (G P : Key -> Prop) :
  (forall k, wf k -> G k -> is_prefix pre (encode k) = true -> P k) ->
  forall ks, Forall (fun k => wf k /\ G k) ks ->
  forall x, In x (prefix_iter pre (map encode ks)) -> exists k, In k ks /\ x = encode k /\ P k.
Proof.
  intros H ks F x Hin. unfold prefix_iter in Hin. apply filter_In in Hin as [Hin Hp].
  apply in_map_iff in Hin as (k & <- & Hk). rewrite Forall_forall in F. destruct (F k Hk) as [W Gk].
  exists k. repeat split; auto.
Qed.

(** ** generated identifiers satisfy the guards *)
Lemma nous_format_channel n : nous (format_channel_identifier n).
Proof.
  unfold nous, format_channel_identifier. intros Hin. apply in_app_or in Hin as [Hin|Hin].
  - vm_compute in Hin. intuition discriminate.
  - revert Hin. apply (forallb_not_in is_digit); [apply dec_digits|reflexivity].
Qed.

Lemma nous_format_client t n : nous t -> nous (format_client_identifier t n).
Proof.
  unfold nous, format_client_identifier. intros Ht Hin. apply in_app_or in Hin as [Hin|[Hin|Hin]]; [contradiction|discriminate Hin|].
  revert Hin. apply (forallb_not_in is_digit); [apply dec_digits|reflexivity].
Qed.

Lemma registered_types_nous :
  Forall nous [B "07-tendermint"; B "06-solomachine"; B "08-wasm"; B "09-localhost"; B "attestations"].
Proof. repeat constructor; intros H; vm_compute in H; intuition discriminate. Qed.

(** identifiers accepted by the host validators are [idok] *)
Lemma validators_idok id :
  (client_identifier_validator id = true \/ connection_identifier_validator id = true \/
   channel_identifier_validator id = true \/ port_identifier_validator id = true) -> idok id.
Proof. intros [H|[H|[H|H]]]; eapply validator_idok; exact H. Qed.
