(** Packet and acknowledgement commitments (C07).

    Go sources modelled:
      modules/core/04-channel/types/packet.go          CommitPacket, CommitAcknowledgement           (IBC v1)
      modules/core/04-channel/v2/types/commitment.go   CommitPacket, hashPayload, CommitAcknowledgement (IBC v2)

    The hash function is a parameter: the correspondence instantiates it with the executable SHA-256 of Lib/Sha256.v,
    the theorems (Keys/CommitFacts.v) hold for every 32-byte-output function. *)
From IBC Require Import Lib.Bytes Lib.Dec Lib.BE64.
Local Open Scope N_scope.

Section Commit.
  Variable H : bytes -> bytes.

  (** ** v1: sha256(BE64 timeoutTimestamp || BE64 revisionNumber || BE64 revisionHeight || sha256(data)) *)
  Definition preimage_v1 (ts rn rh : N) (data : bytes) : bytes :=
    be64 ts ++ be64 rn ++ be64 rh ++ H data.
  Definition commit_packet_v1 (ts rn rh : N) (data : bytes) : bytes := H (preimage_v1 ts rn rh data).
  (** CommitAcknowledgement(data) = sha256(data) *)
  Definition commit_ack_v1 (data : bytes) : bytes := H data.

  (** ** v2 *)
  Record Payload := mkPayload { src_port : bytes; dst_port : bytes; version : bytes; encoding : bytes; value : bytes }.

  (** hashPayload: sha256(sha256(source) || sha256(dest) || sha256(version) || sha256(encoding) || sha256(value)) *)
  Definition payload_preimage (p : Payload) : bytes :=
    H (src_port p) ++ H (dst_port p) ++ H (version p) ++ H (encoding p) ++ H (value p).
  Definition hash_payload (p : Payload) : bytes := H (payload_preimage p).

  Definition byte2 : ascii := ascii_of_N 2.

  (** CommitPacket: sha256(0x02 || sha256(destClient) || sha256(BE64 timeout) || sha256(hashPayload_1 || ... )) *)
  Definition app_bytes (ps : list Payload) : bytes := concat (map hash_payload ps).
  Definition preimage_v2 (dest : bytes) (ts : N) (ps : list Payload) : bytes :=
    byte2 :: H dest ++ H (be64 ts) ++ H (app_bytes ps).
  Definition commit_packet_v2 (dest : bytes) (ts : N) (ps : list Payload) : bytes := H (preimage_v2 dest ts ps).

  (** CommitAcknowledgement: sha256(0x02 || sha256(ack_1) || sha256(ack_2) || ...) *)
  Definition ack_preimage_v2 (acks : list bytes) : bytes := byte2 :: concat (map H acks).
  Definition commit_ack_v2 (acks : list bytes) : bytes := H (ack_preimage_v2 acks).
End Commit.

Arguments mkPayload _ _ _ _ _ : clear implicits.
