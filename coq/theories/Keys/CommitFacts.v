(** Proofs about Keys/Commit.v (C07): the commitment preimages are injective in every committed field, so equal
    commitments mean equal fields or an exhibited hash collision.  No collision-resistance assumption. *)
From IBC Require Import Lib.Bytes Lib.BytesFacts Lib.Dec Lib.BE64 Lib.BE64Facts Keys.Commit.
Local Open Scope N_scope.

Section CommitFacts.
  Variable H : bytes -> bytes.
  Hypothesis H_len : forall x, length (H x) = 32%nat.

  Definition collision : Prop := exists a b : bytes, a <> b /\ H a = H b.

  Lemma H_eq_cases a b : H a = H b -> a = b \/ collision.
  Proof.
    intros E. destruct (bytes_eq_dec a b) as [->|NE]; [now left|]. right. exists a, b. auto.
  Qed.

  (** ** v1 *)

  Lemma preimage_v1_length ts rn rh data : length (preimage_v1 H ts rn rh data) = 56%nat.
  Proof. unfold preimage_v1. rewrite !app_length, !be64_length, H_len. reflexivity. Qed.

  Lemma preimage_v1_inj ts rn rh data ts' rn' rh' data' :
    ts < two64 -> rn < two64 -> rh < two64 -> ts' < two64 -> rn' < two64 -> rh' < two64 ->
    preimage_v1 H ts rn rh data = preimage_v1 H ts' rn' rh' data' ->
    ts = ts' /\ rn = rn' /\ rh = rh' /\ H data = H data'.
  Proof.
    unfold preimage_v1. intros B1 B2 B3 B1' B2' B3' E.
    apply app_len_inj in E as [E1 E]; [|now rewrite !be64_length].
    apply app_len_inj in E as [E2 E]; [|now rewrite !be64_length].
    apply app_len_inj in E as [E3 E]; [|now rewrite !be64_length].
    repeat split; auto using be64_inj.
  Qed.

  Theorem commit_packet_v1_binds ts rn rh data ts' rn' rh' data' :
    ts < two64 -> rn < two64 -> rh < two64 -> ts' < two64 -> rn' < two64 -> rh' < two64 ->
    commit_packet_v1 H ts rn rh data = commit_packet_v1 H ts' rn' rh' data' ->
    (ts = ts' /\ rn = rn' /\ rh = rh' /\ data = data') \/ collision.
  Proof.
    intros B1 B2 B3 B1' B2' B3' E. unfold commit_packet_v1 in E.
    apply H_eq_cases in E as [E|C]; [|now right].
    apply preimage_v1_inj in E as (-> & -> & -> & E); try assumption.
    apply H_eq_cases in E as [->|C]; [now left|now right].
  Qed.

  Theorem commit_ack_v1_binds d d' : commit_ack_v1 H d = commit_ack_v1 H d' -> d = d' \/ collision.
  Proof. apply H_eq_cases. Qed.

  (** ** concatenations of 32-byte hashes *)

  Lemma concat_fixed_inj (n : nat) (l l' : list bytes) :
    (0 < n)%nat -> Forall (fun x => length x = n) l -> Forall (fun x => length x = n) l' ->
    concat l = concat l' -> l = l'.
  Proof.
    intros Hn. revert l'. induction l as [|x l IH]; intros l' F F' E.
    - destruct l' as [|y l']; [reflexivity|]. inversion F'; subst. simpl in E.
      destruct y; [simpl in *; lia|discriminate].
    - inversion F; subst. destruct l' as [|y l'].
      + simpl in E. destruct x; [simpl in *; lia|discriminate].
      + inversion F'; subst. simpl in E. apply app_len_inj in E as [-> E]; [|congruence].
        f_equal. now apply IH.
  Qed.

  Lemma map_H_inj (l l' : list bytes) : map H l = map H l' -> l = l' \/ collision.
  Proof.
    revert l'. induction l as [|x l IH]; intros [|y l'] E; try discriminate; [now left|].
    simpl in E. injection E as E1 E2.
    apply H_eq_cases in E1 as [->|C]; [|now right].
    destruct (IH _ E2) as [->|C]; [now left|now right].
  Qed.

  (** ** v2 *)

  Lemma payload_preimage_inj p q :
    payload_preimage H p = payload_preimage H q -> p = q \/ collision.
  Proof.
    unfold payload_preimage. intros E.
    apply app_len_inj in E as [E1 E]; [|now rewrite !H_len].
    apply app_len_inj in E as [E2 E]; [|now rewrite !H_len].
    apply app_len_inj in E as [E3 E]; [|now rewrite !H_len].
    apply app_len_inj in E as [E4 E5]; [|now rewrite !H_len].
    apply H_eq_cases in E1 as [E1|C]; [|now right].
    apply H_eq_cases in E2 as [E2|C]; [|now right].
    apply H_eq_cases in E3 as [E3|C]; [|now right].
    apply H_eq_cases in E4 as [E4|C]; [|now right].
    apply H_eq_cases in E5 as [E5|C]; [|now right].
    left. destruct p, q; simpl in *; congruence.
  Qed.

  Theorem hash_payload_binds p q : hash_payload H p = hash_payload H q -> p = q \/ collision.
  Proof.
    unfold hash_payload. intros E. apply H_eq_cases in E as [E|C]; [|now right]. now apply payload_preimage_inj.
  Qed.

  Lemma map_hash_payload_inj ps qs :
    map (hash_payload H) ps = map (hash_payload H) qs -> ps = qs \/ collision.
  Proof.
    revert qs. induction ps as [|p ps IH]; intros [|q qs] E; try discriminate; [now left|].
    simpl in E. injection E as E1 E2.
    apply hash_payload_binds in E1 as [->|C]; [|now right].
    destruct (IH _ E2) as [->|C]; [now left|now right].
  Qed.

  (** the payload list is bound with its order and its length *)
  Lemma app_bytes_inj ps qs : app_bytes H ps = app_bytes H qs -> ps = qs \/ collision.
  Proof.
    unfold app_bytes. intros E. apply map_hash_payload_inj.
    apply (concat_fixed_inj 32); try lia; try assumption;
      apply Forall_forall; intros x Hin; apply in_map_iff in Hin as (p & <- & _); apply H_len.
  Qed.

  Lemma preimage_v2_length dest ts ps : length (preimage_v2 H dest ts ps) = 97%nat.
  Proof. unfold preimage_v2. simpl. rewrite !app_length, !H_len. reflexivity. Qed.

  Theorem commit_packet_v2_binds dest ts ps dest' ts' ps' :
    ts < two64 -> ts' < two64 ->
    commit_packet_v2 H dest ts ps = commit_packet_v2 H dest' ts' ps' ->
    (dest = dest' /\ ts = ts' /\ ps = ps') \/ collision.
  Proof.
    intros B B' E. unfold commit_packet_v2 in E.
    apply H_eq_cases in E as [E|C]; [|now right].
    unfold preimage_v2 in E. injection E as E.
    apply app_len_inj in E as [E1 E]; [|now rewrite !H_len].
    apply app_len_inj in E as [E2 E3]; [|now rewrite !H_len].
    apply H_eq_cases in E1 as [->|C]; [|now right].
    apply H_eq_cases in E2 as [E2|C]; [|now right].
    apply be64_inj in E2; try assumption. subst ts'.
    apply H_eq_cases in E3 as [E3|C]; [|now right].
    apply app_bytes_inj in E3 as [->|C]; [now left|now right].
  Qed.

  (** the list of application acknowledgements is bound with its order and its length *)
  Theorem commit_ack_v2_binds acks acks' :
    commit_ack_v2 H acks = commit_ack_v2 H acks' -> acks = acks' \/ collision.
  Proof.
    unfold commit_ack_v2. intros E. apply H_eq_cases in E as [E|C]; [|now right].
    unfold ack_preimage_v2 in E. injection E as E.
    apply map_H_inj. apply (concat_fixed_inj 32); try lia; try assumption;
      apply Forall_forall; intros x Hin; apply in_map_iff in Hin as (p & <- & _); apply H_len.
  Qed.

  (** a v1 and a v2 packet preimage never coincide (56 vs 97 bytes) *)
  Lemma preimage_v1_v2_disjoint ts rn rh data dest ts2 ps :
    preimage_v1 H ts rn rh data <> preimage_v2 H dest ts2 ps.
  Proof.
    intros E. apply (f_equal (@length ascii)) in E. rewrite preimage_v1_length, preimage_v2_length in E. discriminate.
  Qed.

  (** field-boundary malleation: moving bytes between two adjacent fields changes the preimage *)
  Corollary field_boundary_v2 (a b a' b' v e x : bytes) :
    a ++ b = a' ++ b' -> a <> a' ->
    hash_payload H (mkPayload a b v e x) <> hash_payload H (mkPayload a' b' v e x) \/ collision.
  Proof.
    intros _ NE.
    destruct (bytes_eq_dec (hash_payload H (mkPayload a b v e x)) (hash_payload H (mkPayload a' b' v e x))) as [E|N];
      [|now left].
    apply hash_payload_binds in E as [E|C]; [|now right]. injection E as E _. contradiction.
  Qed.

  (** the byte layouts are the specification's formulas (definitional) *)
  Lemma layout_v1 ts rn rh data :
    commit_packet_v1 H ts rn rh data = H (be64 ts ++ be64 rn ++ be64 rh ++ H data).
  Proof. reflexivity. Qed.

  Lemma layout_v2 dest ts ps :
    commit_packet_v2 H dest ts ps =
    H ([ascii_of_N 2] ++ H dest ++ H (be64 ts) ++
       H (concat (map (fun p => H (H (src_port p) ++ H (dst_port p) ++ H (version p) ++ H (encoding p) ++ H (value p))) ps))).
  Proof. reflexivity. Qed.

  Lemma layout_ack_v2 acks : commit_ack_v2 H acks = H ([ascii_of_N 2] ++ concat (map H acks)).
  Proof. reflexivity. Qed.
End CommitFacts.
