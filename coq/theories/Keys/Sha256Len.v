(** The executable SHA-256 of Lib/Sha256.v always returns 32 bytes, so the C07 theorems (stated for any
    32-byte-output hash) apply to the instance the correspondence computes with. *)
From IBC Require Import Lib.Bytes Lib.Sha256.
Local Open Scope N_scope.

Lemma round_length st kw : length (round st kw) = length st.
Proof.
  unfold round. destruct st as [|a [|b [|c [|d [|e [|f [|g [|h [|i st]]]]]]]]]; reflexivity.
Qed.

Lemma fold_round_length l st : length (fold_left round l st) = length st.
Proof. revert st. induction l as [|x l IH]; intros st; simpl; [reflexivity|]. now rewrite IH, round_length. Qed.

Lemma compress_length h blk : length (compress h blk) = length h.
Proof.
  unfold compress. rewrite map_length, combine_length, fold_round_length. apply Nat.min_id.
Qed.

Lemma fold_compress_length l h : length (fold_left compress l h) = length h.
Proof. revert h. induction l as [|x l IH]; intros h; simpl; [reflexivity|]. now rewrite IH, compress_length. Qed.

Lemma be_n_length k n : length (be_n k n) = k.
Proof. induction k; simpl; auto. Qed.

Lemma flat_map_be4_length l : length (flat_map (be_n 4) l) = (4 * length l)%nat.
Proof. induction l as [|x l IH]; [reflexivity|]. cbn [flat_map]. rewrite app_length, be_n_length, IH. simpl. lia. Qed.

Theorem sha256_length msg : length (sha256 msg) = 32%nat.
Proof.
  unfold sha256, sha256_N. rewrite map_length, flat_map_be4_length, fold_compress_length. reflexivity.
Qed.
