(** Identifier validation, formatting, parsing and generation (C15).

    Go sources modelled (branch by branch, in the order the code checks):
      modules/core/24-host/validate.go       IsValidID, defaultIdentifierValidator, Client/Connection/Channel/Port-
                                             IdentifierValidator
      modules/core/24-host/parse.go          ParseIdentifier
      modules/core/02-client/types/keys.go   FormatClientIdentifier, IsClientIDFormat, ParseClientIdentifier, IsValidClientID
      modules/core/02-client/types/client.go ValidateClientType
      modules/core/03-connection/types/keys.go, 04-channel/types/keys.go   Format*, Is*IDFormat, Parse*Sequence, IsValid*ID
      modules/core/0{2,3,4}-*/keeper/keeper.go   Generate{Client,Connection,Channel}Identifier (+ Get/SetNext*Sequence)

    Everything here is executable ([vm_compute]); the proofs are in Keys/IdentFacts.v. *)
From IBC Require Import Lib.Bytes Lib.Dec.
Local Open Scope N_scope.

(** ** character classes *)

Definition ch (c : ascii) (s : string) : bool :=
  match s with String d EmptyString => Ascii.eqb c d | _ => false end.

(** Go regexp [\w] (ASCII only: [0-9A-Za-z_]) *)
Definition is_word (c : ascii) : bool := is_alnum c || ch c "_".

(** the class of host.IsValidID: [a-zA-Z0-9\.\_\+\-\#\[\]\<\>] *)
Definition is_id_char (c : ascii) : bool :=
  is_alnum c || ch c "." || ch c "_" || ch c "+" || ch c "-" || ch c "#" || ch c "[" || ch c "]" || ch c "<" || ch c ">".

(** host.IsValidID = regexp [^[a-zA-Z0-9\.\_\+\-\#\[\]\<\>]+$].MatchString.  Go's regexp works on runes; every byte
    >= 0x80 decodes to a rune outside the (ASCII) class, and [$] without the m flag matches only at the end of the text,
    so on bytes this is: non-empty and every byte in the class. *)
Definition is_valid_id (s : bytes) : bool :=
  match s with [] => false | _ => forallb is_id_char s end.

(** sdk.IsAlphaNumeric = regexp [^[a-zA-Z0-9]+$].MatchString *)
Definition is_alphanumeric (s : bytes) : bool :=
  match s with [] => false | _ => forallb is_alnum s end.

(** ** strings.TrimSpace(s) == ""
    TrimSpace removes leading and trailing Unicode white space (unicode.IsSpace); the result is empty iff the whole
    string is a sequence of UTF-8 encoded white space runes: U+0009..U+000D, U+0020, U+0085, U+00A0, U+1680,
    U+2000..U+200A, U+2028, U+2029, U+202F, U+205F, U+3000.  Invalid UTF-8 decodes to U+FFFD which is not a space. *)
Definition is_ascii_space (c : ascii) : bool :=
  let n := N_of_ascii c in ((9 <=? n) && (n <=? 13)) || (n =? 32).

Fixpoint is_blank (s : bytes) : bool :=
  match s with
  | [] => true
  | c :: r =>
      if is_ascii_space c then is_blank r
      else
        let n := N_of_ascii c in
        match r with
        | c2 :: r2 =>
            let n2 := N_of_ascii c2 in
            if (n =? 194) && ((n2 =? 133) || (n2 =? 160)) then is_blank r2         (* U+0085, U+00A0 *)
            else
              match r2 with
              | c3 :: r3 =>
                  let n3 := N_of_ascii c3 in
                  if ((n =? 225) && (n2 =? 154) && (n3 =? 128))                         (* U+1680 *)
                     || ((n =? 226) && (n2 =? 128) &&
                         (((128 <=? n3) && (n3 <=? 138)) || (n3 =? 168) || (n3 =? 169) || (n3 =? 175)))
                                                                       (* U+2000..200A, 2028, 2029, 202F *)
                     || ((n =? 226) && (n2 =? 129) && (n3 =? 159))                      (* U+205F *)
                     || ((n =? 227) && (n2 =? 128) && (n3 =? 128))                      (* U+3000 *)
                  then is_blank r3 else false
              | [] => false
              end
        | [] => false
        end
  end.

(** ** 24-host/validate.go *)

(** defaultIdentifierValidator(id, min, max) == nil.  Order of the checks as in the code: blank, contains "/",
    length (in bytes), character class. *)
Definition default_identifier_validator (id : bytes) (minl maxl : N) : bool :=
  if is_blank id then false
  else if contains [slash] id then false
  else let l := N.of_nat (length id) in
       if (l <? minl) || (maxl <? l) then false
       else if negb (is_valid_id id) then false
       else true.

Definition client_identifier_validator (id : bytes) : bool := default_identifier_validator id 4 64.
Definition connection_identifier_validator (id : bytes) : bool := default_identifier_validator id 10 64.
Definition channel_identifier_validator (id : bytes) : bool := default_identifier_validator id 8 64.
(** DefaultMaxPortCharacterLength = 128 *)
Definition port_identifier_validator (id : bytes) : bool := default_identifier_validator id 2 128.

(** ** 02-client/types/keys.go *)

(** FormatClientIdentifier: fmt.Sprintf("%s-%d", clientType, sequence) *)
Definition format_client_identifier (t : bytes) (s : N) : bytes := t ++ dash :: dec s.

(** [0-9]{1,20} *)
Definition digits_1_20 (d : bytes) : bool := all_digits d && (N.of_nat (length d) <=? 20).

(** the language of [\w+([\w-]+\w)?]: a non-empty string over [\w-] whose first and last characters are [\w]
    (one or two characters: [\w+]; three or more: first [\w+] takes the first, [\w] the last, [[\w-]+] the rest) *)
Definition client_type_shape (t : bytes) : bool :=
  match t with
  | [] => false
  | c :: _ => is_word c && is_word (last t c) && forallb (fun x => is_word x || Ascii.eqb x dash) t
  end.

(** IsClientIDFormat = regexp [^\w+([\w-]+\w)?-[0-9]{1,20}$].MatchString.  The digit group contains no '-' and is
    preceded by one, so the only possible decomposition splits at the last '-'. *)
Definition is_client_id_format (s : bytes) : bool :=
  let parts := split_on dash s in
  (2 <=? N.of_nat (length parts)) &&
  digits_1_20 (last parts []) &&
  client_type_shape (join_with dash (removelast parts)).

Definition localhost_client_id : bytes := B "09-localhost".

(** ParseClientIdentifier: (clientType, sequence) or an error ([None]).  Steps: the localhost sentinel is returned as
    is with sequence 0; format regexp; strings.Split on "-", client type = all but the last part re-joined;
    blank client type rejected; strconv.ParseUint(last, 10, 64). *)
Definition parse_client_identifier (id : bytes) : option (bytes * N) :=
  if bytes_eqb id localhost_client_id then Some (id, 0)
  else if negb (is_client_id_format id) then None
  else
    let parts := split_on dash id in
    let t := join_with dash (removelast parts) in
    if is_blank t then None
    else match parse_uint64 (last parts []) with
         | Some n => Some (t, n)
         | None => None
         end.

Definition is_valid_client_id (id : bytes) : bool :=
  match parse_client_identifier id with Some _ => true | None => false end.

Definition max_uint64 : N := 18446744073709551615.

(** 02-client/types/client.go:ValidateClientType *)
Definition validate_client_type (t : bytes) : bool :=
  if is_blank t then false
  else
    let smallest := format_client_identifier t 0 in
    let largest := format_client_identifier t max_uint64 in
    if negb (is_valid_client_id smallest) then false
    else if negb (client_identifier_validator smallest) then false
    else if negb (client_identifier_validator largest) then false
    else true.

(** ** 24-host/parse.go:ParseIdentifier(identifier, prefix)
    HasPrefix; strings.Split(identifier, prefix) must have exactly two parts, i.e. the prefix occurs exactly once
    (non-overlapping scan from the left); the first part must be empty; ParseUint on the second. *)
Fixpoint split_str_fuel (fuel : nat) (sep s cur : bytes) : list bytes :=
  (* strings.Split for a non-empty separator; [cur] is the reversed current part *)
  match fuel with
  | O => [rev cur ++ s]
  | S f =>
      match s with
      | [] => [rev cur]
      | c :: s' =>
          match strip_prefix sep s with
          | Some rest => rev cur :: split_str_fuel f sep rest []
          | None => split_str_fuel f sep s' (c :: cur)
          end
      end
  end.
Definition split_str (sep s : bytes) : list bytes := split_str_fuel (S (length s)) sep s [].

Definition parse_identifier (id pre : bytes) : option N :=
  if negb (is_prefix pre id) then None
  else match split_str pre id with
       | [a; b] => if negb (bytes_eqb a []) then None else parse_uint64 b
       | _ => None
       end.

(** ** 04-channel/types/keys.go, 03-connection/types/keys.go *)
Definition channel_prefix : bytes := B "channel-".
Definition connection_prefix : bytes := B "connection-".

Definition format_channel_identifier (s : N) : bytes := channel_prefix ++ dec s.
Definition format_connection_identifier (s : N) : bytes := connection_prefix ++ dec s.

(** [^channel-[0-9]{1,20}$] / [^connection-[0-9]{1,20}$] *)
Definition is_prefixed_id_format (pre s : bytes) : bool :=
  match strip_prefix pre s with
  | Some d => digits_1_20 d
  | None => false
  end.
Definition is_channel_id_format := is_prefixed_id_format channel_prefix.
Definition is_connection_id_format := is_prefixed_id_format connection_prefix.

Definition parse_channel_sequence (id : bytes) : option N :=
  if negb (is_channel_id_format id) then None else parse_identifier id channel_prefix.
Definition parse_connection_sequence (id : bytes) : option N :=
  if negb (is_connection_id_format id) then None else parse_identifier id connection_prefix.

Definition is_valid_channel_id (id : bytes) : bool :=
  match parse_channel_sequence id with Some _ => true | None => false end.
Definition is_valid_connection_id (id : bytes) : bool :=
  match parse_connection_sequence id with Some _ => true | None => false end.

(** ** identifier counters (keeper state machine)

    Generate*Identifier: read the counter, format, write counter+1 (uint64 [++] wraps), return the identifier.  The
    three counters live under different store keys.  A creation attempt runs inside a transaction: if the handler
    fails after generating the identifier, the cached store is discarded, i.e. the counter write is reverted. *)
Record Counters := mkC { next_client : N; next_connection : N; next_channel : N }.

Definition generate_client_identifier (c : Counters) (t : bytes) : bytes * Counters :=
  (format_client_identifier t (next_client c),
   mkC ((next_client c + 1) mod two64) (next_connection c) (next_channel c)).
Definition generate_connection_identifier (c : Counters) : bytes * Counters :=
  (format_connection_identifier (next_connection c),
   mkC (next_client c) ((next_connection c + 1) mod two64) (next_channel c)).
Definition generate_channel_identifier (c : Counters) : bytes * Counters :=
  (format_channel_identifier (next_channel c),
   mkC (next_client c) (next_connection c) ((next_channel c + 1) mod two64)).

Inductive Kind := KClient | KConnection | KChannel.

(** one creation attempt: which object, and whether the surrounding transaction commits *)
Inductive Create :=
| CreateClient (t : bytes) (commit : bool)
| CreateConnection (commit : bool)
| CreateChannel (commit : bool).

Definition seq_of (k : Kind) (c : Counters) : N :=
  match k with KClient => next_client c | KConnection => next_connection c | KChannel => next_channel c end.

(** the kind, the identifier handed to the handler, the commit flag, and the counters after the transaction *)
Definition step (c : Counters) (op : Create) : Kind * bytes * bool * Counters :=
  match op with
  | CreateClient t ok => let '(id, c') := generate_client_identifier c t in (KClient, id, ok, if ok then c' else c)
  | CreateConnection ok => let '(id, c') := generate_connection_identifier c in (KConnection, id, ok, if ok then c' else c)
  | CreateChannel ok => let '(id, c') := generate_channel_identifier c in (KChannel, id, ok, if ok then c' else c)
  end.

(** all identifiers handed out over a history, committed or not (this is what the harness observes) *)
Fixpoint run_trace (c : Counters) (ops : list Create) : list (Kind * bytes * bool) :=
  match ops with
  | [] => []
  | op :: ops' => let '(k, id, ok, c') := step c op in (k, id, ok) :: run_trace c' ops'
  end.

Fixpoint run_final (c : Counters) (ops : list Create) : Counters :=
  match ops with
  | [] => c
  | op :: ops' => let '(_, _, _, c') := step c op in run_final c' ops'
  end.

(** the identifiers of the objects that exist afterwards: committed creations only *)
Fixpoint committed (tr : list (Kind * bytes * bool)) : list (Kind * bytes) :=
  match tr with
  | [] => []
  | (k, id, ok) :: tr' => if ok then (k, id) :: committed tr' else committed tr'
  end.
