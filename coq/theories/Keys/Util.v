(** General lemmas used by the Keys area: decimal length bound, split/join facts, character class facts. *)
From Coq Require Import DecimalString DecimalN DecimalFacts Decimal DecimalPos.
From IBC Require Import Lib.Bytes Lib.BytesFacts Lib.Dec Lib.DecFacts.
Local Open Scope N_scope.

(** ** a printed uint64 has at most 20 digits *)

Lemma of_uint_acc_lower d acc :
  N.pos acc * 10 ^ N.of_nat (nb_digits d) <= N.pos (Pos.of_uint_acc d acc).
Proof.
  revert acc; induction d; intros acc; cbn [Pos.of_uint_acc nb_digits];
  [ change (N.of_nat 0) with 0; rewrite N.pow_0_r; lia | .. ];
  rewrite Nat2N.inj_succ, N.pow_succ_r'; (etransitivity; [|apply IHd]); rewrite N.mul_assoc; apply N.mul_le_mono_r; lia.
Qed.

Lemma of_uint_lower d :
  N.of_uint d <> 0 -> 10 ^ N.of_nat (nb_digits (unorm d) - 1) <= N.of_uint d.
Proof.
  unfold N.of_uint.
  induction d; intros NZ; cbn [Pos.of_uint unorm nzhead] in *;
    try (cbn [nb_digits]; rewrite Nat.sub_succ, Nat.sub_0_r;
         (etransitivity; [|apply of_uint_acc_lower]); lia).
  - congruence.
  - specialize (IHd NZ). unfold unorm in *. cbn [nzhead].
    destruct (nzhead d) eqn:E; exact IHd.
Qed.

Lemma nilempty_length d : length (list_ascii_of_string (NilEmpty.string_of_uint d)) = nb_digits d.
Proof. induction d; simpl; auto. Qed.

Lemma dec_length n : length (dec n) = nb_digits (N.to_uint n).
Proof.
  unfold dec. assert (H := to_uint_nonnil n).
  destruct (N.to_uint n) eqn:E; try congruence; apply (nilempty_length (_ _)).
Qed.

Lemma dec_length_pow n k : (0 < k)%nat -> n < 10 ^ N.of_nat k -> (length (dec n) <= k)%nat.
Proof.
  intros Hk Hn. rewrite dec_length.
  destruct (N.eq_dec n 0) as [->|NZ]; [simpl; lia|].
  assert (L := of_uint_lower (N.to_uint n)).
  rewrite DecimalN.Unsigned.of_to in L. specialize (L NZ).
  rewrite <- DecimalN.Unsigned.to_of, DecimalN.Unsigned.of_to in L.
  destruct (Nat.le_gt_cases (nb_digits (N.to_uint n)) k) as [|G]; [assumption|exfalso].
  assert (10 ^ N.of_nat k <= 10 ^ N.of_nat (nb_digits (N.to_uint n) - 1)) by (apply N.pow_le_mono_r; lia).
  lia.
Qed.

Lemma dec_length_u64 n : n < two64 -> (length (dec n) <= 20)%nat.
Proof.
  intros H. apply dec_length_pow; [lia|]. unfold two64 in H. simpl. lia.
Qed.

Lemma dec_length_pos n : (1 <= length (dec n))%nat.
Proof. assert (H := dec_nonempty n). destruct (dec n); simpl; [congruence|lia]. Qed.

(** ** digits and separators *)

Lemma digit_not_dash : is_digit dash = false.
Proof. reflexivity. Qed.
Lemma digit_not_slash : is_digit slash = false.
Proof. reflexivity. Qed.

Lemma dec_no_dash n : ~ In dash (dec n).
Proof. apply (forallb_not_in is_digit); [apply dec_digits|reflexivity]. Qed.
Lemma dec_no_slash n : ~ In slash (dec n).
Proof. apply (forallb_not_in is_digit); [apply dec_digits|reflexivity]. Qed.

(** ** split_on / join_with *)

Lemma split_on_app_last sep a b :
  ~ In sep b -> split_on sep (a ++ sep :: b) = split_on sep a ++ [b].
Proof.
  intros Hb. induction a as [|c a IH]; simpl.
  - rewrite Ascii.eqb_refl, split_on_nosep by assumption. reflexivity.
  - destruct (Ascii.eqb c sep).
    + now rewrite IH.
    + rewrite IH. assert (NE := split_on_nonempty sep a).
      destruct (split_on sep a); [contradiction|reflexivity].
Qed.

Lemma last_app_single {A} (l : list A) x d : last (l ++ [x]) d = x.
Proof. induction l as [|y l IH]; simpl; auto. destruct (l ++ [x]) eqn:E; [destruct l; discriminate|exact IH]. Qed.

Lemma removelast_app_single {A} (l : list A) x : removelast (l ++ [x]) = l.
Proof. rewrite removelast_app by discriminate. simpl. apply app_nil_r. Qed.

(** splitting a join of separator-free segments gives the segments back *)
Lemma split_join sep (l : list bytes) :
  l <> [] -> Forall (fun p => ~ In sep p) l -> split_on sep (join_with sep l) = l.
Proof.
  induction l as [|p l IH]; intros NE F; [contradiction|].
  inversion F as [|? ? Hp Hl]; subst.
  destruct l as [|q l].
  - simpl. now apply split_on_nosep.
  - change (join_with sep (p :: q :: l)) with (p ++ sep :: join_with sep (q :: l)).
    rewrite split_on_app by assumption. f_equal. apply IH; [discriminate|assumption].
Qed.

Lemma join_inj sep (l l' : list bytes) :
  l <> [] -> l' <> [] -> Forall (fun p => ~ In sep p) l -> Forall (fun p => ~ In sep p) l' ->
  join_with sep l = join_with sep l' -> l = l'.
Proof.
  intros N1 N2 F1 F2 E. rewrite <- (split_join sep l N1 F1), <- (split_join sep l' N2 F2). now rewrite E.
Qed.

Lemma join_removelast_last sep (l : list bytes) :
  (2 <= length l)%nat -> join_with sep l = join_with sep (removelast l) ++ sep :: last l [].
Proof.
  induction l as [|a l IH]; intros L; [simpl in L; lia|].
  destruct l as [|b l]; [simpl in L; lia|].
  destruct l as [|c l]; [reflexivity|].
  change (join_with sep (a :: b :: c :: l)) with (a ++ sep :: join_with sep (b :: c :: l)).
  rewrite IH by (simpl; lia).
  change (removelast (a :: b :: c :: l)) with (a :: b :: removelast (c :: l)).
  change (removelast (b :: c :: l)) with (b :: removelast (c :: l)).
  change (last (a :: b :: c :: l) []) with (last (b :: c :: l) []).
  change (join_with sep (a :: b :: removelast (c :: l))) with (a ++ sep :: join_with sep (b :: removelast (c :: l))).
  now rewrite <- app_assoc.
Qed.

(** ** [contains] for a one-byte needle *)
Lemma contains_single c s : contains [c] s = existsb (Ascii.eqb c) s.
Proof.
  induction s as [|x s IH]; [reflexivity|].
  cbn [contains existsb is_prefix]. rewrite IH. now rewrite andb_true_r.
Qed.

Lemma contains_single_false c s : contains [c] s = false <-> ~ In c s.
Proof.
  rewrite contains_single. split.
  - intros H Hin. assert (existsb (Ascii.eqb c) s = true) by (apply existsb_exists; exists c; split; [assumption|apply Ascii.eqb_refl]). congruence.
  - intros H. destruct (existsb (Ascii.eqb c) s) eqn:E; [|reflexivity].
    apply existsb_exists in E as [x [Hx Ex]]. apply Ascii.eqb_eq in Ex. subst. contradiction.
Qed.

Lemma forallb_app_iff {A} (f : A -> bool) a b : forallb f (a ++ b) = true <-> forallb f a = true /\ forallb f b = true.
Proof. rewrite forallb_app, andb_true_iff. tauto. Qed.
