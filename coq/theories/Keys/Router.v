(** Port routers (C48).

    Go sources modelled:
      modules/core/api/router.go          Router (IBC v2): AddRoute, AddPrefixRoute, HasRoute, Route, getRoute
      modules/core/05-port/types/router.go Router (IBC v1): AddRoute, HasRoute, Route, Keys, Seal
      modules/core/05-port/keeper/keeper.go Keeper.Route (exact match, else first sorted key contained in the name)

    Go maps are association lists; the order of a list stands for one possible map iteration order — the theorems
    show results are the same for every permutation.  Modules are identified by numbers.  Go panics are [None]. *)
From IBC Require Import Lib.Bytes Lib.BE64 Keys.Ident.
Local Open Scope N_scope.

Definition amap := list (bytes * N).

Definition has_key (k : bytes) (m : amap) : bool := existsb (fun e => bytes_eqb (fst e) k) m.
Definition lookup (k : bytes) (m : amap) : option N :=
  match find (fun e => bytes_eqb (fst e) k) m with Some e => Some (snd e) | None => None end.

(** ** IBC v2 router *)
Record Router2 := mkR2 { routes : amap; prefix_routes : amap }.
Definition empty2 : Router2 := mkR2 [] [].

(** AddRoute: panics if the port is not alphanumeric, if the same port is registered, or if a registered prefix is
    a prefix of the port (strings.HasPrefix(portID, prefix) over the prefix map) *)
Definition add_route (r : Router2) (port : bytes) (m : N) : option Router2 :=
  if negb (is_alphanumeric port) then None
  else if has_key port (routes r) then None
  else if existsb (fun e => is_prefix (fst e) port) (prefix_routes r) then None
  else Some (mkR2 ((port, m) :: routes r) (prefix_routes r)).

(** AddPrefixRoute: panics if not alphanumeric, if it is a prefix of a registered route, or if it is nested (either
    direction) with a registered prefix *)
Definition add_prefix_route (r : Router2) (pre : bytes) (m : N) : option Router2 :=
  if negb (is_alphanumeric pre) then None
  else if existsb (fun e => is_prefix pre (fst e)) (routes r) then None
  else if existsb (fun e => is_prefix (fst e) pre || is_prefix pre (fst e)) (prefix_routes r) then None
  else Some (mkR2 (routes r) ((pre, m) :: prefix_routes r)).

(** getRoute: direct routes first, then the first prefix route (in map iteration order) that matches *)
Definition get_route (r : Router2) (port : bytes) : option N :=
  match lookup port (routes r) with
  | Some m => Some m
  | None => match find (fun e => is_prefix (fst e) port) (prefix_routes r) with
            | Some e => Some (snd e)
            | None => None
            end
  end.
Definition has_route (r : Router2) (port : bytes) : bool :=
  match get_route r port with Some _ => true | None => false end.

Inductive Op2 := AddR (port : bytes) (m : N) | AddP (pre : bytes) (m : N).
Definition apply2 (r : option Router2) (o : Op2) : option Router2 :=
  match r with
  | None => None
  | Some r => match o with AddR p m => add_route r p m | AddP p m => add_prefix_route r p m end
  end.
(** a registration sequence (oldest first); [None]: some registration panicked *)
Definition run2 (ops : list Op2) : option Router2 := fold_left apply2 ops (Some empty2).

(** the harness keeps registering after a rejected call (the panic is recovered, the router unchanged) *)
Definition step2 (r : Router2) (o : Op2) : Router2 * bool :=
  match apply2 (Some r) o with Some r' => (r', true) | None => (r, false) end.
Fixpoint run2_trace (r : Router2) (ops : list Op2) : list bool * Router2 :=
  match ops with
  | [] => ([], r)
  | o :: ops' => let '(r', ok) := step2 r o in let '(l, rf) := run2_trace r' ops' in (ok :: l, rf)
  end.

(** ** IBC v1 port router *)
Record Router1 := mkR1 { routes1 : amap; sealed : bool }.
Definition empty1 : Router1 := mkR1 [] false.

Definition add_route1 (r : Router1) (name : bytes) (m : N) : option Router1 :=
  if sealed r then None
  else if negb (is_alphanumeric name) then None
  else if has_key name (routes1 r) then None
  else Some (mkR1 ((name, m) :: routes1 r) (sealed r)).

(** slices.Sort on strings: byte-wise lexicographic order *)
Definition bytes_leb (a b : bytes) : bool := match bytes_cmp a b with Gt => false | _ => true end.
Fixpoint insert_sorted (x : bytes) (l : list bytes) : list bytes :=
  match l with
  | [] => [x]
  | y :: l' => if bytes_leb x y then x :: l else y :: insert_sorted x l'
  end.
Definition sort_bytes (l : list bytes) : list bytes := fold_right insert_sorted [] l.

(** Router.Keys *)
Definition keys1 (r : Router1) : list bytes := sort_bytes (map fst (routes1 r)).

(** Keeper.Route: exact route, else the first key in sorted order that is a substring of the name *)
Definition route1 (r : Router1) (name : bytes) : option N :=
  match lookup name (routes1 r) with
  | Some m => Some m
  | None => match find (fun k => contains k name) (keys1 r) with
            | Some k => lookup k (routes1 r)
            | None => None
            end
  end.

(** Seal (the harness seals at most once, so the "already sealed" panic of Seal itself is not exercised) *)
Definition seal1 (r : Router1) : Router1 := mkR1 (routes1 r) true.

(** registration attempts, each optionally preceded by Seal; a rejected attempt (recovered panic) changes nothing *)
Fixpoint run1_trace (r : Router1) (ops : list (bool * bytes * N)) : list bool * Router1 :=
  match ops with
  | [] => ([], r)
  | (sl, n, m) :: ops' =>
      let r := if sl then seal1 r else r in
      match add_route1 r n m with
      | Some r' => let '(l, rf) := run1_trace r' ops' in (true :: l, rf)
      | None => let '(l, rf) := run1_trace r ops' in (false :: l, rf)
      end
  end.
