(** Proofs about Keys/Ident.v (C15). *)
From IBC Require Import Lib.Bytes Lib.BytesFacts Lib.Dec Lib.DecFacts Keys.Util Keys.Ident.
Local Open Scope N_scope.

(** ** character classes (by enumeration of the 256 bytes) *)

Ltac by_byte c := destruct c as [[] [] [] [] [] [] [] []]; try discriminate; try reflexivity.

Lemma digit_is_id_char c : is_digit c = true -> is_id_char c = true.
Proof. by_byte c. Qed.
Lemma digit_is_word c : is_digit c = true -> is_word c = true.
Proof. by_byte c. Qed.
Lemma word_is_id_char c : is_word c = true -> is_id_char c = true.
Proof. by_byte c. Qed.
Lemma alnum_is_id_char c : is_alnum c = true -> is_id_char c = true.
Proof. by_byte c. Qed.
Lemma word_dash_is_id_char c : is_word c || Ascii.eqb c dash = true -> is_id_char c = true.
Proof. by_byte c. Qed.
Lemma slash_not_id_char : is_id_char slash = false.
Proof. reflexivity. Qed.
Lemma dash_is_id_char : is_id_char dash = true.
Proof. reflexivity. Qed.

(** an identifier character is >= 0x23: in particular it is none of the v2 kind bytes 1, 2, 3 *)
Lemma id_char_ge c : is_id_char c = true -> 35 <= N_of_ascii c /\ N_of_ascii c < 128.
Proof. by_byte c; intros _; vm_compute; split; congruence. Qed.

Lemma is_blank_id_char c r : is_id_char c = true -> is_blank (c :: r) = false.
Proof. by_byte c; intros _; destruct r as [|c2 [|c3 r3]]; reflexivity. Qed.

Lemma forallb_impl {A} (f g : A -> bool) l :
  (forall x, f x = true -> g x = true) -> forallb f l = true -> forallb g l = true.
Proof. intros H. induction l as [|x l IH]; simpl; auto. rewrite !andb_true_iff. intros [? ?]; auto. Qed.

Lemma id_chars_no_slash s : forallb is_id_char s = true -> ~ In slash s.
Proof. intros H. apply (forallb_not_in is_id_char); [assumption|reflexivity]. Qed.

(** ** the identifier validators, characterised *)

Lemma default_identifier_validator_iff id lo hi :
  default_identifier_validator id lo hi = true <->
  id <> [] /\ forallb is_id_char id = true /\ lo <= N.of_nat (length id) <= hi.
Proof.
  unfold default_identifier_validator, is_valid_id. split.
  - destruct (is_blank id) eqn:Bk; [discriminate|].
    destruct (contains [slash] id) eqn:Sl; [discriminate|].
    destruct (N.ltb_spec (N.of_nat (length id)) lo); [discriminate|].
    destruct (N.ltb_spec hi (N.of_nat (length id))); [discriminate|]. cbn [orb].
    destruct id as [|c id]; [discriminate|].
    destruct (forallb is_id_char (c :: id)) eqn:F; [|discriminate].
    intros _. repeat split; try assumption. discriminate.
  - intros (NE & F & L1 & L2).
    destruct id as [|c id]; [contradiction|].
    assert (is_id_char c = true) as Hc by (simpl in F; apply andb_true_iff in F; tauto).
    rewrite (is_blank_id_char c id Hc).
    assert (contains [slash] (c :: id) = false) as -> by (apply contains_single_false, id_chars_no_slash, F).
    destruct (N.ltb_spec (N.of_nat (length (c :: id))) lo); [lia|].
    destruct (N.ltb_spec hi (N.of_nat (length (c :: id)))); [lia|]. cbn [orb].
    now rewrite F.
Qed.

(** every accepted identifier is '/'-free: the fact ICS-24 key injectivity rests on (C16) *)
Lemma validator_no_slash id lo hi : default_identifier_validator id lo hi = true -> ~ In slash id.
Proof. intros H. apply default_identifier_validator_iff in H as (_ & F & _). now apply id_chars_no_slash. Qed.

(** ** client identifiers *)

Lemma split_format t s : split_on dash (format_client_identifier t s) = split_on dash t ++ [dec s].
Proof. unfold format_client_identifier. apply split_on_app_last, dec_no_dash. Qed.

Lemma format_client_inj t s t' s' :
  format_client_identifier t s = format_client_identifier t' s' -> t = t' /\ s = s'.
Proof.
  intros E. apply (f_equal (split_on dash)) in E. rewrite !split_format in E.
  apply app_inj_tail in E as [E1 E2]. split.
  - rewrite <- (join_split dash t), <- (join_split dash t'). now rewrite E1.
  - now apply dec_inj.
Qed.

Lemma digits_1_20_dec s : s < two64 -> digits_1_20 (dec s) = true.
Proof.
  intros H. unfold digits_1_20. rewrite dec_all_digits. simpl.
  apply N.leb_le. assert (L := dec_length_u64 s H). lia.
Qed.

Lemma is_client_id_format_format t s :
  is_client_id_format (format_client_identifier t s) = digits_1_20 (dec s) && client_type_shape t.
Proof.
  unfold is_client_id_format. rewrite split_format, last_app_single, removelast_app_single, join_split.
  rewrite app_length. simpl length.
  assert (NE := split_on_nonempty dash t).
  destruct (split_on dash t) as [|p l]; [contradiction|].
  replace (2 <=? N.of_nat (length (p :: l) + 1)) with true; [reflexivity|].
  symmetry. apply N.leb_le. simpl length. lia.
Qed.

Lemma format_not_localhost t s : bytes_eqb (format_client_identifier t s) localhost_client_id = false.
Proof.
  apply bytes_eqb_neq. intros E.
  apply (f_equal (split_on dash)) in E. rewrite split_format in E.
  apply (f_equal (fun l => last l [])) in E. rewrite last_app_single in E.
  assert (D := dec_digits s). rewrite E in D. vm_compute in D. discriminate.
Qed.

Lemma shape_nonempty_id_chars t :
  client_type_shape t = true -> t <> [] /\ forallb is_id_char t = true.
Proof.
  unfold client_type_shape. destruct t as [|c t]; [discriminate|].
  rewrite !andb_true_iff. intros [[_ _] F]. split; [discriminate|].
  revert F. apply forallb_impl. apply word_dash_is_id_char.
Qed.

Lemma shape_not_blank t : client_type_shape t = true -> is_blank t = false.
Proof.
  intros H. destruct (shape_nonempty_id_chars t H) as [NE F].
  destruct t as [|c t]; [contradiction|]. apply is_blank_id_char.
  simpl in F. apply andb_true_iff in F. tauto.
Qed.

(** parse after format, for every client type of the shape the format regexp admits *)
Lemma parse_format_shape t s :
  client_type_shape t = true -> s < two64 ->
  parse_client_identifier (format_client_identifier t s) = Some (t, s).
Proof.
  intros Sh Hs. unfold parse_client_identifier.
  rewrite format_not_localhost, is_client_id_format_format, (digits_1_20_dec s Hs), Sh. cbn [andb negb].
  rewrite split_format, last_app_single, removelast_app_single, join_split.
  rewrite (shape_not_blank t Sh), (parse_dec s Hs). reflexivity.
Qed.

Lemma validate_client_type_inv t :
  validate_client_type t = true ->
  client_type_shape t = true /\
  client_identifier_validator (format_client_identifier t 0) = true /\
  client_identifier_validator (format_client_identifier t max_uint64) = true.
Proof.
  unfold validate_client_type.
  destruct (is_blank t); [discriminate|].
  destruct (is_valid_client_id _) eqn:V; [|discriminate].
  destruct (client_identifier_validator (format_client_identifier t 0)) eqn:V0; [|discriminate].
  destruct (client_identifier_validator (format_client_identifier t max_uint64)) eqn:V1; [|discriminate].
  intros _. repeat split.
  unfold is_valid_client_id, parse_client_identifier in V.
  rewrite format_not_localhost, is_client_id_format_format in V.
  destruct (client_type_shape t); [reflexivity|]. rewrite andb_false_r in V. discriminate.
Qed.

Lemma format_length t s : length (format_client_identifier t s) = (length t + 1 + length (dec s))%nat.
Proof. unfold format_client_identifier. rewrite app_length. simpl. lia. Qed.

Lemma client_id_valid_of_type t s :
  validate_client_type t = true -> s < two64 ->
  client_identifier_validator (format_client_identifier t s) = true.
Proof.
  intros V Hs. destruct (validate_client_type_inv t V) as (Sh & V0 & V1).
  unfold client_identifier_validator in *.
  apply default_identifier_validator_iff in V0 as (_ & _ & L0 & _).
  apply default_identifier_validator_iff in V1 as (_ & _ & _ & L1).
  rewrite format_length in L0, L1.
  change (length (dec 0)) with 1%nat in L0. change (length (dec max_uint64)) with 20%nat in L1.
  apply default_identifier_validator_iff. rewrite format_length.
  assert (B1 := dec_length_u64 s Hs). assert (B0 := dec_length_pos s).
  destruct (shape_nonempty_id_chars t Sh) as [NE F].
  repeat split.
  - unfold format_client_identifier. destruct t; [contradiction|discriminate].
  - unfold format_client_identifier. apply forallb_app_iff. split; [assumption|].
    cbn [forallb]. rewrite dash_is_id_char. cbn [andb].
    eapply forallb_impl; [apply digit_is_id_char|apply dec_digits].
  - lia.
  - lia.
Qed.

(** C15: format then parse returns the same client type and sequence, and the identifier is valid *)
Theorem client_format_parse_roundtrip t s :
  validate_client_type t = true -> s < two64 ->
  parse_client_identifier (format_client_identifier t s) = Some (t, s) /\
  is_valid_client_id (format_client_identifier t s) = true /\
  client_identifier_validator (format_client_identifier t s) = true.
Proof.
  intros V Hs. destruct (validate_client_type_inv t V) as (Sh & _).
  assert (P := parse_format_shape t s Sh Hs). split; [exact P|]. split.
  - unfold is_valid_client_id. now rewrite P.
  - now apply client_id_valid_of_type.
Qed.

(** C15: parsing never yields a sequence outside 64 bits *)
Theorem parse_client_bound id t s : parse_client_identifier id = Some (t, s) -> s < two64.
Proof.
  unfold parse_client_identifier.
  destruct (bytes_eqb id localhost_client_id); [intros [= _ <-]; reflexivity|].
  destruct (is_client_id_format id); [|discriminate]. cbn [negb].
  destruct (is_blank _); [discriminate|].
  destruct (parse_uint64 _) as [n|] eqn:P; [|discriminate].
  intros [= _ <-]. now apply parse_bound in P.
Qed.

(** what an accepted (non-sentinel) identifier looks like: [type-digits], 1..20 digits, value as parsed *)
Lemma parse_client_accepts id t s :
  parse_client_identifier id = Some (t, s) -> id <> localhost_client_id ->
  exists d, id = t ++ dash :: d /\ digits_1_20 d = true /\ parse_uint64 d = Some s /\ client_type_shape t = true.
Proof.
  unfold parse_client_identifier. intros H NL.
  destruct (bytes_eqb id localhost_client_id) eqn:E; [apply bytes_eqb_eq in E; contradiction|].
  destruct (is_client_id_format id) eqn:F; [|discriminate]. cbn [negb] in H.
  destruct (is_blank _); [discriminate|].
  destruct (parse_uint64 _) as [n|] eqn:P; [|discriminate].
  injection H as Ht Hn. subst n.
  unfold is_client_id_format in F. rewrite !andb_true_iff in F. destruct F as [[L D] Sh].
  rewrite Ht in Sh.
  exists (last (split_on dash id) []). repeat split; try assumption.
  rewrite <- (join_split dash id) at 1. rewrite <- Ht.
  apply join_removelast_last. apply N.leb_le in L. lia.
Qed.

(** ** channel and connection identifiers *)

Lemma split_str_fuel_nomatch p sep' s :
  forallb (fun c => negb (Ascii.eqb p c)) s = true ->
  forall fuel cur, (length s < fuel)%nat -> split_str_fuel fuel (p :: sep') s cur = [rev cur ++ s].
Proof.
  induction s as [|c s IH]; intros F fuel cur L; (destruct fuel as [|f]; [simpl in L; lia|]); simpl.
  - now rewrite app_nil_r.
  - simpl in F. apply andb_true_iff in F as [Fc Fs]. apply negb_true_iff in Fc. rewrite Fc.
    rewrite IH by (try assumption; simpl in L; lia). simpl. now rewrite <- app_assoc.
Qed.

Lemma split_str_fuel_step f sep s cur rest :
  s <> [] -> strip_prefix sep s = Some rest ->
  split_str_fuel (S f) sep s cur = rev cur :: split_str_fuel f sep rest [].
Proof. intros NE H. destruct s; [contradiction|]. cbn [split_str_fuel]. now rewrite H. Qed.

Lemma split_str_prefixed p pre' d :
  forallb (fun c => negb (Ascii.eqb p c)) d = true ->
  split_str (p :: pre') ((p :: pre') ++ d) = [[]; d].
Proof.
  intros F. unfold split_str.
  rewrite (split_str_fuel_step _ _ _ _ d) by (try discriminate; apply strip_prefix_app).
  simpl rev. f_equal.
  rewrite split_str_fuel_nomatch; [reflexivity|assumption|]. rewrite app_length. simpl. lia.
Qed.

Lemma digits_not_c d : forallb is_digit d = true -> forallb (fun c => negb (Ascii.eqb "c"%char c)) d = true.
Proof. apply forallb_impl. intros c. by_byte c. Qed.

Section Prefixed.
  (** [pre] is "channel-" or "connection-": begins with 'c', identifier characters only *)
  Variable pre' : bytes.
  Let pre := "c"%char :: pre'.

  Lemma parse_identifier_format s :
    s < two64 -> parse_identifier (pre ++ dec s) pre = Some s.
  Proof.
    intros Hs. unfold parse_identifier. rewrite is_prefix_app. cbn [negb].
    unfold pre. rewrite split_str_prefixed by (apply digits_not_c, dec_digits).
    cbn [bytes_eqb negb]. now apply parse_dec.
  Qed.

  Lemma prefixed_format_ok s : s < two64 -> is_prefixed_id_format pre (pre ++ dec s) = true.
  Proof. intros Hs. unfold is_prefixed_id_format. rewrite strip_prefix_app. now apply digits_1_20_dec. Qed.

  Lemma parse_identifier_bound id n : parse_identifier id pre = Some n -> n < two64.
  Proof.
    unfold parse_identifier. destruct (is_prefix pre id); [|discriminate]. cbn [negb].
    destruct (split_str pre id) as [|a [|b [|c l]]]; try discriminate.
    destruct (bytes_eqb a []); [|discriminate]. cbn [negb]. apply parse_bound.
  Qed.
End Prefixed.

Theorem channel_format_parse_roundtrip s :
  s < two64 ->
  parse_channel_sequence (format_channel_identifier s) = Some s /\
  is_valid_channel_id (format_channel_identifier s) = true /\
  channel_identifier_validator (format_channel_identifier s) = true.
Proof.
  intros Hs.
  assert (parse_channel_sequence (format_channel_identifier s) = Some s) as P.
  { unfold parse_channel_sequence, is_channel_id_format, format_channel_identifier, channel_prefix.
    change (B "channel-") with ("c"%char :: B "hannel-").
    rewrite prefixed_format_ok by assumption. cbn [negb]. now apply parse_identifier_format. }
  split; [exact P|]. split; [unfold is_valid_channel_id; now rewrite P|].
  apply default_identifier_validator_iff. unfold format_channel_identifier.
  assert (B1 := dec_length_u64 s Hs). assert (B0 := dec_length_pos s).
  rewrite app_length. change (length channel_prefix) with 8%nat. repeat split; try lia.
  - discriminate.
  - apply forallb_app_iff. split; [reflexivity|]. eapply forallb_impl; [apply digit_is_id_char|apply dec_digits].
Qed.

Theorem connection_format_parse_roundtrip s :
  s < two64 ->
  parse_connection_sequence (format_connection_identifier s) = Some s /\
  is_valid_connection_id (format_connection_identifier s) = true /\
  connection_identifier_validator (format_connection_identifier s) = true.
Proof.
  intros Hs.
  assert (parse_connection_sequence (format_connection_identifier s) = Some s) as P.
  { unfold parse_connection_sequence, is_connection_id_format, format_connection_identifier, connection_prefix.
    change (B "connection-") with ("c"%char :: B "onnection-").
    rewrite prefixed_format_ok by assumption. cbn [negb]. now apply parse_identifier_format. }
  split; [exact P|]. split; [unfold is_valid_connection_id; now rewrite P|].
  apply default_identifier_validator_iff. unfold format_connection_identifier.
  assert (B1 := dec_length_u64 s Hs). assert (B0 := dec_length_pos s).
  rewrite app_length. change (length connection_prefix) with 11%nat. repeat split; try lia.
  - discriminate.
  - apply forallb_app_iff. split; [reflexivity|]. eapply forallb_impl; [apply digit_is_id_char|apply dec_digits].
Qed.

Theorem parse_channel_bound id s : parse_channel_sequence id = Some s -> s < two64.
Proof.
  unfold parse_channel_sequence. destruct (is_channel_id_format id); [|discriminate]. cbn [negb].
  change channel_prefix with ("c"%char :: B "hannel-"). apply parse_identifier_bound.
Qed.

Theorem parse_connection_bound id s : parse_connection_sequence id = Some s -> s < two64.
Proof.
  unfold parse_connection_sequence. destruct (is_connection_id_format id); [|discriminate]. cbn [negb].
  change connection_prefix with ("c"%char :: B "onnection-"). apply parse_identifier_bound.
Qed.

Lemma format_channel_inj s s' : format_channel_identifier s = format_channel_identifier s' -> s = s'.
Proof. unfold format_channel_identifier. intros E. apply app_inv_head in E. now apply dec_inj. Qed.
Lemma format_connection_inj s s' : format_connection_identifier s = format_connection_identifier s' -> s = s'.
Proof. unfold format_connection_identifier. intros E. apply app_inv_head in E. now apply dec_inj. Qed.

(** ** the counters: identifiers of created objects are never reused *)

(** the identifier of kind [k] carrying sequence [n] (client identifiers also carry a type) *)
Definition fmt (k : Kind) (t : bytes) (n : N) : bytes :=
  match k with
  | KClient => format_client_identifier t n
  | KConnection => format_connection_identifier n
  | KChannel => format_channel_identifier n
  end.

Lemma fmt_inj k t n t' n' : fmt k t n = fmt k t' n' -> n = n'.
Proof.
  destruct k; simpl; intros E.
  - now apply format_client_inj in E.
  - now apply format_connection_inj.
  - now apply format_channel_inj.
Qed.

Lemma Kind_eq_dec (a b : Kind) : {a = b} + {a <> b}.
Proof. decide equality. Qed.

(** no counter reaches 2^64 during the history (2^64 creations are needed to violate this from genesis) *)
Definition no_wrap (c : Counters) (n : nat) : Prop :=
  forall k, seq_of k c + N.of_nat n < two64.

Definition op_commits (op : Create) : bool :=
  match op with CreateClient _ b | CreateConnection b | CreateChannel b => b end.
Definition op_kind (op : Create) : Kind :=
  match op with CreateClient _ _ => KClient | CreateConnection _ => KConnection | CreateChannel _ => KChannel end.

(** one step: the identifier carries the current counter; on commit exactly that counter grows by one, on
    failure nothing changes *)
Lemma step_spec c op :
  seq_of (op_kind op) c + 1 < two64 ->
  exists t,
    step c op = (op_kind op, fmt (op_kind op) t (seq_of (op_kind op) c), op_commits op,
                 snd (step c op)) /\
    (op_commits op = false -> snd (step c op) = c) /\
    (op_commits op = true ->
       seq_of (op_kind op) (snd (step c op)) = seq_of (op_kind op) c + 1 /\
       forall k, k <> op_kind op -> seq_of k (snd (step c op)) = seq_of k c).
Proof.
  intros H. destruct op as [t b|b|b]; [exists t|exists []|exists []]; destruct b; cbn in *;
    (split; [reflexivity|]); (split; [try discriminate; reflexivity|]); try discriminate; intros _;
    (split; [apply N.mod_small; assumption|]); intros k Hk; destruct k; try contradiction; reflexivity.
Qed.

Lemma no_wrap_step c op n :
  no_wrap c (S n) -> no_wrap (snd (step c op)) n /\ seq_of (op_kind op) c + 1 < two64.
Proof.
  intros NW. assert (H1 : seq_of (op_kind op) c + 1 < two64) by (specialize (NW (op_kind op)); lia).
  split; [|assumption].
  destruct (step_spec c op H1) as (t & _ & Hf & Ht).
  intros k. specialize (NW k).
  destruct (op_commits op) eqn:Cm.
  - destruct (Ht eq_refl) as [E1 E2].
    destruct k, (op_kind op) eqn:K; try (rewrite E1; lia); rewrite E2 by (rewrite ?K; discriminate); lia.
  - rewrite (Hf eq_refl). lia.
Qed.

(** every committed identifier in the rest of the history carries a sequence >= the current counter *)
Lemma committed_lower c ops k id :
  no_wrap c (length ops) ->
  In (k, id) (committed (run_trace c ops)) ->
  exists t n, id = fmt k t n /\ seq_of k c <= n.
Proof.
  revert c. induction ops as [|op ops IH]; intros c NW Hin; [contradiction|].
  cbn [run_trace] in Hin.
  destruct (no_wrap_step c op (length ops) NW) as [NW' H1].
  destruct (step_spec c op H1) as (t & Es & Hf & Ht).
  rewrite Es in Hin. cbn [committed] in Hin.
  assert (forall k, seq_of k c <= seq_of k (snd (step c op))) as Mono.
  { intros k'. destruct (op_commits op) eqn:Cm.
    - destruct (Ht eq_refl) as [E1 E2].
      destruct (Kind_eq_dec k' (op_kind op)) as [->|NE]; [rewrite E1; lia|rewrite E2 by assumption; lia].
    - rewrite (Hf eq_refl). lia. }
  destruct (op_commits op) eqn:Cm.
  - destruct Hin as [[= <- <-]|Hin].
    + exists t, (seq_of (op_kind op) c). split; [reflexivity|lia].
    + destruct (IH _ NW' Hin) as (t' & n & -> & Hn). exists t', n. split; [reflexivity|]. specialize (Mono k). lia.
  - destruct (IH _ NW' Hin) as (t' & n & -> & Hn). exists t', n. split; [reflexivity|]. specialize (Mono k). lia.
Qed.

(** C15: over any history of creation attempts (committed or reverted), the identifiers of the created objects are
    pairwise distinct per kind *)
Theorem ids_unique c ops : no_wrap c (length ops) -> NoDup (committed (run_trace c ops)).
Proof.
  revert c. induction ops as [|op ops IH]; intros c NW; [constructor|].
  cbn [run_trace].
  destruct (no_wrap_step c op (length ops) NW) as [NW' H1].
  destruct (step_spec c op H1) as (t & Es & Hf & Ht).
  rewrite Es. cbn [committed].
  destruct (op_commits op) eqn:Cm; [|now apply IH].
  constructor; [|now apply IH].
  intros Hin. destruct (committed_lower _ _ _ _ NW' Hin) as (t' & n & E & Hn).
  apply fmt_inj in E. destruct (Ht eq_refl) as [E1 _]. lia.
Qed.

(** C15: a committed creation advances exactly its own counter by one; a reverted one changes nothing *)
Theorem counters_step c op :
  seq_of (op_kind op) c + 1 < two64 ->
  let '(k, id, ok, c') := step c op in
  k = op_kind op /\ ok = op_commits op /\
  (exists t, id = fmt k t (seq_of k c)) /\
  (ok = false -> c' = c) /\
  (ok = true -> seq_of k c' = seq_of k c + 1 /\ forall k', k' <> k -> seq_of k' c' = seq_of k' c).
Proof.
  intros H. destruct (step_spec c op H) as (t & Es & Hf & Ht).
  destruct (step c op) as [[[k id] ok] c'] eqn:E. cbn [snd] in *.
  injection Es as -> -> ->. repeat split; eauto; apply Ht; assumption.
Qed.

(** every identifier handed out is valid, provided client types are registered ones (ValidateClientType) *)
Theorem generated_ids_valid c op :
  (forall k, seq_of k c < two64) ->
  (forall t b, op = CreateClient t b -> validate_client_type t = true) ->
  let '(k, id, _, _) := step c op in
  match k with
  | KClient => client_identifier_validator id = true /\ is_valid_client_id id = true
  | KConnection => connection_identifier_validator id = true /\ is_valid_connection_id id = true
  | KChannel => channel_identifier_validator id = true /\ is_valid_channel_id id = true
  end.
Proof.
  intros B V. destruct op as [t b|b|b]; cbn.
  - destruct (client_format_parse_roundtrip t (next_client c) (V t b eq_refl) (B KClient)) as (_ & ? & ?). auto.
  - destruct (connection_format_parse_roundtrip (next_connection c) (B KConnection)) as (_ & ? & ?). auto.
  - destruct (channel_format_parse_roundtrip (next_channel c) (B KChannel)) as (_ & ? & ?). auto.
Qed.
