(** proto3 wire codec of transfer/types FungibleTokenPacketData as the code runs it:
    encoding  = gogoproto generated MarshalToSizedBuffer (packet.pb.go),
    decoding  = unknownproto.RejectUnknownFieldsStrict (cosmos-sdk codec/unknownproto, on top of
                protowire.ConsumeTag/ConsumeFieldValue) followed by the generated Unmarshal
                (packet.pb.go, with skipPacket for fields it does not know)
    — transfer/types/packet.go UnmarshalPacketData, case EncodingProtobuf.
    Definitions only; proofs are in Codec/ProtoFacts.v. *)
From IBC Require Import Lib.Bytes Lib.Dec Lib.BE64 Codec.Abi.
Local Open Scope N_scope.

Definition two32 : N := 4294967296.
Definition two31 : N := 2147483648.

(** encodeVarintPacket: minimal little-endian base-128 (a uint64 needs at most 10 bytes) *)
Fixpoint varint_enc_fuel (fuel : nat) (v : N) : bytes :=
  match fuel with
  | O => []
  | S f => if v <? 128 then [ascii_of_N v]
           else ascii_of_N (v mod 128 + 128) :: varint_enc_fuel f (v / 128)
  end.
Definition varint_enc (v : N) : bytes := varint_enc_fuel 10 v.

(** protowire.ConsumeVarint: bytes 1..9 carry 7 bits each; the 10th byte must be 0 or 1 (else
    errCodeOverflow); running out of input is errCodeTruncated.  [k] = number of 7-bit bytes still allowed
    before the 10th. *)
Fixpoint pw_varint_aux (k : nat) (shift acc : N) (b : bytes) : option (N * bytes) :=
  match b with
  | [] => None
  | c :: r =>
      let y := byteN c in
      match k with
      | O => if y <? 2 then Some (acc + y * 2 ^ shift, r) else None
      | S k' => if y <? 128 then Some (acc + y * 2 ^ shift, r)
                else pw_varint_aux k' (shift + 7) (acc + (y - 128) * 2 ^ shift) r
      end
  end.
Definition pw_varint (b : bytes) : option (N * bytes) := pw_varint_aux 9 0 0 b.

(** the generated decoders' varint loop: "for shift := 0; ; shift += 7 { if shift >= 64 -> overflow;
    if iNdEx >= l -> EOF; v |= uint64(b&0x7F) << shift; if b < 0x80 break }" — bits shifted beyond 64 are
    dropped silently.  [k] = iterations left before shift reaches 64 (10 initially). *)
Fixpoint gogo_varint_aux (k : nat) (shift acc : N) (b : bytes) : option (N * bytes) :=
  match k with
  | O => None
  | S k' =>
      match b with
      | [] => None
      | c :: r =>
          let y := byteN c in
          let acc' := acc + ((y mod 128) * 2 ^ shift) mod two64 in
          if y <? 128 then Some (acc', r) else gogo_varint_aux k' (shift + 7) acc' r
      end
  end.
Definition gogo_varint (b : bytes) : option (N * bytes) := gogo_varint_aux 10 0 0 b.

(** ------------------------------------------------------------------------------ encoding *)

(** one string field: omitted when empty (proto3 zero value), else tag byte, length varint, bytes *)
Definition enc_str_field (tag : N) (s : bytes) : bytes :=
  match s with
  | [] => []
  | _ => ascii_of_N tag :: varint_enc (blen s) ++ s
  end.

(** MarshalToSizedBuffer writes memo, receiver, sender, amount, denom from the END of the buffer, i.e.
    the bytes are in field-number order: denom(1)=0x0a amount(2)=0x12 sender(3)=0x1a receiver(4)=0x22 memo(5)=0x2a *)
Definition proto_encode (d : FTPD) : bytes :=
  enc_str_field 10 (f_denom d) ++ enc_str_field 18 (f_amount d) ++ enc_str_field 26 (f_sender d) ++
  enc_str_field 34 (f_receiver d) ++ enc_str_field 42 (f_memo d).

(** ------------------------------------------------- pass 1: RejectUnknownFieldsStrict *)

(** doRejectUnknownFields specialised to a message with string fields 1..5 (descriptor of
    FungibleTokenPacketData): ConsumeTag (field number must be in 1..MaxInt32), known field must have
    wire type 2 (canEncodeType), unknown field = error (strict), then ConsumeFieldValue = ConsumeBytes
    (length varint, must not exceed the rest).  true = no error. *)
Fixpoint reject_unknown_aux (fuel : nat) (bz : bytes) : bool :=
  match bz with
  | [] => true
  | _ =>
      match fuel with
      | O => false
      | S f =>
          match pw_varint bz with
          | None => false
          | Some (tag, r1) =>
              let num := tag / 8 in
              let wt := tag mod 8 in
              if 2147483647 <? num then false                 (* DecodeTag: -1 -> errCodeFieldNumber *)
              else if num <? 1 then false                     (* num < MinValidNumber *)
              else if num <=? 5 then
                if wt =? 2 then
                  match pw_varint r1 with                     (* ConsumeBytes *)
                  | None => false
                  | Some (len, r2) =>
                      if blen r2 <? len then false            (* errCodeTruncated *)
                      else reject_unknown_aux f (skipn (N.to_nat len) r2)
                  end
                else false                                    (* errMismatchedWireType *)
              else false                                      (* errUnknownField *)
          end
      end
  end.
Definition reject_unknown (bz : bytes) : bool := reject_unknown_aux (length bz) bz.

(** ---------------------------------------------------- pass 2: generated Unmarshal *)

(** skipPacket(dAtA): Some rest-after-the-skipped-field, None = error (including running past the end,
    which the caller turns into io.ErrUnexpectedEOF) *)
Fixpoint skip_varint (k : nat) (b : bytes) : option bytes :=
  match k with
  | O => None
  | S k' =>
      match b with
      | [] => None
      | c :: r => if byteN c <? 128 then Some r else skip_varint k' r
      end
  end.

Fixpoint skip_packet_aux (fuel : nat) (depth : N) (b : bytes) : option bytes :=
  match fuel with
  | O => None
  | S f =>
      match b with
      | [] => None
      | _ =>
          match gogo_varint b with
          | None => None
          | Some (wire, r1) =>
              let wt := wire mod 8 in
              let continue (depth' : N) (rest : bytes) :=
                if depth' =? 0 then Some rest else skip_packet_aux f depth' rest in
              if wt =? 0 then
                match skip_varint 10 r1 with Some r2 => continue depth r2 | None => None end
              else if wt =? 1 then
                if blen r1 <? 8 then None else continue depth (skipn 8 r1)
              else if wt =? 2 then
                match gogo_varint r1 with
                | None => None
                | Some (len, r2) =>
                    if two63 <=? len then None               (* length < 0 *)
                    else if blen r2 <? len then None
                    else continue depth (skipn (N.to_nat len) r2)
                end
              else if wt =? 3 then skip_packet_aux f (depth + 1) r1
              else if wt =? 4 then
                if depth =? 0 then None else continue (depth - 1) r1
              else if wt =? 5 then
                if blen r1 <? 4 then None else continue depth (skipn 4 r1)
              else None
          end
      end
  end.

Definition set_field (m : FTPD) (num : N) (s : bytes) : FTPD :=
  if num =? 1 then mkFTPD s (f_amount m) (f_sender m) (f_receiver m) (f_memo m)
  else if num =? 2 then mkFTPD (f_denom m) s (f_sender m) (f_receiver m) (f_memo m)
  else if num =? 3 then mkFTPD (f_denom m) (f_amount m) s (f_receiver m) (f_memo m)
  else if num =? 4 then mkFTPD (f_denom m) (f_amount m) (f_sender m) s (f_memo m)
  else mkFTPD (f_denom m) (f_amount m) (f_sender m) (f_receiver m) s.

Definition empty_ftpd : FTPD := mkFTPD [] [] [] [] [].

(** FungibleTokenPacketData.Unmarshal *)
Fixpoint gogo_unmarshal_aux (fuel : nat) (bz : bytes) (m : FTPD) : option FTPD :=
  match bz with
  | [] => Some m
  | _ =>
      match fuel with
      | O => None
      | S f =>
          match gogo_varint bz with
          | None => None
          | Some (wire, r1) =>
              let fnum := (wire / 8) mod two32 in             (* int32(wire >> 3), two's complement *)
              let wt := wire mod 8 in
              if wt =? 4 then None
              else if (fnum =? 0) || (two31 <=? fnum) then None   (* fieldNum <= 0 *)
              else if fnum <=? 5 then
                if wt =? 2 then
                  match gogo_varint r1 with
                  | None => None
                  | Some (len, r2) =>
                      if two63 <=? len then None               (* intStringLen < 0 *)
                      else if blen r2 <? len then None         (* postIndex > l (or overflowed) *)
                      else gogo_unmarshal_aux f (skipn (N.to_nat len) r2)
                                              (set_field m fnum (firstn (N.to_nat len) r2))
                  end
                else None
              else
                match skip_packet_aux (S (length bz)) 0 bz with
                | None => None
                | Some rest => gogo_unmarshal_aux f rest m
                end
          end
      end
  end.
Definition gogo_unmarshal (bz : bytes) : option FTPD := gogo_unmarshal_aux (length bz) bz empty_ftpd.

(** UnmarshalPacketData, EncodingProtobuf branch, up to (not including) ValidateBasic *)
Definition proto_decode_strict (bz : bytes) : option FTPD :=
  if reject_unknown bz then gogo_unmarshal bz else None.

(** every top-level field of [bz] has a field number in 1..5 and wire type 2 (spec, independent of fuel) *)
Inductive known_only : bytes -> Prop :=
| ko_nil : known_only []
| ko_field bz tag r1 len r2 :
    pw_varint bz = Some (tag, r1) -> 1 <= tag / 8 -> tag / 8 <= 5 -> tag mod 8 = 2 ->
    pw_varint r1 = Some (len, r2) -> len <= blen r2 ->
    known_only (skipn (N.to_nat len) r2) ->
    known_only bz.
