(** Facts about the UTF-8 model (Codec/JsonUtf8.v): decoding determines a chunk that re-encodes to itself,
    skip-counter lemmas, segmentation of any byte string into valid runes and invalid bytes. *)
From IBC Require Import Lib.Bytes Lib.BytesFacts Codec.JsonUtf8.
From Coq Require Import ZifyBool ZifyN ZifyNat.
Local Open Scope N_scope.

Ltac Zify.zify_post_hook ::= Z.div_mod_to_equations.

Lemma byteN_lt c : byteN c < 256.
Proof. unfold byteN. apply N_ascii_bounded. Qed.

Lemma Nbyte_byteN c : Nbyte (byteN c) = c.
Proof.
  unfold Nbyte, byteN. rewrite N.mod_small by apply N_ascii_bounded. apply ascii_N_embedding.
Qed.

Lemma byteN_Nbyte n : n < 256 -> byteN (Nbyte n) = n.
Proof. intros H. unfold Nbyte, byteN. rewrite N.mod_small by exact H. now apply N_ascii_embedding. Qed.

Lemma Nbyte_eq n c : n = byteN c -> Nbyte n = c.
Proof. intros ->. apply Nbyte_byteN. Qed.

(** arithmetic of the 2-, 3- and 4-byte forms *)
Lemma enc2_arith b0 b1 : 194 <= b0 <= 223 -> 128 <= b1 <= 191 ->
  let r := (b0 mod 32) * 64 + b1 mod 64 in
  128 <= r < 2048 /\ 192 + r / 64 = b0 /\ 128 + r mod 64 = b1.
Proof. intros H0 H1 r. subst r. lia. Qed.

Lemma enc3_arith b0 b1 b2 lo hi : 224 <= b0 <= 239 -> 128 <= lo -> hi <= 191 ->
  (b0 = 224 -> lo = 160) -> (b0 = 237 -> hi = 159) -> lo <= b1 <= hi -> 128 <= b2 <= 191 ->
  let r := (b0 mod 16) * 4096 + (b1 mod 64) * 64 + b2 mod 64 in
  2048 <= r < 65536 /\ ~ (55296 <= r <= 57343) /\
  224 + r / 4096 = b0 /\ 128 + (r / 64) mod 64 = b1 /\ 128 + r mod 64 = b2.
Proof.
  intros H0 Hlo Hhi E0 ED H1 H2 r.
  assert (M0 : b0 mod 16 = b0 - 224) by lia.
  assert (M1 : b1 mod 64 = b1 - 128) by lia.
  assert (M2 : b2 mod 64 = b2 - 128) by lia.
  subst r. rewrite M0, M1, M2. clear M0 M1 M2.
  set (a0 := b0 - 224). set (a1 := b1 - 128). set (a2 := b2 - 128).
  assert (A0 : a0 <= 15 /\ b0 = a0 + 224) by lia.
  assert (A1 : a1 < 64 /\ b1 = a1 + 128) by lia.
  assert (A2 : a2 < 64 /\ b2 = a2 + 128) by lia.
  assert (L : (a0 = 0 -> 32 <= a1) /\ (a0 = 13 -> a1 <= 31)) by lia.
  clearbody a0 a1 a2. destruct A0 as [A0 ->], A1 as [A1 ->], A2 as [A2 ->].
  clear H0 H1 H2 E0 ED Hlo Hhi.
  repeat split; try lia.
Qed.

Lemma enc4_arith b0 b1 b2 b3 lo hi : 240 <= b0 <= 244 -> 128 <= lo -> hi <= 191 ->
  (b0 = 240 -> lo = 144) -> (b0 = 244 -> hi = 143) -> lo <= b1 <= hi -> 128 <= b2 <= 191 -> 128 <= b3 <= 191 ->
  let r := (b0 mod 8) * 262144 + (b1 mod 64) * 4096 + (b2 mod 64) * 64 + b3 mod 64 in
  65536 <= r <= 1114111 /\
  240 + r / 262144 = b0 /\ 128 + (r / 4096) mod 64 = b1 /\ 128 + (r / 64) mod 64 = b2 /\ 128 + r mod 64 = b3.
Proof.
  intros H0 Hlo Hhi E0 E4 H1 H2 H3 r.
  assert (M0 : b0 mod 8 = b0 - 240) by lia.
  assert (M1 : b1 mod 64 = b1 - 128) by lia.
  assert (M2 : b2 mod 64 = b2 - 128) by lia.
  assert (M3 : b3 mod 64 = b3 - 128) by lia.
  subst r. rewrite M0, M1, M2, M3. clear M0 M1 M2 M3.
  set (a0 := b0 - 240). set (a1 := b1 - 128). set (a2 := b2 - 128). set (a3 := b3 - 128).
  assert (A0 : a0 <= 4 /\ b0 = a0 + 240) by lia.
  assert (A1 : a1 < 64 /\ b1 = a1 + 128) by lia.
  assert (A2 : a2 < 64 /\ b2 = a2 + 128) by lia.
  assert (A3 : a3 < 64 /\ b3 = a3 + 128) by lia.
  assert (L : (a0 = 0 -> 16 <= a1) /\ (a0 = 4 -> a1 <= 15)) by lia.
  clearbody a0 a1 a2 a3. destruct A0 as [A0 ->], A1 as [A1 ->], A2 as [A2 ->], A3 as [A3 ->].
  clear H0 H1 H2 H3 E0 E4 Hlo Hhi.
  repeat split; try lia.
Qed.

(** ** lead_info *)
Lemma lead_info_spec b0 sz lo hi : lead_info b0 = Some (sz, lo, hi) ->
  128 <= lo /\ hi <= 191 /\
  ((sz = 2%nat /\ 194 <= b0 <= 223 /\ lo = 128 /\ hi = 191) \/
   (sz = 3%nat /\ 224 <= b0 <= 239 /\ (b0 = 224 -> lo = 160) /\ (b0 = 237 -> hi = 159)) \/
   (sz = 4%nat /\ 240 <= b0 <= 244 /\ (b0 = 240 -> lo = 144) /\ (b0 = 244 -> hi = 143))).
Proof.
  unfold lead_info.
  repeat match goal with |- context [if ?c then _ else _] => destruct c eqn:? end;
    intros [= <- <- <-] || discriminate; lia.
Qed.

(** ** chunks: the bytes of one well-formed rune *)

Definition all_high (ch : bytes) : Prop := Forall (fun c => 128 <= byteN c) ch.

(** [ch] is the encoding of [r] as Go decodes it, whatever follows *)
Record rune_chunk (ch : bytes) (r : N) : Prop := {
  rc_dec : forall t, dec_rune (ch ++ t) = (r, length ch);
  rc_enc : enc_rune r = ch;
  rc_noerr : dec_is_error (r, length ch) = false;
  rc_shape : (exists c, ch = [c] /\ byteN c < 128 /\ r = byteN c) \/
             (all_high ch /\ 128 <= r /\ (2 <= length ch)%nat)
}.

Lemma is_cont_spec b : is_cont b = true <-> 128 <= b <= 191.
Proof. unfold is_cont. lia. Qed.

Ltac enc_ifs :=
  repeat (match goal with |- context [if ?c then _ else _] => destruct c eqn:? end);
  try (exfalso; lia); repeat f_equal; apply Nbyte_eq; lia.

Lemma dec_rune_chunk c s' :
  dec_is_error (dec_rune (c :: s')) = false ->
  exists ch t, c :: s' = ch ++ t /\ rune_chunk ch (fst (dec_rune (c :: s'))) /\
               length ch = snd (dec_rune (c :: s')).
Proof.
  intros NE.
  assert (B0 := byteN_lt c).
  unfold dec_rune in *. cbv zeta in *.
  destruct (byteN c <? 128) eqn:Easc.
  { (* ASCII *)
    exists [c], s'. cbn [fst snd length app]. split; [reflexivity|]. split; [|reflexivity].
    constructor.
    - intros t. cbn [app]. unfold dec_rune. cbv zeta. now rewrite Easc.
    - unfold enc_rune. rewrite Easc. now rewrite Nbyte_byteN.
    - unfold dec_is_error. cbn [fst snd]. unfold rune_error. lia.
    - left. exists c. split; [reflexivity|]. split; [|reflexivity]. clear NE. lia. }
  destruct (lead_info (byteN c)) as [[[sz lo] hi]|] eqn:EL; [|discriminate NE].
  apply lead_info_spec in EL. destruct EL as (Hlo & Hhi & EL).
  destruct s' as [|c1 s2]; [discriminate NE|].
  assert (B1 := byteN_lt c1).
  destruct ((byteN c1 <? lo) || (hi <? byteN c1)) eqn:E1; [discriminate NE|].
  destruct EL as [(-> & R0 & -> & ->)|[(-> & R0 & X0 & XD)|(-> & R0 & X0 & X4)]].
  - (* two bytes *)
    cbn [Nat.eqb] in *. cbn [fst snd] in *.
    destruct (enc2_arith (byteN c) (byteN c1)) as (Rr & Q0 & Q1); [lia|lia|]. cbv zeta in *.
    exists [c; c1], s2. split; [reflexivity|]. split; [|reflexivity].
    constructor.
    + intros t. cbn [app length]. unfold dec_rune. cbv zeta. rewrite Easc.
      replace (lead_info (byteN c)) with (Some (2%nat, 128, 191)).
      2:{ unfold lead_info.
          repeat match goal with |- context [if ?c then _ else _] => destruct c eqn:? end; try reflexivity; lia. }
      rewrite E1. reflexivity.
    + unfold enc_rune. enc_ifs.
    + reflexivity.
    + right. repeat split; [repeat constructor; lia| lia | cbn; lia].
  - (* three bytes *)
    cbn [Nat.eqb] in *.
    destruct s2 as [|c2 s3]; [discriminate NE|].
    assert (B2 := byteN_lt c2).
    destruct (is_cont (byteN c2)) eqn:E2; cbn [negb] in *; [|discriminate NE].
    apply is_cont_spec in E2. cbn [fst snd] in *.
    destruct (enc3_arith (byteN c) (byteN c1) (byteN c2) lo hi) as (Rr & NS & Q0 & Q1 & Q2); try lia.
    cbv zeta in *.
    exists [c; c1; c2], s3. split; [reflexivity|]. split; [|reflexivity].
    constructor.
    + intros t. cbn [app length]. unfold dec_rune. cbv zeta. rewrite Easc.
      assert (EL : exists lo' hi', lead_info (byteN c) = Some (3%nat, lo', hi') /\
                   ((byteN c1 <? lo') || (hi' <? byteN c1)) = false).
      { unfold lead_info.
        repeat match goal with |- context [if ?c then _ else _] => destruct c eqn:? end;
          try lia; do 2 eexists; (split; [reflexivity|]); lia. }
      destruct EL as (lo' & hi' & -> & ->). cbn [Nat.eqb].
      replace (is_cont (byteN c2)) with true by (symmetry; apply is_cont_spec; lia). reflexivity.
    + unfold enc_rune, is_surrogate. enc_ifs.
    + reflexivity.
    + right. repeat split; [repeat constructor; lia| lia | cbn; lia].
  - (* four bytes *)
    cbn [Nat.eqb] in *.
    destruct s2 as [|c2 s3]; [discriminate NE|].
    assert (B2 := byteN_lt c2).
    destruct (is_cont (byteN c2)) eqn:E2; cbn [negb] in *; [|discriminate NE].
    apply is_cont_spec in E2.
    destruct s3 as [|c3 s4]; [discriminate NE|].
    assert (B3 := byteN_lt c3).
    destruct (is_cont (byteN c3)) eqn:E3; cbn [negb] in *; [|discriminate NE].
    apply is_cont_spec in E3. cbn [fst snd] in *.
    destruct (enc4_arith (byteN c) (byteN c1) (byteN c2) (byteN c3) lo hi) as (Rr & Q0 & Q1 & Q2 & Q3); try lia.
    cbv zeta in *.
    exists [c; c1; c2; c3], s4. split; [reflexivity|]. split; [|reflexivity].
    constructor.
    + intros t. cbn [app length]. unfold dec_rune. cbv zeta. rewrite Easc.
      assert (EL : exists lo' hi', lead_info (byteN c) = Some (4%nat, lo', hi') /\
                   ((byteN c1 <? lo') || (hi' <? byteN c1)) = false).
      { unfold lead_info.
        repeat match goal with |- context [if ?c then _ else _] => destruct c eqn:? end;
          try lia; do 2 eexists; (split; [reflexivity|]); lia. }
      destruct EL as (lo' & hi' & -> & ->). cbn [Nat.eqb].
      replace (is_cont (byteN c2)) with true by (symmetry; apply is_cont_spec; lia).
      replace (is_cont (byteN c3)) with true by (symmetry; apply is_cont_spec; lia). reflexivity.
    + unfold enc_rune, is_surrogate. enc_ifs.
    + reflexivity.
    + right. repeat split; [repeat constructor; lia| lia | cbn; lia].
Qed.
