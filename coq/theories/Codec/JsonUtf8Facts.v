(** Facts about the UTF-8 model (Codec/JsonUtf8.v): decoding determines a chunk that re-encodes to itself,
    skip-counter lemmas, segmentation of any byte string into valid runes and invalid bytes. *)
From IBC Require Import Lib.Bytes Lib.BytesFacts Codec.JsonUtf8.
From Coq Require Import ZifyBool ZifyN ZifyNat.
Local Open Scope N_scope.

Ltac Zify.zify_post_hook ::= Z.div_mod_to_equations.

Lemma byteN_lt c : byteN c < 256.
Proof. unfold byteN. apply N_ascii_bounded. Qed.

Lemma Nbyte_byteN c : Nbyte (byteN c) = c.
Proof.
  unfold Nbyte, byteN. rewrite N.mod_small by apply N_ascii_bounded. apply ascii_N_embedding.
Qed.

Lemma byteN_Nbyte n : n < 256 -> byteN (Nbyte n) = n.
Proof. intros H. unfold Nbyte, byteN. rewrite N.mod_small by exact H. now apply N_ascii_embedding. Qed.

Lemma Nbyte_eq n c : n = byteN c -> Nbyte n = c.
Proof. intros ->. apply Nbyte_byteN. Qed.

(** arithmetic of the 2-, 3- and 4-byte forms *)
Lemma enc2_arith b0 b1 : 194 <= b0 <= 223 -> 128 <= b1 <= 191 ->
  let r := (b0 mod 32) * 64 + b1 mod 64 in
  128 <= r < 2048 /\ 192 + r / 64 = b0 /\ 128 + r mod 64 = b1.
Proof. intros H0 H1 r. subst r. lia. Qed.

Lemma enc3_arith b0 b1 b2 lo hi : 224 <= b0 <= 239 -> 128 <= lo -> hi <= 191 ->
  (b0 = 224 -> lo = 160) -> (b0 = 237 -> hi = 159) -> lo <= b1 <= hi -> 128 <= b2 <= 191 ->
  let r := (b0 mod 16) * 4096 + (b1 mod 64) * 64 + b2 mod 64 in
  2048 <= r < 65536 /\ ~ (55296 <= r <= 57343) /\
  224 + r / 4096 = b0 /\ 128 + (r / 64) mod 64 = b1 /\ 128 + r mod 64 = b2.
Proof.
  intros H0 Hlo Hhi E0 ED H1 H2 r.
  assert (M0 : b0 mod 16 = b0 - 224) by lia.
  assert (M1 : b1 mod 64 = b1 - 128) by lia.
  assert (M2 : b2 mod 64 = b2 - 128) by lia.
  subst r. rewrite M0, M1, M2. clear M0 M1 M2.
  set (a0 := b0 - 224). set (a1 := b1 - 128). set (a2 := b2 - 128).
  assert (A0 : a0 <= 15 /\ b0 = a0 + 224) by lia.
  assert (A1 : a1 < 64 /\ b1 = a1 + 128) by lia.
  assert (A2 : a2 < 64 /\ b2 = a2 + 128) by lia.
  assert (L : (a0 = 0 -> 32 <= a1) /\ (a0 = 13 -> a1 <= 31)) by lia.
  clearbody a0 a1 a2. destruct A0 as [A0 ->], A1 as [A1 ->], A2 as [A2 ->].
  clear H0 H1 H2 E0 ED Hlo Hhi.
  repeat split; try lia.
Qed.

Lemma enc4_arith b0 b1 b2 b3 lo hi : 240 <= b0 <= 244 -> 128 <= lo -> hi <= 191 ->
  (b0 = 240 -> lo = 144) -> (b0 = 244 -> hi = 143) -> lo <= b1 <= hi -> 128 <= b2 <= 191 -> 128 <= b3 <= 191 ->
  let r := (b0 mod 8) * 262144 + (b1 mod 64) * 4096 + (b2 mod 64) * 64 + b3 mod 64 in
  65536 <= r <= 1114111 /\
  240 + r / 262144 = b0 /\ 128 + (r / 4096) mod 64 = b1 /\ 128 + (r / 64) mod 64 = b2 /\ 128 + r mod 64 = b3.
Proof.
  intros H0 Hlo Hhi E0 E4 H1 H2 H3 r.
  assert (M0 : b0 mod 8 = b0 - 240) by lia.
  assert (M1 : b1 mod 64 = b1 - 128) by lia.
  assert (M2 : b2 mod 64 = b2 - 128) by lia.
  assert (M3 : b3 mod 64 = b3 - 128) by lia.
  subst r. rewrite M0, M1, M2, M3. clear M0 M1 M2 M3.
  set (a0 := b0 - 240). set (a1 := b1 - 128). set (a2 := b2 - 128). set (a3 := b3 - 128).
  assert (A0 : a0 <= 4 /\ b0 = a0 + 240) by lia.
  assert (A1 : a1 < 64 /\ b1 = a1 + 128) by lia.
  assert (A2 : a2 < 64 /\ b2 = a2 + 128) by lia.
  assert (A3 : a3 < 64 /\ b3 = a3 + 128) by lia.
  assert (L : (a0 = 0 -> 16 <= a1) /\ (a0 = 4 -> a1 <= 15)) by lia.
  clearbody a0 a1 a2 a3. destruct A0 as [A0 ->], A1 as [A1 ->], A2 as [A2 ->], A3 as [A3 ->].
  clear H0 H1 H2 H3 E0 E4 Hlo Hhi.
  repeat split; try lia.
Qed.

(** ** lead_info *)
Lemma lead_info_spec b0 sz lo hi : lead_info b0 = Some (sz, lo, hi) ->
  128 <= lo /\ hi <= 191 /\
  ((sz = 2%nat /\ 194 <= b0 <= 223 /\ lo = 128 /\ hi = 191) \/
   (sz = 3%nat /\ 224 <= b0 <= 239 /\ (b0 = 224 -> lo = 160) /\ (b0 = 237 -> hi = 159)) \/
   (sz = 4%nat /\ 240 <= b0 <= 244 /\ (b0 = 240 -> lo = 144) /\ (b0 = 244 -> hi = 143))).
Proof.
  unfold lead_info.
  repeat match goal with |- context [if ?c then _ else _] => destruct c eqn:? end;
    intros [= <- <- <-] || discriminate; lia.
Qed.

(** ** chunks: the bytes of one well-formed rune *)

Definition all_high (ch : bytes) : Prop := Forall (fun c => 128 <= byteN c) ch.

(** [ch] is the encoding of [r] as Go decodes it, whatever follows *)
Record rune_chunk (ch : bytes) (r : N) : Prop := {
  rc_dec : forall t, dec_rune (ch ++ t) = (r, length ch);
  rc_enc : enc_rune r = ch;
  rc_noerr : dec_is_error (r, length ch) = false;
  rc_shape : (exists c, ch = [c] /\ byteN c < 128 /\ r = byteN c) \/
             (all_high ch /\ 128 <= r /\ (2 <= length ch)%nat)
}.

Lemma is_cont_spec b : is_cont b = true <-> 128 <= b <= 191.
Proof. unfold is_cont. lia. Qed.

Lemma enc_rune_1 r c : r = byteN c -> r < 128 -> enc_rune r = [c].
Proof. intros -> H. unfold enc_rune. replace (byteN c <? 128) with true by lia. now rewrite Nbyte_byteN. Qed.

Lemma enc_rune_2 r c c1 : 128 <= r < 2048 -> 192 + r / 64 = byteN c -> 128 + r mod 64 = byteN c1 ->
  enc_rune r = [c; c1].
Proof.
  intros H Q0 Q1. unfold enc_rune. rewrite Q0, Q1, !Nbyte_byteN.
  replace (r <? 128) with false by lia. replace (r <? 2048) with true by lia. reflexivity.
Qed.

Lemma enc_rune_3 r c c1 c2 : 2048 <= r < 65536 -> ~ (55296 <= r <= 57343) ->
  224 + r / 4096 = byteN c -> 128 + (r / 64) mod 64 = byteN c1 -> 128 + r mod 64 = byteN c2 ->
  enc_rune r = [c; c1; c2].
Proof.
  intros H NS Q0 Q1 Q2. unfold enc_rune, is_surrogate. rewrite Q0, Q1, Q2, !Nbyte_byteN.
  replace (r <? 128) with false by lia. replace (r <? 2048) with false by lia.
  replace ((1114111 <? r) || (55296 <=? r) && (r <=? 57343)) with false by lia.
  replace (r <? 65536) with true by lia. reflexivity.
Qed.

Lemma enc_rune_4 r c c1 c2 c3 : 65536 <= r <= 1114111 ->
  240 + r / 262144 = byteN c -> 128 + (r / 4096) mod 64 = byteN c1 -> 128 + (r / 64) mod 64 = byteN c2 ->
  128 + r mod 64 = byteN c3 -> enc_rune r = [c; c1; c2; c3].
Proof.
  intros H Q0 Q1 Q2 Q3. unfold enc_rune, is_surrogate. rewrite Q0, Q1, Q2, Q3, !Nbyte_byteN.
  replace (r <? 128) with false by lia. replace (r <? 2048) with false by lia.
  replace ((1114111 <? r) || (55296 <=? r) && (r <=? 57343)) with false by lia.
  replace (r <? 65536) with false by lia. reflexivity.
Qed.

Lemma dec_rune_chunk c s' :
  dec_is_error (dec_rune (c :: s')) = false ->
  exists ch t, c :: s' = ch ++ t /\ rune_chunk ch (fst (dec_rune (c :: s'))) /\
               length ch = snd (dec_rune (c :: s')).
Proof.
  intros NE.
  assert (B0 := byteN_lt c).
  unfold dec_rune in *. cbv zeta in *.
  destruct (byteN c <? 128) eqn:Easc.
  { (* ASCII *)
    exists [c], s'. cbn [fst snd length app]. split; [reflexivity|]. split; [|reflexivity].
    constructor.
    - intros t. cbn [app]. unfold dec_rune. cbv zeta. now rewrite Easc.
    - apply enc_rune_1; [reflexivity|lia].
    - unfold dec_is_error. cbn [fst snd]. unfold rune_error. lia.
    - left. exists c. split; [reflexivity|]. split; [lia|reflexivity]. }
  destruct (lead_info (byteN c)) as [[[sz lo] hi]|] eqn:EL; [|discriminate NE].
  assert (EL' := EL).
  apply lead_info_spec in EL'. destruct EL' as (Hlo & Hhi & EL').
  destruct s' as [|c1 s2]; [discriminate NE|].
  assert (B1 := byteN_lt c1).
  destruct ((byteN c1 <? lo) || (hi <? byteN c1)) eqn:E1; [discriminate NE|].
  destruct EL' as [(-> & R0 & -> & ->)|[(-> & R0 & X0 & XD)|(-> & R0 & X0 & X4)]].
  - (* two bytes *)
    cbn [Nat.eqb] in *. cbn [fst snd] in *.
    destruct (enc2_arith (byteN c) (byteN c1)) as (Rr & Q0 & Q1); [lia|lia|]. cbv zeta in *.
    exists [c; c1], s2. split; [reflexivity|]. split; [|reflexivity].
    clear NE. set (r := byteN c mod 32 * 64 + byteN c1 mod 64) in *.
    constructor.
    + intros t. cbn [app length]. unfold dec_rune. cbv zeta. rewrite Easc, EL, E1. reflexivity.
    + clearbody r. now apply enc_rune_2.
    + unfold dec_is_error. cbn [snd length Nat.eqb]. apply andb_false_r.
    + clearbody r. right. repeat split; [repeat constructor; lia| lia | cbn; lia].
  - (* three bytes *)
    cbn [Nat.eqb] in *.
    destruct s2 as [|c2 s3]; [discriminate NE|].
    assert (B2 := byteN_lt c2).
    destruct (is_cont (byteN c2)) eqn:E2; cbn [negb] in *; [|discriminate NE].
    assert (E2' := E2). apply is_cont_spec in E2'. cbn [fst snd] in *.
    destruct (enc3_arith (byteN c) (byteN c1) (byteN c2) lo hi) as (Rr & NS & Q0 & Q1 & Q2); try lia.
    cbv zeta in *.
    exists [c; c1; c2], s3. split; [reflexivity|]. split; [|reflexivity].
    clear NE. set (r := byteN c mod 16 * 4096 + byteN c1 mod 64 * 64 + byteN c2 mod 64) in *.
    constructor.
    + intros t. cbn [app length]. unfold dec_rune. cbv zeta. rewrite Easc, EL, E1, E2. reflexivity.
    + clearbody r. now apply enc_rune_3.
    + unfold dec_is_error. cbn [snd length Nat.eqb]. apply andb_false_r.
    + clearbody r. right. repeat split; [repeat constructor; lia| lia | cbn; lia].
  - (* four bytes *)
    cbn [Nat.eqb] in *.
    destruct s2 as [|c2 s3]; [discriminate NE|].
    assert (B2 := byteN_lt c2).
    destruct (is_cont (byteN c2)) eqn:E2; cbn [negb] in *; [|discriminate NE].
    assert (E2' := E2). apply is_cont_spec in E2'.
    destruct s3 as [|c3 s4]; [discriminate NE|].
    assert (B3 := byteN_lt c3).
    destruct (is_cont (byteN c3)) eqn:E3; cbn [negb] in *; [|discriminate NE].
    assert (E3' := E3). apply is_cont_spec in E3'. cbn [fst snd] in *.
    destruct (enc4_arith (byteN c) (byteN c1) (byteN c2) (byteN c3) lo hi) as (Rr & Q0 & Q1 & Q2 & Q3); try lia.
    cbv zeta in *.
    exists [c; c1; c2; c3], s4. split; [reflexivity|]. split; [|reflexivity].
    clear NE.
    set (r := byteN c mod 8 * 262144 + byteN c1 mod 64 * 4096 + byteN c2 mod 64 * 64 + byteN c3 mod 64) in *.
    constructor.
    + intros t. cbn [app length]. unfold dec_rune. cbv zeta. rewrite Easc, EL, E1, E2, E3. reflexivity.
    + clearbody r. now apply enc_rune_4.
    + unfold dec_is_error. cbn [snd length Nat.eqb]. apply andb_false_r.
    + clearbody r. right. repeat split; [repeat constructor; lia| lia | cbn; lia].
Qed.

(** a chunk is not empty, and an erroneous position is a non-ASCII byte *)
Lemma rune_chunk_len ch r : rune_chunk ch r -> (1 <= length ch)%nat.
Proof. intros [_ _ _ [(c & -> & _)|(_ & _ & H)]]; cbn; lia. Qed.

Lemma dec_error_high c s' : dec_is_error (dec_rune (c :: s')) = true -> 128 <= byteN c.
Proof.
  unfold dec_rune. cbv zeta. destruct (byteN c <? 128) eqn:E; [|lia].
  unfold dec_is_error, rune_error. cbn [fst snd]. lia.
Qed.

(** ** segmentation of an arbitrary byte string *)
Inductive segs : bytes -> Prop :=
| segs_nil : segs []
| segs_bad c t : dec_is_error (dec_rune (c :: t)) = true -> segs t -> segs (c :: t)
| segs_ok ch r t : rune_chunk ch r -> segs t -> segs (ch ++ t).

Lemma segs_all s : segs s.
Proof.
  remember (length s) as n eqn:L. revert s L.
  induction n as [n IH] using lt_wf_ind. intros s L.
  destruct s as [|c s']; [constructor|].
  destruct (dec_is_error (dec_rune (c :: s'))) eqn:E.
  - apply segs_bad; [exact E|]. apply (IH (length s')); cbn in L; [lia|reflexivity].
  - destruct (dec_rune_chunk c s' E) as (ch & t & Es & RC & _). rewrite Es.
    apply segs_ok with (r := fst (dec_rune (c :: s'))); [exact RC|].
    apply (IH (length t)); [|reflexivity].
    apply rune_chunk_len in RC. rewrite L, Es, app_length. lia.
Qed.

(** the head of [ch ++ t] for a chunk *)
Lemma rune_chunk_cons ch r : rune_chunk ch r -> exists c tl, ch = c :: tl /\ length tl = (length ch - 1)%nat.
Proof.
  intros RC. apply rune_chunk_len in RC. destruct ch as [|c tl]; cbn in *; [lia|].
  exists c, tl. split; [reflexivity|lia].
Qed.

(** ** skip-counter lemmas *)
Lemma valid_go_skip l t : valid_go (length l) (l ++ t) = valid_go 0 t.
Proof. induction l as [|c l IH]; [reflexivity|]. cbn [length app valid_go]. exact IH. Qed.

Lemma sanitize_go_skip l t : sanitize_go (length l) (l ++ t) = sanitize_go 0 t.
Proof. induction l as [|c l IH]; [reflexivity|]. cbn [length app sanitize_go]. exact IH. Qed.

Lemma firstn_chunk (ch t : bytes) : firstn (length ch) (ch ++ t) = ch.
Proof. rewrite firstn_app, Nat.sub_diag, firstn_all. cbn. apply app_nil_r. Qed.

Lemma valid_go_bad c t : dec_is_error (dec_rune (c :: t)) = true -> valid_go 0 (c :: t) = false.
Proof. intros E. cbn [valid_go]. now rewrite E. Qed.

Lemma valid_go_chunk ch r t : rune_chunk ch r -> valid_go 0 (ch ++ t) = valid_go 0 t.
Proof.
  intros RC. destruct (rune_chunk_cons ch r RC) as (c & tl & -> & Ltl).
  cbn [app valid_go]. change (c :: tl ++ t) with ((c :: tl) ++ t).
  rewrite (rc_dec _ _ RC), (rc_noerr _ _ RC). cbn [snd]. rewrite <- Ltl. apply valid_go_skip.
Qed.

Lemma sanitize_go_bad c t : dec_is_error (dec_rune (c :: t)) = true ->
  sanitize_go 0 (c :: t) = rune_error_bytes ++ sanitize_go 0 t.
Proof. intros E. cbn [sanitize_go]. now rewrite E. Qed.

Lemma sanitize_go_chunk ch r t : rune_chunk ch r -> sanitize_go 0 (ch ++ t) = ch ++ sanitize_go 0 t.
Proof.
  intros RC. destruct (rune_chunk_cons ch r RC) as (c & tl & -> & Ltl).
  cbn [app sanitize_go]. change (c :: tl ++ t) with ((c :: tl) ++ t).
  rewrite (rc_dec _ _ RC), (rc_noerr _ _ RC). cbn [snd]. rewrite firstn_chunk.
  cbn [app]. f_equal. f_equal. rewrite <- Ltl. apply sanitize_go_skip.
Qed.

(** sanitising a valid string changes nothing *)
Lemma sanitize_valid s : valid_utf8 s = true -> sanitize_utf8 s = s.
Proof.
  unfold valid_utf8, sanitize_utf8. induction (segs_all s) as [|c t E _ IH|ch r t RC _ IH]; intros V.
  - reflexivity.
  - rewrite valid_go_bad in V by exact E. discriminate.
  - rewrite (valid_go_chunk _ _ _ RC) in V. rewrite (sanitize_go_chunk _ _ _ RC), IH by exact V. reflexivity.
Qed.

(** the sanitised string is valid *)
Lemma rune_error_chunk : rune_chunk rune_error_bytes rune_error.
Proof.
  constructor.
  - intros t. reflexivity.
  - reflexivity.
  - reflexivity.
  - right. repeat split; [repeat constructor; vm_compute; discriminate|vm_compute; discriminate|cbn; lia].
Qed.

Lemma sanitize_is_valid s : valid_utf8 (sanitize_utf8 s) = true.
Proof.
  unfold valid_utf8, sanitize_utf8. induction (segs_all s) as [|c t E _ IH|ch r t RC _ IH].
  - reflexivity.
  - rewrite sanitize_go_bad by exact E. rewrite (valid_go_chunk _ _ _ rune_error_chunk). exact IH.
  - rewrite (sanitize_go_chunk _ _ _ RC), (valid_go_chunk _ _ _ RC). exact IH.
Qed.
