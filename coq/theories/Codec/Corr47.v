(** Correspondence cases of the `codec` family serving C47 (no panics): each constructor carries the inputs
    the real function was run on and the observed outcome class (0 ok, 1 err, 2 panic) plus parsed values;
    [check47] recomputes them with the Gallina models the C47 theorems are about. *)
From IBC Require Import Lib.Bytes Lib.BytesFacts Lib.Dec Lib.CorrLib Core.Height.
(** exported: the generated case files import only this module (tools/families/codec.py) *)
From IBC Require Export Codec.NoPanicBase Codec.NoPanicJson Codec.NoPanicMsgs.
Local Open Scope N_scope.

Definition cls_is {A} (r : res A) (c : N) : bool := cls r =? c.
(** class agrees and, when Ok, the value agrees with the observed one *)
Definition res_is {A} (eqb : A -> A -> bool) (r : res A) (c : N) (v : option A) : bool :=
  cls_is r c && match r, v with
                | Ok a, Some b => eqb a b
                | Ok _, None => false
                | _, _ => true
                end.
Definition c47_pair_eqb {A B} (ea : A -> A -> bool) (eb : B -> B -> bool) (x y : A * B) : bool :=
  ea (fst x) (fst y) && eb (snd x) (snd y).
Definition height_eqb (a b : Height) : bool := (rev a =? rev b) && (ht a =? ht b).
Definition hop_eqb (a b : Hop) : bool := bytes_eqb (hop_port a) (hop_port b) && bytes_eqb (hop_chan a) (hop_chan b).
Fixpoint fmd_eqb (a b : fmd) : bool :=
  match a, b with
  | FMD r p c rt n, FMD r' p' c' rt' n' =>
      bytes_eqb r r' && bytes_eqb p p' && bytes_eqb c c' && opt_eqb N.eqb rt rt' &&
      match n, n' with
      | None, None => true
      | Some x, Some y => fmd_eqb x y
      | _, _ => false
      end
  end.
Definition cb_eqb (a b : CallbackData) : bool :=
  bytes_eqb (cb_addr a) (cb_addr b) && (cb_exec_gas a =? cb_exec_gas b) &&
  (cb_commit_gas a =? cb_commit_gas b) && bytes_eqb (cb_calldata a) (cb_calldata b).

(** [c47_zeros n]: n NUL bytes (large packet data travels as its length) *)
Definition c47_zeros (n : N) : bytes := repeat (ascii_of_N 0) (N.to_nat n).

Inductive Case47 :=
| IdVal (which : N) (id : bytes) (c : N)
| ParseId (id pfx : bytes) (c : N) (v : option N)
| SeqParse (which : N) (id : bytes) (c : N) (v : option N)
| PathParse (which : N) (s : bytes) (c : N) (v : list bytes)
| HeightX (s : bytes) (c : N) (v : option Height)
| ChainId (s : bytes) (c : N) (v : option N)
| SetRev (s : bytes) (n : N) (c : N) (v : option bytes)
| ClientId (s : bytes) (c : N) (v : option (bytes * N)) (c2 : N) (valid : bool)
| ClientType (s : bytes) (c : N)
| DenomX (s : bytes) (c : N) (base : bytes) (trace : list Hop) (vc : N) (c3 : N) (hp : bool)
| Ftpd (denom : bytes) (amt : option Z) (sender receiver : bytes) (c : N)
| MsgTr (m : MsgTransfer) (c : N)
| Fwd (memo : bytes) (p : jparse) (c : N) (flag : bool) (v : option fmd) (vc : option N)
| Cb (provider : bool) (memo : bytes) (p : jparse) (remaining maxgas : N) (key : bytes) (c : N) (flag : bool)
     (v : option CallbackData)
| Ica (controller : bool) (found : option bytes) (hops : list bytes) (md : IcaMetadata) (c : N)
| AckV (r : AckResp) (c : N) (c2 : N) (succ : bool)
| MV1 (m : MsgV1) (c : N)
| MV2 (u : bytes) (m : MsgV2) (c : N)
| MC (m : MsgClient) (c : N)
| SoloMis (seq : N) (s1 s2 : option SigData) (c : N)
| Sample (c : N).

Definition check47 (c : Case47) : bool :=
  match c with
  | IdVal w id c =>
      cls_is (match w with
              | 0 => client_identifier_validator id
              | 1 => connection_identifier_validator id
              | 2 => channel_identifier_validator id
              | _ => port_identifier_validator id
              end) c
  | ParseId id pfx c v => res_is N.eqb (parse_identifier id pfx) c v
  | SeqParse w id c v =>
      res_is N.eqb (match w with 0 => parse_channel_sequence id | _ => parse_connection_sequence id end) c v
  | PathParse w s c v =>
      let r := match w with
               | 0 => do x <- must_parse_client_state_path s; Ok [x]
               | 1 => do x <- parse_connection_path s; Ok [x]
               | 2 => do x <- parse_channel_path s; Ok [fst x; snd x]
               | 3 => do x <- must_parse_connection_path s; Ok [x]
               | _ => do x <- must_parse_channel_path s; Ok [fst x; snd x]
               end in
      cls_is r c && match r with Ok l => list_eqb bytes_eqb l v | _ => true end
  | HeightX s c v => res_is height_eqb (parse_height_x s) c v
  | ChainId s c v => res_is N.eqb (parse_chain_id s) c v
  | SetRev s n c v => res_is bytes_eqb (set_revision_number s n) c v
  | ClientId s c v c2 valid =>
      res_is (c47_pair_eqb bytes_eqb N.eqb) (parse_client_identifier s) c v &&
      res_is bool_eqb (is_valid_client_id s) c2 (Some valid)
  | ClientType s c => cls_is (validate_client_type s) c
  | DenomX s c base trace vc c3 hp =>
      match extract_denom_from_path s with
      | Ok d => (c =? 0) && bytes_eqb (d_base d) base && list_eqb hop_eqb (d_trace d) trace &&
                cls_is (denom_validate d) vc &&
                res_is bool_eqb (denom_has_prefix d (B "transfer") (B "channel-1")) c3 (Some hp)
      | r => cls_is r c
      end
  | Ftpd d a s r c => cls_is (ftpd_validate_basic d a s r) c
  | MsgTr m c => cls_is (msg_transfer_validate_basic m) c
  | Fwd memo p c flag v vc =>
      let r := get_packet_metadata memo p in
      res_is fmd_eqb (fst r) c v && bool_eqb (snd r) flag &&
      match fst r, vc with
      | Ok md, Some k => cls_is (forward_metadata_validate md) k
      | Ok _, None => false
      | _, _ => true
      end
  | Cb prov memo p rem mx key c flag v =>
      let r := get_callback_data prov memo p rem mx key in
      res_is cb_eqb (fst r) c v && bool_eqb (snd r) flag
  | Ica ctrl found hops md c => cls_is (validate_ica_metadata ctrl (fun _ => found) hops md) c
  | AckV r c c2 succ => cls_is (ack_validate_basic r) c && (c2 =? 0) && bool_eqb (ack_success r) succ
  | MV1 m c => cls_is (msg_v1_validate_basic m) c
  | MV2 u m c => cls_is (msg_v2_validate_basic u m) c
  | MC m c => cls_is (msg_client_validate_basic m) c
  | SoloMis seq s1 s2 c => cls_is (solo_misbehaviour_validate_basic seq s1 s2) c
  | Sample c => negb (c =? 2)
  end.
