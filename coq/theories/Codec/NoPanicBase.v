(** C47 — models of identifier / height / denomination parsers and validators with Go's partial
    operations explicit.  Definitions only (executable under vm_compute); proofs in NoPanicBaseFacts.v.

    Convention: every Go function that can fail returns [res A]:
      [Ok a] (err == nil), [Err] (err != nil), [Panic] (run-time panic), [Fuel] (model ran out of fuel;
      excluded by explicit bound lemmas).  Slice indexing [x[i]], slicing [x[i:]], [x[:j]] are the partial
      functions [idx], [slice_from], [slice_to] below: out of range = [Panic], exactly as the Go run time. *)
From IBC Require Import Lib.Bytes Lib.Dec Core.Height.
Local Open Scope N_scope.

Inductive res (A : Type) := Ok (a : A) | Err | Panic | Fuel.
Arguments Ok {A} a.
Arguments Err {A}.
Arguments Panic {A}.
Arguments Fuel {A}.

Definition bind {A B} (r : res A) (f : A -> res B) : res B :=
  match r with Ok a => f a | Err => Err | Panic => Panic | Fuel => Fuel end.
Notation "'do' x <- r ; k" := (bind r (fun x => k)) (at level 200, x name, r at level 100, k at level 200).

(** outcome class, the projected observable compared with the implementation: 0 ok, 1 err, 2 panic, 3 fuel *)
Definition cls {A} (r : res A) : N :=
  match r with Ok _ => 0 | Err => 1 | Panic => 2 | Fuel => 3 end.

(** Go [x[i]] with an [int] index *)
Definition idx {A} (l : list A) (i : Z) : res A :=
  if (i <? 0)%Z then Panic
  else match nth_error l (Z.to_nat i) with Some a => Ok a | None => Panic end.
(** Go [x[i:]] *)
Definition slice_from {A} (l : list A) (i : Z) : res (list A) :=
  if (i <? 0)%Z || (Z.of_nat (length l) <? i)%Z then Panic else Ok (skipn (Z.to_nat i) l).
(** Go [x[:j]] *)
Definition slice_to {A} (l : list A) (j : Z) : res (list A) :=
  if (j <? 0)%Z || (Z.of_nat (length l) <? j)%Z then Panic else Ok (firstn (Z.to_nat j) l).
Definition zlen {A} (l : list A) : Z := Z.of_nat (length l).
Definition nlen {A} (l : list A) : N := N.of_nat (length l).

(** ------------------------------------------------------------------ strings.TrimSpace(s) == ""
    ASCII fast path: \t \n \v \f \r ' '; otherwise unicode.IsSpace on the UTF-8 decoding (U+0085, U+00A0,
    U+1680, U+2000..U+200A, U+2028, U+2029, U+202F, U+205F, U+3000).  Invalid UTF-8 decodes to RuneError,
    which is not a space. *)
Definition is_ascii_space (c : ascii) : bool :=
  let n := N_of_ascii c in ((9 <=? n) && (n <=? 13)) || (n =? 32).

Fixpoint go_blank (s : bytes) : bool :=
  match s with
  | [] => true
  | c :: s1 =>
      if is_ascii_space c then go_blank s1
      else
        let n := N_of_ascii c in
        if n =? 194 (* C2 *) then
          match s1 with
          | c2 :: s2 => let n2 := N_of_ascii c2 in ((n2 =? 133) || (n2 =? 160)) && go_blank s2
          | [] => false
          end
        else if n =? 225 (* E1 9A 80 *) then
          match s1 with
          | c2 :: c3 :: s3 => (N_of_ascii c2 =? 154) && (N_of_ascii c3 =? 128) && go_blank s3
          | _ => false
          end
        else if n =? 226 (* E2 80 80..8A / A8 / A9 / AF ; E2 81 9F *) then
          match s1 with
          | c2 :: c3 :: s3 =>
              let n2 := N_of_ascii c2 in let n3 := N_of_ascii c3 in
              (((n2 =? 128) && (((128 <=? n3) && (n3 <=? 138)) || (n3 =? 168) || (n3 =? 169) || (n3 =? 175)))
               || ((n2 =? 129) && (n3 =? 159))) && go_blank s3
          | _ => false
          end
        else if n =? 227 (* E3 80 80 *) then
          match s1 with
          | c2 :: c3 :: s3 => (N_of_ascii c2 =? 128) && (N_of_ascii c3 =? 128) && go_blank s3
          | _ => false
          end
        else false
  end.

(** ------------------------------------------------------------------ 24-host/validate.go *)
Definition is_one_of (set : bytes) (c : ascii) : bool := existsb (Ascii.eqb c) set.

(** IsValidID = ^[a-zA-Z0-9\.\_\+\-\#\[\]\<\>]+$ *)
Definition valid_id_char (c : ascii) : bool := is_alnum c || is_one_of (B "._+-#[]<>") c.
Definition is_valid_id (s : bytes) : bool :=
  match s with [] => false | _ => forallb valid_id_char s end.

(** defaultIdentifierValidator(id, min, max) *)
Definition default_identifier_validator (id : bytes) (minl maxl : N) : res unit :=
  if go_blank id then Err
  else if contains [slash] id then Err
  else if (nlen id <? minl) || (maxl <? nlen id) then Err
  else if negb (is_valid_id id) then Err
  else Ok tt.

Definition client_identifier_validator id := default_identifier_validator id 4 64.
Definition connection_identifier_validator id := default_identifier_validator id 10 64.
Definition channel_identifier_validator id := default_identifier_validator id 8 64.
Definition port_identifier_validator id := default_identifier_validator id 2 128.

(** ------------------------------------------------------------------ strings.Split(s, sep), sep non-empty
    (leftmost non-overlapping occurrences).  [skip] counts bytes of a matched separator still to drop. *)
Fixpoint split_go_aux (sep : bytes) (skip : nat) (cur : bytes) (s : bytes) : list bytes :=
  match s with
  | [] => [List.rev cur]
  | c :: s' =>
      match skip with
      | S k => split_go_aux sep k cur s'
      | O => if is_prefix sep s then List.rev cur :: split_go_aux sep (length sep - 1) [] s'
             else split_go_aux sep O (c :: cur) s'
      end
  end.
Definition split_go (sep s : bytes) : list bytes := split_go_aux sep O [] s.

(** ------------------------------------------------------------------ 24-host/parse.go *)
(** ParseIdentifier(identifier, prefix); prefix non-empty (all callers pass constants) *)
Definition parse_identifier (identifier pfx : bytes) : res N :=
  if negb (is_prefix pfx identifier) then Err
  else
    let splitStr := split_go pfx identifier in
    if negb (zlen splitStr =? 2)%Z then Err
    else
      do s0 <- idx splitStr 0;
      if negb (bytes_eqb s0 []) then Err
      else
        do s1 <- idx splitStr 1;
        match parse_uint64 s1 with Some n => Ok n | None => Err end.

(** parseClientStatePath: "clients/{id}/clientState" *)
Definition parse_client_state_path (path : bytes) : res bytes :=
  let split := split_on slash path in
  if negb (zlen split =? 3)%Z then Err
  else
    do s0 <- idx split 0;
    if negb (bytes_eqb s0 (B "clients")) then Err
    else
      do s2 <- idx split 2;
      if negb (bytes_eqb s2 (B "clientState")) then Err
      else
        do s1 <- idx split 1;
        if go_blank s1 then Err
        else
          do clientID <- idx split 1;
          Ok clientID.

(** Must*: [panic(err)] on error — panics BY DESIGN; C47 is stated for the non-Must functions. *)
Definition must {A} (r : res A) : res A :=
  match r with Err => Panic | x => x end.
Definition must_parse_client_state_path (path : bytes) : res bytes := must (parse_client_state_path path).

(** ParseConnectionPath *)
Definition parse_connection_path (path : bytes) : res bytes :=
  let split := split_on slash path in
  if negb (zlen split =? 2)%Z then Err
  else idx split 1.

(** ParseChannelPath *)
Definition parse_channel_path (path : bytes) : res (bytes * bytes) :=
  let split := split_on slash path in
  if (zlen split <? 5)%Z then Err
  else
    do s1 <- idx split 1;
    do s3 <- idx split 3;
    if negb (bytes_eqb s1 (B "ports")) || negb (bytes_eqb s3 (B "channels")) then Err
    else
      do portID <- idx split 2;
      do channelID <- idx split 4;
      Ok (portID, channelID).
Definition must_parse_connection_path p := must (parse_connection_path p).
Definition must_parse_channel_path p := must (parse_channel_path p).

(** ------------------------------------------------------------------ 02-client/types/height.go *)
(** ParseHeight, written with the indexing the Go code has (Core.Height.parse_height is the same function,
    see NoPanicBaseFacts.parse_height_x_eq) *)
Definition parse_height_x (s : bytes) : res Height :=
  let splitStr := split_on dash s in
  if negb (zlen splitStr =? 2)%Z then Err
  else
    do a <- idx splitStr 0;
    match parse_uint64 a with
    | None => Err
    | Some r =>
        do b <- idx splitStr 1;
        match parse_uint64 b with
        | None => Err
        | Some h => Ok (mkH r h)
        end
    end.

(** IsRevisionFormat = ^.*[^\n-]-{1}[1-9][0-9]*$  ('.' does not match '\n' in Go's default mode).
    A match is: s = P ++ [c] ++ "-" ++ D with D = [1-9][0-9]*, c not '\n' and not '-', P without '\n'.
    D contains no '-', so D is what follows the LAST '-'. *)
Definition nl : ascii := ascii_of_N 10.
(** split at the last occurrence of [sep]: (before, after) *)
Fixpoint cut_last_aux (sep : ascii) (s : bytes) : option (bytes * bytes) :=
  match s with
  | [] => None
  | c :: s' =>
      match cut_last_aux sep s' with
      | Some (a, b) => Some (c :: a, b)
      | None => if Ascii.eqb c sep then Some ([], s') else None
      end
  end.
Definition is_nonzero_digit (c : ascii) : bool := let n := N_of_ascii c in (49 <=? n) && (n <=? 57).
Definition is_revision_format (s : bytes) : bool :=
  match cut_last_aux dash s with
  | None => false
  | Some (p, d) =>
      match d with
      | d0 :: dr => is_nonzero_digit d0 && forallb is_digit dr
      | [] => false
      end &&
      match List.rev p with
      | c :: _ => negb (Ascii.eqb c nl) && negb (Ascii.eqb c dash)
      | [] => false
      end &&
      forallb (fun c => negb (Ascii.eqb c nl)) p
  end.

(** last element: Go [x[len(x)-1]] *)
Definition idx_last {A} (l : list A) : res A := idx l (zlen l - 1)%Z.

(** ParseChainID: returns 0 when not in revision format, and also (since the fix d71d2e9; before it this
    branch was an explicit [panic]) when ParseUint fails: the regex does not bound the number of digits, so a
    revision >= 2^64 gives a range error. *)
Definition parse_chain_id (chainID : bytes) : res N :=
  if negb (is_revision_format chainID) then Ok 0
  else
    let splitStr := split_on dash chainID in
    do lst <- idx_last splitStr;
    match parse_uint64 lst with
    | Some n => Ok n
    | None => Ok 0
    end.

(** SetRevisionNumber(chainID, revision) *)
Fixpoint set_last {A} (l : list A) (x : A) : list A :=
  match l with
  | [] => []
  | [_] => [x]
  | a :: l' => a :: set_last l' x
  end.
Definition set_revision_number (chainID : bytes) (revision : N) : res bytes :=
  if negb (is_revision_format chainID) then Err
  else
    let splitStr := split_on dash chainID in
    do _old <- idx_last splitStr;      (* the assignment splitStr[len-1] = ... indexes the same slot *)
    Ok (join_with dash (set_last splitStr (dec revision))).

(** ------------------------------------------------------------------ 02-client/types/keys.go *)
(** \w of RE2: [0-9A-Za-z_] *)
Definition is_word (c : ascii) : bool := is_alnum c || Ascii.eqb c "_"%char.
(** IsClientIDFormat = ^\w+([\w-]+\w)?-[0-9]{1,20}$ : the digits follow the last '-'; what precedes it is
    non-empty, over [\w-], and begins and ends with \w. *)
Definition is_client_id_format (s : bytes) : bool :=
  match cut_last_aux dash s with
  | None => false
  | Some (p, d) =>
      all_digits d && (nlen d <=? 20) &&
      match p with
      | c0 :: _ => is_word c0
      | [] => false
      end &&
      match List.rev p with
      | c :: _ => is_word c
      | [] => false
      end &&
      forallb (fun c => is_word c || Ascii.eqb c dash) p
  end.

Definition localhost_client_id : bytes := B "09-localhost".

(** ParseClientIdentifier *)
Definition parse_client_identifier (clientID : bytes) : res (bytes * N) :=
  if bytes_eqb clientID localhost_client_id then Ok (clientID, 0)
  else if negb (is_client_id_format clientID) then Err
  else
    let splitStr := split_on dash clientID in
    let lastIndex := (zlen splitStr - 1)%Z in
    do pre <- slice_to splitStr lastIndex;
    let clientType := join_with dash pre in
    if go_blank clientType then Err
    else
      do lst <- idx splitStr lastIndex;
      match parse_uint64 lst with
      | Some n => Ok (clientType, n)
      | None => Err
      end.

(** IsValidClientID: err == nil *)
Definition is_valid_client_id (clientID : bytes) : res bool :=
  match parse_client_identifier clientID with
  | Ok _ => Ok true | Err => Ok false | Panic => Panic | Fuel => Fuel
  end.
Definition must_parse_client_identifier c := must (parse_client_identifier c).

(** ------------------------------------------------------------------ 04-channel/types/keys.go, 03-connection/types/keys.go *)
(** ^<prefix>[0-9]{1,20}$ *)
Definition is_prefixed_seq_format (pfx s : bytes) : bool :=
  match strip_prefix pfx s with
  | Some d => all_digits d && (nlen d <=? 20)
  | None => false
  end.
Definition channel_prefix : bytes := B "channel-".
Definition connection_prefix : bytes := B "connection-".
Definition is_channel_id_format := is_prefixed_seq_format channel_prefix.
Definition is_connection_id_format := is_prefixed_seq_format connection_prefix.

Definition parse_channel_sequence (channelID : bytes) : res N :=
  if negb (is_channel_id_format channelID) then Err
  else parse_identifier channelID channel_prefix.
Definition parse_connection_sequence (connectionID : bytes) : res N :=
  if negb (is_connection_id_format connectionID) then Err
  else parse_identifier connectionID connection_prefix.
Definition is_valid_channel_id (channelID : bytes) : res bool :=
  match parse_channel_sequence channelID with
  | Ok _ => Ok true | Err => Ok false | Panic => Panic | Fuel => Fuel
  end.

(** ------------------------------------------------------------------ transfer/types/hop.go, denom.go *)
Record Hop := mkHop { hop_port : bytes; hop_chan : bytes }.
Record Denom := mkDenom { d_base : bytes; d_trace : list Hop }.

Definition hop_validate (h : Hop) : res unit :=
  do _ <- port_identifier_validator (hop_port h);
  channel_identifier_validator (hop_chan h).

Fixpoint hops_validate (t : list Hop) : res unit :=
  match t with
  | [] => Ok tt
  | h :: t' => do _ <- hop_validate h; hops_validate t'
  end.

(** Denom.Validate *)
Definition denom_validate (d : Denom) : res unit :=
  if go_blank (d_base d) then Err else hops_validate (d_trace d).

(** Denom.HasPrefix: d.Trace[0] behind the IsNative guard *)
Definition denom_has_prefix (d : Denom) (portID channelID : bytes) : res bool :=
  if (zlen (d_trace d) =? 0)%Z then Ok false
  else do h0 <- idx (d_trace d) 0;
       do h0' <- idx (d_trace d) 0;
       Ok (bytes_eqb (hop_port h0) portID && bytes_eqb (hop_chan h0') channelID).

(** ExtractDenomFromPath: the loop [for i := 0; i < length; i += 2] *)
Fixpoint extract_loop (fuel : nat) (denomSplit : list bytes) (i : Z) (trace : list Hop)
  : res (list Hop * list bytes) :=
  match fuel with
  | O => Fuel
  | S f =>
      let length := zlen denomSplit in
      if negb (i <? length)%Z then Ok (trace, [])        (* loop ends, baseDenomSlice stays nil *)
      else if (i <? length - 1)%Z && (2 <? length)%Z then
        do nxt <- idx denomSplit (i + 1);
        do isch <- is_valid_channel_id nxt;
        do iscl <- (if isch then Ok true else do nxt' <- idx denomSplit (i + 1); is_valid_client_id nxt');
        if iscl then
          do cur <- idx denomSplit i;
          do nxt2 <- idx denomSplit (i + 1);
          extract_loop f denomSplit (i + 2) (trace ++ [mkHop cur nxt2])
        else
          do b <- slice_from denomSplit i; Ok (trace, b)
      else
        do b <- slice_from denomSplit i; Ok (trace, b)
  end.

Definition extract_denom_from_path (fullPath : bytes) : res Denom :=
  let denomSplit := split_on slash fullPath in
  do s0 <- idx denomSplit 0;
  if bytes_eqb s0 fullPath then Ok (mkDenom fullPath [])
  else
    do tb <- extract_loop (S (length denomSplit)) denomSplit 0 [];
    Ok (mkDenom (join_with slash (snd tb)) (fst tb)).

(** ------------------------------------------------------------------ transfer/types/denom.go validateIBCDenom *)
(** sdk.ValidateDenom: ^[a-zA-Z][a-zA-Z0-9/:._-]{2,127}$ *)
Definition sdk_denom_char (c : ascii) : bool := is_alnum c || is_one_of (B "/:._-") c.
Definition sdk_validate_denom (s : bytes) : bool :=
  match s with
  | c :: r => is_alpha c && forallb sdk_denom_char r && (2 <=? nlen r) && (nlen r <=? 127)
  | [] => false
  end.

(** strings.SplitN(s, "/", 2) *)
Fixpoint cut_first (sep : ascii) (s : bytes) : option (bytes * bytes) :=
  match s with
  | [] => None
  | c :: s' => if Ascii.eqb c sep then Some ([], s')
               else match cut_first sep s' with Some (a, b) => Some (c :: a, b) | None => None end
  end.
Definition splitn2 (sep : ascii) (s : bytes) : list bytes :=
  match cut_first sep s with Some (a, b) => [a; b] | None => [s] end.

Definition is_hex_char (c : ascii) : bool :=
  match hex_digit_val c with Some _ => true | None => false end.
(** hex.DecodeString(s): error iff odd length or a non-hex character; the decoded length is len/2 *)
Definition hex_decode_ok (s : bytes) : bool := forallb is_hex_char s && (nlen s mod 2 =? 0).

(** ParseHexHash: hex decode, then cmttypes.ValidateHash (len 0 or 32) *)
Definition parse_hex_hash (s : bytes) : res bytes :=
  if negb (hex_decode_ok s) then Err
  else let h := unhex_l s in
       if (0 <? nlen h) && negb (nlen h =? 32) then Err else Ok h.

Definition denom_prefix : bytes := B "ibc".
Definition validate_ibc_denom (denom : bytes) : res unit :=
  if negb (sdk_validate_denom denom) then Err
  else
    let denomSplit := splitn2 slash denom in
    if bytes_eqb denom denom_prefix then Err
    else if (zlen denomSplit =? 2)%Z then
      do s0 <- idx denomSplit 0;
      if bytes_eqb s0 denom_prefix then
        do s1 <- idx denomSplit 1;
        if go_blank s1 then Err
        else
          do s1' <- idx denomSplit 1;
          do _ <- parse_hex_hash s1';
          Ok tt
      else Ok tt
    else Ok tt.

(** ------------------------------------------------------------------ transfer/types/packet.go, msgs.go *)
(** FungibleTokenPacketData.ValidateBasic.  [amount] is the result of sdkmath.NewIntFromString (library,
    not modelled): None = !ok, Some z = the integer. *)
Definition ftpd_validate_basic (denom : bytes) (amount : option Z) (sender receiver : bytes) : res unit :=
  match amount with
  | None => Err
  | Some z =>
      if negb (0 <? z)%Z then Err
      else if go_blank sender then Err
      else if go_blank receiver then Err
      else
        do d <- extract_denom_from_path denom;
        denom_validate d
  end.

(** sdkmath.Int has a nil *big.Int when zero-valued: Sign() on it dereferences nil. *)
Definition int_sign (a : option Z) : res Z :=
  match a with None => Panic | Some z => Ok (Z.sgn z) end.

(** sdk.Coin.Validate: denom regex, Amount.IsNil(), Amount.IsNegative() *)
Definition coin_validate (denom : bytes) (amount : option Z) : res unit :=
  if negb (sdk_validate_denom denom) then Err
  else match amount with
       | None => Err                                   (* coin.Amount.IsNil() *)
       | Some _ =>
           do sg <- int_sign amount;
           if (sg =? -1)%Z then Err else Ok tt
       end.

(** validateIBCCoin *)
Definition validate_ibc_coin (denom : bytes) (amount : option Z) : res unit :=
  do _ <- coin_validate denom amount;
  do sg <- int_sign amount;                           (* coin.IsPositive() *)
  if negb (sg =? 1)%Z then Err
  else
    match validate_ibc_denom denom with
    | Ok _ => Ok tt | Err => Err | Panic => Panic | Fuel => Fuel
    end.

Record MsgTransfer := mkMsgTransfer {
  mt_port : bytes; mt_chan : bytes; mt_denom : bytes; mt_amount : option Z;
  mt_sender : bytes; mt_receiver : bytes; mt_memo : bytes; mt_alias : bool }.

(** MsgTransfer.validateIdentifiers *)
Definition msg_transfer_validate_identifiers (m : MsgTransfer) : res unit :=
  do _ <- port_identifier_validator (mt_port m);
  if mt_alias m then
    do _ <- parse_channel_sequence (mt_chan m); Ok tt
  else channel_identifier_validator (mt_chan m).

(** MsgTransfer.ValidateBasic; isValidIBCCoin(x) = (validateIBCCoin(x) == nil) *)
Definition msg_transfer_validate_basic (m : MsgTransfer) : res unit :=
  do _ <- msg_transfer_validate_identifiers m;
  match validate_ibc_coin (mt_denom m) (mt_amount m) with
  | Panic => Panic | Fuel => Fuel
  | Err => Err                                        (* Wrap(ErrInvalidCoins, msg.Token.String()): String of a nil Int is "<nil>" *)
  | Ok _ =>
      if go_blank (mt_sender m) then Err
      else if go_blank (mt_receiver m) then Err
      else if (2048 <? nlen (mt_receiver m)) then Err
      else if (32768 <? nlen (mt_memo m)) then Err
      else Ok tt
  end.
