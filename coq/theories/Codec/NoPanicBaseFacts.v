(** C47 — proofs about Codec/NoPanicBase.v: no modelled parser/validator panics (nor runs out of fuel). *)
From IBC Require Import Lib.Bytes Lib.BytesFacts Lib.Dec Lib.DecFacts Core.Height Codec.NoPanicBase.
From Coq Require Import ZifyBool ZifyN ZifyNat.
Local Open Scope N_scope.

(** [safe r]: the call returned normally (value or error) — neither a Go panic nor model fuel exhaustion *)
Definition safe {A} (r : res A) : Prop :=
  match r with Ok _ | Err => True | Panic | Fuel => False end.

Lemma safe_not_panic {A} (r : res A) : safe r -> r <> Panic /\ r <> Fuel.
Proof. destruct r; cbn; intros H; try contradiction; split; discriminate. Qed.

Lemma safe_bind {A B} (r : res A) (f : A -> res B) :
  safe r -> (forall a, r = Ok a -> safe (f a)) -> safe (bind r f).
Proof. destruct r; cbn; intros Hr Hf; try contradiction; auto. Qed.

Lemma safe_ok {A} (a : A) : safe (Ok a). Proof. exact I. Qed.
Lemma safe_err {A} : safe (@Err A). Proof. exact I. Qed.
#[export] Hint Resolve safe_ok safe_err : np.

Lemma idx_in_range {A} (l : list A) i : (0 <= i < zlen l)%Z -> exists a, idx l i = Ok a.
Proof.
  unfold idx, zlen. intros [Hlo Hhi].
  destruct (i <? 0)%Z eqn:E; [lia|].
  destruct (nth_error l (Z.to_nat i)) eqn:N; [eauto|].
  apply nth_error_None in N. lia.
Qed.

Lemma idx_ok_in {A} (l : list A) i a : idx l i = Ok a -> In a l.
Proof.
  unfold idx. destruct (i <? 0)%Z; [discriminate|].
  destruct (nth_error l (Z.to_nat i)) eqn:N; [|discriminate].
  intros [= <-]. eapply nth_error_In; eauto.
Qed.

Lemma slice_from_in_range {A} (l : list A) i : (0 <= i <= zlen l)%Z -> exists r, slice_from l i = Ok r.
Proof.
  unfold slice_from, zlen. intros H.
  destruct ((i <? 0)%Z || (Z.of_nat (length l) <? i)%Z) eqn:E; [lia|eauto].
Qed.

Lemma slice_to_in_range {A} (l : list A) j : (0 <= j <= zlen l)%Z -> exists r, slice_to l j = Ok r.
Proof.
  unfold slice_to, zlen. intros H.
  destruct ((j <? 0)%Z || (Z.of_nat (length l) <? j)%Z) eqn:E; [lia|eauto].
Qed.

(** use: [idx_ok l i] when the goal mentions [idx l i] and the context bounds [zlen l] *)
Ltac idx_ok l i :=
  let a := fresh "a" in let H := fresh "Hidx" in
  destruct (idx_in_range l i) as [a H]; [try lia | rewrite H; cbn [bind]].

Ltac split_ifs :=
  repeat match goal with
         | |- context [if ?c then _ else _] => destruct c eqn:?
         end.

Lemma zlen_split_on_pos sep s : (1 <= zlen (split_on sep s))%Z.
Proof.
  unfold zlen. pose proof (split_on_nonempty sep s) as H.
  destruct (split_on sep s); [congruence | cbn [length]; lia].
Qed.

(** ---------------------------------------------------------------- 24-host *)
Lemma default_identifier_validator_safe id a b : safe (default_identifier_validator id a b).
Proof. unfold default_identifier_validator. split_ifs; exact I. Qed.

Lemma default_identifier_validator_ok id a b :
  default_identifier_validator id a b = Ok tt <->
  go_blank id = false /\ contains [slash] id = false /\ a <= nlen id /\ nlen id <= b /\ is_valid_id id = true.
Proof.
  unfold default_identifier_validator.
  destruct (go_blank id); [intuition discriminate|].
  destruct (contains [slash] id); [intuition discriminate|].
  destruct (nlen id <? a) eqn:E1; cbn [orb]; [intuition (try discriminate; lia)|].
  destruct (b <? nlen id) eqn:E2; [intuition (try discriminate; lia)|].
  destruct (is_valid_id id); cbn [negb]; intuition (try discriminate; lia).
Qed.

Lemma port_identifier_validator_safe id : safe (port_identifier_validator id).
Proof. apply default_identifier_validator_safe. Qed.
Lemma channel_identifier_validator_safe id : safe (channel_identifier_validator id).
Proof. apply default_identifier_validator_safe. Qed.
Lemma client_identifier_validator_safe id : safe (client_identifier_validator id).
Proof. apply default_identifier_validator_safe. Qed.
Lemma connection_identifier_validator_safe id : safe (connection_identifier_validator id).
Proof. apply default_identifier_validator_safe. Qed.
#[export] Hint Resolve default_identifier_validator_safe port_identifier_validator_safe
  channel_identifier_validator_safe client_identifier_validator_safe connection_identifier_validator_safe : np.

Lemma parse_identifier_safe id pfx : safe (parse_identifier id pfx).
Proof.
  unfold parse_identifier.
  destruct (is_prefix pfx id); cbn [negb]; [|exact I].
  destruct (Z.eqb_spec (zlen (split_go pfx id)) 2) as [E|E]; cbn [negb]; [|exact I].
  idx_ok (split_go pfx id) 0%Z.
  destruct (bytes_eqb a []); cbn [negb]; [|exact I].
  idx_ok (split_go pfx id) 1%Z.
  destruct (parse_uint64 a0); exact I.
Qed.

Lemma parse_identifier_bound id pfx n : parse_identifier id pfx = Ok n -> n < two64.
Proof.
  unfold parse_identifier.
  destruct (is_prefix pfx id); cbn [negb]; [|discriminate].
  destruct (negb _); [discriminate|].
  destruct (idx _ 0%Z); cbn [bind]; try discriminate.
  destruct (negb _); [discriminate|].
  destruct (idx _ 1%Z); cbn [bind]; try discriminate.
  destruct (parse_uint64 a0) eqn:P; [|discriminate].
  intros [= <-]. eapply parse_bound; eauto.
Qed.

Lemma parse_client_state_path_safe p : safe (parse_client_state_path p).
Proof.
  unfold parse_client_state_path.
  destruct (Z.eqb_spec (zlen (split_on slash p)) 3) as [E|E]; cbn [negb]; [|exact I].
  idx_ok (split_on slash p) 0%Z.
  destruct (bytes_eqb a _); cbn [negb]; [|exact I].
  idx_ok (split_on slash p) 2%Z.
  destruct (bytes_eqb a0 _); cbn [negb]; [|exact I].
  idx_ok (split_on slash p) 1%Z.
  destruct (go_blank a1); [exact I|]. exact I.
Qed.

Lemma parse_connection_path_safe p : safe (parse_connection_path p).
Proof.
  unfold parse_connection_path.
  destruct (Z.eqb_spec (zlen (split_on slash p)) 2) as [E|E]; cbn [negb]; [|exact I].
  destruct (idx_in_range (split_on slash p) 1%Z) as [a ->]; [lia|exact I].
Qed.

Lemma parse_channel_path_safe p : safe (parse_channel_path p).
Proof.
  unfold parse_channel_path.
  destruct (Z.ltb_spec (zlen (split_on slash p)) 5) as [E|E]; [exact I|].
  idx_ok (split_on slash p) 1%Z.
  idx_ok (split_on slash p) 3%Z.
  destruct (_ || _); [exact I|].
  idx_ok (split_on slash p) 2%Z.
  idx_ok (split_on slash p) 4%Z.
  exact I.
Qed.

(** Must* panic by design *)
Lemma must_parse_client_state_path_panics : must_parse_client_state_path [] = Panic.
Proof. vm_compute. reflexivity. Qed.
Lemma must_parse_connection_path_panics : must_parse_connection_path [] = Panic.
Proof. vm_compute. reflexivity. Qed.
Lemma must_parse_channel_path_panics : must_parse_channel_path [] = Panic.
Proof. vm_compute. reflexivity. Qed.
Lemma must_panics_iff {A} (r : res A) : safe r -> (must r = Panic <-> r = Err).
Proof. destruct r; cbn; intuition discriminate. Qed.

(** ---------------------------------------------------------------- heights *)
Lemma parse_height_x_eq s :
  parse_height_x s = match parse_height s with Some h => Ok h | None => Err end.
Proof.
  unfold parse_height_x, parse_height.
  destruct (split_on dash s) as [|a [|b [|c l]]]; try reflexivity.
  - change (negb (zlen [a; b] =? 2)%Z) with false. cbv iota.
    change (idx [a; b] 0%Z) with (Ok a). change (idx [a; b] 1%Z) with (Ok b). cbn [bind].
    destruct (parse_uint64 a); [|reflexivity]. destruct (parse_uint64 b); reflexivity.
  - replace (negb (zlen (a :: b :: c :: l) =? 2)%Z) with true; [reflexivity|].
    unfold zlen. cbn [length]. symmetry. apply negb_true_iff. lia.
Qed.

Lemma parse_height_x_safe s : safe (parse_height_x s).
Proof. rewrite parse_height_x_eq. destruct (parse_height s); exact I. Qed.

Lemma idx_last_split_on sep s : exists a, idx_last (split_on sep s) = Ok a.
Proof. unfold idx_last. apply idx_in_range. pose proof (zlen_split_on_pos sep s). lia. Qed.

(** ParseChainID: total; the former panic witness now parses to revision 0 *)
Definition chain_id_witness : bytes := B "a-18446744073709551616".
Lemma parse_chain_id_total c : exists n, parse_chain_id c = Ok n /\ n < two64.
Proof.
  unfold parse_chain_id.
  destruct (is_revision_format c); cbn [negb].
  - destruct (idx_last_split_on dash c) as [l ->]. cbn [bind].
    destruct (parse_uint64 l) eqn:P.
    + eexists; split; [reflexivity|]. eapply parse_bound; eauto.
    + eexists; split; [reflexivity|]. reflexivity.
  - eexists; split; [reflexivity|]. reflexivity.
Qed.
Lemma parse_chain_id_safe c : safe (parse_chain_id c).
Proof. destruct (parse_chain_id_total c) as [n [-> _]]. exact I. Qed.
Lemma parse_chain_id_not_revision c : is_revision_format c = false -> parse_chain_id c = Ok 0.
Proof. intros H. unfold parse_chain_id. rewrite H. reflexivity. Qed.
Lemma parse_chain_id_witness : parse_chain_id chain_id_witness = Ok 0 /\ is_revision_format chain_id_witness = true.
Proof. vm_compute. split; reflexivity. Qed.

Lemma set_revision_number_safe c r : safe (set_revision_number c r).
Proof.
  unfold set_revision_number.
  destruct (is_revision_format c); cbn [negb]; [|exact I].
  destruct (idx_last_split_on dash c) as [l ->]. exact I.
Qed.

(** ---------------------------------------------------------------- client / channel / connection ids *)
Lemma parse_client_identifier_safe c : safe (parse_client_identifier c).
Proof.
  unfold parse_client_identifier.
  destruct (bytes_eqb c localhost_client_id); [exact I|].
  destruct (is_client_id_format c); cbn [negb]; [|exact I].
  pose proof (zlen_split_on_pos dash c) as Hp.
  destruct (slice_to_in_range (split_on dash c) (zlen (split_on dash c) - 1)%Z) as [pre ->]; [lia|].
  cbn [bind].
  destruct (go_blank _); [exact I|].
  idx_ok (split_on dash c) (zlen (split_on dash c) - 1)%Z.
  destruct (parse_uint64 a); exact I.
Qed.

Lemma is_valid_client_id_total c : exists b, is_valid_client_id c = Ok b.
Proof.
  unfold is_valid_client_id. pose proof (parse_client_identifier_safe c) as H.
  destruct (parse_client_identifier c); cbn in H; try contradiction; eauto.
Qed.

Lemma parse_channel_sequence_safe c : safe (parse_channel_sequence c).
Proof. unfold parse_channel_sequence. destruct (negb _); [exact I|apply parse_identifier_safe]. Qed.
Lemma parse_connection_sequence_safe c : safe (parse_connection_sequence c).
Proof. unfold parse_connection_sequence. destruct (negb _); [exact I|apply parse_identifier_safe]. Qed.

Lemma is_valid_channel_id_total c : exists b, is_valid_channel_id c = Ok b.
Proof.
  unfold is_valid_channel_id. pose proof (parse_channel_sequence_safe c) as H.
  destruct (parse_channel_sequence c); cbn in H; try contradiction; eauto.
Qed.

(** ---------------------------------------------------------------- denominations *)
Lemma hop_validate_safe h : safe (hop_validate h).
Proof.
  unfold hop_validate. apply safe_bind; [apply port_identifier_validator_safe|].
  intros; apply channel_identifier_validator_safe.
Qed.

Lemma hops_validate_safe t : safe (hops_validate t).
Proof.
  induction t as [|h t IH]; [exact I|]. cbn [hops_validate].
  apply safe_bind; [apply hop_validate_safe|auto].
Qed.

Lemma denom_validate_safe d : safe (denom_validate d).
Proof. unfold denom_validate. destruct (go_blank _); [exact I|apply hops_validate_safe]. Qed.

Lemma denom_has_prefix_safe d p c : safe (denom_has_prefix d p c).
Proof.
  unfold denom_has_prefix.
  destruct (Z.eqb_spec (zlen (d_trace d)) 0) as [E|E]; [exact I|].
  assert (0 <= zlen (d_trace d))%Z by (unfold zlen; lia).
  idx_ok (d_trace d) 0%Z. exact I.
Qed.

Lemma extract_loop_total fuel sp i trace :
  (0 <= i <= zlen sp)%Z -> (zlen sp - i < 2 * Z.of_nat fuel)%Z ->
  exists tb, extract_loop fuel sp i trace = Ok tb.
Proof.
  revert i trace. induction fuel as [|f IH]; intros i trace Hi Hf.
  - exfalso. lia.
  - cbn [extract_loop].
    destruct (Z.ltb_spec i (zlen sp)) as [Hlt|Hge]; cbn [negb]; [|eauto].
    destruct (Z.ltb_spec i (zlen sp - 1)) as [Hlt1|Hge1]; cbn [andb].
    + destruct (2 <? zlen sp)%Z.
      * idx_ok sp (i + 1)%Z.
        destruct (is_valid_channel_id_total a) as [isch ->]. cbn [bind].
        assert (Hcl : exists b, (if isch then Ok true else is_valid_client_id a) = Ok b).
        { destruct isch; [eauto|apply is_valid_client_id_total]. }
        destruct Hcl as [iscl ->]. cbn [bind].
        destruct iscl.
        -- idx_ok sp i. apply IH; lia.
        -- destruct (slice_from_in_range sp i) as [b ->]; [lia|cbn [bind]; eauto].
      * destruct (slice_from_in_range sp i) as [b ->]; [lia|cbn [bind]; eauto].
    + destruct (slice_from_in_range sp i) as [b ->]; [lia|cbn [bind]; eauto].
Qed.

Lemma extract_denom_from_path_total p : exists d, extract_denom_from_path p = Ok d.
Proof.
  unfold extract_denom_from_path.
  pose proof (zlen_split_on_pos slash p) as Hp.
  idx_ok (split_on slash p) 0%Z.
  destruct (bytes_eqb a p); [eauto|].
  destruct (extract_loop_total (S (length (split_on slash p))) (split_on slash p) 0 []) as [tb ->].
  - lia.
  - unfold zlen. lia.
  - cbn [bind]. eauto.
Qed.

Lemma extract_denom_from_path_safe p : safe (extract_denom_from_path p).
Proof. destruct (extract_denom_from_path_total p) as [d ->]. exact I. Qed.

Lemma parse_hex_hash_safe s : safe (parse_hex_hash s).
Proof. unfold parse_hex_hash. split_ifs; exact I. Qed.

Lemma validate_ibc_denom_safe d : safe (validate_ibc_denom d).
Proof.
  unfold validate_ibc_denom.
  destruct (negb _); [exact I|].
  destruct (bytes_eqb d denom_prefix); [exact I|].
  destruct (Z.eqb_spec (zlen (splitn2 slash d)) 2) as [E|E]; [|exact I].
  idx_ok (splitn2 slash d) 0%Z.
  destruct (bytes_eqb a denom_prefix); [|exact I].
  idx_ok (splitn2 slash d) 1%Z.
  destruct (go_blank a0); [exact I|].
  try rewrite Hidx0. cbn [bind].
  apply safe_bind; [apply parse_hex_hash_safe|]. intros; exact I.
Qed.

(** ---------------------------------------------------------------- transfer messages *)
Lemma ftpd_validate_basic_safe d a s r : safe (ftpd_validate_basic d a s r).
Proof.
  unfold ftpd_validate_basic. destruct a as [z|]; [|exact I].
  split_ifs; try exact I.
  destruct (extract_denom_from_path_total d) as [dn ->]. cbn [bind]. apply denom_validate_safe.
Qed.

Lemma ftpd_validate_basic_ok d a s r :
  ftpd_validate_basic d a s r = Ok tt <->
  exists z dn, a = Some z /\ (0 < z)%Z /\ go_blank s = false /\ go_blank r = false /\
               extract_denom_from_path d = Ok dn /\ denom_validate dn = Ok tt.
Proof.
  unfold ftpd_validate_basic. destruct a as [z|].
  - destruct (Z.ltb_spec 0 z); cbn [negb].
    + destruct (go_blank s).
      { split; [discriminate|]. intros (?&?&?&?&?&?); discriminate. }
      destruct (go_blank r).
      { split; [discriminate|]. intros (?&?&?&?&?&?&?); discriminate. }
      destruct (extract_denom_from_path_total d) as [dn ->]. cbn [bind].
      split.
      * intros H'. exists z, dn. auto 10.
      * intros (z'&dn'&_&_&_&_&[= <-]&Hv). exact Hv.
    + split; [discriminate|]. intros (z'&?&[= <-]&?&_). lia.
  - split; [discriminate|]. intros (?&?&?&_). discriminate.
Qed.

Lemma coin_validate_safe d a : safe (coin_validate d a).
Proof.
  unfold coin_validate. destruct (negb _); [exact I|].
  destruct a as [z|]; [|exact I]. cbn. destruct (Z.sgn z =? -1)%Z; exact I.
Qed.

Lemma validate_ibc_coin_safe d a : safe (validate_ibc_coin d a).
Proof.
  unfold validate_ibc_coin.
  destruct a as [z|].
  - apply safe_bind; [apply coin_validate_safe|]. intros _ _. cbn [int_sign bind].
    destruct (negb _); [exact I|].
    pose proof (validate_ibc_denom_safe d) as H. destruct (validate_ibc_denom d); exact H || exact I.
  - (* nil amount: coin.Validate returns an error before Sign() is reached *)
    unfold coin_validate. destruct (negb _); exact I.
Qed.

Lemma msg_transfer_validate_identifiers_safe m : safe (msg_transfer_validate_identifiers m).
Proof.
  unfold msg_transfer_validate_identifiers.
  apply safe_bind; [apply port_identifier_validator_safe|]. intros _ _.
  destruct (mt_alias m).
  - apply safe_bind; [apply parse_channel_sequence_safe|]. intros; exact I.
  - apply channel_identifier_validator_safe.
Qed.

Lemma msg_transfer_validate_basic_safe m : safe (msg_transfer_validate_basic m).
Proof.
  unfold msg_transfer_validate_basic.
  apply safe_bind; [apply msg_transfer_validate_identifiers_safe|]. intros _ _.
  pose proof (validate_ibc_coin_safe (mt_denom m) (mt_amount m)) as H.
  destruct (validate_ibc_coin _ _); try exact H; try exact I.
  split_ifs; exact I.
Qed.

(** the nil-amount guard matters: Sign() of a nil amount is a panic in the model *)
Lemma int_sign_nil_panics : int_sign None = Panic.
Proof. reflexivity. Qed.

(** non-vacuity *)
Example base_nonvacuous :
  msg_transfer_validate_basic
    (mkMsgTransfer (B "transfer") (B "channel-0") (B "uatom") (Some 5%Z) (B "alice") (B "bob") [] false) = Ok tt /\
  msg_transfer_validate_basic
    (mkMsgTransfer (B "transfer") (B "channel-0") (B "uatom") None (B "alice") (B "bob") [] false) = Err /\
  ftpd_validate_basic (B "transfer/channel-3/uatom") (Some 7%Z) (B "a") (B "b") = Ok tt /\
  extract_denom_from_path (B "transfer/channel-3/gamm/pool/1") =
    Ok (mkDenom (B "gamm/pool/1") [mkHop (B "transfer") (B "channel-3")]) /\
  extract_denom_from_path (B "a/channel-1/b/07-tendermint-5") =
    Ok (mkDenom [] [mkHop (B "a") (B "channel-1"); mkHop (B "b") (B "07-tendermint-5")]) /\
  parse_identifier (B "channel-18446744073709551615") (B "channel-") = Ok 18446744073709551615 /\
  parse_identifier (B "channel-channel-1") (B "channel-") = Err /\
  parse_client_identifier (B "07-tendermint-42") = Ok (B "07-tendermint", 42) /\
  parse_chain_id (B "cosmoshub-4") = Ok 4 /\
  parse_chain_id (B "cosmoshub") = Ok 0.
Proof. vm_compute. repeat split; reflexivity. Qed.
