(** encoding/json.Marshal of transfertypes.FungibleTokenPacketData (go1.26.5, GOEXPERIMENT jsonv2 off):
    /repo/modules/apps/transfer/types/packet.go MarshalPacketData (EncodingJSON) and GetBytes call
    json.Marshal on the struct VALUE; packet.pb.go gives the five string fields the tags
    json:"denom,omitempty" "amount,omitempty" "sender,omitempty" "receiver,omitempty" "memo,omitempty".
    encoding/json/encode.go: structEncoder.encode (field order = declaration order, omitempty on
    len(s)==0, "{}" when nothing was written), stringEncoder -> appendString(dst, s, escapeHTML=true).
    Definitions only. *)
From IBC Require Import Lib.Bytes Codec.JsonUtf8.
Local Open Scope N_scope.

Record JFTPD := mkJFTPD { j_denom : bytes; j_amount : bytes; j_sender : bytes; j_receiver : bytes; j_memo : bytes }.

Definition dq : ascii := Nbyte 34.        (* double quote *)
Definition bsl : ascii := Nbyte 92.       (* backslash *)

(** encode.go appendString, the branch [b < utf8.RuneSelf]: bytes in htmlSafeSet are copied; the others
    (double quote, backslash, control bytes, '<', '>', '&') are escaped. *)
Definition esc_ascii (b : N) : bytes :=
  if (b =? 92) || (b =? 34) then [bsl; Nbyte b]
  else if b =? 8 then B "\b"
  else if b =? 12 then B "\f"
  else if b =? 10 then B "\n"
  else if b =? 13 then B "\r"
  else if b =? 9 then B "\t"
  else if (b <? 32) || (b =? 60) || (b =? 62) || (b =? 38)
       then B "\u00" ++ [hex_char_lower (b / 16); hex_char_lower (b mod 16)]
  else [Nbyte b].                          (* htmlSafeSet[b] (includes 0x7f) *)

(** appendString without the surrounding quotes.  [skip]: bytes of the current rune already handled. *)
Fixpoint esc_go (skip : nat) (s : bytes) : bytes :=
  match s with
  | [] => []
  | c :: s' =>
      match skip with
      | S k => esc_go k s'
      | O =>
          let b := byteN c in
          if b <? 128 then esc_ascii b ++ esc_go 0 s'
          else
            let d := dec_rune s in
            if dec_is_error d then B "\ufffd" ++ esc_go 0 s'                      (* invalid byte *)
            else if (fst d =? 8232) || (fst d =? 8233)                             (* U+2028, U+2029 *)
                 then B "\u202" ++ [hex_char_lower (fst d mod 16)] ++ esc_go (snd d - 1) s'
            else firstn (snd d) s ++ esc_go (snd d - 1) s'                         (* copied verbatim *)
      end
  end.

Definition json_string (s : bytes) : bytes := dq :: esc_go 0 s ++ [dq].

(** one struct field: nothing when empty (omitempty), else  "name":"value"  (quoted name, colon, string) *)
Definition enc_field (name : bytes) (v : bytes) : list bytes :=
  match v with
  | [] => []
  | _ => [dq :: name ++ dq :: Nbyte 58 :: json_string v]
  end.

(** structEncoder.encode: '{' before the first written field, ',' before the others, then '}' —
    or the literal "{}" when no field was written. *)
Definition json_marshal_ftpd (x : JFTPD) : bytes :=
  let fs := enc_field (B "denom") (j_denom x) ++ enc_field (B "amount") (j_amount x) ++
            enc_field (B "sender") (j_sender x) ++ enc_field (B "receiver") (j_receiver x) ++
            enc_field (B "memo") (j_memo x) in
  match fs with
  | [] => B "{}"
  | f :: fs' => Nbyte 123 :: f ++ concat (map (fun g => Nbyte 44 :: g) fs') ++ [Nbyte 125]
  end.
