(** Round-trip facts for the ABI model (Codec/Abi.v). *)
From Coq Require Import DecimalString DecimalN DecimalFacts Decimal DecimalPos.
From IBC Require Import Lib.Bytes Lib.BytesFacts Lib.Dec Lib.DecFacts Lib.BE64 Lib.BE64Facts Codec.Abi.
Local Open Scope N_scope.

(** * lists *)

Lemma skipn_len_app {A} (a x : list A) : skipn (length a) (a ++ x) = x.
Proof. induction a; simpl; auto. Qed.

Lemma firstn_len_app {A} (a x : list A) : firstn (length a) (a ++ x) = a.
Proof. induction a; simpl; f_equal; auto. Qed.

Lemma blen_app a b : blen (a ++ b) = blen a + blen b.
Proof. unfold blen. rewrite app_length. lia. Qed.

Lemma blen_nil : blen [] = 0.
Proof. reflexivity. Qed.

Lemma to_nat_blen a : N.to_nat (blen a) = length a.
Proof. unfold blen. apply Nat2N.id. Qed.

(** * words *)

Lemma pow256_32 : 256 ^ N.of_nat 32 = two256.
Proof. reflexivity. Qed.

Lemma blen_word n : blen (word n) = 32.
Proof. unfold blen, word. rewrite be_bytes_length. reflexivity. Qed.

Lemma length_word n : length (word n) = 32%nat.
Proof. apply be_bytes_length. Qed.

Lemma be_val_word n : n < two256 -> be_val (word n) 0 = n.
Proof.
  intros H. unfold word. rewrite be_val_be_bytes, pow256_32, N.mod_small by assumption. lia.
Qed.

Lemma two63_lt_two256 : two63 < two256.
Proof. reflexivity. Qed.

Lemma two64_lt_two256 : two64 < two256.
Proof. reflexivity. Qed.

Lemma read_word_eq out a w r :
  out = a ++ word w ++ r -> w < two256 -> read_word out (blen a) = Some w.
Proof.
  intros -> Hw. unfold read_word.
  rewrite !blen_app, blen_word.
  destruct (N.leb_spec (blen a + 32) (blen a + (32 + blen r))) as [_|H]; [|lia].
  rewrite to_nat_blen, skipn_len_app.
  rewrite <- (length_word w) at 1. rewrite firstn_len_app.
  now rewrite be_val_word.
Qed.

Lemma slice_eq out a b c : out = a ++ b ++ c -> slice out (blen a) (blen b) = b.
Proof.
  intros ->. unfold slice. rewrite !to_nat_blen, skipn_len_app, firstn_len_app. reflexivity.
Qed.

Lemma read_word_some out i n : read_word out i = Some n -> i + 32 <= blen out.
Proof.
  unfold read_word. destruct (N.leb_spec (i + 32) (blen out)); [auto|discriminate].
Qed.

(** * tuple encoding *)

Lemma blen_heads fs off : blen (heads fs off) = 32 * N.of_nat (length fs).
Proof.
  revert off; induction fs as [|[n|b] r IH]; intros off; cbn [heads length].
  - reflexivity.
  - rewrite blen_app, blen_word, IH. lia.
  - rewrite blen_app, blen_word, IH. lia.
Qed.

Lemma blen_enc_dyn b : blen (enc_dyn b) = 32 + blen b + N.of_nat (pad32 (length b)).
Proof.
  unfold enc_dyn. rewrite !blen_app, blen_word. unfold blen, zeros. rewrite repeat_length. lia.
Qed.

Definition fields_ok (ts : list fty) (fs : list fval) : Prop :=
  Forall2 (fun t v => fval_ty_ok t v = true) ts fs.

Lemma dec_fields_gen ts fs :
  fields_ok ts fs ->
  forall p q r off,
    off = blen p + 32 * N.of_nat (length fs) + blen q ->
    blen (p ++ heads fs off ++ q ++ tails fs ++ r) < two63 ->
    dec_fields ts (p ++ heads fs off ++ q ++ tails fs ++ r) (blen p) = Some fs.
Proof.
  induction 1 as [|t v ts fs Hok Hrest IH]; intros p q r off Hoff Hlen.
  - reflexivity.
  - cbn [dec_fields].
    destruct v as [n|b].
    + (* static word *)
      cbn [heads tails] in *. cbn [length] in Hoff.
      set (out := p ++ (word n ++ heads fs off) ++ q ++ tails fs ++ r) in *.
      assert (Hout : out = p ++ word n ++ (heads fs off ++ q ++ tails fs ++ r))
        by (unfold out; now rewrite <- !app_assoc).
      assert (Hout2 : out = (p ++ word n) ++ heads fs off ++ q ++ tails fs ++ r)
        by (unfold out; now rewrite <- !app_assoc).
      assert (Hn : n < two256 /\ (t = FU64 -> n < two64)).
      { destruct t; cbn in Hok; try discriminate.
        - apply N.ltb_lt in Hok. split; [auto|discriminate].
        - apply N.ltb_lt in Hok. split; [|auto]. pose proof two64_lt_two256. lia. }
      destruct Hn as [Hn Hn64].
      assert (Hrw : read_word out (blen p) = Some n) by (eapply read_word_eq; eauto).
      assert (Hf : dec_field t out (blen p) = Some (VWord n)).
      { destruct t; cbn [dec_field]; rewrite Hrw; auto.
        - specialize (Hn64 eq_refl). apply N.ltb_lt in Hn64. now rewrite Hn64.
        - cbn in Hok. discriminate. }
      rewrite Hf.
      replace (blen p + 32) with (blen (p ++ word n)) by (rewrite blen_app, blen_word; lia).
      rewrite Hout2. rewrite IH; auto.
      * rewrite blen_app, blen_word. rewrite Hoff. rewrite Nat2N.inj_succ. lia.
      * rewrite <- Hout2. exact Hlen.
    + (* dynamic field *)
      destruct t; cbn in Hok; try discriminate.
      cbn [heads tails] in *. cbn [length] in Hoff.
      set (off' := off + blen (enc_dyn b)) in *.
      set (out := p ++ (word off ++ heads fs off') ++ q ++ (enc_dyn b ++ tails fs) ++ r) in *.
      set (x := p ++ word off ++ heads fs off' ++ q).
      assert (Hx : blen x = off).
      { unfold x. rewrite !blen_app, blen_word, blen_heads. rewrite Hoff, Nat2N.inj_succ. lia. }
      assert (Hout1 : out = p ++ word off ++ (heads fs off' ++ q ++ (enc_dyn b ++ tails fs) ++ r))
        by (unfold out; now rewrite <- !app_assoc).
      assert (Hout2 : out = x ++ word (blen b) ++ (b ++ zeros (pad32 (length b)) ++ tails fs ++ r))
        by (unfold out, x, enc_dyn; now rewrite <- !app_assoc).
      assert (Hout3 : out = (x ++ word (blen b)) ++ b ++ (zeros (pad32 (length b)) ++ tails fs ++ r))
        by (rewrite Hout2; now rewrite <- !app_assoc).
      assert (Hout4 : out = (p ++ word off) ++ heads fs off' ++ (q ++ enc_dyn b) ++ tails fs ++ r)
        by (unfold out; now rewrite <- !app_assoc).
      assert (Hlo : blen out = off + 32 + blen b + blen (zeros (pad32 (length b)) ++ tails fs ++ r)).
      { rewrite Hout3. rewrite !blen_app, blen_word, Hx. lia. }
      pose proof two63_lt_two256 as H63.
      assert (Hrw1 : read_word out (blen p) = Some off).
      { eapply read_word_eq; eauto. lia. }
      assert (Hrw2 : read_word out off = Some (blen b)).
      { rewrite <- Hx. eapply read_word_eq; eauto. lia. }
      cbn [dec_field]. rewrite Hrw1.
      unfold length_prefix_points_to. rewrite Hrw1.
      destruct (N.ltb_spec (blen out) (off + 32)) as [Hc|_]; [lia|].
      destruct (N.leb_spec two63 (off + 32)) as [Hc|_]; [lia|].
      rewrite Hrw2.
      destruct (N.leb_spec two63 (off + 32 + blen b)) as [Hc|_]; [lia|].
      destruct (N.ltb_spec (blen out) (off + 32 + blen b)) as [Hc|_]; [lia|].
      replace (off + 32) with (blen (x ++ word (blen b))) by (rewrite blen_app, blen_word; lia).
      rewrite (slice_eq out _ b _ Hout3).
      replace (blen p + 32) with (blen (p ++ word off)) by (rewrite blen_app, blen_word; lia).
      rewrite Hout4. rewrite IH; auto.
      * rewrite !blen_app, blen_word. unfold off'. rewrite Hoff at 1. rewrite Nat2N.inj_succ. lia.
      * rewrite <- Hout4. exact Hlen.
Qed.

(** decoding the encoding of a tuple, possibly followed by arbitrary trailing bytes *)
Lemma dec_enc_tuple ts fs r :
  fields_ok ts fs -> blen (enc_tuple fs ++ r) < two63 ->
  dec_fields ts (enc_tuple fs ++ r) 0 = Some fs.
Proof.
  intros Hok Hlen. unfold enc_tuple in *.
  pose proof (dec_fields_gen ts fs Hok [] [] r (32 * N.of_nat (length fs))) as H.
  cbn [app] in H. rewrite blen_nil in H. rewrite <- app_assoc in *. apply H; [lia|exact Hlen].
Qed.

Lemma fields_ok_dyn ts fs : fields_ok ts fs -> existsb is_dyn_ty ts = existsb is_dyn_val fs.
Proof.
  induction 1 as [|t v ts fs Hok _ IH]; [reflexivity|].
  cbn [existsb]. rewrite IH. f_equal.
  destruct t, v; cbn in *; auto; discriminate.
Qed.

Lemma word_nonnil n : word n <> [].
Proof. intros H. apply (f_equal (@length _)) in H. rewrite length_word in H. discriminate. Qed.

(** Arguments{tuple}.Unpack (Arguments{tuple}.Pack x) = x *)
Theorem unpack_pack_tuple_arg ts fs :
  fields_ok ts fs -> fs <> [] -> blen (pack_tuple_arg fs) < two63 ->
  unpack_tuple_arg ts (pack_tuple_arg fs) = Some fs.
Proof.
  intros Hok Hne Hlen. unfold unpack_tuple_arg, pack_tuple_arg in *.
  rewrite (fields_ok_dyn _ _ Hok).
  destruct (existsb is_dyn_val fs) eqn:Hd.
  - destruct (word 32 ++ enc_tuple fs) eqn:E.
    { exfalso. destruct (word 32) eqn:W; [now apply (word_nonnil 32)|discriminate]. }
    rewrite <- E in *.
    assert (Hrw : read_word (word 32 ++ enc_tuple fs) 0 = Some 32).
    { change 0 with (blen []). eapply read_word_eq; [reflexivity|reflexivity]. }
    unfold tuple_points_to. rewrite Hrw.
    rewrite blen_app, blen_word in *.
    destruct (N.ltb_spec (32 + blen (enc_tuple fs)) 32) as [Hc|_]; [lia|].
    destruct (N.leb_spec two63 32) as [Hc|_]; [exfalso; apply Hc; reflexivity|].
    change (N.to_nat 32) with (length (word 32)). rewrite skipn_len_app.
    rewrite <- (app_nil_r (enc_tuple fs)). apply dec_enc_tuple; auto.
    rewrite app_nil_r. lia.
  - destruct fs as [|v fs']; [congruence|].
    destruct (enc_tuple (v :: fs')) eqn:E.
    { exfalso. unfold enc_tuple in E. destruct v; cbn [heads] in E.
      - destruct (word n) eqn:W; [now apply (word_nonnil n)|discriminate].
      - cbn in Hd. discriminate. }
    rewrite <- E in *.
    assert (Hr : exists w, read_word (enc_tuple (v :: fs')) 0 = Some w).
    { unfold read_word. unfold enc_tuple. rewrite blen_app, blen_heads. cbn [length].
      rewrite Nat2N.inj_succ.
      destruct (N.leb_spec (0 + 32) (32 * N.succ (N.of_nat (length fs')) + blen (tails (v :: fs')))); [eauto|lia]. }
    destruct Hr as [w Hr]. rewrite Hr.
    rewrite <- (app_nil_r (enc_tuple (v :: fs'))). apply dec_enc_tuple; auto.
    now rewrite app_nil_r.
Qed.

(** * decimal amounts *)

Lemma parse_dec_N_dec n : parse_dec_N (dec n) = Some n.
Proof.
  unfold parse_dec_N, dec.
  rewrite string_of_list_ascii_of_string.
  rewrite NilZero.usu by apply to_uint_nonnil.
  now rewrite DecimalN.Unsigned.of_to.
Qed.

Lemma dec_first_digit n : exists c r, dec n = c :: r /\ is_digit c = true.
Proof.
  pose proof (dec_digits n) as H. pose proof (dec_nonempty n) as Hne.
  destruct (dec n) as [|c r]; [congruence|].
  exists c, r. split; auto. cbn in H. now apply andb_prop in H.
Qed.

Lemma parse_bigint_dec n : parse_bigint (dec n) = Some (Z.of_N n).
Proof.
  destruct (dec_first_digit n) as (c & r & E & Hc).
  unfold parse_bigint. rewrite E.
  assert (Ascii.eqb c "+"%char = false) as ->.
  { apply Ascii.eqb_neq. intros ->. discriminate Hc. }
  assert (Ascii.eqb c "-"%char = false) as ->.
  { apply Ascii.eqb_neq. intros ->. discriminate Hc. }
  rewrite <- E, parse_dec_N_dec. reflexivity.
Qed.

(** * ICS-20 *)

Definition ftpd_fields (d : FTPD) (a : N) : list fval :=
  [VDyn (f_denom d); VDyn (f_sender d); VDyn (f_receiver d); VWord a; VDyn (f_memo d)].

Lemma ftpd_fields_ok d a : a < two256 -> fields_ok ics20_tys (ftpd_fields d a).
Proof.
  intros Ha. apply N.ltb_lt in Ha.
  repeat constructor; cbn; auto.
Qed.

(** Round trip with the amount compared as an integer: for every packet data whose amount string
    denotes an integer 0 <= z < 2^256, encoding succeeds and decoding returns the same denom, sender,
    receiver, memo and the canonical decimal of the same integer.  (The length hypothesis only says
    that the encoding fits a Go slice.) *)
Theorem abi_ftpd_roundtrip d z :
  parse_bigint (f_amount d) = Some z -> (0 <= z)%Z -> Z.to_N z < two256 ->
  forall bz, abi_encode_ftpd d = Some bz -> blen bz < two63 ->
  abi_decode_ftpd bz = Some (mkFTPD (f_denom d) (dec (Z.to_N z)) (f_sender d) (f_receiver d) (f_memo d)).
Proof.
  intros Hp Hz Hb bz He Hlen. unfold abi_encode_ftpd in He. rewrite Hp in He.
  destruct (Z.ltb_spec z 0) as [Hc|_]; [lia|]. injection He as <-.
  unfold abi_decode_ftpd.
  change ([VDyn (f_denom d); VDyn (f_sender d); VDyn (f_receiver d); VWord (Z.to_N z); VDyn (f_memo d)])
    with (ftpd_fields d (Z.to_N z)) in *.
  rewrite unpack_pack_tuple_arg; auto.
  - apply ftpd_fields_ok; auto.
  - discriminate.
Qed.

Theorem abi_ftpd_encode_defined d z :
  parse_bigint (f_amount d) = Some z -> (0 <= z)%Z -> exists bz, abi_encode_ftpd d = Some bz.
Proof.
  intros Hp Hz. unfold abi_encode_ftpd. rewrite Hp.
  destruct (Z.ltb_spec z 0) as [Hc|_]; [lia|]. eauto.
Qed.

(** With the amount in canonical decimal form the decoded value is the encoded value itself. *)
Theorem abi_ftpd_roundtrip_canonical den a s r m :
  a < two256 ->
  let d := mkFTPD den (dec a) s r m in
  exists bz, abi_encode_ftpd d = Some bz /\ (blen bz < two63 -> abi_decode_ftpd bz = Some d).
Proof.
  intros Ha d.
  assert (Hp : parse_bigint (f_amount d) = Some (Z.of_N a)) by apply parse_bigint_dec.
  destruct (abi_ftpd_encode_defined d _ Hp) as [bz Hbz]; [lia|].
  exists bz. split; auto. intros Hl.
  assert (E : Z.to_N (Z.of_N a) = a) by apply N2Z.id.
  rewrite (abi_ftpd_roundtrip d _ Hp) with (bz := bz); auto; try lia.
  rewrite E. reflexivity.
Qed.

(** Outside the 256-bit range the encoder silently truncates (packNum -> U256): the round trip fails. *)
Theorem abi_ftpd_roundtrip_out_of_range_refuted :
  exists d bz d', abi_encode_ftpd d = Some bz /\ abi_decode_ftpd bz = Some d' /\
                  parse_bigint (f_amount d) <> parse_bigint (f_amount d').
Proof.
  exists (mkFTPD (B "uatom") (dec two256) (B "a") (B "b") []).
  eexists. eexists. split; [vm_compute; reflexivity|]. split; [vm_compute; reflexivity|].
  vm_compute. discriminate.
Qed.

(** negative amounts and malformed amounts are refused by the encoder *)
Theorem abi_ftpd_encode_rejects d :
  (parse_bigint (f_amount d) = None \/ exists z, parse_bigint (f_amount d) = Some z /\ (z < 0)%Z) ->
  abi_encode_ftpd d = None.
Proof.
  unfold abi_encode_ftpd. intros [->|(z & -> & Hz)]; [reflexivity|].
  destruct (Z.ltb_spec z 0); [reflexivity|lia].
Qed.

(** * GMP *)

Definition gmp_fields (d : GMPData) : list fval :=
  [VDyn (g_sender d); VDyn (g_receiver d); VDyn (g_salt d); VDyn (g_payload d); VDyn (g_memo d)].

Theorem abi_gmp_roundtrip d :
  blen (abi_encode_gmp d) < two63 -> abi_decode_gmp (abi_encode_gmp d) = Some d.
Proof.
  intros Hlen. unfold abi_decode_gmp, abi_encode_gmp in *.
  change [VDyn (g_sender d); VDyn (g_receiver d); VDyn (g_salt d); VDyn (g_payload d); VDyn (g_memo d)]
    with (gmp_fields d) in *.
  rewrite unpack_pack_tuple_arg; auto.
  - destruct d; reflexivity.
  - repeat constructor.
  - discriminate.
Qed.

(** UnmarshalPacketData's "re-marshal must give the same bytes" accepts every honest encoding ... *)
Theorem gmp_unmarshal_abi_roundtrip d :
  blen (abi_encode_gmp d) < two63 -> gmp_unmarshal_abi (abi_encode_gmp d) = Some d.
Proof.
  intros Hlen. unfold gmp_unmarshal_abi. rewrite abi_gmp_roundtrip by assumption.
  now rewrite bytes_eqb_refl.
Qed.

(** ... and accepts only canonical encodings: whatever it accepts is the encoding of the result. *)
Theorem gmp_unmarshal_abi_canonical bz d : gmp_unmarshal_abi bz = Some d -> bz = abi_encode_gmp d.
Proof.
  unfold gmp_unmarshal_abi. destruct (abi_decode_gmp bz) as [d'|]; [|discriminate].
  destruct (bytes_eqb (abi_encode_gmp d') bz) eqn:E; [|discriminate].
  intros [= <-]. symmetry. now apply bytes_eqb_eq.
Qed.

Theorem abi_gmp_ack_roundtrip res :
  blen (abi_encode_gmp_ack res) < two63 ->
  abi_decode_gmp_ack (abi_encode_gmp_ack res) = Some res /\
  gmp_unmarshal_ack_abi (abi_encode_gmp_ack res) = Some res.
Proof.
  intros Hlen. unfold gmp_unmarshal_ack_abi.
  assert (H : abi_decode_gmp_ack (abi_encode_gmp_ack res) = Some res).
  { unfold abi_decode_gmp_ack, abi_encode_gmp_ack in *.
    rewrite unpack_pack_tuple_arg; auto.
    - repeat constructor.
    - discriminate. }
  rewrite H, bytes_eqb_refl. auto.
Qed.

Theorem gmp_unmarshal_ack_abi_canonical bz r : gmp_unmarshal_ack_abi bz = Some r -> bz = abi_encode_gmp_ack r.
Proof.
  unfold gmp_unmarshal_ack_abi. destruct (abi_decode_gmp_ack bz) as [r'|]; [|discriminate].
  destruct (bytes_eqb (abi_encode_gmp_ack r') bz) eqn:E; [|discriminate].
  intros [= <-]. symmetry. now apply bytes_eqb_eq.
Qed.

(** * attestations *)

Lemma read_word_in out i :
  i + 32 <= blen out -> read_word out i = Some (be_val (firstn 32 (skipn (N.to_nat i) out)) 0).
Proof.
  intros H. unfold read_word. destruct (N.leb_spec (i + 32) (blen out)); [reflexivity|lia].
Qed.

Lemma two64_val : two64 = 18446744073709551616.
Proof. reflexivity. Qed.
Lemma two63_val : two63 = 9223372036854775808.
Proof. reflexivity. Qed.

(** StateAttestation: the ABI form carries whole seconds, so the timestamp comes back truncated *)
Theorem abi_state_att_roundtrip h ts :
  h < two64 -> ts < two64 ->
  abi_decode_state_att (abi_encode_state_att h ts) = Some (h, ts - ts mod nanos_per_second).
Proof.
  intros Hh Hts. unfold abi_decode_state_att, abi_encode_state_att, unpack_args.
  assert (Hnz : nanos_per_second <> 0) by discriminate.
  pose proof (N.div_mod ts nanos_per_second Hnz) as Hdm.
  pose proof (N.mod_lt ts nanos_per_second Hnz) as Hm.
  remember (ts / nanos_per_second) as s eqn:Es. remember (ts mod nanos_per_second) as m eqn:Em. clear Es Em.
  assert (Hs : s < two64).
  { assert (nanos_per_second = 1000000000) by reflexivity. nia. }
  set (fs := [VWord h; VWord s]).
  assert (Hok : fields_ok [FU64; FU64] fs).
  { apply N.ltb_lt in Hh. apply N.ltb_lt in Hs. repeat constructor; cbn; auto. }
  assert (Hlen : blen (enc_tuple fs ++ []) < two63).
  { rewrite app_nil_r. unfold enc_tuple, fs. cbn [heads tails length]. rewrite !blen_app, !blen_word, blen_nil.
    rewrite two63_val. cbn. lia. }
  pose proof (dec_enc_tuple _ _ [] Hok Hlen) as Hd. rewrite app_nil_r in Hd.
  destruct (enc_tuple fs) eqn:E.
  { exfalso. unfold enc_tuple, fs in E. cbn [heads] in E.
    destruct (word h) eqn:W; [now apply (word_nonnil h)|discriminate]. }
  rewrite <- E in Hd |- *. rewrite Hd. unfold fs. f_equal. f_equal.
  rewrite N.mod_small; [lia|].
  assert (nanos_per_second = 1000000000) by reflexivity. nia.
Qed.

Theorem abi_state_att_roundtrip_seconds h ts :
  h < two64 -> ts < two64 -> ts mod nanos_per_second = 0 ->
  abi_decode_state_att (abi_encode_state_att h ts) = Some (h, ts).
Proof.
  intros Hh Hts Hz. rewrite abi_state_att_roundtrip by assumption. rewrite Hz. f_equal. f_equal. lia.
Qed.

(** sub-second timestamps do not survive the ABI form *)
Theorem abi_state_att_subsecond_refuted :
  exists h ts, h < two64 /\ ts < two64 /\ abi_decode_state_att (abi_encode_state_att h ts) <> Some (h, ts).
Proof. exists 7, 1500000000. split; [reflexivity|]. split; [reflexivity|]. vm_compute. discriminate. Qed.

Lemma length_zeros k : length (zeros k) = k.
Proof. apply repeat_length. Qed.

Lemma length_to_bytes32 b : length (to_bytes32 b) = 32%nat.
Proof. unfold to_bytes32. rewrite app_length, firstn_length, length_zeros. lia. Qed.

Lemma blen_to_bytes32 b : blen (to_bytes32 b) = 32.
Proof. unfold blen. now rewrite length_to_bytes32. Qed.

Lemma to_bytes32_id b : length b = 32%nat -> to_bytes32 b = b.
Proof.
  intros H. unfold to_bytes32. rewrite H. cbn [Nat.sub zeros repeat]. rewrite app_nil_r.
  rewrite <- H. apply firstn_all.
Qed.

Definition norm_packet (pc : bytes * bytes) : bytes * bytes := (to_bytes32 (fst pc), to_bytes32 (snd pc)).

Lemma blen_enc_packets ps : blen (enc_packets ps) = 64 * N.of_nat (length ps).
Proof.
  induction ps as [|[p c] ps IH]; [reflexivity|].
  cbn [enc_packets length]. rewrite !blen_app, !blen_to_bytes32, IH, Nat2N.inj_succ. lia.
Qed.

Lemma dec_enc_packets ps : forall pre,
  dec_packets (length ps) (pre ++ enc_packets ps) (blen pre) = Some (map norm_packet ps).
Proof.
  induction ps as [|[p c] ps IH]; intros pre; [reflexivity|].
  cbn [length dec_packets enc_packets map].
  assert (E : pre ++ to_bytes32 p ++ to_bytes32 c ++ enc_packets ps =
              (pre ++ to_bytes32 p ++ to_bytes32 c) ++ enc_packets ps) by now rewrite <- !app_assoc.
  remember (to_bytes32 p ++ to_bytes32 c ++ enc_packets ps) as rest eqn:Er.
  assert (Hrl : blen rest = 64 + blen (enc_packets ps)).
  { subst rest. rewrite !blen_app, !blen_to_bytes32. lia. }
  rewrite (read_word_in (pre ++ rest) (blen pre)) by (rewrite blen_app; lia).
  rewrite to_nat_blen, skipn_len_app.
  rewrite (read_word_in rest 0) by lia. rewrite (read_word_in rest 32) by lia.
  rewrite E.
  replace (blen pre + 64) with (blen (pre ++ to_bytes32 p ++ to_bytes32 c))
    by (rewrite !blen_app, !blen_to_bytes32; lia).
  rewrite IH. f_equal. f_equal. unfold norm_packet. cbn [fst snd]. f_equal.
  - change 0 with (blen []). rewrite <- (blen_to_bytes32 p).
    apply (slice_eq rest [] (to_bytes32 p) (to_bytes32 c ++ enc_packets ps)). subst rest. reflexivity.
  - rewrite <- (blen_to_bytes32 p) at 1. rewrite <- (blen_to_bytes32 c).
    apply (slice_eq rest (to_bytes32 p) (to_bytes32 c) (enc_packets ps)). subst rest. reflexivity.
Qed.

(** PacketAttestation: paths and commitments are bytes32 in the ABI form *)
Theorem abi_packet_att_roundtrip h ps :
  h < two64 -> blen (abi_encode_packet_att h ps) < two63 ->
  abi_decode_packet_att (abi_encode_packet_att h ps) = Some (h, map norm_packet ps).
Proof.
  intros Hh Hlen. unfold abi_decode_packet_att, abi_encode_packet_att in *.
  set (n := N.of_nat (length ps)) in *.
  set (out := word h ++ word 64 ++ word n ++ enc_packets ps) in *.
  assert (Hbl : blen out = 96 + 64 * n).
  { unfold out. rewrite !blen_app, !blen_word, blen_enc_packets. fold n. lia. }
  rewrite blen_app, blen_word in Hlen.
  pose proof two63_lt_two256 as H63. pose proof two64_lt_two256 as H64. pose proof two63_val as V63.
  destruct (word 32 ++ out) eqn:E.
  { exfalso. destruct (word 32) eqn:W; [now apply (word_nonnil 32)|discriminate]. }
  rewrite <- E. clear E.
  assert (Hr0 : read_word (word 32 ++ out) 0 = Some 32).
  { change 0 with (blen []). eapply read_word_eq; [reflexivity|reflexivity]. }
  unfold tuple_points_to. rewrite Hr0. rewrite blen_app, blen_word.
  destruct (N.ltb_spec (32 + blen out) 32) as [Hc|_]; [lia|].
  destruct (N.leb_spec two63 32) as [Hc|_]; [lia|].
  change (N.to_nat 32) with (length (word 32)). rewrite skipn_len_app.
  assert (Hw0 : read_word out 0 = Some h).
  { change 0 with (blen []). eapply read_word_eq; [reflexivity|lia]. }
  assert (Hw1 : read_word out 32 = Some 64).
  { rewrite <- (blen_word h). eapply read_word_eq; [reflexivity|reflexivity]. }
  assert (Hw2 : read_word out 64 = Some n).
  { replace 64 with (blen (word h ++ word 64)) by (rewrite blen_app, !blen_word; reflexivity).
    eapply read_word_eq; [unfold out; now rewrite <- !app_assoc|lia]. }
  cbn [dec_field]. rewrite Hw0.
  destruct (N.ltb_spec h two64) as [_|Hc]; [|lia].
  rewrite Hw1. unfold length_prefix_points_to. rewrite Hw1.
  destruct (N.ltb_spec (blen out) (64 + 32)) as [Hc|_]; [lia|].
  destruct (N.leb_spec two63 (64 + 32)) as [Hc|_]; [lia|].
  rewrite Hw2.
  destruct (N.leb_spec two63 (64 + 32 + n)) as [Hc|_]; [lia|].
  destruct (N.ltb_spec (blen out) (64 + 32 + n)) as [Hc|_]; [lia|].
  assert (Harr : skipn (N.to_nat (64 + 32)) out = enc_packets ps).
  { replace (64 + 32) with (blen (word h ++ word 64 ++ word n)) by (rewrite !blen_app, !blen_word; reflexivity).
    rewrite to_nat_blen. unfold out.
    replace (word h ++ word 64 ++ word n ++ enc_packets ps) with ((word h ++ word 64 ++ word n) ++ enc_packets ps)
      by now rewrite <- !app_assoc.
    apply skipn_len_app. }
  rewrite Harr, blen_enc_packets. fold n.
  destruct (N.ltb_spec (64 * n) (32 * n)) as [Hc|_]; [lia|].
  unfold n. rewrite Nat2N.id.
  pose proof (dec_enc_packets ps []) as Hd. cbn [app] in Hd. rewrite blen_nil in Hd. rewrite Hd. reflexivity.
Qed.

Theorem abi_packet_att_roundtrip_bytes32 h ps :
  h < two64 -> blen (abi_encode_packet_att h ps) < two63 ->
  Forall (fun pc => length (fst pc) = 32%nat /\ length (snd pc) = 32%nat) ps ->
  abi_decode_packet_att (abi_encode_packet_att h ps) = Some (h, ps).
Proof.
  intros Hh Hlen Hall. rewrite abi_packet_att_roundtrip by assumption.
  assert (E : map norm_packet ps = ps).
  { clear Hlen. induction ps as [|[p c] ps IH]; [reflexivity|].
    inversion Hall as [|? ? [Hp Hc] Hall']; subst. cbn [fst snd] in *.
    cbn [map]. rewrite IH by assumption. unfold norm_packet. cbn [fst snd].
    rewrite !to_bytes32_id by assumption. reflexivity. }
  now rewrite E.
Qed.

Theorem abi_packet_att_short_path_refuted :
  exists h ps, abi_decode_packet_att (abi_encode_packet_att h ps) <> Some (h, ps).
Proof. exists 1, [(B "ab", B "cd")]. vm_compute. discriminate. Qed.
