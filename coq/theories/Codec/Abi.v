(** Solidity ABI head/tail codec as implemented by go-ethereum v1.17.5 accounts/abi
    (argument.go Arguments.Pack/Unpack, type.go Type.pack, pack.go packElement/packNum/packBytesSlice,
    unpack.go toGoType/forTupleUnpack/forEachUnpack/lengthPrefixPointsTo/tuplePointsTo/ReadInteger)
    restricted to the shapes ibc-go uses:
      - a tuple whose fields are string/bytes (dynamic), uint256, uint64 or bytes32 (static words)
        [ICS-20 packet data, GMP packet data, GMP acknowledgement];
      - two plain uint64 arguments [state attestation];
      - a tuple (uint64, (bytes32,bytes32)[]) [packet attestation].
    Definitions only; proofs are in Codec/AbiFacts.v. *)
From Coq Require Import DecimalString DecimalN DecimalFacts Decimal.
From IBC Require Import Lib.Bytes Lib.Dec Lib.BE64.
Local Open Scope N_scope.

Definition two256 : N := 115792089237316195423570985008687907853269984665640564039457584007913129639936.
Definition two63 : N := 9223372036854775808.

Definition blen (s : bytes) : N := N.of_nat (length s).

(** math.U256Bytes / PaddedBigBytes(U256(n),32): the value mod 2^256 as 32 big-endian bytes
    ([be_bytes] already drops everything above byte 31). *)
Definition word (n : N) : bytes := be_bytes 32 n.

Definition zero_byte : ascii := ascii_of_N 0.
Definition zeros (k : nat) : bytes := repeat zero_byte k.

(** common.RightPadBytes(b, (l+31)/32*32): number of zero bytes added *)
Definition pad32 (l : nat) : nat := ((32 - l mod 32) mod 32)%nat.

(** packBytesSlice: length word, then the bytes right-padded to a multiple of 32 *)
Definition enc_dyn (b : bytes) : bytes := word (blen b) ++ b ++ zeros (pad32 (length b)).

(** field types / values of a flat tuple *)
Inductive fty := FU256 | FU64 | FDyn.
Inductive fval := VWord (n : N) | VDyn (b : bytes).

Definition fty_eqb (a b : fty) : bool :=
  match a, b with FU256, FU256 | FU64, FU64 | FDyn, FDyn => true | _, _ => false end.

Definition fval_eqb (a b : fval) : bool :=
  match a, b with
  | VWord x, VWord y => x =? y
  | VDyn x, VDyn y => bytes_eqb x y
  | _, _ => false
  end.

(** Type.pack, TupleTy case (and Arguments.Pack, which is the same loop over the arguments):
    heads carry the static words and, for dynamic fields, the offset of the field's tail counted from
    the start of the tuple encoding; tails are concatenated in field order. *)
Fixpoint heads (fs : list fval) (off : N) : bytes :=
  match fs with
  | [] => []
  | VWord n :: r => word n ++ heads r off
  | VDyn b :: r => word off ++ heads r (off + blen (enc_dyn b))
  end.

Fixpoint tails (fs : list fval) : bytes :=
  match fs with
  | [] => []
  | VWord _ :: r => tails r
  | VDyn b :: r => enc_dyn b ++ tails r
  end.

Definition enc_tuple (fs : list fval) : bytes :=
  heads fs (32 * N.of_nat (length fs)) ++ tails fs.

Definition is_dyn_val (v : fval) : bool := match v with VDyn _ => true | _ => false end.
Definition is_dyn_ty (t : fty) : bool := match t with FDyn => true | _ => false end.

(** Arguments{ {Type: tuple} }.Pack(struct): one argument; a dynamic tuple is referenced by the
    offset word 32, a static tuple is inlined. *)
Definition pack_tuple_arg (fs : list fval) : bytes :=
  if existsb is_dyn_val fs then word 32 ++ enc_tuple fs else enc_tuple fs.

(** ---------------------------------------------------------------------------------- decoding *)

(** toGoType: "if index+32 > len(output) -> error", then output[index:index+32] as a big-endian integer *)
Definition read_word (out : bytes) (i : N) : option N :=
  if i + 32 <=? blen out then Some (be_val (firstn 32 (skipn (N.to_nat i) out)) 0) else None.

Definition slice (out : bytes) (start len : N) : bytes :=
  firstn (N.to_nat len) (skipn (N.to_nat start) out).

(** lengthPrefixPointsTo(index, output): Some (start, length) or None (error), checks in code order *)
Definition length_prefix_points_to (out : bytes) (i : N) : option (N * N) :=
  match read_word out i with
  | None => None
  | Some off =>
      let off_end := off + 32 in
      if blen out <? off_end then None                  (* bigOffsetEnd.Cmp(outputLength) > 0 *)
      else if two63 <=? off_end then None               (* bigOffsetEnd.BitLen() > 63 *)
      else match read_word out off with                 (* output[offsetEnd-32 : offsetEnd] *)
           | None => None
           | Some len =>
               let total := off_end + len in
               if two63 <=? total then None             (* totalSize.BitLen() > 63 *)
               else if blen out <? total then None      (* totalSize.Cmp(outputLength) > 0 *)
               else Some (off_end, len)
           end
  end.

(** tuplePointsTo(index, output) *)
Definition tuple_points_to (out : bytes) (i : N) : option N :=
  match read_word out i with
  | None => None
  | Some off =>
      if blen out <? off then None
      else if two63 <=? off then None
      else Some off
  end.

(** toGoType for one field of a flat tuple at byte index i of [out] *)
Definition dec_field (t : fty) (out : bytes) (i : N) : option fval :=
  match t with
  | FU256 => match read_word out i with Some n => Some (VWord n) | None => None end
  | FU64 => match read_word out i with                      (* ReadInteger, Size 64: !IsUint64 -> errBadUint64 *)
            | Some n => if n <? two64 then Some (VWord n) else None
            | None => None
            end
  | FDyn => match read_word out i with
            | None => None
            | Some _ =>
                match length_prefix_points_to out i with
                | Some (start, len) => Some (VDyn (slice out start len))
                | None => None
                end
            end
  end.

(** forTupleUnpack / UnpackValues over static-word and dynamic fields: field k sits at byte 32*k *)
Fixpoint dec_fields (ts : list fty) (out : bytes) (i : N) : option (list fval) :=
  match ts with
  | [] => Some []
  | t :: r =>
      match dec_field t out i with
      | None => None
      | Some v =>
          match dec_fields r out (i + 32) with
          | None => None
          | Some vs => Some (v :: vs)
          end
      end
  end.

(** Arguments.Unpack(data) for plain arguments: empty data is an error when arguments are expected *)
Definition unpack_args (ts : list fty) (data : bytes) : option (list fval) :=
  match data with
  | [] => None
  | _ => dec_fields ts data 0
  end.

(** Arguments{ {Type: tuple} }.Unpack(data): toGoType(0, tuple, data) *)
Definition unpack_tuple_arg (ts : list fty) (data : bytes) : option (list fval) :=
  match data with
  | [] => None
  | _ =>
      if existsb is_dyn_ty ts then
        match tuple_points_to data 0 with
        | None => None
        | Some start => dec_fields ts (skipn (N.to_nat start) data) 0
        end
      else
        match read_word data 0 with          (* toGoType's own bound check before forTupleUnpack(output[index:]) *)
        | None => None
        | Some _ => dec_fields ts data 0
        end
  end.

Definition fval_ty_ok (t : fty) (v : fval) : bool :=
  match t, v with
  | FU256, VWord n => n <? two256
  | FU64, VWord n => n <? two64
  | FDyn, VDyn _ => true
  | _, _ => false
  end.

(** ------------------------------------------------------------------- decimal big integers *)

(** big.Int.SetString(s, 10): optional sign, at least one decimal digit, nothing else *)
Definition parse_dec_N (s : bytes) : option N :=
  match NilZero.uint_of_string (string_of_list_ascii s) with
  | Some d => Some (N.of_uint d)
  | None => None
  end.

Definition parse_bigint (s : bytes) : option Z :=
  match s with
  | [] => None
  | c :: r =>
      if Ascii.eqb c "+"%char then
        match parse_dec_N r with Some n => Some (Z.of_N n) | None => None end
      else if Ascii.eqb c "-"%char then
        match parse_dec_N r with Some n => Some (- Z.of_N n)%Z | None => None end
      else
        match parse_dec_N s with Some n => Some (Z.of_N n) | None => None end
  end.

(** ------------------------------------------------------------------------------- ICS-20 *)
(** transfer/types/solidity_abi.go *)

Record FTPD := mkFTPD { f_denom : bytes; f_amount : bytes; f_sender : bytes; f_receiver : bytes; f_memo : bytes }.

Definition ftpd_eqb (a b : FTPD) : bool :=
  bytes_eqb (f_denom a) (f_denom b) && bytes_eqb (f_amount a) (f_amount b) &&
  bytes_eqb (f_sender a) (f_sender b) && bytes_eqb (f_receiver a) (f_receiver b) &&
  bytes_eqb (f_memo a) (f_memo b).

(** getICS20ABI: (string denom, string sender, string receiver, uint256 amount, string memo) *)
Definition ics20_tys : list fty := [FDyn; FDyn; FDyn; FU256; FDyn].

(** EncodeABIFungibleTokenPacketData: amount through big.Int.SetString(_,10); a negative amount is
    rejected by packElement (errInvalidSign); packNum truncates to 256 bits (U256). *)
Definition abi_encode_ftpd (d : FTPD) : option bytes :=
  match parse_bigint (f_amount d) with
  | None => None
  | Some z =>
      if (z <? 0)%Z then None
      else Some (pack_tuple_arg [VDyn (f_denom d); VDyn (f_sender d); VDyn (f_receiver d);
                                 VWord (Z.to_N z); VDyn (f_memo d)])
  end.

(** DecodeABIFungibleTokenPacketData: Amount.String() is the canonical decimal *)
Definition abi_decode_ftpd (bz : bytes) : option FTPD :=
  match unpack_tuple_arg ics20_tys bz with
  | Some [VDyn d; VDyn s; VDyn r; VWord a; VDyn m] => Some (mkFTPD d (dec a) s r m)
  | _ => None
  end.

(** --------------------------------------------------------------------------------- GMP *)
(** 27-gmp/types/solidity_abi.go, packet.go, ack.go *)

Record GMPData := mkGMP { g_sender : bytes; g_receiver : bytes; g_salt : bytes; g_payload : bytes; g_memo : bytes }.

Definition gmp_eqb (a b : GMPData) : bool :=
  bytes_eqb (g_sender a) (g_sender b) && bytes_eqb (g_receiver a) (g_receiver b) &&
  bytes_eqb (g_salt a) (g_salt b) && bytes_eqb (g_payload a) (g_payload b) &&
  bytes_eqb (g_memo a) (g_memo b).

(** getICS27PacketABI: (string sender, string receiver, bytes salt, bytes payload, string memo) *)
Definition gmp_tys : list fty := [FDyn; FDyn; FDyn; FDyn; FDyn].

Definition abi_encode_gmp (d : GMPData) : bytes :=
  pack_tuple_arg [VDyn (g_sender d); VDyn (g_receiver d); VDyn (g_salt d); VDyn (g_payload d); VDyn (g_memo d)].

Definition abi_decode_gmp (bz : bytes) : option GMPData :=
  match unpack_tuple_arg gmp_tys bz with
  | Some [VDyn s; VDyn r; VDyn sa; VDyn p; VDyn m] => Some (mkGMP s r sa p m)
  | _ => None
  end.

(** UnmarshalPacketData(_, Version, EncodingABI): decode, then re-marshal and require identical bytes *)
Definition gmp_unmarshal_abi (bz : bytes) : option GMPData :=
  match abi_decode_gmp bz with
  | None => None
  | Some d => if bytes_eqb (abi_encode_gmp d) bz then Some d else None
  end.

(** getICS27AckABI: (bytes result) *)
Definition abi_encode_gmp_ack (res : bytes) : bytes := pack_tuple_arg [VDyn res].

Definition abi_decode_gmp_ack (bz : bytes) : option bytes :=
  match unpack_tuple_arg [FDyn] bz with
  | Some [VDyn r] => Some r
  | _ => None
  end.

Definition gmp_unmarshal_ack_abi (bz : bytes) : option bytes :=
  match abi_decode_gmp_ack bz with
  | None => None
  | Some r => if bytes_eqb (abi_encode_gmp_ack r) bz then Some r else None
  end.

(** ------------------------------------------------------------------------- attestations *)
(** light-clients/attestations/abi.go *)

Definition nanos_per_second : N := 1000000000.

(** StateAttestation.ABIEncode: stateAttestationArgs.Pack(height, timestamp / 1e9) *)
Definition abi_encode_state_att (height ts : N) : bytes :=
  enc_tuple [VWord height; VWord (ts / nanos_per_second)].

(** ABIDecodeStateAttestation: two uint64 words; timestampSeconds * 1e9 in uint64 arithmetic (wraps) *)
Definition abi_decode_state_att (bz : bytes) : option (N * N) :=
  match unpack_args [FU64; FU64] bz with
  | Some [VWord h; VWord s] => Some (h, (s * nanos_per_second) mod two64)
  | _ => None
  end.

(** bytesToBytes32: copy into a zeroed [32]byte (truncates / right-pads with zeros) *)
Definition to_bytes32 (b : bytes) : bytes :=
  firstn 32 b ++ zeros (32 - length b).

(** PacketAttestation.ABIEncode: Arguments{ tuple(uint64 height, tuple(bytes32,bytes32)[] packets) }:
    offset word 32; tuple head = height, offset 64; tail = element count, then the static
    (path, commitment) pairs inline. *)
Fixpoint enc_packets (ps : list (bytes * bytes)) : bytes :=
  match ps with
  | [] => []
  | (p, c) :: r => to_bytes32 p ++ to_bytes32 c ++ enc_packets r
  end.

Definition abi_encode_packet_att (height : N) (ps : list (bytes * bytes)) : bytes :=
  word 32 ++ word height ++ word 64 ++ word (N.of_nat (length ps)) ++ enc_packets ps.

(** forEachUnpack(t, output[begin:], 0, size) for elements that are static (bytes32,bytes32) tuples:
    elemSize = 64; each element: toGoType(i) bound check (i+32 <= len), then forTupleUnpack(output[i:])
    reads words 0 and 32 of the rest with their own bound checks. *)
Fixpoint dec_packets (k : nat) (out : bytes) (i : N) : option (list (bytes * bytes)) :=
  match k with
  | O => Some []
  | S k' =>
      match read_word out i with
      | None => None
      | Some _ =>
          let rest := skipn (N.to_nat i) out in
          match read_word rest 0, read_word rest 32 with
          | Some _, Some _ =>
              match dec_packets k' out (i + 64) with
              | Some ps => Some ((slice rest 0 32, slice rest 32 32) :: ps)
              | None => None
              end
          | _, _ => None
          end
      end
  end.

Definition abi_decode_packet_att (bz : bytes) : option (N * list (bytes * bytes)) :=
  match bz with
  | [] => None
  | _ =>
      match tuple_points_to bz 0 with
      | None => None
      | Some start =>
          let out := skipn (N.to_nat start) bz in
          match dec_field FU64 out 0 with
          | Some (VWord h) =>
              match read_word out 32 with
              | None => None
              | Some _ =>
                  match length_prefix_points_to out 32 with
                  | None => None
                  | Some (b, size) =>
                      let arr := skipn (N.to_nat b) out in
                      if blen arr <? 32 * size then None      (* forEachUnpack: start+32*size > len(output) *)
                      else match dec_packets (N.to_nat size) arr 0 with
                           | Some ps => Some (h, ps)
                           | None => None
                           end
                  end
              end
          | _ => None
          end
      end
  end.
