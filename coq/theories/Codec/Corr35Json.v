(** Correspondence cases of the `codec` family serving C35, JSON path (encoding/json of FungibleTokenPacketData). *)
From IBC Require Import Lib.Bytes Lib.BytesFacts Lib.Dec Lib.CorrLib.
(* exported: the generated case files import this module only *)
From IBC Require Export Codec.JsonUtf8 Codec.JsonEnc Codec.JsonDec.
Local Open Scope N_scope.

Definition jftpd_eqb (a b : JFTPD) : bool :=
  bytes_eqb (j_denom a) (j_denom b) && bytes_eqb (j_amount a) (j_amount b) &&
  bytes_eqb (j_sender a) (j_sender b) && bytes_eqb (j_receiver a) (j_receiver b) &&
  bytes_eqb (j_memo a) (j_memo b).

(** the model's outcome against the observed one; the model must commit (JOutOfFuel never matches) *)
Definition jres_eqb (m o : jres) : bool :=
  match m, o with
  | JOk a, JOk b => jftpd_eqb a b
  | JNil, JNil => true
  | JErr, JErr => true
  | JPanic, JPanic => true
  | _, _ => false
  end.

Definition nn_eqb (a b : N * N) : bool := (fst a =? fst b) && (snd a =? snd b).

Inductive Case35J :=
(** MarshalPacketData(x, V1, EncodingJSON) and x.GetBytes() both returned [bz] *)
| C35JEnc (x : JFTPD) (bz : bytes)
(** json.Unmarshal(bz, &data) with data = &FungibleTokenPacketData{} ended as [r] *)
| C35JDec (bz : bytes) (r : jres)
(** all runes r >= 0x80 whose fold.go foldRune(r) is < 0x80, as (r, foldRune r) in increasing order *)
| C35JFoldTab (l : list (N * N))
(** utf8.ValidString(s), and s with each invalid byte replaced by U+FFFD *)
| C35JUtf8 (s : bytes) (valid : bool) (san : bytes).

Definition check35j (c : Case35J) : bool :=
  match c with
  | C35JEnc x bz => bytes_eqb (json_marshal_ftpd x) bz
  | C35JDec bz r => jres_eqb (json_unmarshal_ftpd bz) r
  | C35JFoldTab l =>
      list_eqb nn_eqb l [(383, 83); (8490, 75)] &&
      (fold_rune 383 =? 83) && (fold_rune 8490 =? 75)
  | C35JUtf8 s valid san => bool_eqb (valid_utf8 s) valid && bytes_eqb (sanitize_utf8 s) san
  end.
