(** UTF-8 as Go's [unicode/utf8] decodes and encodes it (go1.26.5, src/unicode/utf8/utf8.go), the part
    encoding/json relies on: [utf8.DecodeRune]/[DecodeRuneInString], [utf8.EncodeRune]/[AppendRune],
    [utf8.Valid].  Definitions only; everything runs under vm_compute.

    Index loops of the form [for i < len(s) { ...; i += size }] are rendered as structural recursion
    over the byte list with a counter [skip] of bytes that the previous iteration has already consumed
    ([skip = size - 1] after an iteration that starts at the head byte). *)
From IBC Require Import Lib.Bytes.
Local Open Scope N_scope.

(** utf8.RuneError = U+FFFD *)
Definition rune_error : N := 65533.
(** its UTF-8 encoding EF BF BD *)
Definition rune_error_bytes : bytes := [Nbyte 239; Nbyte 191; Nbyte 189].

(** utf8.go [first] table + [acceptRanges]: for a lead byte >= 0x80, the sequence length and the
    accepted range of the SECOND byte; [None] = entry [xx] (invalid lead: 0x80..0xC1, 0xF5..0xFF). *)
Definition lead_info (b0 : N) : option (nat * N * N) :=
  if b0 <? 194 then None                                   (* 80..C1: xx *)
  else if b0 <=? 223 then Some (2%nat, 128, 191)           (* C2..DF: s1 *)
  else if b0 =? 224 then Some (3%nat, 160, 191)            (* E0: s2, second byte A0..BF *)
  else if b0 <=? 236 then Some (3%nat, 128, 191)           (* E1..EC: s3 *)
  else if b0 =? 237 then Some (3%nat, 128, 159)            (* ED: s4, second byte 80..9F (no surrogates) *)
  else if b0 <=? 239 then Some (3%nat, 128, 191)           (* EE..EF: s3 *)
  else if b0 =? 240 then Some (4%nat, 144, 191)            (* F0: s5, second byte 90..BF *)
  else if b0 <=? 243 then Some (4%nat, 128, 191)           (* F1..F3: s6 *)
  else if b0 =? 244 then Some (4%nat, 128, 143)            (* F4: s7, second byte 80..8F *)
  else None.                                               (* F5..FF: xx *)

(** continuation byte range locb..hicb *)
Definition is_cont (b : N) : bool := (128 <=? b) && (b <=? 191).

(** utf8.DecodeRune / DecodeRuneInString: (rune, size).  Empty input: (RuneError, 0); any malformed or
    truncated sequence: (RuneError, 1).  The masks/shifts [rune(p0&mask2)<<6 | rune(b1&maskx)] are written
    arithmetically ([b mod 2^k], [* 64]); the bit fields do not overlap, so [|] is [+].
    (Go tests [n < sz] before looking at the second byte; both failures return (RuneError, 1), so the
    nested matches below give the same result.) *)
Definition dec_rune (s : bytes) : N * nat :=
  match s with
  | [] => (rune_error, 0%nat)
  | c0 :: s1 =>
      let b0 := byteN c0 in
      if b0 <? 128 then (b0, 1%nat)
      else
        match lead_info b0 with
        | None => (rune_error, 1%nat)
        | Some (sz, lo, hi) =>
            match s1 with
            | [] => (rune_error, 1%nat)
            | c1 :: s2 =>
                let b1 := byteN c1 in
                if (b1 <? lo) || (hi <? b1) then (rune_error, 1%nat)
                else if Nat.eqb sz 2 then ((b0 mod 32) * 64 + b1 mod 64, 2%nat)
                else
                  match s2 with
                  | [] => (rune_error, 1%nat)
                  | c2 :: s3 =>
                      let b2 := byteN c2 in
                      if negb (is_cont b2) then (rune_error, 1%nat)
                      else if Nat.eqb sz 3 then ((b0 mod 16) * 4096 + (b1 mod 64) * 64 + b2 mod 64, 3%nat)
                      else
                        match s3 with
                        | [] => (rune_error, 1%nat)
                        | c3 :: _ =>
                            let b3 := byteN c3 in
                            if negb (is_cont b3) then (rune_error, 1%nat)
                            else ((b0 mod 8) * 262144 + (b1 mod 64) * 4096 + (b2 mod 64) * 64 + b3 mod 64, 4%nat)
                        end
                  end
            end
        end
  end.

(** [c == utf8.RuneError && size == 1] *)
Definition dec_is_error (d : N * nat) : bool := (fst d =? rune_error) && Nat.eqb (snd d) 1.

Definition is_surrogate (r : N) : bool := (55296 <=? r) && (r <=? 57343).

(** utf8.EncodeRune / AppendRune: surrogates and runes above U+10FFFF are written as U+FFFD. *)
Definition enc_rune (r : N) : bytes :=
  if r <? 128 then [Nbyte r]
  else if r <? 2048 then [Nbyte (192 + r / 64); Nbyte (128 + r mod 64)]
  else if (1114111 <? r) || is_surrogate r then rune_error_bytes
  else if r <? 65536 then [Nbyte (224 + r / 4096); Nbyte (128 + (r / 64) mod 64); Nbyte (128 + r mod 64)]
  else [Nbyte (240 + r / 262144); Nbyte (128 + (r / 4096) mod 64); Nbyte (128 + (r / 64) mod 64); Nbyte (128 + r mod 64)].

(** utf8.Valid / utf8.ValidString *)
Fixpoint valid_go (skip : nat) (s : bytes) : bool :=
  match s with
  | [] => true
  | _ :: s' =>
      match skip with
      | S k => valid_go k s'
      | O => let d := dec_rune s in
             if dec_is_error d then false else valid_go (snd d - 1) s'
      end
  end.
Definition valid_utf8 (s : bytes) : bool := valid_go 0 s.

(** What a Go string becomes when every byte that does not start a well-formed sequence is replaced by
    U+FFFD (one replacement per offending BYTE; well-formed sequences copied). *)
Fixpoint sanitize_go (skip : nat) (s : bytes) : bytes :=
  match s with
  | [] => []
  | _ :: s' =>
      match skip with
      | S k => sanitize_go k s'
      | O => let d := dec_rune s in
             if dec_is_error d then rune_error_bytes ++ sanitize_go 0 s'
             else firstn (snd d) s ++ sanitize_go (snd d - 1) s'
      end
  end.
Definition sanitize_utf8 (s : bytes) : bytes := sanitize_go 0 s.
