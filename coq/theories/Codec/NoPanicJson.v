(** C47 — models of the memo / metadata / callback-data / acknowledgement decoders.
    Decoded JSON (encoding/json into [any]) is the inductive [jv]; Go's type assertions and map lookups over
    it are explicit.  encoding/json itself, time.ParseDuration and the bech32/proto codecs are library code
    and are NOT modelled: where the Go code re-parses a string ([next] as a JSON string, a duration string)
    the result of that library call is carried inside the [JStr] node as an input.
    Definitions only; proofs in NoPanicJsonFacts.v. *)
From IBC Require Import Lib.Bytes Lib.Dec Core.Height Codec.NoPanicBase.
Local Open Scope N_scope.

(** a float64: (-1)^neg * mant * 2^exp  (finite; JSON cannot produce NaN/Inf) *)
Record jnum := mkNum { jn_neg : bool; jn_mant : N; jn_exp : Z }.

Inductive jv :=
| JNull
| JBool (b : bool)
| JNum (n : jnum)
| JStr (s : bytes) (dur_ok : bool) (p : jparse)
      (* dur_ok: time.ParseDuration(s) succeeded; p: json.Unmarshal([]byte(s), &map[string]any{}) *)
| JArr (l : jlist)
| JObj (m : jmembers)
with jparse := PErr | PNil (* "null": nil map, no error *) | PObj (m : jmembers)
with jmembers := MNil | MCons (k : bytes) (v : jv) (r : jmembers)
with jlist := LNil | LCons (v : jv) (r : jlist).

(** Go [m[k]] on a map[string]any: (value, ok).  A nil map reads as empty. *)
Fixpoint mget (k : bytes) (m : jmembers) : option jv :=
  match m with
  | MNil => None
  | MCons k' v r => if bytes_eqb k k' then Some v else mget k r
  end.

(** checked assertions [v, ok := x.(T)] on an [any] that may be nil (absent key or JSON null) *)
Definition as_str (x : option jv) : option bytes :=
  match x with Some (JStr s _ _) => Some s | _ => None end.
Definition as_obj (x : option jv) : option jmembers :=
  match x with Some (JObj m) => Some m | _ => None end.
(** UNchecked assertion [x.(string)]: panics on any other dynamic type (incl. nil).  The code under study
    has none; kept to show what such a line would do to the theorems (NoPanicJsonFacts.unchecked_panics). *)
Definition assert_str (x : option jv) : res bytes :=
  match x with Some (JStr s _ _) => Ok s | _ => Panic end.

(** depth, used as fuel bound *)
Fixpoint depth_v (v : jv) : nat :=
  match v with
  | JStr _ _ p => S (depth_p p)
  | JArr l => S (depth_l l)
  | JObj m => S (depth_m m)
  | _ => O
  end
with depth_p (p : jparse) : nat :=
  match p with PObj m => depth_m m | _ => O end
with depth_m (m : jmembers) : nat :=
  match m with MNil => O | MCons _ v r => Nat.max (depth_v v) (depth_m r) end
with depth_l (l : jlist) : nat :=
  match l with LNil => O | LCons v r => Nat.max (depth_v v) (depth_l r) end.

(** float comparisons against small non-negative integers, exact *)
Definition num_is_neg (n : jnum) : bool := jn_neg n && negb (jn_mant n =? 0).
(** |n| > k *)
Definition num_abs_gt (n : jnum) (k : N) : bool :=
  if (0 <=? jn_exp n)%Z then k <? jn_mant n * 2 ^ Z.to_N (jn_exp n)
  else k * 2 ^ Z.to_N (- jn_exp n) <? jn_mant n.
(** floor |n| *)
Definition num_trunc (n : jnum) : N :=
  if (0 <=? jn_exp n)%Z then jn_mant n * 2 ^ Z.to_N (jn_exp n)
  else jn_mant n / 2 ^ Z.to_N (- jn_exp n).

(** ---------------------------------------------------------------- transfer: GetCustomPacketData(key)
    [memo] is the packet memo, [p] what json.Unmarshal(memo, &map[string]any{}) gave.  Result: the [any]
    returned (None = nil interface). *)
Definition get_custom_packet_data (memo : bytes) (p : jparse) (key : bytes) : option jv :=
  if (nlen memo =? 0) then None
  else match p with
       | PErr => None
       | PNil => None                 (* lookup in the (nil) map: not found *)
       | PObj m => match mget key m with
                   | Some JNull => None       (* found, but the stored value is the nil interface *)
                   | x => x
                   end
       end.

(** ---------------------------------------------------------------- packet-forward-middleware/types/forward.go *)
Inductive fmd := FMD (receiver port channel : bytes) (retries : option N) (next : option fmd).

(** parseDuration: float64 -> conversion (never fails); string -> time.ParseDuration; else error *)
Definition parse_duration (v : jv) : res unit :=
  match v with
  | JNum _ => Ok tt
  | JStr _ dur_ok _ => if dur_ok then Ok tt else Err
  | _ => Err
  end.

(** getForwardMetadataFromNext *)
Definition get_forward_metadata_from_next (nextData : jv) : res jmembers :=
  do pm <- match nextData with
           | JObj m => Ok (Some m)
           | JStr _ _ p => match p with
                           | PErr => Err
                           | PNil => Ok None        (* json "null" leaves the map nil; no error *)
                           | PObj m => Ok (Some m)
                           end
           | _ => Err
           end;
  match pm with
  | None => Err                                       (* nilmap["forward"] is nil: assertion fails *)
  | Some m => match as_obj (mget (B "forward") m) with
              | Some fd => Ok fd
              | None => Err
              end
  end.

(** getForwardMetadata *)
Fixpoint get_forward_metadata (fuel : nat) (fd : jmembers) : res fmd :=
  match fuel with
  | O => Fuel
  | S f =>
      match as_str (mget (B "receiver") fd) with
      | None => Err
      | Some receiver =>
          match as_str (mget (B "port") fd) with
          | None => Err
          | Some port =>
              match as_str (mget (B "channel") fd) with
              | None => Err
              | Some channel =>
                  do _t <- match mget (B "timeout") fd with
                           | None => Ok tt
                           | Some v => parse_duration v
                           end;
                  do retries <- match mget (B "retries") fd with
                                | None => Ok None
                                | Some (JNum n) =>
                                    if num_is_neg n || num_abs_gt n 255 then Err
                                    else Ok (Some (num_trunc n))
                                | Some _ => Err
                                end;
                  do next <- match mget (B "next") fd with
                             | None => Ok None
                             | Some nv =>
                                 do nd <- get_forward_metadata_from_next nv;
                                 do nf <- get_forward_metadata f nd;
                                 Ok (Some nf)
                             end;
                  Ok (FMD receiver port channel retries next)
              end
          end
      end
  end.

(** GetPacketMetadataFromPacketdata: (metadata, isPFM, err) *)
Definition get_packet_metadata (memo : bytes) (p : jparse) : res fmd * bool :=
  match as_obj (get_custom_packet_data memo p (B "forward")) with
  | None => (Err, false)
  | Some fd =>
      match get_forward_metadata (S (depth_m fd)) fd with
      | Ok md => (Ok md, true)
      | Err => (Err, true)
      | Panic => (Panic, true)
      | Fuel => (Fuel, true)
      end
  end.

(** ForwardMetadata.Validate *)
Definition forward_metadata_validate (m : fmd) : res unit :=
  match m with
  | FMD receiver port channel _ _ =>
      if bytes_eqb receiver [] then Err
      else do _ <- port_identifier_validator port; channel_identifier_validator channel
  end.

(** ---------------------------------------------------------------- callbacks/types/callbacks.go *)
Record CallbackData := mkCB { cb_addr : bytes; cb_exec_gas : N; cb_commit_gas : N; cb_calldata : bytes }.

(** getUserDefinedGasLimit *)
Definition get_user_defined_gas_limit (cd : jmembers) : res N :=
  match mget (B "gas_limit") cd with
  | None => Ok 0
  | Some (JStr s _ _) =>
      if bytes_eqb s [] then Ok 0
      else match parse_uint64 s with Some n => Ok n | None => Err end
  | Some _ => Err
  end.

(** getCalldata *)
Definition get_calldata (cd : jmembers) : res bytes :=
  match mget (B "calldata") cd with
  | None => Ok []
  | Some (JStr s _ _) =>
      if bytes_eqb s [] then Ok []
      else if hex_decode_ok s then Ok (unhex_l s) else Err
  | Some _ => Err
  end.

(** computeExecAndCommitGasLimit *)
Definition compute_exec_and_commit_gas_limit (cd : jmembers) (remainingGas maxGas : N) : res (N * N) :=
  do g <- get_user_defined_gas_limit cd;
  let commit := if (g =? 0) || (maxGas <? g) then maxGas else g in
  Ok (N.min remainingGas commit, commit).

(** GetCallbackData: (data, isCbPacket, err).  [provider]: packetData implements PacketDataProvider. *)
Definition get_callback_data (provider : bool) (memo : bytes) (p : jparse) (remainingGas maxGas : N)
           (key : bytes) : res CallbackData * bool :=
  if negb provider then (Err, false)
  else
    match as_obj (get_custom_packet_data memo p key) with
    | None => (Err, false)
    | Some cd =>
        match as_str (mget (B "address") cd) with
        | None => (Err, true)
        | Some addr =>
            if go_blank addr then (Err, true)
            else
              (do gl <- compute_exec_and_commit_gas_limit cd remainingGas maxGas;
               do calldata <- get_calldata cd;
               Ok (mkCB addr (fst gl) (snd gl) calldata), true)
        end
    end.

(** ---------------------------------------------------------------- 27-interchain-accounts/types *)
Record IcaMetadata := mkIca {
  ica_version : bytes; ica_ctrl_conn : bytes; ica_host_conn : bytes; ica_address : bytes;
  ica_encoding : bytes; ica_tx_type : bytes }.

(** ValidateAccountAddress: ^[a-zA-Z0-9]+$ and len <= 128 *)
Definition validate_account_address (addr : bytes) : res unit :=
  if negb (match addr with [] => false | _ => forallb is_alnum addr end) || (128 <? nlen addr) then Err
  else Ok tt.

Definition is_supported_encoding (e : bytes) : bool := bytes_eqb e (B "proto3") || bytes_eqb e (B "proto3json").
Definition is_supported_tx_type (t : bytes) : bool := bytes_eqb t (B "sdk_multi_msg").

(** ValidateControllerMetadata / ValidateHostMetadata.  [get_conn id]: channelKeeper.GetConnection, giving the
    counterparty connection id, or None on error.  NOTE [connectionHops[0]] is NOT guarded by a length check
    in these functions. *)
Definition validate_ica_metadata (controller : bool) (get_conn : bytes -> option bytes)
           (connectionHops : list bytes) (md : IcaMetadata) : res unit :=
  if negb (is_supported_encoding (ica_encoding md)) then Err
  else if negb (is_supported_tx_type (ica_tx_type md)) then Err
  else
    do hop0 <- idx connectionHops 0;
    match get_conn hop0 with
    | None => Err
    | Some cpConn =>
        do hop0' <- idx connectionHops 0;
        let ctrl := if controller then hop0' else cpConn in
        let host := if controller then cpConn else hop0' in
        if negb (bytes_eqb (ica_ctrl_conn md) ctrl) then Err
        else if negb (bytes_eqb (ica_host_conn md) host) then Err
        else
          do _ <- (if negb (bytes_eqb (ica_address md) []) then validate_account_address (ica_address md) else Ok tt);
          if negb (bytes_eqb (ica_version md) (B "ics27-1")) then Err else Ok tt
    end.

(** ---------------------------------------------------------------- 04-channel/types/acknowledgement.go *)
(** the oneof Response: nil interface, or a pointer to a wrapper; the pointer itself may be a typed nil
    (constructible through the Go API, never produced by the JSON/proto decoders) *)
Inductive AckResp :=
| RNone
| RResult (w : option bytes)      (* None: a typed nil pointer to Acknowledgement_Result *)
| RError (w : option bytes).

Definition deref {A} (p : option A) : res A := match p with Some a => Ok a | None => Panic end.

(** Acknowledgement.ValidateBasic *)
Definition ack_validate_basic (r : AckResp) : res unit :=
  match r with
  | RResult w => do res <- deref w; if (nlen res =? 0) then Err else Ok tt
  | RError w => do e <- deref w; if go_blank e then Err else Ok tt
  | RNone => Err
  end.
(** Acknowledgement.Success: reflect.TypeOf comparison, no dereference *)
Definition ack_success (r : AckResp) : bool := match r with RResult _ => true | _ => false end.
(** what a decoder can produce *)
Definition ack_decodable (r : AckResp) : bool :=
  match r with RResult None | RError None => false | _ => true end.
