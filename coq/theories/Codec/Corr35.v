(** Correspondence cases of the `codec` family serving C35 (ABI and protobuf encodings). Each constructor
    carries what the implementation was given and what it returned; [check35] re-computes with the models
    of Codec/Abi.v and Codec/Proto.v (the definitions the theorems of Props/C35.v are about). *)
From IBC Require Import Lib.Bytes Lib.BytesFacts Lib.Dec Lib.CorrLib Codec.Abi Codec.Proto.
Local Open Scope N_scope.

(** observed outcome of one call: value, error, panic, or "not called" *)
Inductive obs (A : Type) := OOk (a : A) | OErr | OPanic | ONone.
Arguments OOk {A} a.
Arguments OErr {A}.
Arguments OPanic {A}.
Arguments ONone {A}.

Definition obs_eq {A} (eqb : A -> A -> bool) (m : option A) (o : obs A) : bool :=
  match m, o with
  | Some x, OOk y => eqb x y
  | None, OErr => true
  | _, _ => false
  end.

(** the transfer module's entry point UnmarshalPacketData = decoder + ValidateBasic: whenever it accepts,
    the modelled decoder must accept and agree on (amount, sender, receiver, memo); it must never panic *)
Definition unm_ok (m : option FTPD) (o : obs (bytes * bytes * bytes * bytes)) : bool :=
  match o with
  | OOk (a, s, r, mm) =>
      match m with
      | Some d => bytes_eqb (f_amount d) a && bytes_eqb (f_sender d) s && bytes_eqb (f_receiver d) r &&
                  bytes_eqb (f_memo d) mm
      | None => false
      end
  | OErr => true
  | OPanic => false
  | ONone => true
  end.

Definition pair_eqb (a b : bytes * bytes) : bool := bytes_eqb (fst a) (fst b) && bytes_eqb (snd a) (snd b).
Definition nn_eqb (a b : N * N) : bool := (fst a =? fst b) && (snd a =? snd b).
Definition patt_eqb (a b : N * list (bytes * bytes)) : bool :=
  (fst a =? fst b) && list_eqb pair_eqb (snd a) (snd b).

Inductive Case35 :=
| AbiFtpdRt (d : FTPD) (enc : obs bytes) (dec : obs FTPD) (unm : obs (bytes * bytes * bytes * bytes))
| AbiFtpdDec (bz : bytes) (dec : obs FTPD) (unm : obs (bytes * bytes * bytes * bytes))
| ProtoFtpdRt (d : FTPD) (enc : obs bytes) (dec : obs FTPD) (unm : obs (bytes * bytes * bytes * bytes))
| ProtoFtpdDec (bz : bytes) (dec lenient : obs FTPD) (unm : obs (bytes * bytes * bytes * bytes))
| AbiGmpRt (d : GMPData) (enc : obs bytes) (dec unm : obs GMPData)
| AbiGmpDec (bz : bytes) (dec unm : obs GMPData)
| AbiGmpAckRt (res : bytes) (enc : obs bytes) (dec unm : obs bytes)
| AbiGmpAckDec (bz : bytes) (dec unm : obs bytes)
| StateAttRt (h ts : N) (enc : obs bytes) (dec : obs (N * N))
| StateAttDec (bz : bytes) (dec : obs (N * N))
| PacketAttRt (h : N) (ps : list (bytes * bytes)) (enc : obs bytes) (dec : obs (N * list (bytes * bytes)))
| PacketAttDec (bz : bytes) (dec : obs (N * list (bytes * bytes))).

(** after an encoding was observed, the decoder outputs are checked on the OBSERVED bytes *)
Definition on_enc {A} (enc : obs bytes) (f : bytes -> bool) (dec : obs A) : bool :=
  match enc with
  | OOk bz => f bz
  | _ => match dec with ONone => true | _ => false end
  end.

Definition check35 (c : Case35) : bool :=
  match c with
  | AbiFtpdRt d enc dec unm =>
      obs_eq bytes_eqb (abi_encode_ftpd d) enc &&
      on_enc enc (fun bz => obs_eq ftpd_eqb (abi_decode_ftpd bz) dec && unm_ok (abi_decode_ftpd bz) unm) dec
  | AbiFtpdDec bz dec unm =>
      obs_eq ftpd_eqb (abi_decode_ftpd bz) dec && unm_ok (abi_decode_ftpd bz) unm
  | ProtoFtpdRt d enc dec unm =>
      obs_eq bytes_eqb (Some (proto_encode d)) enc &&
      on_enc enc (fun bz => obs_eq ftpd_eqb (proto_decode_strict bz) dec && unm_ok (proto_decode_strict bz) unm) dec
  | ProtoFtpdDec bz dec lenient unm =>
      obs_eq ftpd_eqb (proto_decode_strict bz) dec && obs_eq ftpd_eqb (gogo_unmarshal bz) lenient &&
      unm_ok (proto_decode_strict bz) unm
  | AbiGmpRt d enc dec unm =>
      obs_eq bytes_eqb (Some (abi_encode_gmp d)) enc &&
      on_enc enc (fun bz => obs_eq gmp_eqb (abi_decode_gmp bz) dec && obs_eq gmp_eqb (gmp_unmarshal_abi bz) unm) dec
  | AbiGmpDec bz dec unm =>
      obs_eq gmp_eqb (abi_decode_gmp bz) dec && obs_eq gmp_eqb (gmp_unmarshal_abi bz) unm
  | AbiGmpAckRt res enc dec unm =>
      obs_eq bytes_eqb (Some (abi_encode_gmp_ack res)) enc &&
      on_enc enc (fun bz => obs_eq bytes_eqb (abi_decode_gmp_ack bz) dec &&
                            obs_eq bytes_eqb (gmp_unmarshal_ack_abi bz) unm) dec
  | AbiGmpAckDec bz dec unm =>
      obs_eq bytes_eqb (abi_decode_gmp_ack bz) dec && obs_eq bytes_eqb (gmp_unmarshal_ack_abi bz) unm
  | StateAttRt h ts enc dec =>
      obs_eq bytes_eqb (Some (abi_encode_state_att h ts)) enc &&
      on_enc enc (fun bz => obs_eq nn_eqb (abi_decode_state_att bz) dec) dec
  | StateAttDec bz dec => obs_eq nn_eqb (abi_decode_state_att bz) dec
  | PacketAttRt h ps enc dec =>
      obs_eq bytes_eqb (Some (abi_encode_packet_att h ps)) enc &&
      on_enc enc (fun bz => obs_eq patt_eqb (abi_decode_packet_att bz) dec) dec
  | PacketAttDec bz dec => obs_eq patt_eqb (abi_decode_packet_att bz) dec
  end.
