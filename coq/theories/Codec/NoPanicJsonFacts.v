(** C47 — proofs about Codec/NoPanicJson.v *)
From IBC Require Import Lib.Bytes Lib.BytesFacts Lib.Dec Lib.DecFacts Core.Height
  Codec.NoPanicBase Codec.NoPanicBaseFacts Codec.NoPanicJson.
From Coq Require Import ZifyBool ZifyN ZifyNat.
Local Open Scope N_scope.

Lemma mget_depth k m v : mget k m = Some v -> (depth_v v <= depth_m m)%nat.
Proof.
  induction m as [|k' v' r IH]; cbn [mget depth_m]; [discriminate|].
  destruct (bytes_eqb k k').
  - intros [= <-]. lia.
  - intros H. specialize (IH H). lia.
Qed.

Lemma as_obj_some x m : as_obj x = Some m -> x = Some (JObj m).
Proof. destruct x as [[]|]; cbn; try discriminate. intros [= <-]. reflexivity. Qed.

Lemma get_forward_metadata_from_next_safe nv : safe (get_forward_metadata_from_next nv).
Proof.
  unfold get_forward_metadata_from_next.
  destruct nv as [| | |s d [| |m]| |m]; cbn [bind]; try exact I;
    destruct (as_obj _); exact I.
Qed.

Lemma get_forward_metadata_from_next_depth nv fd :
  get_forward_metadata_from_next nv = Ok fd -> (depth_m fd + 2 <= depth_v nv)%nat.
Proof.
  unfold get_forward_metadata_from_next.
  destruct nv as [| | |s d [| |m]| |m]; cbn [bind]; try discriminate.
  - destruct (as_obj (mget (B "forward") m)) eqn:E; [|discriminate].
    intros [= <-]. apply as_obj_some in E. apply mget_depth in E. cbn [depth_v depth_p] in *. lia.
  - destruct (as_obj (mget (B "forward") m)) eqn:E; [|discriminate].
    intros [= <-]. apply as_obj_some in E. apply mget_depth in E. cbn [depth_v] in *. lia.
Qed.

Lemma parse_duration_safe v : safe (parse_duration v).
Proof. destruct v; cbn; try exact I. destruct dur_ok; exact I. Qed.

(** getForwardMetadata never panics, whatever the fuel *)
Lemma get_forward_metadata_not_panic fuel fd : get_forward_metadata fuel fd <> Panic.
Proof.
  revert fd. induction fuel as [|f IH]; intros fd; [discriminate|].
  cbn [get_forward_metadata].
  destruct (as_str _); [|discriminate].
  destruct (as_str _); [|discriminate].
  destruct (as_str _); [|discriminate].
  destruct (mget (B "timeout") fd) as [tv|].
  - pose proof (parse_duration_safe tv) as Ht. destruct (parse_duration tv); cbn in Ht; try contradiction; cbn [bind]; try discriminate.
    all: destruct (mget (B "retries") fd) as [[| |n| | |]|]; cbn [bind]; try discriminate.
    all: try (destruct (_ || _); cbn [bind]; try discriminate).
    all: destruct (mget (B "next") fd) as [nv|]; cbn [bind]; try discriminate.
    all: pose proof (get_forward_metadata_from_next_safe nv) as Hn;
      destruct (get_forward_metadata_from_next nv) as [nd| | |]; cbn in Hn; try contradiction; cbn [bind]; try discriminate.
    all: specialize (IH nd); destruct (get_forward_metadata f nd); cbn [bind]; congruence.
  - cbn [bind].
    destruct (mget (B "retries") fd) as [[| |n| | |]|]; cbn [bind]; try discriminate.
    all: try (destruct (_ || _); cbn [bind]; try discriminate).
    all: destruct (mget (B "next") fd) as [nv|]; cbn [bind]; try discriminate.
    all: pose proof (get_forward_metadata_from_next_safe nv) as Hn;
      destruct (get_forward_metadata_from_next nv) as [nd| | |]; cbn in Hn; try contradiction; cbn [bind]; try discriminate.
    all: specialize (IH nd); destruct (get_forward_metadata f nd); cbn [bind]; congruence.
Qed.

(** fuel = depth + 1 is enough *)
Lemma get_forward_metadata_fuel fuel fd : (depth_m fd < fuel)%nat -> get_forward_metadata fuel fd <> Fuel.
Proof.
  revert fd. induction fuel as [|f IH]; intros fd Hd; [lia|].
  cbn [get_forward_metadata].
  destruct (as_str _); [|discriminate].
  destruct (as_str _); [|discriminate].
  destruct (as_str _); [|discriminate].
  assert (Hnext : forall nv, mget (B "next") fd = Some nv ->
            (do nd <- get_forward_metadata_from_next nv; do nf <- get_forward_metadata f nd; Ok (Some nf)) <> Fuel).
  { intros nv Hnv. pose proof (mget_depth _ _ _ Hnv) as Hdv.
    pose proof (get_forward_metadata_from_next_safe nv) as Hn.
    destruct (get_forward_metadata_from_next nv) as [nd| | |] eqn:En; cbn in Hn; try contradiction; cbn [bind]; try discriminate.
    apply get_forward_metadata_from_next_depth in En.
    assert (Hf : (depth_m nd < f)%nat) by lia.
    specialize (IH nd Hf). destruct (get_forward_metadata f nd); cbn [bind]; congruence. }
  destruct (mget (B "timeout") fd) as [tv|].
  - pose proof (parse_duration_safe tv) as Ht. destruct (parse_duration tv); cbn in Ht; try contradiction; cbn [bind]; try discriminate.
    all: destruct (mget (B "retries") fd) as [[| |n| | |]|]; cbn [bind]; try discriminate.
    all: try (destruct (_ || _); cbn [bind]; try discriminate).
    all: destruct (mget (B "next") fd) as [nv|]; cbn [bind]; try discriminate.
    all: specialize (Hnext nv eq_refl); destruct (bind _ _); cbn [bind]; congruence.
  - cbn [bind].
    destruct (mget (B "retries") fd) as [[| |n| | |]|]; cbn [bind]; try discriminate.
    all: try (destruct (_ || _); cbn [bind]; try discriminate).
    all: destruct (mget (B "next") fd) as [nv|]; cbn [bind]; try discriminate.
    all: specialize (Hnext nv eq_refl); destruct (bind _ _); cbn [bind]; congruence.
Qed.

Lemma get_packet_metadata_safe memo p : safe (fst (get_packet_metadata memo p)).
Proof.
  unfold get_packet_metadata.
  destruct (as_obj _) as [fd|]; [|exact I].
  pose proof (get_forward_metadata_not_panic (S (depth_m fd)) fd) as H1.
  pose proof (get_forward_metadata_fuel (S (depth_m fd)) fd ltac:(lia)) as H2.
  destruct (get_forward_metadata _ fd); cbn; congruence || exact I.
Qed.

(** isPFM is false exactly when there is no JSON object under "forward" *)
Lemma get_packet_metadata_flag memo p :
  snd (get_packet_metadata memo p) = false <-> as_obj (get_custom_packet_data memo p (B "forward")) = None.
Proof.
  unfold get_packet_metadata. destruct (as_obj _) as [fd|].
  - destruct (get_forward_metadata _ fd); cbn; split; discriminate.
  - cbn. split; reflexivity.
Qed.

Lemma forward_metadata_validate_safe m : safe (forward_metadata_validate m).
Proof.
  destruct m as [r p c rt n]. cbn. destruct (bytes_eqb r []); [exact I|].
  apply safe_bind; [apply port_identifier_validator_safe|]. intros; apply channel_identifier_validator_safe.
Qed.

(** an unchecked assertion would panic (shows the theorems above are not true by construction) *)
Lemma unchecked_panics : assert_str (Some (JNum (mkNum false 1 0))) = Panic /\ assert_str None = Panic.
Proof. split; reflexivity. Qed.

(** ---------------------------------------------------------------- callbacks *)
Lemma get_user_defined_gas_limit_safe cd : safe (get_user_defined_gas_limit cd).
Proof.
  unfold get_user_defined_gas_limit.
  destruct (mget _ cd) as [[| | |s d p| |]|]; try exact I.
  destruct (bytes_eqb s []); [exact I|]. destruct (parse_uint64 s); exact I.
Qed.

Lemma get_calldata_safe cd : safe (get_calldata cd).
Proof.
  unfold get_calldata.
  destruct (mget _ cd) as [[| | |s d p| |]|]; try exact I.
  destruct (bytes_eqb s []); [exact I|]. destruct (hex_decode_ok s); exact I.
Qed.

Lemma compute_exec_and_commit_gas_limit_safe cd r m : safe (compute_exec_and_commit_gas_limit cd r m).
Proof.
  unfold compute_exec_and_commit_gas_limit.
  apply safe_bind; [apply get_user_defined_gas_limit_safe|]. intros; exact I.
Qed.

Lemma get_callback_data_safe prov memo p r m key : safe (fst (get_callback_data prov memo p r m key)).
Proof.
  unfold get_callback_data.
  destruct prov; cbn [negb]; [|exact I].
  destruct (as_obj _) as [cd|]; [|exact I].
  destruct (as_str _) as [addr|]; [|exact I].
  destruct (go_blank addr); [exact I|]. cbn [fst].
  apply safe_bind; [apply compute_exec_and_commit_gas_limit_safe|]. intros gl _.
  apply safe_bind; [apply get_calldata_safe|]. intros; exact I.
Qed.

(** the gas limits returned never exceed maxGas / remainingGas, and exec <= commit *)
Lemma get_callback_data_gas prov memo p r m key cb :
  fst (get_callback_data prov memo p r m key) = Ok cb ->
  cb_commit_gas cb <= m /\ cb_exec_gas cb <= r /\ cb_exec_gas cb <= cb_commit_gas cb /\
  go_blank (cb_addr cb) = false.
Proof.
  unfold get_callback_data.
  destruct prov; cbn [negb]; [|discriminate].
  destruct (as_obj _) as [cd|]; [|discriminate].
  destruct (as_str _) as [addr|]; [|discriminate].
  destruct (go_blank addr) eqn:Eb; [discriminate|]. cbn [fst].
  unfold compute_exec_and_commit_gas_limit.
  destruct (get_user_defined_gas_limit cd) as [g| | |]; cbn [bind]; try discriminate.
  destruct (get_calldata cd) as [c| | |]; cbn [bind]; try discriminate.
  intros [= <-]. cbn [cb_commit_gas cb_exec_gas cb_addr fst snd].
  destruct ((g =? 0) || (m <? g)) eqn:E; repeat split; try assumption; lia.
Qed.

(** ---------------------------------------------------------------- ICA metadata *)
Lemma validate_account_address_safe a : safe (validate_account_address a).
Proof. unfold validate_account_address. destruct (_ || _); exact I. Qed.

Definition ica_ok_md : IcaMetadata :=
  mkIca (B "ics27-1") (B "connection-0") (B "connection-1") [] (B "proto3") (B "sdk_multi_msg").

(** connectionHops[0] is not guarded inside ValidateControllerMetadata / ValidateHostMetadata *)
Lemma validate_ica_metadata_refuted :
  exists ctrl gc hops md, validate_ica_metadata ctrl gc hops md = Panic.
Proof. exists true, (fun _ => None), [], ica_ok_md. vm_compute. reflexivity. Qed.

Lemma validate_ica_metadata_guarded ctrl gc hops md :
  hops <> [] -> safe (validate_ica_metadata ctrl gc hops md).
Proof.
  intros Hne. unfold validate_ica_metadata.
  destruct (negb _); [exact I|]. destruct (negb _); [exact I|].
  destruct hops as [|h0 hs]; [congruence|].
  change (idx (h0 :: hs) 0%Z) with (Ok h0). cbn [bind].
  destruct (gc h0); [|exact I].
  destruct (negb _); [exact I|]. destruct (negb _); [exact I|].
  apply safe_bind.
  - destruct (negb _); [apply validate_account_address_safe|exact I].
  - intros _ _. destruct (negb _); exact I.
Qed.

Lemma validate_ica_metadata_panic_iff ctrl gc hops md :
  validate_ica_metadata ctrl gc hops md = Panic <->
  hops = [] /\ is_supported_encoding (ica_encoding md) = true /\ is_supported_tx_type (ica_tx_type md) = true.
Proof.
  split.
  - intros H. destruct hops as [|h0 hs].
    + unfold validate_ica_metadata in H.
      destruct (is_supported_encoding _); cbn [negb] in H; [|discriminate].
      destruct (is_supported_tx_type _); cbn [negb] in H; [|discriminate]. auto.
    + pose proof (validate_ica_metadata_guarded ctrl gc (h0 :: hs) md ltac:(discriminate)) as S.
      rewrite H in S. contradiction.
  - intros (-> & E1 & E2). unfold validate_ica_metadata. rewrite E1, E2. reflexivity.
Qed.

(** ---------------------------------------------------------------- acknowledgements *)
Lemma ack_validate_basic_refuted : exists r, ack_validate_basic r = Panic.
Proof. exists (RResult None). reflexivity. Qed.

Lemma ack_validate_basic_guarded r : ack_decodable r = true -> safe (ack_validate_basic r).
Proof.
  destruct r as [|[w|]|[w|]]; cbn; try discriminate; intros _; try exact I.
  - destruct (nlen w =? 0); exact I.
  - destruct (go_blank w); exact I.
Qed.

Lemma ack_validate_basic_ok r :
  ack_validate_basic r = Ok tt <->
  (exists w, r = RResult (Some w) /\ w <> []) \/ (exists e, r = RError (Some e) /\ go_blank e = false).
Proof.
  destruct r as [|[w|]|[e|]]; cbn.
  - split; [discriminate|]. intros [(?&?&_)|(?&?&_)]; discriminate.
  - destruct w as [|c w]; cbn.
    + split; [discriminate|]. intros [(?&[= <-]&?)|(?&?&_)]; [congruence|discriminate].
    + split; [|reflexivity]. intros _. left. eexists; split; [reflexivity|discriminate].
  - split; [discriminate|]. intros [(?&?&_)|(?&?&_)]; discriminate.
  - destruct (go_blank e) eqn:E.
    + split; [discriminate|]. intros [(?&?&_)|(?&[= <-]&?)]; [discriminate|congruence].
    + split; [|reflexivity]. intros _. right. eauto.
  - split; [discriminate|]. intros [(?&?&_)|(?&?&_)]; discriminate.
Qed.

(** non-vacuity: a two-hop forward memo (second hop given as a JSON string) parses; a bad retries value errs *)
Definition js (s : bytes) : jv := JStr s false PErr.
Definition hop2 : jmembers :=
  MCons (B "forward") (JObj (MCons (B "receiver") (js (B "carol")) (MCons (B "port") (js (B "transfer"))
    (MCons (B "channel") (js (B "channel-7")) MNil)))) MNil.
Definition hop1 (retries : jv) : jmembers :=
  MCons (B "forward") (JObj (MCons (B "receiver") (js (B "bob")) (MCons (B "port") (js (B "transfer"))
    (MCons (B "channel") (js (B "channel-1")) (MCons (B "retries") retries
    (MCons (B "timeout") (JStr (B "10m") true PErr)
    (MCons (B "next") (JStr (B "{...}") false (PObj hop2)) MNil))))))) MNil.

Example json_nonvacuous :
  get_packet_metadata (B "x") (PObj (hop1 (JNum (mkNum false 5 (-1))))) =
    (Ok (FMD (B "bob") (B "transfer") (B "channel-1") (Some 2)
          (Some (FMD (B "carol") (B "transfer") (B "channel-7") None None))), true) /\
  get_packet_metadata (B "x") (PObj (hop1 (JNum (mkNum false 1 8)))) = (Err, true) /\
  get_packet_metadata (B "x") (PObj (hop1 (js (B "2")))) = (Err, true) /\
  get_packet_metadata (B "x") (PObj (MCons (B "forward") (js (B "str")) MNil)) = (Err, false) /\
  get_packet_metadata [] (PObj (hop1 JNull)) = (Err, false) /\
  fst (get_callback_data true (B "x")
         (PObj (MCons (B "src_callback") (JObj (MCons (B "address") (js (B "cosmos1abc"))
                 (MCons (B "gas_limit") (js (B "500")) (MCons (B "calldata") (js (B "0aFf")) MNil)))) MNil))
         300 1000 (B "src_callback")) = Ok (mkCB (B "cosmos1abc") 300 500 (hx "0aff")) /\
  validate_ica_metadata true (fun _ => Some (B "connection-1")) [B "connection-0"] ica_ok_md = Ok tt /\
  validate_ica_metadata false (fun _ => Some (B "connection-1")) [B "connection-0"] ica_ok_md = Err.
Proof. vm_compute. repeat split; reflexivity. Qed.
