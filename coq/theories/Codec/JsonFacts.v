(** C35, JSON path: theorems about the models Codec/JsonEnc.v (json.Marshal of FungibleTokenPacketData) and
    Codec/JsonDec.v (json.Unmarshal into it).  The final statements are named [c35_json_*]. *)
From IBC Require Import Lib.Bytes Lib.BytesFacts Codec.JsonUtf8 Codec.JsonUtf8Facts Codec.JsonEnc Codec.JsonDec.
From Coq Require Import ZifyBool ZifyN ZifyNat.
Local Open Scope N_scope.

(** * small helpers *)

Lemma omap_omap {A B C} (f : A -> B) (g : B -> C) o : omap g (omap f o) = omap (fun a => g (f a)) o.
Proof. destruct o; reflexivity. Qed.

Lemma omap_ext {A B} (f g : A -> B) o : (forall a, f a = g a) -> omap f o = omap g o.
Proof. intros H. destruct o; cbn; [now rewrite H|reflexivity]. Qed.

(** * the encoder, segment by segment *)

Lemma esc_go_skip l t : esc_go (length l) (l ++ t) = esc_go 0 t.
Proof. induction l as [|c l IH]; [reflexivity|]. cbn [length app esc_go]. exact IH. Qed.

Lemma esc_go_ascii c t : byteN c < 128 -> esc_go 0 (c :: t) = esc_ascii (byteN c) ++ esc_go 0 t.
Proof. intros H. cbn [esc_go]. replace (byteN c <? 128) with true by lia. reflexivity. Qed.

Lemma esc_go_bad c t : dec_is_error (dec_rune (c :: t)) = true ->
  esc_go 0 (c :: t) = B "\ufffd" ++ esc_go 0 t.
Proof.
  intros E. assert (H := dec_error_high _ _ E). cbn [esc_go].
  replace (byteN c <? 128) with false by lia. rewrite E. reflexivity.
Qed.

(** what appendString writes for a well-formed non-ASCII rune *)
Definition esc_high (ch : bytes) (r : N) : bytes :=
  if (r =? 8232) || (r =? 8233) then B "\u202" ++ [hex_char_lower (r mod 16)] else ch.

Lemma esc_go_high ch r t : rune_chunk ch r -> all_high ch ->
  esc_go 0 (ch ++ t) = esc_high ch r ++ esc_go 0 t.
Proof.
  intros RC AH. destruct (rune_chunk_cons ch r RC) as (c & tl & -> & Ltl).
  assert (Hc : 128 <= byteN c) by (inversion AH; assumption).
  cbn [app esc_go]. replace (byteN c <? 128) with false by lia.
  change (c :: tl ++ t) with ((c :: tl) ++ t).
  rewrite (rc_dec _ _ RC), (rc_noerr _ _ RC). cbn [fst snd]. unfold esc_high.
  rewrite firstn_chunk. rewrite <- Ltl, esc_go_skip.
  destruct ((r =? 8232) || (r =? 8233)); [|reflexivity].
  now rewrite <- !app_assoc.
Qed.

(** * scanner inside a string literal *)

Definition instr_step (st : sstep) (b : N) : option sstep :=
  match st with
  | SInString =>
      if b =? 34 then None
      else if b =? 92 then Some SInStringEsc
      else if b <? 32 then None
      else Some SInString
  | SInStringEsc =>
      if (b =? 98) || (b =? 102) || (b =? 110) || (b =? 114) || (b =? 116) || (b =? 92) || (b =? 47) || (b =? 34)
      then Some SInString
      else if b =? 117 then Some SEscU
      else None
  | SEscU => if is_hex b then Some SEscU1 else None
  | SEscU1 => if is_hex b then Some SEscU12 else None
  | SEscU12 => if is_hex b then Some SEscU123 else None
  | SEscU123 => if is_hex b then Some SInString else None
  | _ => None
  end.

Fixpoint instr_run (st : sstep) (l : bytes) : option sstep :=
  match l with
  | [] => Some st
  | c :: l' => match instr_step st (byteN c) with
               | Some st' => instr_run st' l'
               | None => None
               end
  end.

Lemma instr_step_sound sc b st' : instr_step (sc_step sc) b = Some st' ->
  sc_step_byte sc b = Some (sc_set sc st').
Proof.
  unfold instr_step, sc_step_byte. destruct (sc_step sc) eqn:Est; try discriminate;
  repeat match goal with |- context [if ?c then _ else _] => destruct c end;
  intros [= <-]; try reflexivity.
  destruct sc; cbn in *; now subst.
Qed.

Lemma instr_run_sound l : forall sc st' rest, instr_run (sc_step sc) l = Some st' ->
  sc_run sc (l ++ rest) = sc_run (sc_set sc st') rest.
Proof.
  induction l as [|c l IH]; intros sc st' rest H.
  - cbn in H. injection H as <-. cbn. destruct sc; reflexivity.
  - cbn [instr_run] in H. destruct (instr_step (sc_step sc) (byteN c)) as [st1|] eqn:E1; [|discriminate].
    cbn [app sc_run]. rewrite (instr_step_sound _ _ _ E1).
    rewrite (IH (sc_set sc st1) st' rest) by exact H. destruct sc; reflexivity.
Qed.

Lemma instr_run_app l1 l2 st st1 : instr_run st l1 = Some st1 -> instr_run st (l1 ++ l2) = instr_run st1 l2.
Proof.
  revert st. induction l1 as [|c l1 IH]; intros st H; cbn in *.
  - now injection H as <-.
  - destruct (instr_step st (byteN c)); [now apply IH|discriminate].
Qed.

(** * rescanLiteral inside a string literal *)

(** no unescaped quote in [l]; the escape flag at its end *)
Fixpoint scan_run (esc : bool) (l : bytes) : option bool :=
  match l with
  | [] => Some esc
  | c :: l' =>
      if esc then scan_run false l'
      else if byteN c =? 92 then scan_run true l'
      else if byteN c =? 34 then None
      else scan_run false l'
  end.

Lemma scan_run_sound l : forall esc esc' rest, scan_run esc l = Some esc' ->
  scan_string esc (l ++ rest) = omap (fun p => (l ++ fst p, snd p)) (scan_string esc' rest).
Proof.
  induction l as [|c l IH]; intros esc esc' rest H.
  - cbn in H. injection H as <-. cbn [app]. destruct (scan_string esc rest) as [[a b]|]; reflexivity.
  - cbn [scan_run] in H. cbn [app scan_string].
    destruct esc.
    + rewrite (IH _ _ rest H), omap_omap. reflexivity.
    + destruct (byteN c =? 92).
      * rewrite (IH _ _ rest H), omap_omap. reflexivity.
      * destruct (byteN c =? 34); [discriminate|].
        rewrite (IH _ _ rest H), omap_omap. reflexivity.
Qed.

Lemma scan_run_app l1 l2 e e1 : scan_run e l1 = Some e1 -> scan_run e (l1 ++ l2) = scan_run e1 l2.
Proof.
  revert e. induction l1 as [|c l1 IH]; intros e H; cbn in *.
  - now injection H as <-.
  - destruct e; [now apply IH|]. destruct (byteN c =? 92); [now apply IH|].
    destruct (byteN c =? 34); [discriminate|now apply IH].
Qed.

(** * pieces of an escaped string *)

Lemma unq_go_skip l t : unq_go (length l) (l ++ t) = unq_go 0 t.
Proof. induction l as [|c l IH]; [reflexivity|]. cbn [length app unq_go]. exact IH. Qed.

(** [p] is a self-contained part of a string body that the scanner accepts, that contains no closing
    quote, and that unquoteBytes turns into [out] *)
Record str_piece (p out : bytes) : Prop := {
  sp_scan : instr_run SInString p = Some SInString;
  sp_lit : scan_run false p = Some false;
  sp_unq : forall R, unq_go 0 (p ++ R) = omap (app out) (unq_go 0 R)
}.

Lemma str_piece_nil : str_piece [] [].
Proof. constructor; try reflexivity. intros R. cbn. destruct (unq_go 0 R); reflexivity. Qed.

Lemma str_piece_app p1 o1 p2 o2 : str_piece p1 o1 -> str_piece p2 o2 -> str_piece (p1 ++ p2) (o1 ++ o2).
Proof.
  intros [S1 L1 U1] [S2 L2 U2]. constructor.
  - now rewrite (instr_run_app _ _ _ _ S1).
  - now rewrite (scan_run_app _ _ _ _ L1).
  - intros R. rewrite <- app_assoc, U1, U2, omap_omap. apply omap_ext. intros a. apply app_assoc.
Qed.

(** an ASCII byte *)
Lemma str_piece_ascii c : byteN c < 128 -> str_piece (esc_ascii (byteN c)) [c].
Proof.
  intros H. constructor.
  - destruct c as [[] [] [] [] [] [] [] []]; try reflexivity; exfalso; vm_compute in H; discriminate H.
  - destruct c as [[] [] [] [] [] [] [] []]; try reflexivity; exfalso; vm_compute in H; discriminate H.
  - intros R.
    destruct c as [[] [] [] [] [] [] [] []];
      try (exfalso; vm_compute in H; discriminate H); clear H; reflexivity.
Qed.

(** an invalid byte: written as the six characters backslash-u-fffd, read back as U+FFFD *)
Lemma str_piece_bad : str_piece (B "\ufffd") rune_error_bytes.
Proof. constructor; try reflexivity. Qed.

Lemma all_high_instr ch : all_high ch -> instr_run SInString ch = Some SInString.
Proof.
  induction 1 as [|c ch Hc _ IH]; [reflexivity|]. cbn [instr_run instr_step].
  replace (byteN c =? 34) with false by lia. replace (byteN c =? 92) with false by lia.
  replace (byteN c <? 32) with false by lia. exact IH.
Qed.

Lemma all_high_scan ch : all_high ch -> scan_run false ch = Some false.
Proof.
  induction 1 as [|c ch Hc _ IH]; [reflexivity|]. cbn [scan_run].
  replace (byteN c =? 92) with false by lia. replace (byteN c =? 34) with false by lia. exact IH.
Qed.

(** a well-formed non-ASCII rune copied verbatim *)
Lemma str_piece_high ch r : rune_chunk ch r -> all_high ch -> str_piece ch ch.
Proof.
  intros RC AH. constructor.
  - now apply all_high_instr.
  - now apply all_high_scan.
  - intros R. destruct (rune_chunk_cons ch r RC) as (c & tl & -> & Ltl).
    assert (Hc : 128 <= byteN c) by (inversion AH; assumption).
    cbn [app unq_go].
    replace (byteN c =? 92) with false by lia.
    replace ((byteN c =? 34) || (byteN c <? 32)) with false by lia.
    replace (byteN c <? 128) with false by lia.
    change (c :: tl ++ R) with ((c :: tl) ++ R).
    rewrite (rc_dec _ _ RC). cbn [fst snd]. rewrite (rc_enc _ _ RC).
    rewrite <- Ltl, unq_go_skip. reflexivity.
Qed.

(** U+2028 / U+2029 *)
Lemma str_piece_2028 ch r : rune_chunk ch r -> (r =? 8232) || (r =? 8233) = true ->
  str_piece (B "\u202" ++ [hex_char_lower (r mod 16)]) ch.
Proof.
  intros RC E. rewrite <- (rc_enc _ _ RC).
  assert (H : r = 8232 \/ r = 8233) by lia.
  destruct H as [-> | ->]; constructor; try reflexivity.
Qed.

Lemma str_piece_esc_high ch r : rune_chunk ch r -> all_high ch -> str_piece (esc_high ch r) ch.
Proof.
  intros RC AH. unfold esc_high. destruct ((r =? 8232) || (r =? 8233)) eqn:E.
  - now apply str_piece_2028.
  - now apply (str_piece_high ch r).
Qed.

(** the whole body: appendString's output for [s] is accepted by the scanner, holds no bare quote, and
    unquotes to [s] with every invalid byte replaced by U+FFFD *)
Lemma str_piece_esc s : str_piece (esc_go 0 s) (sanitize_utf8 s).
Proof.
  unfold sanitize_utf8. induction (segs_all s) as [|c t E _ IH|ch r t RC _ IH].
  - exact str_piece_nil.
  - rewrite esc_go_bad, sanitize_go_bad by exact E. exact (str_piece_app _ _ _ _ str_piece_bad IH).
  - rewrite (sanitize_go_chunk _ _ _ RC).
    destruct (rc_shape _ _ RC) as [(c & -> & Hc & Hr)|(AH & _ & _)].
    + cbn [app]. rewrite esc_go_ascii by exact Hc.
      exact (str_piece_app _ _ _ _ (str_piece_ascii c Hc) IH).
    + rewrite (esc_go_high _ _ _ RC AH).
      exact (str_piece_app _ _ _ _ (str_piece_esc_high _ _ RC AH) IH).
Qed.

(** consequences used below *)
Lemma sc_run_string sc v rest : sc_step sc = SInString ->
  sc_run sc (esc_go 0 v ++ rest) = sc_run sc rest.
Proof.
  intros E. rewrite (instr_run_sound (esc_go 0 v) sc SInString rest).
  - destruct sc; cbn in *; now subst.
  - rewrite E. apply (sp_scan _ _ (str_piece_esc v)).
Qed.

Lemma scan_string_esc v rest : scan_string false (esc_go 0 v ++ dq :: rest) = Some (esc_go 0 v, rest).
Proof.
  rewrite (scan_run_sound _ false false (dq :: rest) (sp_lit _ _ (str_piece_esc v))).
  cbn. now rewrite app_nil_r.
Qed.

Lemma unq_esc v : unq_go 0 (esc_go 0 v) = Some (sanitize_utf8 v).
Proof.
  rewrite <- (app_nil_r (esc_go 0 v)), (sp_unq _ _ (str_piece_esc v)). cbn. now rewrite app_nil_r.
Qed.

(** * one object member *)

Definition fname (f : jfield) : bytes :=
  match f with
  | FDenom => B "denom" | FAmount => B "amount" | FSender => B "sender"
  | FReceiver => B "receiver" | FMemo => B "memo"
  end.

Definition colon : ascii := Nbyte 58.
Definition member (f : jfield) (v : bytes) : bytes := dq :: fname f ++ dq :: colon :: json_string v.

Lemma member_app f v R :
  member f v ++ R = dq :: fname f ++ dq :: colon :: dq :: esc_go 0 v ++ dq :: R.
Proof.
  unfold member, json_string. cbn [app]. f_equal. rewrite <- app_assoc. cbn [app]. do 4 f_equal.
  rewrite <- app_assoc. reflexivity.
Qed.

Lemma skip_ws_ns c l : is_space (byteN c) = false -> skip_ws (c :: l) = c :: l.
Proof. intros H. cbn [skip_ws]. now rewrite H. Qed.

Lemma scan_key f rest : scan_string false (fname f ++ dq :: rest) = Some (fname f, rest).
Proof. destruct f; reflexivity. Qed.
Lemma unq_key f : unq_go 0 (fname f) = Some (fname f).
Proof. destruct f; reflexivity. Qed.
Lemma field_key f : field_of_key (fname f) = Some f.
Proof. destruct f; reflexivity. Qed.

(** what happens after the value of a member *)
Definition after_member (x : JFTPD) (saved : bool) (R : bytes) : mstep :=
  match skip_ws R with
  | [] => MDone JPanic
  | sep :: r8 =>
      if byteN sep =? 125 then MDone (jfinish x saved)
      else if byteN sep =? 44 then MNext x saved r8
      else MDone JPanic
  end.

Lemma obj_member_step first x saved f v R :
  obj_member first x saved (member f v ++ R) = after_member (set_field x f (sanitize_utf8 v)) saved R.
Proof.
  rewrite member_app. unfold obj_member.
  rewrite skip_ws_ns by reflexivity. cbv iota beta.
  change (byteN dq =? 125) with false. rewrite andb_false_r. cbv iota.
  change (negb (byteN dq =? 34)) with false. cbv iota.
  rewrite scan_key. cbv iota beta.
  rewrite unq_key. cbv iota beta zeta. rewrite field_key.
  rewrite skip_ws_ns by reflexivity. cbv iota beta.
  change (negb (byteN colon =? 58)) with false. cbv iota.
  rewrite skip_ws_ns by reflexivity. cbv iota beta.
  unfold obj_value. change (byteN dq =? 34) with true. cbv iota beta zeta.
  rewrite scan_string_esc. cbv iota beta. rewrite unq_esc. cbv iota beta.
  reflexivity.
Qed.

(** * the whole object *)

Definition memb (p : jfield * bytes) : bytes := member (fst p) (snd p).
Definition comma : ascii := Nbyte 44.
Definition tailr (fs : list bytes) : bytes := concat (map (fun g => comma :: g) fs) ++ [Nbyte 125].

Definition keep (f : jfield) (v : bytes) : list (jfield * bytes) :=
  match v with [] => [] | _ => [(f, v)] end.

(** the fields structEncoder.encode writes: the non-empty ones, in declaration order *)
Definition mems (x : JFTPD) : list (jfield * bytes) :=
  keep FDenom (j_denom x) ++ keep FAmount (j_amount x) ++ keep FSender (j_sender x) ++
  keep FReceiver (j_receiver x) ++ keep FMemo (j_memo x).

Lemma marshal_shape x :
  json_marshal_ftpd x =
  match mems x with
  | [] => B "{}"
  | p :: ms => Nbyte 123 :: memb p ++ tailr (map memb ms)
  end.
Proof.
  destruct x as [d a s r m]. unfold json_marshal_ftpd, mems. cbn [j_denom j_amount j_sender j_receiver j_memo].
  destruct d, a, s, r, m; reflexivity.
Qed.

Definition jsan (x : JFTPD) : JFTPD :=
  mkJFTPD (sanitize_utf8 (j_denom x)) (sanitize_utf8 (j_amount x)) (sanitize_utf8 (j_sender x))
          (sanitize_utf8 (j_receiver x)) (sanitize_utf8 (j_memo x)).

Definition set_all (ms : list (jfield * bytes)) (x : JFTPD) : JFTPD :=
  fold_left (fun x p => set_field x (fst p) (sanitize_utf8 (snd p))) ms x.

Lemma set_all_mems x : set_all (mems x) jempty = jsan x.
Proof.
  destruct x as [d a s r m]. unfold mems, jsan. cbn [j_denom j_amount j_sender j_receiver j_memo].
  destruct d, a, s, r, m; reflexivity.
Qed.

Lemma tailr_cons g fs : tailr (g :: fs) = comma :: g ++ tailr fs.
Proof. unfold tailr. cbn [map concat app]. now rewrite <- app_assoc. Qed.

Lemma tailr_length fs : (length fs < length (tailr fs))%nat.
Proof.
  induction fs as [|g fs IH]; [cbn; lia|]. rewrite tailr_cons. cbn [length]. rewrite app_length. lia.
Qed.

Lemma obj_loop_members ms : forall p fuel first x saved, (length ms < fuel)%nat ->
  obj_loop fuel first x saved (memb p ++ tailr (map memb ms)) = jfinish (set_all (p :: ms) x) saved.
Proof.
  induction ms as [|q ms IH]; intros [f v] fuel first x saved Hf;
    (destruct fuel as [|fuel]; [lia|]); cbn [obj_loop]; unfold memb at 1; cbn [fst snd];
    rewrite obj_member_step.
  - reflexivity.
  - cbn [map]. rewrite tailr_cons. unfold after_member.
    rewrite skip_ws_ns by reflexivity. cbv iota beta.
    change (byteN comma =? 125) with false. change (byteN comma =? 44) with true. cbv iota.
    rewrite IH by (cbn in Hf; lia). reflexivity.
Qed.

(** ** the scanner accepts it *)

Lemma instr_key f : instr_run SInString (fname f) = Some SInString.
Proof. destruct f; reflexivity. Qed.

Lemma sc_run_member stp st d e f v R :
  stp = SBeginStringOrEmpty \/ stp = SBeginString ->
  sc_run (mkSc stp (PKey :: st) d e) (member f v ++ R) = sc_run (mkSc SEndValue (PVal :: st) d e) R.
Proof.
  intros Hs. rewrite member_app.
  assert (E1 : sc_run (mkSc stp (PKey :: st) d e) (dq :: fname f ++ dq :: colon :: dq :: esc_go 0 v ++ dq :: R) =
               sc_run (mkSc SInString (PKey :: st) d e) (fname f ++ dq :: colon :: dq :: esc_go 0 v ++ dq :: R)).
  { destruct Hs as [-> | ->]; reflexivity. }
  rewrite E1.
  rewrite (instr_run_sound (fname f) (mkSc SInString (PKey :: st) d e) SInString _ (instr_key f)).
  unfold sc_set. cbn [sc_stack sc_depth sc_endtop].
  change (sc_run (mkSc SInString (PKey :: st) d e) (dq :: colon :: dq :: esc_go 0 v ++ dq :: R))
    with (sc_run (mkSc SInString (PVal :: st) d e) (esc_go 0 v ++ dq :: R)).
  rewrite sc_run_string by reflexivity. reflexivity.
Qed.

Lemma sc_run_members ms : forall stp p,
  stp = SBeginStringOrEmpty \/ stp = SBeginString ->
  sc_run (mkSc stp [PKey] 1 false) (memb p ++ tailr (map memb ms)) = Some (mkSc SEndTop [] 0 true).
Proof.
  induction ms as [|q ms IH]; intros stp [f v] Hs; unfold memb at 1; cbn [fst snd];
    rewrite (sc_run_member _ _ _ _ _ _ _ Hs).
  - reflexivity.
  - cbn [map]. rewrite tailr_cons.
    change (sc_run (mkSc SEndValue [PVal] 1 false) (comma :: memb q ++ tailr (map memb ms)))
      with (sc_run (mkSc SBeginString [PKey] 1 false) (memb q ++ tailr (map memb ms))).
    apply IH. now right.
Qed.

Lemma check_valid_marshal x : check_valid (json_marshal_ftpd x) = true.
Proof.
  rewrite marshal_shape. destruct (mems x) as [|p ms]; [reflexivity|].
  unfold check_valid.
  change (sc_run sc_init (Nbyte 123 :: memb p ++ tailr (map memb ms)))
    with (sc_run (mkSc SBeginStringOrEmpty [PKey] 1 false) (memb p ++ tailr (map memb ms))).
  rewrite sc_run_members by now left. reflexivity.
Qed.

(** * C35 (JSON): theorems *)

(** Decoding the encoding of ANY value succeeds and returns the value with every byte that is not part of
    a well-formed UTF-8 sequence replaced by U+FFFD. *)
Theorem c35_json_roundtrip_sanitized x :
  json_unmarshal_ftpd (json_marshal_ftpd x) = JOk (jsan x).
Proof.
  unfold json_unmarshal_ftpd. rewrite check_valid_marshal. cbn [negb].
  rewrite marshal_shape, <- set_all_mems.
  destruct (mems x) as [|p ms]; [reflexivity|].
  rewrite skip_ws_ns by reflexivity.
  change (byteN (Nbyte 123) =? 123) with true. cbv iota.
  rewrite obj_loop_members; [reflexivity|].
  cbn [length]. rewrite app_length. pose proof (tailr_length (map memb ms)) as H.
  rewrite map_length in H. lia.
Qed.

Definition jvalid (x : JFTPD) : bool :=
  valid_utf8 (j_denom x) && valid_utf8 (j_amount x) && valid_utf8 (j_sender x) &&
  valid_utf8 (j_receiver x) && valid_utf8 (j_memo x).

Lemma jsan_valid x : jvalid x = true -> jsan x = x.
Proof.
  unfold jvalid. rewrite !andb_true_iff. intros ((((V1 & V2) & V3) & V4) & V5).
  destruct x as [d a s r m]. unfold jsan. cbn in *. now rewrite !sanitize_valid by assumption.
Qed.

(** Round trip: for every value whose five strings are valid UTF-8 (protobuf strings are), decoding the
    JSON encoding returns the same value. *)
Theorem c35_json_roundtrip x : jvalid x = true -> json_unmarshal_ftpd (json_marshal_ftpd x) = JOk x.
Proof. intros V. rewrite c35_json_roundtrip_sanitized. now rewrite jsan_valid. Qed.

(** Without the UTF-8 hypothesis the round trip is false of the faithful model (and of encoding/json):
    a byte 0xff comes back as EF BF BD. *)
Theorem c35_json_roundtrip_invalid_utf8_refuted :
  exists x, json_unmarshal_ftpd (json_marshal_ftpd x) <> JOk x.
Proof. exists (mkJFTPD (B "uatom") (B "1") (hx "ff") (B "r") []). vm_compute. discriminate. Qed.

(** the decoder commits on every encoder output (no panic site, no fuel exhaustion) *)
Theorem c35_json_decode_of_encode_defined x :
  json_unmarshal_ftpd (json_marshal_ftpd x) <> JPanic /\
  json_unmarshal_ftpd (json_marshal_ftpd x) <> JOutOfFuel /\
  json_unmarshal_ftpd (json_marshal_ftpd x) <> JErr /\
  json_unmarshal_ftpd (json_marshal_ftpd x) <> JNil.
Proof. rewrite c35_json_roundtrip_sanitized. repeat split; discriminate. Qed.

(** * fuel: the member loop never runs out, on any input *)

Lemma skip_ws_len s : (length (skip_ws s) <= length s)%nat.
Proof. induction s as [|c s IH]; cbn; [lia|]. destruct (is_space (byteN c)); cbn; lia. Qed.

Lemma scan_string_len s : forall esc raw rest, scan_string esc s = Some (raw, rest) -> (length rest < length s)%nat.
Proof.
  induction s as [|c s IH]; intros esc raw rest H; cbn in H; [discriminate|].
  assert (G : forall e, omap (fun p : bytes * bytes => (c :: fst p, snd p)) (scan_string e s) = Some (raw, rest) ->
                        (length rest < length (c :: s))%nat).
  { intros e0 H0. destruct (scan_string e0 s) as [[a b]|] eqn:E; [|discriminate].
    cbn in H0. injection H0 as _ <-. apply IH in E. cbn. lia. }
  destruct esc; [now apply (G false)|].
  destruct (byteN c =? 92); [now apply (G true)|].
  destruct (byteN c =? 34); [|now apply (G false)].
  injection H as _ <-. cbn. lia.
Qed.

Lemma skip_nested_len s : forall d i e rest, skip_nested d i e s = Some rest -> (length rest < length s)%nat.
Proof.
  induction s as [|c s IH]; intros d i e rest H; cbn in H; [discriminate|].
  cbn [length].
  repeat match type of H with
         | (if ?b then _ else _) = _ => destruct b
         end;
  try (apply IH in H; lia).
  injection H as <-. lia.
Qed.

Lemma skip_number_len s : (length (skip_number s) <= length s)%nat.
Proof. induction s as [|c s IH]; cbn; [lia|]. destruct (is_num_byte (byteN c)); cbn; lia. Qed.

Lemma skipn_len {A} n (s : list A) : (length (skipn n s) <= length s)%nat.
Proof. rewrite skipn_length. lia. Qed.

Lemma obj_value_len f x saved vb r5 x' saved' r6 :
  obj_value f x saved vb r5 = Some (x', saved', r6) -> (length r6 <= length r5)%nat.
Proof.
  unfold obj_value. intros H.
  destruct (vb =? 34).
  { destruct (scan_string false r5) as [[raw r]|] eqn:E; [|discriminate].
    apply scan_string_len in E.
    destruct f; [destruct (unq_go 0 raw); [|discriminate]|]; injection H as _ _ <-; lia. }
  destruct ((vb =? 123) || (vb =? 91)).
  { destruct (skip_nested 1 false false r5) eqn:E; [|discriminate].
    apply skip_nested_len in E. injection H as _ _ <-. lia. }
  destruct (vb =? 110); [injection H as _ _ <-; exact (skipn_len 3 r5)|].
  destruct (vb =? 116); [injection H as _ _ <-; exact (skipn_len 3 r5)|].
  destruct (vb =? 102); [injection H as _ _ <-; exact (skipn_len 4 r5)|].
  destruct ((vb =? 45) || is_dig vb); [injection H as _ _ <-; apply skip_number_len|discriminate].
Qed.

Lemma skip_ws_cons_len s c r : skip_ws s = c :: r -> (length r < length s)%nat.
Proof. intros E. pose proof (skip_ws_len s) as H. rewrite E in H. cbn in H. lia. Qed.

Lemma obj_member_next first x saved s x' saved' r8 :
  obj_member first x saved s = MNext x' saved' r8 -> (length r8 < length s)%nat.
Proof.
  unfold obj_member. intros H.
  destruct (skip_ws s) as [|c r] eqn:E0; [discriminate|]. apply skip_ws_cons_len in E0.
  destruct (first && (byteN c =? 125)); [discriminate|].
  destruct (negb (byteN c =? 34)); [discriminate|].
  destruct (scan_string false r) as [[rawkey r1]|] eqn:E1; [|discriminate]. apply scan_string_len in E1.
  destruct (unq_go 0 rawkey) as [key|]; [|discriminate].
  cbv zeta in H.
  destruct (skip_ws r1) as [|col r3] eqn:E2; [discriminate|]. apply skip_ws_cons_len in E2.
  destruct (negb (byteN col =? 58)); [discriminate|].
  destruct (skip_ws r3) as [|v r5] eqn:E3; [discriminate|]. apply skip_ws_cons_len in E3.
  destruct (obj_value _ x _ (byteN v) r5) as [[[x1 s1] r6]|] eqn:E4; [|discriminate].
  apply obj_value_len in E4.
  destruct (skip_ws r6) as [|sep r9] eqn:E5; [discriminate|]. apply skip_ws_cons_len in E5.
  destruct (byteN sep =? 125); [discriminate|].
  destruct (byteN sep =? 44); [|discriminate].
  injection H as _ _ <-. lia.
Qed.

Lemma jfinish_fuel x saved : jfinish x saved <> JOutOfFuel.
Proof. unfold jfinish. destruct saved; discriminate. Qed.

Lemma obj_member_done_fuel first x saved s r : obj_member first x saved s = MDone r -> r <> JOutOfFuel.
Proof.
  unfold obj_member. intros H.
  destruct (skip_ws s) as [|c r0]; [injection H as <-; discriminate|].
  destruct (first && (byteN c =? 125)); [injection H as <-; apply jfinish_fuel|].
  destruct (negb (byteN c =? 34)); [injection H as <-; discriminate|].
  destruct (scan_string false r0) as [[rawkey r1]|]; [|injection H as <-; discriminate].
  destruct (unq_go 0 rawkey) as [key|]; [|injection H as <-; discriminate].
  cbv zeta in H.
  destruct (skip_ws r1) as [|col r3]; [injection H as <-; discriminate|].
  destruct (negb (byteN col =? 58)); [injection H as <-; discriminate|].
  destruct (skip_ws r3) as [|v r5]; [injection H as <-; discriminate|].
  destruct (obj_value _ x _ (byteN v) r5) as [[[x1 s1] r6]|]; [|injection H as <-; discriminate].
  destruct (skip_ws r6) as [|sep r9]; [injection H as <-; discriminate|].
  destruct (byteN sep =? 125); [injection H as <-; apply jfinish_fuel|].
  destruct (byteN sep =? 44); [discriminate|injection H as <-; discriminate].
Qed.

Lemma obj_loop_fuel fuel : forall first x saved s, (length s < fuel)%nat ->
  obj_loop fuel first x saved s <> JOutOfFuel.
Proof.
  induction fuel as [|fuel IH]; intros first x saved s H; [lia|].
  cbn [obj_loop]. destruct (obj_member first x saved s) as [r|x' saved' r8] eqn:E.
  - now apply obj_member_done_fuel in E.
  - apply obj_member_next in E. apply IH. lia.
Qed.

(** json_unmarshal_ftpd never reports fuel exhaustion: [JOutOfFuel] is not an outcome. *)
Theorem c35_json_decode_fuel_ok bz : json_unmarshal_ftpd bz <> JOutOfFuel.
Proof.
  unfold json_unmarshal_ftpd. destruct (negb (check_valid bz)); [discriminate|].
  destruct (skip_ws bz) as [|c r] eqn:E; [discriminate|]. apply skip_ws_cons_len in E.
  destruct (byteN c =? 123); [|destruct (byteN c =? 110); discriminate].
  apply obj_loop_fuel. exact E.
Qed.

(** decoding is a total function with four possible outcomes *)
Theorem c35_json_decode_total bz :
  (exists x, json_unmarshal_ftpd bz = JOk x) \/ json_unmarshal_ftpd bz = JNil \/
  json_unmarshal_ftpd bz = JErr \/ json_unmarshal_ftpd bz = JPanic.
Proof.
  pose proof (c35_json_decode_fuel_ok bz) as H.
  destruct (json_unmarshal_ftpd bz); eauto; contradiction.
Qed.

(** * the encoder's output is valid UTF-8 whatever the field bytes are *)

Definition ascii_bytes (l : bytes) : bool := forallb (fun c => byteN c <? 128) l.

Lemma valid_go_ascii l t : ascii_bytes l = true -> valid_go 0 (l ++ t) = valid_go 0 t.
Proof.
  induction l as [|c l IH]; intros H; [reflexivity|].
  cbn [ascii_bytes forallb] in H. apply andb_true_iff in H as [Hc Hl].
  cbn [app valid_go]. unfold dec_rune. cbv zeta. rewrite Hc.
  unfold dec_is_error, rune_error. cbn [fst snd Nat.eqb Nat.sub].
  replace (byteN c =? 65533) with false by lia. cbn [andb]. now apply IH.
Qed.

Lemma esc_ascii_ascii c : byteN c < 128 -> ascii_bytes (esc_ascii (byteN c)) = true.
Proof.
  intros H. destruct c as [[] [] [] [] [] [] [] []]; try reflexivity; exfalso; vm_compute in H; discriminate H.
Qed.

Lemma valid_esc s t : valid_go 0 (esc_go 0 s ++ t) = valid_go 0 t.
Proof.
  induction (segs_all s) as [|c u E _ IH|ch r u RC _ IH].
  - reflexivity.
  - rewrite esc_go_bad by exact E. rewrite <- app_assoc, valid_go_ascii by reflexivity. exact IH.
  - destruct (rc_shape _ _ RC) as [(c & -> & Hc & Hr)|(AH & _ & _)].
    + cbn [app]. rewrite esc_go_ascii by exact Hc.
      rewrite <- app_assoc, valid_go_ascii by now apply esc_ascii_ascii. exact IH.
    + rewrite (esc_go_high _ _ _ RC AH), <- app_assoc. unfold esc_high.
      destruct ((r =? 8232) || (r =? 8233)) eqn:E.
      * assert (H : r = 8232 \/ r = 8233) by lia.
        rewrite valid_go_ascii; [exact IH|]. destruct H as [-> | ->]; reflexivity.
      * rewrite (valid_go_chunk _ _ _ RC). exact IH.
Qed.

Lemma valid_member f v R : valid_go 0 (member f v ++ R) = valid_go 0 R.
Proof.
  rewrite member_app.
  assert (E : dq :: fname f ++ dq :: colon :: dq :: esc_go 0 v ++ dq :: R =
              (dq :: fname f ++ [dq; colon; dq]) ++ esc_go 0 v ++ [dq] ++ R).
  { destruct f; reflexivity. }
  rewrite E. rewrite valid_go_ascii by (destruct f; reflexivity).
  rewrite valid_esc. now rewrite valid_go_ascii by reflexivity.
Qed.

Lemma valid_tailr ms : valid_go 0 (tailr (map memb ms)) = true.
Proof.
  induction ms as [|[f v] ms IH]; [reflexivity|].
  cbn [map]. rewrite tailr_cons. unfold memb at 1. cbn [fst snd].
  change (comma :: member f v ++ tailr (map memb ms)) with ([comma] ++ member f v ++ tailr (map memb ms)).
  rewrite valid_go_ascii by reflexivity. now rewrite valid_member.
Qed.

(** json.Marshal output is valid UTF-8 even when the strings are not. *)
Theorem c35_json_marshal_valid_utf8 x : valid_utf8 (json_marshal_ftpd x) = true.
Proof.
  unfold valid_utf8. rewrite marshal_shape. destruct (mems x) as [|[f v] ms]; [reflexivity|].
  change (Nbyte 123 :: memb (f, v) ++ tailr (map memb ms)) with ([Nbyte 123] ++ member f v ++ tailr (map memb ms)).
  rewrite valid_go_ascii by reflexivity. rewrite valid_member. apply valid_tailr.
Qed.

(** the value that comes back is always valid UTF-8 *)
Theorem c35_json_decoded_fields_valid x : jvalid (jsan x) = true.
Proof. unfold jvalid, jsan. cbn. now rewrite !sanitize_is_valid. Qed.

(** * non-vacuity: quotes, backslash, '<', control bytes, DEL, unicode incl. U+2028, an emoji *)
Definition c35_json_example : JFTPD :=
  mkJFTPD (B "transfer/channel-0/uatom") (B "100")
          (hx "6122625c633c3e26") (hx "000a1f7fc3a9e280a8e280a9f09f9880efbfbd") [].

Example c35_json_example_ok :
  jvalid c35_json_example = true /\
  json_marshal_ftpd c35_json_example =
    hx "7b2264656e6f6d223a227472616e736665722f6368616e6e656c2d302f7561746f6d222c22616d6f756e74223a22313030222c2273656e646572223a22615c22625c5c635c75303033635c75303033655c7530303236222c227265636569766572223a225c75303030305c6e5c75303031667fc3a95c75323032385c7532303239f09f9880efbfbd227d" /\
  json_unmarshal_ftpd (json_marshal_ftpd c35_json_example) = JOk c35_json_example.
Proof. vm_compute. repeat split. Qed.

Print Assumptions c35_json_roundtrip.
Print Assumptions c35_json_roundtrip_sanitized.
Print Assumptions c35_json_roundtrip_invalid_utf8_refuted.
Print Assumptions c35_json_decode_fuel_ok.
Print Assumptions c35_json_marshal_valid_utf8.
