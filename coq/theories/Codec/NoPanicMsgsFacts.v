(** C47 — proofs about Codec/NoPanicMsgs.v *)
From IBC Require Import Lib.Bytes Lib.BytesFacts Lib.Dec Lib.DecFacts Core.Height
  Codec.NoPanicBase Codec.NoPanicBaseFacts Codec.NoPanicMsgs.
From Coq Require Import ZifyBool ZifyN ZifyNat.
Local Open Scope N_scope.

Ltac sb := apply safe_bind; [|intros ? _].

Lemma signer_check_safe b : safe (signer_check b). Proof. destruct b; exact I. Qed.
Lemma nonempty_safe b : safe (nonempty_check b). Proof. unfold nonempty_check. destruct (_ =? _); exact I. Qed.
Lemma valid_channel_id_check_safe c : safe (valid_channel_id_check c).
Proof.
  unfold valid_channel_id_check. destruct (is_valid_channel_id_total c) as [b ->]. cbn. destruct b; exact I.
Qed.
#[export] Hint Resolve signer_check_safe nonempty_safe valid_channel_id_check_safe : np.

Lemma counterparty_validate_basic_safe c : safe (counterparty_validate_basic c).
Proof.
  unfold counterparty_validate_basic. sb; [auto with np|]. destruct (negb _); auto with np.
Qed.

Lemma channel_validate_basic_safe ch : safe (channel_validate_basic ch).
Proof.
  unfold channel_validate_basic.
  destruct (ch_state ch =? 0); [exact I|].
  destruct (negb _); [exact I|].
  destruct (Z.eqb_spec (zlen (ch_hops ch)) 1) as [E|E]; cbn [negb]; [|exact I].
  idx_ok (ch_hops ch) 0%Z.
  sb; [auto with np|]. apply counterparty_validate_basic_safe.
Qed.

Lemma packet_validate_basic_safe p : safe (packet_validate_basic p).
Proof.
  unfold packet_validate_basic.
  sb; [auto with np|]. sb; [auto with np|]. sb; [auto with np|]. sb; [auto with np|].
  split_ifs; exact I.
Qed.
#[export] Hint Resolve counterparty_validate_basic_safe channel_validate_basic_safe packet_validate_basic_safe : np.

Lemma msg_v1_validate_basic_safe m : safe (msg_v1_validate_basic m).
Proof.
  destruct m; cbn [msg_v1_validate_basic].
  - sb; [auto with np|]. destruct (negb _); [exact I|]. destruct (negb _); [exact I|]. sb; auto with np.
  - sb; [auto with np|]. destruct (negb _); [exact I|]. sb; [auto with np|].
    destruct (negb _); [exact I|]. sb; [auto with np|]. sb; auto with np.
  - sb; [auto with np|]. sb; [auto with np|]. sb; [auto with np|]. sb; auto with np.
  - sb; [auto with np|]. sb; [auto with np|]. sb; auto with np.
  - sb; [auto with np|]. sb; auto with np.
  - sb; [auto with np|]. sb; [auto with np|]. sb; auto with np.
  - sb; [auto with np|]. sb; auto with np.
  - sb; [auto with np|]. destruct (_ =? _); [exact I|]. sb; auto with np.
  - destruct (_ =? _); [exact I|]. sb; [auto with np|]. sb; [auto with np|]. sb; auto with np.
  - sb; [auto with np|]. sb; [auto with np|]. sb; auto with np.
Qed.

(** the ConnectionHops[0] access is what the length guard protects: without hops the guard returns Err *)
Lemma channel_validate_basic_no_hops st o cp : channel_validate_basic (mkChan st o cp []) <> Ok tt.
Proof.
  unfold channel_validate_basic. cbn [ch_state ch_ordering ch_hops ch_cp].
  destruct (st =? 0); [discriminate|]. destruct (negb _); [discriminate|]. cbn. discriminate.
Qed.

(** ---------------------------------------------------------------- v2 *)
Lemma payload_validate_basic_safe p : safe (payload_validate_basic p).
Proof.
  unfold payload_validate_basic. sb; [auto with np|]. sb; [auto with np|]. split_ifs; exact I.
Qed.
#[export] Hint Resolve payload_validate_basic_safe : np.

Lemma payloads_validate_safe ps t : safe (payloads_validate ps t).
Proof.
  revert t. induction ps as [|p ps IH]; intros t; [exact I|]. cbn [payloads_validate]. sb; auto with np.
Qed.
Lemma payloads_each_safe ps : safe (payloads_each ps).
Proof. induction ps as [|p ps IH]; [exact I|]. cbn [payloads_each]. sb; auto with np. Qed.

Lemma packet_v2_validate_basic_safe p : safe (packet_v2_validate_basic p).
Proof.
  unfold packet_v2_validate_basic. destruct (_ =? _)%Z; [exact I|].
  sb; [apply payloads_validate_safe|]. destruct (_ <? _); [exact I|].
  sb; [auto with np|]. sb; [auto with np|]. split_ifs; exact I.
Qed.

Lemma app_acks_validate_safe u m acks : safe (app_acks_validate u m acks).
Proof. induction acks as [|a r IH]; [exact I|]. cbn [app_acks_validate]. split_ifs; auto; exact I. Qed.
Lemma ack_v2_validate_safe u acks : safe (ack_v2_validate u acks).
Proof. unfold ack_v2_validate. destruct (_ =? _)%Z; [exact I|apply app_acks_validate_safe]. Qed.
#[export] Hint Resolve payloads_validate_safe payloads_each_safe packet_v2_validate_basic_safe ack_v2_validate_safe : np.

Lemma msg_v2_validate_basic_safe u m : safe (msg_v2_validate_basic u m).
Proof.
  destruct m; cbn [msg_v2_validate_basic].
  - sb; [auto with np|]. destruct (_ =? _); [exact I|]. destruct (_ =? _)%Z; [exact I|]. sb; auto with np.
  - sb; [auto with np|]. sb; auto with np.
  - sb; [auto with np|]. sb; [auto with np|]. sb; auto with np.
  - sb; [auto with np|]. sb; auto with np.
Qed.

(** ---------------------------------------------------------------- client messages *)
Lemma validate_client_type_safe t : safe (validate_client_type t).
Proof.
  unfold validate_client_type. destruct (go_blank t); [exact I|].
  destruct (is_valid_client_id_total (t ++ dash :: B "0")) as [b ->]. cbn [bind].
  destruct b; cbn [negb]; [|exact I]. sb; auto with np.
Qed.

Lemma unpack_safe {A} (a : AnyP A) : safe (unpack a).
Proof. destruct a as [|n [|x]]; exact I. Qed.

Lemma res_safe_iff {A} (r : res A) : res_safe r = true <-> safe r.
Proof. destruct r; cbn; intuition discriminate. Qed.

(** MsgCreateClient dereferences msg.ClientState before UnpackClientState's nil check *)
Lemma msg_client_validate_basic_refuted : exists m, msg_client_validate_basic m = Panic.
Proof. exists (CreateClient true AnyNil AnyNil). reflexivity. Qed.

Lemma create_client_nil_client_state_panics cst :
  msg_client_validate_basic (CreateClient true AnyNil cst) = Panic.
Proof. reflexivity. Qed.

Lemma create_client_nil_consensus_state_panics n t :
  msg_client_validate_basic (CreateClient true (AnyVal n (CVal (mkCS t (Ok tt)))) AnyNil) = Panic \/
  32768 < n.
Proof.
  cbn. destruct (32768 <? n) eqn:E; [right; lia|left; reflexivity].
Qed.

Lemma msg_client_validate_basic_guarded m :
  msg_client_derefs_ok m = true -> msg_client_externals_safe m = true -> safe (msg_client_validate_basic m).
Proof.
  destruct m as [sg cs cst|sg cm cid|cs cst pc pcs sg cid|sg a b|sg up plan|sg cid];
    cbn [msg_client_validate_basic msg_client_derefs_ok msg_client_externals_safe]; intros Hd He.
  - sb; [auto with np|].
    destruct cs as [|n c]; [discriminate|]. cbn [any_value_len bind].
    destruct (_ <? _); [exact I|].
    destruct c as [|clientState]; [exact I|]. cbn [unpack bind].
    apply andb_true_iff in He. destruct He as [He1 He2]. cbn [any_safe] in He1.
    apply res_safe_iff in He1. sb; [exact He1|].
    destruct cst as [|n2 c2]; [discriminate|]. cbn [any_value_len bind].
    destruct (_ <? _); [exact I|].
    destruct c2 as [|consensusState]; [exact I|]. cbn [unpack bind].
    destruct (negb _); [exact I|].
    sb; [apply validate_client_type_safe|].
    cbn [any_safe] in He2. apply res_safe_iff in He2. exact He2.
  - sb; [auto with np|].
    destruct cm as [|n [|r]]; try exact I. cbn [unpack bind].
    apply res_safe_iff in He. sb; [exact He|]. auto with np.
  - sb; [apply unpack_safe|]. sb; [apply unpack_safe|]. destruct (negb _); [exact I|].
    sb; [auto with np|]. sb; [auto with np|]. sb; auto with np.
  - sb; [auto with np|]. sb; [auto with np|]. sb; [auto with np|]. destruct (bytes_eqb a b); exact I.
  - sb; [auto with np|]. sb; [apply unpack_safe|]. destruct (negb _); [exact I|].
    apply res_safe_iff in He. exact He.
  - sb; [auto with np|]. sb; [auto with np|].
    destruct (is_valid_client_id_total cid) as [b ->]. cbn [bind]. destruct b; exact I.
Qed.

(** every message other than MsgCreateClient is panic-free as soon as the light-client methods it calls are *)
Lemma msg_client_validate_basic_only_create m :
  msg_client_externals_safe m = true -> msg_client_validate_basic m = Panic ->
  exists sg cs cst, m = CreateClient sg cs cst /\ (cs = AnyNil \/ cst = AnyNil).
Proof.
  intros He Hp.
  destruct (msg_client_derefs_ok m) eqn:Hd.
  - pose proof (msg_client_validate_basic_guarded m Hd He) as S. rewrite Hp in S. contradiction.
  - destruct m; cbn in Hd; try discriminate.
    exists signer_ok, client_state, consensus_state. split; [reflexivity|].
    destruct client_state; [left; reflexivity|]. destruct consensus_state; [right; reflexivity|discriminate].
Qed.

Definition ok_chan : Channel := mkChan 1 1 (mkCp (B "transfer") []) [B "connection-0"].
Definition ok_pkt : Packet := mkPkt 1 (B "transfer") (B "channel-0") (B "transfer") (B "channel-1") (B "x") (mkH 0 0) 5.
Example msgs_nonvacuous :
  msg_v1_validate_basic (ChanOpenInit (B "transfer") ok_chan true) = Ok tt /\
  msg_v1_validate_basic (ChanOpenInit (B "transfer") (mkChan 1 1 (mkCp (B "transfer") []) []) true) = Err /\
  msg_v1_validate_basic (RecvPacket ok_pkt (B "p") true) = Ok tt /\
  msg_v1_validate_basic (RecvPacket ok_pkt [] true) = Err /\
  msg_v2_validate_basic [] (RecvPacket2 (mkPkt2 1 (B "07-tendermint-0") (B "07-tendermint-1") 9
      [mkPl (B "transfer") (B "transfer") (B "ics20-1") (B "application/json") (B "{}")]) (B "p") true) = Ok tt /\
  msg_v2_validate_basic [] (RecvPacket2 (mkPkt2 1 (B "07-tendermint-0") (B "07-tendermint-1") 9 []) (B "p") true) = Err /\
  msg_client_validate_basic (CreateClient true (AnyVal 10 (CVal (mkCS (B "07-tendermint") (Ok tt))))
                                               (AnyVal 10 (CVal (mkCS (B "07-tendermint") (Ok tt))))) = Ok tt /\
  msg_client_validate_basic (CreateClient true (AnyVal 10 CNone) AnyNil) = Err /\
  validate_client_type (B "07-tendermint") = Ok tt /\ validate_client_type (B "-bad") = Err.
Proof. vm_compute. repeat split; reflexivity. Qed.
