(** C47 — proofs about Codec/NoPanicMsgs.v *)
From IBC Require Import Lib.Bytes Lib.BytesFacts Lib.Dec Lib.DecFacts Core.Height
  Codec.NoPanicBase Codec.NoPanicBaseFacts Codec.NoPanicMsgs.
From Coq Require Import ZifyBool ZifyN ZifyNat.
Local Open Scope N_scope.

Ltac sb := apply safe_bind; [|intros ? _].

Lemma signer_check_safe b : safe (signer_check b). Proof. destruct b; exact I. Qed.
Lemma nonempty_safe b : safe (nonempty_check b). Proof. unfold nonempty_check. destruct (_ =? _); exact I. Qed.
Lemma valid_channel_id_check_safe c : safe (valid_channel_id_check c).
Proof.
  unfold valid_channel_id_check. destruct (is_valid_channel_id_total c) as [b ->]. cbn. destruct b; exact I.
Qed.
#[export] Hint Resolve signer_check_safe nonempty_safe valid_channel_id_check_safe : np.

Lemma counterparty_validate_basic_safe c : safe (counterparty_validate_basic c).
Proof.
  unfold counterparty_validate_basic. sb; [auto with np|]. destruct (negb _); auto with np.
Qed.

Lemma channel_validate_basic_safe ch : safe (channel_validate_basic ch).
Proof.
  unfold channel_validate_basic.
  destruct (ch_state ch =? 0); [exact I|].
  destruct (negb _); [exact I|].
  destruct (Z.eqb_spec (zlen (ch_hops ch)) 1) as [E|E]; cbn [negb]; [|exact I].
  idx_ok (ch_hops ch) 0%Z.
  sb; [auto with np|]. apply counterparty_validate_basic_safe.
Qed.

Lemma packet_validate_basic_safe p : safe (packet_validate_basic p).
Proof.
  unfold packet_validate_basic.
  sb; [auto with np|]. sb; [auto with np|]. sb; [auto with np|]. sb; [auto with np|].
  split_ifs; exact I.
Qed.
#[export] Hint Resolve counterparty_validate_basic_safe channel_validate_basic_safe packet_validate_basic_safe : np.

Lemma msg_v1_validate_basic_safe m : safe (msg_v1_validate_basic m).
Proof.
  destruct m; cbn [msg_v1_validate_basic].
  - sb; [auto with np|]. destruct (negb _); [exact I|]. destruct (negb _); [exact I|]. sb; auto with np.
  - sb; [auto with np|]. destruct (negb _); [exact I|]. sb; [auto with np|].
    destruct (negb _); [exact I|]. sb; [auto with np|]. sb; auto with np.
  - sb; [auto with np|]. sb; [auto with np|]. sb; [auto with np|]. sb; auto with np.
  - sb; [auto with np|]. sb; [auto with np|]. sb; auto with np.
  - sb; [auto with np|]. sb; auto with np.
  - sb; [auto with np|]. sb; [auto with np|]. sb; auto with np.
  - sb; [auto with np|]. sb; auto with np.
  - sb; [auto with np|]. destruct (_ =? _); [exact I|]. sb; auto with np.
  - destruct (_ =? _); [exact I|]. sb; [auto with np|]. sb; [auto with np|]. sb; auto with np.
  - sb; [auto with np|]. sb; [auto with np|]. sb; auto with np.
Qed.

(** the ConnectionHops[0] access is what the length guard protects: without hops the guard returns Err *)
Lemma channel_validate_basic_no_hops st o cp : channel_validate_basic (mkChan st o cp []) <> Ok tt.
Proof.
  unfold channel_validate_basic. cbn [ch_state ch_ordering ch_hops ch_cp].
  destruct (st =? 0); [discriminate|]. destruct (negb _); [discriminate|]. cbn. discriminate.
Qed.

(** ---------------------------------------------------------------- v2 *)
Lemma payload_validate_basic_safe p : safe (payload_validate_basic p).
Proof.
  unfold payload_validate_basic. sb; [auto with np|]. sb; [auto with np|]. split_ifs; exact I.
Qed.
#[export] Hint Resolve payload_validate_basic_safe : np.

Lemma payloads_validate_safe ps t : safe (payloads_validate ps t).
Proof.
  revert t. induction ps as [|p ps IH]; intros t; [exact I|]. cbn [payloads_validate]. sb; auto with np.
Qed.
Lemma payloads_each_safe ps : safe (payloads_each ps).
Proof. induction ps as [|p ps IH]; [exact I|]. cbn [payloads_each]. sb; auto with np. Qed.

Lemma packet_v2_validate_basic_safe p : safe (packet_v2_validate_basic p).
Proof.
  unfold packet_v2_validate_basic. destruct (_ =? _)%Z; [exact I|].
  sb; [apply payloads_validate_safe|]. destruct (_ <? _); [exact I|].
  sb; [auto with np|]. sb; [auto with np|]. split_ifs; exact I.
Qed.

Lemma app_acks_validate_safe u m acks : safe (app_acks_validate u m acks).
Proof. induction acks as [|a r IH]; [exact I|]. cbn [app_acks_validate]. split_ifs; auto; exact I. Qed.
Lemma ack_v2_validate_safe u acks : safe (ack_v2_validate u acks).
Proof. unfold ack_v2_validate. destruct (_ =? _)%Z; [exact I|apply app_acks_validate_safe]. Qed.
#[export] Hint Resolve payloads_validate_safe payloads_each_safe packet_v2_validate_basic_safe ack_v2_validate_safe : np.

Lemma msg_v2_validate_basic_safe u m : safe (msg_v2_validate_basic u m).
Proof.
  destruct m; cbn [msg_v2_validate_basic].
  - sb; [auto with np|]. destruct (_ =? _); [exact I|]. destruct (_ =? _)%Z; [exact I|]. sb; auto with np.
  - sb; [auto with np|]. sb; auto with np.
  - sb; [auto with np|]. sb; [auto with np|]. sb; auto with np.
  - sb; [auto with np|]. sb; auto with np.
Qed.

(** ---------------------------------------------------------------- client messages *)
Lemma validate_client_type_safe t : safe (validate_client_type t).
Proof.
  unfold validate_client_type. destruct (go_blank t); [exact I|].
  destruct (is_valid_client_id_total (t ++ dash :: B "0")) as [b ->]. cbn [bind].
  destruct b; cbn [negb]; [|exact I]. sb; auto with np.
Qed.

Lemma unpack_safe {A} (a : AnyP A) : safe (unpack a).
Proof. destruct a as [|n [|x]]; exact I. Qed.

Lemma res_safe_iff {A} (r : res A) : res_safe r = true <-> safe r.
Proof. destruct r; cbn; intuition discriminate. Qed.

Lemma any_too_large_total {A} (a : AnyP A) mx : exists b, any_too_large a mx = Ok b.
Proof. destruct a; cbn; eauto. Qed.

(** MsgCreateClient with an absent client_state / consensus_state is rejected with an error (no dereference) *)
Lemma create_client_nil_client_state_errs sg cst :
  msg_client_validate_basic (CreateClient sg AnyNil cst) = Err.
Proof. destruct sg; reflexivity. Qed.

Lemma create_client_nil_consensus_state_errs n t v :
  v = Ok tt \/ v = Err ->
  msg_client_validate_basic (CreateClient true (AnyVal n (CVal (mkCS t v))) AnyNil) = Err.
Proof.
  intros [-> | ->]; cbn; destruct (32768 <? n); reflexivity.
Qed.

(** every client message is panic-free as soon as the light-client methods it calls are *)
Lemma msg_client_validate_basic_safe m :
  msg_client_externals_safe m = true -> safe (msg_client_validate_basic m).
Proof.
  destruct m as [sg cs cst|sg cm cid|cs cst pc pcs sg cid|sg a b|sg up plan|sg cid];
    cbn [msg_client_validate_basic msg_client_externals_safe]; intros He.
  - sb; [auto with np|].
    destruct (any_too_large_total cs 32768) as [big ->]. cbn [bind].
    destruct big; [exact I|].
    apply andb_true_iff in He. destruct He as [He1 He2].
    destruct cs as [|n [|clientState]]; try exact I. cbn [unpack bind].
    cbn [any_safe] in He1. apply res_safe_iff in He1. sb; [exact He1|].
    destruct (any_too_large_total cst 32768) as [big2 ->]. cbn [bind].
    destruct big2; [exact I|].
    destruct cst as [|n2 [|consensusState]]; try exact I. cbn [unpack bind].
    destruct (negb _); [exact I|].
    sb; [apply validate_client_type_safe|].
    cbn [any_safe] in He2. apply res_safe_iff in He2. exact He2.
  - sb; [auto with np|].
    destruct cm as [|n [|r]]; try exact I. cbn [unpack bind].
    apply res_safe_iff in He. sb; [exact He|]. auto with np.
  - sb; [apply unpack_safe|]. sb; [apply unpack_safe|]. destruct (negb _); [exact I|].
    sb; [auto with np|]. sb; [auto with np|]. sb; auto with np.
  - sb; [auto with np|]. sb; [auto with np|]. sb; [auto with np|]. destruct (bytes_eqb a b); exact I.
  - sb; [auto with np|]. sb; [apply unpack_safe|]. destruct (negb _); [exact I|].
    apply res_safe_iff in He. exact He.
  - sb; [auto with np|]. sb; [auto with np|].
    destruct (is_valid_client_id_total cid) as [b ->]. cbn [bind]. destruct b; exact I.
Qed.

(** a panic of a client message can only come from a light-client method it calls *)
Lemma msg_client_validate_basic_panic_external m :
  msg_client_validate_basic m = Panic -> msg_client_externals_safe m = false.
Proof.
  intros Hp. destruct (msg_client_externals_safe m) eqn:He; [|reflexivity].
  pose proof (msg_client_validate_basic_safe m He) as S. rewrite Hp in S. contradiction.
Qed.

(** ---------------------------------------------------------------- solo machine misbehaviour *)
Lemma sig_data_validate_basic_safe sd : safe (sig_data_validate_basic sd).
Proof. unfold sig_data_validate_basic. split_ifs; exact I. Qed.

Lemma solo_misbehaviour_validate_basic_safe seq s1 s2 : safe (solo_misbehaviour_validate_basic seq s1 s2).
Proof.
  unfold solo_misbehaviour_validate_basic.
  destruct (seq =? 0); [exact I|].
  destruct s1 as [a|]; cbn [is_nil orb]; [|exact I].
  destruct s2 as [b|]; cbn [is_nil]; [|exact I].
  cbn [ptr_deref bind]. sb; [apply sig_data_validate_basic_safe|]. sb; [apply sig_data_validate_basic_safe|].
  split_ifs; exact I.
Qed.

Lemma solo_misbehaviour_nil_sig_errs seq s : 
  solo_misbehaviour_validate_basic seq None s <> Ok tt /\ solo_misbehaviour_validate_basic seq s None <> Ok tt /\
  solo_misbehaviour_validate_basic seq None s <> Panic /\ solo_misbehaviour_validate_basic seq s None <> Panic.
Proof.
  unfold solo_misbehaviour_validate_basic. destruct (seq =? 0); [repeat split; discriminate|].
  destruct s; cbn; repeat split; discriminate.
Qed.

Definition ok_chan : Channel := mkChan 1 1 (mkCp (B "transfer") []) [B "connection-0"].
Definition ok_pkt : Packet := mkPkt 1 (B "transfer") (B "channel-0") (B "transfer") (B "channel-1") (B "x") (mkH 0 0) 5.
Example msgs_nonvacuous :
  msg_v1_validate_basic (ChanOpenInit (B "transfer") ok_chan true) = Ok tt /\
  msg_v1_validate_basic (ChanOpenInit (B "transfer") (mkChan 1 1 (mkCp (B "transfer") []) []) true) = Err /\
  msg_v1_validate_basic (RecvPacket ok_pkt (B "p") true) = Ok tt /\
  msg_v1_validate_basic (RecvPacket ok_pkt [] true) = Err /\
  msg_v2_validate_basic [] (RecvPacket2 (mkPkt2 1 (B "07-tendermint-0") (B "07-tendermint-1") 9
      [mkPl (B "transfer") (B "transfer") (B "ics20-1") (B "application/json") (B "{}")]) (B "p") true) = Ok tt /\
  msg_v2_validate_basic [] (RecvPacket2 (mkPkt2 1 (B "07-tendermint-0") (B "07-tendermint-1") 9 []) (B "p") true) = Err /\
  msg_client_validate_basic (CreateClient true (AnyVal 10 (CVal (mkCS (B "07-tendermint") (Ok tt))))
                                               (AnyVal 10 (CVal (mkCS (B "07-tendermint") (Ok tt))))) = Ok tt /\
  msg_client_validate_basic (CreateClient true (AnyVal 10 CNone) AnyNil) = Err /\
  msg_client_validate_basic (CreateClient true AnyNil AnyNil) = Err /\
  solo_misbehaviour_validate_basic 1 (Some (mkSD (B "s1") (B "d1") (B "p") 5)) (Some (mkSD (B "s2") (B "d2") (B "p") 5)) = Ok tt /\
  solo_misbehaviour_validate_basic 1 None (Some (mkSD (B "s2") (B "d2") (B "p") 5)) = Err /\
  validate_client_type (B "07-tendermint") = Ok tt /\ validate_client_type (B "-bad") = Err.
Proof. vm_compute. repeat split; reflexivity. Qed.
