(** Facts about the proto3 model of FungibleTokenPacketData (Codec/Proto.v). *)
From IBC Require Import Lib.Bytes Lib.BytesFacts Lib.Dec Lib.BE64 Lib.BE64Facts Codec.Abi Codec.AbiFacts Codec.Proto.
Local Open Scope N_scope.

Lemma byteN_ascii y : y < 256 -> byteN (ascii_of_N y) = y.
Proof. apply byte_embed. Qed.

Lemma two64_pow : two64 = 2 ^ 64.
Proof. reflexivity. Qed.

(** * varints *)

Lemma varint_enc_fuel_S f v :
  varint_enc_fuel (S f) v =
  if v <? 128 then [ascii_of_N v] else ascii_of_N (v mod 128 + 128) :: varint_enc_fuel f (v / 128).
Proof. reflexivity. Qed.

Lemma pw_varint_aux_cons k shift acc c r :
  pw_varint_aux k shift acc (c :: r) =
  let y := byteN c in
  match k with
  | O => if y <? 2 then Some (acc + y * 2 ^ shift, r) else None
  | S k' => if y <? 128 then Some (acc + y * 2 ^ shift, r)
            else pw_varint_aux k' (shift + 7) (acc + (y - 128) * 2 ^ shift) r
  end.
Proof. destruct k; reflexivity. Qed.

Lemma gogo_varint_aux_S k shift acc c r :
  gogo_varint_aux (S k) shift acc (c :: r) =
  let y := byteN c in
  let acc' := acc + ((y mod 128) * 2 ^ shift) mod two64 in
  if y <? 128 then Some (acc', r) else gogo_varint_aux k (shift + 7) acc' r.
Proof. reflexivity. Qed.

Lemma lt2_of_shift63 v : v * 2 ^ 63 < two64 -> v < 2.
Proof.
  intros Hv. rewrite two64_pow in Hv. change (2 ^ 64) with (2 * 2 ^ 63) in Hv.
  assert (0 < 2 ^ 63) by reflexivity. nia.
Qed.

Lemma pw_aux_enc k : forall v shift acc rest,
  shift + 7 * N.of_nat k = 63 -> v * 2 ^ shift < two64 ->
  pw_varint_aux k shift acc (varint_enc_fuel (S k) v ++ rest) = Some (acc + v * 2 ^ shift, rest).
Proof.
  induction k as [|k IH]; intros v shift acc rest Hs Hv.
  - assert (shift = 63) as -> by lia.
    pose proof (lt2_of_shift63 v Hv) as Hv2.
    rewrite varint_enc_fuel_S.
    destruct (N.ltb_spec v 128) as [_|Hc]; [|lia].
    cbn [app]. rewrite pw_varint_aux_cons. cbv zeta. rewrite byteN_ascii by lia.
    destruct (N.ltb_spec v 2) as [_|Hc]; [|lia]. reflexivity.
  - rewrite varint_enc_fuel_S.
    destruct (N.ltb_spec v 128) as [Hlt|Hge].
    + cbn [app]. rewrite pw_varint_aux_cons. cbv zeta. rewrite byteN_ascii by lia.
      destruct (N.ltb_spec v 128) as [_|Hc]; [|lia]. reflexivity.
    + assert (Hm : v mod 128 < 128) by (apply N.mod_lt; discriminate).
      pose proof (N.div_mod v 128 ltac:(discriminate)) as Hdm.
      remember (v mod 128) as m eqn:Em. remember (v / 128) as q eqn:Eq. clear Em Eq.
      cbn [app]. rewrite pw_varint_aux_cons. cbv zeta. rewrite byteN_ascii by lia.
      destruct (N.ltb_spec (m + 128) 128) as [Hc|_]; [lia|].
      assert (Hp : 2 ^ (shift + 7) = 128 * 2 ^ shift).
      { rewrite N.pow_add_r. change (2 ^ 7) with 128. lia. }
      rewrite IH.
      * f_equal. f_equal. rewrite Hp.
        replace (m + 128 - 128) with m by lia.
        rewrite Hdm. ring.
      * rewrite Nat2N.inj_succ in Hs. lia.
      * rewrite Hp. subst v. nia.
Qed.

Lemma pw_varint_enc v rest : v < two64 -> pw_varint (varint_enc v ++ rest) = Some (v, rest).
Proof.
  intros Hv. unfold pw_varint, varint_enc.
  rewrite pw_aux_enc; [|reflexivity|rewrite N.pow_0_r; lia].
  rewrite N.pow_0_r. f_equal. f_equal. lia.
Qed.

Lemma gogo_aux_enc k : forall v shift acc rest,
  shift + 7 * N.of_nat k = 63 -> v * 2 ^ shift < two64 ->
  gogo_varint_aux (S k) shift acc (varint_enc_fuel (S k) v ++ rest) = Some (acc + v * 2 ^ shift, rest).
Proof.
  induction k as [|k IH]; intros v shift acc rest Hs Hv.
  - assert (shift = 63) as -> by lia.
    pose proof (lt2_of_shift63 v Hv) as Hv2.
    rewrite varint_enc_fuel_S.
    destruct (N.ltb_spec v 128) as [_|Hc]; [|lia].
    cbn [app]. rewrite gogo_varint_aux_S. cbv zeta. rewrite byteN_ascii by lia.
    destruct (N.ltb_spec v 128) as [_|Hc]; [|lia].
    rewrite (N.mod_small v 128) by lia. rewrite N.mod_small by assumption. reflexivity.
  - rewrite varint_enc_fuel_S.
    destruct (N.ltb_spec v 128) as [Hlt|Hge].
    + cbn [app]. rewrite gogo_varint_aux_S. cbv zeta. rewrite byteN_ascii by lia.
      destruct (N.ltb_spec v 128) as [_|Hc]; [|lia].
      rewrite (N.mod_small v 128) by lia. rewrite N.mod_small by assumption. reflexivity.
    + assert (Hm : v mod 128 < 128) by (apply N.mod_lt; discriminate).
      pose proof (N.div_mod v 128 ltac:(discriminate)) as Hdm.
      remember (v mod 128) as m eqn:Em. remember (v / 128) as q eqn:Eq. clear Em Eq.
      cbn [app]. rewrite gogo_varint_aux_S. cbv zeta. rewrite byteN_ascii by lia.
      destruct (N.ltb_spec (m + 128) 128) as [Hc|_]; [lia|].
      assert (Hp : 2 ^ (shift + 7) = 128 * 2 ^ shift).
      { rewrite N.pow_add_r. change (2 ^ 7) with 128. lia. }
      assert (Hmm : (m + 128) mod 128 = m).
      { rewrite <- N.add_mod_idemp_r by discriminate. change (128 mod 128) with 0.
        rewrite N.add_0_r. apply N.mod_small. assumption. }
      rewrite Hmm.
      assert (Hle : m * 2 ^ shift <= v * 2 ^ shift).
      { apply N.mul_le_mono_r. lia. }
      rewrite (N.mod_small (m * 2 ^ shift)) by lia.
      rewrite IH.
      * f_equal. f_equal. rewrite Hp. rewrite Hdm. ring.
      * rewrite Nat2N.inj_succ in Hs. lia.
      * rewrite Hp. subst v. nia.
Qed.

Lemma gogo_varint_enc v rest : v < two64 -> gogo_varint (varint_enc v ++ rest) = Some (v, rest).
Proof.
  intros Hv. unfold gogo_varint, varint_enc.
  rewrite gogo_aux_enc; [|reflexivity|rewrite N.pow_0_r; lia].
  rewrite N.pow_0_r. f_equal. f_equal. lia.
Qed.

Lemma varint_enc_small t : t < 128 -> varint_enc t = [ascii_of_N t].
Proof.
  intros H. unfold varint_enc. cbn [varint_enc_fuel].
  destruct (N.ltb_spec t 128); [reflexivity|lia].
Qed.

(** * encoding as a list of present fields *)

Definition enc_num_field (p : N * bytes) : bytes := enc_str_field (fst p * 8 + 2) (snd p).

Fixpoint enc_fields (l : list (N * bytes)) : bytes :=
  match l with
  | [] => []
  | p :: r => enc_num_field p ++ enc_fields r
  end.

Definition ftpd_field_list (d : FTPD) : list (N * bytes) :=
  [(1, f_denom d); (2, f_amount d); (3, f_sender d); (4, f_receiver d); (5, f_memo d)].

Lemma proto_encode_fields d : proto_encode d = enc_fields (ftpd_field_list d).
Proof. unfold proto_encode, ftpd_field_list. cbn [enc_fields enc_num_field fst snd]. now rewrite app_nil_r. Qed.

Definition field_ok (p : N * bytes) : Prop := 1 <= fst p /\ fst p <= 5 /\ blen (snd p) < two63.

Definition apply_field (m : FTPD) (p : N * bytes) : FTPD :=
  match snd p with [] => m | _ => set_field m (fst p) (snd p) end.

Lemma two63_lt_two64 : two63 < two64.
Proof. reflexivity. Qed.

Ltac consts :=
  assert (two64 = 18446744073709551616) by reflexivity;
  assert (two63 = 9223372036854775808) by reflexivity;
  assert (two32 = 4294967296) by reflexivity;
  assert (two31 = 2147483648) by reflexivity.

(** shape of one present field, as both passes see it *)
Lemma enc_field_shape num s :
  1 <= num -> num <= 5 -> s <> [] ->
  enc_num_field (num, s) = varint_enc (num * 8 + 2) ++ varint_enc (blen s) ++ s.
Proof.
  intros H1 H5 Hs. unfold enc_num_field, enc_str_field. cbn [fst snd].
  destruct s as [|c s']; [congruence|]. clear Hs.
  rewrite (varint_enc_small (num * 8 + 2)) by lia. reflexivity.
Qed.

Lemma tag_div num : (num * 8 + 2) / 8 = num.
Proof. rewrite N.div_add_l by discriminate. change (2 / 8) with 0. lia. Qed.

Lemma tag_mod num : (num * 8 + 2) mod 8 = 2.
Proof. rewrite N.add_comm, N.mod_add by discriminate. reflexivity. Qed.

Definition nonempty (p : N * bytes) : bool := match snd p with [] => false | _ => true end.
Definition present (l : list (N * bytes)) : nat := length (filter nonempty l).

Lemma present_le_length l : (present l <= length (enc_fields l))%nat.
Proof.
  unfold present. induction l as [|[num s] l IH]; cbn [filter enc_fields length]; [lia|].
  unfold nonempty at 1. cbn [snd]. rewrite app_length.
  destruct s as [|c s']; cbn [length enc_num_field enc_str_field fst snd]; [lia|].
  cbn [length]. lia.
Qed.

Lemma reject_fields l : forall f,
  Forall field_ok l -> (present l <= f)%nat -> reject_unknown_aux f (enc_fields l) = true.
Proof.
  induction l as [|[num s] l IH]; intros f Hok Hf.
  - destruct f; reflexivity.
  - inversion Hok as [|? ? [H1 [H5 Hs]] Hok']; subst. cbn [fst snd] in *.
    cbn [enc_fields].
    destruct s as [|c s'].
    + cbn. apply IH; auto.
    + destruct f as [|f]; [cbn in Hf; lia|].
      rewrite enc_field_shape by (auto; discriminate).
      set (s := c :: s') in *.
      rewrite <- !app_assoc.
      assert (Hne : exists x y, varint_enc (num * 8 + 2) ++ varint_enc (blen s) ++ s ++ enc_fields l = x :: y).
      { rewrite (varint_enc_small (num * 8 + 2)) by lia. cbn. eauto. }
      destruct Hne as (x & y & Hne). cbn [reject_unknown_aux]. rewrite Hne. rewrite <- Hne.
      consts.
      rewrite pw_varint_enc by lia.
      rewrite tag_div, tag_mod.
      destruct (N.ltb_spec 2147483647 num) as [Hc|_]; [lia|].
      destruct (N.ltb_spec num 1) as [Hc|_]; [lia|].
      destruct (N.leb_spec num 5) as [_|Hc]; [|lia].
      cbn [N.eqb Pos.eqb].
      rewrite pw_varint_enc by lia.
      rewrite blen_app.
      destruct (N.ltb_spec (blen s + blen (enc_fields l)) (blen s)) as [Hc|_]; [lia|].
      rewrite to_nat_blen, skipn_len_app.
      apply IH; auto. unfold present in *. subst s. cbn [filter nonempty snd length] in Hf. lia.
Qed.

Lemma unmarshal_fields l : forall f m,
  Forall field_ok l -> (present l <= f)%nat ->
  gogo_unmarshal_aux f (enc_fields l) m = Some (fold_left apply_field l m).
Proof.
  induction l as [|[num s] l IH]; intros f m Hok Hf.
  - destruct f; reflexivity.
  - inversion Hok as [|? ? [H1 [H5 Hs]] Hok']; subst. cbn [fst snd] in *.
    cbn [enc_fields fold_left].
    destruct s as [|c s'].
    + cbn [enc_num_field enc_str_field fst snd app]. unfold apply_field at 2. cbn [snd].
      apply IH; auto.
    + destruct f as [|f]; [cbn in Hf; lia|].
      rewrite enc_field_shape by (auto; discriminate).
      set (s := c :: s') in *.
      rewrite <- !app_assoc.
      assert (Hne : exists x y, varint_enc (num * 8 + 2) ++ varint_enc (blen s) ++ s ++ enc_fields l = x :: y).
      { rewrite (varint_enc_small (num * 8 + 2)) by lia. cbn. eauto. }
      destruct Hne as (x & y & Hne). cbn [gogo_unmarshal_aux]. rewrite Hne. rewrite <- Hne.
      consts.
      rewrite gogo_varint_enc by lia.
      rewrite tag_div, tag_mod.
      rewrite (N.mod_small num two32) by lia.
      cbn [N.eqb Pos.eqb].
      destruct (N.eqb_spec num 0) as [Hc|_]; [lia|].
      destruct (N.leb_spec two31 num) as [Hc|_]; [lia|].
      cbn [orb].
      destruct (N.leb_spec num 5) as [_|Hc]; [|lia].
      rewrite gogo_varint_enc by lia.
      destruct (N.leb_spec two63 (blen s)) as [Hc|_]; [lia|].
      rewrite blen_app.
      destruct (N.ltb_spec (blen s + blen (enc_fields l)) (blen s)) as [Hc|_]; [lia|].
      rewrite to_nat_blen, skipn_len_app, firstn_len_app.
      rewrite IH; [reflexivity|assumption|unfold present in *; subst s; cbn [filter nonempty snd length] in Hf; lia].
Qed.

Definition ftpd_small (d : FTPD) : Prop :=
  blen (f_denom d) < two63 /\ blen (f_amount d) < two63 /\ blen (f_sender d) < two63 /\
  blen (f_receiver d) < two63 /\ blen (f_memo d) < two63.

Lemma ftpd_fields_ok d : ftpd_small d -> Forall field_ok (ftpd_field_list d).
Proof.
  intros (H1 & H2 & H3 & H4 & H5). unfold ftpd_field_list, field_ok.
  repeat constructor; cbn [fst snd]; auto; lia.
Qed.

Lemma apply_all_fields d : fold_left apply_field (ftpd_field_list d) empty_ftpd = d.
Proof.
  destruct d as [[|a1 d1] [|a2 d2] [|a3 d3] [|a4 d4] [|a5 d5]]; reflexivity.
Qed.

Lemma reject_fuel_mono f : forall bz, reject_unknown_aux f bz = true -> forall g, (f <= g)%nat -> reject_unknown_aux g bz = true.
Proof.
  induction f as [|f IH]; intros bz H g Hg.
  - destruct bz; [destruct g; reflexivity|discriminate].
  - destruct g as [|g]; [lia|].
    destruct bz as [|c bz]; [reflexivity|].
    cbn [reject_unknown_aux] in *.
    destruct (pw_varint (c :: bz)) as [[tag r1]|]; [|discriminate].
    destruct (2147483647 <? tag / 8); [discriminate|].
    destruct (tag / 8 <? 1); [discriminate|].
    destruct (tag / 8 <=? 5); [|discriminate].
    destruct (tag mod 8 =? 2); [|discriminate].
    destruct (pw_varint r1) as [[len r2]|]; [|discriminate].
    destruct (blen r2 <? len); [discriminate|].
    apply IH; [assumption|lia].
Qed.

Lemma unmarshal_fuel_mono f : forall bz m d, gogo_unmarshal_aux f bz m = Some d ->
  forall g, (f <= g)%nat -> gogo_unmarshal_aux g bz m = Some d.
Proof.
  induction f as [|f IH]; intros bz m d H g Hg.
  - destruct bz; [destruct g; exact H|discriminate].
  - destruct g as [|g]; [lia|].
    destruct bz as [|c bz]; [exact H|].
    cbn [gogo_unmarshal_aux] in *.
    destruct (gogo_varint (c :: bz)) as [[wire r1]|]; [|discriminate].
    destruct (wire mod 8 =? 4); [discriminate|].
    destruct ((wire / 8 mod two32 =? 0) || (two31 <=? wire / 8 mod two32)); [discriminate|].
    destruct (wire / 8 mod two32 <=? 5).
    + destruct (wire mod 8 =? 2); [|discriminate].
      destruct (gogo_varint r1) as [[len r2]|]; [|discriminate].
      destruct (two63 <=? len); [discriminate|].
      destruct (blen r2 <? len); [discriminate|].
      apply IH; [assumption|lia].
    + destruct (skip_packet_aux (S (length (c :: bz))) 0 (c :: bz)) as [rest|]; [|discriminate].
      apply IH; [assumption|lia].
Qed.

(** * round trip *)

Theorem proto_roundtrip d : ftpd_small d -> proto_decode_strict (proto_encode d) = Some d.
Proof.
  intros Hs. pose proof (ftpd_fields_ok d Hs) as Hok.
  unfold proto_decode_strict, reject_unknown, gogo_unmarshal.
  rewrite proto_encode_fields.
  rewrite reject_fields by (auto; apply present_le_length).
  rewrite unmarshal_fields by (auto; apply present_le_length).
  now rewrite apply_all_fields.
Qed.

(** * strictness *)

Lemma reject_known f : forall bz, reject_unknown_aux f bz = true -> known_only bz.
Proof.
  induction f as [|f IH]; intros bz H.
  - destruct bz; [constructor|discriminate].
  - destruct bz as [|c bz]; [constructor|].
    cbn [reject_unknown_aux] in H.
    destruct (pw_varint (c :: bz)) as [[tag r1]|] eqn:E1; [|discriminate].
    destruct (N.ltb_spec 2147483647 (tag / 8)); [discriminate|].
    destruct (N.ltb_spec (tag / 8) 1); [discriminate|].
    destruct (N.leb_spec (tag / 8) 5); [|discriminate].
    destruct (N.eqb_spec (tag mod 8) 2); [|discriminate].
    destruct (pw_varint r1) as [[len r2]|] eqn:E2; [|discriminate].
    destruct (N.ltb_spec (blen r2) len); [discriminate|].
    eapply ko_field; eauto.
Qed.

(** Whatever the strict decoder accepts consists of fields 1..5 with wire type 2 only. *)
Theorem proto_strict_known bz d : proto_decode_strict bz = Some d -> known_only bz.
Proof.
  unfold proto_decode_strict. destruct (reject_unknown bz) eqn:E; [|discriminate].
  intros _. eapply reject_known; eauto.
Qed.

(** The generated Unmarshal alone is lenient (it skips a field 6): strictness comes from pass 1. *)
Theorem gogo_unmarshal_lenient :
  exists bz d, gogo_unmarshal bz = Some d /\ ~ known_only bz /\ proto_decode_strict bz = None.
Proof.
  exists [ascii_of_N 48; ascii_of_N 1], empty_ftpd.
  split; [vm_compute; reflexivity|]. split; [|vm_compute; reflexivity].
  intros H. inversion H as [|bz tag r1 len r2 E1 H1 H5 Hm E2 Hl Hk]; subst.
  vm_compute in E1. injection E1 as <- <-. vm_compute in H5. apply H5. reflexivity.
Qed.

(** * fuel: the strict pass never runs out of fuel (each iteration consumes at least the tag byte) *)

Lemma pw_varint_aux_shorter k : forall shift acc b v r,
  pw_varint_aux k shift acc b = Some (v, r) -> (length r < length b)%nat.
Proof.
  induction k as [|k IH]; intros shift acc b v r H; destruct b as [|c b']; try discriminate; cbn [pw_varint_aux] in H.
  - destruct (byteN c <? 2); [|discriminate]. injection H as _ <-. cbn. lia.
  - destruct (byteN c <? 128).
    + injection H as _ <-. cbn. lia.
    + apply IH in H. cbn. lia.
Qed.

Lemma reject_fuel_indep n : forall bz f g,
  (length bz <= n)%nat -> (n <= f)%nat -> (n <= g)%nat -> reject_unknown_aux f bz = reject_unknown_aux g bz.
Proof.
  induction n as [|n IH]; intros bz f g Hl Hf Hg.
  - destruct bz; [|cbn in Hl; lia]. destruct f, g; reflexivity.
  - destruct bz as [|c bz]; [destruct f, g; reflexivity|].
    destruct f as [|f]; [lia|]. destruct g as [|g]; [lia|].
    cbn [reject_unknown_aux].
    destruct (pw_varint (c :: bz)) as [[tag r1]|] eqn:E1; [|reflexivity].
    destruct (2147483647 <? tag / 8); [reflexivity|].
    destruct (tag / 8 <? 1); [reflexivity|].
    destruct (tag / 8 <=? 5); [|reflexivity].
    destruct (tag mod 8 =? 2); [|reflexivity].
    destruct (pw_varint r1) as [[len r2]|] eqn:E2; [|reflexivity].
    destruct (blen r2 <? len); [reflexivity|].
    apply pw_varint_aux_shorter in E1. apply pw_varint_aux_shorter in E2.
    apply IH; try lia.
    rewrite skipn_length. cbn [length] in *. lia.
Qed.

(** with fuel = input length the [O] branch of [reject_unknown_aux] is never the reason for a rejection:
    any larger fuel gives the same verdict *)
Theorem reject_unknown_fuel_sufficient bz f :
  (length bz <= f)%nat -> reject_unknown_aux f bz = reject_unknown bz.
Proof. intros H. unfold reject_unknown. apply (reject_fuel_indep (length bz)); lia. Qed.
