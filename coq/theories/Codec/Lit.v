(** Compact byte-string literals for the generated correspondence files: elaborating a Coq [string]
    literal costs ~10 term nodes per character, which dominates the evaluation time for records that
    carry kilobytes.  [ib len ints] packs 7 bytes per primitive 63-bit integer (big-endian inside a
    chunk; the last chunk holds the remaining len - 7*(k-1) bytes).  Used only by Corr cases. *)
From Coq Require Import Uint63.
From IBC Require Import Lib.Bytes.

Definition ascii_of_int (x : int) : ascii :=
  Ascii (bit x 0) (bit x 1) (bit x 2) (bit x 3) (bit x 4) (bit x 5) (bit x 6) (bit x 7).

Fixpoint chunk_bytes (k : nat) (x : int) (acc : bytes) : bytes :=
  match k with
  | O => acc
  | S k' => chunk_bytes k' (x >> 8)%uint63 (ascii_of_int x :: acc)
  end.

Fixpoint ints_bytes (len : nat) (l : list int) : bytes :=
  match l with
  | [] => []
  | [x] => chunk_bytes len x []
  | x :: r => chunk_bytes 7 x [] ++ ints_bytes (len - 7) r
  end.

Definition ib (len : N) (l : list int) : bytes := ints_bytes (N.to_nat len) l.

(** sanity: agrees with the string literal form *)
Example ib_ok :
  ib 10 [27411251766584935; 6842730]%uint63 = B "abcdefghij" /\ ib 0 [] = [] /\
  ib 3 [16776960]%uint63 = [ascii_of_N 255; ascii_of_N 255; ascii_of_N 0].
Proof. vm_compute. auto. Qed.
